import P2sh.Model.Builtins
import P2sh.Spec.Format
/-!
# C12 — format and print (model of `src/builtins/print.rs` vs the reference renderer)

* `literal_text`       — a format string without braces renders as itself, whatever the arguments
                         (model), and the reference renderer agrees (`literal_text_spec`);
* `print_len`          — `print`/`println`/`eprint`/`eprintln` return the byte length of what they
                         write (plus one for the newline of the `ln` variants);
* `missing_argument`   — `{}` with no argument left is an error in the model and in the specification.

* `parse_renderText`   — the printer `renderText : List Item → String` (every specifier written
                         canonically as `{[index][:[fill<|>][width][radix]]}`, braces doubled) is read
                         back by the reference parser, for every item list of the grammar (`wfItems`:
                         a fill comes with `<`/`>` and is none of `< > { }`; a radix is one of `b o x X`);
* `format_refines`     — on every such string and every argument list, wherever the reference
                         renderer fixes the outcome the model of `format_buf` has it: the pieces it
                         writes concatenate to the reference text, and a specifier whose argument is
                         missing is an error.  (`format_refines_render`: the same with the reference
                         renderer applied to the string.)  The item lists are exactly those of
                         `parse_renderText` (`wfItems`, the grammar); no condition on widths: the
                         reference is silent above 100000 and the model declines (`⟦huge-width⟧`)
                         only above the same bound.  The one side condition is `args.length < 2^64`
                         (an index ≥ 2^64 does not parse as `usize`).
                         No restriction on the fill: a radix letter, a digit or `:` before `<`/`>` is
                         the fill in the code as in the grammar.

Proof plan: `Steps` (a run of `formatLoop` between two configurations, any sufficient fuel), one
`step_*` lemma per character class, `steps_field` (a whole specifier up to its closing brace ends in
`specState f`), `formatObj_eq` (`format_obj` = width ∘ body ∘ pad), `formatObj_field` (pad/radix/
decimal agree with the reference), `refine_core` (induction over the items with the invariant
"outside a specifier, accumulators empty, `idxArg = next + 1`, pieces so far concatenate to `acc`").
-/
namespace P2sh.Props.C12
open P2sh P2sh.Builtins
open P2sh.Spec.Format (Item Field Just parse parseField digitsVal isRadix render renderItems)

def plain (cs : List Char) : Prop := ∀ c ∈ cs, c ≠ '{' ∧ c ≠ '}'

theorem formatLoop_plain (args : List Val) :
    ∀ (cs : List Char) (fuel : Nat) (st : FState), plain cs → cs.length < fuel → st.inSpec = false →
      formatLoop args fuel cs st = .ok ((cs.map String.singleton).reverse ++ st.out).reverse := by
  intro cs
  induction cs with
  | nil =>
    intro fuel st _ hf _
    cases fuel with
    | zero => simp at hf
    | succ n => simp [formatLoop]; rfl
  | cons c rest ih =>
    intro fuel st hp hf hs
    cases fuel with
    | zero => simp at hf
    | succ n =>
      have hc := hp c (List.mem_cons_self)
      have h1 : (c == '{') = false := by simpa using hc.1
      have h2 : (c == '}') = false := by simpa using hc.2
      simp only [formatLoop, h1, h2, hs, Bool.false_eq_true, if_false]
      rw [ih n _ (fun d hd => hp d (List.mem_cons_of_mem _ hd)) (by simp at hf; omega) (by simpa using hs)]
      simp

/-- **literal text**: a format string without braces is written out character by character,
whatever the arguments -/
theorem literal_text (s : String) (args : List Val) (h : plain s.toList) :
    formatBuf (.str s :: args) = .ok (s.toList.map String.singleton) := by
  simp only [formatBuf]
  rw [formatLoop_plain _ s.toList (s.length + 1) {} h (by simp [String.length]) rfl]
  simp

/-- the reference renderer agrees on literal text -/
theorem parse_plain : ∀ (cs : List Char) (fuel : Nat), plain cs → cs.length < fuel →
    Spec.Format.parse fuel cs = some (cs.map Spec.Format.Item.lit) := by
  intro cs
  induction cs with
  | nil => intro fuel _ hf; cases fuel with
    | zero => simp at hf
    | succ n => rfl
  | cons c rest ih =>
    intro fuel hp hf
    cases fuel with
    | zero => simp at hf
    | succ n =>
      have hc := hp c (List.mem_cons_self)
      have hr := ih n (fun d hd => hp d (List.mem_cons_of_mem _ hd)) (by simp at hf; omega)
      unfold Spec.Format.parse
      split <;> simp_all

/-- **print_len**: the `print` family returns the byte length of the text written, plus one
for the newline of the `ln` variants -/
theorem print_len (args : List Val) (nl : Bool) (text : String) (n : Nat)
    (h : printLen args nl = .ok (text, n)) : n = text.utf8ByteSize := by
  unfold printLen at h
  split at h
  · cases h
  · split at h
    · cases h
    · cases nl with
      | false =>
        simp only [Bool.false_eq_true, if_false, Except.ok.injEq, Prod.mk.injEq] at h
        obtain ⟨h1, h2⟩ := h
        subst h1; omega
      | true =>
        simp only [if_true, Except.ok.injEq, Prod.mk.injEq] at h
        obtain ⟨h1, h2⟩ := h
        subst h1
        rw [String.utf8ByteSize_append]
        have : ("\n" : String).utf8ByteSize = 1 := by decide
        omega

/-- **missing argument**: `{}` with no argument left is a runtime error -/
theorem missing_argument (s : String) :
    formatBuf [.str "{}"] = .error "positional arguments exceeded the count" := by
  rfl


/-! ## the printer and `parse ∘ renderText = id` -/
deriving instance DecidableEq for Spec.Format.Field
deriving instance DecidableEq for Spec.Format.Item

def optChar : Option Char → List Char
  | some c => [c]
  | none => []

def optNum : Option Nat → List Char
  | some n => Nat.toDigits 10 n
  | none => []

def justChars : Just → List Char
  | .dflt => []
  | .left => ['<']
  | .right => ['>']

/-- what follows the colon -/
def specChars (f : Field) : List Char :=
  optChar f.fill ++ (justChars f.just ++ (optNum f.width ++ optChar f.radix))

def fieldChars (f : Field) : List Char :=
  optNum f.index ++ (if (specChars f).isEmpty then [] else ':' :: specChars f)

def itemChars : Item → List Char
  | .lit c => if c = '{' then ['{', '{'] else if c = '}' then ['}', '}'] else [c]
  | .field f => '{' :: (fieldChars f ++ ['}'])

def renderChars : List Item → List Char
  | [] => []
  | it :: rest => itemChars it ++ renderChars rest

def renderText (items : List Item) : String := String.ofList (renderChars items)

def wfField (f : Field) : Bool :=
  (match f.fill with
   | some c => f.just != .dflt && c != '<' && c != '>' && c != '{' && c != '}'
   | none => true)
  && (match f.radix with
   | some r => isRadix r
   | none => true)

def wfItem : Item → Bool
  | .lit _ => true
  | .field f => wfField f

def wfItems (items : List Item) : Bool := items.all wfItem

theorem span_loop {α} (p : α → Bool) (ds rest acc : List α) (hd : ∀ c ∈ ds, p c = true)
    (hr : ∀ c ∈ rest.head?, p c = false) :
    List.span.loop p (ds ++ rest) acc = (acc.reverse ++ ds, rest) := by
  induction ds generalizing acc with
  | nil =>
    cases rest with
    | nil => simp [List.span.loop]
    | cons r rs =>
      have := hr r (by simp)
      simp [List.span.loop, this]
  | cons d ds ih =>
    have h1 := hd d (by simp)
    have := ih (d :: acc) (fun c hc => hd c (by simp [hc]))
    simp [List.span.loop, h1, this]

theorem span_append {α} (p : α → Bool) (ds rest : List α) (hd : ∀ c ∈ ds, p c = true)
    (hr : ∀ c ∈ rest.head?, p c = false) : (ds ++ rest).span p = (ds, rest) := by
  simp [List.span, span_loop p ds rest [] hd hr]

theorem digitsVal_eq (cs : List Char) : digitsVal cs = Nat.ofDigitChars 10 cs 0 := by
  unfold digitsVal Nat.ofDigitChars
  congr 1
  funext a c
  simp [Nat.mul_comm]

theorem digitsVal_toDigits (n : Nat) : digitsVal (Nat.toDigits 10 n) = n := by
  rw [digitsVal_eq, Nat.ofDigitChars_ten_toDigits]

theorem toDigits_isDigit (n : Nat) : ∀ c ∈ Nat.toDigits 10 n, c.isDigit = true :=
  fun _ hc => Nat.isDigit_of_mem_toDigits (by decide) (by decide) hc

theorem optNum_isDigit (o : Option Nat) : ∀ c ∈ optNum o, c.isDigit = true := by
  cases o with
  | none => simp [optNum]
  | some n => exact toDigits_isDigit n

theorem optNum_val (o : Option Nat) :
    (if (optNum o).isEmpty then none else some (digitsVal (optNum o))) = o := by
  cases o with
  | none => simp [optNum]
  | some n =>
    have : (Nat.toDigits 10 n).isEmpty = false := by
      have := @Nat.toDigits_ne_nil n 10
      cases h : Nat.toDigits 10 n <;> simp_all
    simp [optNum, this, digitsVal_toDigits]

def fillJust (spec : List Char) : Option Char × Just × List Char :=
    let (fill, just, rest2) :=
      match spec with
      | c :: '<' :: r => if c != '<' && c != '>' then (some c, Just.left, r) else (none, Just.dflt, spec)
      | _ => (none, Just.dflt, spec)
    let (fill, just, rest2) :=
      if just != .dflt then (fill, just, rest2) else
      match spec with
      | c :: '>' :: r => if c != '<' && c != '>' then (some c, Just.right, r) else (none, Just.dflt, spec)
      | _ => (none, Just.dflt, spec)
    let (just, rest2) :=
      if just != .dflt then (just, rest2) else
      match rest2 with
      | '<' :: r => (Just.left, r)
      | '>' :: r => (Just.right, r)
      | _ => (Just.dflt, rest2)
    (fill, just, rest2)

def widthRadix (index : Option Nat) (fill : Option Char) (just : Just) (rest2 : List Char) : Option Field :=
    let (w, rest3) := rest2.span Char.isDigit
    let width := if w.isEmpty then none else some (digitsVal w)
    match rest3 with
    | [] => some { index := index, fill := fill, just := just, width := width }
    | [r] => if isRadix r then some { index := index, fill := fill, just := just, width := width, radix := some r } else none
    | _ => none

theorem parseField_eq (cs : List Char) : parseField cs =
  (let (idx, rest) := cs.span Char.isDigit
  let index := if idx.isEmpty then none else some (digitsVal idx)
  match rest with
  | [] => some { index := index }
  | [r] => if isRadix r then some { index := index, radix := some r } else none
  | ':' :: spec =>
    let (fill, just, rest2) := fillJust spec
    widthRadix index fill just rest2
  | _ => none) := by
  rfl

/-- the tail of a specifier (width digits and radix letter) has no `<`/`>` -/
def noAngle (xs : List Char) : Prop := ∀ c ∈ xs, c ≠ '<' ∧ c ≠ '>'

theorem fillJust_spec (fill : Option Char) (just : Just) (xs : List Char) (hx : noAngle xs)
    (hf : ∀ c, fill = some c → just ≠ .dflt ∧ c ≠ '<' ∧ c ≠ '>') :
    fillJust (optChar fill ++ (justChars just ++ xs)) = (fill, just, xs) := by
  cases fill with
  | some c =>
    obtain ⟨hj, h1, h2⟩ := hf c rfl
    cases just with
    | dflt => exact absurd rfl hj
    | left => simp [optChar, justChars, fillJust, h1, h2]
    | right => simp [optChar, justChars, fillJust, h1, h2]
  | none =>
    cases just with
    | dflt =>
      simp only [optChar, justChars, List.nil_append]
      match xs, hx with
      | [], _ => simp [fillJust]
      | [a], hx =>
        have := hx a (by simp)
        simp [fillJust, this]
      | a :: b :: r, hx =>
        have ha := hx a (by simp)
        have hb := hx b (by simp)
        simp [fillJust, ha, hb]
    | left =>
      simp only [optChar, justChars, List.nil_append]
      match xs, hx with
      | [], _ => simp [fillJust]
      | a :: r, hx =>
        have ha := hx a (by simp)
        simp [fillJust, ha]
    | right =>
      simp only [optChar, justChars, List.nil_append]
      match xs, hx with
      | [], _ => simp [fillJust]
      | a :: r, hx =>
        have ha := hx a (by simp)
        simp [fillJust, ha]


theorem isRadix_cases {r : Char} (h : isRadix r = true) : r = 'b' ∨ r = 'o' ∨ r = 'x' ∨ r = 'X' := by
  simpa [isRadix, or_assoc] using h

theorem isRadix_notDigit {r : Char} (h : isRadix r = true) : r.isDigit = false := by
  rcases isRadix_cases h with rfl | rfl | rfl | rfl <;> decide

theorem widthRadix_spec (index : Option Nat) (fill : Option Char) (just : Just) (width : Option Nat)
    (radix : Option Char) (hr : ∀ r, radix = some r → isRadix r = true) :
    widthRadix index fill just (optNum width ++ optChar radix)
      = some { index := index, fill := fill, just := just, width := width, radix := radix } := by
  unfold widthRadix
  rw [span_append _ _ _ (optNum_isDigit width)]
  · simp only [optNum_val]
    cases radix with
    | none => simp [optChar]
    | some r => simp [optChar, hr r rfl]
  · cases radix with
    | none => simp [optChar]
    | some r => simpa [optChar] using isRadix_notDigit (hr r rfl)

theorem digit_noAngle {c : Char} (h : c.isDigit = true) : c ≠ '<' ∧ c ≠ '>' := by
  constructor <;> (rintro rfl; simp at h)

theorem tail_noAngle (width : Option Nat) (radix : Option Char)
    (hr : ∀ r, radix = some r → isRadix r = true) : noAngle (optNum width ++ optChar radix) := by
  intro c hc
  rcases List.mem_append.mp hc with h | h
  · exact digit_noAngle (optNum_isDigit width c h)
  · cases radix with
    | none => simp [optChar] at h
    | some r =>
      have : c = r := by simpa [optChar] using h
      subst this
      rcases isRadix_cases (hr c rfl) with rfl | rfl | rfl | rfl <;> decide

theorem wfField_fill {f : Field} (h : wfField f = true) :
    ∀ c, f.fill = some c → f.just ≠ .dflt ∧ c ≠ '<' ∧ c ≠ '>' ∧ c ≠ '{' ∧ c ≠ '}' := by
  intro c hc
  simp [wfField, hc] at h
  obtain ⟨⟨⟨⟨⟨h1, h2⟩, h3⟩, h4⟩, h5⟩, _⟩ := h
  exact ⟨h1, h2, h3, h4, h5⟩

theorem wfField_radix {f : Field} (h : wfField f = true) : ∀ r, f.radix = some r → isRadix r = true := by
  intro r hr
  simp [wfField, hr] at h
  exact h.2

theorem parseField_fieldChars (f : Field) (h : wfField f = true) : parseField (fieldChars f) = some f := by
  have hfill := wfField_fill h
  have hrad := wfField_radix h
  rw [parseField_eq, fieldChars]
  by_cases he : (specChars f).isEmpty = true
  · simp only [he, if_true]
    rw [span_append _ _ _ (optNum_isDigit _) (by simp)]
    simp only [optNum_val]
    obtain ⟨index, fill, just, width, radix⟩ := f
    cases fill <;> cases just <;> cases width <;> cases radix <;>
      simp_all [specChars, optChar, justChars, optNum, Nat.toDigits_ne_nil]
  · have he' : (specChars f).isEmpty = false := by simpa using he
    simp only [he', Bool.false_eq_true, if_false]
    rw [span_append _ _ _ (optNum_isDigit _) (by simp)]
    simp only [optNum_val]
    obtain ⟨a, as, hs⟩ : ∃ a as, specChars f = a :: as := by
      cases hs : specChars f with
      | nil => simp [hs] at he'
      | cons a as => exact ⟨a, as, rfl⟩
    rw [hs]
    simp only []
    rw [← hs, specChars,
      fillJust_spec _ _ _ (tail_noAngle _ _ hrad) (fun c hc => ⟨(hfill c hc).1, (hfill c hc).2.1, (hfill c hc).2.2.1⟩)]
    simp only []
    rw [widthRadix_spec _ _ _ _ _ hrad]


theorem parse_field_step (fuel : Nat) (inside rest : List Char)
    (hin : ∀ c ∈ inside, c ≠ '{' ∧ c ≠ '}') :
    parse (fuel+1) ('{' :: (inside ++ '}' :: rest)) =
      match parseField inside with
      | some f => (parse fuel rest).map (.field f :: ·)
      | none => none := by
  have hspan : (inside ++ '}' :: rest).span (· != '}') = (inside, '}' :: rest) :=
    span_append _ _ _ (fun c hc => by simpa using (hin c hc).2) (by simp)
  have hcont : inside.contains '{' = false := by
    cases h : inside.contains '{' with
    | false => rfl
    | true => 
      rw [List.contains_iff_mem] at h
      exact absurd rfl (hin _ h).1
  have hhead : ∀ r, inside ++ '}' :: rest ≠ '{' :: r := by
    intro r heq
    cases inside with
    | nil => simp at heq
    | cons a as =>
      simp at heq
      exact (hin a (by simp)).1 heq.1
  generalize hX : inside ++ '}' :: rest = X at *
  conv => lhs; unfold parse
  split <;> simp_all
  · rfl
  · rename_i h1 _ _ h2; exact absurd h2.1.symm h1

theorem digit_noBrace {c : Char} (h : c.isDigit = true) : c ≠ '{' ∧ c ≠ '}' := by
  constructor <;> (rintro rfl; simp at h)

theorem fieldChars_noBrace (f : Field) (h : wfField f = true) :
    ∀ c ∈ fieldChars f, c ≠ '{' ∧ c ≠ '}' := by
  have hfill := wfField_fill h
  have hrad := wfField_radix h
  have hspec : ∀ c ∈ specChars f, c ≠ '{' ∧ c ≠ '}' := by
    intro c hc
    simp only [specChars, List.mem_append] at hc
    rcases hc with hc | hc | hc | hc
    · cases hf : f.fill with
      | none => simp [hf, optChar] at hc
      | some d =>
        have : c = d := by simpa [hf, optChar] using hc
        subst this
        exact ⟨(hfill c hf).2.2.2.1, (hfill c hf).2.2.2.2⟩
    · cases hj : f.just <;> simp [hj, justChars] at hc <;> subst hc <;> decide
    · exact digit_noBrace (optNum_isDigit _ c hc)
    · cases hr : f.radix with
      | none => simp [hr, optChar] at hc
      | some r =>
        have : c = r := by simpa [hr, optChar] using hc
        subst this
        rcases isRadix_cases (hrad c hr) with rfl | rfl | rfl | rfl <;> decide
  intro c hc
  simp only [fieldChars, List.mem_append] at hc
  rcases hc with hc | hc
  · exact digit_noBrace (optNum_isDigit _ c hc)
  · split at hc
    · simp at hc
    · rcases List.mem_cons.mp hc with rfl | hc
      · decide
      · exact hspec c hc

theorem parse_lit_step (fuel : Nat) (c : Char) (rest : List Char) (h1 : c ≠ '{') (h2 : c ≠ '}') :
    parse (fuel+1) (c :: rest) = (parse fuel rest).map (.lit c :: ·) := by
  conv => lhs; unfold parse
  split <;> simp_all

theorem parse_renderChars : ∀ (items : List Item) (fuel : Nat), wfItems items = true →
    (renderChars items).length < fuel → parse fuel (renderChars items) = some items := by
  intro items
  induction items with
  | nil =>
    intro fuel _ hf
    cases fuel with
    | zero => simp at hf
    | succ n => rfl
  | cons it rest ih =>
    intro fuel hwf hf
    simp only [wfItems, List.all_cons, Bool.and_eq_true] at hwf
    cases fuel with
    | zero => simp at hf
    | succ n =>
      cases it with
      | lit c =>
        simp only [renderChars, itemChars] at hf ⊢
        by_cases h1 : c = '{'
        · subst h1
          simp only [if_true, List.cons_append, List.nil_append, List.length_cons] at hf ⊢
          rw [parse, ih n hwf.2 (by omega)]
          rfl
        · by_cases h2 : c = '}'
          · subst h2
            rw [if_neg (by decide)] at hf ⊢
            simp only [if_true] at hf ⊢
            simp only [List.cons_append, List.nil_append, List.length_cons] at hf ⊢
            rw [parse, ih n hwf.2 (by omega)]
            rfl
          · simp only [h1, h2, if_false, List.cons_append, List.nil_append, List.length_cons] at hf ⊢
            rw [parse_lit_step _ _ _ h1 h2, ih n hwf.2 (by omega)]
            rfl
      | field f =>
        have hw : wfField f = true := hwf.1
        simp only [renderChars, itemChars, List.cons_append, List.append_assoc, List.nil_append,
          List.length_cons, List.length_append] at hf ⊢
        rw [parse_field_step _ _ _ (fieldChars_noBrace f hw), parseField_fieldChars f hw]
        simp only []
        rw [ih n hwf.2 (by omega)]
        rfl

/-- **the printer is read back by the reference parser** -/
theorem parse_renderText (items : List Item) (h : wfItems items = true) :
    parse ((renderText items).length + 1) (renderText items).toList = some items := by
  simp only [renderText, String.length_ofList, String.toList_ofList]
  exact parse_renderChars items _ h (by omega)

theorem render_renderText (items : List Item) (args : List Val) (h : wfItems items = true) :
    render (renderText items) args = renderItems items args 0 "" := by
  simp only [render, parse_renderText items h]

/-! ## the state machine, one character at a time -/

/-- what the closing brace of a specifier computes: the piece and the next positional index -/
def closePiece (args : List Val) (st : FState) : Except String (String × Nat) :=
  if st.idx.isEmpty then
    if st.idxArg ≥ args.length then .error "positional arguments exceeded the count"
    else match formatObj st.padding st.just st.width st.nf (args.getD st.idxArg .null) with
      | .ok p => .ok (p, st.idxArg + 1)
      | .error e => .error e
  else
    match parseUsize st.idx with
    | none => .error "invalid digit found in string"
    | some i =>
      if i + 1 ≥ args.length then .error "positional argument index exceeded the count"
      else match formatObj st.padding st.just st.width st.nf (args.getD (i + 1) .null) with
        | .ok p => .ok (p, st.idxArg)
        | .error e => .error e

theorem step_close (args : List Val) (fuel : Nat) (rest : List Char) (st : FState) (h : st.inSpec = true) :
    formatLoop args (fuel+1) ('}' :: rest) st =
      match closePiece args st with
      | .ok (p, i) => formatLoop args fuel rest { out := p :: st.out, idxArg := i }
      | .error e => .error e := by
  rw [formatLoop.eq_def]
  simp only [h, closePiece]
  simp
  by_cases h1 : st.idx = ""
  · rw [if_pos h1, if_pos h1]
    by_cases h2 : args.length ≤ st.idxArg
    · rw [if_pos h2, if_pos h2]; rfl
    · rw [if_neg h2, if_neg h2]
      cases formatObj st.padding st.just st.width st.nf (args[st.idxArg]?.getD Val.null) <;> rfl
  · rw [if_neg h1, if_neg h1]
    cases parseUsize st.idx with
    | none => rfl
    | some i =>
      simp only []
      by_cases h2 : args.length ≤ i + 1
      · rw [if_pos h2, if_pos h2]; rfl
      · rw [if_neg h2, if_neg h2]
        cases formatObj st.padding st.just st.width st.nf (args[i + 1]?.getD Val.null) <;> rfl

theorem step_lit (args : List Val) (fuel : Nat) (c : Char) (rest : List Char) (st : FState)
    (h1 : c ≠ '{') (h2 : c ≠ '}') (h : st.inSpec = false) :
    formatLoop args (fuel+1) (c :: rest) st =
      formatLoop args fuel rest { st with out := String.singleton c :: st.out } := by
  rw [formatLoop.eq_def]
  simp only [h, beq_iff_eq, h1, h2, if_false, Bool.false_eq_true]

theorem step_lbrace2 (args : List Val) (fuel : Nat) (rest : List Char) (st : FState) :
    formatLoop args (fuel+1) ('{' :: '{' :: rest) st =
      formatLoop args fuel rest { st with out := "{" :: st.out } := by
  rw [formatLoop.eq_def]
  simp

theorem step_rbrace2 (args : List Val) (fuel : Nat) (rest : List Char) (st : FState)
    (h : st.inSpec = false) :
    formatLoop args (fuel+1) ('}' :: '}' :: rest) st =
      formatLoop args fuel rest { st with out := "}" :: st.out } := by
  rw [formatLoop.eq_def]
  simp [h]

theorem step_open (args : List Val) (fuel : Nat) (rest : List Char) (st : FState)
    (h : rest.headD (Char.ofNat 0) ≠ '{') :
    formatLoop args (fuel+1) ('{' :: rest) st = formatLoop args fuel rest { st with inSpec := true } := by
  rw [formatLoop.eq_def]
  simp only [beq_self_eq_true, if_true, beq_iff_eq, h, if_false]

theorem step_idx (args : List Val) (fuel : Nat) (c : Char) (rest : List Char) (st : FState)
    (hd : c.isDigit = true) (h1 : st.inSpec = true) (h2 : st.inSpecFormat = false) :
    formatLoop args (fuel+1) (c :: rest) st =
      formatLoop args fuel rest { st with idx := st.idx.push c, nf := .none } := by
  have hb : c ≠ 'b' := by rintro rfl; simp at hd
  have ho : c ≠ 'o' := by rintro rfl; simp at hd
  have hx : c ≠ 'x' := by rintro rfl; simp at hd
  have hX : c ≠ 'X' := by rintro rfl; simp at hd
  have h3 : c ≠ '{' := by rintro rfl; simp at hd
  have h4 : c ≠ '}' := by rintro rfl; simp at hd
  have h5 : c ≠ ':' := by rintro rfl; simp at hd
  rw [formatLoop.eq_def]
  simp only [h1, h2, beq_iff_eq, h3, h4, h5, if_false, if_true, Bool.false_and, Bool.false_eq_true]
  all_goals assumption

theorem step_colon (args : List Val) (fuel : Nat) (rest : List Char) (st : FState)
    (h1 : st.inSpec = true) (h2 : st.inSpecFormat = false) :
    formatLoop args (fuel+1) (':' :: rest) st =
      formatLoop args fuel rest { st with inSpecFormat := true } := by
  rw [formatLoop.eq_def]
  simp [h1, h2]

theorem step_fill (args : List Val) (fuel : Nat) (c j : Char) (rest : List Char) (st : FState)
    (h1 : st.inSpec = true) (h2 : st.inSpecFormat = true) (h3 : st.width = "")
    (hj : j = '<' ∨ j = '>') (c1 : c ≠ '{') (c2 : c ≠ '}') (c3 : c ≠ '<') (c4 : c ≠ '>') :
    formatLoop args (fuel+1) (c :: j :: rest) st =
      formatLoop args fuel (j :: rest) { st with width := String.singleton c } := by
  rw [formatLoop.eq_def]
  rcases hj with rfl | rfl <;> simp [h1, h2, h3, c1, c2, c3, c4]

theorem step_just (args : List Val) (fuel : Nat) (j : Char) (rest : List Char) (st : FState)
    (h1 : st.inSpec = true) (h2 : st.inSpecFormat = true) (hj : j = '<' ∨ j = '>') :
    formatLoop args (fuel+1) (j :: rest) st =
      formatLoop args fuel rest { st with padding := st.width, width := "",
                                          just := if j = '<' then .left else .right } := by
  rw [formatLoop.eq_def]
  rcases hj with rfl | rfl <;> simp [h1, h2]


theorem step_wdigit (args : List Val) (fuel : Nat) (c : Char) (rest : List Char) (st : FState)
    (hd : c.isDigit = true) (h1 : st.inSpec = true) (h2 : st.inSpecFormat = true)
    (hn1 : rest.headD (Char.ofNat 0) ≠ '<') (hn2 : rest.headD (Char.ofNat 0) ≠ '>') :
    formatLoop args (fuel+1) (c :: rest) st =
      formatLoop args fuel rest { st with width := st.width.push c, nf := .none } := by
  have hb : c ≠ 'b' := by rintro rfl; simp at hd
  have ho : c ≠ 'o' := by rintro rfl; simp at hd
  have hx : c ≠ 'x' := by rintro rfl; simp at hd
  have hX : c ≠ 'X' := by rintro rfl; simp at hd
  have h3 : c ≠ '{' := by rintro rfl; simp at hd
  have h4 : c ≠ '}' := by rintro rfl; simp at hd
  have h5 : c ≠ ':' := by rintro rfl; simp at hd
  have h6 : c ≠ '<' := by rintro rfl; simp at hd
  have h7 : c ≠ '>' := by rintro rfl; simp at hd
  have e1 : (rest.headD (Char.ofNat 0) == '<') = false := by simpa using hn1
  have e2 : (rest.headD (Char.ofNat 0) == '>') = false := by simpa using hn2
  have e3 : (c == '<') = false := by simpa using h6
  have e4 : (c == '>') = false := by simpa using h7
  have e5 : (c == '{') = false := by simpa using h3
  have e6 : (c == '}') = false := by simpa using h4
  have e7 : (c == ':') = false := by simpa using h5
  rw [formatLoop.eq_def]
  simp only [h1, h2, e1, e2, e3, e4, e5, e6, e7, if_false, if_true, Bool.false_and,
    Bool.false_eq_true, Bool.or_self, Bool.and_false]

def nfOf : Option Char → NumFmt
  | some 'b' => .bin
  | some 'o' => .oct
  | some 'x' => .hex
  | some 'X' => .hexUp
  | _ => .none

theorem step_radix (args : List Val) (fuel : Nat) (r : Char) (rest : List Char) (st : FState)
    (hr : isRadix r = true) (h1 : st.inSpec = true)
    (hn1 : rest.headD (Char.ofNat 0) ≠ '<') (hn2 : rest.headD (Char.ofNat 0) ≠ '>') :
    formatLoop args (fuel+1) (r :: rest) st =
      formatLoop args fuel rest { st with nf := nfOf (some r) } := by
  have e1 : rest.head?.getD (Char.ofNat 0) ≠ '<' := by simpa using hn1
  have e2 : rest.head?.getD (Char.ofNat 0) ≠ '>' := by simpa using hn2
  rw [formatLoop.eq_def]
  have : r = 'b' ∨ r = 'o' ∨ r = 'x' ∨ r = 'X' := by simpa [isRadix, or_assoc] using hr
  rcases this with rfl | rfl | rfl | rfl <;>
    simp [h1, e1, e2, nfOf]


/-! ## runs of the state machine -/

/-- `cs` from `st` runs to `cs'` from `st'` (whatever fuel is left, as long as it suffices) -/
def Steps (args : List Val) (cs : List Char) (st : FState) (cs' : List Char) (st' : FState) : Prop :=
  ∀ fuel, cs.length < fuel →
    ∃ fuel', cs'.length < fuel' ∧ formatLoop args fuel cs st = formatLoop args fuel' cs' st'

theorem Steps.refl (args : List Val) (cs : List Char) (st : FState) : Steps args cs st cs st :=
  fun fuel h => ⟨fuel, h, rfl⟩

theorem Steps.trans {args : List Val} {c1 c2 c3 : List Char} {s1 s2 s3 : FState}
    (h1 : Steps args c1 s1 c2 s2) (h2 : Steps args c2 s2 c3 s3) : Steps args c1 s1 c3 s3 := by
  intro fuel hf
  obtain ⟨f2, hf2, e1⟩ := h1 fuel hf
  obtain ⟨f3, hf3, e2⟩ := h2 f2 hf2
  exact ⟨f3, hf3, e1.trans e2⟩

theorem Steps.one {args : List Val} {c : Char} {rest : List Char} {st st' : FState}
    (h : ∀ fuel, formatLoop args (fuel+1) (c :: rest) st = formatLoop args fuel rest st') :
    Steps args (c :: rest) st rest st' := by
  intro fuel hf
  cases fuel with
  | zero => simp at hf
  | succ n => exact ⟨n, by simpa using hf, h n⟩

theorem Steps.two {args : List Val} {c d : Char} {rest : List Char} {st st' : FState}
    (h : ∀ fuel, formatLoop args (fuel+1) (c :: d :: rest) st = formatLoop args fuel rest st') :
    Steps args (c :: d :: rest) st rest st' := by
  intro fuel hf
  cases fuel with
  | zero => simp at hf
  | succ n => exact ⟨n, by simp at hf; omega, h n⟩

/-- index digits -/
theorem steps_idx (args : List Val) (ds rest : List Char) (hd : ∀ c ∈ ds, c.isDigit = true) :
    ∀ (st : FState), st.inSpec = true → st.inSpecFormat = false → st.nf = .none →
      Steps args (ds ++ rest) st rest { st with idx := st.idx ++ String.ofList ds } := by
  induction ds with
  | nil =>
    intro st _ _ _
    simpa using Steps.refl args rest st
  | cons d ds ih =>
    intro st h1 h2 h3
    obtain ⟨out, idxArg, inSpec, inSpecFormat, just, width, padding, idx, nf⟩ := st
    simp only at h1 h2 h3
    subst h1 h2 h3
    have s1 := Steps.one (fun fuel => step_idx args fuel d (ds ++ rest)
      ⟨out, idxArg, true, false, just, width, padding, idx, .none⟩ (hd d (by simp)) rfl rfl)
    have s2 := ih (fun c hc => hd c (by simp [hc]))
      ⟨out, idxArg, true, false, just, width, padding, idx.push d, .none⟩ rfl rfl rfl
    have e : idx.push d ++ String.ofList ds = idx ++ String.ofList (d :: ds) := by
      rw [String.ofList_cons, String.push_eq_append, String.append_assoc]
    have := s1.trans s2
    simp only [e] at this
    exact this


/-- width digits -/
theorem steps_width (args : List Val) (ds rest : List Char) (hd : ∀ c ∈ ds, c.isDigit = true)
    (hn1 : rest.headD (Char.ofNat 0) ≠ '<') (hn2 : rest.headD (Char.ofNat 0) ≠ '>') :
    ∀ (st : FState), st.inSpec = true → st.inSpecFormat = true → st.nf = .none →
      Steps args (ds ++ rest) st rest { st with width := st.width ++ String.ofList ds } := by
  induction ds with
  | nil =>
    intro st _ _ _
    simpa using Steps.refl args rest st
  | cons d ds ih =>
    intro st h1 h2 h3
    obtain ⟨out, idxArg, inSpec, inSpecFormat, just, width, padding, idx, nf⟩ := st
    simp only at h1 h2 h3
    subst h1 h2 h3
    have hnext : (ds ++ rest).headD (Char.ofNat 0) ≠ '<' ∧ (ds ++ rest).headD (Char.ofNat 0) ≠ '>' := by
      cases ds with
      | nil => exact ⟨hn1, hn2⟩
      | cons e es => exact digit_noAngle (hd e (by simp))
    have s1 := Steps.one (fun fuel => step_wdigit args fuel d (ds ++ rest)
      ⟨out, idxArg, true, true, just, width, padding, idx, .none⟩ (hd d (by simp)) rfl rfl hnext.1 hnext.2)
    have s2 := ih (fun c hc => hd c (by simp [hc]))
      ⟨out, idxArg, true, true, just, width.push d, padding, idx, .none⟩ rfl rfl rfl
    have e : width.push d ++ String.ofList ds = width ++ String.ofList (d :: ds) := by
      rw [String.ofList_cons, String.push_eq_append, String.append_assoc]
    have := s1.trans s2
    simp only [e] at this
    exact this

def justOf : Just → Justify
  | .dflt => .dflt
  | .left => .left
  | .right => .right

/-- optional fill and justification -/
theorem steps_filljust (args : List Val) (fill : Option Char) (just : Just) (tail : List Char)
    (hf : ∀ c, fill = some c → just ≠ .dflt ∧ c ≠ '<' ∧ c ≠ '>' ∧ c ≠ '{' ∧ c ≠ '}')
    (st : FState) (h1 : st.inSpec = true) (h2 : st.inSpecFormat = true) (h3 : st.width = "")
    (h4 : st.padding = "") (h5 : st.just = .dflt) :
    Steps args (optChar fill ++ (justChars just ++ tail)) st tail
      { st with padding := String.ofList (optChar fill), just := justOf just } := by
  obtain ⟨out, idxArg, inSpec, inSpecFormat, j0, width, padding, idx, nf⟩ := st
  simp only at h1 h2 h3 h4 h5
  subst h1 h2 h3 h4 h5
  cases fill with
  | none =>
    cases just with
    | dflt => exact Steps.refl _ _ _
    | left =>
      exact Steps.one (fun fuel => step_just args fuel '<' tail _ rfl rfl (Or.inl rfl))
    | right =>
      exact Steps.one (fun fuel => step_just args fuel '>' tail _ rfl rfl (Or.inr rfl))
  | some c =>
    obtain ⟨hj, c3, c4, c1, c2⟩ := hf c rfl
    cases just with
    | dflt => exact absurd rfl hj
    | left =>
      have s1 := Steps.one (fun fuel => step_fill args fuel c '<' tail
        ⟨out, idxArg, true, true, .dflt, "", "", idx, nf⟩ rfl rfl rfl (Or.inl rfl) c1 c2 c3 c4)
      have s2 := Steps.one (fun fuel => step_just args fuel '<' tail
        ⟨out, idxArg, true, true, .dflt, String.singleton c, "", idx, nf⟩ rfl rfl (Or.inl rfl))
      exact s1.trans s2
    | right =>
      have s1 := Steps.one (fun fuel => step_fill args fuel c '>' tail
        ⟨out, idxArg, true, true, .dflt, "", "", idx, nf⟩ rfl rfl rfl (Or.inr rfl) c1 c2 c3 c4)
      have s2 := Steps.one (fun fuel => step_just args fuel '>' tail
        ⟨out, idxArg, true, true, .dflt, String.singleton c, "", idx, nf⟩ rfl rfl (Or.inr rfl))
      exact s1.trans s2

/-- optional radix letter -/
theorem steps_radix (args : List Val) (radix : Option Char) (tail : List Char)
    (hr : ∀ r, radix = some r → isRadix r = true)
    (hn1 : tail.headD (Char.ofNat 0) ≠ '<') (hn2 : tail.headD (Char.ofNat 0) ≠ '>')
    (st : FState) (h1 : st.inSpec = true) (h3 : st.nf = .none) :
    Steps args (optChar radix ++ tail) st tail { st with nf := nfOf radix } := by
  cases radix with
  | none =>
    obtain ⟨out, idxArg, inSpec, inSpecFormat, j0, width, padding, idx, nf⟩ := st
    simp only at h3
    subst h3
    exact Steps.refl _ _ _
  | some r =>
    exact Steps.one (fun fuel => step_radix args fuel r tail st (hr r rfl) h1 hn1 hn2)


/-- the state just before the closing brace of the specifier `f` -/
def specState (o : List String) (k : Nat) (f : Field) : FState :=
  { out := o, idxArg := k, inSpec := true, inSpecFormat := !(specChars f).isEmpty,
    just := justOf f.just, width := String.ofList (optNum f.width),
    padding := String.ofList (optChar f.fill), idx := String.ofList (optNum f.index),
    nf := nfOf f.radix }

theorem head_fieldChars (f : Field) (h : wfField f = true) (rest : List Char) :
    (fieldChars f ++ '}' :: rest).headD (Char.ofNat 0) ≠ '{' := by
  cases hfc : fieldChars f with
  | nil => simp
  | cons a as =>
    have := (fieldChars_noBrace f h a (by simp [hfc])).1
    simpa using this

theorem head_radix_close (radix : Option Char) (hr : ∀ r, radix = some r → isRadix r = true)
    (rest : List Char) :
    (optChar radix ++ '}' :: rest).headD (Char.ofNat 0) ≠ '<' ∧
    (optChar radix ++ '}' :: rest).headD (Char.ofNat 0) ≠ '>' := by
  cases radix with
  | none => simp [optChar]
  | some r =>
    rcases isRadix_cases (hr r rfl) with rfl | rfl | rfl | rfl <;> simp [optChar]

/-- **a whole specifier, up to its closing brace** -/
theorem steps_field (args : List Val) (f : Field) (h : wfField f = true) (rest : List Char)
    (o : List String) (k : Nat) :
    Steps args ('{' :: (fieldChars f ++ '}' :: rest)) { out := o, idxArg := k }
      ('}' :: rest) (specState o k f) := by
  have hfill := wfField_fill h
  have hrad := wfField_radix h
  have s1 : Steps args ('{' :: (fieldChars f ++ '}' :: rest)) { out := o, idxArg := k }
      (fieldChars f ++ '}' :: rest) { out := o, idxArg := k, inSpec := true } :=
    Steps.one (fun fuel => step_open args fuel _ _ (head_fieldChars f h rest))
  refine s1.trans ?_
  unfold fieldChars
  rw [List.append_assoc]
  have s2 := steps_idx args (optNum f.index)
    ((if (specChars f).isEmpty then [] else ':' :: specChars f) ++ '}' :: rest) (optNum_isDigit _)
    { out := o, idxArg := k, inSpec := true } rfl rfl rfl
  refine s2.trans ?_
  simp only [String.empty_append]
  by_cases he : (specChars f).isEmpty = true
  · simp only [he, if_true, List.nil_append]
    obtain ⟨index, fill, just, width, radix⟩ := f
    have : fill = none ∧ just = .dflt ∧ width = none ∧ radix = none := by
      cases fill <;> cases just <;> cases width <;> cases radix <;>
        simp_all [specChars, optChar, justChars, optNum, Nat.toDigits_ne_nil]
    obtain ⟨rfl, rfl, rfl, rfl⟩ := this
    exact Steps.refl _ _ _
  · have he' : (specChars f).isEmpty = false := by simpa using he
    simp only [he', Bool.false_eq_true, if_false, List.cons_append]
    have s3 := Steps.one (fun fuel => step_colon args fuel (specChars f ++ '}' :: rest)
      { out := o, idxArg := k, inSpec := true, idx := String.ofList (optNum f.index) } rfl rfl)
    refine s3.trans ?_
    unfold specChars
    simp only [List.append_assoc]
    have s4 := steps_filljust args f.fill f.just (optNum f.width ++ (optChar f.radix ++ '}' :: rest)) hfill
      { out := o, idxArg := k, inSpec := true, inSpecFormat := true, idx := String.ofList (optNum f.index) }
      rfl rfl rfl rfl rfl
    refine s4.trans ?_
    have hh := head_radix_close f.radix hrad rest
    have s5 := steps_width args (optNum f.width) (optChar f.radix ++ '}' :: rest) (optNum_isDigit _) hh.1 hh.2
      { out := o, idxArg := k, inSpec := true, inSpecFormat := true, idx := String.ofList (optNum f.index),
        padding := String.ofList (optChar f.fill), just := justOf f.just } rfl rfl rfl
    refine s5.trans ?_
    have s6 := steps_radix args f.radix ('}' :: rest) hrad (by simp) (by simp)
      { out := o, idxArg := k, inSpec := true, inSpecFormat := true, idx := String.ofList (optNum f.index),
        padding := String.ofList (optChar f.fill), just := justOf f.just,
        width := "" ++ String.ofList (optNum f.width) } rfl rfl
    simp only [String.empty_append] at s6 ⊢
    simpa [specState, he'] using s6


/-! ## `format_obj` in three stages -/

def widthOf (widthStr : String) : Except String Nat :=
  if widthStr.isEmpty then .ok 0 else
    match parseUsize widthStr with
    | some w => .ok w
    | none => .error "Failed to parse width"

def bodyOf (widthStr : String) (nf : NumFmt) (obj : Val) : Except String String :=
  match nf with
  | .bin => (match obj with | .int n => .ok (showRadix 2 false n.toUInt64.toNat) | _ => .error "Can't format non-number as binary")
  | .oct => (match obj with | .int n => .ok (showRadix 8 false n.toUInt64.toNat) | _ => .error "Can't format non-number as octal")
  | .hex => (match obj with | .int n => .ok (showRadix 16 false n.toUInt64.toNat) | _ => .error "Can't format non-number as hex")
  | .hexUp => (match obj with | .int n => .ok (showRadix 16 true n.toUInt64.toNat) | _ => .error "Can't format non-number as hex")
  | .none => (match obj with
      | .str t => .ok t
      | o => match display o with
        | some s => if s.contains '⟦' && !widthStr.isEmpty then .error "⟦unmodelled-display⟧" else .ok s
        | none => .error "⟦unmodelled-display⟧")

def padOut (padding : String) (just : Justify) (width : Nat) (obj : Val) (formatted : String) : Except String String :=
  let padding := if padding.isEmpty then " " else padding
  let widthPad := width - formatted.utf8ByteSize
  if widthPad > 100000 then .error "⟦huge-width⟧" else
  let padded := repeatS padding widthPad
  let isInt := match obj with | .int _ => true | _ => false
  let j := match just with
    | .dflt => if isInt then Justify.right else Justify.left
    | j => j
  .ok (match j with
    | .left => formatted ++ padded
    | _ => padded ++ formatted)

theorem formatObj_eq (padding : String) (just : Justify) (widthStr : String) (nf : NumFmt) (obj : Val) :
    formatObj padding just widthStr nf obj =
      match widthOf widthStr with
      | .error e => .error e
      | .ok width => match bodyOf widthStr nf obj with
        | .error e => .error e
        | .ok formatted => padOut padding just width obj formatted := by
  unfold formatObj widthOf bodyOf
  by_cases hw : widthStr.isEmpty = true
  · simp only [hw, if_true]
    cases nf <;> cases obj <;> first | rfl | (simp only [bind, Except.bind, pure, Except.pure]; cases display _ with | none => rfl | some s => (simp only []; generalize (s.contains '⟦' && _) = bb; cases bb <;> rfl))
  · simp only [hw]
    cases parseUsize widthStr with
    | none => rfl
    | some w =>
      cases nf <;> cases obj <;> first | rfl | (simp only [bind, Except.bind, pure, Except.pure]; cases display _ with | none => rfl | some s => (simp only []; generalize (s.contains '⟦' && _) = bb; cases bb <;> rfl))

/-! ## numbers read back by the model -/

theorem foldlM_digits (ds : List Char) (hd : ∀ c ∈ ds, c.isDigit = true) (acc : Nat) :
    ds.foldlM (fun acc c => if c.isDigit then some (acc * 10 + (c.toNat - 48)) else none) acc
      = some (ds.foldl (fun a c => a * 10 + (c.toNat - 48)) acc) := by
  induction ds generalizing acc with
  | nil => rfl
  | cons d ds ih =>
    have h1 := hd d (by simp)
    simp only [List.foldlM_cons, List.foldl_cons, h1, if_true]
    exact ih (fun c hc => hd c (by simp [hc])) _

theorem parseDigits_toDigits (n : Nat) : parseDigits (Nat.toDigits 10 n) = some n := by
  have hne := @Nat.toDigits_ne_nil n 10
  have hd := toDigits_isDigit n
  have hv := digitsVal_toDigits n
  unfold digitsVal at hv
  cases h : Nat.toDigits 10 n with
  | nil => exact absurd h hne
  | cons d ds =>
    rw [h] at hd hv
    unfold parseDigits
    simp only []
    rw [foldlM_digits _ hd, hv]

theorem parseUsize_toDigits (n : Nat) :
    parseUsize (String.ofList (Nat.toDigits 10 n)) = if n < 18446744073709551616 then some n else none := by
  have hd := toDigits_isDigit n
  have hp := parseDigits_toDigits n
  unfold parseUsize
  simp only [String.toList_ofList]
  cases h : Nat.toDigits 10 n with
  | nil => exact absurd h Nat.toDigits_ne_nil
  | cons d ds =>
    rw [h] at hd hp
    have : d ≠ '+' := by
      have := hd d (by simp)
      rintro rfl
      simp at this
    split
    · rename_i heq
      split at heq
      · rename_i h2; cases h2; exact absurd rfl this
      · rw [hp] at heq; cases heq; rfl
    · rename_i heq
      split at heq
      · rename_i h2; cases h2; exact absurd rfl this
      · rw [hp] at heq; cases heq

theorem ofList_toDigits_isEmpty (n : Nat) : (String.ofList (Nat.toDigits 10 n)).isEmpty = false := by
  cases h : (String.ofList (Nat.toDigits 10 n)).isEmpty with
  | false => rfl
  | true =>
    rw [String.isEmpty_iff] at h
    have := congrArg String.toList h
    simp only [String.toList_ofList] at this
    exact absurd this Nat.toDigits_ne_nil


/-! ## decimal and radix text: model = reference -/

theorem digitChar_eq (d : Nat) (h : d < 10) : Builtins.digitChar d = Nat.digitChar d := by
  have : ∀ d : Fin 10, Builtins.digitChar d.val = Nat.digitChar d.val := by decide
  exact this ⟨d, h⟩

theorem natDigits_eq : ∀ (fuel n : Nat), n < fuel → natDigits fuel n = Nat.toDigits 10 n := by
  intro fuel
  induction fuel with
  | zero => intro n h; omega
  | succ f ih =>
    intro n h
    rw [natDigits, Nat.toDigits_eq_if (by decide)]
    by_cases hn : n < 10
    · simp only [hn, if_true, digitChar_eq n hn]
    · simp only [hn, if_false]
      rw [ih (n / 10) (by omega), digitChar_eq (n % 10) (by omega)]

theorem showNat_eq (n : Nat) : showNat n = Nat.repr n := by
  rw [showNat, natDigits_eq _ _ (by omega), Nat.repr]

theorem showInt_eq (i : Int) : showInt i = toString i := by
  unfold showInt
  cases i with
  | ofNat m =>
    have : ¬ (Int.ofNat m < 0) := by simp
    rw [if_neg this, showNat_eq]
    rfl
  | negSucc m =>
    have : Int.negSucc m < 0 := Int.negSucc_lt_zero m
    rw [if_pos this, showNat_eq]
    rfl

theorem radixGo_eq (r : Char) : ∀ (fuel v : Nat),
    Spec.Format.radixText.go (if r == 'b' then 2 else if r == 'o' then 8 else 16) (r == 'X') fuel v =
      radixDigits (if r == 'b' then 2 else if r == 'o' then 8 else 16) (r == 'X') fuel v := by
  intro fuel
  induction fuel with
  | zero => intro v; rfl
  | succ f ih =>
    intro v
    simp only [Spec.Format.radixText.go, radixDigits, ih]


/-! ## ASCII text, repetition -/

theorem utf8ByteSize_ofList_ascii (l : List Char) (h : l.all (·.toNat < 128) = true) :
    (String.ofList l).utf8ByteSize = l.length := by
  induction l with
  | nil => rfl
  | cons c l ih =>
    simp only [List.all_cons, Bool.and_eq_true, decide_eq_true_eq] at h
    have hc : c.utf8Size = 1 := by
      rw [Char.utf8Size_eq_one_iff, UInt32.le_iff_toNat_le]
      have : c.val.toNat = c.toNat := rfl
      simp only [this]
      have h1 := h.1
      show c.toNat ≤ 127
      omega
    rw [String.ofList_cons, String.utf8ByteSize_append, String.utf8ByteSize_singleton, hc, ih h.2]
    simp only [List.length_cons]; omega

theorem utf8ByteSize_ascii (s : String) (h : s.toList.all (·.toNat < 128) = true) :
    s.utf8ByteSize = s.length := by
  have := utf8ByteSize_ofList_ascii s.toList h
  rwa [String.ofList_toList, String.length_toList] at this

theorem repeatS_singleton (c : Char) (n : Nat) :
    repeatS (String.singleton c) n = String.ofList (List.replicate n c) := by
  induction n with
  | zero => rfl
  | succ n ih => rw [repeatS, ih, List.replicate_succ, String.ofList_cons]

theorem ascii_no_marker (s : String) (h : s.toList.all (·.toNat < 128) = true) :
    s.contains '⟦' = false := by
  rw [String.contains_char_eq]
  simp only [decide_eq_false_iff_not]
  intro hm
  have := List.all_eq_true.mp h _ hm
  simp at this



/-! ## one specifier: reference renderer and model -/

def isIntV : Val → Bool
  | .int _ => true
  | _ => false

/-- the text the reference renderer fixes for one specifier and its argument (`none` = unconstrained) -/
def fieldOut (f : Field) (v : Val) : Option String :=
  match f.radix, v with
  | some r, .int n => Spec.Format.pad f true (Spec.Format.radixText r n)
  | some _, _ => none
  | none, v => (Spec.Format.valueText v).bind (Spec.Format.pad f (isIntV v))

theorem renderItems_field (f : Field) (rest : List Item) (args : List Val) (next : Nat) (acc : String) :
    renderItems (.field f :: rest) args next acc =
      match args[f.index.getD next]? with
      | none => .error
      | some v =>
        match fieldOut f v with
        | some t => renderItems rest args (if f.index.isSome then next else next + 1) (acc ++ t)
        | none => .any := by
  obtain ⟨index, fill, just, width, radix⟩ := f
  have key : ∀ (i next' : Nat),
      (match args[i]? with
      | none => Spec.Format.Out.error
      | some v =>
        let isInt := match v with | .int _ => true | _ => false
        let body : Option String := match radix with
          | some r => (match v with | .int n => some (Spec.Format.radixText r n) | _ => none)
          | none => Spec.Format.valueText v
        match radix, v with
        | some _, .int _ | none, _ =>
          (match body with
           | none => .any
           | some s => match Spec.Format.pad ⟨index, fill, just, width, radix⟩ isInt s with
             | some t => renderItems rest args next' (acc ++ t)
             | none => .any)
        | some _, _ => .any) =
      match args[i]? with
      | none => .error
      | some v =>
        match fieldOut ⟨index, fill, just, width, radix⟩ v with
        | some t => renderItems rest args next' (acc ++ t)
        | none => .any := by
    intro i next'
    cases args[i]? with
    | none => rfl
    | some v =>
      cases radix <;> cases v <;> simp only [fieldOut, isIntV, Spec.Format.valueText, Option.bind] <;>
        (try rfl) <;> (split <;> rfl)
  cases index with
  | none => exact key next (next + 1)
  | some n => exact key n next


theorem widthOf_field (width : Option Nat) (h : ∀ w, width = some w → w ≤ 100000) :
    widthOf (String.ofList (optNum width)) = .ok (width.getD 0) := by
  cases width with
  | none => rfl
  | some w =>
    have := h w rfl
    simp only [widthOf, optNum, ofList_toDigits_isEmpty, Bool.false_eq_true, if_false,
      parseUsize_toDigits, Option.getD]
    rw [if_pos (by omega)]

theorem radixText_eq (r : Char) (n : Int64) :
    Spec.Format.radixText r n =
      showRadix (if r == 'b' then 2 else if r == 'o' then 8 else 16) (r == 'X') n.toUInt64.toNat := by
  simp only [Spec.Format.radixText, showRadix, radixGo_eq]

theorem bodyOf_radix (W : String) (r : Char) (hr : isRadix r = true) (n : Int64) :
    bodyOf W (nfOf (some r)) (.int n) = .ok (Spec.Format.radixText r n) := by
  rw [radixText_eq]
  rcases isRadix_cases hr with rfl | rfl | rfl | rfl <;> rfl

theorem bodyOf_value (W : String) (v : Val) (s : String) (hv : Spec.Format.valueText v = some s)
    (hc : W.isEmpty = true ∨ s.toList.all (·.toNat < 128) = true) :
    bodyOf W .none v = .ok s := by
  have hcond : (s.contains '⟦' && !W.isEmpty) = false := by
    rcases hc with h | h
    · simp [h]
    · simp [ascii_no_marker s h]
  cases v <;> simp only [Spec.Format.valueText, Option.some.injEq, reduceCtorEq] at hv
  case null =>
    subst hv
    simp only [bodyOf, display]
    rw [hcond]; rfl
  case str =>
    subst hv; rfl
  case int =>
    subst hv
    simp only [bodyOf, display, showI64, showInt_eq, Spec.Builtins.decimal] at hcond ⊢
    rw [hcond]; rfl
  case bool =>
    subst hv
    simp only [bodyOf, display]
    rw [hcond]; rfl


/-- padding: where the reference renderer fixes the padded text (ASCII, width ≤ 100000), the
model's `padOut` produces it — the model declines (`⟦huge-width⟧`) only above the same bound -/
theorem padOut_spec (f : Field) (v : Val) (s t : String)
    (hp : Spec.Format.pad f (isIntV v) s = some t) :
    padOut (String.ofList (optChar f.fill)) (justOf f.just) (f.width.getD 0) v s = .ok t ∧
      (f.width = none ∨ s.toList.all (·.toNat < 128) = true) ∧
      (∀ w, f.width = some w → w ≤ 100000) := by
  obtain ⟨index, fill, just, width, radix⟩ := f
  cases width with
  | none =>
    simp only [Spec.Format.pad, Option.some.injEq] at hp
    subst hp
    refine ⟨?_, Or.inl rfl, fun w hw => by cases hw⟩
    simp only [padOut, Option.getD, Nat.zero_sub, repeatS, String.append_empty, String.empty_append]
    rw [if_neg (by omega)]
    congr 1
    split <;> rfl
  | some w =>
    simp only [Spec.Format.pad] at hp
    split at hp
    · cases hp
    · rename_i h1
      split at hp
      · cases hp
      · rename_i h2
        simp only [Bool.or_eq_true, Bool.not_eq_true', decide_eq_true_eq, not_or, Bool.not_eq_false] at h1
        obtain ⟨ha, hf⟩ := h1
        have hw' : w ≤ 100000 := by omega
        refine ⟨?_, Or.inr ha, fun w' hw'' => by cases hw''; exact hw'⟩
        simp only [Option.some.injEq] at hp
        subst hp
        have hsz : s.utf8ByteSize = s.length := utf8ByteSize_ascii s ha
        have hpadding : (if (String.ofList (optChar fill)).isEmpty = true then " " else String.ofList (optChar fill))
            = String.singleton (fill.getD ' ') := by
          cases fill with
          | none => rfl
          | some c =>
            have : (String.ofList [c]).isEmpty = false := by
              cases h : (String.ofList [c]).isEmpty with
              | false => rfl
              | true =>
                rw [String.isEmpty_iff] at h
                have := congrArg String.toList h
                simp at this
            simp only [optChar, this, Bool.false_eq_true, if_false, Option.getD]
            rfl
        simp only [padOut, Option.getD, hpadding, hsz, repeatS_singleton]
        rw [if_neg (by omega)]
        congr 1
        cases just <;> simp only [justOf]
        · cases v <;> rfl
        · rfl
        · rfl


/-- **one specifier, one argument**: where the reference renderer fixes the text, `format_obj`
produces it -/
theorem formatObj_field (f : Field) (h : wfField f = true) (v : Val) (t : String)
    (ht : fieldOut f v = some t) :
    formatObj (String.ofList (optChar f.fill)) (justOf f.just) (String.ofList (optNum f.width))
      (nfOf f.radix) v = .ok t := by
  have hrad := wfField_radix h
  rw [formatObj_eq]
  cases hr : f.radix with
  | some r =>
    cases v <;> simp only [fieldOut, hr, reduceCtorEq] at ht
    rename_i n
    obtain ⟨h1, _, h3⟩ := padOut_spec f (.int n) _ t ht
    rw [widthOf_field f.width h3]
    simp only []
    rw [bodyOf_radix _ r (hrad r hr) n]
    simp only []
    exact h1
  | none =>
    simp only [fieldOut, hr] at ht
    cases hv : Spec.Format.valueText v with
    | none => simp [hv] at ht
    | some s =>
      simp only [hv, Option.bind] at ht
      obtain ⟨h1, h2, h3⟩ := padOut_spec f v s t ht
      have hc : (String.ofList (optNum f.width)).isEmpty = true ∨ s.toList.all (·.toNat < 128) = true := by
        rcases h2 with h2 | h2
        · left; rw [h2]; rfl
        · right; exact h2
      rw [widthOf_field f.width h3]
      simp only [nfOf]
      rw [bodyOf_value _ v s hv hc]
      exact h1

/-- what the closing brace does with the accumulated specifier `f` -/
theorem closePiece_field (a0 : Val) (args : List Val) (hargs : args.length < 18446744073709551616)
    (f : Field) (o : List String) (next : Nat) :
    match args[f.index.getD next]? with
    | none => ∃ e, closePiece (a0 :: args) (specState o (next + 1) f) = .error e
    | some v =>
      closePiece (a0 :: args) (specState o (next + 1) f) =
        match formatObj (String.ofList (optChar f.fill)) (justOf f.just) (String.ofList (optNum f.width))
            (nfOf f.radix) v with
        | .ok p => .ok (p, (if f.index.isSome then next else next + 1) + 1)
        | .error e => .error e := by
  have hget : ∀ k v, args[k]? = some v → (a0 :: args).getD (k + 1) Val.null = v := by
    intro k v hk
    simp [List.getD, hk]
  have hnone : ∀ k, args[k]? = none → args.length ≤ k := by
    intro k hk; simpa using hk
  have hsome : ∀ k v, args[k]? = some v → k < args.length := by
    intro k v hk
    rcases Nat.lt_or_ge k args.length with h | h
    · exact h
    · have : args[k]? = none := by simpa using h
      rw [this] at hk; cases hk
  unfold closePiece specState
  simp only [List.length_cons]
  cases hi : f.index with
  | none =>
    have e1 : (String.ofList (optNum (none : Option Nat))).isEmpty = true := rfl
    simp only [e1, if_true, Option.getD, Option.isSome]
    cases hv : args[next]? with
    | none =>
      have := hnone next hv
      simp only []
      rw [if_pos (by omega)]
      exact ⟨_, rfl⟩
    | some v =>
      have := hsome next v hv
      simp only []
      rw [if_neg (by omega), hget next v hv]
      rfl
  | some n =>
    simp only [optNum, ofList_toDigits_isEmpty, Bool.false_eq_true, if_false, parseUsize_toDigits,
      Option.getD, Option.isSome]
    cases hv : args[n]? with
    | none =>
      have := hnone n hv
      simp only []
      by_cases hn : n < 18446744073709551616
      · rw [if_pos hn]
        simp only []
        rw [if_pos (by omega)]
        exact ⟨_, rfl⟩
      · rw [if_neg hn]
        exact ⟨_, rfl⟩
    | some v =>
      have := hsome n v hv
      simp only []
      rw [if_pos (by omega)]
      simp only []
      rw [if_neg (by omega), hget n v hv]
      rfl



/-! ## the refinement, by induction over the items -/

theorem join_snoc (l : List String) (s : String) : String.join (l ++ [s]) = String.join l ++ s := by
  simp [String.join, List.foldl_append]

theorem join_cons_reverse (o : List String) (s : String) :
    String.join (s :: o).reverse = String.join o.reverse ++ s := by
  rw [List.reverse_cons, join_snoc]

theorem formatLoop_nil (args : List Val) (fuel : Nat) (st : FState) :
    formatLoop args fuel [] st = .ok st.out.reverse := by
  cases fuel <;> rfl

theorem refine_core (a0 : Val) (args : List Val) (hargs : args.length < 18446744073709551616) :
    ∀ (items : List Item) (next : Nat) (acc : String) (o : List String),
      wfItems items = true → String.join o.reverse = acc →
      ∀ fuel, (renderChars items).length < fuel →
        match renderItems items args next acc with
        | .text t => ∃ pieces, formatLoop (a0 :: args) fuel (renderChars items)
              { out := o, idxArg := next + 1 } = .ok pieces ∧ String.join pieces = t
        | .error => ∃ e, formatLoop (a0 :: args) fuel (renderChars items)
              { out := o, idxArg := next + 1 } = .error e
        | .any => True := by
  intro items
  induction items with
  | nil =>
    intro next acc o _ hj fuel _
    simp only [renderItems, renderChars, formatLoop_nil]
    exact ⟨_, rfl, hj⟩
  | cons it rest ih =>
    intro next acc o hwf hj fuel hf
    simp only [wfItems, List.all_cons, Bool.and_eq_true] at hwf
    obtain ⟨hw1, hw2⟩ := hwf
    cases it with
    | lit c =>
      have hstep : ∃ s, Steps (a0 :: args) (renderChars (.lit c :: rest))
          { out := o, idxArg := next + 1 } (renderChars rest) { out := s :: o, idxArg := next + 1 } ∧
          String.join o.reverse ++ s = (String.join o.reverse).push c := by
        simp only [renderChars, itemChars]
        by_cases h1 : c = '{'
        · subst h1
          exact ⟨"{", Steps.two (fun fuel => step_lbrace2 _ fuel _ _), by rw [String.push_eq_append]; rfl⟩
        · by_cases h2 : c = '}'
          · subst h2
            exact ⟨"}", Steps.two (fun fuel => step_rbrace2 _ fuel _ _ rfl), by rw [String.push_eq_append]; rfl⟩
          · simp only [h1, h2, if_false]
            exact ⟨String.singleton c, Steps.one (fun fuel => step_lit _ fuel c _ _ h1 h2 rfl),
              by rw [String.push_eq_append]⟩
      obtain ⟨s, hs, hjs⟩ := hstep
      obtain ⟨fuel', hf', e⟩ := hs fuel hf
      have := ih next (acc.push c) (s :: o) hw2 (by rw [join_cons_reverse, hj] at *; exact hjs) fuel' hf'
      simp only [renderItems]
      rw [e]
      exact this
    | field f =>
      have hwf : wfField f = true := hw1
      have hs := steps_field (a0 :: args) f hwf (renderChars rest) o (next + 1)
      have hcs : renderChars (.field f :: rest) = '{' :: (fieldChars f ++ '}' :: renderChars rest) := by
        simp [renderChars, itemChars]
      rw [hcs] at hf ⊢
      obtain ⟨fuel', hf', e⟩ := hs fuel hf
      rw [e, renderItems_field]
      cases fuel' with
      | zero => simp at hf'
      | succ n =>
        rw [step_close _ n _ _ rfl]
        have hcp := closePiece_field a0 args hargs f o next
        cases hv : args[f.index.getD next]? with
        | none =>
          rw [hv] at hcp
          obtain ⟨e', he'⟩ := hcp
          simp only [he']
          exact ⟨_, rfl⟩
        | some v =>
          rw [hv] at hcp
          simp only [] at hcp ⊢
          cases ht : fieldOut f v with
          | none => trivial
          | some t =>
            rw [hcp, formatObj_field f hwf v t ht]
            simp only []
            exact ih _ (acc ++ t) (t :: o) hw2 (by rw [join_cons_reverse, hj]) n
              (by simp at hf'; omega)



/-! ## the theorems -/

/-- **format_refines** (items form): on the canonical text of a well-formed item list, wherever
the reference renderer fixes the outcome the model of `format_buf` has it — the pieces written
concatenate to the reference text, and a specifier without its argument is an error.  (Where the
reference says `any` nothing is claimed.)  `args.length < 2^64` is the address-space bound: an
index ≥ 2^64 does not parse as `usize` in the code. -/
theorem format_refines (items : List Item) (args : List Val) (hwf : wfItems items = true)
    (hargs : args.length < 18446744073709551616) :
    (∀ t, renderItems items args 0 "" = .text t →
      ∃ pieces, formatBuf (.str (renderText items) :: args) = .ok pieces ∧ String.join pieces = t) ∧
    (renderItems items args 0 "" = .error →
      ∃ e, formatBuf (.str (renderText items) :: args) = .error e) := by
  have h := refine_core (.str (renderText items)) args hargs items 0 "" [] hwf rfl
    ((renderText items).length + 1) (by simp [renderText])
  have hb : formatBuf (.str (renderText items) :: args) =
      formatLoop (.str (renderText items) :: args) ((renderText items).length + 1) (renderChars items) {} := by
    simp [formatBuf, renderText]
  rw [hb]
  constructor
  · intro t ht
    rw [ht] at h
    exact h
  · intro he
    rw [he] at h
    exact h

/-- **format_refines**, stated with the reference renderer applied to the format *string*
(`parse_renderText` reads the items back) -/
theorem format_refines_render (items : List Item) (args : List Val) (hwf : wfItems items = true)
    (hargs : args.length < 18446744073709551616) :
    match render (renderText items) args with
    | .text t => ∃ pieces, formatBuf (.str (renderText items) :: args) = .ok pieces ∧ String.join pieces = t
    | .error => ∃ e, formatBuf (.str (renderText items) :: args) = .error e
    | .any => True := by
  rw [render_renderText items args hwf]
  have h := format_refines items args hwf hargs
  cases hr : renderItems items args 0 "" with
  | text t => exact h.1 t hr
  | error => exact h.2 hr
  | any => trivial

/-! ### non-vacuity -/

def exItems : List Item :=
  [.lit 'a', .lit '{', .field {}, .lit ' ',
   .field { index := some 0, fill := some '*', just := .right, width := some 6, radix := some 'x' },
   .lit '}', .field { width := some 4 },
   .field { index := some 1, fill := some 'x', just := .left, width := some 3 },
   .field { index := some 0, radix := some 'b' }]
def exArgs : List Val := [.int 255, .str "hi"]

example : wfItems exItems = true := by decide
example : renderText exItems = "a{{{} {0:*>6x}}}{:4}{1:x<3}{0:b}" := by decide
example : parse ("a{{{} {0:*>6x}}}{:4}{1:x<3}{0:b}".length + 1) "a{{{} {0:*>6x}}}{:4}{1:x<3}{0:b}".toList
    = some exItems := by decide
example : renderItems exItems exArgs 0 "" = .text "a{255 ****ff}hi  hix11111111" := by rfl
/-- the model on this string, through the theorem -/
example : ∃ pieces, formatBuf (.str "a{{{} {0:*>6x}}}{:4}{1:x<3}{0:b}" :: exArgs) = .ok pieces ∧
    String.join pieces = "a{255 ****ff}hi  hix11111111" :=
  (format_refines exItems exArgs (by decide) (by decide)).1 _ rfl
/-- negative numbers: 64-bit two's complement in hexadecimal, sign kept in decimal, zero fill -/
example : ∃ pieces, formatBuf [.str "{:X} {0:0>5}", .int (-1)] = .ok pieces ∧
    String.join pieces = "FFFFFFFFFFFFFFFF 000-1" :=
  (format_refines [.field { radix := some 'X' }, .lit ' ',
      .field { index := some 0, fill := some '0', just := .right, width := some 5 }] [.int (-1)]
    (by decide) (by decide)).1 _ rfl
/-- a radix letter as fill (`{:x<4}`): the fill, not a radix -/
example : ∃ pieces, formatBuf [.str "{:x<6}{:b>6}", .bool true, .null] = .ok pieces ∧
    String.join pieces = "truexxbbnull" :=
  (format_refines [.field { fill := some 'x', just := .left, width := some 6 },
      .field { fill := some 'b', just := .right, width := some 6 }] [.bool true, .null]
    (by decide) (by decide)).1 _ rfl
/-- a width at the reference renderer's own bound is inside the theorem (hypotheses by `decide`) -/
example : ∀ t, renderItems [.field { width := some 100000 }] [.str "a"] 0 "" = .text t →
    ∃ pieces, formatBuf [.str "{:100000}", .str "a"] = .ok pieces ∧ String.join pieces = t :=
  (format_refines [.field { width := some 100000 }] [.str "a"] (by decide) (by decide)).1
/-- the error side: the third specifier has no argument -/
example : ∃ e, formatBuf [.str "{}{}{:5}", .int 1, .int 2] = .error e :=
  (format_refines [.field {}, .field {}, .field { width := some 5 }] [.int 1, .int 2]
    (by decide) (by decide)).2 rfl
example : ∃ e, formatBuf [.str "{2}", .int 1, .int 2] = .error e :=
  (format_refines [.field { index := some 2 }] [.int 1, .int 2] (by decide) (by decide)).2 rfl
/-- the `any` side exists: a radix for a string is not specified -/
example : render "{:x}" [.str "s"] = .any := by rfl


end P2sh.Props.C12
