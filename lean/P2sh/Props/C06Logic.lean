import P2sh.Core.Correct
/-!
# C06 — `&&` and `||` at the bytecode level

From `compile_correct`: the code the compiler emits for `a && b` / `a || b` (the
`JumpIfFalseNoPop` templates) leaves on the stack `a`'s value when that decides the result and
`b`'s value otherwise, and `b`'s code — hence its side effects on the globals — runs only in
the second case.
-/
namespace P2sh.Props.C06
open P2sh P2sh.Core

/-- `a && b`: yields `a` if `a` is falsey (and `b` is not evaluated: the globals are those `a` left), `b` otherwise -/
theorem and_sem (a b : CExpr) (g : List Val) (va : Val) (g1 : List Val) (ha : eval g a = some (va, g1)) :
    eval g (.and a b) = if va.isFalsey then some (va, g1) else eval g1 b := by
  simp [eval, ha]

/-- `a || b`: yields `a` if `a` is truthy (and `b` is not evaluated), `b` otherwise -/
theorem or_sem (a b : CExpr) (g : List Val) (va : Val) (g1 : List Val) (ha : eval g a = some (va, g1)) :
    eval g (.or a b) = if va.isFalsey then eval g1 b else some (va, g1) := by
  simp [eval, ha]

/-- the compiled `&&` reaches the end of its code with exactly that value and those globals -/
theorem and_bytecode (a b : CExpr) (C : List Instr) (K : List Val) (pos k : Nat) (stk g : List Val) (v : Val) (g' : List Val)
    (h : codeAt C pos (compile pos k (.and a b))) (hp : poolAt K k (consts (.and a b)))
    (he : eval g (.and a b) = some (v, g')) :
    Steps C K ⟨pos, stk, g⟩ ⟨pos + bytes (compile pos k (.and a b)), v :: stk, g'⟩ :=
  compile_correct _ C K pos k stk g v g' h hp he

theorem or_bytecode (a b : CExpr) (C : List Instr) (K : List Val) (pos k : Nat) (stk g : List Val) (v : Val) (g' : List Val)
    (h : codeAt C pos (compile pos k (.or a b))) (hp : poolAt K k (consts (.or a b)))
    (he : eval g (.or a b) = some (v, g')) :
    Steps C K ⟨pos, stk, g⟩ ⟨pos + bytes (compile pos k (.or a b)), v :: stk, g'⟩ :=
  compile_correct _ C K pos k stk g v g' h hp he

/-- `if`: exactly one branch is evaluated, chosen by the truthiness of the condition -/
theorem if_one_branch (c t e : CExpr) (g : List Val) (vc : Val) (g1 : List Val) (hc : eval g c = some (vc, g1)) :
    eval g (.ite c t e) = if vc.isFalsey then eval g1 e else eval g1 t := by
  simp [eval, hc]

/-- short-circuit is observable: with a falsey left operand an assignment on the right does not happen -/
example : eval [.int 0] (.and .fls (.gset 0 (.lit (.int 9)))) = some (.bool false, [.int 0]) ∧
    eval [.int 0] (.or .fls (.gset 0 (.lit (.int 9)))) = some (.int 9, [.int 9]) := by
  simp [eval, Val.isFalsey]

end P2sh.Props.C06
