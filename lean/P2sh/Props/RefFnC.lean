import P2sh.Props.RefFn
/-!
# The oracle and Core.Fn agree on programs with functions, closures, ARRAYS and ASSIGNMENT TO CAPTURED VARIABLES

`Props/RefFn.lean` proves oracle (`Spec/Ref.lean`) ⇒ `Core.Fn` evaluator for functions and closures, without
containers and without `fset`.  This file redoes its induction (`all_ok`) over a larger fragment and a larger
relation (the reusable parts of `RefFn` -- embedding, fuel monotonicity of Core.Fn, environment lemmas, the `Post`
framework, Core.Fn's and the oracle's equations -- are imported; what is closed over `RefFn.VR` / `RefFn.okE` is
copied and adapted, so the proofs have the shape of `RefFn`'s).

## Stage C1: arrays

* values `VR CT v w`: equal scalars, corresponding closures (as in `RefFn`), or THE SAME array reference
  `.arr id []` with `id ≠ 0` on both sides;
* heaps `HR CT h a` (a field of `Inv`): the oracle's heap `Ref.St.heap` and Core.Fn's container heap `Sto.a` have
  the same allocation counter (a literal allocates the same id on both sides: the ids are EQUAL, no renaming is
  needed) and, for every id, the arrays stored under it hold pointwise `VR`-related values (arrays may hold closures
  and arrays);
* constructs: array literals `[e1, …]`, index reads `c[i]`, index assignment `c[i] = e` (the right-hand side first),
  arrays in variables, parameters, captured variables, return values, elements of arrays (aliasing: every copy of a
  reference denotes the same object on both sides); truth tests, `!`, `&&`, `||`, `if`, `while`, `match` on arrays;
  every operator applied to an array and a non-array (runtime error on both sides; `==` / `!=` unconstrained).
* `a + b` on two arrays: a NEW array object holding the elements of both (`add_arr_bridge`: the oracle's `reify` /
  `reflect` round trip and Core.Fn's `view` / `storeNew` round trip both give back the shallow elements);
* ONE restriction that `RefFn` does not need: `a == b`, `a != b` require that one operand is STATICALLY not an array
  (`nonArrE`: a literal, a unary operator application, a binary operator application other than `+`, `<` / `<=`, a
  function literal; `deepOK`).  On two arrays these operators compare the objects IN DEPTH -- the oracle through `reify`
  with the fixed depth 64, Core.Fn through `view` with depth `#objects + 1`; relating the two needs "expands within 64 ⇒
  expands within #objects + 1" (a pigeonhole argument on acyclic heaps), not done.  (This file found that the oracle
  COMMITTED on a cut-off view; `Spec/Ref.lean` was repaired -- `expandsWithin` --, see the examples at the end.)

## Stage C2: assignment to captured variables (`fset`) under the oracle's re-entrancy rule

The oracle poisons the closure's copy of an assigned captured variable (what a LATER activation reads is not specified)
and answers `unc` when the closure object is re-entered (its id occurs twice in `St.active`); Core.Fn (the VM) writes
into the closure object.  Covered: `fset` anywhere in a function body, together with everything else of the fragment
(counters, accumulators, closures that assign and call).  Ingredients (as listed by `RefFn`'s author):
* the activation's environment base is threaded (`LS`: the values of the slots + the base, changed in place by
  `updEnvCap`; `envOf N A V vals`);
* the captured-value clauses of `ClosEntry` and `Frame` allow poisoned entries (`v = .other "poison" ∨ VR CT v w`);
* the closure table `CTab` records for every closure its context and horizon (`CE`; the link between a running
  activation and its table entry: `Frame.me`), closure-object ids are injective and in range (`Inv.hidInj`, `Inv.hidLt`),
  the names of captured variables are distinct (`Nodup`, checked by `okE` at the function literal);
* `Frame` is linked to `St.active`: `Act.act` is the oracle's list of running closure ids while the activation runs
  (every statement of `AllOK` has the hypothesis `st.active = A.act`, `Next.act` gives it back), `Frame.me` says that
  the activation's own closure id is in it;
* `Next.unch` (`Unch`) replaces the heap-prefix field: the closure objects of the RUNNING closures other than the
  activation's own are unchanged -- also its own when it is re-entered (then every assignment is `unc`); a call
  leaves the objects of all running closures alone (`CQ`: `UnchAll`), which is what keeps a caller's `Frame`.
NOT covered (fragment `okE`): maps, builtins, `let` in top-level blocks, bodies ending in a block or loop, and `==` / `!=` on
two possibly-array operands (Stage C1).

Theorems: `ref_program_fn_arr_partial`, `ref_program_fn_arr_error_partial`, `ref_program_fn_arr_compiled_partial` (whole
programs; also under the names `ref_program_fn_fset_partial` / `…_error_…`), `ref_call_fn_partial`, `ref_expr_fn_partial`,
`ref_stmts_fn_partial` (+ `_error_`).  A run of the oracle that ends in `unc` (a read of a poisoned copy: the second call
of a counter closure) is not a hypothesis of any of them: they claim nothing there.
-/
namespace P2sh.RefFnC
open P2sh P2sh.Ref P2sh.RefProg P2sh.RefFn
open P2sh.RefCore hiding Post
open P2sh.Core (UnOp CPat LPat)
open P2sh.Props.C09 (specOp)
open P2sh.Core.Fn (FExpr FArms FArgs FStmt FDecl FTop Cap Sto FFlow mkFd)

/-! ## values -/

def isArrV : Val → Bool
  | .arr .. => true
  | _ => false

/-- an entry of the closure table: the oracle's closure `k+1` (`k` its index) is Core.Fn's `.clos fd [] hid`; the entry
also records the context `cx` and the global horizon `gh` the closure was created in -/
structure CE where
  fd : FnDef
  hid : Nat
  cx : Ctx
  gh : Nat

abbrev CTab := List CE

def oldCT (CT : CTab) : RefFn.CTab := CT.map fun e => (e.fd, e.hid)

theorem oldCT_prefix {CT CT' : CTab} (h : CT <+: CT') : oldCT CT <+: oldCT CT' := by
  obtain ⟨t, rfl⟩ := h
  exact ⟨oldCT t, by simp [oldCT]⟩

theorem oldCT_get {CT : CTab} {k : Nat} {fd : FnDef} {hid : Nat} (h : (oldCT CT)[k]? = some (fd, hid)) :
    ∃ e, CT[k]? = some e ∧ e.fd = fd ∧ e.hid = hid := by
  simp only [oldCT, List.getElem?_map, Option.map_eq_some_iff] at h
  obtain ⟨e, he, heq⟩ := h
  cases heq
  exact ⟨e, he, rfl, rfl⟩

theorem oldCT_of {CT : CTab} {k : Nat} {e : CE} (h : CT[k]? = some e) : (oldCT CT)[k]? = some (e.fd, e.hid) := by
  simp [oldCT, h]

/-- `CT[k] = ⟨fd, hid, …⟩`: the oracle's closure `k+1` is Core.Fn's `.clos fd [] hid`; an array is the same reference -/
def VR (CT : CTab) (v w : Val) : Prop :=
  (isScalar v = true ∧ w = v) ∨
  (∃ k fd hid, v = .clos emptyFn [] (k + 1) ∧ w = .clos fd [] hid ∧ (oldCT CT)[k]? = some (fd, hid)) ∨
  (∃ id, id ≠ 0 ∧ v = .arr id [] ∧ w = .arr id [])

theorem VR.scalar {CT : CTab} {v : Val} (h : isScalar v = true) : VR CT v v := .inl ⟨h, rfl⟩

theorem VR.arr {CT : CTab} {id : Nat} (h : id ≠ 0) : VR CT (.arr id []) (.arr id []) := .inr (.inr ⟨id, h, rfl, rfl⟩)

theorem VR.ofOld {CT : CTab} {v w : Val} (h : RefFn.VR (oldCT CT) v w) : VR CT v w := by
  rcases h with h | h
  · exact .inl h
  · exact .inr (.inl h)

theorem VR.toOld {CT : CTab} {v w : Val} (h : VR CT v w) (hn : isArrV v = false) : RefFn.VR (oldCT CT) v w := by
  rcases h with h | h | ⟨id, -, rfl, -⟩
  · exact .inl h
  · exact .inr h
  · cases hn

theorem VR.cases3 {CT : CTab} {v w : Val} (h : VR CT v w) :
    (isArrV v = false ∧ RefFn.VR (oldCT CT) v w) ∨ (∃ id, id ≠ 0 ∧ v = .arr id [] ∧ w = .arr id []) := by
  rcases h with h | h | h
  · exact .inl ⟨by cases v <;> first | rfl | (simp [isScalar] at h), .inl h⟩
  · obtain ⟨k, fd, hid, rfl, rfl, hk⟩ := h
    exact .inl ⟨rfl, .inr ⟨k, fd, hid, rfl, rfl, hk⟩⟩
  · exact .inr h

theorem VR.mono {CT CT' : CTab} {v w : Val} (hp : CT <+: CT') (h : VR CT v w) : VR CT' v w := by
  rcases h.cases3 with ⟨hn, ho⟩ | ⟨id, h0, rfl, rfl⟩
  · exact VR.ofOld (ho.mono (oldCT_prefix hp))
  · exact VR.arr h0

theorem VR.notPoison {CT : CTab} {v w : Val} : VR CT v w → (v matches .other "poison") = false := by
  intro h
  rcases h.cases3 with ⟨hn, ho⟩ | ⟨id, h0, rfl, rfl⟩
  · exact ho.notPoison
  · rfl

theorem notArr_of_scalar {v : Val} (h : isScalar v = true) : isArrV v = false := by
  cases v <;> first | rfl | (simp [isScalar] at h)

def VRs (CT : CTab) : List Val → List Val → Prop
  | [], [] => True
  | v :: vs, w :: ws => VR CT v w ∧ VRs CT vs ws
  | _, _ => False

theorem VRs.mono {CT CT' : CTab} (hp : CT <+: CT') : ∀ {vs ws : List Val}, VRs CT vs ws → VRs CT' vs ws
  | [], [], _ => True.intro
  | _ :: _, _ :: _, h => ⟨h.1.mono hp, VRs.mono hp h.2⟩
  | [], _ :: _, h => h.elim
  | _ :: _, [], h => h.elim

theorem VRs.length {CT : CTab} : ∀ {vs ws : List Val}, VRs CT vs ws → vs.length = ws.length
  | [], [], _ => rfl
  | _ :: _, _ :: _, h => by simp [VRs.length h.2]
  | [], _ :: _, h => h.elim
  | _ :: _, [], h => h.elim

theorem VRs.get {CT : CTab} : ∀ {vs ws : List Val}, VRs CT vs ws → ∀ i, i < vs.length →
    ∃ w, ws[i]? = some w ∧ VR CT (vs.getD i .null) w
  | [], [], _, i, hi => by simp at hi
  | v :: vs, w :: ws, h, 0, _ => ⟨w, rfl, h.1⟩
  | v :: vs, w :: ws, h, i+1, hi => by
    obtain ⟨w', h1, h2⟩ := VRs.get h.2 i (by simpa using hi)
    exact ⟨w', by simpa using h1, by simpa using h2⟩
  | [], _ :: _, h, _, _ => h.elim
  | _ :: _, [], h, _, _ => h.elim

theorem VRs.set {CT : CTab} {v w : Val} (hv : VR CT v w) : ∀ {vs ws : List Val}, VRs CT vs ws → ∀ i, VRs CT (vs.set i v) (ws.set i w)
  | [], [], _, _ => True.intro
  | _ :: _, _ :: _, h, 0 => ⟨hv, h.2⟩
  | _ :: _, _ :: _, h, i+1 => ⟨h.1, VRs.set hv h.2 i⟩
  | [], _ :: _, h, _ => h.elim
  | _ :: _, [], h, _ => h.elim

theorem VRs.nil_iff {CT : CTab} {vs ws : List Val} (h : VRs CT vs ws) : vs.isEmpty = ws.isEmpty := by
  cases vs <;> cases ws <;> first | rfl | exact h.elim

/-! ## heaps: the same ids, related contents -/

structure HR (CT : CTab) (h a : Heap) : Prop where
  next : h.next = a.next
  pos : h.next ≠ 0
  arrs : ∀ id, VRs CT (h.getArr id) (a.getArr id)

theorem HR.mono {CT CT' : CTab} {h a : Heap} (hp : CT <+: CT') (hr : HR CT h a) : HR CT' h a :=
  ⟨hr.next, hr.pos, fun id => (hr.arrs id).mono hp⟩

theorem HR.init (CT : CTab) : HR CT {} {} := ⟨rfl, by decide, fun _ => True.intro⟩

theorem allocH_eq (a : Heap) (o : HObj) : Core.Fn.allocH a o = a.alloc o := by cases a; rfl
theorem setH_eq (a : Heap) (id : Nat) (o : HObj) : Core.Fn.setH a id o = a.set id o := by cases a; rfl

theorem getArr_alloc (h : Heap) (vs : List Val) (id : Nat) :
    (h.alloc (.arr vs)).1.getArr id = if h.next = id then vs else h.getArr id := by
  unfold Heap.getArr Heap.get? Heap.alloc
  simp only [List.find?_cons]
  by_cases hid : h.next = id
  · simp [hid]
  · have : (h.next == id) = false := by simpa using hid
    simp [this, hid]

theorem get?_set_self (h : Heap) (id : Nat) (o : HObj) : (h.set id o).get? id = (h.get? id).map fun _ => o := by
  unfold Heap.get? Heap.set
  simp only
  induction h.objs with
  | nil => rfl
  | cons p rest ih =>
    simp only [List.map_cons, List.find?_cons]
    by_cases hp : (p.1 == id) = true
    · simp [hp]
    · simp only [hp, Bool.false_eq_true, if_false]
      exact ih

theorem get?_set_other (h : Heap) (id id' : Nat) (o : HObj) (hne : id' ≠ id) : (h.set id o).get? id' = h.get? id' := by
  unfold Heap.get? Heap.set
  simp only
  induction h.objs with
  | nil => rfl
  | cons p rest ih =>
    simp only [List.map_cons, List.find?_cons]
    by_cases hp : (p.1 == id) = true
    · have hpe : p.1 = id := by simpa using hp
      have h1 : (id == id') = false := by simpa using (Ne.symm hne)
      have h2 : (p.1 == id') = false := by rw [hpe]; exact h1
      simp only [hp, if_true, h1, h2]
      exact ih
    · simp only [hp, Bool.false_eq_true, if_false]
      by_cases hq : (p.1 == id') = true
      · simp [hq]
      · simp only [hq, Bool.false_eq_true]
        exact ih

theorem getArr_set (h : Heap) (id id' : Nat) (ys : List Val) (hne : h.getArr id ≠ []) :
    (h.set id (.arr ys)).getArr id' = if id' = id then ys else h.getArr id' := by
  by_cases hid : id' = id
  · subst hid
    simp only [if_true]
    unfold Heap.getArr at hne ⊢
    rw [get?_set_self]
    cases hg : h.get? id' with
    | none => simp [hg] at hne
    | some o => rfl
  · simp only [hid, if_false]
    unfold Heap.getArr
    rw [get?_set_other _ _ _ _ hid]

theorem HR.alloc {CT : CTab} {h a : Heap} {vs ws : List Val} (hr : HR CT h a) (hv : VRs CT vs ws) :
    HR CT (h.alloc (.arr vs)).1 (a.alloc (.arr ws)).1 := by
  refine ⟨by simp [Heap.alloc, hr.next], by simp [Heap.alloc], ?_⟩
  intro id
  rw [getArr_alloc, getArr_alloc, hr.next]
  split
  · exact hv
  · exact hr.arrs id

theorem HR.set {CT : CTab} {h a : Heap} {id i : Nat} {v w : Val} (hr : HR CT h a) (hv : VR CT v w) (hi : i < (h.getArr id).length) :
    HR CT (h.set id (.arr ((h.getArr id).set i v))) (a.set id (.arr ((a.getArr id).set i w))) := by
  have hlen := (hr.arrs id).length
  have h1 : h.getArr id ≠ [] := by intro e; rw [e] at hi; simp at hi
  have h2 : a.getArr id ≠ [] := by
    intro e
    rw [e] at hlen
    simp only [List.length_nil] at hlen
    omega
  refine ⟨hr.next, hr.pos, ?_⟩
  intro id'
  rw [getArr_set _ _ _ _ h1, getArr_set _ _ _ _ h2]
  split
  · exact (hr.arrs id).set hv i
  · exact hr.arrs id'

/-! ## reify / reflect / view on references -/

theorem reify_arr (h : Heap) (n id : Nat) (xs : List Val) (h0 : id ≠ 0) :
    reify h (n + 1) (.arr id xs) = .arr id ((h.getArr id).map (reify h n)) := by
  have : (id == 0) = false := by simpa using h0
  simp [reify, this]

theorem view_arr (a : Heap) (id : Nat) (xs : List Val) (h0 : id ≠ 0) :
    Core.Fn.view a (.arr id xs) = .arr id ((a.getArr id).map (reify a a.objs.length)) := by
  unfold Core.Fn.view
  exact reify_arr a _ id xs h0

/-- `reifyM` commits only when the value expands completely within `reifyDepth` -/
theorem run_reifyM_bind {β : Type} (v : Val) (K : Val → M β) (s : St) :
    run (reifyM v >>= K) s =
      if expandsWithin s.heap reifyDepth v = true then run (K (reify s.heap reifyDepth v)) s else (.error .unc, s) := by
  have h : run (reifyM v) s = _ := P2sh.Props.RefBvars.run_reifyM v s
  rw [run_bind, h]
  by_cases hc : expandsWithin s.heap reifyDepth v = true
  · rw [if_pos hc, if_pos hc]
  · rw [if_neg hc, if_neg hc]

theorem Post.reify {α β : Type} {Q : α → β → St → Prop} {ev : FM β} (v : Val) (K : Val → M α) (s : St)
    (hk : expandsWithin s.heap reifyDepth v = true → Post Q ev (run (K (reify s.heap reifyDepth v)) s)) :
    Post Q ev (run (reifyM v >>= K) s) := by
  rw [run_reifyM_bind]
  split
  · rename_i h; exact hk h
  · exact True.intro

theorem reify_old {CT : RefFn.CTab} {v w : Val} (h : RefFn.VR CT v w) (hp : Heap) : reify hp reifyDepth v = v := by
  rcases h with ⟨hs, -⟩ | ⟨k, fd, hid, rfl, -, -⟩
  · exact reify_scalar hp hs
  · rfl

theorem view_old {CT : RefFn.CTab} {v w : Val} (h : RefFn.VR CT v w) (a : Heap) : Core.Fn.view a w = w := h.view_eq a

theorem reflect_shallow {CT : CTab} {v w : Val} (h : VR CT v w) (hp : Heap) (n : Nat) : reflect hp (n + 1) v = (hp, v) := by
  rcases h with ⟨hs, -⟩ | ⟨k, fd, hid, rfl, -, -⟩ | ⟨id, h0, rfl, -⟩
  · cases v <;> first | rfl | (simp [isScalar] at hs)
  · rfl
  · have : (id != 0) = true := by simpa using h0
    simp [reflect, this]

theorem foldl_reflect_shallow (n : Nat) : ∀ (vs : List Val) (hp : Heap) (ys : List Val),
    (∀ v ∈ vs, ∀ hp', reflect hp' (n + 1) v = (hp', v)) →
    vs.foldl (fun (acc : Heap × List Val) x => let (h1, y) := reflect acc.1 (n + 1) x; (h1, acc.2 ++ [y])) (hp, ys) = (hp, ys ++ vs)
  | [], hp, ys, _ => by simp
  | v :: vs, hp, ys, h => by
    simp only [List.foldl_cons]
    rw [h v (List.mem_cons_self ..) hp]
    simp only
    rw [foldl_reflect_shallow n vs hp (ys ++ [v]) (fun x hx => h x (List.mem_cons_of_mem _ hx))]
    simp

theorem VRs.shallow {CT : CTab} : ∀ {vs ws : List Val}, VRs CT vs ws → ∀ v ∈ vs, ∃ w, VR CT v w
  | [], [], _, v, hv => by cases hv
  | x :: xs, y :: ys, h, v, hv => by
    rcases List.mem_cons.mp hv with rfl | hv
    · exact ⟨y, h.1⟩
    · exact VRs.shallow h.2 v hv
  | [], _ :: _, h, _, _ => h.elim
  | _ :: _, [], h, _, _ => h.elim

theorem reflect_lit {CT : CTab} {vs ws : List Val} (hv : VRs CT vs ws) (hp : Heap) :
    reflect hp reifyDepth (.arr 0 vs) = ((hp.alloc (.arr vs)).1, .arr hp.next []) := by
  show reflect hp (62 + 1 + 1) (.arr 0 vs) = _
  have hf := foldl_reflect_shallow 62 vs hp [] (fun v hm hp' => by
    obtain ⟨w, hw⟩ := hv.shallow v hm
    exact reflect_shallow hw hp' 62)
  simp only [reflect, bne_self_eq_false, Bool.false_eq_true, if_false]
  rw [hf]
  simp [Heap.alloc]

theorem run_reflectM (v : Val) (s : St) :
    run (reflectM v) s = (.ok (reflect s.heap reifyDepth v).2, { s with heap := (reflect s.heap reifyDepth v).1 }) := rfl

theorem run_reflectM_bind {β : Type} (v : Val) (K : Val → M β) (s : St) :
    run (reflectM v >>= K) s = run (K (reflect s.heap reifyDepth v).2) { s with heap := (reflect s.heap reifyDepth v).1 } := rfl

/-! ## truth tests -/

theorem falsey_reify_arr {CT : CTab} {s : St} {a : Heap} (hr : HR CT s.heap a) (id : Nat) (h0 : id ≠ 0) :
    Spec.falsey (reify s.heap reifyDepth (.arr id [])) = Core.Fn.falseyH a (.arr id []) := by
  show Spec.falsey (reify s.heap (63 + 1) (.arr id [])) = _
  rw [reify_arr _ _ _ _ h0]
  have hl := (hr.arrs id).nil_iff
  show Spec.falsey (.arr id ((s.heap.getArr id).map (reify s.heap 63))) = (a.getArr id).isEmpty
  rw [← hl]
  cases s.heap.getArr id <;> rfl

/-- a truth test: the oracle either does not commit (a value nested too deep) or tests what Core.Fn tests -/
theorem Post.truthy {α β : Type} {Q : α → β → St → Prop} {ev : FM β} {CT : CTab} {v w : Val} {s : St} {a : Heap}
    (hr : HR CT s.heap a) (h : VR CT v w) (K : Bool → M α)
    (hk : Post Q ev (run (K (!(Core.Fn.falseyH a w))) s)) : Post Q ev (run (Ref.truthy v >>= K) s) := by
  rcases h.cases3 with ⟨hn, ho⟩ | ⟨id, h0, rfl, rfl⟩
  · rw [ho.truthy_eq a, pure_bind]; exact hk
  · unfold Ref.truthy
    rw [bind_assoc]
    refine Post.reify _ _ _ (fun _ => ?_)
    simp only [pure_bind]
    rw [falsey_reify_arr hr id h0]
    exact hk

/-! ## operators -/

theorem unary_bridge {CT : CTab} {v w : Val} {s : St} {a : Heap} (hr : HR CT s.heap a) (op : UnOp) (h : VR CT v w) :
    match Spec.unary (specUn op) (reify s.heap reifyDepth v) with
    | .value r => Core.Fn.unH a op w = .ok r ∧ isScalar r = true
    | .error => ∃ msg, Core.Fn.unH a op w = .err msg
    | .any => True := by
  rcases h.cases3 with ⟨hn, ho⟩ | ⟨id, h0, rfl, rfl⟩
  · rw [reify_old ho]
    exact RefFn.unary_bridge a op ho
  · show match Spec.unary (specUn op) (reify s.heap (63 + 1) (.arr id [])) with
      | .value r => _ | .error => _ | .any => _
    rw [reify_arr _ _ _ _ h0]
    have hl := (hr.arrs id).nil_iff
    cases op
    · refine ⟨?_, rfl⟩
      show Core.Fn.unH a .bang (.arr id []) = .ok (.bool (Spec.falsey (.arr id ((s.heap.getArr id).map (reify s.heap 63)))))
      simp only [Core.Fn.unH, Core.Fn.falseyH, ← hl]
      cases s.heap.getArr id <;> rfl
    · exact ⟨_, rfl⟩
    · exact ⟨_, rfl⟩

/-- the operators that look into two arrays -/
def isDeepA : Operator → Bool
  | .add | .equal | .notEqual => true
  | _ => false

/-- `==` / `!=`: on two arrays they compare the contents in depth (outside the fragment) -/
def isDeep : Operator → Bool
  | .equal | .notEqual => true
  | _ => false

theorem spec_arr_left (op : Operator) (id : Nat) (L : List Val) (r : Val) (hd : isDeepA op = true → isArrV r = false) :
    Spec.binary (specOp op) (.arr id L) r = if (op = .equal ∨ op = .notEqual) then .any else .error := by
  cases op <;> cases r <;> first | rfl | (simp [isDeepA, isArrV] at hd)

theorem spec_arr_right (op : Operator) (id : Nat) (L : List Val) (l : Val) (hd : isDeepA op = true → isArrV l = false) :
    Spec.binary (specOp op) l (.arr id L) = if (op = .equal ∨ op = .notEqual) then .any else .error := by
  cases op <;> cases l <;> first | rfl | (simp [isDeepA, isArrV] at hd)

theorem opH_err' (a : Heap) (op : Operator) {l r : Val} {msg : String}
    (h : execOperator op (Core.Fn.view a l) (Core.Fn.view a r) = .err msg) : Core.Fn.opH a op l r = .fail := by
  unfold Core.Fn.opH Core.Fn.cmpH
  rw [h]

theorem run_applyBinary_arr_left (line : Nat) (sop : Spec.Op) (id : Nat) (xs : List Val) (r : Val) (s : St) (h0 : id ≠ 0) :
    run (applyBinary line sop (.arr id xs) r) s =
      if expandsWithin s.heap reifyDepth (.arr id xs) = true then
        if expandsWithin s.heap reifyDepth r = true then
          run (ofExpect line (Spec.binary sop (.arr id ((s.heap.getArr id).map (reify s.heap 63))) (reify s.heap reifyDepth r)) >>= fun v => reflectM v) s
        else (.error .unc, s)
      else (.error .unc, s) := by
  have hre : reify s.heap reifyDepth (.arr id xs) = .arr id ((s.heap.getArr id).map (reify s.heap 63)) := reify_arr _ 63 _ _ h0
  by_cases h1 : expandsWithin s.heap reifyDepth (.arr id xs) = true
  · by_cases h2 : expandsWithin s.heap reifyDepth r = true
    · rw [if_pos h1, if_pos h2]
      unfold applyBinary
      rw [run_reifyM_bind, if_pos h1]
      show run (reifyM r >>= _) s = _
      rw [run_reifyM_bind, if_pos h2, hre]
      cases sop <;> rfl
    · rw [if_pos h1, if_neg h2]
      unfold applyBinary
      rw [run_reifyM_bind, if_pos h1]
      show run (reifyM r >>= _) s = _
      rw [run_reifyM_bind, if_neg h2]
  · rw [if_neg h1]
    unfold applyBinary
    rw [run_reifyM_bind, if_neg h1]

theorem run_applyBinary_arr_right {CT : RefFn.CTab} {vl wl : Val} (ho : RefFn.VR CT vl wl) (line : Nat) (sop : Spec.Op) (id : Nat) (xs : List Val) (s : St) (h0 : id ≠ 0) :
    run (applyBinary line sop vl (.arr id xs)) s =
      if expandsWithin s.heap reifyDepth (.arr id xs) = true then
        run (ofExpect line (Spec.binary sop vl (.arr id ((s.heap.getArr id).map (reify s.heap 63)))) >>= fun v => reflectM v) s
      else (.error .unc, s) := by
  have hre : reify s.heap reifyDepth (.arr id xs) = .arr id ((s.heap.getArr id).map (reify s.heap 63)) := reify_arr _ 63 _ _ h0
  unfold applyBinary
  rw [ho.reifyM_eq, pure_bind]
  by_cases h1 : expandsWithin s.heap reifyDepth (.arr id xs) = true
  · rw [if_pos h1, run_reifyM_bind, if_pos h1, hre]
    cases sop <;> first | rfl | (cases vl <;> rfl)
  · rw [if_neg h1, run_reifyM_bind, if_neg h1]

theorem notArr_reify {CT : CTab} {v w : Val} (h : VR CT v w) (hn : isArrV v = false) (hp : Heap) :
    isArrV (reify hp reifyDepth v) = false := by
  rw [reify_old (h.toOld hn)]; exact hn

theorem notArr_view {CT : CTab} {v w : Val} (h : VR CT v w) (hn : isArrV v = false) (a : Heap) :
    isArrV (Core.Fn.view a w) = false := by
  have ho := h.toOld hn
  rw [ho.view_eq a]
  rcases ho with ⟨hs, rfl⟩ | ⟨k, fd, hid, rfl, rfl, -⟩
  · exact hn
  · rfl

/-! ### `+` on two arrays: a new array object holding the elements of both -/

theorem VRs.append {CT : CTab} : ∀ {xs ys xs' ys' : List Val}, VRs CT xs ys → VRs CT xs' ys' → VRs CT (xs ++ xs') (ys ++ ys')
  | [], [], _, _, _, h => h
  | _ :: _, _ :: _, _, _, h1, h2 => ⟨h1.1, VRs.append h1.2 h2⟩
  | [], _ :: _, _, _, h, _ => h.elim
  | _ :: _, [], _, _, h, _ => h.elim

theorem VRs.shallowR {CT : CTab} : ∀ {vs ws : List Val}, VRs CT vs ws → ∀ w ∈ ws, ∃ v, VR CT v w
  | [], [], _, w, hw => by cases hw
  | x :: xs, y :: ys, h, w, hw => by
    rcases List.mem_cons.mp hw with rfl | hw
    · exact ⟨x, h.1⟩
    · exact VRs.shallowR h.2 w hw
  | [], _ :: _, h, _, _ => h.elim
  | _ :: _, [], h, _, _ => h.elim

theorem reflect_reify_shallow {CT : CTab} {v w : Val} (h : VR CT v w) (hp hp' : Heap) (n m : Nat) :
    reflect hp' (n + 1) (reify hp (m + 1) v) = (hp', v) := by
  rcases h with ⟨hs, -⟩ | ⟨k, fd, hid, rfl, -, -⟩ | ⟨id, h0, rfl, -⟩
  · cases v <;> first | rfl | (simp [isScalar] at hs)
  · rfl
  · have : (id != 0) = true := by simpa using h0
    rw [reify_arr _ _ _ _ h0]
    simp [reflect, this]

theorem foldl_reflect_map (n : Nat) (f : Val → Val) : ∀ (xs : List Val) (hp : Heap) (ys : List Val),
    (∀ x ∈ xs, ∀ hp', reflect hp' (n + 1) (f x) = (hp', x)) →
    (xs.map f).foldl (fun (acc : Heap × List Val) x => let (h1, y) := reflect acc.1 (n + 1) x; (h1, acc.2 ++ [y])) (hp, ys) = (hp, ys ++ xs)
  | [], hp, ys, _ => by simp
  | x :: xs, hp, ys, h => by
    simp only [List.map_cons, List.foldl_cons]
    rw [h x (List.mem_cons_self ..) hp]
    simp only
    rw [foldl_reflect_map n f xs hp (ys ++ [x]) (fun y hy => h y (List.mem_cons_of_mem _ hy))]
    simp

theorem reflect_concat {CT : CTab} {X Y : List Val} (hXY : VRs CT X Y) (hp : Heap) :
    reflect hp reifyDepth (.arr 0 (X.map (reify hp 63))) = ((hp.alloc (.arr X)).1, .arr hp.next []) := by
  show reflect hp (62 + 1 + 1) (.arr 0 (X.map (reify hp (62 + 1)))) = _
  have hf := foldl_reflect_map 62 (reify hp (62 + 1)) X hp [] (fun x hm hp' => by
    obtain ⟨w, hw⟩ := hXY.shallow x hm
    exact reflect_reify_shallow hw hp hp' 62 62)
  simp only [reflect, bne_self_eq_false, Bool.false_eq_true, if_false]
  rw [hf]
  simp [Heap.alloc]

theorem storeNew_reify_shallow {CT : CTab} {v w : Val} (h : VR CT v w) (a : Heap) (n : Nat) :
    Core.Fn.storeNew a (reify a n w) = (w, a) := by
  rcases h with ⟨hs, rfl⟩ | ⟨k, fd, hid, rfl, rfl, -⟩ | ⟨id, h0, rfl, rfl⟩
  · cases n <;> cases w <;> first | rfl | (simp [isScalar] at hs)
  · cases n <;> rfl
  · have hb : (id != 0) = true := by simpa using h0
    cases n with
    | zero => simp [reify, Core.Fn.storeNew, hb]
    | succ n => rw [reify_arr _ _ _ _ h0]; simp [Core.Fn.storeNew, hb]

theorem storeList_map_reify {CT : CTab} (a : Heap) (n : Nat) : ∀ (ys : List Val), (∀ w ∈ ys, ∃ v, VR CT v w) →
    Core.Fn.storeList a (ys.map (reify a n)) = (ys, a)
  | [], _ => by simp [Core.Fn.storeList]
  | w :: ys, h => by
    obtain ⟨v, hv⟩ := h w (List.mem_cons_self ..)
    simp only [List.map_cons, Core.Fn.storeList, storeNew_reify_shallow hv a n,
      storeList_map_reify a n ys (fun x hx => h x (List.mem_cons_of_mem _ hx))]

theorem opH_add_arr {CT : CTab} {a : Heap} {id1 id2 : Nat} (h1 : id1 ≠ 0) (h2 : id2 ≠ 0)
    (hs1 : ∀ w ∈ a.getArr id1, ∃ v, VR CT v w) (hs2 : ∀ w ∈ a.getArr id2, ∃ v, VR CT v w) :
    Core.Fn.opH a .add (.arr id1 []) (.arr id2 []) = .new (.arr a.next []) (a.alloc (.arr (a.getArr id1 ++ a.getArr id2))).1 := by
  have hsp := P2sh.Props.C09.binary_spec .add (Core.Fn.view a (.arr id1 [])) (Core.Fn.view a (.arr id2 [])) (fun h => by cases h)
  rw [view_arr a id1 [] h1, view_arr a id2 [] h2] at hsp
  have hex : execOperator .add (.arr id1 ((a.getArr id1).map (reify a a.objs.length))) (.arr id2 ((a.getArr id2).map (reify a a.objs.length))) =
      .ok (.arr 0 ((a.getArr id1).map (reify a a.objs.length) ++ (a.getArr id2).map (reify a a.objs.length))) := hsp
  unfold Core.Fn.opH Core.Fn.cmpH
  rw [view_arr a id1 [] h1, view_arr a id2 [] h2, hex]
  have hsl : Core.Fn.storeList a ((a.getArr id1).map (reify a a.objs.length) ++ (a.getArr id2).map (reify a a.objs.length)) =
      (a.getArr id1 ++ a.getArr id2, a) := by
    rw [← List.map_append]
    exact storeList_map_reify a _ _ (fun w hw => (List.mem_append.mp hw).elim (hs1 w) (hs2 w))
  simp only [Core.Fn.storeNew, bne_self_eq_false, Bool.false_eq_true, if_false, hsl, allocH_eq]
  rfl

/-- what `applyBinary` may do on related operands: a scalar result, a NEW array (`+` on two arrays), an error -/
def OpOutA (CT : CTab) (a : Heap) (op : Operator) (wl wr : Val) (s : St) : Except Err Val × St → Prop
  | (.ok v, s') => (s' = s ∧ isScalar v = true ∧ Core.Fn.opH a op wl wr = .same v) ∨
      (op = .add ∧ ∃ X Y, VRs CT X Y ∧ s' = { s with heap := (s.heap.alloc (.arr X)).1 } ∧ v = .arr s.heap.next [] ∧
        Core.Fn.opH a op wl wr = .new (.arr a.next []) (a.alloc (.arr Y)).1)
  | (.error (.rt _), _) => Core.Fn.opH a op wl wr = .fail
  | (.error _, _) => True

theorem OpOutA.ofF {CT : CTab} {a : Heap} {op : Operator} {wl wr : Val} {s : St} {o : Except Err Val × St}
    (h : OpOutF a op wl wr s o) : OpOutA CT a op wl wr s o := by
  rcases o with ⟨er | v, s'⟩
  · cases er <;> exact h
  · exact .inl h

theorem add_arr_bridge {CT : CTab} {s : St} {a : Heap} (hr0 : HR CT s.heap a) (line : Nat) {id1 id2 : Nat} (h1 : id1 ≠ 0) (h2 : id2 ≠ 0) :
    OpOutA CT a .add (.arr id1 []) (.arr id2 []) s (run (applyBinary line (specOp .add) (.arr id1 []) (.arr id2 [])) s) := by
  rw [run_applyBinary_arr_left _ _ _ _ _ _ h1]
  split
  rotate_left
  · exact True.intro
  split
  rotate_left
  · exact True.intro
  have hre : reify s.heap reifyDepth (.arr id2 []) = .arr id2 ((s.heap.getArr id2).map (reify s.heap 63)) := reify_arr _ 63 _ _ h2
  rw [hre]
  have hX := (hr0.arrs id1).append (hr0.arrs id2)
  have hrun : run (ofExpect line (Spec.binary (specOp .add) (.arr id1 ((s.heap.getArr id1).map (reify s.heap 63)))
        (.arr id2 ((s.heap.getArr id2).map (reify s.heap 63)))) >>= fun v => reflectM v) s =
      (.ok (.arr s.heap.next []), { s with heap := (s.heap.alloc (.arr (s.heap.getArr id1 ++ s.heap.getArr id2))).1 }) := by
    show run (reflectM (.arr 0 ((s.heap.getArr id1).map (reify s.heap 63) ++ (s.heap.getArr id2).map (reify s.heap 63)))) s = _
    rw [← List.map_append]
    rw [run_reflectM, reflect_concat hX]
  rw [hrun]
  exact .inr ⟨rfl, _, _, hX, rfl, rfl, opH_add_arr h1 h2 (VRs.shallowR (hr0.arrs id1)) (VRs.shallowR (hr0.arrs id2))⟩

theorem binary_bridge {CT : CTab} {vl wl vr wr : Val} {s : St} {a : Heap} (hr0 : HR CT s.heap a) (line : Nat) (op : Operator)
    (hl : VR CT vl wl) (hr : VR CT vr wr) (hd : isDeep op = true → isArrV vl = false ∨ isArrV vr = false) :
    OpOutA CT a op wl wr s (run (applyBinary line (specOp op) vl vr) s) := by
  rcases hl.cases3 with ⟨hnl, hol⟩ | ⟨id, h0, rfl, rfl⟩
  · rcases hr.cases3 with ⟨hnr, hor⟩ | ⟨id, h0, rfl, rfl⟩
    · exact OpOutA.ofF (RefFn.binary_bridge a line op hol hor s)
    · rw [run_applyBinary_arr_right hol _ _ _ _ _ h0]
      split
      rotate_left
      · exact True.intro
      rw [spec_arr_right op id _ _ (fun _ => hnl)]
      by_cases heq : op = .equal ∨ op = .notEqual
      · rw [if_pos heq]; exact True.intro
      · rw [if_neg heq]
        show Core.Fn.opH a op wl (.arr id []) = .fail
        have hva := view_arr a id [] h0
        have hsp := P2sh.Props.C09.binary_spec op (Core.Fn.view a wl) (Core.Fn.view a (.arr id [])) (by
          rw [hva]
          rintro - ⟨-, s1, n1, (⟨h1, h2⟩ | ⟨h1, h2⟩), -⟩
          · cases h2
          · cases h2)
        rw [hva, spec_arr_right op id _ _ (fun _ => notArr_view hl hnl a), if_neg heq] at hsp
        obtain ⟨msg, hm⟩ := hsp
        exact opH_err' a op (by rw [hva]; exact hm)
  · by_cases hboth : isArrV vr = true ∧ op = .add
    · obtain ⟨hav, rfl⟩ := hboth
      rcases hr.cases3 with ⟨hnr, -⟩ | ⟨id2, h02, rfl, rfl⟩
      · rw [hav] at hnr; cases hnr
      · exact add_arr_bridge hr0 line h0 h02
    have hd' : isDeepA op = true → isArrV vr = false := by
      intro h
      by_cases hadd : op = .add
      · cases hv : isArrV vr
        · rfl
        · exact absurd ⟨hv, hadd⟩ hboth
      · have hdp : isDeep op = true := by cases op <;> simp_all [isDeepA, isDeep]
        exact (hd hdp).resolve_left (by simp [isArrV])
    rw [run_applyBinary_arr_left _ _ _ _ _ _ h0]
    split
    rotate_left
    · exact True.intro
    split
    rotate_left
    · exact True.intro
    rw [spec_arr_left op id _ _ (fun h => notArr_reify hr (hd' h) _)]
    by_cases heq : op = .equal ∨ op = .notEqual
    · rw [if_pos heq]; exact True.intro
    · rw [if_neg heq]
      show Core.Fn.opH a op (.arr id []) wr = .fail
      have hva := view_arr a id [] h0
      have hsp := P2sh.Props.C09.binary_spec op (Core.Fn.view a (.arr id [])) (Core.Fn.view a wr) (by
        rw [hva]
        rintro - ⟨-, s1, n1, (⟨h1, h2⟩ | ⟨h1, h2⟩), -⟩
        · cases h1
        · cases h1)
      rw [hva, spec_arr_left op id _ _ (fun h => notArr_view hr (hd' h) a), if_neg heq] at hsp
      obtain ⟨msg, hm⟩ := hsp
      exact opH_err' a op (by rw [hva]; exact hm)

/-! ## `match` on a scrutinee that may be an array -/

/-- the scrutinee of a `match` after `reifyM`: a scalar / closure as it was, or an expanded array -/
def SR (CT : CTab) (v w : Val) : Prop :=
  RefFn.VR (oldCT CT) v w ∨ ∃ id L, id ≠ 0 ∧ v = .arr id L ∧ w = .arr id []

theorem eq_arr_scalar (id : Nat) (L : List Val) {w : Val} (hw : isScalar w = true) : Val.eq (.arr id L) w = false := by
  cases w <;> first | rfl | (simp [isScalar] at hw)

theorem patTestH_arr_scalar (a : Heap) (id : Nat) (h0 : id ≠ 0) (w : Val) (hw : isScalar w = true) :
    Core.Fn.patTestH a (.arr id []) (.lit w) = some false := by
  simp only [Core.Fn.patTestH, Core.Fn.cmpH, view_arr a id [] h0, view_scalar a hw, execOperator, eq_arr_scalar _ _ hw]
  rfl

theorem patTestH_arr_bool (a : Heap) (id : Nat) (h0 : id ≠ 0) (b : Bool) :
    Core.Fn.patTestH a (.arr id []) (.bool b) = some false := by
  have hw : isScalar (.bool b) = true := rfl
  simp only [Core.Fn.patTestH, Core.Fn.cmpH, view_arr a id [] h0, view_scalar a hw, execOperator, eq_arr_scalar _ _ hw]
  rfl

theorem pat_bridge_arr (a : Heap) (s : St) (id : Nat) (L : List Val) (h0 : id ≠ 0) (p : LPat) :
    PatOutF a (.arr id []) (Core.erasePat p) s (run (patMatches (.arr id L) (toPatL p)) s) := by
  have hv := view_arr a id [] h0
  have hvs : ∀ x, isScalar x = true → Core.Fn.view a x = x := fun x h => view_scalar a h
  cases p with
  | dflt l => exact ⟨rfl, rfl⟩
  | bool l b => exact ⟨rfl, patTestH_arr_bool a id h0 b⟩
  | lit l w =>
    cases w <;> first
      | exact True.intro
      | exact ⟨rfl, patTestH_arr_scalar a id h0 _ rfl⟩
  | range l incl lo hi => exact True.intro

theorem pat_bridge {CT : CTab} {v w : Val} (a : Heap) (s : St) (hvw : SR CT v w) (p : LPat) :
    PatOutF a w (Core.erasePat p) s (run (patMatches v (toPatL p)) s) := by
  rcases hvw with ho | ⟨id, L, h0, rfl, rfl⟩
  · exact RefFn.pat_bridge a s ho p
  · exact pat_bridge_arr a s id L h0 p

theorem run_hitLoopF {CT : CTab} {v w : Val} (a : Heap) (hvw : SR CT v w) (s : St) :
    ∀ (ps : List LPat) (hit0 : Bool), HitOutF hit0 a w (ps.map Core.erasePat) s (run (hitLoop hit0 v (ps.map toPatL)) s)
  | [], hit0 => by
    simp only [List.map_nil]
    rw [hitLoop_nil]
    cases hit0 <;> exact ⟨rfl, rfl⟩
  | p :: ps, hit0 => by
    simp only [List.map_cons]
    rw [hitLoop_cons, run_bind]
    cases hit0 with
    | true =>
      have := run_hitLoopF a hvw s ps true
      simp only [if_true, run_pure]
      revert this
      rcases run (hitLoop true v (ps.map toPatL)) s with ⟨er | b', s2⟩
      · exact id
      · rintro ⟨rfl, hb⟩; exact ⟨rfl, hb⟩
    | false =>
      have hp := pat_bridge a s hvw p
      revert hp
      simp only [Bool.false_eq_true, if_false]
      rcases run (patMatches v (toPatL p)) s with ⟨er | b, s1⟩
      · cases er <;> intro h <;> first | exact h.elim | exact True.intro
      · rintro ⟨rfl, hpt⟩
        have := run_hitLoopF a hvw s1 ps b
        revert this
        show HitOutF b a w (ps.map Core.erasePat) s1 (run (hitLoop b v (ps.map toPatL)) s1) →
          HitOutF false a w ((p :: ps).map Core.erasePat) s1 (run (hitLoop b v (ps.map toPatL)) s1)
        rcases run (hitLoop b v (ps.map toPatL)) s1 with ⟨er | b', s2⟩
        · cases er <;> exact id
        · rintro ⟨rfl, hb⟩
          refine ⟨rfl, ?_⟩
          cases b with
          | true =>
            simp only [if_true] at hb
            simp [Core.Fn.patsTestH, hpt, hb]
          | false =>
            simp only [Bool.false_eq_true, if_false] at hb ⊢
            simp [Core.Fn.patsTestH, hpt, hb]

theorem SR.ofReify {CT : CTab} {v w : Val} (h : VR CT v w) (hp : Heap) : SR CT (reify hp reifyDepth v) w := by
  rcases h.cases3 with ⟨hn, ho⟩ | ⟨id, h0, rfl, rfl⟩
  · rw [reify_old ho]; exact .inl ho
  · exact .inr ⟨id, _, h0, reify_arr hp 63 id [] h0, rfl⟩

theorem poisonK_ok {CT : CTab} {v w : Val} (env : Env) (h : VR CT v w) : poisonK env v = pure (.val v env) := by
  rcases h.cases3 with ⟨hn, ho⟩ | ⟨id, h0, rfl, rfl⟩
  · exact RefFn.poisonK_ok env ho
  · rfl

/-! ## index reads and writes -/

def IdxOut (CT : CTab) (a : Heap) (wc wi : Val) (s : St) : Except Err Val × St → Prop
  | (.ok v, s') => s' = s ∧ ∃ w, Core.Fn.getIndexH a wc wi = some w ∧ VR CT v w
  | (.error (.rt _), _) => Core.Fn.getIndexH a wc wi = none
  | (.error _, _) => True

theorem run_indexGet_arr_int (l id : Nat) (xs : List Val) (n : Int64) (s : St) :
    run (indexGet l (.arr id xs) (.int n)) s =
      if (decide (n.toInt < 0) || decide (n.toInt ≥ ((s.heap.getArr id).length : Int))) = true then (.error (.rt l), s)
      else (.ok ((s.heap.getArr id).getD n.toInt.toNat .null), s) := by
  rw [indexGet]
  show run (if _ then _ else _) s = _
  split <;> rfl

theorem int64_neg_iff (n : Int64) : n < 0 ↔ n.toInt < 0 := by
  rw [Int64.lt_iff_toInt_lt]; exact Iff.rfl

theorem getIndexH_arr_int (a : Heap) (id : Nat) (xs : List Val) (n : Int64) :
    Core.Fn.getIndexH a (.arr id xs) (.int n) = if n < 0 then none else (a.getArr id)[n.toInt.toNat]? := rfl

theorem setIndexH_arr_int (a : Heap) (id : Nat) (xs : List Val) (n : Int64) (v : Val) :
    Core.Fn.setIndexH a (.arr id xs) (.int n) v =
      if n < 0 then none
      else if n.toInt.toNat < (a.getArr id).length then some (a.set id (.arr ((a.getArr id).set n.toInt.toNat v)))
      else none := by
  simp only [Core.Fn.setIndexH, setH_eq]; rfl

theorem index_bridge {CT : CTab} {va wc vi wi : Val} {s : St} {a : Heap} (hr : HR CT s.heap a) (hc : VR CT va wc) (hi : VR CT vi wi) (l : Nat) :
    IdxOut CT a wc wi s (run (indexGet l va vi) s) := by
  rcases hc.cases3 with ⟨hn, ho⟩ | ⟨id, h0, rfl, rfl⟩
  · rcases ho with ⟨hs, rfl⟩ | ⟨k, fd, hid, rfl, rfl, -⟩
    · have h1 : run (indexGet l wc vi) s = (.error (.rt l), s) := by
        rw [indexGet]; cases wc <;> first | (simp [isScalar] at hs; done) | rfl
      rw [h1]
      show Core.Fn.getIndexH a wc wi = none
      cases wc <;> first | (simp [isScalar] at hs; done) | rfl
    · have h1 : run (indexGet l (.clos emptyFn [] (k+1)) vi) s = (.error (.rt l), s) := by rw [indexGet]; rfl
      rw [h1]
      exact (rfl : Core.Fn.getIndexH a (.clos fd [] hid) wi = none)
  · have hnon : ∀ (v w : Val), (∀ n, v ≠ .int n) → (∀ n, w ≠ .int n) →
        IdxOut CT a (.arr id []) w s (run (indexGet l (.arr id []) v) s) := by
      intro v w hv hw
      have h1 : run (indexGet l (.arr id []) v) s = (.error (.rt l), s) := by
        rw [indexGet]
        cases v <;> first | rfl | exact absurd rfl (hv _)
      rw [h1]
      show Core.Fn.getIndexH a (.arr id []) w = none
      cases w <;> first | rfl | exact absurd rfl (hw _)
    rcases hi.cases3 with ⟨hni, hoi⟩ | ⟨id2, h02, rfl, rfl⟩
    · rcases hoi with ⟨hs, rfl⟩ | ⟨k, fd, hid, rfl, rfl, -⟩
      · by_cases hint : ∃ n, wi = .int n
        · obtain ⟨n, rfl⟩ := hint
          rw [run_indexGet_arr_int]
          have hlen := (hr.arrs id).length
          by_cases hneg : n.toInt < 0
          · simp only [hneg, decide_true, Bool.true_or, if_true]
            show Core.Fn.getIndexH a (.arr id []) (.int n) = none
            rw [getIndexH_arr_int, if_pos ((int64_neg_iff n).mpr hneg)]
          · by_cases hge : n.toInt ≥ ((s.heap.getArr id).length : Int)
            · simp only [hge, decide_true, Bool.or_true, if_true]
              show Core.Fn.getIndexH a (.arr id []) (.int n) = none
              have hnn : ¬ n < 0 := fun h => hneg ((int64_neg_iff n).mp h)
              rw [getIndexH_arr_int, if_neg hnn]
              apply List.getElem?_eq_none
              omega
            · simp only [hneg, hge, decide_false, Bool.or_false, Bool.false_eq_true, if_false]
              have hlt : n.toInt.toNat < (s.heap.getArr id).length := by omega
              obtain ⟨w, hw, hvr⟩ := (hr.arrs id).get _ hlt
              refine ⟨rfl, w, ?_, hvr⟩
              have hnn : ¬ n < 0 := fun h => hneg ((int64_neg_iff n).mp h)
              rw [getIndexH_arr_int, if_neg hnn]
              exact hw
        · exact hnon wi wi (fun n e => hint ⟨n, e⟩) (fun n e => hint ⟨n, e⟩)
      · exact hnon _ _ (fun n e => by cases e) (fun n e => by cases e)
    · exact hnon _ _ (fun n e => by cases e) (fun n e => by cases e)

def SetOut (CT : CTab) (a : Heap) (wc wi w : Val) (s : St) : Except Err Unit × St → Prop
  | (.ok _, s') => ∃ hp' a', Core.Fn.setIndexH a wc wi w = some a' ∧ HR CT hp' a' ∧ s' = { s with heap := hp' }
  | (.error (.rt _), _) => Core.Fn.setIndexH a wc wi w = none
  | (.error _, _) => True

theorem run_indexSet_arr_int (l id : Nat) (xs : List Val) (n : Int64) (v : Val) (s : St) :
    run (indexSet l (.arr id xs) (.int n) v) s =
      if (decide (n.toInt < 0) || decide (n.toInt ≥ ((s.heap.getArr id).length : Int))) = true then (.error (.rt l), s)
      else if s.keyed.contains id = true then (.error .unc, s)
      else (.ok (), { s with heap := s.heap.set id (.arr ((s.heap.getArr id).set n.toInt.toNat v)) }) := by
  rw [indexSet]
  show run (if _ then _ else _) s = _
  split
  · rfl
  · show run (guardKeyed id >>= _) s = _
    unfold guardKeyed
    rw [bind_assoc, run_get_bind]
    split <;> rfl

theorem indexSet_bridge {CT : CTab} {va wc vi wi v w : Val} {s : St} {a : Heap} (hr : HR CT s.heap a) (hkd : s.keyed = [])
    (hc : VR CT va wc) (hi : VR CT vi wi) (hv : VR CT v w) (l : Nat) : SetOut CT a wc wi w s (run (indexSet l va vi v) s) := by
  rcases hc.cases3 with ⟨hn, ho⟩ | ⟨id, h0, rfl, rfl⟩
  · rcases ho with ⟨hs, rfl⟩ | ⟨k, fd, hid, rfl, rfl, -⟩
    · have h1 : run (indexSet l wc vi v) s = (.error (.rt l), s) := by
        rw [indexSet]; cases wc <;> first | (simp [isScalar] at hs; done) | rfl
      rw [h1]
      show Core.Fn.setIndexH a wc wi w = none
      cases wc <;> first | (simp [isScalar] at hs; done) | rfl
    · have h1 : run (indexSet l (.clos emptyFn [] (k+1)) vi v) s = (.error (.rt l), s) := by rw [indexSet]; rfl
      rw [h1]
      exact (rfl : Core.Fn.setIndexH a (.clos fd [] hid) wi w = none)
  · have hnon : ∀ (x y : Val), (∀ n, x ≠ .int n) → (∀ n, y ≠ .int n) →
        SetOut CT a (.arr id []) y w s (run (indexSet l (.arr id []) x v) s) := by
      intro x y hx hy
      have h1 : run (indexSet l (.arr id []) x v) s = (.error (.rt l), s) := by
        rw [indexSet]
        cases x <;> first | rfl | exact absurd rfl (hx _)
      rw [h1]
      show Core.Fn.setIndexH a (.arr id []) y w = none
      cases y <;> first | rfl | exact absurd rfl (hy _)
    rcases hi.cases3 with ⟨hni, hoi⟩ | ⟨id2, h02, rfl, rfl⟩
    · rcases hoi with ⟨hs, rfl⟩ | ⟨k, fd, hid, rfl, rfl, -⟩
      · by_cases hint : ∃ n, wi = .int n
        · obtain ⟨n, rfl⟩ := hint
          rw [run_indexSet_arr_int]
          have hlen := (hr.arrs id).length
          by_cases hneg : n.toInt < 0
          · simp only [hneg, decide_true, Bool.true_or, if_true]
            show Core.Fn.setIndexH a (.arr id []) (.int n) w = none
            rw [setIndexH_arr_int, if_pos ((int64_neg_iff n).mpr hneg)]
          · have hnn : ¬ n < 0 := fun h => hneg ((int64_neg_iff n).mp h)
            by_cases hge : n.toInt ≥ ((s.heap.getArr id).length : Int)
            · simp only [hge, decide_true, Bool.or_true, if_true]
              show Core.Fn.setIndexH a (.arr id []) (.int n) w = none
              have : ¬ n.toInt.toNat < (a.getArr id).length := by omega
              rw [setIndexH_arr_int, if_neg hnn, if_neg this]
            · have hkc : s.keyed.contains id = false := by rw [hkd]; rfl
              simp only [hneg, hge, decide_false, Bool.or_false, Bool.false_eq_true, if_false, hkc]
              have hlt : n.toInt.toNat < (s.heap.getArr id).length := by omega
              have hlt' : n.toInt.toNat < (a.getArr id).length := by omega
              refine ⟨_, a.set id (.arr ((a.getArr id).set n.toInt.toNat w)), ?_, hr.set hv hlt, rfl⟩
              rw [setIndexH_arr_int, if_neg hnn, if_pos hlt']
        · exact hnon wi wi (fun n e => hint ⟨n, e⟩) (fun n e => hint ⟨n, e⟩)
      · exact hnon _ _ (fun n e => by cases e) (fun n e => by cases e)
    · exact hnon _ _ (fun n e => by cases e) (fun n e => by cases e)

/-! ## equations for the new constructs -/

theorem evalE_arr (f : Nat) (env : Env) (l : Nat) (es : List Expr) :
    Ref.evalE (f+1) env (.arr l es) = bindR (Ref.evalArgs f env es) fun vs env =>
      reflectM (.arr 0 vs) >>= fun v => pure (.val v env) := by
  rw [Ref.evalE]; bindR_eq

theorem evalE_index (f : Nat) (env : Env) (l : Nat) (a i : Expr) (acc : Access) :
    Ref.evalE (f+1) env (.index l a i acc) = bindR (Ref.evalE f env a) fun va env =>
      bindR (Ref.evalE f env i) fun vi env => indexGet l va vi >>= fun r => pure (.val r env) := by
  rw [Ref.evalE]; bindR_eq

theorem evalE_setIndex (f : Nat) (env : Env) (l l2 : Nat) (a i : Expr) (acc : Access) (rhs : Expr) :
    Ref.evalE (f+1) env (.assign l (.index l2 a i acc) rhs) = bindR (Ref.evalE f env rhs) fun v env =>
      bindR (Ref.evalE f env a) fun va env => bindR (Ref.evalE f env i) fun vi env =>
        indexSet l va vi v >>= fun _ => pure (.val v env) := by
  rw [Ref.evalE]; bindR_eq

section CoreEqC
variable (Φ : FnDef → Option FDecl)

def arrK (q : List Val × Sto) : Option (Val × Sto) :=
  some (.arr q.2.a.next [], q.2.setA (q.2.a.alloc (.arr q.1)).1)

theorem fE_arrLit (k : Nat) (cx : Option (FnDef × Nat)) (σ : Sto) (l : Nat) (es : FArgs) :
    Core.Fn.evalE Φ (k+1) cx σ (.arrLit l es) = (Core.Fn.evalArgs Φ k cx σ es).bind arrK := by
  simp only [Core.Fn.evalE]
  cases Core.Fn.evalArgs Φ k cx σ es with
  | none => rfl
  | some q =>
    obtain ⟨vs, σ1⟩ := q
    simp only [Option.bind_some, arrK, Core.Fn.mkArr, allocH_eq]
    rfl

def idxK (vc : Val) (q : Val × Sto) : Option (Val × Sto) :=
  match Core.Fn.getIndexH q.2.a vc q.1 with
  | some v => some (v, q.2)
  | none => none

theorem fE_index (k : Nat) (cx : Option (FnDef × Nat)) (σ : Sto) (l : Nat) (c i : FExpr) :
    Core.Fn.evalE Φ (k+1) cx σ (.index l c i) =
      (Core.Fn.evalE Φ k cx σ c).bind fun p => (Core.Fn.evalE Φ k cx p.2 i).bind (idxK p.1) := by
  simp only [Core.Fn.evalE]
  cases Core.Fn.evalE Φ k cx σ c with
  | none => rfl
  | some p =>
    obtain ⟨vc, σ1⟩ := p
    simp only [Option.bind_some]
    cases Core.Fn.evalE Φ k cx σ1 i with
    | none => rfl
    | some q => rfl

def setIdxK (v vc : Val) (q : Val × Sto) : Option (Val × Sto) :=
  match Core.Fn.setIndexH q.2.a vc q.1 v with
  | some a' => some (v, q.2.setA a')
  | none => none

theorem fE_setIndex (k : Nat) (cx : Option (FnDef × Nat)) (σ : Sto) (l : Nat) (c i e : FExpr) :
    Core.Fn.evalE Φ (k+1) cx σ (.setIndex l c i e) =
      (Core.Fn.evalE Φ k cx σ e).bind fun p => (Core.Fn.evalE Φ k cx p.2 c).bind fun q =>
        (Core.Fn.evalE Φ k cx q.2 i).bind (setIdxK p.1 q.1) := by
  simp only [Core.Fn.evalE]
  cases Core.Fn.evalE Φ k cx σ e with
  | none => rfl
  | some p =>
    obtain ⟨v, σ1⟩ := p
    simp only [Option.bind_some]
    cases Core.Fn.evalE Φ k cx σ1 c with
    | none => rfl
    | some q =>
      obtain ⟨vc, σ2⟩ := q
      simp only [Option.bind_some]
      cases Core.Fn.evalE Φ k cx σ2 i with
      | none => rfl
      | some r => rfl

end CoreEqC

/-! ## assignment to a captured variable: the oracle's environment and Core.Fn's closure object -/

theorem updScopeCap_ok (name : String) (v : Val) : ∀ (sc : Scope) (v0 : Val), lookupScope name sc = some (.cap v0) →
    ∃ sc', updScopeCap name v sc = some sc' ∧ lookupScope name sc' = some (.cap v) ∧
      ∀ name', name' ≠ name → lookupScope name' sc' = lookupScope name' sc
  | [], _, h => by simp [lookupScope] at h
  | (n, b) :: rest, v0, h => by
    simp only [lookupScope] at h
    by_cases hn : (n == name) = true
    · simp only [hn, if_true, Option.some.injEq] at h
      subst h
      refine ⟨(n, .cap v) :: rest, by simp [updScopeCap, hn], by simp [lookupScope, hn], ?_⟩
      intro name' hne
      have hnn : n = name := by simpa using hn
      have : (n == name') = false := by rw [hnn]; simpa using (Ne.symm hne)
      simp [lookupScope, this]
    · simp only [hn, Bool.false_eq_true, if_false] at h
      obtain ⟨sc', h1, h2, h3⟩ := updScopeCap_ok name v rest v0 h
      refine ⟨(n, b) :: sc', by simp [updScopeCap, hn, h1], by simp [lookupScope, hn, h2], ?_⟩
      intro name' hne
      simp only [lookupScope]
      rw [h3 name' hne]

theorem updEnvCap_ok (name : String) (v : Val) : ∀ (env : Env) (v0 : Val), lookupEnv name env = some (.cap v0) →
    ∃ env', updEnvCap name v env = some env' ∧ lookupEnv name env' = some (.cap v) ∧
      ∀ name', name' ≠ name → lookupEnv name' env' = lookupEnv name' env
  | [], _, h => by simp [lookupEnv] at h
  | s :: rest, v0, h => by
    simp only [lookupEnv] at h
    cases hs : lookupScope name s with
    | some b =>
      rw [hs] at h
      simp only [Option.some.injEq] at h
      subst h
      obtain ⟨s', h1, h2, h3⟩ := updScopeCap_ok name v s v0 hs
      refine ⟨s' :: rest, by simp [updEnvCap, hs, h1], by simp [lookupEnv, h2], ?_⟩
      intro name' hne
      simp only [lookupEnv]
      rw [h3 name' hne]
    | none =>
      rw [hs] at h
      simp only at h
      obtain ⟨env', h1, h2, h3⟩ := updEnvCap_ok name v rest v0 h
      refine ⟨s :: env', by simp [updEnvCap, hs, h1], by simp [lookupEnv, hs, h2], ?_⟩
      intro name' hne
      simp only [lookupEnv]
      rw [h3 name' hne]

theorem isGlobalEnv_cons (s : Scope) (rest : Env) : isGlobalEnv (s :: rest) = (isGlobalEnv [s] && isGlobalEnv rest) := by
  simp [isGlobalEnv]

theorem isGlobalScope_cons (p : String × Bind) (sc : Scope) : isGlobalEnv [p :: sc] = (isGlobalEnv [[p]] && isGlobalEnv [sc]) := by
  simp [isGlobalEnv]

theorem notGlobal_scope {name : String} {v : Val} : ∀ (sc : Scope), lookupScope name sc = some (.cap v) → isGlobalEnv [sc] = false
  | [], h => by simp [lookupScope] at h
  | (n, b) :: rest, h => by
    rw [isGlobalScope_cons]
    simp only [lookupScope] at h
    by_cases hn : (n == name) = true
    · simp only [hn, if_true, Option.some.injEq] at h
      subst h
      rfl
    · simp only [hn, Bool.false_eq_true, if_false] at h
      rw [notGlobal_scope rest h, Bool.and_false]

theorem isGlobalEnv_of_cap {name : String} {v : Val} : ∀ (env : Env), lookupEnv name env = some (.cap v) → isGlobalEnv env = false
  | [], h => by simp [lookupEnv] at h
  | s :: rest, h => by
    rw [isGlobalEnv_cons]
    simp only [lookupEnv] at h
    cases hs : lookupScope name s with
    | some b =>
      rw [hs] at h
      simp only [Option.some.injEq] at h
      subst h
      rw [notGlobal_scope s hs, Bool.false_and]
    | none =>
      rw [hs] at h
      simp only at h
      rw [isGlobalEnv_of_cap rest h, Bool.and_false]

theorem updEnvCap_mkEnv_other {nm : Nat → String} {vals : Nat → Val} {base base' : Env} {name : String} {v : Val}
    (h : ∀ i, nm i ≠ name) (hu : updEnvCap name v base = some base') :
    ∀ {V : List (List Nat)}, updEnvCap name v (mkEnv nm V vals base) = some (mkEnv nm V vals base')
  | [] => hu
  | is :: rest => by
    simp only [mkEnv, List.map_cons, List.cons_append, updEnvCap]
    rw [lookupScope_mkScope_not (fun i _ => h i)]
    have ih := updEnvCap_mkEnv_other (vals := vals) h hu (V := rest)
    simp only [mkEnv] at ih
    simp [ih]

/-- the oracle's assignment to a captured variable: `unc` when the closure object is re-entered, else the
environment is changed in place and the closure's copy is poisoned for later activations -/
theorem run_assignIdent_cap {name : String} {v v0 : Val} {env env' : Env} {id : Nat} {f : FnDef} {fr : List Val} (s : St)
    (h1 : lookupEnv name env = some (.cap v0)) (h2 : lookupEnv selfKey env = some (.cap (.clos f fr id)))
    (h3 : updEnvCap name v env = some env') :
    run (assignIdent name v env) s =
      if s.active.count id ≥ 2 then (.error .unc, s)
      else (.ok (.val v env'), { s with clos := s.clos.modify (id - 1) fun c =>
              { c with captured := (name, .cap (.other "poison")) :: c.captured } }) := by
  unfold assignIdent
  simp only [h1, h2, h3]
  rw [run_get_bind]
  by_cases hc : s.active.count id ≥ 2
  · rw [if_pos hc]
    simp only [hc, if_true]
    rfl
  · rw [if_neg hc]
    simp only [hc, if_false]
    rfl

theorem freeSet_of_get {h : List (List Val)} {id j : Nat} {w0 : Val} (w : Val) (hg : Core.Fn.freeGet h id j = some w0) :
    ∃ fr, h[id]? = some fr ∧ j < fr.length ∧ Core.Fn.freeSet h id j w = some (h.set id (fr.set j w)) := by
  unfold Core.Fn.freeGet at hg
  unfold Core.Fn.freeSet
  cases hid : h[id]? with
  | none => simp [hid] at hg
  | some fr =>
    simp only [hid] at hg
    have hlt : j < fr.length := by
      rcases Nat.lt_or_ge j fr.length with h1 | h1
      · exact h1
      · rw [List.getElem?_eq_none h1] at hg; cases hg
    exact ⟨fr, rfl, hlt, by simp [hlt]⟩

theorem freeGet_set_self {h : List (List Val)} {id j : Nat} {fr : List Val} (w : Val) (hid : h[id]? = some fr) (hj : j < fr.length) :
    Core.Fn.freeGet (h.set id (fr.set j w)) id j = some w := by
  have hlt : id < h.length := by
    rcases Nat.lt_or_ge id h.length with h1 | h1
    · exact h1
    · rw [List.getElem?_eq_none h1] at hid; cases hid
  simp [Core.Fn.freeGet, hlt, hj]

theorem freeGet_set_other {h : List (List Val)} {id j j' : Nat} {fr : List Val} (w : Val) (hid : h[id]? = some fr) (hne : j ≠ j') :
    Core.Fn.freeGet (h.set id (fr.set j w)) id j' = Core.Fn.freeGet h id j' := by
  have hlt : id < h.length := by
    rcases Nat.lt_or_ge id h.length with h1 | h1
    · exact h1
    · rw [List.getElem?_eq_none h1] at hid; cases hid
  have hfr : h[id] = fr := by
    rw [List.getElem?_eq_getElem hlt] at hid; exact Option.some.inj hid
  simp [Core.Fn.freeGet, hlt, hfr, List.getElem?_set_ne hne]

section CoreEqS
variable (Φ : FnDef → Option FDecl)

def fsetK (cx : Option (FnDef × Nat)) (i : Nat) (p : Val × Sto) : Option (Val × Sto) :=
  match cx with
  | some (_, id) =>
    (match Core.Fn.freeSet p.2.h id i p.1 with
     | some h' => some (p.1, p.2.setH h')
     | none => none)
  | none => none

theorem fE_fset (k : Nat) (cx : Option (FnDef × Nat)) (σ : Sto) (l i : Nat) (e : FExpr) :
    Core.Fn.evalE Φ (k+1) cx σ (.fset l i e) = (Core.Fn.evalE Φ k cx σ e).bind (fsetK cx i) := by
  simp only [Core.Fn.evalE]
  cases Core.Fn.evalE Φ k cx σ e with
  | none => rfl
  | some p => rfl

end CoreEqS

/-! ## the fragment -/

/-- expressions whose value is never an array (statically) -/
def nonArrE : FExpr → Bool
  | .bin _ .add _ _ => false
  | .lit .. | .tru _ | .fls _ | .null _ | .un .. | .bin .. | .lt .. | .le .. | .mkclos .. => true
  | _ => false

/-- `==`, `!=` compare two arrays in depth: one operand must be statically no array -/
def deepOK (op : Operator) (a b : FExpr) : Bool := !isDeep op || nonArrE a || nonArrE b

theorem deepOK_spec {op : Operator} {a b : FExpr} (h : deepOK op a b = true) :
    isDeep op = true → nonArrE a = true ∨ nonArrE b = true := by
  unfold deepOK at h
  cases h1 : isDeep op <;> cases h2 : nonArrE a <;> cases h3 : nonArrE b <;> simp [h1, h2, h3] at h ⊢


def visAfter : FStmt → List Nat → List Nat
  | .letL _ i _, vis => i :: vis
  | _, vis => vis

def defs : List FStmt → List Nat → List Nat
  | [], acc => acc
  | s :: rest, acc => defs rest (visAfter s acc)

theorem visAfter_append (s : FStmt) (a b : List Nat) : visAfter s (a ++ b) = visAfter s a ++ b := by
  cases s <;> rfl

def setTop (x : List Nat) : List (List Nat) → List (List Nat)
  | [] => []
  | _ :: Vt => x :: Vt

def lastRet (ss : List FStmt) : Bool :=
  match ss.getLast? with
  | some s => s.isRet
  | none => false

def lastExpr (ss : List FStmt) : Bool :=
  match ss.getLast? with
  | some s => s.isExprStmt
  | none => false

/-- a function body may end in an expression statement, an `if`, a `let`, a `return`, or be empty (the
value of a body that ends in a block or a loop is not specified by the oracle) -/
def lastOK (ss : List FStmt) : Bool :=
  match ss.getLast? with
  | some (.letL ..) | some (.expr ..) | some (.ifS ..) | some (.ret ..) | some (.retN ..) | none => true
  | _ => false

def okCap (c : Ctx) (vis : List Nat) : Cap → Bool
  | .loc i => vis.contains i
  | .free j => decide (j < c.frees.length)
  | .self => c.self != ""

def paramVis (np : Nat) : List Nat := (List.range np).reverse

open Classical in
mutual
/-- the expressions covered (see the header) -/
noncomputable def okE (N : Names) (Φ : FnDef → Option FDecl) (c : Ctx) (gh nl : Nat) (vis : List Nat) : FExpr → Bool
  | .lit .. | .tru _ | .fls _ | .null _ => true
  | .un _ _ e => okE N Φ c gh nl vis e
  | .bin _ op a b => okE N Φ c gh nl vis a && okE N Φ c gh nl vis b && deepOK op a b
  | .lt _ a b | .le _ a b | .and _ a b | .or _ a b => okE N Φ c gh nl vis a && okE N Φ c gh nl vis b
  | .arrLit _ es => okArgs N Φ c gh nl vis es
  | .index _ a i => okE N Φ c gh nl vis a && okE N Φ c gh nl vis i
  | .setIndex _ a i e => okE N Φ c gh nl vis a && okE N Φ c gh nl vis i && okE N Φ c gh nl vis e
  | .ite _ cnd t e => okE N Φ c gh nl vis cnd && okE N Φ c gh nl vis t && okE N Φ c gh nl vis e
  | .gget _ i => decide (i < gh)
  | .gset _ i e => decide (i < gh) && okE N Φ c gh nl vis e
  | .lget _ i => decide (0 < c.depth) && vis.contains i
  | .lset _ i e => decide (0 < c.depth) && vis.contains i && okE N Φ c gh nl vis e
  | .curr _ => c.self != ""
  | .call _ f args => okE N Φ c gh nl vis f && okArgs N Φ c gh nl vis args
  | .fget _ j => decide (j < c.frees.length)
  | .fset _ j e => decide (j < c.frees.length) && okE N Φ c gh nl vis e
  | .matchE _ s arms => okE N Φ c gh nl vis s && okArms N Φ c gh nl vis arms
  | .mkclos l code lines np nl' body caps =>
    caps.all (okCap c vis) && decide (np ≤ nl') &&
    decide (Φ (mkFd code lines ⟨np, nl', body, l⟩) = some ⟨np, nl', body, l⟩) &&
    okP N Φ ⟨c.depth + 1, "", caps.map (capName N c)⟩ gh nl' (paramVis np) body && lastOK body &&
    decide ((caps.map (capName N c)).Nodup)
  | _ => false
noncomputable def okArms (N : Names) (Φ : FnDef → Option FDecl) (c : Ctx) (gh nl : Nat) (vis : List Nat) : FArms → Bool
  | .last _ _ d => okE N Φ c gh nl vis d
  | .cons _ _ body rest => okE N Φ c gh nl vis body && okArms N Φ c gh nl vis rest
noncomputable def okArgs (N : Names) (Φ : FnDef → Option FDecl) (c : Ctx) (gh nl : Nat) (vis : List Nat) : FArgs → Bool
  | .nil => true
  | .cons a rest => okE N Φ c gh nl vis a && okArgs N Φ c gh nl vis rest
noncomputable def okS (N : Names) (Φ : FnDef → Option FDecl) (c : Ctx) (gh nl : Nat) (vis : List Nat) : FStmt → Bool
  | .letG .. => false
  | .letL _ i e => decide (0 < c.depth) && !vis.contains i && decide (i < nl) && okE N Φ c gh nl vis e
  | .expr _ e => okE N Φ c gh nl vis e
  | .block _ body => okP N Φ c gh nl vis body
  | .whileS _ _ cnd body => okE N Φ c gh nl vis cnd && okP N Φ c gh nl vis body
  | .loopS _ _ body => okP N Φ c gh nl vis body
  | .breakS .. | .continueS .. => true
  | .ifS _ _ cnd t e => okE N Φ c gh nl vis cnd && okP N Φ c gh nl vis t && okP N Φ c gh nl vis e
  | .ret _ e => decide (0 < c.depth) && okE N Φ c gh nl vis e
  | .retN _ => decide (0 < c.depth)
noncomputable def okP (N : Names) (Φ : FnDef → Option FDecl) (c : Ctx) (gh nl : Nat) (vis : List Nat) : List FStmt → Bool
  | [] => true
  | s :: rest => okS N Φ c gh nl vis s && okP N Φ c gh nl (visAfter s vis) rest
end

structure NamesOK (N : Names) : Prop where
  gn_inj : ∀ i j, N.gn i = N.gn j → i = j
  ln_inj : ∀ d d' i j, N.ln d i = N.ln d' j → d = d' ∧ i = j
  gn_ln : ∀ i d j, N.gn i ≠ N.ln d j
  gn_key : ∀ i, N.gn i ≠ selfKey
  ln_key : ∀ d i, N.ln d i ≠ selfKey
  gn_ne : ∀ i, N.gn i ≠ ""
  ln_ne : ∀ d i, N.ln d i ≠ ""

/-! ## the relation between the two configurations -/

section Rel
variable (N : Names) (Φ : FnDef → Option FDecl)

/-- the oracle's closure `c` is Core.Fn's function constant `e.fd` with the closure object `e.hid`, created in the
context `e.cx` below the global horizon `e.gh`.  A captured copy the closure assigned in an earlier activation is
poisoned in the oracle (what a later activation reads is not specified): nothing is demanded of it. -/
def ClosEntry (CT : CTab) (h : List (List Val)) (n : Nat) (c : RClos) (e : CE) : Prop :=
  ∃ (d : FDecl), Φ e.fd = some d ∧ c.name = e.cx.self ∧ c.params = params N e.cx.depth d.np ∧
    c.body.stmts = toStmtsF N e.cx d.body ∧ 0 < e.cx.depth ∧ d.np ≤ d.nl ∧ e.gh ≤ n ∧
    okP N Φ e.cx e.gh d.nl (paramVis d.np) d.body = true ∧ lastOK d.body = true ∧
    (∀ j, j < e.gh → N.gn j ≠ e.cx.self ∧ lookupScope (N.gn j) c.captured = some (.g j)) ∧
    (∀ j name, e.cx.frees[j]? = some name → (∀ d' i, e.cx.depth ≤ d' → N.ln d' i ≠ name) ∧ name ≠ e.cx.self ∧ name ≠ selfKey ∧ name ≠ "" ∧
      (∀ i, i < e.gh → N.gn i ≠ name) ∧
      ∃ v w, lookupScope name c.captured = some (.cap v) ∧ Core.Fn.freeGet h e.hid j = some w ∧ (v = .other "poison" ∨ VR CT v w)) ∧
    (∀ d' i, N.ln d' i ≠ e.cx.self) ∧ e.cx.self ≠ selfKey ∧ e.cx.frees.Nodup

structure Inv (CT : CTab) (n : Nat) (st : St) (σ : Sto) : Prop where
  closLen : st.clos.length = CT.length
  clos : ∀ (k : Nat) e, CT[k]? = some e → ∃ c, st.clos[k]? = some c ∧ ClosEntry N Φ CT σ.h n c e
  cellsLen : st.cells.length = n
  gLen : n ≤ σ.g.length
  cells : ∀ j, j < n → ∃ v w, st.cells[j]? = some v ∧ σ.g[j]? = some w ∧ VR CT v w
  fresh : ∀ i, n ≤ i → st.sites.find? (·.1 == i) = none
  heap : HR CT st.heap σ.a
  hidInj : ∀ (k k' : Nat) (e e' : CE), CT[k]? = some e → CT[k']? = some e' → e.hid = e'.hid → k = k'
  hidLt : ∀ (k : Nat) (e : CE), CT[k]? = some e → e.hid < σ.h.length
  /-- no container is (part of) a map key: the fragment has no maps (`St.keyed`, see `Ref.guardKeyed`) -/
  keyed : st.keyed = []

/-- the static data of an activation (`act`: the oracle's list of running closure ids while this activation runs,
its own id first) -/
structure Act where
  c : Ctx
  gh : Nat
  nl : Nat
  cx : Option (FnDef × Nat)
  act : List Nat

/-- the dynamic data of an activation on the oracle's side: the values of the local slots and the base of the
environment (`[self, (%self, ·) :: captured]`, changed in place by an assignment to a captured variable) -/
structure LS where
  vals : Nat → P2sh.Val
  base : Env

def LS.upd (s : LS) (i : Nat) (v : Val) : LS := ⟨RefFn.upd s.vals i v, s.base⟩

structure Frame (A : Act) (CT : CTab) (V : List (List Nat)) (vals : LS) (σ : Sto) : Prop where
  nodup : V.flatten.Nodup
  locals : ∀ i ∈ V.flatten, ∃ w, σ.l[i]? = some w ∧ VR CT (vals.vals i) w
  lLen : σ.l.length = A.nl
  globals : ∀ j, j < A.gh → lookupEnv (N.gn j) vals.base = some (.g j)
  self : A.c.self ≠ "" → (∀ d' i, N.ln d' i ≠ A.c.self) ∧ A.c.self ≠ selfKey ∧ (∀ j, j < A.gh → N.gn j ≠ A.c.self) ∧
    ∃ vf fd id, lookupEnv A.c.self vals.base = some (.cap vf) ∧ A.cx = some (fd, id) ∧ VR CT vf (.clos fd [] id)
  frees : ∀ j name, A.c.frees[j]? = some name → (∀ d' i, A.c.depth ≤ d' → N.ln d' i ≠ name) ∧ name ≠ "" ∧ name ≠ selfKey ∧
    name ≠ A.c.self ∧ (∀ i, i < A.gh → N.gn i ≠ name) ∧
    ∃ v w fd id, A.cx = some (fd, id) ∧ lookupEnv name vals.base = some (.cap v) ∧ Core.Fn.freeGet σ.h id j = some w ∧
      (v = .other "poison" ∨ VR CT v w)
  freesNodup : A.c.frees.Nodup
  infn : 0 < A.c.depth → (∃ x, A.cx = some x) ∧ isGlobalEnv vals.base = false ∧ V ≠ []
  topg : A.c.depth = 0 → isGlobalEnv vals.base = true ∧ A.c.frees = []
  me : ∀ fd hid, A.cx = some (fd, hid) → ∃ k, CT[k]? = some ⟨fd, hid, A.c, A.gh⟩ ∧ (k + 1) ∈ A.act ∧
    lookupEnv selfKey vals.base = some (.cap (.clos emptyFn [] (k + 1)))

/-- the closure objects of the RUNNING closures are left as they were, except the object of the activation `A`
itself -- unless that one is re-entered (it occurs twice among the running ones: then the oracle's re-entrancy rule
makes every assignment `unc`) -/
def Unch (A : Act) (CT : CTab) (h h' : List (List Val)) : Prop :=
  ∀ (k : Nat) (e : CE), CT[k]? = some e → (k + 1) ∈ A.act →
    ((∀ fd hid, A.cx = some (fd, hid) → hid ≠ e.hid) ∨ 2 ≤ A.act.count (k + 1)) → h'[e.hid]? = h[e.hid]?

/-- what a call leaves alone: the closure objects of every running closure -/
def UnchAll (CT : CTab) (act : List Nat) (h h' : List (List Val)) : Prop :=
  ∀ (k : Nat) (e : CE), CT[k]? = some e → (k + 1) ∈ act → h'[e.hid]? = h[e.hid]?

structure Next (A : Act) (n : Nat) (CT : CTab) (σ : Sto) (V : List (List Nat)) (CT' : CTab) (vals' : LS) (st' : St) (σ' : Sto) : Prop where
  ext : CT <+: CT'
  hlen : σ.h.length ≤ σ'.h.length
  inv : Inv N Φ CT' n st' σ'
  frame : Frame N A CT' V vals' σ'
  act : st'.active = A.act
  unch : Unch A CT σ.h σ'.h

theorem freeGet_congr {h h' : List (List Val)} {id : Nat} (hh : h'[id]? = h[id]?) (j : Nat) :
    Core.Fn.freeGet h' id j = Core.Fn.freeGet h id j := by
  unfold Core.Fn.freeGet; rw [hh]

theorem getElem?_prefix {α : Type} {l l' : List α} {k : Nat} {x : α} (hp : l <+: l') (h : l[k]? = some x) : l'[k]? = some x := by
  obtain ⟨t, rfl⟩ := hp
  have hlt : k < l.length := by
    rcases Nat.lt_or_ge k l.length with h1 | h1
    · exact h1
    · rw [List.getElem?_eq_none h1] at h; cases h
  rw [List.getElem?_append_left hlt]; exact h

theorem Unch.refl (A : Act) (CT : CTab) (h : List (List Val)) : Unch A CT h h := fun _ _ _ _ _ => rfl

theorem Unch.trans {A : Act} {CT CT1 : CTab} {h h1 h2 : List (List Val)} (hp : CT <+: CT1) (a : Unch A CT h h1) (b : Unch A CT1 h1 h2) :
    Unch A CT h h2 := fun k e hk hl hc => (b k e (getElem?_prefix hp hk) hl hc).trans (a k e hk hl hc)

variable {N Φ}

theorem ClosEntry.mono {CT CT' : CTab} {h h' : List (List Val)} {n n' : Nat} {c : RClos} {e : CE}
    (hc : CT <+: CT') (hh : h'[e.hid]? = h[e.hid]?) (hn : n ≤ n') (he : ClosEntry N Φ CT h n c e) : ClosEntry N Φ CT' h' n' c e := by
  obtain ⟨d, h1, h2, h3, h4, h5, h6, h7, h8, h9, h10, h11, h12, h13, h14⟩ := he
  refine ⟨d, h1, h2, h3, h4, h5, h6, Nat.le_trans h7 hn, h8, h9, h10, ?_, h12, h13, h14⟩
  intro j name hj
  obtain ⟨a1, a2, a3, a4, a5, v, w, b1, b2, b3⟩ := h11 j name hj
  exact ⟨a1, a2, a3, a4, a5, v, w, b1, by rw [freeGet_congr hh]; exact b2, b3.imp id (fun x => x.mono hc)⟩

theorem Inv.of_gh {CT : CTab} {n : Nat} {st : St} {σ σ' : Sto} (hg : σ'.g = σ.g) (hh : σ'.h = σ.h) (ha : σ'.a = σ.a) (h : Inv N Φ CT n st σ) :
    Inv N Φ CT n st σ' :=
  ⟨h.closLen, by rw [hh]; exact h.clos, h.cellsLen, by rw [hg]; exact h.gLen, by rw [hg]; exact h.cells, h.fresh, by rw [ha]; exact h.heap,
   h.hidInj, by rw [hh]; exact h.hidLt, h.keyed⟩

theorem Inv.setA {CT : CTab} {n : Nat} {st : St} {σ : Sto} (h : Inv N Φ CT n st σ) {hp a' : Heap} (hr : HR CT hp a') :
    Inv N Φ CT n { st with heap := hp } (σ.setA a') :=
  ⟨h.closLen, h.clos, h.cellsLen, h.gLen, h.cells, h.fresh, hr, h.hidInj, h.hidLt, h.keyed⟩

theorem Inv.of_active {CT : CTab} {n : Nat} {st : St} {σ : Sto} (h : Inv N Φ CT n st σ) (act : List Nat) :
    Inv N Φ CT n { st with active := act } σ :=
  ⟨h.closLen, h.clos, h.cellsLen, h.gLen, h.cells, h.fresh, h.heap, h.hidInj, h.hidLt, h.keyed⟩

theorem Inv.gset {CT : CTab} {n : Nat} {st : St} {σ : Sto} {j : Nat} {v w : Val} (h : Inv N Φ CT n st σ) (hj : j < n)
    (hv : VR CT v w) : Inv N Φ CT n { st with cells := st.cells.set j v } (σ.gset j w) := by
  refine ⟨h.closLen, h.clos, by simp [h.cellsLen], by simp [h.gLen], ?_, h.fresh, h.heap, h.hidInj, h.hidLt, h.keyed⟩
  intro i hi
  obtain ⟨v0, w0, h1, h2, h3⟩ := h.cells i hi
  by_cases hij : j = i
  · subst hij
    have hlc : j < st.cells.length := by rw [h.cellsLen]; exact hj
    have hlg : j < σ.g.length := Nat.lt_of_lt_of_le hj h.gLen
    exact ⟨v, w, by simp [hlc], by simp [hlg], hv⟩
  · exact ⟨v0, w0, by simp [List.getElem?_set_ne hij, h1], by simp [List.getElem?_set_ne hij, h2], h3⟩

theorem Frame.mono {A : Act} {CT CT' : CTab} {V : List (List Nat)} {vals : LS} {σ σ' : Sto}
    (hc : CT <+: CT') (hl : σ'.l = σ.l) (hh : ∀ fd hid, A.cx = some (fd, hid) → σ'.h[hid]? = σ.h[hid]?)
    (h : Frame N A CT V vals σ) : Frame N A CT' V vals σ' := by
  refine ⟨h.nodup, ?_, by rw [hl]; exact h.lLen, h.globals, ?_, ?_, h.freesNodup, h.infn, h.topg, ?_⟩
  · intro i hi
    obtain ⟨w, h1, h2⟩ := h.locals i hi
    exact ⟨w, by rw [hl]; exact h1, h2.mono hc⟩
  · intro hs
    obtain ⟨h0, h0', h0'', vf, fd, id, h1, h2, h3⟩ := h.self hs
    exact ⟨h0, h0', h0'', vf, fd, id, h1, h2, h3.mono hc⟩
  · intro j name hj
    obtain ⟨h0, h0a, h0b, h0c, h0d, v, w, fd, id, h1, h2, h3, h4⟩ := h.frees j name hj
    exact ⟨h0, h0a, h0b, h0c, h0d, v, w, fd, id, h1, h2, by rw [freeGet_congr (hh fd id h1)]; exact h3, h4.imp (fun x => x) (fun x => x.mono hc)⟩
  · intro fd hid hcx
    obtain ⟨k, hk, ha, hl'⟩ := h.me fd hid hcx
    exact ⟨k, getElem?_prefix hc hk, ha, hl'⟩

theorem Frame.lset {A : Act} {CT : CTab} {V : List (List Nat)} {vals : LS} {σ : Sto} {i : Nat} {v w : Val}
    (h : Frame N A CT V vals σ) (hv : VR CT v w) : Frame N A CT V (vals.upd i v) (σ.lset i w) := by
  refine ⟨h.nodup, ?_, by simp [h.lLen], h.globals, h.self, h.frees, h.freesNodup, h.infn, h.topg, h.me⟩
  intro j hj
  obtain ⟨w0, h1, h2⟩ := h.locals j hj
  by_cases hij : j = i
  · subst hij
    have hlt : j < σ.l.length := by
      rcases Nat.lt_or_ge j σ.l.length with h3 | h3
      · exact h3
      · rw [List.getElem?_eq_none h3] at h1; cases h1
    exact ⟨w, by simp [hlt], by simpa [LS.upd, upd] using hv⟩
  · exact ⟨w0, by simp [List.getElem?_set_ne (Ne.symm hij), h1], by simpa [LS.upd, upd, hij] using h2⟩

theorem Frame.bindL {A : Act} {CT : CTab} {V0 : List Nat} {Vt : List (List Nat)} {vals : LS} {σ : Sto} {i : Nat} {v w : Val}
    (h : Frame N A CT (V0 :: Vt) vals σ) (hv : VR CT v w) (hi : i ∉ (V0 :: Vt).flatten) (hlt : i < σ.l.length) :
    Frame N A CT ((i :: V0) :: Vt) (vals.upd i v) (σ.lset i w) := by
  have h' := h.lset (i := i) hv
  refine ⟨?_, ?_, h'.lLen, h.globals, h.self, h.frees, h.freesNodup, fun hd => ⟨(h.infn hd).1, (h.infn hd).2.1, by simp⟩, h.topg, h.me⟩
  · have := h.nodup
    simp only [List.flatten_cons, List.cons_append] at this hi ⊢
    exact List.nodup_cons.mpr ⟨hi, this⟩
  · intro j hj
    simp only [List.flatten_cons, List.cons_append, List.mem_cons] at hj
    rcases hj with rfl | hj
    · exact ⟨w, by simp [hlt], by simpa [LS.upd, upd] using hv⟩
    · exact h'.locals j (by simpa using hj)

theorem Frame.push {A : Act} {CT : CTab} {V : List (List Nat)} {vals : LS} {σ : Sto}
    (h : Frame N A CT V vals σ) : Frame N A CT ([] :: V) vals σ :=
  ⟨by simpa using h.nodup, by simpa using h.locals, h.lLen, h.globals, h.self, h.frees, h.freesNodup,
   fun hd => ⟨(h.infn hd).1, (h.infn hd).2.1, by simp⟩, h.topg, h.me⟩

theorem Frame.pop {A : Act} {CT : CTab} {V0 : List Nat} {V : List (List Nat)} {vals : LS} {σ : Sto}
    (h : Frame N A CT (V0 :: V) vals σ) (hne : 0 < A.c.depth → V ≠ []) : Frame N A CT V vals σ := by
  refine ⟨?_, ?_, h.lLen, h.globals, h.self, h.frees, h.freesNodup, fun hd => ⟨(h.infn hd).1, (h.infn hd).2.1, hne hd⟩, h.topg, h.me⟩
  · have := h.nodup
    simp only [List.flatten_cons] at this
    exact (List.nodup_append.mp this).2.1
  · intro i hi
    exact h.locals i (by simp [hi])

theorem Next.refl {A : Act} {n : Nat} {CT : CTab} {σ : Sto} {V : List (List Nat)} {vals : LS} {st : St}
    (hI : Inv N Φ CT n st σ) (hF : Frame N A CT V vals σ) (hL : st.active = A.act) : Next N Φ A n CT σ V CT vals st σ :=
  ⟨List.prefix_refl _, Nat.le_refl _, hI, hF, hL, Unch.refl _ _ _⟩

theorem Next.trans {A : Act} {n : Nat} {CT CT1 CT2 : CTab} {σ σ1 σ2 : Sto} {V V' : List (List Nat)} {vals1 vals2 : LS} {st1 st2 : St}
    (h1 : Next N Φ A n CT σ V CT1 vals1 st1 σ1) (h2 : Next N Φ A n CT1 σ1 V' CT2 vals2 st2 σ2) :
    Next N Φ A n CT σ V' CT2 vals2 st2 σ2 :=
  ⟨h1.ext.trans h2.ext, Nat.le_trans h1.hlen h2.hlen, h2.inv, h2.frame, h2.act, h1.unch.trans h1.ext h2.unch⟩

/-- a step that leaves the closure objects alone -/
theorem Next.same {A : Act} {n : Nat} {CT CT1 : CTab} {σ σ1 σ' : Sto} {V V' : List (List Nat)} {vals1 vals' : LS} {st1 st' : St}
    (h1 : Next N Φ A n CT σ V CT1 vals1 st1 σ1) (hh : σ'.h = σ1.h) (ha : st'.active = A.act) (hI : Inv N Φ CT1 n st' σ')
    (hF : Frame N A CT1 V' vals' σ') : Next N Φ A n CT σ V' CT1 vals' st' σ' :=
  ⟨h1.ext, by rw [hh]; exact h1.hlen, hI, hF, ha, by rw [hh]; exact h1.unch⟩

theorem freeGet_new (h : List (List Val)) (ws : List Val) (j : Nat) : Core.Fn.freeGet (h ++ [ws]) h.length j = ws[j]? := by
  simp [Core.Fn.freeGet]

theorem getElem?_push_lt {h : List (List Val)} {ws : List Val} {i : Nat} (hi : i < h.length) : (h ++ [ws])[i]? = h[i]? :=
  List.getElem?_append_left hi

/-- a new closure: the table, the oracle's closure list and the closure heap grow by one entry -/
theorem Inv.pushClos {CT : CTab} {n : Nat} {st : St} {σ : Sto} (hI : Inv N Φ CT n st σ) (c : RClos) (e : CE) (ws : List Val)
    (hid : e.hid = σ.h.length) (he : ClosEntry N Φ (CT ++ [e]) (σ.h ++ [ws]) n c e) :
    Inv N Φ (CT ++ [e]) n { st with clos := st.clos ++ [c] } (σ.pushH ws) := by
  have hp : CT <+: CT ++ [e] := List.prefix_append _ _
  have hget : ∀ k e', (CT ++ [e])[k]? = some e' → (k < CT.length ∧ CT[k]? = some e') ∨ (k = CT.length ∧ e' = e) := by
    intro k e' hk
    by_cases hlt : k < CT.length
    · rw [List.getElem?_append_left hlt] at hk; exact .inl ⟨hlt, hk⟩
    · have hk' : k = CT.length := by
        rcases Nat.lt_or_ge k (CT.length + 1) with h1 | h1
        · omega
        · rw [List.getElem?_eq_none (by simp; omega)] at hk; cases hk
      subst hk'
      simp only [List.getElem?_concat_length, Option.some.injEq] at hk
      exact .inr ⟨rfl, hk.symm⟩
  refine ⟨by simp [hI.closLen], ?_, hI.cellsLen, hI.gLen, ?_, hI.fresh, hI.heap.mono hp, ?_, ?_, hI.keyed⟩
  · intro k e' hk
    rcases hget k e' hk with ⟨hlt, hk0⟩ | ⟨rfl, rfl⟩
    · obtain ⟨c0, hc0, he0⟩ := hI.clos k e' hk0
      refine ⟨c0, ?_, he0.mono hp (getElem?_push_lt (hI.hidLt k e' hk0)) (Nat.le_refl _)⟩
      show (st.clos ++ [c])[k]? = some c0
      rw [List.getElem?_append_left (by rw [hI.closLen]; exact hlt)]; exact hc0
    · refine ⟨c, ?_, he⟩
      show (st.clos ++ [c])[CT.length]? = some c
      rw [← hI.closLen]; simp
  · intro j hj
    obtain ⟨v, w, h1, h2, h3⟩ := hI.cells j hj
    exact ⟨v, w, h1, h2, h3.mono hp⟩
  · intro k k' e1 e2 hk hk' heq
    rcases hget k e1 hk with ⟨hlt, hk0⟩ | ⟨rfl, rfl⟩ <;> rcases hget k' e2 hk' with ⟨hlt', hk0'⟩ | ⟨rfl, rfl⟩
    · exact hI.hidInj k k' e1 e2 hk0 hk0' heq
    · have := hI.hidLt k e1 hk0; omega
    · have := hI.hidLt k' e2 hk0'; omega
    · rfl
  · intro k e' hk
    show e'.hid < (σ.h ++ [ws]).length
    rcases hget k e' hk with ⟨hlt, hk0⟩ | ⟨rfl, rfl⟩
    · have := hI.hidLt k e' hk0; simp; omega
    · simp; omega

end Rel

/-! ## what is proved of one run of the oracle, by induction on its fuel -/

section Main
variable (N : Names) (Φ : FnDef → Option FDecl)

def envOf (A : Act) (V : List (List Nat)) (vals : LS) : Env := mkEnv (N.ln A.c.depth) V vals.vals vals.base

def EQ (A : Act) (n : Nat) (CT : CTab) (σ : Sto) (V : List (List Nat)) (r : R Val) (y : Val × Sto) (st' : St) : Prop :=
  ∃ v vals' CT', r = .val v (envOf N A V vals') ∧ VR CT' v y.1 ∧ Next N Φ A n CT σ V CT' vals' st' y.2

/-- a statically non-array expression yields a non-array -/
def NAQ (e : FExpr) (r : R Val) : Prop := nonArrE e = true → ∀ v env, r = .val v env → isArrV v = false

def EQe (e : FExpr) (A : Act) (n : Nat) (CT : CTab) (σ : Sto) (V : List (List Nat)) (r : R Val) (y : Val × Sto) (st' : St) : Prop :=
  EQ N Φ A n CT σ V r y st' ∧ NAQ e r

def AQ (A : Act) (n : Nat) (CT : CTab) (σ : Sto) (V : List (List Nat)) (r : R (List Val)) (y : List Val × Sto) (st' : St) : Prop :=
  ∃ vs vals' CT', r = .val vs (envOf N A V vals') ∧ VRs CT' vs y.1 ∧ Next N Φ A n CT σ V CT' vals' st' y.2

def FR (CT : CTab) : Flow → FFlow → Prop
  | .normal, .normal => True
  | .brk a, .brk b => a = b
  | .cont a, .cont b => a = b
  | .ret v, .ret w => VR CT v w
  | _, _ => False

def NormalOK (ss : List FStmt) (bv : Val) : Prop := lastRet ss = false ∧ (lastExpr ss = false → bv = .null)

def SQ (A : Act) (n : Nat) (CT : CTab) (σ : Sto) (V : List (List Nat)) (ss : List FStmt)
    (r : Flow × Val × Env) (y : Sto × FFlow × Val) (st' : St) : Prop :=
  ∃ V0' vals' CT', r.2.2 = envOf N A (setTop V0' V) vals' ∧ FR CT' r.1 y.2.1 ∧
    Next N Φ A n CT σ (setTop V0' V) CT' vals' st' y.1 ∧
    (y.2.1 = .normal → V0' = defs ss (V.headD []) ∧ VR CT' r.2.1 y.2.2 ∧ NormalOK ss y.2.2)

def BQ (A : Act) (n : Nat) (CT : CTab) (σ : Sto) (V : List (List Nat)) (ss : List FStmt)
    (r : Flow × Val × Env) (y : Sto × FFlow × Val) (st' : St) : Prop :=
  ∃ vals' CT', r.2.2 = envOf N A V vals' ∧ FR CT' r.1 y.2.1 ∧ Next N Φ A n CT σ V CT' vals' st' y.1 ∧
    (y.2.1 = .normal → VR CT' r.2.1 y.2.2 ∧ NormalOK ss y.2.2)

def CQ (n : Nat) (CT : CTab) (σ : Sto) (act : List Nat) (r : Val) (y : Val × Sto) (st' : St) : Prop :=
  ∃ CT', VR CT' r y.1 ∧ CT <+: CT' ∧ σ.h.length ≤ y.2.h.length ∧ UnchAll CT act σ.h y.2.h ∧ st'.active = act ∧
    Inv N Φ CT' n st' y.2 ∧ y.2.l = σ.l

def mkLoopF (l : Nat) (lbl : Option String) : Option FExpr → List FStmt → FStmt
  | none, body => .loopS l lbl body
  | some c, body => .whileS l lbl c body

noncomputable def condOKF (N : Names) (Φ : FnDef → Option FDecl) (c : Ctx) (gh nl : Nat) (vis : List Nat) : Option FExpr → Bool
  | none => true
  | some e => okE N Φ c gh nl vis e

structure AllOK (fuel : Nat) : Prop where
  E : ∀ (A : Act) n CT V vals st σ e, Inv N Φ CT n st σ → Frame N A CT V vals σ → A.gh ≤ n → st.active = A.act →
    okE N Φ A.c A.gh A.nl V.flatten e = true →
    Post (EQe N Φ e A n CT σ V) (fun k => Core.Fn.evalE Φ k A.cx σ e) (run (Ref.evalE fuel (envOf N A V vals) (toAstF N A.c e)) st)
  Arms : ∀ (A : Act) n CT V vals st σ v w arms, Inv N Φ CT n st σ → Frame N A CT V vals σ → A.gh ≤ n → st.active = A.act →
    okArms N Φ A.c A.gh A.nl V.flatten arms = true → SR CT v w →
    Post (EQ N Φ A n CT σ V) (fun k => Core.Fn.evalArms Φ k A.cx σ w arms)
      (run (Ref.evalArms fuel (envOf N A V vals) v (toArmsF N A.c arms)) st)
  Args : ∀ (A : Act) n CT V vals st σ e, Inv N Φ CT n st σ → Frame N A CT V vals σ → A.gh ≤ n → st.active = A.act →
    okArgs N Φ A.c A.gh A.nl V.flatten e = true →
    Post (AQ N Φ A n CT σ V) (fun k => Core.Fn.evalArgs Φ k A.cx σ e) (run (Ref.evalArgs fuel (envOf N A V vals) (toArgsF N A.c e)) st)
  S : ∀ (A : Act) n CT V vals st σ s, Inv N Φ CT n st σ → Frame N A CT V vals σ → A.gh ≤ n → st.active = A.act →
    okS N Φ A.c A.gh A.nl V.flatten s = true →
    Post (SQ N Φ A n CT σ V [s]) (fun k => Core.Fn.evalS Φ k A.cx σ s) (run (Ref.evalStmt fuel (envOf N A V vals) (toStmtF N A.c s)) st)
  P : ∀ (A : Act) n CT V vals st σ ss last, Inv N Φ CT n st σ → Frame N A CT V vals σ → A.gh ≤ n → st.active = A.act →
    okP N Φ A.c A.gh A.nl V.flatten ss = true → (ss = [] → last = .null) →
    Post (SQ N Φ A n CT σ V ss) (fun k => Core.Fn.evalP Φ k A.cx σ ss) (run (Ref.evalStmts fuel (envOf N A V vals) (toStmtsF N A.c ss) last) st)
  B : ∀ (A : Act) n CT V vals st σ ss l, Inv N Φ CT n st σ → Frame N A CT V vals σ → A.gh ≤ n → st.active = A.act →
    okP N Φ A.c A.gh A.nl V.flatten ss = true →
    Post (BQ N Φ A n CT σ V ss) (fun k => Core.Fn.evalP Φ k A.cx σ ss) (run (Ref.evalBlock fuel (envOf N A V vals) (.mk l (toStmtsF N A.c ss))) st)
  L : ∀ (A : Act) n CT V vals st σ l lbl cond body, Inv N Φ CT n st σ → Frame N A CT V vals σ → A.gh ≤ n → st.active = A.act →
    condOKF N Φ A.c A.gh A.nl V.flatten cond = true → okP N Φ A.c A.gh A.nl V.flatten body = true →
    Post (BQ N Φ A n CT σ V [mkLoopF l lbl cond body]) (fun k => Core.Fn.evalS Φ k A.cx σ (mkLoopF l lbl cond body))
      (run (Ref.evalLoop fuel (envOf N A V vals) lbl (cond.map (toAstF N A.c)) (.mk l (toStmtsF N A.c body))) st)
  C : ∀ n CT st σ l vf wf vargs wargs, Inv N Φ CT n st σ → VR CT vf wf → VRs CT vargs wargs →
    Post (CQ N Φ n CT σ st.active) (fun k => callF Φ k wf wargs σ) (run (Ref.callValue fuel l vf vargs) st)

theorem callValue_zero (l : Nat) (vf : Val) (vargs : List Val) : callValue 0 l vf vargs = throw .fuel := by rw [callValue]

theorem all_zero : AllOK N Φ 0 := by
  refine ⟨?_, ?_, ?_, ?_, ?_, ?_, ?_, ?_⟩
  · intros; rw [evalE_zero]; exact True.intro
  · intros; rw [evalArms_zero]; exact True.intro
  · intros; rw [evalArgs_zero]; exact True.intro
  · intros; rw [evalStmt_zero]; exact True.intro
  · intros; rw [evalStmts_zero]; exact True.intro
  · intros; rw [evalBlock_zero]; exact True.intro
  · intros; rw [evalLoop_zero]; exact True.intro
  · intros; rw [callValue_zero]; exact True.intro

variable {N Φ} (hN : NamesOK N)

theorem AllOK.E' {fuel : Nat} (h : AllOK N Φ fuel) (A : Act) (n : Nat) (CT : CTab) (V : List (List Nat)) (vals : LS) (st : St) (σ : Sto)
    (e : FExpr) (hI : Inv N Φ CT n st σ) (hF : Frame N A CT V vals σ) (hgh : A.gh ≤ n) (hL : st.active = A.act)
    (hok : okE N Φ A.c A.gh A.nl V.flatten e = true) :
    Post (EQ N Φ A n CT σ V) (fun k => Core.Fn.evalE Φ k A.cx σ e) (run (Ref.evalE fuel (envOf N A V vals) (toAstF N A.c e)) st) :=
  Post.mono (fun _ _ _ h => h.1) (h.E A n CT V vals st σ e hI hF hgh hL hok)

theorem NAQ.scalar {e : FExpr} {v : Val} {env : Env} (hs : isScalar v = true) : NAQ e (.val v env) :=
  fun _ v' env' h => by cases h; exact notArr_of_scalar hs

include hN in
theorem lookup_global {A : Act} {CT : CTab} {V : List (List Nat)} {vals : LS} {σ : Sto} (hF : Frame N A CT V vals σ)
    {j : Nat} (hj : j < A.gh) : lookupEnv (N.gn j) (envOf N A V vals) = some (.g j) := by
  unfold envOf
  rw [lookupEnv_mkEnv_other (fun i => (hN.gn_ln j _ i).symm)]
  exact hF.globals j hj

include hN in
theorem lookup_local {A : Act} {V : List (List Nat)} {vals : LS} {i : Nat} (hi : i ∈ V.flatten) :
    lookupEnv (N.ln A.c.depth i) (envOf N A V vals) = some (.l (vals.vals i)) :=
  lookupEnv_mkEnv_mem (fun a b h => (hN.ln_inj _ _ a b h).2) hi

include hN in
theorem upd_local {A : Act} {V : List (List Nat)} {vals : LS} {i : Nat} {v : Val} (hi : i ∈ V.flatten) (hnd : V.flatten.Nodup) :
    updEnv (N.ln A.c.depth i) v (envOf N A V vals) = some (envOf N A V (vals.upd i v)) :=
  updEnv_mkEnv (fun a b h => (hN.ln_inj _ _ a b h).2) hi hnd

theorem mono_callF (wf : Val) (ws : List Val) (σ : Sto) : FMono (fun k => callF Φ k wf ws σ) := by
  intro k k' r hle h
  unfold callF at h ⊢
  cases wf with
  | clos fd free id =>
    simp only at h ⊢
    cases hΦ : Φ fd with
    | none => simp [hΦ] at h
    | some d =>
      simp only [hΦ] at h ⊢
      by_cases hlen : ws.length = d.np
      · rw [if_pos hlen] at h ⊢
        simp only [Sto.enter_eq, Sto.back_eq] at h ⊢
        cases hb : Core.Fn.evalP Φ k (some (fd, id)) ⟨ws ++ List.replicate (d.nl - d.np) Val.null, σ.g, σ.h, σ.a⟩ d.body with
        | none => simp [hb] at h
        | some rb => rw [(mono_all Φ k).P _ _ _ rb k' hle hb]; simp only [hb] at h; exact h
      · simp [hlen] at h
  | builtin name => exact h
  | _ => simp at h

include hN in
/-- a captured variable: its current value in the creating activation, on both sides -/
theorem cap_ok {A : Act} {CT : CTab} {V : List (List Nat)} {vals : LS} {σ : Sto} (hF : Frame N A CT V vals σ)
    (cap : Cap) (hc : okCap A.c V.flatten cap = true) :
    ∃ v w, Core.Fn.capVal A.cx σ cap = some w ∧ (lookupEnv (capName N A.c cap) (envOf N A V vals)).map capB = some (.cap v) ∧
      (v = .other "poison" ∨ VR CT v w) ∧ (∀ d' i, A.c.depth + 1 ≤ d' → N.ln d' i ≠ capName N A.c cap) ∧ capName N A.c cap ≠ "" ∧
      capName N A.c cap ≠ selfKey ∧ (∀ i, i < A.gh → N.gn i ≠ capName N A.c cap) := by
  cases cap with
  | loc i =>
    simp only [okCap, List.contains_iff_mem] at hc
    obtain ⟨w, hw, hvr⟩ := hF.locals i hc
    refine ⟨vals.vals i, w, hw, by rw [capName, lookup_local hN hc]; rfl, .inr hvr, ?_, hN.ln_ne _ _, hN.ln_key _ _, fun i' _ => hN.gn_ln i' _ _⟩
    intro d' i' hd h
    have := (hN.ln_inj _ _ _ _ h).1
    omega
  | free j =>
    simp only [okCap, decide_eq_true_eq] at hc
    have hj : A.c.frees[j]? = some (A.c.frees.getD j "") := by
      rw [List.getD_eq_getElem?_getD, List.getElem?_eq_getElem hc]; rfl
    obtain ⟨h0, h1, h2, -, h4, v, w, fd, id, hcx, hlk, hfg, hvr⟩ := hF.frees j _ hj
    refine ⟨v, w, by simp [Core.Fn.capVal, hcx, hfg], ?_, hvr, fun d' i hd => h0 d' i (by omega), h1, h2, h4⟩
    show (lookupEnv (A.c.frees.getD j "") (envOf N A V vals)).map capB = _
    unfold envOf
    rw [lookupEnv_mkEnv_other (fun i => h0 _ i (Nat.le_refl _)), hlk]; rfl
  | self =>
    simp only [okCap, bne_iff_ne, ne_eq] at hc
    obtain ⟨h0, h1, h1', vf, fd, id, hlk, hcx, hvr⟩ := hF.self hc
    refine ⟨vf, .clos fd [] id, by simp [Core.Fn.capVal, hcx], ?_, .inr hvr, fun d' i _ => h0 d' i, hc, h1, h1'⟩
    show (lookupEnv A.c.self (envOf N A V vals)).map capB = _
    unfold envOf
    rw [lookupEnv_mkEnv_other (fun i => h0 _ i), hlk]; rfl

include hN in
theorem caps_ok {A : Act} {CT : CTab} {V : List (List Nat)} {vals : LS} {σ : Sto} (hF : Frame N A CT V vals σ) :
    ∀ caps : List Cap, caps.all (okCap A.c V.flatten) = true →
    ∃ ws : List Val, Core.Fn.capVals A.cx σ caps = some ws ∧ ∀ (j : Nat) cap, caps[j]? = some cap → ∃ v w,
      (lookupEnv (capName N A.c cap) (envOf N A V vals)).map capB = some (.cap v) ∧ ws[j]? = some w ∧ (v = .other "poison" ∨ VR CT v w) ∧
      (∀ d' i, A.c.depth + 1 ≤ d' → N.ln d' i ≠ capName N A.c cap) ∧ capName N A.c cap ≠ "" ∧ capName N A.c cap ≠ selfKey ∧
      (∀ i, i < A.gh → N.gn i ≠ capName N A.c cap)
  | [], _ => ⟨[], rfl, fun j cap h => by simp at h⟩
  | cap :: rest, h => by
    simp only [List.all_cons, Bool.and_eq_true] at h
    obtain ⟨v, w, h1, h2, h3, h4⟩ := cap_ok hN hF cap h.1
    obtain ⟨ws, hws, hrest⟩ := caps_ok hF rest h.2
    refine ⟨w :: ws, by simp [Core.Fn.capVals, h1, hws], ?_⟩
    intro j cap' hj
    cases j with
    | zero =>
      simp only [List.getElem?_cons_zero, Option.some.injEq] at hj
      subst hj
      exact ⟨v, w, h2, rfl, h3, h4⟩
    | succ j =>
      obtain ⟨v', w', a1, a2, a3⟩ := hrest j cap' (by simpa using hj)
      exact ⟨v', w', a1, by simpa using a2, a3⟩

/-- the shape shared by `a op b`, `a < b`, `a <= b` (`x` is evaluated first) -/
theorem binop_ok {f : Nat} (hE : AllOK N Φ f) (A : Act) (n : Nat) (CT : CTab) (V : List (List Nat)) (vals : LS) (st : St) (σ : Sto)
    (x y : FExpr) (op : Operator) (line : Nat) (hI : Inv N Φ CT n st σ) (hF : Frame N A CT V vals σ) (hgh : A.gh ≤ n) (hL : st.active = A.act)
    (hx : okE N Φ A.c A.gh A.nl V.flatten x = true) (hy : okE N Φ A.c A.gh A.nl V.flatten y = true)
    (hdeep : isDeep op = true → nonArrE x = true ∨ nonArrE y = true) :
    Post (fun r y s => EQ N Φ A n CT σ V r y s ∧ (op ≠ .add → ∀ v env, r = .val v env → isArrV v = false)) (fun k => (Core.Fn.evalE Φ k A.cx σ x).bind fun p => (Core.Fn.evalE Φ k A.cx p.2 y).bind (opK op p.1))
      (run (bindR (Ref.evalE f (envOf N A V vals) (toAstF N A.c x)) fun vx env =>
        bindR (Ref.evalE f env (toAstF N A.c y)) fun vy env =>
          applyBinary line (specOp op) vx vy >>= fun r => pure (.val r env)) st) := by
  unfold bindR
  refine Post.bind (mono_E _ _ _ _) (fun p => FMono.bind (mono_E _ _ _ _) (fun _ => FMono.const _)) (hE.E A n CT V vals st σ x hI hF hgh hL hx) ?_
  rintro r ⟨wx, σ1⟩ s1 ⟨⟨vx, vals1, CT1, rfl, hvx, hn1⟩, hna1⟩
  dsimp only
  refine Post.bind (mono_E _ _ _ _) (fun _ => FMono.const _) (hE.E A n CT1 V vals1 s1 σ1 y hn1.inv hn1.frame hgh hn1.act hy) ?_
  rintro r ⟨wy, σ2⟩ s2 ⟨⟨vy, vals2, CT2, rfl, hvy, hn2⟩, hna2⟩
  dsimp only
  have hd : isDeep op = true → isArrV vx = false ∨ isArrV vy = false := fun h =>
    (hdeep h).elim (fun h1 => .inl (hna1 h1 _ _ rfl)) (fun h2 => .inr (hna2 h2 _ _ rfl))
  have hb := binary_bridge (s := s2) (a := σ2.a) hn2.inv.heap line op (hvx.mono hn2.ext) hvy hd
  rw [run_bind]
  generalize run (applyBinary line (specOp op) vx vy) s2 = o at hb ⊢
  rcases o with ⟨er | r, s3⟩
  · cases er
    · intro k; simp [opK, show Core.Fn.opH σ2.a op wx wy = .fail from hb]
    all_goals exact True.intro
  · rcases hb with ⟨rfl, hs, hop⟩ | ⟨hadd, X, Y, hXY, rfl, rfl, hop⟩
    · exact Post.ok 0 (r, σ2) (by simp [opK, hop]) ⟨⟨r, vals2, CT2, rfl, VR.scalar hs, hn1.trans hn2⟩, fun _ v env h => by cases h; exact notArr_of_scalar hs⟩
    · have hH := hn2.inv.heap
      have hfr2 : Frame N A CT2 V vals2 σ2 := hn2.frame
      have hiv2 : Inv N Φ CT2 n s2 σ2 := hn2.inv
      have hvr : VR CT2 (.arr s2.heap.next []) (.arr σ2.a.next []) := by rw [← hH.next]; exact VR.arr hH.pos
      exact Post.ok 0 (.arr σ2.a.next [], σ2.setA (σ2.a.alloc (.arr Y)).1) (by simp [opK, hop])
        ⟨⟨_, vals2, CT2, rfl, hvr, hn1.trans (hn2.same rfl hn2.act (hiv2.setA (hH.alloc hXY))
          (Frame.mono (σ := σ2) (σ' := σ2.setA (σ2.a.alloc (.arr Y)).1) (List.prefix_refl _) rfl (fun _ _ _ => rfl) hfr2))⟩,
         fun hne => absurd hadd hne⟩

/-- callee, arguments, the call -/
theorem callCore_ok {f : Nat} (hE : AllOK N Φ f) (A : Act) (n : Nat) (CT : CTab) (V : List (List Nat)) (vals : LS) (st : St) (σ : Sto)
    (fn : FExpr) (args : FArgs) (l : Nat) (K : Env → Val → M (R Val))
    (hK : ∀ env r, poisonK env r = pure (.val r env) → K env r = pure (.val r env))
    (hI : Inv N Φ CT n st σ) (hF : Frame N A CT V vals σ) (hgh : A.gh ≤ n) (hL : st.active = A.act)
    (hfn : okE N Φ A.c A.gh A.nl V.flatten fn = true) (hargs : okArgs N Φ A.c A.gh A.nl V.flatten args = true) :
    Post (EQ N Φ A n CT σ V)
      (fun k => (Core.Fn.evalE Φ k A.cx σ fn).bind fun p => (Core.Fn.evalArgs Φ k A.cx p.2 args).bind fun q => callF Φ k p.1 q.1 q.2)
      (run (callCore f (envOf N A V vals) l (toAstF N A.c fn) (toArgsF N A.c args) K) st) := by
  unfold callCore bindR
  refine Post.bind (mono_E _ _ _ _) (fun p => FMono.bind (mono_Args _ _ _ _) (fun q => mono_callF _ _ _))
    (hE.E' A n CT V vals st σ fn hI hF hgh hL hfn) ?_
  rintro r ⟨wf, σ1⟩ s1 ⟨vf, vals1, CT1, rfl, hvf, hn1⟩
  dsimp only
  refine Post.bind (mono_Args _ _ _ _) (fun q => mono_callF _ _ _) (hE.Args A n CT1 V vals1 s1 σ1 args hn1.inv hn1.frame hgh hn1.act hargs) ?_
  rintro r ⟨ws, σ2⟩ s2 ⟨vs, vals2, CT2, rfl, hvs, hn2⟩
  dsimp only
  refine Res.bind (hE.C n CT2 s2 σ2 l vf wf vs ws hn2.inv (hvf.mono hn2.ext) hvs) id ?_
  rintro r s3 ⟨k, ⟨w, σ3⟩, hk, CT3, hvr, hext3, hlen3, hun3, hact3, hinv3, hl3⟩
  rw [hK _ _ (poisonK_ok _ hvr)]
  have hown : ∀ fd hid, A.cx = some (fd, hid) → σ3.h[hid]? = σ2.h[hid]? := by
    intro fd hid hcx
    obtain ⟨k0, hk0, hk0a, -⟩ := hn2.frame.me fd hid hcx
    exact hun3 k0 _ hk0 (by rw [hn2.act]; exact hk0a)
  exact Post.ok k (w, σ3) hk ⟨r, vals2, CT3, rfl, hvr,
    hn1.trans (hn2.trans ⟨hext3, hlen3, hinv3, hn2.frame.mono hext3 hl3 hown, hact3.trans hn2.act,
      fun k e hk hl _ => hun3 k e hk (by rw [hn2.act]; exact hl)⟩)⟩

theorem evalP_single (k : Nat) (cx : Option (FnDef × Nat)) (σ : Sto) (l : Nat) (t : FExpr) :
    Core.Fn.evalP Φ (k+2) cx σ [.expr l t] = (Core.Fn.evalE Φ k cx σ t).bind fun p => some (p.2, .normal, p.1) := by
  rw [fP_cons, fS_expr]
  cases Core.Fn.evalE Φ k cx σ t with
  | none => rfl
  | some p => rfl

theorem setTop_headD (V : List (List Nat)) : setTop (V.headD []) V = V := by cases V <;> rfl

/-- a branch `{ t }` of an `if` expression -/
theorem branch_expr_ok {f0 : Nat} (hB : ∀ f', f' ≤ f0 → AllOK N Φ f') (A : Act) (n : Nat) (CT : CTab) (V : List (List Nat)) (vals : LS) (st : St) (σ : Sto)
    (t : FExpr) (l : Nat) (hI : Inv N Φ CT n st σ) (hF : Frame N A CT V vals σ) (hgh : A.gh ≤ n) (hL : st.active = A.act)
    (ht : okE N Φ A.c A.gh A.nl V.flatten t = true) :
    Post (EQ N Φ A n CT σ V) (fun k => Core.Fn.evalE Φ k A.cx σ t)
      (run (evalBranch f0 (envOf N A V vals) (exprBlock l (toAstF N A.c t))) st) := by
  cases f0 with
  | zero => rw [evalBranch_zero]; exact True.intro
  | succ f1 =>
    rw [evalBranch_succ]
    have hblk : exprBlock l (toAstF N A.c t) = .mk l (toStmtsF N A.c [.expr l t]) := by
      simp [exprBlock, toStmtsF, toStmtF]
    rw [hblk]
    have hb := (hB f1 (Nat.le_succ f1)).B A n CT V vals st σ [.expr l t] l hI hF hgh hL (by simp [okP, okS, ht])
    refine Res.bind hb ?_ ?_
    · intro h k
      have : Core.Fn.evalP Φ (k + 2) A.cx σ [.expr l t] = none := h (k + 2)
      rw [evalP_single] at this
      show Core.Fn.evalE Φ k A.cx σ t = none
      cases hx : Core.Fn.evalE Φ k A.cx σ t with
      | none => rfl
      | some p => simp [hx] at this
    · rintro ⟨fl, v, env'⟩ s1 ⟨k, ⟨σ1, fl', bv⟩, hk, vals1, CT1, henv, hfr, hn1, hnorm⟩
      have hk2 : ∃ k0, k = k0 + 2 := by
        match k, hk with
        | 0, hk => simp [Core.Fn.evalP] at hk
        | 1, hk => simp [Core.Fn.evalP, Core.Fn.evalS] at hk
        | k0+2, _ => exact ⟨k0, rfl⟩
      obtain ⟨k0, rfl⟩ := hk2
      have hk : Core.Fn.evalP Φ (k0 + 2) A.cx σ [.expr l t] = some (σ1, fl', bv) := hk
      rw [evalP_single] at hk
      cases hx : Core.Fn.evalE Φ k0 A.cx σ t with
      | none => simp [hx] at hk
      | some p =>
        obtain ⟨w, σ'⟩ := p
        simp only [hx, Option.bind_some, Option.some.injEq, Prod.mk.injEq] at hk
        obtain ⟨h1, h2, h3⟩ := hk
        subst h1 h2 h3
        have henv' : env' = envOf N A V vals1 := henv
        subst henv'
        cases fl <;> first | exact hfr.elim | skip
        exact Post.ok k0 (w, σ') hx ⟨v, vals1, CT1, rfl, (hnorm rfl).1, hn1⟩

include hN in
theorem expr_succ (f : Nat) (ih : ∀ f', f' ≤ f → AllOK N Φ f') :
    ∀ (A : Act) n CT V vals st σ e, Inv N Φ CT n st σ → Frame N A CT V vals σ → A.gh ≤ n → st.active = A.act →
    okE N Φ A.c A.gh A.nl V.flatten e = true →
    Post (EQe N Φ e A n CT σ V) (fun k => Core.Fn.evalE Φ k A.cx σ e) (run (Ref.evalE (f+1) (envOf N A V vals) (toAstF N A.c e)) st) := by
  intro A n CT V vals st σ e hI hF hgh hL hok
  have hf := ih f (Nat.le_refl f)
  cases e with
  | lit l v =>
    rw [toAstF, evalE_lit]
    cases hc : isLit v with
    | true =>
      exact Post.ok 1 (v, σ) (by simp [Core.Fn.evalE]) ⟨⟨v, vals, CT, rfl, VR.scalar (isLit_scalar hc), Next.refl hI hF hL⟩, NAQ.scalar (isLit_scalar hc)⟩
    | false => exact True.intro
  | tru l =>
    rw [toAstF, evalE_bool]
    exact Post.ok 1 (.bool true, σ) (by simp [Core.Fn.evalE]) ⟨⟨_, vals, CT, rfl, VR.scalar rfl, Next.refl hI hF hL⟩, NAQ.scalar rfl⟩
  | fls l =>
    rw [toAstF, evalE_bool]
    exact Post.ok 1 (.bool false, σ) (by simp [Core.Fn.evalE]) ⟨⟨_, vals, CT, rfl, VR.scalar rfl, Next.refl hI hF hL⟩, NAQ.scalar rfl⟩
  | null l =>
    rw [toAstF, evalE_null]
    exact Post.ok 1 (.null, σ) (by simp [Core.Fn.evalE]) ⟨⟨_, vals, CT, rfl, VR.scalar rfl, Next.refl hI hF hL⟩, NAQ.scalar rfl⟩
  | un l op a =>
    simp only [okE] at hok
    rw [toAstF, evalE_un]
    refine Post.shift (fE_zero _ _ _ _) (fun k => fE_un Φ k A.cx σ l op a) ?_
    unfold bindR
    refine Post.bind (mono_E _ _ _ _) (fun _ => FMono.const _) (hf.E' A n CT V vals st σ a hI hF hgh hL hok) ?_
    rintro r ⟨w, σ1⟩ s1 ⟨v, vals1, CT1, rfl, hvr, hn1⟩
    dsimp only
    refine Post.reify _ _ _ (fun _ => ?_)
    have hb := unary_bridge hn1.inv.heap op hvr
    generalize Spec.unary (specUn op) (reify s1.heap reifyDepth v) = ex at hb ⊢
    cases ex with
    | value r =>
      exact Post.ok 0 (r, σ1) (by simp [unK, hb.1]) ⟨⟨r, vals1, CT1, rfl, VR.scalar hb.2, hn1⟩, NAQ.scalar hb.2⟩
    | error =>
      obtain ⟨msg, hm⟩ := hb
      intro k; simp [unK, hm]
    | any => exact True.intro
  | bin l op a b =>
    simp only [okE, Bool.and_eq_true] at hok
    rw [toAstF, evalE_bin]
    exact Post.shift (fE_zero _ _ _ _) (fun k => fE_bin Φ k A.cx σ l op a b)
      (Post.mono (fun r y s h => ⟨h.1, fun hna => h.2 (by rintro rfl; simp [nonArrE] at hna)⟩)
        (binop_ok hf A n CT V vals st σ a b op l hI hF hgh hL hok.1.1 hok.1.2 (deepOK_spec hok.2)))
  | lt l a b =>
    simp only [okE, Bool.and_eq_true] at hok
    rw [toAstF, evalE_lt]
    exact Post.shift (fE_zero _ _ _ _) (fun k => fE_lt Φ k A.cx σ l a b)
      (Post.mono (fun r y s h => ⟨h.1, fun _ => h.2 (by decide)⟩) (binop_ok hf A n CT V vals st σ b a .greater l hI hF hgh hL hok.2 hok.1 (fun h => by simp [isDeep] at h)))
  | le l a b =>
    simp only [okE, Bool.and_eq_true] at hok
    rw [toAstF, evalE_le]
    exact Post.shift (fE_zero _ _ _ _) (fun k => fE_le Φ k A.cx σ l a b)
      (Post.mono (fun r y s h => ⟨h.1, fun _ => h.2 (by decide)⟩) (binop_ok hf A n CT V vals st σ b a .greaterEq l hI hF hgh hL hok.2 hok.1 (fun h => by simp [isDeep] at h)))
  | and l a b =>
    refine Post.mono (fun r y s h => ⟨h, fun hna => by simp [nonArrE] at hna⟩) ?_
    simp only [okE, Bool.and_eq_true] at hok
    rw [toAstF, evalE_and]
    refine Post.shift (fE_zero _ _ _ _) (fun k => fE_and Φ k A.cx σ l a b) ?_
    unfold bindR
    refine Post.bind (mono_E _ _ _ _) (fun p => FMono.ite (FMono.const _) (mono_E _ _ _ _)) (hf.E' A n CT V vals st σ a hI hF hgh hL hok.1) ?_
    rintro r ⟨wa, σ1⟩ s1 ⟨va, vals1, CT1, rfl, hva, hn1⟩
    dsimp only
    refine Post.truthy hn1.inv.heap hva _ ?_
    cases hfal : Core.Fn.falseyH σ1.a wa with
    | true =>
      simp only [Bool.not_true, Bool.false_eq_true, if_false]
      exact Post.ok 0 (wa, σ1) (by simp [hfal]) ⟨va, vals1, CT1, rfl, hva, hn1⟩
    | false =>
      simp only [Bool.not_false, if_true]
      refine Post.congr (ev' := fun k => Core.Fn.evalE Φ k A.cx σ1 b) (fun k => by simp [hfal]) ?_
      refine Post.mono ?_ (hf.E' A n CT1 V vals1 s1 σ1 b hn1.inv hn1.frame hgh hn1.act hok.2)
      rintro r y s ⟨v, vals2, CT2, rfl, hv, hn2⟩
      exact ⟨v, vals2, CT2, rfl, hv, hn1.trans hn2⟩
  | or l a b =>
    refine Post.mono (fun r y s h => ⟨h, fun hna => by simp [nonArrE] at hna⟩) ?_
    simp only [okE, Bool.and_eq_true] at hok
    rw [toAstF, evalE_or]
    refine Post.shift (fE_zero _ _ _ _) (fun k => fE_or Φ k A.cx σ l a b) ?_
    unfold bindR
    refine Post.bind (mono_E _ _ _ _) (fun p => FMono.ite (mono_E _ _ _ _) (FMono.const _)) (hf.E' A n CT V vals st σ a hI hF hgh hL hok.1) ?_
    rintro r ⟨wa, σ1⟩ s1 ⟨va, vals1, CT1, rfl, hva, hn1⟩
    dsimp only
    refine Post.truthy hn1.inv.heap hva _ ?_
    cases hfal : Core.Fn.falseyH σ1.a wa with
    | false =>
      simp only [Bool.not_false, if_true]
      exact Post.ok 0 (wa, σ1) (by simp [hfal]) ⟨va, vals1, CT1, rfl, hva, hn1⟩
    | true =>
      simp only [Bool.not_true, Bool.false_eq_true, if_false]
      refine Post.congr (ev' := fun k => Core.Fn.evalE Φ k A.cx σ1 b) (fun k => by simp [hfal]) ?_
      refine Post.mono ?_ (hf.E' A n CT1 V vals1 s1 σ1 b hn1.inv hn1.frame hgh hn1.act hok.2)
      rintro r y s ⟨v, vals2, CT2, rfl, hv, hn2⟩
      exact ⟨v, vals2, CT2, rfl, hv, hn1.trans hn2⟩
  | ite l c t e =>
    refine Post.mono (fun r y s h => ⟨h, fun hna => by simp [nonArrE] at hna⟩) ?_
    simp only [okE, Bool.and_eq_true] at hok
    rw [toAstF, evalE_ite]
    refine Post.shift (fE_zero _ _ _ _) (fun k => fE_ite Φ k A.cx σ l c t e) ?_
    unfold bindR
    refine Post.bind (mono_E _ _ _ _) (fun p => FMono.ite (mono_E _ _ _ _) (mono_E _ _ _ _)) (hf.E' A n CT V vals st σ c hI hF hgh hL hok.1.1) ?_
    rintro r ⟨wc, σ1⟩ s1 ⟨vc, vals1, CT1, rfl, hvc, hn1⟩
    dsimp only
    refine Post.truthy hn1.inv.heap hvc _ ?_
    cases hfal : Core.Fn.falseyH σ1.a wc with
    | true =>
      simp only [Bool.not_true, Bool.false_eq_true, if_false]
      refine Post.congr (ev' := fun k => Core.Fn.evalE Φ k A.cx σ1 e) (fun k => by simp [hfal]) ?_
      refine Post.mono ?_ (branch_expr_ok ih A n CT1 V vals1 s1 σ1 e l hn1.inv hn1.frame hgh hn1.act hok.2)
      rintro r y s ⟨v, vals2, CT2, rfl, hv, hn2⟩
      exact ⟨v, vals2, CT2, rfl, hv, hn1.trans hn2⟩
    | false =>
      simp only [Bool.not_false, if_true]
      refine Post.congr (ev' := fun k => Core.Fn.evalE Φ k A.cx σ1 t) (fun k => by simp [hfal]) ?_
      refine Post.mono ?_ (branch_expr_ok ih A n CT1 V vals1 s1 σ1 t l hn1.inv hn1.frame hgh hn1.act hok.1.2)
      rintro r y s ⟨v, vals2, CT2, rfl, hv, hn2⟩
      exact ⟨v, vals2, CT2, rfl, hv, hn1.trans hn2⟩
  | gget l i =>
    refine Post.mono (fun r y s h => ⟨h, fun hna => by simp [nonArrE] at hna⟩) ?_
    simp only [okE, decide_eq_true_eq] at hok
    rw [toAstF, evalE_gget' _ _ _ _ _ i (lookup_global hN hF hok), run_getCell_bind]
    obtain ⟨v, w, hc, hg, hvr⟩ := hI.cells i (Nat.lt_of_lt_of_le hok hgh)
    have hget : st.cells.getD i .null = v := by simp [List.getD_eq_getElem?_getD, hc]
    rw [hget, poisonK_ok _ hvr]
    exact Post.ok 1 (w, σ) (by simp [Core.Fn.evalE, List.getD_eq_getElem?_getD, hg]) ⟨v, vals, CT, rfl, hvr, Next.refl hI hF hL⟩
  | gset l i e =>
    refine Post.mono (fun r y s h => ⟨h, fun hna => by simp [nonArrE] at hna⟩) ?_
    simp only [okE, Bool.and_eq_true, decide_eq_true_eq] at hok
    rw [toAstF, evalE_gset]
    refine Post.shift (fE_zero _ _ _ _) (fun k => fE_gset Φ k A.cx σ l i e) ?_
    unfold bindR
    refine Post.bind (mono_E _ _ _ _) (fun _ => FMono.const _) (hf.E' A n CT V vals st σ e hI hF hgh hL hok.2) ?_
    rintro r ⟨w, σ1⟩ s1 ⟨v, vals1, CT1, rfl, hv, hn1⟩
    dsimp only
    rw [assignIdent_g (lookup_global hN hn1.frame hok.1), run_setCell_bind]
    have hin : i < n := Nat.lt_of_lt_of_le hok.1 hgh
    have hlt : i < σ1.g.length := Nat.lt_of_lt_of_le hin hn1.inv.gLen
    have hfr1 : Frame N A CT1 V vals1 σ1 := hn1.frame
    have hiv1 : Inv N Φ CT1 n s1 σ1 := hn1.inv
    exact Post.ok 0 (w, σ1.gset i w) (by simp [hlt]) ⟨v, vals1, CT1, rfl, hv,
      hn1.same rfl hn1.act (hiv1.gset hin hv) (Frame.mono (σ := σ1) (σ' := σ1.gset i w) (List.prefix_refl _) rfl (fun _ _ _ => rfl) hfr1)⟩
  | lget l i =>
    refine Post.mono (fun r y s h => ⟨h, fun hna => by simp [nonArrE] at hna⟩) ?_
    simp only [okE, Bool.and_eq_true, decide_eq_true_eq, List.contains_iff_mem] at hok
    rw [toAstF, evalE_ident_l _ _ _ _ _ _ (lookup_local hN hok.2)]
    obtain ⟨w, hw, hvr⟩ := hF.locals i hok.2
    exact Post.ok 1 (w, σ) (by simp [Core.Fn.evalE, hw]) ⟨vals.vals i, vals, CT, rfl, hvr, Next.refl hI hF hL⟩
  | lset l i e =>
    refine Post.mono (fun r y s h => ⟨h, fun hna => by simp [nonArrE] at hna⟩) ?_
    simp only [okE, Bool.and_eq_true, decide_eq_true_eq, List.contains_iff_mem] at hok
    rw [toAstF, evalE_gset]
    refine Post.shift (fE_zero _ _ _ _) (fun k => fE_lset Φ k A.cx σ l i e) ?_
    unfold bindR
    refine Post.bind (mono_E _ _ _ _) (fun _ => FMono.const _) (hf.E' A n CT V vals st σ e hI hF hgh hL hok.2) ?_
    rintro r ⟨w, σ1⟩ s1 ⟨v, vals1, CT1, rfl, hv, hn1⟩
    dsimp only
    rw [assignIdent_l (lookup_local hN hok.1.2) (upd_local hN hok.1.2 hn1.frame.nodup)]
    obtain ⟨w0, hw0, -⟩ := hn1.frame.locals i hok.1.2
    have hlt : i < σ1.l.length := by
      rcases Nat.lt_or_ge i σ1.l.length with h3 | h3
      · exact h3
      · rw [List.getElem?_eq_none h3] at hw0; cases hw0
    have hfr1 : Frame N A CT1 V vals1 σ1 := hn1.frame
    have hiv1 : Inv N Φ CT1 n s1 σ1 := hn1.inv
    exact Post.ok 0 (w, σ1.lset i w) (by simp [hlt]) ⟨v, vals1.upd i v, CT1, rfl, hv,
      hn1.same rfl hn1.act (Inv.of_gh (σ := σ1) (σ' := σ1.lset i w) rfl rfl rfl hiv1) (hfr1.lset hv)⟩
  | curr l =>
    refine Post.mono (fun r y s h => ⟨h, fun hna => by simp [nonArrE] at hna⟩) ?_
    simp only [okE, bne_iff_ne, ne_eq] at hok
    obtain ⟨hne, -, -, vf, fd, id, hlk, hcx, hvr⟩ := hF.self hok
    have hlk' : lookupEnv A.c.self (envOf N A V vals) = some (.cap vf) := by
      unfold envOf; rw [lookupEnv_mkEnv_other (fun i => hne _ i)]; exact hlk
    rw [toAstF, evalE_ident_cap _ _ _ _ _ _ hlk', poisonK_ok _ hvr]
    exact Post.ok 1 (.clos fd [] id, σ) (by simp [Core.Fn.evalE, hcx]) ⟨vf, vals, CT, rfl, hvr, Next.refl hI hF hL⟩
  | call l fn args =>
    refine Post.mono (fun r y s h => ⟨h, fun hna => by simp [nonArrE] at hna⟩) ?_
    simp only [okE, Bool.and_eq_true] at hok
    rw [toAstF, evalE_call]
    refine Post.shift (fE_zero _ _ _ _) (fun k => fE_call Φ k A.cx σ l fn args) ?_
    exact callCore_ok hf A n CT V vals st σ fn args l poisonK (fun env r hr => hr) hI hF hgh hL hok.1 hok.2
  | matchE l sc arms =>
    refine Post.mono (fun r y s h => ⟨h, fun hna => by simp [nonArrE] at hna⟩) ?_
    simp only [okE, Bool.and_eq_true] at hok
    rw [toAstF, evalE_match]
    refine Post.shift (fE_zero _ _ _ _) (fun k => fE_match Φ k A.cx σ l sc arms) ?_
    unfold bindR
    refine Post.bind (mono_E _ _ _ _) (fun p => mono_Arms _ _ _ _ _) (hf.E' A n CT V vals st σ sc hI hF hgh hL hok.1) ?_
    rintro r ⟨w, σ1⟩ s1 ⟨v, vals1, CT1, rfl, hv, hn1⟩
    dsimp only
    refine Post.reify _ _ _ (fun _ => ?_)
    refine Post.mono ?_ (hf.Arms A n CT1 V vals1 s1 σ1 _ w arms hn1.inv hn1.frame hgh hn1.act hok.2 (SR.ofReify hv _))
    rintro r y s ⟨v2, vals2, CT2, rfl, hv2, hn2⟩
    exact ⟨v2, vals2, CT2, rfl, hv2, hn1.trans hn2⟩
  | fget l j =>
    refine Post.mono (fun r y s h => ⟨h, fun hna => by simp [nonArrE] at hna⟩) ?_
    simp only [okE, decide_eq_true_eq] at hok
    have hj : A.c.frees[j]? = some (A.c.frees.getD j "") := by
      rw [List.getD_eq_getElem?_getD, List.getElem?_eq_getElem hok]; rfl
    obtain ⟨h0, -, -, -, -, v, w, fd, id, hcx, hlk, hfg, hpv⟩ := hF.frees j _ hj
    have hlk' : lookupEnv (A.c.frees.getD j "") (envOf N A V vals) = some (.cap v) := by
      unfold envOf; rw [lookupEnv_mkEnv_other (fun i => h0 _ i (Nat.le_refl _))]; exact hlk
    rw [toAstF, evalE_ident_cap _ _ _ _ _ _ hlk']
    rcases hpv with rfl | hvr
    · exact True.intro
    rw [poisonK_ok _ hvr]
    exact Post.ok 1 (w, σ) (by simp [Core.Fn.evalE, hcx, hfg]) ⟨v, vals, CT, rfl, hvr, Next.refl hI hF hL⟩
  | mkclos l code lines np nl' body caps =>
    simp only [okE, Bool.and_eq_true, decide_eq_true_eq] at hok
    obtain ⟨⟨⟨⟨⟨hcaps, hnp⟩, hΦ⟩, hbody⟩, hlast⟩, hnd⟩ := hok
    rw [toAstF, evalE_fn, run_mkClos_bind]
    obtain ⟨ws, hws, hinfo⟩ := caps_ok hN hF caps hcaps
    let e0 : CE := ⟨mkFd code lines ⟨np, nl', body, l⟩, σ.h.length, ⟨A.c.depth + 1, "", caps.map (capName N A.c)⟩, A.gh⟩
    have hp : CT <+: CT ++ [e0] := List.prefix_append _ _
    have hentry : ClosEntry N Φ (CT ++ [e0]) (σ.h ++ [ws]) n
        { name := "", params := params N (A.c.depth + 1) np,
          body := .mk l (toStmtsF N ⟨A.c.depth + 1, "", caps.map (capName N A.c)⟩ body),
          captured := captureEnv (envOf N A V vals), line := l } e0 := by
      refine ⟨⟨np, nl', body, l⟩, hΦ, rfl, rfl, rfl, Nat.succ_pos _, hnp, hgh,
        hbody, hlast, ?_, ?_, fun d' i => hN.ln_ne d' i, (show "" ≠ selfKey by decide), hnd⟩
      · intro j hj
        exact ⟨hN.gn_ne j, by rw [lookupScope_captureEnv, lookup_global hN hF hj]; rfl⟩
      · intro j name hj
        simp only [e0, List.getElem?_map, Option.map_eq_some_iff] at hj
        obtain ⟨cap, hcap, rfl⟩ := hj
        obtain ⟨v, w, a1, a2, a3, a4, a5, a6, a7⟩ := hinfo j cap hcap
        exact ⟨a4, a5, a6, a5, a7, v, w, by rw [lookupScope_captureEnv]; exact a1, by rw [freeGet_new]; exact a2, a3.imp id (fun x => x.mono hp)⟩
    have hown : ∀ fd hid, A.cx = some (fd, hid) → (σ.pushH ws).h[hid]? = σ.h[hid]? := by
      intro fd hid hcx
      obtain ⟨k0, hk0, -, -⟩ := hF.me fd hid hcx
      exact getElem?_push_lt (hI.hidLt k0 _ hk0)
    have hfr : Frame N A (CT ++ [e0]) V vals (σ.pushH ws) :=
      Frame.mono (σ := σ) (σ' := σ.pushH ws) hp rfl hown hF
    have hun : Unch A CT σ.h (σ.pushH ws).h := fun k e hk _ _ => getElem?_push_lt (hI.hidLt k e hk)
    exact Post.ok 1 (.clos (mkFd code lines ⟨np, nl', body, l⟩) [] σ.h.length, σ.pushH ws) (by simp [Core.Fn.evalE, hws])
      ⟨⟨_, vals, _, rfl, .inr (.inl ⟨st.clos.length, _, _, rfl, rfl, by rw [hI.closLen]; simp [oldCT, e0]⟩),
       ⟨hp, by simp, hI.pushClos _ e0 ws rfl hentry, hfr, hL, hun⟩⟩, fun _ v' env' h => by cases h; rfl⟩
  | fset l j e =>
    refine Post.mono (fun r y s h => ⟨h, fun hna => by simp [nonArrE] at hna⟩) ?_
    simp only [okE, Bool.and_eq_true, decide_eq_true_eq] at hok
    obtain ⟨hjlt, hoke⟩ := hok
    have hj : A.c.frees[j]? = some (A.c.frees.getD j "") := by
      rw [List.getD_eq_getElem?_getD, List.getElem?_eq_getElem hjlt]; rfl
    rw [toAstF, evalE_gset]
    refine Post.shift (fE_zero _ _ _ _) (fun k => fE_fset Φ k A.cx σ l j e) ?_
    unfold bindR
    refine Post.bind (mono_E _ _ _ _) (fun _ => FMono.const _) (hf.E' A n CT V vals st σ e hI hF hgh hL hoke) ?_
    rintro r ⟨w, σ1⟩ s1 ⟨v, vals1, CT1, rfl, hv, hn1⟩
    dsimp only
    have hF1 : Frame N A CT1 V vals1 σ1 := hn1.frame
    have hI1 : Inv N Φ CT1 n s1 σ1 := hn1.inv
    generalize hname : A.c.frees.getD j "" = name at hj ⊢
    obtain ⟨h0, hne, hkey, hself, hgn, v0, w0, fd, hid, hcx, hlk, hfg, -⟩ := hF1.frees j name hj
    obtain ⟨k, hk, hkact, hlkself⟩ := hF1.me fd hid hcx
    have hlkE : lookupEnv name (envOf N A V vals1) = some (.cap v0) := by
      unfold envOf; rw [lookupEnv_mkEnv_other (fun i => h0 _ i (Nat.le_refl _))]; exact hlk
    have hlkS : lookupEnv selfKey (envOf N A V vals1) = some (.cap (.clos emptyFn [] (k + 1))) := by
      unfold envOf; rw [lookupEnv_mkEnv_other (fun i => hN.ln_key _ i)]; exact hlkself
    obtain ⟨base', hupd, hlk', hother⟩ := updEnvCap_ok name v vals1.base v0 hlk
    have hupdE : updEnvCap name v (envOf N A V vals1) = some (envOf N A V ⟨vals1.vals, base'⟩) := by
      unfold envOf
      exact updEnvCap_mkEnv_other (fun i => h0 _ i (Nat.le_refl _)) hupd
    rw [run_assignIdent_cap s1 hlkE hlkS hupdE]
    by_cases hcnt : s1.active.count (k + 1) ≥ 2
    · rw [if_pos hcnt]; exact True.intro
    rw [if_neg hcnt]
    obtain ⟨fr, hfr, hjfr, hfs⟩ := freeSet_of_get w hfg
    have hidlt : hid < σ1.h.length := hI1.hidLt k _ hk
    -- the new closure object
    have hget_other : ∀ hid', hid' ≠ hid → (σ1.h.set hid (fr.set j w))[hid']? = σ1.h[hid']? :=
      fun hid' hne' => List.getElem?_set_ne (Ne.symm hne')
    have hnames : ∀ j2 name2, A.c.frees[j2]? = some name2 → (name2 = name ↔ j2 = j) := by
      intro j2 name2 hj2
      constructor
      · intro hnn
        subst hnn
        have h2 : j2 < A.c.frees.length := by
          rcases Nat.lt_or_ge j2 A.c.frees.length with h1 | h1
          · exact h1
          · rw [List.getElem?_eq_none h1] at hj2; cases hj2
        have e1 : A.c.frees[j2] = name2 := by
          rw [List.getElem?_eq_getElem h2] at hj2; exact Option.some.inj hj2
        have e2 : A.c.frees[j] = name2 := by
          rw [List.getElem?_eq_getElem hjlt] at hj; exact Option.some.inj hj
        exact (List.getElem_inj hF1.freesNodup).mp (e1.trans e2.symm)
      · intro hjj
        subst hjj
        rw [hj] at hj2
        exact (Option.some.inj hj2).symm
    -- the frame
    have hF2 : Frame N A CT1 V ⟨vals1.vals, base'⟩ (σ1.setH (σ1.h.set hid (fr.set j w))) := by
      refine ⟨hF1.nodup, hF1.locals, hF1.lLen, ?_, ?_, ?_, hF1.freesNodup, ?_, ?_, ?_⟩
      · intro j0 hj0
        show lookupEnv (N.gn j0) base' = _
        rw [hother _ (hgn j0 hj0)]
        exact hF1.globals j0 hj0
      · intro hs
        obtain ⟨a1, a2, a3, vf, fd', id', b1, b2, b3⟩ := hF1.self hs
        refine ⟨a1, a2, a3, vf, fd', id', ?_, b2, b3⟩
        show lookupEnv A.c.self base' = _
        rw [hother _ (Ne.symm hself)]
        exact b1
      · intro j2 name2 hj2
        obtain ⟨a1, a2, a3, a4, a5, v2, w2, fd', id', b1, b2, b3, b4⟩ := hF1.frees j2 name2 hj2
        have hfd : (fd', id') = (fd, hid) := Option.some.inj (b1.symm.trans hcx)
        cases hfd
        by_cases hnn : name2 = name
        · have hjj : j2 = j := (hnames j2 name2 hj2).mp hnn
          subst hnn hjj
          exact ⟨a1, a2, a3, a4, a5, v, w, fd, hid, hcx, hlk', freeGet_set_self w hfr hjfr, .inr (hv)⟩
        · have hjj : j ≠ j2 := fun e => hnn ((hnames j2 name2 hj2).mpr e.symm)
          refine ⟨a1, a2, a3, a4, a5, v2, w2, fd, hid, hcx, ?_, ?_, b4⟩
          · show lookupEnv name2 base' = _
            rw [hother _ hnn]; exact b2
          · show Core.Fn.freeGet (σ1.h.set hid (fr.set j w)) hid j2 = some w2
            rw [freeGet_set_other w hfr hjj]; exact b3
      · intro hd
        exact ⟨(hF1.infn hd).1, isGlobalEnv_of_cap base' hlk', (hF1.infn hd).2.2⟩
      · intro h0'
        have := (hF1.topg h0').2
        rw [this] at hj
        simp at hj
      · intro fd' hid' hcx'
        have hfd : (fd', hid') = (fd, hid) := Option.some.inj (hcx'.symm.trans hcx)
        cases hfd
        refine ⟨k, hk, hkact, ?_⟩
        show lookupEnv selfKey base' = _
        rw [hother _ (Ne.symm hkey)]
        exact hlkself
    -- the invariant
    obtain ⟨c, hc, d, hΦ, hcname, hcparams, hcbody, hcdepth, hcnpnl, hcghn, hcokb, hclast, hcglob, hcfrees, hclnself, hcselfkey, hcnd⟩ := hI1.clos k _ hk
    dsimp only at hΦ hcname hcparams hcbody hcdepth hcghn hcokb hcglob hcfrees hclnself hcselfkey hcnd
    have hI2 : Inv N Φ CT1 n
        { s1 with clos := s1.clos.modify (k + 1 - 1) fun c => { c with captured := (name, .cap (.other "poison")) :: c.captured } }
        (σ1.setH (σ1.h.set hid (fr.set j w))) := by
      refine ⟨by simp [hI1.closLen], ?_, hI1.cellsLen, hI1.gLen, hI1.cells, hI1.fresh, hI1.heap, hI1.hidInj, ?_, hI1.keyed⟩
      · intro k2 e2 hk2
        by_cases hkk : k2 = k
        · subst hkk
          have he2 : e2 = ⟨fd, hid, A.c, A.gh⟩ := Option.some.inj (hk2.symm.trans hk)
          subst he2
          refine ⟨{ c with captured := (name, .cap (.other "poison")) :: c.captured }, ?_, ?_⟩
          · show (s1.clos.modify (k2 + 1 - 1) _)[k2]? = _
            simp [hc]
          · refine ⟨d, hΦ, hcname, hcparams, hcbody, hcdepth, hcnpnl, hcghn, hcokb, hclast, ?_, ?_, hclnself, hcselfkey, hcnd⟩
            · intro j0 hj0
              refine ⟨(hcglob j0 hj0).1, ?_⟩
              show lookupScope (N.gn j0) ((name, .cap (.other "poison")) :: c.captured) = _
              have : (name == N.gn j0) = false := by simpa using (Ne.symm (hgn j0 hj0))
              simp only [lookupScope, this, Bool.false_eq_true, if_false]
              exact (hcglob j0 hj0).2
            · intro j2 name2 hj2
              obtain ⟨a1, a2, a3, a4, a5, v2, w2, b1, b2, b3⟩ := hcfrees j2 name2 hj2
              by_cases hnn : name2 = name
              · have hjj : j2 = j := (hnames j2 name2 hj2).mp hnn
                subst hnn hjj
                refine ⟨a1, a2, a3, a4, a5, .other "poison", w, ?_, freeGet_set_self w hfr hjfr, .inl rfl⟩
                show lookupScope name2 ((name2, .cap (.other "poison")) :: c.captured) = _
                simp [lookupScope]
              · have hjj : j ≠ j2 := fun e => hnn ((hnames j2 name2 hj2).mpr e.symm)
                refine ⟨a1, a2, a3, a4, a5, v2, w2, ?_, ?_, b3⟩
                · show lookupScope name2 ((name, .cap (.other "poison")) :: c.captured) = _
                  have : (name == name2) = false := by simpa using (Ne.symm hnn)
                  simp only [lookupScope, this, Bool.false_eq_true, if_false]
                  exact b1
                · show Core.Fn.freeGet (σ1.h.set hid (fr.set j w)) hid j2 = some w2
                  rw [freeGet_set_other w hfr hjj]; exact b2
        · obtain ⟨c2, hc2, he2⟩ := hI1.clos k2 e2 hk2
          refine ⟨c2, ?_, he2.mono (List.prefix_refl _) (hget_other _ (fun e => hkk (hI1.hidInj k2 k e2 _ hk2 hk e))) (Nat.le_refl _)⟩
          show (s1.clos.modify (k + 1 - 1) _)[k2]? = _
          rw [List.getElem?_modify_ne _ _ (by omega)]
          exact hc2
      · intro k2 e2 hk2
        show e2.hid < (σ1.h.set hid (fr.set j w)).length
        rw [List.length_set]
        exact hI1.hidLt k2 e2 hk2
    have hun : Unch A CT1 σ1.h (σ1.setH (σ1.h.set hid (fr.set j w))).h := by
      intro k2 e2 hk2 hl2 hc2
      refine hget_other _ (fun e => ?_)
      rcases hc2 with hc2 | hc2
      · exact hc2 fd hid hcx e.symm
      · have hkk : k2 = k := hI1.hidInj k2 k e2 _ hk2 hk e
        subst hkk
        rw [← hn1.act] at hc2
        exact hcnt hc2
    exact Post.ok 0 (w, σ1.setH (σ1.h.set hid (fr.set j w))) (by simp [fsetK, hcx, hfs])
      ⟨v, ⟨vals1.vals, base'⟩, CT1, rfl, hv, hn1.trans ⟨List.prefix_refl _, by simp, hI2, hF2, hn1.act, hun⟩⟩
  | arrLit l es =>
    refine Post.mono (fun r y s h => ⟨h, fun hna => by simp [nonArrE] at hna⟩) ?_
    simp only [okE] at hok
    rw [toAstF, evalE_arr]
    refine Post.shift (fE_zero _ _ _ _) (fun k => fE_arrLit Φ k A.cx σ l es) ?_
    unfold bindR
    refine Post.bind (mono_Args _ _ _ _) (fun _ => FMono.const _) (hf.Args A n CT V vals st σ es hI hF hgh hL hok) ?_
    rintro r ⟨ws, σ1⟩ s1 ⟨vs, vals1, CT1, rfl, hvs, hn1⟩
    dsimp only
    rw [run_reflectM_bind, reflect_lit hvs]
    have hH := hn1.inv.heap
    have hfr1 : Frame N A CT1 V vals1 σ1 := hn1.frame
    have hiv1 : Inv N Φ CT1 n s1 σ1 := hn1.inv
    have hvr : VR CT1 (.arr s1.heap.next []) (.arr σ1.a.next []) := by rw [← hH.next]; exact VR.arr hH.pos
    exact Post.ok 0 (.arr σ1.a.next [], σ1.setA (σ1.a.alloc (.arr ws)).1) rfl
      ⟨.arr s1.heap.next [], vals1, CT1, rfl, hvr,
       hn1.same rfl hn1.act (hiv1.setA (hH.alloc hvs))
        (Frame.mono (σ := σ1) (σ' := σ1.setA (σ1.a.alloc (.arr ws)).1) (List.prefix_refl _) rfl (fun _ _ _ => rfl) hfr1)⟩
  | index l c i =>
    refine Post.mono (fun r y s h => ⟨h, fun hna => by simp [nonArrE] at hna⟩) ?_
    simp only [okE, Bool.and_eq_true] at hok
    rw [toAstF, evalE_index]
    refine Post.shift (fE_zero _ _ _ _) (fun k => fE_index Φ k A.cx σ l c i) ?_
    unfold bindR
    refine Post.bind (mono_E _ _ _ _) (fun p => FMono.bind (mono_E _ _ _ _) (fun _ => FMono.const _)) (hf.E' A n CT V vals st σ c hI hF hgh hL hok.1) ?_
    rintro r ⟨wc, σ1⟩ s1 ⟨vc, vals1, CT1, rfl, hvc, hn1⟩
    dsimp only
    refine Post.bind (mono_E _ _ _ _) (fun _ => FMono.const _) (hf.E' A n CT1 V vals1 s1 σ1 i hn1.inv hn1.frame hgh hn1.act hok.2) ?_
    rintro r ⟨wi, σ2⟩ s2 ⟨vi, vals2, CT2, rfl, hvi, hn2⟩
    dsimp only
    have hb := index_bridge hn2.inv.heap (hvc.mono hn2.ext) hvi l
    rw [run_bind]
    generalize run (indexGet l vc vi) s2 = o at hb ⊢
    rcases o with ⟨er | r, s3⟩
    · cases er
      · intro k; simp [idxK, show Core.Fn.getIndexH σ2.a wc wi = none from hb]
      all_goals exact True.intro
    · obtain ⟨rfl, w, hw, hvr⟩ := hb
      exact Post.ok 0 (w, σ2) (by simp [idxK, hw]) ⟨r, vals2, CT2, rfl, hvr, hn1.trans hn2⟩
  | setIndex l c i e =>
    refine Post.mono (fun r y s h => ⟨h, fun hna => by simp [nonArrE] at hna⟩) ?_
    simp only [okE, Bool.and_eq_true] at hok
    rw [toAstF, evalE_setIndex]
    refine Post.shift (fE_zero _ _ _ _) (fun k => fE_setIndex Φ k A.cx σ l c i e) ?_
    unfold bindR
    refine Post.bind (mono_E _ _ _ _)
      (fun p => FMono.bind (mono_E _ _ _ _) (fun q => FMono.bind (mono_E _ _ _ _) (fun _ => FMono.const _)))
      (hf.E' A n CT V vals st σ e hI hF hgh hL hok.2) ?_
    rintro r ⟨w, σ1⟩ s1 ⟨v, vals1, CT1, rfl, hv, hn1⟩
    dsimp only
    refine Post.bind (mono_E _ _ _ _) (fun q => FMono.bind (mono_E _ _ _ _) (fun _ => FMono.const _))
      (hf.E' A n CT1 V vals1 s1 σ1 c hn1.inv hn1.frame hgh hn1.act hok.1.1) ?_
    rintro r ⟨wc, σ2⟩ s2 ⟨vc, vals2, CT2, rfl, hvc, hn2⟩
    dsimp only
    refine Post.bind (mono_E _ _ _ _) (fun _ => FMono.const _) (hf.E' A n CT2 V vals2 s2 σ2 i hn2.inv hn2.frame hgh hn2.act hok.1.2) ?_
    rintro r ⟨wi, σ3⟩ s3 ⟨vi, vals3, CT3, rfl, hvi, hn3⟩
    dsimp only
    have hv3 : VR CT3 v w := (hv.mono hn2.ext).mono hn3.ext
    have hb := indexSet_bridge hn3.inv.heap hn3.inv.keyed (hvc.mono hn3.ext) hvi hv3 l
    rw [run_bind]
    generalize run (indexSet l vc vi v) s3 = o at hb ⊢
    rcases o with ⟨er | u, s4⟩
    · cases er
      · intro k; simp [setIdxK, show Core.Fn.setIndexH σ3.a wc wi w = none from hb]
      all_goals exact True.intro
    · obtain ⟨hp', a', ha', hH', rfl⟩ := hb
      have hfr3 : Frame N A CT3 V vals3 σ3 := hn3.frame
      have hiv3 : Inv N Φ CT3 n s3 σ3 := hn3.inv
      exact Post.ok 0 (w, σ3.setA a') (by simp [setIdxK, ha']) ⟨v, vals3, CT3, rfl, hv3,
        hn1.trans (hn2.trans (hn3.same rfl hn3.act (hiv3.setA hH')
          (Frame.mono (σ := σ3) (σ' := σ3.setA a') (List.prefix_refl _) rfl (fun _ _ _ => rfl) hfr3)))⟩
  | _ => simp [okE] at hok

theorem arms_succ (f : Nat) (ih : ∀ f', f' ≤ f → AllOK N Φ f') :
    ∀ (A : Act) n CT V vals st σ v w arms, Inv N Φ CT n st σ → Frame N A CT V vals σ → A.gh ≤ n → st.active = A.act →
    okArms N Φ A.c A.gh A.nl V.flatten arms = true → SR CT v w →
    Post (EQ N Φ A n CT σ V) (fun k => Core.Fn.evalArms Φ k A.cx σ w arms)
      (run (Ref.evalArms (f+1) (envOf N A V vals) v (toArmsF N A.c arms)) st) := by
  intro A n CT V vals st σ v w arms hI hF hgh hL hok hvw
  cases arms with
  | last la lp d =>
    simp only [okArms] at hok
    rw [toArmsF, evalArms_cons]
    refine Post.shift (fArms_zero _ _ _ _ _) (fun k => fArms_last Φ k A.cx σ w la lp d) ?_
    refine Post.bind_hit (run_hitLoopF σ.a hvw st [.dflt lp] false) ?_
    intro b hb
    have hb' : b = true := by simpa [Core.Fn.patsTestH, Core.Fn.patTestH, Core.erasePat] using hb.symm
    subst hb'
    simp only [if_true]
    exact branch_expr_ok ih A n CT V vals st σ d la hI hF hgh hL hok
  | cons la pats body rest =>
    simp only [okArms, Bool.and_eq_true] at hok
    rw [toArmsF, evalArms_cons]
    refine Post.bind_hit (run_hitLoopF σ.a hvw st pats false) ?_
    intro b hb
    simp only [Bool.false_eq_true, if_false] at hb
    cases b with
    | true =>
      simp only [if_true]
      refine Post.shift (fArms_zero _ _ _ _ _) (fun k => fArms_cons_true Φ k A.cx σ w la pats body rest hb) ?_
      exact branch_expr_ok ih A n CT V vals st σ body la hI hF hgh hL hok.1
    | false =>
      simp only [Bool.false_eq_true, if_false]
      refine Post.shift (fArms_zero _ _ _ _ _) (fun k => fArms_cons_false Φ k A.cx σ w la pats body rest hb) ?_
      exact (ih f (Nat.le_refl f)).Arms A n CT V vals st σ v w rest hI hF hgh hL hok.2 hvw

include hN in
theorem args_succ (f : Nat) (hf : AllOK N Φ f) :
    ∀ (A : Act) n CT V vals st σ e, Inv N Φ CT n st σ → Frame N A CT V vals σ → A.gh ≤ n → st.active = A.act →
    okArgs N Φ A.c A.gh A.nl V.flatten e = true →
    Post (AQ N Φ A n CT σ V) (fun k => Core.Fn.evalArgs Φ k A.cx σ e) (run (Ref.evalArgs (f+1) (envOf N A V vals) (toArgsF N A.c e)) st) := by
  intro A n CT V vals st σ e hI hF hgh hL hok
  cases e with
  | nil =>
    rw [toArgsF, evalArgs_nil]
    exact Post.ok 1 ([], σ) (by simp [Core.Fn.evalArgs]) ⟨[], vals, CT, rfl, True.intro, Next.refl hI hF hL⟩
  | cons a rest =>
    simp only [okArgs, Bool.and_eq_true] at hok
    rw [toArgsF, evalArgs_cons]
    refine Post.shift (fArgs_zero _ _ _ _) (fun k => fArgs_cons Φ k A.cx σ a rest) ?_
    unfold bindR
    refine Post.bind (mono_E _ _ _ _) (fun p => FMono.bind (mono_Args _ _ _ _) (fun _ => FMono.const _)) (hf.E' A n CT V vals st σ a hI hF hgh hL hok.1) ?_
    rintro r ⟨w, σ1⟩ s1 ⟨v, vals1, CT1, rfl, hv, hn1⟩
    dsimp only
    refine Post.bind (mono_Args _ _ _ _) (fun _ => FMono.const _) (hf.Args A n CT1 V vals1 s1 σ1 rest hn1.inv hn1.frame hgh hn1.act hok.2) ?_
    rintro r ⟨ws, σ2⟩ s2 ⟨vs, vals2, CT2, rfl, hvs, hn2⟩
    dsimp only
    exact Post.ok 0 (w :: ws, σ2) rfl ⟨v :: vs, vals2, CT2, rfl, ⟨hv.mono hn2.ext, hvs⟩, hn1.trans hn2⟩

theorem SQ.same {A : Act} {n : Nat} {CT CT' : CTab} {σ : Sto} {V : List (List Nat)} {ss : List FStmt} {vals' : LS}
    {r : Flow × Val × Env} {y : Sto × FFlow × Val} {st' : St}
    (henv : r.2.2 = envOf N A V vals') (hfr : FR CT' r.1 y.2.1) (hn : Next N Φ A n CT σ V CT' vals' st' y.1)
    (hnorm : y.2.1 = .normal → VR CT' r.2.1 y.2.2 ∧ NormalOK ss y.2.2) (hd : defs ss (V.headD []) = V.headD []) :
    SQ N Φ A n CT σ V ss r y st' := by
  refine ⟨V.headD [], vals', CT', ?_, hfr, ?_, fun h => ⟨hd.symm, hnorm h⟩⟩
  · rw [setTop_headD]; exact henv
  · rw [setTop_headD]; exact hn

theorem toAstF_not_call (c : Ctx) (e : FExpr) (h : ∀ l f a, e ≠ .call l f a) :
    ∀ l' fn args, toAstF N c e = .call l' fn args → False := by
  intro l' fn args he
  cases e <;> simp only [toAstF] at he <;> first | (cases he; done) | skip
  case lit l v => cases v <;> simp [litAst] at he
  case call l f a => exact h l f a rfl

theorem isGlobalEnv_mkEnv_false {nm : Nat → String} {V : List (List Nat)} {vals : Nat → Val} {base : Env}
    (h : isGlobalEnv base = false) : isGlobalEnv (mkEnv nm V vals base) = false := by
  unfold isGlobalEnv mkEnv at *
  rw [List.all_append, h, Bool.and_false]

theorem lastRet_single (s : FStmt) : lastRet [s] = s.isRet := rfl
theorem lastExpr_single (s : FStmt) : lastExpr [s] = s.isExprStmt := rfl

/-- a branch of a statement-level `if` -/
theorem branch_stmts_ok {f0 : Nat} (hB : ∀ f', f' ≤ f0 → AllOK N Φ f') (A : Act) (n : Nat) (CT : CTab) (V : List (List Nat)) (vals : LS) (st : St) (σ : Sto)
    (body : List FStmt) (l : Nat) (s0 : FStmt) (hs0 : s0.isRet = false ∧ s0.isExprStmt = true ∧ defs [s0] (V.headD []) = V.headD [])
    (hI : Inv N Φ CT n st σ) (hF : Frame N A CT V vals σ) (hgh : A.gh ≤ n) (hL : st.active = A.act)
    (hb : okP N Φ A.c A.gh A.nl V.flatten body = true) :
    Post (SQ N Φ A n CT σ V [s0]) (fun k => Core.Fn.evalP Φ k A.cx σ body)
      (run (evalBranch f0 (envOf N A V vals) (.mk l (toStmtsF N A.c body)) >>= exprK) st) := by
  cases f0 with
  | zero => rw [evalBranch_zero]; exact True.intro
  | succ f1 =>
    rw [evalBranch_succ, bind_assoc]
    refine Res.bind ((hB f1 (Nat.le_succ f1)).B A n CT V vals st σ body l hI hF hgh hL hb) id ?_
    rintro ⟨fl, v, env'⟩ s2 ⟨k, ⟨σ2, fl', bv⟩, hk, vals2, CT2, henv, hfr, hn2, hnorm⟩
    have hN0 : NormalOK [s0] bv := ⟨by rw [lastRet_single]; exact hs0.1, by rw [lastExpr_single, hs0.2.1]; intro h; cases h⟩
    cases fl with
    | normal =>
      exact Post.ok k (σ2, fl', bv) hk (SQ.same henv hfr hn2 (fun h => ⟨(hnorm h).1, hN0⟩) hs0.2.2)
    | brk lb =>
      refine Post.ok k (σ2, fl', bv) hk (SQ.same henv hfr hn2 (fun h => ?_) hs0.2.2)
      have h' : fl' = .normal := h
      subst h'; exact hfr.elim
    | cont lb =>
      refine Post.ok k (σ2, fl', bv) hk (SQ.same henv hfr hn2 (fun h => ?_) hs0.2.2)
      have h' : fl' = .normal := h
      subst h'; exact hfr.elim
    | ret rv =>
      refine Post.ok k (σ2, fl', bv) hk (SQ.same henv hfr hn2 (fun h => ?_) hs0.2.2)
      have h' : fl' = .normal := h
      subst h'; exact hfr.elim

include hN in
theorem stmt_succ (f : Nat) (ih : ∀ f', f' ≤ f → AllOK N Φ f') :
    ∀ (A : Act) n CT V vals st σ s, Inv N Φ CT n st σ → Frame N A CT V vals σ → A.gh ≤ n → st.active = A.act →
    okS N Φ A.c A.gh A.nl V.flatten s = true →
    Post (SQ N Φ A n CT σ V [s]) (fun k => Core.Fn.evalS Φ k A.cx σ s) (run (Ref.evalStmt (f+1) (envOf N A V vals) (toStmtF N A.c s)) st) := by
  intro A n CT V vals st σ s hI hF hgh hL hok
  have hf := ih f (Nat.le_refl f)
  cases s with
  | letG l i e => simp [okS] at hok
  | whileS l lbl c body =>
    simp only [okS, Bool.and_eq_true] at hok
    rw [toStmtF, evalStmt_while]
    refine Post.mono ?_ (hf.L A n CT V vals st σ l lbl (some c) body hI hF hgh hL hok.1 hok.2)
    rintro r y s ⟨vals', CT', h1, h2, h3, h4⟩
    exact SQ.same h1 h2 h3 h4 rfl
  | loopS l lbl body =>
    simp only [okS] at hok
    rw [toStmtF, evalStmt_loop]
    refine Post.mono ?_ (hf.L A n CT V vals st σ l lbl none body hI hF hgh hL rfl hok)
    rintro r y s ⟨vals', CT', h1, h2, h3, h4⟩
    exact SQ.same h1 h2 h3 h4 rfl
  | letL l i e =>
    simp only [okS, Bool.and_eq_true, decide_eq_true_eq, Bool.not_eq_true', List.contains_eq_mem, decide_eq_false_iff_not] at hok
    obtain ⟨⟨⟨hd, hnotin⟩, hinl⟩, hoke⟩ := hok
    obtain ⟨-, hglob, hne⟩ := hF.infn hd
    obtain ⟨V0, Vt, rfl⟩ : ∃ V0 Vt, V = V0 :: Vt := by
      cases V with
      | nil => exact absurd rfl hne
      | cons a b => exact ⟨a, b, rfl⟩
    rw [toStmtF, evalStmt_let]
    refine Post.shift (fS_zero _ _ _ _) (fun k => fS_letL Φ k A.cx σ l i e) ?_
    refine Post.bind (mono_E _ _ _ _) (fun _ => FMono.const _) (hf.E' A n CT _ vals st σ e hI hF hgh hL hoke) ?_
    rintro r ⟨w, σ1⟩ s1 ⟨v, vals1, CT1, rfl, hv, hn1⟩
    have hfr1 : Frame N A CT1 (V0 :: Vt) vals1 σ1 := hn1.frame
    have hiv1 : Inv N Φ CT1 n s1 σ1 := hn1.inv
    have hlt : i < σ1.l.length := by rw [hfr1.lLen]; exact hinl
    have hge : isGlobalEnv (envOf N A (V0 :: Vt) vals1) = false := isGlobalEnv_mkEnv_false (hfr1.infn hd).2.1
    simp only [letK, hge, Bool.false_eq_true, if_false]
    unfold envOf
    rw [bindTop_mkEnv hnotin]
    exact Post.ok 0 (σ1.lset i w, .normal, .null) (by simp [letLK, hlt]) ⟨i :: V0, vals1.upd i v, CT1, rfl, True.intro,
      hn1.same rfl hn1.act (Inv.of_gh (σ := σ1) (σ' := σ1.lset i w) rfl rfl rfl hiv1) (hfr1.bindL hv hnotin hlt),
      fun _ => ⟨rfl, VR.scalar rfl, rfl, fun _ => rfl⟩⟩
  | expr l e =>
    simp only [okS] at hok
    by_cases hcall : ∃ l' fn as, e = .call l' fn as
    · obtain ⟨l', fn, as, rfl⟩ := hcall
      simp only [okE, Bool.and_eq_true] at hok
      rw [toStmtF, toAstF, evalStmt_exprCall]
      refine Post.shift (fS_zero _ _ _ _) (fun k => fS_expr Φ k A.cx σ l (.call l' fn as)) ?_
      have hc := callCore_ok hf A n CT V vals st σ fn as l' (fun env r => pure (.val r env)) (fun _ _ _ => rfl) hI hF hgh hL hok.1 hok.2
      have hc' := Post.shift (ev := fun k => Core.Fn.evalE Φ k A.cx σ (.call l' fn as)) (fE_zero _ _ _ _) (fun k => fE_call Φ k A.cx σ l' fn as) hc
      refine Post.bind (mono_E _ _ _ _) (fun _ => FMono.const _) hc' ?_
      rintro r ⟨w, σ1⟩ s1 ⟨v, vals1, CT1, rfl, hv, hn1⟩
      exact Post.ok 0 (σ1, .normal, w) rfl (SQ.same rfl True.intro hn1 (fun _ => ⟨hv, rfl, fun h => by cases h⟩) rfl)
    · have hx : ∀ l' fn args, toAstF N A.c e = .call l' fn args → False :=
        toAstF_not_call A.c e (fun l' f a h => hcall ⟨l', f, a, h⟩)
      rw [toStmtF, evalStmt_expr _ _ _ _ hx]
      refine Post.shift (fS_zero _ _ _ _) (fun k => fS_expr Φ k A.cx σ l e) ?_
      refine Post.bind (mono_E _ _ _ _) (fun _ => FMono.const _) (hf.E' A n CT V vals st σ e hI hF hgh hL hok) ?_
      rintro r ⟨w, σ1⟩ s1 ⟨v, vals1, CT1, rfl, hv, hn1⟩
      exact Post.ok 0 (σ1, .normal, w) rfl (SQ.same rfl True.intro hn1 (fun _ => ⟨hv, rfl, fun h => by cases h⟩) rfl)
  | block l body =>
    simp only [okS] at hok
    rw [toStmtF, evalStmt_block]
    refine Post.shift (fS_zero _ _ _ _) (fun k => fS_block Φ k A.cx σ l body) ?_
    refine Post.bind (mono_P _ _ _ _) (fun _ => FMono.const _) (hf.B A n CT V vals st σ body l hI hF hgh hL hok) ?_
    rintro ⟨fl, v, env'⟩ ⟨σ1, fl', bv⟩ s1 ⟨vals1, CT1, henv, hfr, hn1, hnorm⟩
    exact Post.ok 0 (σ1, fl', .null) rfl (SQ.same henv hfr hn1 (fun _ => ⟨VR.scalar rfl, rfl, fun _ => rfl⟩) rfl)
  | breakS l lbl =>
    rw [toStmtF, evalStmt_break]
    exact Post.ok 1 (σ, .brk lbl, .null) (by simp [Core.Fn.evalS])
      (SQ.same (r := (Flow.brk lbl, Val.null, envOf N A V vals)) rfl rfl (Next.refl hI hF hL) (fun h => by cases h) rfl)
  | continueS l lbl =>
    rw [toStmtF, evalStmt_continue]
    exact Post.ok 1 (σ, .cont lbl, .null) (by simp [Core.Fn.evalS])
      (SQ.same (r := (Flow.cont lbl, Val.null, envOf N A V vals)) rfl rfl (Next.refl hI hF hL) (fun h => by cases h) rfl)
  | ifS ls l c t e =>
    simp only [okS, Bool.and_eq_true] at hok
    rw [toStmtF, evalStmt_expr _ _ _ _ (fun _ _ _ h => by cases h)]
    refine Post.shift (fS_zero _ _ _ _) (fun k => fS_ifS Φ k A.cx σ ls l c t e) ?_
    cases f with
    | zero => rw [evalE_zero]; exact True.intro
    | succ f0 =>
      rw [evalE_ite]
      unfold bindR
      rw [bind_assoc]
      have hf0 := ih f0 (Nat.le_succ f0)
      refine Post.bind (mono_E _ _ _ _) (fun p => FMono.ite (mono_P _ _ _ _) (mono_P _ _ _ _)) (hf0.E' A n CT V vals st σ c hI hF hgh hL hok.1.1) ?_
      rintro r ⟨wc, σ1⟩ s1 ⟨vc, vals1, CT1, rfl, hvc, hn1⟩
      dsimp only
      rw [bind_assoc]
      refine Post.truthy hn1.inv.heap hvc _ ?_
      have hB : ∀ f', f' ≤ f0 → AllOK N Φ f' := fun f' h => ih f' (Nat.le_succ_of_le h)
      have hs0 : (FStmt.ifS ls l c t e).isRet = false ∧ (FStmt.ifS ls l c t e).isExprStmt = true ∧
          defs [FStmt.ifS ls l c t e] (V.headD []) = V.headD [] := ⟨rfl, rfl, rfl⟩
      cases hfal : Core.Fn.falseyH σ1.a wc with
      | true =>
        simp only [Bool.not_true, Bool.false_eq_true, if_false]
        refine Post.congr (ev' := fun k => Core.Fn.evalP Φ k A.cx σ1 e) (fun k => by simp [hfal]) ?_
        refine Post.mono ?_ (branch_stmts_ok hB A n CT1 V vals1 s1 σ1 e l _ hs0 hn1.inv hn1.frame hgh hn1.act hok.2)
        rintro r y s ⟨V0', vals2, CT2, h1, h2, hn2, h3⟩
        exact ⟨V0', vals2, CT2, h1, h2, hn1.trans hn2, h3⟩
      | false =>
        simp only [Bool.not_false, if_true]
        refine Post.congr (ev' := fun k => Core.Fn.evalP Φ k A.cx σ1 t) (fun k => by simp [hfal]) ?_
        refine Post.mono ?_ (branch_stmts_ok hB A n CT1 V vals1 s1 σ1 t l _ hs0 hn1.inv hn1.frame hgh hn1.act hok.1.2)
        rintro r y s ⟨V0', vals2, CT2, h1, h2, hn2, h3⟩
        exact ⟨V0', vals2, CT2, h1, h2, hn1.trans hn2, h3⟩
  | ret l e =>
    simp only [okS, Bool.and_eq_true, decide_eq_true_eq] at hok
    obtain ⟨⟨x, hx⟩, -, -⟩ := hF.infn hok.1
    obtain ⟨c0, gh0, nl0, cx0, sf0⟩ := A
    have hx' : cx0 = some x := hx
    subst hx'
    rw [toStmtF, evalStmt_ret]
    refine Post.shift (fS_zero _ _ _ _) (fun k => fS_ret Φ k x σ l e) ?_
    refine Post.bind (mono_E _ _ _ _) (fun _ => FMono.const _) (hf.E' ⟨c0, gh0, nl0, some x, sf0⟩ n CT V vals st σ e hI hF hgh hL hok.2) ?_
    rintro r ⟨w, σ1⟩ s1 ⟨v, vals1, CT1, rfl, hv, hn1⟩
    exact Post.ok 0 (σ1, .ret w, .null) rfl (SQ.same (r := (Flow.ret v, Val.null, _)) rfl hv hn1 (fun h => by cases h) rfl)
  | retN l =>
    simp only [okS, decide_eq_true_eq] at hok
    obtain ⟨⟨x, hx⟩, -, -⟩ := hF.infn hok
    obtain ⟨c0, gh0, nl0, cx0, sf0⟩ := A
    have hx' : cx0 = some x := hx
    subst hx'
    rw [toStmtF, evalStmt_retN]
    exact Post.ok 1 (σ, .ret .null, .null) (fS_retN Φ 0 x σ l)
      (SQ.same (r := (Flow.ret Val.null, Val.null, _)) rfl (VR.scalar rfl) (Next.refl hI hF hL) (fun h => by cases h) rfl)

theorem mono_stmtsSK (k0 : Unit) (cx : Option (FnDef × Nat)) (rest : List FStmt) (q : Sto × FFlow × Val) :
    FMono (fun k => stmtsSK Φ k cx rest q) := by
  obtain ⟨σ1, fl, v⟩ := q
  cases fl <;> simp only [stmtsSK] <;> first | exact FMono.const _ | skip
  cases rest with
  | nil => exact FMono.const _
  | cons a b => exact mono_P _ _ _ _

theorem setTop_setTop (a b : List Nat) (V : List (List Nat)) : setTop a (setTop b V) = setTop a V := by
  cases V <;> rfl

theorem lastRet_cons2 (s s2 : FStmt) (r : List FStmt) : lastRet (s :: s2 :: r) = lastRet (s2 :: r) := by
  simp [lastRet, List.getLast?_cons_cons]
theorem lastExpr_cons2 (s s2 : FStmt) (r : List FStmt) : lastExpr (s :: s2 :: r) = lastExpr (s2 :: r) := by
  simp [lastExpr, List.getLast?_cons_cons]

theorem stmts_succ (f : Nat) (hf : AllOK N Φ f) :
    ∀ (A : Act) n CT V vals st σ ss last, Inv N Φ CT n st σ → Frame N A CT V vals σ → A.gh ≤ n → st.active = A.act →
    okP N Φ A.c A.gh A.nl V.flatten ss = true → (ss = [] → last = .null) →
    Post (SQ N Φ A n CT σ V ss) (fun k => Core.Fn.evalP Φ k A.cx σ ss) (run (Ref.evalStmts (f+1) (envOf N A V vals) (toStmtsF N A.c ss) last) st) := by
  intro A n CT V vals st σ ss last hI hF hgh hL hok hlast
  cases ss with
  | nil =>
    rw [toStmtsF, evalStmts_nil, hlast rfl]
    exact Post.ok 1 (σ, .normal, .null) (by simp [Core.Fn.evalP])
      (SQ.same (r := (Flow.normal, Val.null, envOf N A V vals)) rfl True.intro (Next.refl hI hF hL) (fun _ => ⟨VR.scalar rfl, rfl, fun _ => rfl⟩) rfl)
  | cons s rest =>
    simp only [okP, Bool.and_eq_true] at hok
    have hvis0 : V = [] → visAfter s [] = [] := by
      intro hV
      cases s <;> first | rfl | skip
      simp only [okS, Bool.and_eq_true, decide_eq_true_eq] at hok
      exact absurd hV (hF.infn hok.1.1.1.1).2.2
    rw [toStmtsF, evalStmts_cons]
    refine Post.shift (fP_zero _ _ _ _) (fun k => fP_cons Φ k A.cx σ s rest) ?_
    refine Post.bind (mono_S _ _ _ _) (fun q => mono_stmtsSK () _ _ q) (hf.S A n CT V vals st σ s hI hF hgh hL hok.1) ?_
    rintro ⟨fl, v, env1⟩ ⟨σ1, fl', bv⟩ s1 ⟨V0', vals1, CT1, henv, hfr, hn1, hnorm⟩
    have henv' : env1 = envOf N A (setTop V0' V) vals1 := henv
    subst henv'
    cases fl' with
    | normal =>
      cases fl <;> first | exact hfr.elim | skip
      obtain ⟨hV0, hvr, hN1⟩ := hnorm rfl
      have hV0' : V0' = visAfter s (V.headD []) := hV0
      show Post _ _ (run (evalStmts f _ (toStmtsF N A.c rest) v) s1)
      cases rest with
      | nil =>
        cases f with
        | zero => rw [evalStmts_zero]; exact True.intro
        | succ f0 =>
          rw [toStmtsF, evalStmts_nil]
          exact Post.ok 0 (σ1, .normal, bv) (by simp [stmtsSK]) ⟨V0', vals1, CT1, rfl, True.intro, hn1, fun _ => ⟨hV0, hvr, hN1⟩⟩
      | cons s2 rest2 =>
        have hflat : (setTop V0' V).flatten = visAfter s V.flatten := by
          cases V with
          | nil => simp [setTop, hvis0 rfl]
          | cons a b =>
            simp only [setTop, List.flatten_cons, hV0', List.headD_cons]
            rw [visAfter_append]
        have hokr : okP N Φ A.c A.gh A.nl (setTop V0' V).flatten (s2 :: rest2) = true := by rw [hflat]; exact hok.2
        refine Post.congr (ev' := fun k => Core.Fn.evalP Φ k A.cx σ1 (s2 :: rest2)) (fun k => by simp [stmtsSK]) ?_
        refine Post.mono ?_ (hf.P A n CT1 (setTop V0' V) vals1 s1 σ1 (s2 :: rest2) v hn1.inv hn1.frame hgh hn1.act hokr (fun h => by cases h))
        rintro r y s ⟨V0'', vals2, CT2, h1, h2, hn2, h3⟩
        rw [setTop_setTop] at h1 hn2
        refine ⟨V0'', vals2, CT2, h1, h2, hn1.trans hn2, fun h => ?_⟩
        obtain ⟨a1, a2, a3, a4⟩ := h3 h
        refine ⟨?_, a2, by rw [lastRet_cons2]; exact a3, by rw [lastExpr_cons2]; exact a4⟩
        rw [a1]
        cases V with
        | nil => simp [setTop, defs, hvis0 rfl]
        | cons a b => simp [setTop, defs, hV0']
    | brk lb =>
      cases fl <;> first | exact hfr.elim | skip
      exact Post.ok 0 (σ1, .brk lb, .null) (by simp [stmtsSK]) ⟨V0', vals1, CT1, rfl, hfr, hn1, fun h => by cases h⟩
    | cont lb =>
      cases fl <;> first | exact hfr.elim | skip
      exact Post.ok 0 (σ1, .cont lb, .null) (by simp [stmtsSK]) ⟨V0', vals1, CT1, rfl, hfr, hn1, fun h => by cases h⟩
    | ret w =>
      cases fl <;> first | exact hfr.elim | skip
      exact Post.ok 0 (σ1, .ret w, .null) (by simp [stmtsSK]) ⟨V0', vals1, CT1, rfl, hfr, hn1, fun h => by cases h⟩

theorem block_succ (f : Nat) (hf : AllOK N Φ f) :
    ∀ (A : Act) n CT V vals st σ ss l, Inv N Φ CT n st σ → Frame N A CT V vals σ → A.gh ≤ n → st.active = A.act →
    okP N Φ A.c A.gh A.nl V.flatten ss = true →
    Post (BQ N Φ A n CT σ V ss) (fun k => Core.Fn.evalP Φ k A.cx σ ss) (run (Ref.evalBlock (f+1) (envOf N A V vals) (.mk l (toStmtsF N A.c ss))) st) := by
  intro A n CT V vals st σ ss l hI hF hgh hL hok
  rw [evalBlock_succ]
  have h := hf.P A n CT ([] :: V) vals st σ ss .null hI hF.push hgh hL (by simpa using hok) (fun _ => rfl)
  refine Res.bind h id ?_
  rintro ⟨fl, v, env'⟩ s1 ⟨k, ⟨σ1, fl', bv⟩, hk, V0', vals1, CT1, henv, hfr, hn1, hnorm⟩
  have henv' : env' = envOf N A (V0' :: V) vals1 := henv
  subst henv'
  exact Post.ok k (σ1, fl', bv) hk ⟨vals1, CT1, rfl, hfr,
    hn1.same rfl hn1.act hn1.inv (Frame.pop (V0 := V0') hn1.frame (fun hd => (hF.infn hd).2.2)), fun h => (hnorm h).2⟩

theorem mono_loopSK (cx : Option (FnDef × Nat)) (lbl : Option String) (loop : FStmt) (q : Sto × FFlow × Val) :
    FMono (fun k => loopSK Φ k cx lbl loop q) := by
  cases h : Core.Fn.floopAct lbl q.2.1 <;> simp only [loopSK, h]
  · exact mono_S _ _ _ _
  · exact FMono.const _
  · exact FMono.const _

theorem mkLoopF_normalOK (l : Nat) (lbl : Option String) (cond : Option FExpr) (body : List FStmt) :
    NormalOK [mkLoopF l lbl cond body] .null := by
  cases cond <;> exact ⟨rfl, fun _ => rfl⟩

/-- the body of a loop, then what the loop does with the flow -/
theorem loop_body_ok {f : Nat} (hf : AllOK N Φ f) (A : Act) (n : Nat) (CT : CTab) (V : List (List Nat)) (vals : LS) (st : St) (σ : Sto)
    (l : Nat) (lbl : Option String) (cond : Option FExpr) (body : List FStmt)
    (hI : Inv N Φ CT n st σ) (hF : Frame N A CT V vals σ) (hgh : A.gh ≤ n) (hL : st.active = A.act)
    (hc : condOKF N Φ A.c A.gh A.nl V.flatten cond = true) (hb : okP N Φ A.c A.gh A.nl V.flatten body = true) :
    Post (BQ N Φ A n CT σ V [mkLoopF l lbl cond body])
      (fun k => (Core.Fn.evalP Φ k A.cx σ body).bind (loopSK Φ k A.cx lbl (mkLoopF l lbl cond body)))
      (run (evalBlock f (envOf N A V vals) (.mk l (toStmtsF N A.c body)) >>=
        loopBodyK f lbl (cond.map (toAstF N A.c)) (.mk l (toStmtsF N A.c body))) st) := by
  refine Post.bind (mono_P _ _ _ _) (fun q => mono_loopSK _ _ _ q) (hf.B A n CT V vals st σ body l hI hF hgh hL hb) ?_
  rintro ⟨fl, v, env1⟩ ⟨σ1, fl', bv⟩ s1 ⟨vals1, CT1, henv, hfr, hn1, -⟩
  have henv' : env1 = envOf N A V vals1 := henv
  subst henv'
  have hN0 := mkLoopF_normalOK l lbl cond body
  have again : Core.Fn.floopAct lbl fl' = .again →
      Post (BQ N Φ A n CT σ V [mkLoopF l lbl cond body]) (fun k => loopSK Φ k A.cx lbl (mkLoopF l lbl cond body) (σ1, fl', bv))
        (run (evalLoop f (envOf N A V vals1) lbl (cond.map (toAstF N A.c)) (.mk l (toStmtsF N A.c body))) s1) := by
    intro hact
    refine Post.congr (ev' := fun k => Core.Fn.evalS Φ k A.cx σ1 (mkLoopF l lbl cond body)) (fun k => by simp [loopSK, hact]) ?_
    refine Post.mono ?_ (hf.L A n CT1 V vals1 s1 σ1 l lbl cond body hn1.inv hn1.frame hgh hn1.act hc hb)
    rintro r y s ⟨vals2, CT2, h1, h2, hn2, h4⟩
    exact ⟨vals2, CT2, h1, h2, hn1.trans hn2, h4⟩
  cases fl' with
  | normal =>
    cases fl <;> first | exact hfr.elim | skip
    exact again rfl
  | brk lb =>
    cases fl <;> first | exact hfr.elim | skip
    have hlb : _ = lb := hfr
    subst hlb
    show Post _ _ (run (if labelMatches lbl _ then _ else _) s1)
    rw [labelMatches_eq]
    cases ht : Core.targets lbl _ with
    | true =>
      simp only [if_true]
      exact Post.ok 0 (σ1, .normal, .null) (by simp [loopSK, Core.Fn.floopAct, ht])
        ⟨vals1, CT1, rfl, True.intro, hn1, fun _ => ⟨VR.scalar rfl, hN0⟩⟩
    | false =>
      simp only [Bool.false_eq_true, if_false]
      exact Post.ok 0 (σ1, .brk _, .null) (by simp [loopSK, Core.Fn.floopAct, ht])
        ⟨vals1, CT1, rfl, rfl, hn1, fun h => by cases h⟩
  | cont lb =>
    cases fl <;> first | exact hfr.elim | skip
    have hlb : _ = lb := hfr
    subst hlb
    show Post _ _ (run (if labelMatches lbl _ then _ else _) s1)
    rw [labelMatches_eq]
    cases ht : Core.targets lbl _ with
    | true =>
      simp only [if_true]
      exact again (by simp [Core.Fn.floopAct, ht])
    | false =>
      simp only [Bool.false_eq_true, if_false]
      exact Post.ok 0 (σ1, .cont _, .null) (by simp [loopSK, Core.Fn.floopAct, ht])
        ⟨vals1, CT1, rfl, rfl, hn1, fun h => by cases h⟩
  | ret w =>
    cases fl <;> first | exact hfr.elim | skip
    exact Post.ok 0 (σ1, .ret w, .null) (by simp [loopSK, Core.Fn.floopAct])
      ⟨vals1, CT1, rfl, hfr, hn1, fun h => by cases h⟩

theorem loop_succ (f : Nat) (hf : AllOK N Φ f) :
    ∀ (A : Act) n CT V vals st σ l lbl cond body, Inv N Φ CT n st σ → Frame N A CT V vals σ → A.gh ≤ n → st.active = A.act →
    condOKF N Φ A.c A.gh A.nl V.flatten cond = true → okP N Φ A.c A.gh A.nl V.flatten body = true →
    Post (BQ N Φ A n CT σ V [mkLoopF l lbl cond body]) (fun k => Core.Fn.evalS Φ k A.cx σ (mkLoopF l lbl cond body))
      (run (Ref.evalLoop (f+1) (envOf N A V vals) lbl (cond.map (toAstF N A.c)) (.mk l (toStmtsF N A.c body))) st) := by
  intro A n CT V vals st σ l lbl cond body hI hF hgh hL hc hb
  rw [evalLoop_succ]
  cases cond with
  | none =>
    simp only [Option.map_none, loopCond, pure_bind]
    refine Post.shift (fS_zero _ _ _ _) (fun k => fS_loop Φ k A.cx σ l lbl body) ?_
    exact loop_body_ok hf A n CT V vals st σ l lbl none body hI hF hgh hL rfl hb
  | some c =>
    simp only [Option.map_some, loopCond, bind_assoc]
    refine Post.shift (fS_zero _ _ _ _) (fun k => fS_while Φ k A.cx σ l lbl c body) ?_
    refine Post.bind (mono_E _ _ _ _)
      (fun p => FMono.ite (FMono.const _) (FMono.bind (mono_P _ _ _ _) (fun q => mono_loopSK _ _ _ q)))
      (hf.E' A n CT V vals st σ c hI hF hgh hL hc) ?_
    rintro r ⟨wc, σ1⟩ s1 ⟨vc, vals1, CT1, rfl, hvc, hn1⟩
    simp only [condK, bind_assoc, pure_bind]
    refine Post.truthy hn1.inv.heap hvc _ ?_
    cases hfal : Core.Fn.falseyH σ1.a wc with
    | true =>
      simp only [Bool.not_true]
      exact Post.ok 0 (σ1, .normal, .null) (by simp [hfal])
        ⟨vals1, CT1, rfl, True.intro, hn1, fun _ => ⟨VR.scalar rfl, mkLoopF_normalOK l lbl (some c) body⟩⟩
    | false =>
      simp only [Bool.not_false]
      refine Post.congr (ev' := fun k => (Core.Fn.evalP Φ k A.cx σ1 body).bind (loopSK Φ k A.cx lbl (mkLoopF l lbl (some c) body)))
        (fun k => by simp [hfal, mkLoopF]) ?_
      refine Post.mono ?_ (loop_body_ok hf A n CT1 V vals1 s1 σ1 l lbl (some c) body hn1.inv hn1.frame hgh hn1.act hc hb)
      rintro r y s ⟨vals2, CT2, h1, h2, hn2, h4⟩
      exact ⟨vals2, CT2, h1, h2, hn1.trans hn2, h4⟩

end Main

/-! ## calls -/

def retKV (c : RClos) : Flow × Val × Env → M Val
  | (flow, v, _) =>
    match flow with
    | .ret r => pure r
    | .normal =>
      match c.body.stmts.getLast? with
      | some (.exprS ..) => pure v
      | some (.letS ..) | some (.fnS ..) | some (.ret ..) | none => pure .null
      | _ => pure (.other "poison")
    | _ => throw .unc

def callEnv (c : RClos) (vf : Val) (vargs : List Val) : Env :=
  [((c.params.zip vargs).map fun (n, v) => (n, Bind.l v)).reverse,
   (if c.name == "" then [] else [(c.name, .cap vf)]),
   (selfKey, .cap vf) :: c.captured]

theorem run_get_bind {β : Type} (K : St → M β) (s : St) : run (get >>= K) s = run (K s) s := rfl

/-- the end of an activation: its closure id leaves the list of the running ones -/
def popActive : M Unit := modify fun s => { s with active := s.active.tail }

theorem run_modify_bind {β : Type} (g : St → St) (K : Unit → M β) (s : St) : run (modify g >>= K) s = run (K ()) (g s) := rfl

theorem run_callValue_clos (f l : Nat) (a : FnDef) (b : List Val) (id : Nat) (vargs : List Val) (st : St) (c : RClos)
    (hc : st.clos[id - 1]? = some c) :
    run (callValue (f+1) l (.clos a b id) vargs) st =
      if c.params.length != vargs.length then (.error (.rt l), st)
      else run (evalBlock f (callEnv c (.clos a b id) vargs) c.body >>= fun r => popActive >>= fun _ => retKV c r)
        { st with active := id :: st.active } := by
  rw [callValue]
  rw [run_get_bind]
  simp only [hc]
  by_cases hlen : (c.params.length != vargs.length) = true
  · simp only [hlen, if_true]
    rfl
  · simp only [hlen, Bool.false_eq_true, if_false]
    rw [run_modify_bind]
    refine congrArg (fun m => run m _) (bind_congr_fun ?_)
    rintro ⟨fl, v, e⟩
    cases fl <;> rfl

theorem run_callValue_scalar (f l : Nat) (v : Val) (vargs : List Val) (st : St) (hs : isScalar v = true) :
    run (callValue (f+1) l v vargs) st = (.error (.rt l), st) := by
  cases v <;> first | (simp [isScalar] at hs; done) | (rw [callValue] <;> first | rfl | (intros; contradiction) | (intro h; cases h))

theorem run_callValue_arr (f l id : Nat) (xs : List Val) (vargs : List Val) (st : St) :
    run (callValue (f+1) l (.arr id xs) vargs) st = (.error (.rt l), st) := by
  rw [callValue] <;> first | rfl | (intros; contradiction) | (intro h; cases h)

theorem callF_scalar (Φ : FnDef → Option FDecl) (k : Nat) (v : Val) (ws : List Val) (σ : Sto) (hs : isScalar v = true) :
    callF Φ k v ws σ = none := by
  cases v <;> first | (simp [isScalar] at hs; done) | rfl

theorem getLast_toStmtsF (N : Names) (c : Ctx) : ∀ ss : List FStmt, (toStmtsF N c ss).getLast? = ss.getLast?.map (toStmtF N c)
  | [] => rfl
  | [s] => rfl
  | s :: s2 :: r => by
    have ih := getLast_toStmtsF N c (s2 :: r)
    simp only [toStmtsF, List.getLast?_cons_cons] at ih ⊢
    exact ih

theorem retKV_normal (N : Names) (cx : Ctx) (c : RClos) (ss : List FStmt) (v : Val) (e : Env)
    (hb : c.body.stmts = toStmtsF N cx ss) (hl : lastOK ss = true) (hr : lastRet ss = false) :
    retKV c (.normal, v, e) = pure (if lastExpr ss then v else .null) := by
  unfold retKV
  simp only
  rw [hb, getLast_toStmtsF]
  unfold lastOK at hl
  unfold lastRet at hr
  unfold lastExpr
  cases hg : ss.getLast? with
  | none => rfl
  | some s =>
    rw [hg] at hl hr
    cases s <;> simp [FStmt.isRet] at hl hr <;> rfl

theorem param_scope (N : Names) (d np : Nat) (vargs : List Val) (h : vargs.length = np) :
    (((params N d np).zip vargs).map fun (p : String × Val) => (p.1, Bind.l p.2)).reverse =
      mkScope (N.ln d) (fun i => vargs.getD i .null) (paramVis np) := by
  unfold mkScope paramVis params
  rw [List.map_reverse]
  congr 1
  apply List.ext_getElem
  · simp [h]
  · intro i h1 h2
    simp only [List.length_map, List.length_zip, List.length_range] at h1 h2
    simp [List.getD_eq_getElem?_getD, List.getElem?_eq_getElem (show i < vargs.length by omega)]

def selfScope (c : RClos) (vf : Val) : Scope := if c.name == "" then [] else [(c.name, .cap vf)]

theorem lookup_base (c : RClos) (vf : Val) (name : String) (b : Bind) (h1 : name ≠ c.name) (h2 : name ≠ selfKey)
    (h : lookupScope name c.captured = some b) :
    lookupEnv name [selfScope c vf, (selfKey, .cap vf) :: c.captured] = some b := by
  have hs : lookupScope name (selfScope c vf) = none := by
    unfold selfScope
    split
    · rfl
    · simp [lookupScope, Ne.symm h1]
  simp [lookupEnv, hs, lookupScope, Ne.symm h2, h]

theorem lookup_selfKey (c : RClos) (vf : Val) (h : c.name ≠ selfKey) :
    lookupEnv selfKey [selfScope c vf, (selfKey, .cap vf) :: c.captured] = some (.cap vf) := by
  have hs : lookupScope selfKey (selfScope c vf) = none := by
    unfold selfScope
    split
    · rfl
    · simp [lookupScope, h]
  simp [lookupEnv, hs, lookupScope]

theorem lookup_self (c : RClos) (vf : Val) (h : c.name ≠ "") :
    lookupEnv c.name [selfScope c vf, (selfKey, .cap vf) :: c.captured] = some (.cap vf) := by
  simp [lookupEnv, selfScope, h, lookupScope]

theorem callF_none (Φ : FnDef → Option FDecl) (k : Nat) (fd : FnDef) (fr : List Val) (id : Nat) (ws : List Val) (σ : Sto) (d : FDecl)
    (hΦ : Φ fd = some d) (hl : ws.length = d.np)
    (h : Core.Fn.evalP Φ k (some (fd, id)) (σ.enter (ws ++ List.replicate (d.nl - d.np) .null)) d.body = none) :
    callF Φ k (.clos fd fr id) ws σ = none := by
  unfold callF; simp only [hΦ]; rw [if_pos hl, h]

theorem callF_ret (Φ : FnDef → Option FDecl) (k : Nat) (fd : FnDef) (fr : List Val) (id : Nat) (ws : List Val) (σ σ3 : Sto) (d : FDecl) (v x : Val)
    (hΦ : Φ fd = some d) (hl : ws.length = d.np)
    (h : Core.Fn.evalP Φ k (some (fd, id)) (σ.enter (ws ++ List.replicate (d.nl - d.np) .null)) d.body = some (σ3, .ret v, x)) :
    callF Φ k (.clos fd fr id) ws σ = some (v, σ.back σ3) := by
  unfold callF; simp only [hΦ]; rw [if_pos hl, h]

theorem callF_normal (Φ : FnDef → Option FDecl) (k : Nat) (fd : FnDef) (fr : List Val) (id : Nat) (ws : List Val) (σ σ3 : Sto) (d : FDecl) (bv : Val)
    (hΦ : Φ fd = some d) (hl : ws.length = d.np)
    (h : Core.Fn.evalP Φ k (some (fd, id)) (σ.enter (ws ++ List.replicate (d.nl - d.np) .null)) d.body = some (σ3, .normal, bv)) :
    callF Φ k (.clos fd fr id) ws σ = some (bv, σ.back σ3) := by
  unfold callF; simp only [hΦ]; rw [if_pos hl, h]

theorem callF_arity (Φ : FnDef → Option FDecl) (k : Nat) (fd : FnDef) (fr : List Val) (id : Nat) (ws : List Val) (σ : Sto) (d : FDecl)
    (hΦ : Φ fd = some d) (hl : ¬ ws.length = d.np) : callF Φ k (.clos fd fr id) ws σ = none := by
  unfold callF; simp only [hΦ]; rw [if_neg hl]

section Call
variable {N : Names} {Φ : FnDef → Option FDecl} (hN : NamesOK N)

include hN in
theorem call_succ (f : Nat) (hf : AllOK N Φ f) :
    ∀ n CT st σ l vf wf vargs wargs, Inv N Φ CT n st σ → VR CT vf wf → VRs CT vargs wargs →
    Post (CQ N Φ n CT σ st.active) (fun k => callF Φ k wf wargs σ) (run (Ref.callValue (f+1) l vf vargs) st) := by
  intro n CT st σ l vf wf vargs wargs hI hvf hargs
  rcases hvf.cases3 with ⟨hn, ho⟩ | ⟨id, h0, rfl, rfl⟩
  rotate_left
  · rw [run_callValue_arr]; intro k; rfl
  rcases ho with ⟨hs, rfl⟩ | ⟨k, fd, hid, rfl, rfl, hk⟩
  · rw [run_callValue_scalar _ _ _ _ _ hs]
    intro k; exact callF_scalar Φ k _ _ _ hs
  · obtain ⟨e, he, hfd, hhid⟩ := oldCT_get hk
    obtain ⟨cx, gh, he'⟩ : ∃ cx gh, CT[k]? = some ⟨fd, hid, cx, gh⟩ := ⟨e.cx, e.gh, by rw [he, ← hfd, ← hhid]⟩
    obtain ⟨c, hc, d, hΦ, hname, hparams, hbody, hdepth, hnpnl, hghn, hokb, hlast, hglob, hfrees, hlnself, hselfkey, hfnd⟩ := hI.clos k _ he'
    dsimp only at hΦ hname hparams hbody hdepth hghn hokb hglob hfrees hlnself hselfkey hfnd
    rw [run_callValue_clos f l emptyFn [] (k+1) vargs st c (by simpa using hc)]
    have hplen : c.params.length = d.np := by rw [hparams]; simp [params]
    have hlen := hargs.length
    by_cases hne : vargs.length = d.np
    · have hb0 : (c.params.length != vargs.length) = false := by simp [hplen, hne]
      rw [hb0]
      simp only [Bool.false_eq_true, if_false]
      have hwl : wargs.length = d.np := by omega
      have hvfr : VR CT (.clos emptyFn [] (k+1)) (.clos fd [] hid) := .inr (.inl ⟨k, fd, hid, rfl, rfl, hk⟩)
      have henv : callEnv c (.clos emptyFn [] (k+1)) vargs =
          envOf N ⟨cx, gh, d.nl, some (fd, hid), (k + 1) :: st.active⟩ [paramVis d.np]
            ⟨fun i => vargs.getD i .null, [selfScope c (.clos emptyFn [] (k+1)), (selfKey, .cap (.clos emptyFn [] (k+1))) :: c.captured]⟩ := by
        unfold callEnv envOf mkEnv
        rw [hparams, param_scope N cx.depth d.np vargs hne]
        rfl
      have hcn : c.name ≠ selfKey := by rw [hname]; exact hselfkey
      have hF' : Frame N ⟨cx, gh, d.nl, some (fd, hid), (k + 1) :: st.active⟩ CT [paramVis d.np]
          ⟨fun i => vargs.getD i .null, [selfScope c (.clos emptyFn [] (k+1)), (selfKey, .cap (.clos emptyFn [] (k+1))) :: c.captured]⟩
          (σ.enter (wargs ++ List.replicate (d.nl - d.np) .null)) := by
        refine ⟨?_, ?_, ?_, ?_, ?_, ?_, hfnd, ?_, ?_, ?_⟩
        · simp only [paramVis, List.flatten_cons, List.flatten_nil, List.append_nil]
          exact (List.reverse_perm _).nodup_iff.mpr List.nodup_range
        · intro i hi
          have hi' : i < d.np := by simpa [paramVis] using hi
          obtain ⟨w, hw, hvr⟩ := hargs.get i (by omega)
          exact ⟨w, by simp [List.getElem?_append_left (show i < wargs.length by omega), hw], hvr⟩
        · simp; omega
        · intro j hj
          obtain ⟨h1, h2⟩ := hglob j hj
          exact lookup_base c _ _ _ (by rw [hname]; exact h1) (hN.gn_key j) h2
        · intro hs
          refine ⟨hlnself, hselfkey, fun j hj => (hglob j hj).1, _, fd, hid, ?_, rfl, hvfr⟩
          show lookupEnv cx.self _ = _
          rw [← hname]
          exact lookup_self c _ (by rw [hname]; exact hs)
        · intro j name hj
          obtain ⟨a1, a2, a3, a4, a5, v, w, b1, b2, b3⟩ := hfrees j name hj
          exact ⟨a1, a4, a3, a2, a5, v, w, fd, hid, rfl, lookup_base c _ _ _ (by rw [hname]; exact a2) a3 b1, b2, b3⟩
        · intro _
          exact ⟨⟨_, rfl⟩, by simp [isGlobalEnv], by simp⟩
        · intro h0
          exact absurd h0 (Nat.ne_of_gt hdepth)
        · intro fd' hid' hcx
          cases hcx
          exact ⟨k, he', List.mem_cons_self, lookup_selfKey c _ hcn⟩
      have hI' : Inv N Φ CT n { st with active := (k + 1) :: st.active } (σ.enter (wargs ++ List.replicate (d.nl - d.np) .null)) :=
        Inv.of_gh (σ := σ) rfl rfl rfl (hI.of_active _)
      have hbody' : c.body = .mk c.body.line (toStmtsF N cx d.body) := by
        cases hcb : c.body with
        | mk bl bs =>
          rw [hcb] at hbody
          simp only [Block.stmts] at hbody
          rw [hbody]; rfl
      rw [henv, hbody']
      have hb := hf.B _ n CT [paramVis d.np] _ { st with active := (k + 1) :: st.active } _ d.body c.body.line hI' hF' hghn rfl (by simpa using hokb)
      refine Res.bind hb ?_ ?_
      · intro h k'
        exact callF_none Φ k' fd [] hid wargs σ d hΦ hwl (h k')
      · rintro ⟨fl, v, env'⟩ s1 ⟨k', ⟨σ3, fl', bv⟩, hk', vals1, CT1, henv1, hfr, hn1, hnorm⟩
        have hk'' : Core.Fn.evalP Φ k' (some (fd, hid)) (σ.enter (wargs ++ List.replicate (d.nl - d.np) .null)) d.body = some (σ3, fl', bv) := hk'
        have hunAll : UnchAll CT st.active σ.h (σ.back σ3).h := by
          intro k2 e2 hk2 hl2
          refine hn1.unch k2 e2 hk2 (List.mem_cons_of_mem _ hl2) ?_
          by_cases hhid2 : e2.hid = hid
          · right
            have hkk : k2 = k := hI.hidInj k2 k e2 _ hk2 he' hhid2
            subst hkk
            show 2 ≤ ((k2 + 1) :: st.active).count (k2 + 1)
            have := List.count_pos_iff.mpr hl2
            simp only [List.count_cons_self]
            omega
          · left
            intro fd' hid' hcx'
            cases hcx'
            exact fun e => hhid2 e.symm
        have hactpop : ({ s1 with active := s1.active.tail } : St).active = st.active := by
          show s1.active.tail = st.active
          rw [hn1.act]
          rfl
        have hI3 : Inv N Φ CT1 n { s1 with active := s1.active.tail } (σ.back σ3) :=
          Inv.of_gh (σ := σ3) rfl rfl rfl (hn1.inv.of_active _)
        show Res _ _ (run (popActive >>= fun _ => retKV c (fl, v, env')) s1)
        unfold popActive
        rw [run_modify_bind]
        cases fl' with
        | normal =>
          cases fl <;> first | exact hfr.elim | skip
          obtain ⟨hvr, hN1, hN2⟩ := hnorm rfl
          rw [retKV_normal N cx c d.body v env' hbody hlast hN1]
          refine Post.ok k' (bv, σ.back σ3) (callF_normal Φ k' fd [] hid wargs σ σ3 d bv hΦ hwl hk'') ⟨CT1, ?_, hn1.ext, hn1.hlen, hunAll, hactpop, hI3, rfl⟩
          cases hle : lastExpr d.body with
          | true => exact hvr
          | false =>
            show VR CT1 .null bv
            have hbv : bv = .null := hN2 hle
            rw [hbv]; exact VR.scalar rfl
        | ret w =>
          cases fl <;> first | exact hfr.elim | skip
          exact Post.ok k' (w, σ.back σ3) (callF_ret Φ k' fd [] hid wargs σ σ3 d w bv hΦ hwl hk'') ⟨CT1, hfr, hn1.ext, hn1.hlen, hunAll, hactpop, hI3, rfl⟩
        | brk lb =>
          cases fl <;> first | exact hfr.elim | skip
          exact True.intro
        | cont lb =>
          cases fl <;> first | exact hfr.elim | skip
          exact True.intro
    · have hb0 : (c.params.length != vargs.length) = true := by
        rw [hplen, bne_iff_ne]; omega
      rw [hb0]
      simp only [if_true]
      intro k'
      exact callF_arity Φ k' fd [] hid wargs σ d hΦ (by omega)

include hN in
theorem all_ok : ∀ fuel, AllOK N Φ fuel := by
  intro fuel
  induction fuel using Nat.strongRecOn with
  | ind fuel ih =>
    cases fuel with
    | zero => exact all_zero N Φ
    | succ f =>
      have ihf := ih f (Nat.lt_succ_self f)
      have ih' : ∀ f', f' ≤ f → AllOK N Φ f' := fun f' h => ih f' (Nat.lt_succ_of_le h)
      exact ⟨expr_succ hN f ih', arms_succ f ih', args_succ hN f ihf, stmt_succ hN f ih', stmts_succ f ihf, block_succ f ihf, loop_succ f ihf, call_succ hN f ihf⟩

/-! ## the theorems (Stage A: first-order functions) -/

include hN

/-- **a call of the oracle is a call of Core.Fn** (`…_partial`: function bodies of the fragment `okP` -- no
`match`, loops, function literals / captured variables, arrays, maps, builtins; bodies end in an
expression statement, an `if`, a `let`, a `return`, or are empty).  If the oracle's `callValue` on a closure of
its table yields a value, the call of the related Core.Fn function value on related arguments yields a related
value for some fuel, and the configurations are related again. -/
theorem ref_call_fn_partial {fuel n l : Nat} {CT : CTab} {st st' : St} {σ : Sto} {vf wf r : Val} {vargs wargs : List Val}
    (hI : Inv N Φ CT n st σ) (hf : VR CT vf wf) (ha : VRs CT vargs wargs)
    (h : run (Ref.callValue fuel l vf vargs) st = (.ok r, st')) :
    ∃ k w σ' CT', callF Φ k wf wargs σ = some (w, σ') ∧ VR CT' r w ∧ CT <+: CT' ∧ Inv N Φ CT' n st' σ' ∧ σ'.l = σ.l := by
  have hm := (all_ok hN fuel).C n CT st σ l vf wf vargs wargs hI hf ha
  rw [h] at hm
  obtain ⟨k, ⟨w, σ'⟩, hk, CT', h1, h2, -, -, -, h4, h5⟩ := hm
  exact ⟨k, w, σ', CT', hk, h1, h2, h4, h5⟩

/-- the oracle's runtime error in a call: no fuel makes Core.Fn's call succeed -/
theorem ref_call_fn_error_partial {fuel n l l' : Nat} {CT : CTab} {st st' : St} {σ : Sto} {vf wf : Val} {vargs wargs : List Val}
    (hI : Inv N Φ CT n st σ) (hf : VR CT vf wf) (ha : VRs CT vargs wargs)
    (h : run (Ref.callValue fuel l vf vargs) st = (.error (.rt l'), st')) :
    ∀ k, callF Φ k wf wargs σ = none := by
  have hm := (all_ok hN fuel).C n CT st σ l vf wf vargs wargs hI hf ha
  rw [h] at hm
  exact hm

/-- **expressions** (inside a function activation or at top level) -/
theorem ref_expr_fn_partial {fuel n : Nat} {A : Act} {CT : CTab} {V : List (List Nat)} {vals : LS} {st st' : St} {σ : Sto}
    {e : FExpr} {v : Val} {env' : Env}
    (hI : Inv N Φ CT n st σ) (hF : Frame N A CT V vals σ) (hgh : A.gh ≤ n) (hL : st.active = A.act) (hok : okE N Φ A.c A.gh A.nl V.flatten e = true)
    (h : run (Ref.evalE fuel (envOf N A V vals) (toAstF N A.c e)) st = (.ok (.val v env'), st')) :
    ∃ k w σ' CT' vals', Core.Fn.evalE Φ k A.cx σ e = some (w, σ') ∧ VR CT' v w ∧ env' = envOf N A V vals' ∧
      Inv N Φ CT' n st' σ' ∧ Frame N A CT' V vals' σ' := by
  have hm := (all_ok hN fuel).E' A n CT V vals st σ e hI hF hgh hL hok
  rw [h] at hm
  obtain ⟨k, ⟨w, σ'⟩, hk, v0, vals', CT', h1, h2, h3⟩ := hm
  cases h1
  exact ⟨k, w, σ', CT', vals', hk, h2, rfl, h3.inv, h3.frame⟩

theorem ref_expr_fn_error_partial {fuel n l : Nat} {A : Act} {CT : CTab} {V : List (List Nat)} {vals : LS} {st st' : St} {σ : Sto}
    {e : FExpr}
    (hI : Inv N Φ CT n st σ) (hF : Frame N A CT V vals σ) (hgh : A.gh ≤ n) (hL : st.active = A.act) (hok : okE N Φ A.c A.gh A.nl V.flatten e = true)
    (h : run (Ref.evalE fuel (envOf N A V vals) (toAstF N A.c e)) st = (.error (.rt l), st')) :
    ∀ k, Core.Fn.evalE Φ k A.cx σ e = none := by
  have hm := (all_ok hN fuel).E' A n CT V vals st σ e hI hF hgh hL hok
  rw [h] at hm
  exact hm

/-- **statement lists**: the flows are related (`return v` carries related values), the value of the list is
related when the flow is normal -/
theorem ref_stmts_fn_partial {fuel n : Nat} {A : Act} {CT : CTab} {V : List (List Nat)} {vals : LS} {st st' : St} {σ : Sto}
    {ss : List FStmt} {fl : Flow} {v : Val} {env' : Env}
    (hI : Inv N Φ CT n st σ) (hF : Frame N A CT V vals σ) (hgh : A.gh ≤ n) (hL : st.active = A.act) (hok : okP N Φ A.c A.gh A.nl V.flatten ss = true)
    (h : run (Ref.evalStmts fuel (envOf N A V vals) (toStmtsF N A.c ss) .null) st = (.ok (fl, v, env'), st')) :
    ∃ k σ' fl' bv CT', Core.Fn.evalP Φ k A.cx σ ss = some (σ', fl', bv) ∧ FR CT' fl fl' ∧ (fl' = .normal → VR CT' v bv) ∧
      Inv N Φ CT' n st' σ' := by
  have hm := (all_ok hN fuel).P A n CT V vals st σ ss .null hI hF hgh hL hok (fun _ => rfl)
  rw [h] at hm
  obtain ⟨k, ⟨σ', fl', bv⟩, hk, V0', vals', CT', h1, h2, h3, h4⟩ := hm
  exact ⟨k, σ', fl', bv, CT', hk, h2, fun hn => (h4 hn).2.1, h3.inv⟩

theorem ref_stmts_fn_error_partial {fuel n l : Nat} {A : Act} {CT : CTab} {V : List (List Nat)} {vals : LS} {st st' : St} {σ : Sto}
    {ss : List FStmt}
    (hI : Inv N Φ CT n st σ) (hF : Frame N A CT V vals σ) (hgh : A.gh ≤ n) (hL : st.active = A.act) (hok : okP N Φ A.c A.gh A.nl V.flatten ss = true)
    (h : run (Ref.evalStmts fuel (envOf N A V vals) (toStmtsF N A.c ss) .null) st = (.error (.rt l), st')) :
    ∀ k, Core.Fn.evalP Φ k A.cx σ ss = none := by
  have hm := (all_ok hN fuel).P A n CT V vals st σ ss .null hI hF hgh hL hok (fun _ => rfl)
  rw [h] at hm
  exact hm

end Call

/-! ## whole programs: top-level statements and function definitions against `evalT` -/

/-- `f = fn(…) {…};` at top level is the expression statement that assigns a function literal without captured variables -/
def fnSetStmt (ls l gi : Nat) (code lines : List Nat) (d : FDecl) : FStmt :=
  .expr ls (.gset l gi (.mkclos d.line code lines d.np d.nl d.body []))

theorem toTop_fnSet (N : Names) (ls l gi : Nat) (code lines : List Nat) (d : FDecl) :
    toTop N (.fnSet ls l gi code lines d) = toStmtF N topCtx (fnSetStmt ls l gi code lines d) := rfl

open Classical in
/-- programs covered: `let` at top level defines the next global slot; `fn f(…) {…}` / `let f = fn…` (`FTop.fnDef`)
defines the next global slot, its body refers to earlier globals and to itself by its own name; every other
top-level statement is in the fragment `okS` (no `let` inside top-level blocks); `f = fn…` (`fnSet`) is excluded -/
noncomputable def okTop (N : Names) (Φ : FnDef → Option FDecl) (G : Nat) : Nat → List FTop → Bool
  | _, [] => true
  | n, .stmt s :: rest =>
    (match s with
     | .letG _ i e => (i == n) && decide (n < G) && okE N Φ topCtx n 0 [] e && okTop N Φ G (n + 1) rest
     | s => okS N Φ topCtx n 0 [] s && okTop N Φ G n rest)
  | n, .fnDef _ gi code lines d :: rest =>
    (gi == n) && decide (n < G) && decide (Φ (mkFd code lines d) = some d) && decide (d.np ≤ d.nl) &&
    okP N Φ (fnCtx N gi) n d.nl (paramVis d.np) d.body && lastOK d.body && okTop N Φ G (n + 1) rest
  | n, .fnSet ls l gi code lines d :: rest =>
    okS N Φ topCtx n 0 [] (fnSetStmt ls l gi code lines d) && okTop N Φ G n rest

/-- one top-level item of `evalT` -/
def stepT (Φ : FnDef → Option FDecl) (g : List Val) (h : List (List Val)) (a : Heap) : FTop → Nat → Option (List Val × List (List Val) × Heap)
  | .stmt s, k =>
    (match Core.Fn.evalS Φ k none ⟨[], g, h, a⟩ s with
     | some (σ1, .normal, _) => some (σ1.g, σ1.h, σ1.a)
     | _ => none)
  | .fnDef _ gi code lines d, _ => if gi < g.length then some (g.set gi (.clos (mkFd code lines d) [] h.length), h ++ [[]], a) else none
  | .fnSet _ _ gi code lines d, _ => if gi < g.length then some (g.set gi (.clos (mkFd code lines d) [] h.length), h ++ [[]], a) else none

theorem evalT_cons (Φ : FnDef → Option FDecl) (k : Nat) (g : List Val) (h : List (List Val)) (a : Heap) (t : FTop) (rest : List FTop) :
    Core.Fn.evalT Φ k g h a (t :: rest) = (stepT Φ g h a t k).bind fun y => Core.Fn.evalT Φ k y.1 y.2.1 y.2.2 rest := by
  cases t with
  | stmt s =>
    simp only [Core.Fn.evalT, stepT]
    cases Core.Fn.evalS Φ k none ⟨[], g, h, a⟩ s with
    | none => rfl
    | some q => obtain ⟨σ1, fl, v⟩ := q; cases fl <;> rfl
  | fnDef l gi code lines d =>
    simp only [Core.Fn.evalT, stepT]
    split <;> rfl
  | fnSet ls l gi code lines d =>
    simp only [Core.Fn.evalT, stepT]
    split <;> rfl

theorem stepT_fnSet_eq (Φ : FnDef → Option FDecl) (g : List Val) (h : List (List Val)) (a : Heap) (ls l gi : Nat) (code lines : List Nat)
    (d : FDecl) (k k' : Nat) :
    stepT Φ g h a (.stmt (fnSetStmt ls l gi code lines d)) (k + 3) = stepT Φ g h a (.fnSet ls l gi code lines d) k' := by
  cases d with
  | mk np nl body line =>
    by_cases hgi : gi < g.length <;>
      simp [stepT, fnSetStmt, Core.Fn.evalS, Core.Fn.evalE, Core.Fn.capVals, mkFd, hgi]

theorem mono_stepT (Φ : FnDef → Option FDecl) (g : List Val) (h : List (List Val)) (a : Heap) (t : FTop) : FMono (stepT Φ g h a t) := by
  intro k k' r hle hk
  cases t with
  | stmt s =>
    simp only [stepT] at hk ⊢
    cases hs : Core.Fn.evalS Φ k none ⟨[], g, h, a⟩ s with
    | none => simp [hs] at hk
    | some q => rw [(mono_all Φ k).S _ _ _ q k' hle hs]; rw [hs] at hk; exact hk
  | fnDef l gi code lines d => exact hk
  | fnSet ls l gi code lines d => exact hk

theorem mono_evalT (Φ : FnDef → Option FDecl) : ∀ (T : List FTop) (g : List Val) (h : List (List Val)) (a : Heap),
    FMono (fun k => Core.Fn.evalT Φ k g h a T)
  | [], g, h, a => fun k k' r _ hk => by simpa [Core.Fn.evalT] using hk
  | t :: rest, g, h, a => by
    have := FMono.bind (mono_stepT Φ g h a t) (fun y => mono_evalT Φ rest y.1 y.2.1 y.2.2)
    intro k k' r hle hk
    have hk' : Core.Fn.evalT Φ k g h a (t :: rest) = some r := hk
    rw [evalT_cons] at hk'
    show Core.Fn.evalT Φ k' g h a (t :: rest) = some r
    rw [evalT_cons]
    exact this k k' r hle hk'

section Top
variable {N : Names} {Φ : FnDef → Option FDecl} (hN : NamesOK N) (G : Nat)

/-- the configuration between two top-level items: `n` globals defined, each bound by reference in the global scope -/
structure TopR (N : Names) (Φ : FnDef → Option FDecl) (G n : Nat) (base : Env) (CT : CTab) (st : St)
    (g : List Val) (h : List (List Val)) (a : Heap) : Prop where
  inv : Inv N Φ CT n st ⟨[], g, h, a⟩
  gl : g.length = G
  glob : isGlobalEnv base = true
  bound : ∀ j, j < n → lookupEnv (N.gn j) base = some (.g j)
  act : st.active = []

def topAct (n : Nat) : Act := ⟨topCtx, n, 0, none, []⟩

theorem TopR.frame {n : Nat} {base : Env} {CT : CTab} {st : St} {g : List Val} {h : List (List Val)} {a : Heap}
    (hr : TopR N Φ G n base CT st g h a) (vals : Nat → Val) : Frame N (topAct n) CT [] ⟨vals, base⟩ ⟨[], g, h, a⟩ :=
  ⟨by simp, by simp, rfl, hr.bound, fun hs => absurd rfl hs, fun j name hj => by simp [topAct, topCtx] at hj,
   by simp [topAct, topCtx], fun hd => absurd hd (Nat.lt_irrefl 0), fun _ => ⟨hr.glob, rfl⟩, fun fd hid hcx => by cases hcx⟩

/-- a new global: cell `n` of the oracle, slot `n` of Core.Fn -/
theorem Inv.defGlobal {CT : CTab} {n : Nat} {st : St} {σ : Sto} {v w : Val} (hI : Inv N Φ CT n st σ) (hv : VR CT v w)
    (hn : n < σ.g.length) :
    Inv N Φ CT (n + 1) { st with cells := st.cells ++ [v], sites := (n, n) :: st.sites } (σ.gset n w) := by
  refine ⟨hI.closLen, ?_, by simp [hI.cellsLen], by simp; omega, ?_, ?_, hI.heap, hI.hidInj, hI.hidLt, hI.keyed⟩
  · intro k e hk
    obtain ⟨c, hc, he⟩ := hI.clos k e hk
    exact ⟨c, hc, he.mono (List.prefix_refl _) rfl (Nat.le_succ n)⟩
  · intro j hj
    by_cases hjn : j = n
    · subst hjn
      refine ⟨v, w, ?_, by simp [hn], hv⟩
      show (st.cells ++ [v])[j]? = some v
      rw [← hI.cellsLen]; simp
    · have hj' : j < n := by omega
      obtain ⟨v0, w0, h1, h2, h3⟩ := hI.cells j hj'
      refine ⟨v0, w0, ?_, by simp [List.getElem?_set_ne (Ne.symm hjn), h2], h3⟩
      show (st.cells ++ [v])[j]? = some v0
      rw [List.getElem?_append_left (by rw [hI.cellsLen]; exact hj')]; exact h1
  · intro i hi
    show ((n, n) :: st.sites).find? _ = none
    rw [List.find?_cons]
    have hne : (n == i) = false := by simp; omega
    simp only [hne]
    exact hI.fresh i (by omega)

theorem run_defGlobal {β : Type} (st : St) (n : Nat) (v : Val) (K : Nat → Unit → M β) (hc : st.cells.length = n)
    (hf : st.sites.find? (·.1 == n) = none) :
    run (siteCell n >>= fun c => setCell c v >>= K c) st =
      run (K n ()) { st with cells := st.cells ++ [v], sites := (n, n) :: st.sites } := by
  rw [run_bind, run_siteCell_fresh _ _ hf]
  dsimp only
  rw [run_setCell_bind]
  dsimp only
  rw [append_set_last, hc]

include hN in
theorem TopR.bind {n : Nat} {base : Env}
    (hglob : isGlobalEnv base = true) (hbound : ∀ j, j < n → lookupEnv (N.gn j) base = some (.g j))
    {CT' : CTab} {st' : St} {g' : List Val} {h' : List (List Val)} {a' : Heap} (hact : st'.active = [])
    (hI : Inv N Φ CT' (n + 1) st' ⟨[], g', h', a'⟩) (hg : g'.length = G) :
    TopR N Φ G (n + 1) (bindTop (N.gn n) (.g n) base) CT' st' g' h' a' := by
  refine ⟨hI, hg, isGlobalEnv_bindTop _ _ _ hglob, ?_, hact⟩
  intro j hj
  rw [lookupEnv_bindTop]
  by_cases hjn : j = n
  · subst hjn; simp
  · have hne : (N.gn n == N.gn j) = false := by
      simp only [beq_eq_false_iff_ne, ne_eq]
      intro e; exact hjn (hN.gn_inj _ _ e).symm
    rw [hne]
    simp only [Bool.false_eq_true, if_false]
    exact hbound j (by omega)

def fnSK (site : Nat) (name : String) (ps : List String) (body : Block) (l : Nat) (env : Env) : M (Flow × Val × Env) :=
  siteCell site >>= fun c =>
    mkClos { name := name, params := ps, body := body, captured := captureEnv (bindTop name (.g c) env), line := l } >>= fun cl =>
      setCell c cl >>= fun _ => pure (.normal, .null, bindTop name (.g c) env)

theorem evalStmt_fnS_global (f : Nat) (env : Env) (l site : Nat) (name : String) (ps : List String) (body : Block)
    (hg : isGlobalEnv env = true) :
    evalStmt (f+1) env (.fnS l site name ps body) = fnSK site name ps body l env := by
  rw [evalStmt]
  simp only [hg, if_true]
  rfl

theorem run_fnSK (st : St) (site : Nat) (name : String) (ps : List String) (body : Block) (l : Nat) (env : Env)
    (hf : st.sites.find? (·.1 == site) = none) :
    run (fnSK site name ps body l env) st =
      (.ok (.normal, .null, bindTop name (.g st.cells.length) env),
       { st with cells := st.cells ++ [.clos emptyFn [] (st.clos.length + 1)], sites := (site, st.cells.length) :: st.sites,
                 clos := st.clos ++ [⟨name, ps, body, captureEnv (bindTop name (.g st.cells.length) env), l⟩] }) := by
  unfold fnSK
  rw [run_bind, run_siteCell_fresh _ _ hf]
  dsimp only
  rw [run_mkClos_bind, run_setCell_bind, run_pure]
  dsimp only
  rw [append_set_last]

/-- what is proved of the head of a program -/
def HeadQ (N : Names) (Φ : FnDef → Option FDecl) (G : Nat) (g : List Val) (h : List (List Val)) (a : Heap) (t : FTop) (rest : List FTop)
    (r : Flow × Val × Env) (st1 : St) : Prop :=
  r.1 = .normal → ∃ k y CT1 n1, stepT Φ g h a t k = some y ∧ TopR N Φ G n1 r.2.2 CT1 st1 y.1 y.2.1 y.2.2 ∧ okTop N Φ G n1 rest = true

include hN in
theorem head_ok (f : Nat) (t : FTop) (rest : List FTop) (n : Nat) (base : Env) (CT : CTab) (st : St) (g : List Val) (h : List (List Val)) (a : Heap)
    (hr : TopR N Φ G n base CT st g h a) (hok : okTop N Φ G n (t :: rest) = true) :
    Res (HeadQ N Φ G g h a t rest) (∀ k, stepT Φ g h a t k = none) (run (evalStmt f base (toTop N t)) st) := by
  cases f with
  | zero => rw [evalStmt_zero]; exact True.intro
  | succ f =>
  have hall := all_ok (Φ := Φ) hN
  have hI := hr.inv
  have hcl : st.cells.length = n := hI.cellsLen
  subst hcl
  cases t with
  | fnSet ls l gi code lines d =>
    simp only [okTop, Bool.and_eq_true] at hok
    have hF := hr.frame G (fun _ => Val.null)
    have hs := (hall (f+1)).S (topAct st.cells.length) st.cells.length CT [] ⟨fun _ => Val.null, base⟩ st ⟨[], g, h, a⟩
      (fnSetStmt ls l gi code lines d) hI hF (Nat.le_refl _) hr.act hok.1
    rw [toTop_fnSet]
    refine Res.mono ?_ ?_ hs
    · rintro ⟨fl, v, env1⟩ s1 ⟨k, ⟨σ1, fl', bv⟩, hk, V0', vals1, CT1, henv, hfr, hn1, -⟩ hnormal
      have hk' : Core.Fn.evalS Φ k none ⟨[], g, h, a⟩ (fnSetStmt ls l gi code lines d) = some (σ1, fl', bv) := hk
      have hfl : fl = .normal := hnormal
      subst hfl
      cases fl' <;> first | exact hfr.elim | skip
      have hI1 : Inv N Φ CT1 st.cells.length s1 σ1 := hn1.inv
      have hl1 : σ1.l.length = 0 := hn1.frame.lLen
      have hg1 : σ1.g.length = g.length := (glen_all Φ k).S _ _ _ _ _ _ hk'
      have hσ1 : σ1 = ⟨[], σ1.g, σ1.h, σ1.a⟩ := by
        cases σ1 with
        | mk l1 g1 h1 a1 =>
          have : l1 = [] := by simpa using hl1
          simp [this]
      have henv' : env1 = vals1.base := henv
      subst henv'
      have hstep : stepT Φ g h a (.stmt (fnSetStmt ls l gi code lines d)) k = some (σ1.g, σ1.h, σ1.a) := by simp [stepT, hk']
      have hstep3 := mono_stepT Φ g h a _ k (k + 3) _ (Nat.le_add_right _ _) hstep
      rw [stepT_fnSet_eq Φ g h a ls l gi code lines d k 0] at hstep3
      refine ⟨0, (σ1.g, σ1.h, σ1.a), CT1, st.cells.length, hstep3, ⟨?_, by rw [hg1]; exact hr.gl, (hn1.frame.topg rfl).1, hn1.frame.globals, hn1.act⟩, hok.2⟩
      rw [hσ1] at hI1; exact hI1
    · intro hnone k
      rw [← stepT_fnSet_eq Φ g h a ls l gi code lines d 0 k]
      simp [stepT, show Core.Fn.evalS Φ (0 + 3) none ⟨[], g, h, a⟩ (fnSetStmt ls l gi code lines d) = none from hnone 3]
  | fnDef l gi code lines d =>
    simp only [okTop, Bool.and_eq_true, beq_iff_eq, decide_eq_true_eq] at hok
    obtain ⟨⟨⟨⟨⟨⟨hgi0, hnG⟩, hΦ⟩, hnp⟩, hbody⟩, hlast⟩, hrest⟩ := hok
    subst hgi0
    rw [toTop, evalStmt_fnS_global _ _ _ _ _ _ _ hr.glob, run_fnSK _ _ _ _ _ _ _ (hI.fresh _ (Nat.le_refl _))]
    let e0 : CE := ⟨mkFd code lines d, h.length, fnCtx N st.cells.length, st.cells.length⟩
    have hp : CT <+: CT ++ [e0] := List.prefix_append _ _
    have hgi : st.cells.length < g.length := by rw [hr.gl]; exact hnG
    have hentry : ClosEntry N Φ (CT ++ [e0]) (h ++ [[]]) st.cells.length
        ⟨N.gn st.cells.length, params N 1 d.np, .mk d.line (toStmtsF N (fnCtx N st.cells.length) d.body),
          captureEnv (bindTop (N.gn st.cells.length) (.g st.cells.length) base), l⟩ e0 := by
      refine ⟨d, hΦ, rfl, rfl, rfl, Nat.succ_pos _, hnp, Nat.le_refl _, hbody, hlast, ?_, ?_,
        fun d' i e => hN.gn_ln st.cells.length d' i e.symm, hN.gn_key st.cells.length, by simp [e0, fnCtx]⟩
      · intro j hj
        have hj : j < st.cells.length := hj
        refine ⟨fun e => by have := hN.gn_inj _ _ e; omega, ?_⟩
        show lookupScope (N.gn j) (captureEnv (bindTop (N.gn st.cells.length) (.g st.cells.length) base)) = _
        rw [lookupScope_captureEnv, lookupEnv_bindTop]
        have hne : (N.gn st.cells.length == N.gn j) = false := by
          simp only [beq_eq_false_iff_ne, ne_eq]
          intro e; have := hN.gn_inj _ _ e; omega
        rw [hne]
        simp only [Bool.false_eq_true, if_false]
        rw [hr.bound j hj]; rfl
      · intro j name hj
        simp [e0, fnCtx] at hj
    have hI1 := hI.pushClos _ e0 [] rfl hentry
    have hvr : VR (CT ++ [e0]) (.clos emptyFn [] (st.clos.length + 1)) (.clos (mkFd code lines d) [] h.length) :=
      .inr (.inl ⟨st.clos.length, _, _, rfl, rfl, by rw [hI.closLen]; simp [oldCT, e0]⟩)
    have hI2 := hI1.defGlobal (v := .clos emptyFn [] (st.clos.length + 1)) (w := .clos (mkFd code lines d) [] h.length) hvr hgi
    intro _
    exact ⟨0, (g.set st.cells.length (.clos (mkFd code lines d) [] h.length), h ++ [[]], a), CT ++ [e0],
      st.cells.length + 1, by simp [stepT, hgi], TopR.bind hN G hr.glob hr.bound hr.act hI2 (by simp [hr.gl]), hrest⟩
  | stmt s =>
    have hF := hr.frame G (fun _ => Val.null)
    have hgen : ∀ s', okS N Φ topCtx st.cells.length 0 [] s' = true → okTop N Φ G st.cells.length rest = true →
        Res (HeadQ N Φ G g h a (.stmt s') rest) (∀ k, stepT Φ g h a (.stmt s') k = none)
          (run (evalStmt (f+1) base (toStmtF N topCtx s')) st) := by
      intro s' hs' hrest
      have hs := (hall (f+1)).S (topAct st.cells.length) st.cells.length CT [] ⟨fun _ => Val.null, base⟩ st ⟨[], g, h, a⟩ s' hI hF (Nat.le_refl _) hr.act hs'
      refine Res.mono ?_ ?_ hs
      · rintro ⟨fl, v, env1⟩ s1 ⟨k, ⟨σ1, fl', bv⟩, hk, V0', vals1, CT1, henv, hfr, hn1, -⟩ hnormal
        have hk' : Core.Fn.evalS Φ k none ⟨[], g, h, a⟩ s' = some (σ1, fl', bv) := hk
        have hfl : fl = .normal := hnormal
        subst hfl
        cases fl' <;> first | exact hfr.elim | skip
        have hI1 : Inv N Φ CT1 st.cells.length s1 σ1 := hn1.inv
        have hl1 : σ1.l.length = 0 := hn1.frame.lLen
        have hg1 : σ1.g.length = g.length := (glen_all Φ k).S _ _ _ _ _ _ hk'
        have hσ1 : σ1 = ⟨[], σ1.g, σ1.h, σ1.a⟩ := by
          cases σ1 with
          | mk l1 g1 h1 a1 =>
            have : l1 = [] := by simpa using hl1
            simp [this]
        have henv' : env1 = vals1.base := henv
        subst henv'
        refine ⟨k, (σ1.g, σ1.h, σ1.a), CT1, st.cells.length, by simp [stepT, hk'], ⟨?_, by rw [hg1]; exact hr.gl, (hn1.frame.topg rfl).1, hn1.frame.globals, hn1.act⟩, hrest⟩
        rw [hσ1] at hI1; exact hI1
      · intro hnone k
        simp [stepT, show Core.Fn.evalS Φ k none ⟨[], g, h, a⟩ s' = none from hnone k]
    cases s with
    | letG l i e =>
      simp only [okTop, Bool.and_eq_true, beq_iff_eq, decide_eq_true_eq] at hok
      obtain ⟨⟨⟨hi0, hnG⟩, hoke⟩, hrest⟩ := hok
      subst hi0
      rw [toTop, toStmtF, evalStmt_let]
      have he := (hall f).E' (topAct st.cells.length) st.cells.length CT [] ⟨fun _ => Val.null, base⟩ st ⟨[], g, h, a⟩ e hI hF (Nat.le_refl _) hr.act hoke
      refine Res.bind he ?_ ?_
      · intro hnone k
        cases k with
        | zero => simp [stepT, Core.Fn.evalS]
        | succ k => simp [stepT, fS_letG, show Core.Fn.evalE Φ k none ⟨[], g, h, a⟩ e = none from hnone k]
      · rintro r s1 ⟨k, ⟨w, σ1⟩, hk, v, vals1, CT1, rfl, hv, hn1⟩
        have hk' : Core.Fn.evalE Φ k none ⟨[], g, h, a⟩ e = some (w, σ1) := hk
        have hI1 : Inv N Φ CT1 st.cells.length s1 σ1 := hn1.inv
        have hl1 : σ1.l.length = 0 := hn1.frame.lLen
        have hg1 : σ1.g.length = g.length := (glen_all Φ k).E _ _ _ _ _ hk'
        have hlt : st.cells.length < σ1.g.length := by rw [hg1, hr.gl]; exact hnG
        have hσ1 : σ1 = ⟨[], σ1.g, σ1.h, σ1.a⟩ := by
          cases σ1 with
          | mk l1 g1 h1 a1 =>
            have : l1 = [] := by simpa using hl1
            simp [this]
        have hcl1 : s1.cells.length = st.cells.length := hI1.cellsLen
        show Res _ _ (run (letK st.cells.length (N.gn st.cells.length) (.val v vals1.base)) s1)
        simp only [letK, (hn1.frame.topg rfl).1, if_true]
        rw [run_defGlobal s1 st.cells.length v _ hcl1 (hI1.fresh _ (Nat.le_refl _))]
        have hI2 := hI1.defGlobal hv hlt
        intro _
        refine ⟨k + 1, ((σ1.g.set st.cells.length w), σ1.h, σ1.a), CT1, st.cells.length + 1, ?_, ?_, hrest⟩
        · simp [stepT, fS_letG, hk', hlt]
        · refine TopR.bind hN G (hn1.frame.topg rfl).1 hn1.frame.globals hn1.act ?_ (by simp [hg1, hr.gl])
          rw [hσ1] at hI2; exact hI2
    | expr l e => simp only [okTop] at hok; rw [Bool.and_eq_true] at hok; exact hgen _ hok.1 hok.2
    | block l b => simp only [okTop] at hok; rw [Bool.and_eq_true] at hok; exact hgen _ hok.1 hok.2
    | ifS ls l c t e => simp only [okTop] at hok; rw [Bool.and_eq_true] at hok; exact hgen _ hok.1 hok.2
    | breakS l lbl => simp only [okTop] at hok; rw [Bool.and_eq_true] at hok; exact hgen _ hok.1 hok.2
    | continueS l lbl => simp only [okTop] at hok; rw [Bool.and_eq_true] at hok; exact hgen _ hok.1 hok.2
    | whileS l lbl c b => simp only [okTop] at hok; rw [Bool.and_eq_true] at hok; exact hgen _ hok.1 hok.2
    | loopS l lbl b => simp only [okTop] at hok; rw [Bool.and_eq_true] at hok; exact hgen _ hok.1 hok.2
    | letL l i e => simp only [okTop] at hok; rw [Bool.and_eq_true] at hok; exact hgen _ hok.1 hok.2
    | ret l e => simp only [okTop] at hok; rw [Bool.and_eq_true] at hok; exact hgen _ hok.1 hok.2
    | retN l => simp only [okTop] at hok; rw [Bool.and_eq_true] at hok; exact hgen _ hok.1 hok.2

/-- what is proved of a run of the oracle on a program -/
def TQ (N : Names) (Φ : FnDef → Option FDecl) (G : Nat) (g : List Val) (h : List (List Val)) (a : Heap) (T : List FTop)
    (r : Flow × Val × Env) (st' : St) : Prop :=
  r.1 = .normal → ∃ k y CT n, Core.Fn.evalT Φ k g h a T = some y ∧ TopR N Φ G n r.2.2 CT st' y.1 y.2.1 y.2.2

include hN in
theorem top_ok : ∀ (fuel : Nat) (T : List FTop) (n : Nat) (base : Env) (CT : CTab) (st : St) (g : List Val) (h : List (List Val)) (a : Heap) (last : Val),
    TopR N Φ G n base CT st g h a → okTop N Φ G n T = true →
    Res (TQ N Φ G g h a T) (∀ k, Core.Fn.evalT Φ k g h a T = none) (run (evalStmts fuel base (toTops N T) last) st) := by
  intro fuel
  induction fuel with
  | zero => intros; rw [evalStmts_zero]; exact True.intro
  | succ f ih =>
    intro T n base CT st g h a last hr hok
    cases T with
    | nil =>
      rw [toTops, evalStmts_nil]
      intro _
      exact ⟨0, (g, h, a), CT, n, by simp [Core.Fn.evalT], hr⟩
    | cons t rest =>
      rw [toTops, evalStmts_cons]
      refine Res.bind (head_ok hN G f t rest n base CT st g h a hr hok) ?_ ?_
      · intro hnone k
        rw [evalT_cons, hnone k]; rfl
      · rintro ⟨fl, v, env1⟩ st1 hq
        cases fl with
        | normal =>
          obtain ⟨k1, y, CT1, n1, hstep, hr1, hrest⟩ := hq rfl
          show Res _ _ (run (evalStmts f env1 (toTops N rest) v) st1)
          refine Res.mono ?_ ?_ (ih rest n1 env1 CT1 st1 y.1 y.2.1 y.2.2 v hr1 hrest)
          · intro r s2 h2 hn
            obtain ⟨k2, y2, CT2, n2, hev, hr2⟩ := h2 hn
            refine ⟨max k1 k2, y2, CT2, n2, ?_, hr2⟩
            rw [evalT_cons, mono_stepT Φ g h a t k1 _ y (Nat.le_max_left ..) hstep]
            exact mono_evalT Φ rest _ _ _ k2 _ y2 (Nat.le_max_right ..) hev
          · intro hnone k
            rw [evalT_cons]
            cases hs : stepT Φ g h a t k with
            | none => rfl
            | some y' =>
              obtain rfl := (mono_stepT Φ g h a t).det hs hstep
              exact hnone k
        | brk lb => intro hn; cases hn
        | cont lb => intro hn; cases hn
        | ret rv => intro hn; cases hn

include hN

omit hN in
theorem TopR.init (N : Names) (Φ : FnDef → Option FDecl) (G : Nat) (h : List (List Val)) :
    TopR N Φ G 0 [[]] [] {} (List.replicate G .null) h {} :=
  ⟨⟨rfl, fun k e hk => by simp at hk, rfl, Nat.zero_le _, fun j hj => absurd hj (Nat.not_lt_zero j), fun _ _ => rfl, HR.init [],
    fun k k' e e' hk => by simp at hk, fun k e hk => by simp at hk, rfl⟩,
   List.length_replicate, rfl, fun j hj => absurd hj (Nat.not_lt_zero j), rfl⟩

/-- **whole programs with functions and closures** (`…_partial`: the programs `okTop`).  If the oracle runs the
embedding of the program from the empty state to its normal end, `Core.Fn.evalT` -- the semantics
`Core.Fn.program_correct_fn` is stated against -- with some fuel ends too, from `G` null globals and any closure
heap `h`, and the final configurations are related: `n'` globals are defined, cell `j` of the oracle and global `j`
of Core.Fn hold related values (equal scalars, corresponding closures, THE SAME array references), the oracle's heap and
Core.Fn's container heap hold related arrays under equal ids (`Inv.heap`), every closure of the oracle's table
corresponds to a closure object of Core.Fn with related captured values (a copy the oracle has poisoned -- assigned in
an earlier activation -- is not constrained). -/
theorem ref_program_fn_arr_partial {T : List FTop} {fuel : Nat} {v : Val} {env' : Env} {st' : St} (h : List (List Val))
    (hok : okTop N Φ G 0 T = true)
    (hrun : run (evalStmts fuel [[]] (toTops N T) .null) {} = (.ok (.normal, v, env'), st')) :
    ∃ k g' h' a' CT n', Core.Fn.evalT Φ k (List.replicate G .null) h {} T = some (g', h', a') ∧
      TopR N Φ G n' env' CT st' g' h' a' := by
  have hm := top_ok hN G fuel T 0 [[]] [] {} (List.replicate G .null) h {} .null (TopR.init N Φ G h) hok
  rw [hrun] at hm
  obtain ⟨k, ⟨g', h', a'⟩, CT, n', hev, hr⟩ := hm rfl
  exact ⟨k, g', h', a', CT, n', hev, hr⟩

/-- the oracle's runtime error: no fuel makes `Core.Fn.evalT` end -/
theorem ref_program_fn_arr_error_partial {T : List FTop} {fuel l : Nat} {st' : St} (h : List (List Val))
    (hok : okTop N Φ G 0 T = true)
    (hrun : run (evalStmts fuel [[]] (toTops N T) .null) {} = (.error (.rt l), st')) :
    ∀ k, Core.Fn.evalT Φ k (List.replicate G .null) h {} T = none := by
  have hm := top_ok hN G fuel T 0 [[]] [] {} (List.replicate G .null) h {} .null (TopR.init N Φ G h) hok
  rw [hrun] at hm
  exact hm

end Top

/-- **composition with compiler correctness for functions** (`Core.Fn.program_correct_fn`): when the oracle runs a
program of the fragment to its normal end, the compiled program -- main code `compileT`, pool `constsT`, code
memory `codeT` --, run on the Core.Fn machine from `G` null globals, the empty stack and no frame, reaches the end
of the main code with the empty stack and no frame, and its globals and closure objects are related to the oracle's
final state. -/
theorem ref_program_fn_arr_compiled_partial {N : Names} (hN : NamesOK N) (G : Nat) {T : List FTop} {fuel : Nat} {v : Val} {env' : Env} {st' : St}
    (h : List (List Val)) (hok : okTop N (Core.Fn.phiT T) G 0 T = true)
    (hrun : run (evalStmts fuel [[]] (toTops N T) .null) {} = (.ok (.normal, v, env'), st')) :
    ∃ g' h' a' CT n',
      Core.Fn.FSteps (Core.Fn.constsT T) (Core.Fn.codeT T)
        ⟨⟨Core.Fn.compileT 0 0 T, ⟨[], [], 0, 0, 0⟩, 0, 0, 0⟩, [], List.replicate G .null, h, {}, []⟩
        ⟨⟨Core.Fn.compileT 0 0 T, ⟨[], [], 0, 0, 0⟩, 0, Core.bytes (Core.Fn.compileT 0 0 T), 0⟩, [], g', h', a', []⟩ ∧
      TopR N (Core.Fn.phiT T) G n' env' CT st' g' h' a' := by
  obtain ⟨k, g', h', a', CT, n', hev, hr⟩ := ref_program_fn_arr_partial hN G h hok hrun
  exact ⟨g', h', a', CT, n', Core.Fn.program_correct_fn k T _ g' h h' {} a' hev, hr⟩

/-! ## names that satisfy `NamesOK`, and non-vacuity -/

def stdNames : Names where
  gn i := String.ofList ('g' :: List.replicate i 'x')
  ln d i := String.ofList (List.replicate d 'a' ++ List.replicate (i + 1) 'b')

theorem rep_inj : ∀ (d d' i j : Nat),
    List.replicate d 'a' ++ List.replicate (i + 1) 'b' = List.replicate d' 'a' ++ List.replicate (j + 1) 'b' → d = d' ∧ i = j
  | 0, 0, i, j, h => by
    have := congrArg List.length h
    simp at this
    exact ⟨rfl, this⟩
  | 0, d'+1, i, j, h => by simp [List.replicate_succ] at h
  | d+1, 0, i, j, h => by simp [List.replicate_succ] at h
  | d+1, d'+1, i, j, h => by
    simp only [List.replicate_succ, List.cons_append, List.cons.injEq, true_and] at h
    have := rep_inj d d' i j (by simpa [List.replicate_succ] using h)
    exact ⟨by omega, this.2⟩

theorem selfKey_eq : selfKey = String.ofList ['%', 's', 'e', 'l', 'f'] := by decide
theorem empty_eq : "" = String.ofList [] := by decide

theorem stdNames_ok : NamesOK stdNames where
  gn_inj i j h := by
    have := String.ofList_injective h
    simp only [List.cons.injEq, true_and] at this
    simpa using congrArg List.length this
  ln_inj d d' i j h := rep_inj d d' i j (String.ofList_injective h)
  gn_ln i d j h := by
    have := String.ofList_injective h
    cases d <;> simp [List.replicate_succ] at this
  gn_key i h := by
    rw [selfKey_eq] at h
    have := String.ofList_injective h
    simp at this
  ln_key d i h := by
    rw [selfKey_eq] at h
    have := String.ofList_injective h
    cases d <;> simp [List.replicate_succ] at this
  gn_ne i h := by
    rw [empty_eq] at h
    have := String.ofList_injective h
    simp at this
  ln_ne d i h := by
    rw [empty_eq] at h
    have := String.ofList_injective h
    cases d <;> simp [List.replicate_succ] at this

/-! ## non-vacuity (Stage C1: arrays) -/

section Examples

/-- cells `i` and `j` of a normally ended run hold the same array reference -/
def sameArr (o : Except Err (Flow × Val × Env) × St) (i j : Nat) : Bool :=
  match o with
  | (.ok _, st) =>
    (match st.cells[i]?, st.cells[j]? with
     | some (.arr a _), some (.arr b _) => a == b
     | _, _ => false)
  | _ => false

def rtLine (o : Except Err (Flow × Val × Env) × St) : Option Nat :=
  match o with
  | (.error (.rt l), _) => some l
  | _ => none

/-- reads integer `i` at global `j` off the relation between the final configurations -/
theorem TopR.int_at {N : Names} {Φ : FnDef → Option FDecl} {G n : Nat} {base : Env} {CT : CTab} {st : St} {g : List Val} {h : List (List Val)} {a : Heap}
    (hr : TopR N Φ G n base CT st g h a) {cs : List (Option Int)} (hcells : st.cells.map intOf = cs) {j : Nat} {i : Int}
    (hj : cs[j]? = some (some i)) : ∃ x : Int64, g[j]? = some (.int x) ∧ x.toInt = i := by
  subst hcells
  have hjn : j < n := by
    rw [← hr.inv.cellsLen]
    rcases Nat.lt_or_ge j st.cells.length with h1 | h1
    · exact h1
    · rw [List.getElem?_eq_none (by simpa using h1)] at hj; cases hj
  obtain ⟨v0, w0, h1, h2, h3⟩ := hr.inv.cells j hjn
  rw [List.getElem?_map, h1] at hj
  simp only [Option.map_some, Option.some.injEq] at hj
  obtain ⟨x, rfl, hx⟩ := int_of_intOf hj
  rcases h3 with ⟨-, rfl⟩ | ⟨_, _, _, h4, -, -⟩ | ⟨_, _, h4, -⟩
  · exact ⟨x, h2, hx⟩
  · cases h4
  · cases h4

/-! ### aliasing through a function
```
fn set(a) { a[0] = 9; }
let x = [1, 2];
set(x);
let y = x[0];        // 9: the parameter `a` and the global `x` denote the same object
``` -/
def setD : FDecl := ⟨1, 1, [.expr 1 (.setIndex 1 (.lget 1 0) (.lit 1 (.int 0)) (.lit 1 (.int 9)))], 1⟩

def aliasT : List FTop := [
  .fnDef 1 0 (Core.Fn.fnTop 0 setD).1 (Core.Fn.fnTop 0 setD).2 setD,
  .stmt (.letG 2 1 (.arrLit 2 (.cons (.lit 2 (.int 1)) (.cons (.lit 2 (.int 2)) .nil)))),
  .stmt (.expr 3 (.call 3 (.gget 3 0) (.cons (.gget 3 1) .nil))),
  .stmt (.letG 4 2 (.index 4 (.gget 4 1) (.lit 4 (.int 0))))]

theorem aliasT_ok' (Φ : FnDef → Option FDecl) (h1 : Φ (mkFd (Core.Fn.fnTop 0 setD).1 (Core.Fn.fnTop 0 setD).2 setD) = some setD) :
    okTop stdNames Φ 3 0 aliasT = true := by
  simp only [aliasT, setD] at h1 ⊢
  simp [okTop, okP, okS, okE, okArgs, lastOK, paramVis, fnCtx, topCtx, visAfter, h1]

theorem aliasT_ok : okTop stdNames (Core.Fn.phiT aliasT) 3 0 aliasT = true := aliasT_ok' _ (by rfl)

/-- the oracle runs the program to its normal end with `y = 9` -/
theorem aliasT_ref : cellInts (run (evalStmts 60 [[]] (toTops stdNames aliasT) .null) {}) = some [none, none, some 9] := by
  decide +kernel

/-- … hence Core.Fn's `evalT` ends too and the compiled program on the machine ends with the integer 9 in `y` -/
example : ∃ (g' : List Val) (h' : List (List Val)) (a' : Heap) (x : Int64),
    Core.Fn.FSteps (Core.Fn.constsT aliasT) (Core.Fn.codeT aliasT)
      ⟨⟨Core.Fn.compileT 0 0 aliasT, ⟨[], [], 0, 0, 0⟩, 0, 0, 0⟩, [], List.replicate 3 .null, [[]], {}, []⟩
      ⟨⟨Core.Fn.compileT 0 0 aliasT, ⟨[], [], 0, 0, 0⟩, 0, Core.bytes (Core.Fn.compileT 0 0 aliasT), 0⟩, [], g', h', a', []⟩ ∧
    g'[2]? = some (.int x) ∧ x.toInt = 9 := by
  obtain ⟨v, env', st', hrun, hcells⟩ := of_cellInts aliasT_ref
  obtain ⟨g', h', a', CT, n', hsteps, hr⟩ := ref_program_fn_arr_compiled_partial stdNames_ok 3 [[]] aliasT_ok hrun
  obtain ⟨x, hx1, hx2⟩ := hr.int_at hcells (j := 2) (i := 9) rfl
  exact ⟨g', h', a', x, hsteps, hx1, hx2⟩

/-- the recogniser reads the embedding of the program back -/
example : (Core.Fn.ofTops 60 ⟨0, [], []⟩ 0 (toTops stdNames aliasT)).map (·.1) = some aliasT := by rfl

/-! ### an array returned from a function, two names for one array, an array inside an array
```
fn mk() { [1, 2] }
let x = mk();
let y = x;
y[1] = 7;
let z = x[1];          // 7
let w = [x, 5];
let u = w[0][1] + 1;   // 8: `w[0]` is the object `x`
``` -/
def mkArrD : FDecl := ⟨0, 0, [.expr 1 (.arrLit 1 (.cons (.lit 1 (.int 1)) (.cons (.lit 1 (.int 2)) .nil)))], 1⟩

def retT : List FTop := [
  .fnDef 1 0 (Core.Fn.fnTop 0 mkArrD).1 (Core.Fn.fnTop 0 mkArrD).2 mkArrD,
  .stmt (.letG 2 1 (.call 2 (.gget 2 0) .nil)),
  .stmt (.letG 3 2 (.gget 3 1)),
  .stmt (.expr 4 (.setIndex 4 (.gget 4 2) (.lit 4 (.int 1)) (.lit 4 (.int 7)))),
  .stmt (.letG 5 3 (.index 5 (.gget 5 1) (.lit 5 (.int 1)))),
  .stmt (.letG 6 4 (.arrLit 6 (.cons (.gget 6 1) (.cons (.lit 6 (.int 5)) .nil)))),
  .stmt (.letG 7 5 (.bin 7 .add (.index 7 (.index 7 (.gget 7 4) (.lit 7 (.int 0))) (.lit 7 (.int 1))) (.lit 7 (.int 1))))]

theorem retT_ok' (Φ : FnDef → Option FDecl) (h1 : Φ (mkFd (Core.Fn.fnTop 0 mkArrD).1 (Core.Fn.fnTop 0 mkArrD).2 mkArrD) = some mkArrD) :
    okTop stdNames Φ 6 0 retT = true := by
  simp only [retT, mkArrD] at h1 ⊢
  simp [okTop, okP, okS, okE, okArgs, lastOK, paramVis, fnCtx, topCtx, visAfter, deepOK, nonArrE, isDeep, h1]

theorem retT_ok : okTop stdNames (Core.Fn.phiT retT) 6 0 retT = true := retT_ok' _ (by rfl)

theorem retT_ref : cellInts (run (evalStmts 60 [[]] (toTops stdNames retT) .null) {}) =
    some [none, none, none, some 7, none, some 8] := by
  decide +kernel

example : ∃ (k : Nat) (g' : List Val) (h' : List (List Val)) (a' : Heap) (z u : Int64),
    Core.Fn.evalT (Core.Fn.phiT retT) k (List.replicate 6 .null) [[]] {} retT = some (g', h', a') ∧
    g'[3]? = some (.int z) ∧ z.toInt = 7 ∧ g'[5]? = some (.int u) ∧ u.toInt = 8 ∧
    (∃ id, id ≠ 0 ∧ g'[1]? = some (.arr id []) ∧ g'[2]? = some (.arr id [])) := by
  obtain ⟨v, env', st', hrun, hcells⟩ := of_cellInts retT_ref
  obtain ⟨k, g', h', a', CT, n', hev, hr⟩ := ref_program_fn_arr_partial stdNames_ok 6 [[]] retT_ok hrun
  obtain ⟨z, hz1, hz2⟩ := hr.int_at hcells (j := 3) (i := 7) rfl
  obtain ⟨u, hu1, hu2⟩ := hr.int_at hcells (j := 5) (i := 8) rfl
  refine ⟨k, g', h', a', z, u, hev, hz1, hz2, hu1, hu2, ?_⟩
  -- `x` and `y` are the same reference in the oracle (checked by evaluation), hence in Core.Fn
  have hsame : sameArr (run (evalStmts 60 [[]] (toTops stdNames retT) .null) {}) 1 2 = true := by decide +kernel
  rw [hrun] at hsame
  have hlen : st'.cells.length = 6 := by simpa using congrArg List.length hcells
  have hn' : n' = 6 := by rw [← hr.inv.cellsLen]; exact hlen
  subst hn'
  obtain ⟨v1, w1, a1, b1, c1⟩ := hr.inv.cells 1 (by omega)
  obtain ⟨v2, w2, a2, b2, c2⟩ := hr.inv.cells 2 (by omega)
  simp only [sameArr, a1, a2] at hsame
  rcases c1.cases3 with ⟨hn1, -⟩ | ⟨id1, h01, rfl, rfl⟩
  · cases v1 <;> simp [isArrV] at hn1 hsame
  · rcases c2.cases3 with ⟨hn2, -⟩ | ⟨id2, h02, rfl, rfl⟩
    · cases v2 <;> simp [isArrV] at hn2 hsame
    · simp at hsame
      subst hsame
      exact ⟨id1, h01, b1, b2⟩

example : (Core.Fn.ofTops 60 ⟨0, [], []⟩ 0 (toTops stdNames retT)).map (·.1) = some retT := by rfl

/-! ### `+` on two arrays (a new object with the elements of both), `+` on two variables
```
let x = [1, 2]; let y = [3];
let z = x + y;
let s = z[2] + z[0];     // 4
``` -/
def catT : List FTop := [
  .stmt (.letG 1 0 (.arrLit 1 (.cons (.lit 1 (.int 1)) (.cons (.lit 1 (.int 2)) .nil)))),
  .stmt (.letG 2 1 (.arrLit 2 (.cons (.lit 2 (.int 3)) .nil))),
  .stmt (.letG 3 2 (.bin 3 .add (.gget 3 0) (.gget 3 1))),
  .stmt (.letG 4 3 (.bin 4 .add (.index 4 (.gget 4 2) (.lit 4 (.int 2))) (.index 4 (.gget 4 2) (.lit 4 (.int 0)))))]

theorem catT_ok (Φ : FnDef → Option FDecl) : okTop stdNames Φ 4 0 catT = true := by
  simp [catT, okTop, okE, okArgs, topCtx, deepOK, nonArrE, isDeep]

theorem catT_ref : cellInts (run (evalStmts 60 [[]] (toTops stdNames catT) .null) {}) = some [none, none, none, some 4] := by
  decide +kernel

example : ∃ (k : Nat) (g' : List Val) (h' : List (List Val)) (a' : Heap) (x : Int64),
    Core.Fn.evalT (Core.Fn.phiT catT) k (List.replicate 4 .null) [[]] {} catT = some (g', h', a') ∧
    g'[3]? = some (.int x) ∧ x.toInt = 4 := by
  obtain ⟨v, env', st', hrun, hcells⟩ := of_cellInts catT_ref
  obtain ⟨k, g', h', a', CT, n', hev, hr⟩ := ref_program_fn_arr_partial stdNames_ok 4 [[]] (catT_ok _) hrun
  obtain ⟨x, hx1, hx2⟩ := hr.int_at hcells (j := 3) (i := 4) rfl
  exact ⟨k, g', h', a', x, hev, hx1, hx2⟩

/-! ### a runtime error of the oracle: an index out of range (`let x = [1]; let y = x[5];`) -/

def oobT : List FTop := [
  .stmt (.letG 1 0 (.arrLit 1 (.cons (.lit 1 (.int 1)) .nil))),
  .stmt (.letG 2 1 (.index 2 (.gget 2 0) (.lit 2 (.int 5))))]

theorem oobT_ok (Φ : FnDef → Option FDecl) : okTop stdNames Φ 2 0 oobT = true := by
  simp [oobT, okTop, okE, okArgs, topCtx]

theorem oobT_ref : rtLine (run (evalStmts 60 [[]] (toTops stdNames oobT) .null) {}) = some 2 := by decide +kernel

/-- the oracle answers "runtime error on line 2", so no fuel makes Core.Fn's evaluation of the program end -/
example : ∀ k, Core.Fn.evalT (Core.Fn.phiT oobT) k (List.replicate 2 .null) [[]] {} oobT = none := by
  have h := oobT_ref
  generalize ho : run (evalStmts 60 [[]] (toTops stdNames oobT) .null) {} = o at h
  rcases o with ⟨er | r, st'⟩
  · cases er <;> simp [rtLine] at h
    exact ref_program_fn_arr_error_partial stdNames_ok 2 [[]] (oobT_ok _) ho
  · simp [rtLine] at h

/-! ### FINDING (repaired in `Spec/Ref.lean`): why `==` / `!=` on two arrays are outside the fragment

The oracle looks into arrays through `reifyM` with the FIXED depth `reifyDepth = 64`; where the fuel of `reify` runs out it
leaves the shallow reference `.arr id []`, which `Spec.specEqList` then reads as an EMPTY array.  So for arrays nested
64 deep whose innermost elements differ the oracle COMMITTED to `a == b` being `true` (now: `reifyM` answers `unc`
when `expandsWithin` fails, so the oracle no longer commits on a cut-off view):
```
let a = [1]; let b = [2]; let i = 0;
while i < 64 { a = [a]; b = [b]; i = i + 1; }
let r = a == b;
```
`Core.Fn` (`view`: depth = number of objects + 1) answers `false`, and so does the real binary (`target/debug/p2sh`
prints `false`, checked with 70 levels).  Both evaluations are checked by the kernel below. -/

def lit1 (x : Int64) : FExpr := .arrLit 1 (.cons (.lit 1 (.int x)) .nil)

def deepT (n x y : Int64) : List FTop := [
  .stmt (.letG 1 0 (lit1 x)),
  .stmt (.letG 1 1 (lit1 y)),
  .stmt (.letG 1 2 (.lit 1 (.int 0))),
  .stmt (.whileS 2 none (.lt 2 (.gget 2 2) (.lit 2 (.int n)))
     [.expr 2 (.gset 2 0 (.arrLit 2 (.cons (.gget 2 0) .nil))),
      .expr 2 (.gset 2 1 (.arrLit 2 (.cons (.gget 2 1) .nil))),
      .expr 2 (.gset 2 2 (.bin 2 .add (.gget 2 2) (.lit 2 (.int 1))))]),
  .stmt (.letG 3 3 (.bin 3 .equal (.gget 3 0) (.gget 3 1)))]

def cellBool (o : Except Err (Flow × Val × Env) × St) (i : Nat) : Option Bool :=
  match o with
  | (.ok _, st) => (match st.cells[i]? with | some (.bool b) => some b | _ => none)
  | _ => none

def coreBool (r : Option (List Val × List (List Val) × Heap)) (i : Nat) : Option Bool :=
  match r with
  | some (g, _, _) => (match g[i]? with | some (.bool b) => some b | _ => none)
  | none => none

/-- the oracle (after the repair of `reifyM`: `expandsWithin`): `unc` -- before the repair it committed to `r = true` … -/
theorem deep_oracle : isUnc (run (evalStmts 200 [[]] (toTops stdNames (deepT 64 1 2)) .null) {}) = true := by
  decide +kernel

/-- … Core.Fn (and the implementation): `r = false` -/
theorem deep_coreFn : coreBool (Core.Fn.evalT (fun _ => none) 200 (List.replicate 4 .null) [[]] {} (deepT 64 1 2)) 3 = some false := by
  decide +kernel

/-- with 63 levels the two agree -/
theorem deep63_oracle : cellBool (run (evalStmts 200 [[]] (toTops stdNames (deepT 63 1 2)) .null) {}) 3 = some false := by
  decide +kernel

/-- the program is outside `okTop` only because of the comparison of two variables -/
example (Φ : FnDef → Option FDecl) : okTop stdNames Φ 4 0 (deepT 64 1 2) = false := by
  simp [deepT, lit1, okTop, okP, okS, okE, okArgs, topCtx, visAfter, deepOK, nonArrE, isDeep]

/-! ## non-vacuity (Stage C2: assignment to captured variables)

```
fn counter() { let n = 0; return fn() { n = n + 1; n }; }
let c1 = counter();
let c2 = counter();
let a = c1();        // 1
let b = c2();        // 1: the two closure objects have their own copies of `n`
``` -/

def incBody : List FStmt := [.expr 1 (.fset 1 0 (.bin 1 .add (.fget 1 0) (.lit 1 (.int 1)))), .expr 1 (.fget 1 0)]
def incD : FDecl := ⟨0, 0, incBody, 1⟩
def incLit : FExpr := .mkclos 1 (Core.Fn.fnTop 1 incD).1 (Core.Fn.fnTop 1 incD).2 0 0 incBody [.loc 0]
def counterD : FDecl := ⟨0, 1, [.letL 1 0 (.lit 1 (.int 0)), .ret 1 incLit], 1⟩

def counterT : List FTop := [
  .fnDef 1 0 (Core.Fn.fnTop 0 counterD).1 (Core.Fn.fnTop 0 counterD).2 counterD,
  .stmt (.letG 2 1 (.call 2 (.gget 2 0) .nil)),
  .stmt (.letG 3 2 (.call 3 (.gget 3 0) .nil)),
  .stmt (.letG 4 3 (.call 4 (.gget 4 1) .nil)),
  .stmt (.letG 5 4 (.call 5 (.gget 5 2) .nil))]

theorem counterT_ok' (Φ : FnDef → Option FDecl)
    (h1 : Φ (mkFd (Core.Fn.fnTop 0 counterD).1 (Core.Fn.fnTop 0 counterD).2 counterD) = some counterD)
    (h2 : Φ (mkFd (Core.Fn.fnTop 1 incD).1 (Core.Fn.fnTop 1 incD).2 incD) = some incD) :
    okTop stdNames Φ 5 0 counterT = true := by
  simp only [counterT, counterD, incLit, incD, incBody] at h1 h2 ⊢
  simp [okTop, okP, okS, okE, okArgs, okCap, lastOK, paramVis, fnCtx, topCtx, visAfter, capName, deepOK, nonArrE, isDeep, h1, h2]

theorem counterT_ok : okTop stdNames (Core.Fn.phiT counterT) 5 0 counterT = true := counterT_ok' _ (by rfl) (by rfl)

/-- the oracle runs the program to its normal end: `a = 1`, `b = 1` -/
theorem counterT_ref : cellInts (run (evalStmts 80 [[]] (toTops stdNames counterT) .null) {}) =
    some [none, none, none, some 1, some 1] := by
  decide +kernel

/-- … hence Core.Fn's `evalT` and the compiled program on the machine end with the integer 1 in `a` and in `b` -/
example : ∃ (g' : List Val) (h' : List (List Val)) (a' : Heap) (x y : Int64),
    Core.Fn.FSteps (Core.Fn.constsT counterT) (Core.Fn.codeT counterT)
      ⟨⟨Core.Fn.compileT 0 0 counterT, ⟨[], [], 0, 0, 0⟩, 0, 0, 0⟩, [], List.replicate 5 .null, [[]], {}, []⟩
      ⟨⟨Core.Fn.compileT 0 0 counterT, ⟨[], [], 0, 0, 0⟩, 0, Core.bytes (Core.Fn.compileT 0 0 counterT), 0⟩, [], g', h', a', []⟩ ∧
    g'[3]? = some (.int x) ∧ x.toInt = 1 ∧ g'[4]? = some (.int y) ∧ y.toInt = 1 := by
  obtain ⟨v, env', st', hrun, hcells⟩ := of_cellInts counterT_ref
  obtain ⟨g', h', a', CT, n', hsteps, hr⟩ := ref_program_fn_arr_compiled_partial stdNames_ok 5 [[]] counterT_ok hrun
  obtain ⟨x, hx1, hx2⟩ := hr.int_at hcells (j := 3) (i := 1) rfl
  obtain ⟨y, hy1, hy2⟩ := hr.int_at hcells (j := 4) (i := 1) rfl
  exact ⟨g', h', a', x, y, hsteps, hx1, hx2, hy1, hy2⟩

example : (Core.Fn.ofTops 60 ⟨0, [], []⟩ 0 (toTops stdNames counterT)).map (·.1) = some counterT := by rfl

/-- a SECOND call of the same closure object (`let d = c1();` appended): the oracle's copy of `n` is poisoned, the run
ends in `unc` -- the hypothesis of `ref_program_fn_arr_partial` (a run to the normal end) does not hold, the theorem
claims nothing; Core.Fn (the VM's behaviour) answers `d = 2` -/
def counterT2 : List FTop := counterT ++ [.stmt (.letG 6 5 (.call 6 (.gget 6 1) .nil))]

theorem counterT2_oracle : isUnc (run (evalStmts 80 [[]] (toTops stdNames counterT2) .null) {}) = true := by
  decide +kernel

theorem counterT2_coreFn : (Core.Fn.evalT (Core.Fn.phiT counterT2) 60 (List.replicate 6 .null) [[]] {} counterT2).map (fun r => r.1.map intOf) =
    some [none, none, none, some 1, some 1, some 2] := by
  decide +kernel

/-! ### a closure that assigns a captured variable AND calls (the call does not re-enter the closure object)
```
fn mk() { let n = 0; return fn(f) { n = f(n); n }; }
fn inc(x) { x + 1 }
let c = mk();
let a = c(inc);      // 1
``` -/

def accBody : List FStmt := [.expr 1 (.fset 1 0 (.call 1 (.lget 1 0) (.cons (.fget 1 0) .nil))), .expr 1 (.fget 1 0)]
def accD : FDecl := ⟨1, 1, accBody, 1⟩
def accLit : FExpr := .mkclos 1 (Core.Fn.fnTop 1 accD).1 (Core.Fn.fnTop 1 accD).2 1 1 accBody [.loc 0]
def accMkD : FDecl := ⟨0, 1, [.letL 1 0 (.lit 1 (.int 0)), .ret 1 accLit], 1⟩
def incFD : FDecl := ⟨1, 1, [.expr 1 (.bin 1 .add (.lget 1 0) (.lit 1 (.int 1)))], 1⟩

def accT : List FTop := [
  .fnDef 1 0 (Core.Fn.fnTop 0 accMkD).1 (Core.Fn.fnTop 0 accMkD).2 accMkD,
  .fnDef 2 1 (Core.Fn.fnTop 3 incFD).1 (Core.Fn.fnTop 3 incFD).2 incFD,
  .stmt (.letG 3 2 (.call 3 (.gget 3 0) .nil)),
  .stmt (.letG 4 3 (.call 4 (.gget 4 2) (.cons (.gget 4 1) .nil)))]

theorem accT_ok' (Φ : FnDef → Option FDecl)
    (h1 : Φ (mkFd (Core.Fn.fnTop 0 accMkD).1 (Core.Fn.fnTop 0 accMkD).2 accMkD) = some accMkD)
    (h2 : Φ (mkFd (Core.Fn.fnTop 1 accD).1 (Core.Fn.fnTop 1 accD).2 accD) = some accD)
    (h3 : Φ (mkFd (Core.Fn.fnTop 3 incFD).1 (Core.Fn.fnTop 3 incFD).2 incFD) = some incFD) :
    okTop stdNames Φ 4 0 accT = true := by
  simp only [accT, accMkD, accLit, accD, accBody, incFD] at h1 h2 h3 ⊢
  simp [okTop, okP, okS, okE, okArgs, okCap, lastOK, paramVis, fnCtx, topCtx, visAfter, capName, deepOK, nonArrE, isDeep, h1, h2, h3]

theorem accT_ok : okTop stdNames (Core.Fn.phiT accT) 4 0 accT = true := accT_ok' _ (by rfl) (by rfl) (by rfl)

theorem accT_ref : cellInts (run (evalStmts 80 [[]] (toTops stdNames accT) .null) {}) = some [none, none, none, some 1] := by
  decide +kernel

example : ∃ (k : Nat) (g' : List Val) (h' : List (List Val)) (a' : Heap) (x : Int64),
    Core.Fn.evalT (Core.Fn.phiT accT) k (List.replicate 4 .null) [[]] {} accT = some (g', h', a') ∧
    g'[3]? = some (.int x) ∧ x.toInt = 1 := by
  obtain ⟨v, env', st', hrun, hcells⟩ := of_cellInts accT_ref
  obtain ⟨k, g', h', a', CT, n', hev, hr⟩ := ref_program_fn_arr_partial stdNames_ok 4 [[]] accT_ok hrun
  obtain ⟨x, hx1, hx2⟩ := hr.int_at hcells (j := 3) (i := 1) rfl
  exact ⟨k, g', h', a', x, hev, hx1, hx2⟩


/-! ### re-entrancy: the program `RefFn.reT` (a nested activation of the SAME closure object assigns) is in the fragment,
the oracle answers `unc` there (`St.active`), so the theorems claim nothing; Core.Fn answers `r = 5` (`RefFn.reT_coreFn`) -/

theorem reT_ok' (Φ : FnDef → Option FDecl)
    (h1 : Φ (mkFd (Core.Fn.fnTop 0 reMkD).1 (Core.Fn.fnTop 0 reMkD).2 reMkD) = some reMkD)
    (h2 : Φ (mkFd (Core.Fn.fnTop 1 reD).1 (Core.Fn.fnTop 1 reD).2 reD) = some reD) :
    okTop stdNames Φ 3 0 reT = true := by
  simp only [reT, reMkD, reLit, reD, reBody] at h1 h2 ⊢
  simp [okTop, okP, okS, okE, okArgs, okCap, lastOK, paramVis, fnCtx, topCtx, visAfter, capName, deepOK, nonArrE, isDeep, h1, h2]

theorem reT_ok : okTop stdNames (Core.Fn.phiT reT) 3 0 reT = true := reT_ok' _ (by rfl) (by rfl)

theorem reT_oracle_unc : isUnc (run (evalStmts 80 [[]] (toTops stdNames reT) .null) {}) = true := by
  decide +kernel

/-! ### FINDING (audit; repaired in `Spec/Ref.lean`: `St.keyed`): mutating an array that is a key of a map
```
let k = [1];
let m = map { k: 10 };
k[0] = 2;              // the oracle: `unc` from here on (`k` is keyed)
let r = m[[2]];        // the implementation: KeyError (the key was hashed when it was inserted)
```
Before the repair the oracle re-read the stored key through the CURRENT heap and ended normally. -/
def keyedT : List FTop := [
  .stmt (.letG 1 0 (.arrLit 1 (.cons (.lit 1 (.int 1)) .nil))),
  .stmt (.letG 2 1 (.mapLit 2 (.cons (.gget 2 0) (.cons (.lit 2 (.int 10)) .nil)))),
  .stmt (.expr 3 (.setIndex 3 (.gget 3 0) (.lit 3 (.int 0)) (.lit 3 (.int 2)))),
  .stmt (.letG 4 2 (.index 4 (.gget 4 1) (.arrLit 4 (.cons (.lit 4 (.int 2)) .nil))))]

theorem keyedT_oracle_unc : isUnc (run (evalStmts 60 [[]] (toTops stdNames keyedT) .null) {}) = true := by
  decide +kernel

/-- without the mutation the oracle commits (the lookup of an equal array key finds the entry) -/
def keyedT' : List FTop := [
  .stmt (.letG 1 0 (.arrLit 1 (.cons (.lit 1 (.int 1)) .nil))),
  .stmt (.letG 2 1 (.mapLit 2 (.cons (.gget 2 0) (.cons (.lit 2 (.int 10)) .nil)))),
  .stmt (.letG 4 2 (.index 4 (.gget 4 1) (.arrLit 4 (.cons (.lit 4 (.int 1)) .nil))))]

theorem keyedT'_oracle : cellInts (run (evalStmts 60 [[]] (toTops stdNames keyedT') .null) {}) = some [none, none, some 10] := by
  decide +kernel

end Examples

/-- the same theorems under the names of Stage C2 -/
theorem ref_program_fn_fset_partial {N : Names} {Φ : FnDef → Option FDecl} (hN : NamesOK N) (G : Nat) {T : List FTop} {fuel : Nat} {v : Val}
    {env' : Env} {st' : St} (h : List (List Val)) (hok : okTop N Φ G 0 T = true)
    (hrun : run (evalStmts fuel [[]] (toTops N T) .null) {} = (.ok (.normal, v, env'), st')) :
    ∃ k g' h' a' CT n', Core.Fn.evalT Φ k (List.replicate G .null) h {} T = some (g', h', a') ∧
      TopR N Φ G n' env' CT st' g' h' a' := ref_program_fn_arr_partial hN G h hok hrun

theorem ref_program_fn_fset_error_partial {N : Names} {Φ : FnDef → Option FDecl} (hN : NamesOK N) (G : Nat) {T : List FTop} {fuel l : Nat}
    {st' : St} (h : List (List Val)) (hok : okTop N Φ G 0 T = true)
    (hrun : run (evalStmts fuel [[]] (toTops N T) .null) {} = (.error (.rt l), st')) :
    ∀ k, Core.Fn.evalT Φ k (List.replicate G .null) h {} T = none := ref_program_fn_arr_error_partial hN G h hok hrun

#print axioms ref_program_fn_arr_partial
#print axioms ref_program_fn_arr_error_partial
#print axioms ref_program_fn_arr_compiled_partial
#print axioms all_ok

end P2sh.RefFnC
