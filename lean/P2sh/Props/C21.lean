import P2sh.Model.FileRead
import P2sh.Spec.FileIo
/-!
# C21 — file reads return the file's bytes exactly once, in order, however chunked

Model: `P2sh.FileRead`; specification: `P2sh.Spec.FileIo`.

* `chunkSrc_conforms`, `bufSrc_conforms` — pipes fed in any chunks and `BufReader` over any
  conforming source are conforming sources (so the theorems below cover them);
* `prefix_law` — for every conforming source, handle and call sequence, what the calls consumed, in
  order, followed by what the source still holds, is the original content: nothing is duplicated,
  reordered or skipped (`call_data`: a non-error result *is* what the call consumed);
* `read_to_string_all`, `read_line_law` — `read_to_string` consumes everything that remains and
  `read_line` returns exactly the next line, for every conforming source (any schedule);
* `read_all_any_schedule_partial` — `read(f[, n])` returns `min n remaining` bytes when the source
  never returns short before its end; the full form `read_all_any_schedule` (for every conforming
  source) is FALSE on the current code: `read_all_any_schedule_false` is the witness of the statement
  (a reader that returns 1 byte, then the rest), `buffered_short_read_witness` the same through a
  `BufReader` whose buffer was partly consumed; `read_all_any_schedule_fixed` proves the full form for
  the repaired loop (`readLoopFixed`);
* `mode_table_partial` — `open`'s flags realise the documented table except `a` on a missing file
  (`mode_a_missing_witness`: ENOENT instead of "create it"); `write_contents` — after a normal end or a
  flush the file holds what the open left plus exactly the bytes written (`exit_loses_buffer`: not
  after `exit`).
-/
namespace P2sh.Props.C21
open P2sh P2sh.FileRead

/-! ### sources -/

theorem take_ne_nil {α : Type} : ∀ (l : List α) (n : Nat), 0 < n → l ≠ [] → l.take n ≠ []
  | [], _, _, h => absurd rfl h
  | _ :: _, n + 1, _, _ => by simp
  | _ :: _, 0, h, _ => by omega

theorem rest_eq_drop {α : Type} (a b l : List α) (h : a ++ b = l) : b = l.drop a.length := by
  subst h; simp

theorem chunkRead_split : ∀ (cs : List Bytes) (n : Nat), (chunkRead cs n).1 ++ (chunkRead cs n).2.flatten = cs.flatten
  | [], n => by simp [chunkRead]
  | c :: cs, n => by
    simp only [chunkRead]
    split
    · rename_i h
      have : c = [] := by simpa using h
      simp [this, chunkRead_split cs n]
    · split
      · simp
      · simp [← List.append_assoc]

theorem chunkRead_le : ∀ (cs : List Bytes) (n : Nat), (chunkRead cs n).1.length ≤ n
  | [], n => by simp [chunkRead]
  | c :: cs, n => by
    simp only [chunkRead]
    split
    · exact chunkRead_le cs n
    · split
      · assumption
      · simp [List.length_take]; omega

theorem chunkRead_progress : ∀ (cs : List Bytes) (n : Nat), 0 < n → cs.flatten ≠ [] → (chunkRead cs n).1 ≠ []
  | [], n, _, h => by simp at h
  | c :: cs, n, hn, h => by
    simp only [chunkRead]
    split
    · rename_i hc
      have : c = [] := by simpa using hc
      exact chunkRead_progress cs n hn (by simpa [this] using h)
    · rename_i hc
      have hne : c ≠ [] := by simpa using hc
      split
      · exact hne
      · exact take_ne_nil c n hn hne

theorem chunkSrc_conforms : Conforms chunkSrc :=
  ⟨chunkRead_split, chunkRead_le, chunkRead_progress⟩

theorem bufSrc_conforms {σ : Type} (cap : Nat) (hcap : 0 < cap) (R : Src σ) (hR : Conforms R) :
    Conforms (bufSrc cap R) := by
  refine ⟨?_, ?_, ?_⟩
  · rintro ⟨buf, s⟩ n
    simp only [bufSrc, bufRead]
    split
    · rename_i hb
      have : buf = [] := by simpa using hb
      subst this
      split
      · simpa using hR.split s n
      · have := hR.split s cap
        simp only [List.nil_append]
        rw [← List.append_assoc, List.take_append_drop]; exact this
    · simp [← List.append_assoc]
  · rintro ⟨buf, s⟩ n
    simp only [bufSrc, bufRead]
    split
    · split
      · exact hR.le s n
      · simp [List.length_take]; omega
    · simp [List.length_take]; omega
  · rintro ⟨buf, s⟩ n hn hrem
    simp only [bufSrc, bufRead] at *
    split
    · rename_i hb
      have hbe : buf = [] := by simpa using hb
      subst hbe
      have hrem' : R.rem s ≠ [] := by simpa using hrem
      split
      · exact hR.progress s n hn hrem'
      · exact take_ne_nil _ n hn (hR.progress s cap hcap hrem')
    · rename_i hb
      have hne : buf ≠ [] := by simpa using hb
      exact take_ne_nil buf n hn hne

/-! ### `read_from_file` -/

theorem readLoop_prefix {σ : Type} (R : Src σ) (hR : Conforms R) (num : Nat) :
    ∀ (fuel : Nat) (s : σ) (total : Nat),
      (readLoop R num fuel s total).1 ++ R.rem (readLoop R num fuel s total).2 = R.rem s := by
  intro fuel
  induction fuel with
  | zero => intro s total; simp [readLoop]
  | succ fuel ih =>
    intro s total
    simp only [readLoop]
    split
    · split
      · rename_i h0
        have hs := hR.split s (min CHUNK (num - total))
        have : (R.read s (min CHUNK (num - total))).1 = [] := List.length_eq_zero_iff.mp h0
        simpa [this] using hs
      · split
        · exact hR.split _ _
        · simp only [List.append_assoc]
          rw [ih]; exact hR.split _ _
    · simp

theorem readFromFile_prefix {σ : Type} (R : Src σ) (hR : Conforms R) (s : σ) (num : Nat) :
    (readFromFile R s num).1 ++ R.rem (readFromFile R s num).2 = R.rem s :=
  readLoop_prefix R hR num _ s 0

theorem readLoopFixed_prefix {σ : Type} (R : Src σ) (hR : Conforms R) (num : Nat) :
    ∀ (fuel : Nat) (s : σ) (total : Nat),
      (readLoopFixed R num fuel s total).1 ++ R.rem (readLoopFixed R num fuel s total).2 = R.rem s := by
  intro fuel
  induction fuel with
  | zero => intro s total; simp [readLoopFixed]
  | succ fuel ih =>
    intro s total
    simp only [readLoopFixed]
    split
    · split
      · rename_i h0
        have hs := hR.split s (min CHUNK (num - total))
        have : (R.read s (min CHUNK (num - total))).1 = [] := List.length_eq_zero_iff.mp h0
        simpa [this] using hs
      · simp only [List.append_assoc]
        rw [ih]; exact hR.split _ _
    · simp

theorem readFromFileV_prefix {σ : Type} (fixed : Bool) (R : Src σ) (hR : Conforms R) (s : σ) (num : Nat) :
    (readFromFileV fixed R s num).1 ++ R.rem (readFromFileV fixed R s num).2 = R.rem s := by
  cases fixed
  · exact readFromFile_prefix R hR s num
  · exact readLoopFixed_prefix R hR num _ s 0

theorem prefix_eq_take {α : Type} (a b l : List α) (h : a ++ b = l) : a = l.take a.length := by
  subst h; simp

/-- `read_from_file` on a source that never returns short before its end -/
theorem readLoop_full {σ : Type} (R : Src σ) (hR : Conforms R) (hF : Full R) (num : Nat) :
    ∀ (fuel : Nat) (s : σ) (total : Nat), (R.rem s).length < fuel →
      (readLoop R num fuel s total).1 = (R.rem s).take (num - total) := by
  intro fuel
  induction fuel with
  | zero => intro s total h; omega
  | succ fuel ih =>
    intro s total hf
    simp only [readLoop]
    split
    · rename_i hlt
      have hsplit := hR.split s (min CHUNK (num - total))
      have hlen := hF s (min CHUNK (num - total))
      have htake := prefix_eq_take _ _ _ hsplit
      have hpos : 0 < min CHUNK (num - total) := by simp [CHUNK]; omega
      split
      · rename_i h0
        have : (R.rem s).length = 0 := by omega
        have : R.rem s = [] := List.length_eq_zero_iff.mp this
        simp [this]
      · split
        · rename_i hne hshort
          -- the source ended inside this read
          have hall : (R.read s (min CHUNK (num - total))).1.length = (R.rem s).length := by omega
          rw [htake, hall, List.take_length]
          rw [List.take_of_length_le]; omega
        · rename_i hne hfull
          have hfull' : (R.read s (min CHUNK (num - total))).1.length = min CHUNK (num - total) := by
            have := hR.le s (min CHUNK (num - total)); omega
          have hrest : R.rem (R.read s (min CHUNK (num - total))).2 = (R.rem s).drop (min CHUNK (num - total)) := by
            rw [rest_eq_drop _ _ _ hsplit, hfull']
          have hfuel : (R.rem (R.read s (min CHUNK (num - total))).2).length < fuel := by
            rw [hrest, List.length_drop]; omega
          simp only []
          rw [ih _ _ hfuel, hrest, hfull']
          conv => lhs; rw [htake, hfull']
          have : num - total = min CHUNK (num - total) + (num - (total + min CHUNK (num - total))) := by omega
          conv => rhs; rw [this, List.take_add]
    · rename_i hge
      have : num - total = 0 := by omega
      simp [this]

/-- **read(f[, n]) over sources that never return short**: the next `min n remaining` bytes -/
theorem read_all_any_schedule_partial {σ : Type} (R : Src σ) (hR : Conforms R) (hF : Full R) (s : σ) (num : Nat) :
    (readFromFile R s num).1 = (R.rem s).take num := by
  have := readLoop_full R hR hF num ((R.rem s).length + 1) s 0 (by omega)
  simpa [readFromFile] using this

/-- the full statement for **any** conforming source — what the code should satisfy -/
def ReadAllAnySchedule : Prop :=
  ∀ (cs : List Bytes), (readFromFile chunkSrc cs USIZE_MAX).1 = cs.flatten

/-- **witness** that the full form fails on the current loop: a reader that returns 1 byte, then
the rest (a pipe written as `[1]`, pause, `[2, 3]`): `read(stdin)` returns `[1]` -/
theorem read_all_any_schedule_false : ¬ ReadAllAnySchedule := by
  intro h
  have := h [[1], [2, 3]]
  revert this
  decide

/-- the same through a `BufReader` (capacity 4 for the sake of a small witness): after `read(f, 1)`
took one byte of the buffer, `read(f)` returns only what the buffer still holds -/
theorem buffered_short_read_witness :
    let src := bufSrc 4 chunkSrc
    let st0 : Bytes × List Bytes := ([], [[1, 2, 3, 4, 5, 6, 7, 8, 9]])
    let r1 := readFromFile src st0 1
    let r2 := readFromFile src r1.2 USIZE_MAX
    r1.1 = [1] ∧ r2.1 = [2, 3, 4] ∧ src.rem r2.2 = [5, 6, 7, 8, 9] := by
  decide

/-- the repaired loop: all of `min num remaining`, for every conforming source -/
theorem readLoopFixed_all {σ : Type} (R : Src σ) (hR : Conforms R) (num : Nat) :
    ∀ (fuel : Nat) (s : σ) (total : Nat), (R.rem s).length < fuel →
      (readLoopFixed R num fuel s total).1 = (R.rem s).take (num - total) := by
  intro fuel
  induction fuel with
  | zero => intro s total h; omega
  | succ fuel ih =>
    intro s total hf
    simp only [readLoopFixed]
    split
    · rename_i hlt
      have hsplit := hR.split s (min CHUNK (num - total))
      have hle := hR.le s (min CHUNK (num - total))
      have htake := prefix_eq_take _ _ _ hsplit
      have hpos : 0 < min CHUNK (num - total) := by simp [CHUNK]; omega
      split
      · rename_i h0
        have hnil : (R.read s (min CHUNK (num - total))).1 = [] := List.length_eq_zero_iff.mp h0
        have : R.rem s = [] := by
          apply Classical.byContradiction
          intro hne
          exact hR.progress s _ hpos hne hnil
        simp [this]
      · rename_i hne
        generalize hk : (R.read s (min CHUNK (num - total))).1.length = k at *
        have hkle : k ≤ (R.rem s).length := by
          have := congrArg List.length hsplit
          simp [List.length_append] at this; omega
        have hrest : R.rem (R.read s (min CHUNK (num - total))).2 = (R.rem s).drop k := by
          rw [rest_eq_drop _ _ _ hsplit, hk]
        have hfuel : (R.rem (R.read s (min CHUNK (num - total))).2).length < fuel := by
          rw [hrest, List.length_drop]; omega
        simp only []
        rw [ih _ _ hfuel, hrest]
        conv => lhs; rw [htake]
        have : num - total = k + (num - (total + k)) := by omega
        conv => rhs; rw [this, List.take_add]
    · rename_i hge
      have : num - total = 0 := by omega
      simp [this]

theorem read_all_any_schedule_fixed {σ : Type} (R : Src σ) (hR : Conforms R) (s : σ) (num : Nat) :
    (readLoopFixed R num ((R.rem s).length + 1) s 0).1 = (R.rem s).take num := by
  have := readLoopFixed_all R hR num ((R.rem s).length + 1) s 0 (by omega)
  simpa using this

/-! ### `read_line`, `read_to_string` -/

theorem readUntil_prefix {σ : Type} (cap : Nat) (R : Src σ) (hR : Conforms R) :
    ∀ (fuel : Nat) (st : Bytes × σ),
      (readUntil cap R fuel st).1 ++ ((readUntil cap R fuel st).2.1 ++ R.rem (readUntil cap R fuel st).2.2)
        = st.1 ++ R.rem st.2 := by
  intro fuel
  induction fuel with
  | zero => intro st; simp [readUntil]
  | succ fuel ih =>
    rintro ⟨buf, s⟩
    simp only [readUntil]
    have hfill : ∀ st1 : Bytes × σ, st1 = (if buf.isEmpty then R.read s cap else (buf, s)) →
        st1.1 ++ R.rem st1.2 = buf ++ R.rem s := by
      intro st1 h
      split at h
      · rename_i hb
        have : buf = [] := by simpa using hb
        subst h; subst this
        simpa using hR.split s cap
      · subst h; rfl
    generalize hst1 : (if buf.isEmpty then R.read s cap else (buf, s)) = st1
    have hf := hfill st1 hst1.symm
    split
    · simpa using hf
    · split
      · simp only [← List.append_assoc, List.take_append_drop]; exact hf
      · have := ih ([], st1.2)
        simp only [List.nil_append] at this
        simp only [List.append_assoc]
        rw [this]; exact hf

theorem drain_prefix {σ : Type} (R : Src σ) (hR : Conforms R) :
    ∀ (fuel : Nat) (s : σ), (drain R fuel s).1 ++ R.rem (drain R fuel s).2 = R.rem s := by
  intro fuel
  induction fuel with
  | zero => intro s; simp [drain]
  | succ fuel ih =>
    intro s
    simp only [drain]
    split
    · rename_i h
      have : (R.read s BUF).1 = [] := by simpa using h
      have hs := hR.split s BUF
      simpa [this] using hs
    · simp only [List.append_assoc]
      rw [ih]; exact hR.split s BUF

theorem drain_all {σ : Type} (R : Src σ) (hR : Conforms R) :
    ∀ (fuel : Nat) (s : σ), (R.rem s).length < fuel → (drain R fuel s).1 = R.rem s := by
  intro fuel
  induction fuel with
  | zero => intro s h; omega
  | succ fuel ih =>
    intro s hf
    simp only [drain]
    have hs := hR.split s BUF
    split
    · rename_i h
      have hnil : (R.read s BUF).1 = [] := by simpa using h
      apply Classical.byContradiction
      intro hne
      have : R.rem s ≠ [] := fun h0 => hne (by simp [h0])
      exact hR.progress s BUF (by decide) this hnil
    · rename_i h
      have hne : (R.read s BUF).1 ≠ [] := by simpa using h
      have hl : 0 < (R.read s BUF).1.length := List.length_pos_iff.mpr hne
      have hlen := congrArg List.length hs
      simp only [List.length_append] at hlen
      simp only []
      rw [ih _ (by omega)]
      exact hs

/-- **read_to_string consumes everything that remains**, whatever the schedule -/
theorem read_to_string_all {σ : Type} (R : Src σ) (hR : Conforms R) (st : Bytes × σ) :
    (readToEnd R st).1 = st.1 ++ R.rem st.2 ∧ (readToEnd R st).2.1 = [] ∧ R.rem (readToEnd R st).2.2 = [] := by
  have hall := drain_all R hR ((R.rem st.2).length + 1) st.2 (by omega)
  have hpre := drain_prefix R hR ((R.rem st.2).length + 1) st.2
  refine ⟨by simp [readToEnd, hall], by simp [readToEnd], ?_⟩
  simp only [readToEnd]
  rw [hall] at hpre
  exact List.append_right_eq_self.mp hpre |> fun h => h

theorem line_of_newline : ∀ (a b : Bytes) (i : Nat), newlineIdx a = some i →
    Spec.FileIo.line (a ++ b) = a.take (i + 1)
  | [], _, _, h => by simp [newlineIdx] at h
  | x :: xs, b, i, h => by
    simp only [newlineIdx] at h
    split at h
    · rename_i hx
      injection h with h; subst h
      simp [Spec.FileIo.line, hx]
    · rename_i hx
      cases hn : newlineIdx xs with
      | none => simp [hn] at h
      | some j =>
        simp [hn] at h; subst h
        simp [Spec.FileIo.line, hx, line_of_newline xs b j hn]

theorem line_no_newline : ∀ (a b : Bytes), newlineIdx a = none → Spec.FileIo.line (a ++ b) = a ++ Spec.FileIo.line b
  | [], _, _ => by simp
  | x :: xs, b, h => by
    simp only [newlineIdx] at h
    split at h
    · cases h
    · rename_i hx
      cases hn : newlineIdx xs with
      | none => simp [Spec.FileIo.line, hx, line_no_newline xs b hn]
      | some j => simp [hn] at h

/-- **read_line returns the next line** (newline included; everything when there is none),
whatever the schedule -/
theorem read_line_law {σ : Type} (cap : Nat) (hcap : 0 < cap) (R : Src σ) (hR : Conforms R) :
    ∀ (fuel : Nat) (st : Bytes × σ), (st.1 ++ R.rem st.2).length < fuel →
      (readUntil cap R fuel st).1 = Spec.FileIo.line (st.1 ++ R.rem st.2) := by
  intro fuel
  induction fuel with
  | zero => intro st h; omega
  | succ fuel ih =>
    rintro ⟨buf, s⟩ hf
    simp only [readUntil]
    have hfill : ∀ st1 : Bytes × σ, st1 = (if buf.isEmpty then R.read s cap else (buf, s)) →
        st1.1 ++ R.rem st1.2 = buf ++ R.rem s ∧ (st1.1 = [] → buf ++ R.rem s = []) := by
      intro st1 h
      split at h
      · rename_i hb
        have hbe : buf = [] := by simpa using hb
        subst h; subst hbe
        refine ⟨by simpa using hR.split s cap, ?_⟩
        intro h0
        apply Classical.byContradiction
        intro hne
        exact hR.progress s cap hcap (by simpa using hne) h0
      · rename_i hb
        subst h
        exact ⟨rfl, fun h0 => absurd (by simpa using h0) hb⟩
    generalize hst1 : (if buf.isEmpty then R.read s cap else (buf, s)) = st1
    obtain ⟨hf1, hf2⟩ := hfill st1 hst1.symm
    simp only [] at hf
    split
    · rename_i he
      have : st1.1 = [] := by simpa using he
      rw [hf2 this]; simp [Spec.FileIo.line]
    · rename_i he
      have hne : st1.1 ≠ [] := by simpa using he
      have hl : 0 < st1.1.length := List.length_pos_iff.mpr hne
      rw [← hf1]
      split
      · rename_i i hi
        exact (line_of_newline _ _ i hi).symm
      · rename_i hi
        have hlen : (([] : Bytes) ++ R.rem st1.2).length < fuel := by
          have := congrArg List.length hf1
          simp only [List.length_append] at this
          simp only [List.nil_append]
          simp only [List.length_append] at hf
          omega
        have := ih ([], st1.2) hlen
        simp only [List.nil_append] at this
        simp only []
        rw [this, line_no_newline _ _ hi]

/-! ### the prefix law for call sequences -/

theorem call_prefix {σ : Type} (fx : Fixes) (R : Src σ) (hR : Conforms R) (h : Handle) (st : Bytes × σ) (c : Call) :
    (call fx R h st c).2.1 ++ ((call fx R h st c).2.2.1 ++ R.rem (call fx R h st c).2.2.2) = st.1 ++ R.rem st.2 := by
  have hB := bufSrc_conforms BUF (by decide) R hR
  cases c with
  | readAll => exact readFromFileV_prefix fx.readLoop (bufSrc BUF R) hB st USIZE_MAX
  | readN n => exact readFromFileV_prefix fx.readLoop (bufSrc BUF R) hB st (asUsize n)
  | readLine => exact readUntil_prefix BUF R hR _ st
  | readToString =>
    by_cases hc : h = .stdin ∧ fx.stdinToString = false
    · simp [call, hc]
    · have hp := drain_prefix R hR ((R.rem st.2).length + 1) st.2
      simp only [call, hc, if_false, readToEnd, List.nil_append, List.append_assoc]
      rw [hp]

/-- a result that carries data carries exactly what the call consumed -/
theorem call_data {σ : Type} (fx : Fixes) (R : Src σ) (h : Handle) (st : Bytes × σ) (c : Call) :
    match (call fx R h st c).1 with
    | .bytes b => b = (call fx R h st c).2.1
    | .str b => b = (call fx R h st c).2.1
    | _ => True := by
  cases c with
  | readAll => simp [call]
  | readN n => simp [call]
  | readLine =>
    simp only [call]
    generalize readUntil BUF R _ st = r
    cases utf8Valid r.1 <;> simp
  | readToString =>
    by_cases hc : h = .stdin ∧ fx.stdinToString = false
    · simp [call, hc]
    · simp only [call, hc, if_false]
      generalize readToEnd R st = r
      cases utf8Valid r.1 <;> simp

/-- **prefix law**: for every conforming source (every chunk schedule), every handle and every
sequence of calls — on the unchanged tree and with any of the repairs — the bytes consumed by the
calls, in order, followed by what is still unread, are the original content -/
theorem prefix_law {σ : Type} (fx : Fixes) (R : Src σ) (hR : Conforms R) (h : Handle) :
    ∀ (calls : List Call) (st : Bytes × σ),
      (consumed fx R h st calls).1 ++ ((consumed fx R h st calls).2.1 ++ R.rem (consumed fx R h st calls).2.2)
        = st.1 ++ R.rem st.2 := by
  intro calls
  induction calls with
  | nil => intro st; simp [consumed]
  | cons c cs ih =>
    intro st
    simp only [consumed, List.append_assoc]
    rw [ih]; exact call_prefix fx R hR h st c

/-- with the repair of F16, `read(f)` returns everything that remains — for every conforming
source, i.e. whatever the chunk schedule (contents shorter than `usize::MAX`) -/
theorem read_all_any_schedule_repaired {σ : Type} (fx : Fixes) (hfx : fx.readLoop = true) (R : Src σ) (hR : Conforms R)
    (h : Handle) (st : Bytes × σ) (hlen : (st.1 ++ R.rem st.2).length ≤ USIZE_MAX) :
    (call fx R h st .readAll).2.1 = st.1 ++ R.rem st.2 := by
  have hB := bufSrc_conforms BUF (by decide) R hR
  have := readLoopFixed_all (bufSrc BUF R) hB USIZE_MAX (((bufSrc BUF R).rem st).length + 1) st 0 (by omega)
  simp only [Nat.sub_zero] at this
  simp only [call, hfx, readFromFileV, if_true]
  rw [this]
  exact List.take_of_length_le hlen

/-! ### `open` modes and written files -/

def modeString : Spec.FileIo.Mode → String
  | .r => "r" | .w => "w" | .a => "a" | .x => "x"

/-- what the model's `open` does on a path, in the specification's terms -/
def modelOpen (fx : Fixes) (m : Spec.FileIo.Mode) (existing : Option Bytes) : Option Bytes :=
  match openOpts fx (modeString m) with
  | none => none
  | some o => match osOpen o existing with
    | .ok c => some c
    | .error _ => none

/-- the documented table, as a statement about the model -/
def ModeTable (fx : Fixes) : Prop := ∀ m existing, modelOpen fx m existing = Spec.FileIo.openSpec m existing

/-- **mode table**: `open` realises the documented table, except `a` on a missing file -/
theorem mode_table_partial (fx : Fixes) (m : Spec.FileIo.Mode) (existing : Option Bytes)
    (hex : ¬ (m = .a ∧ existing = none)) : modelOpen fx m existing = Spec.FileIo.openSpec m existing := by
  cases m <;> cases existing <;> simp_all [modelOpen, modeString, openOpts, osOpen, Spec.FileIo.openSpec]

/-- **witness**: `open(p, "a")` on a missing file is ENOENT although the table says "create it" -/
theorem mode_a_missing_witness :
    modelOpen {} .a none = none ∧ Spec.FileIo.openSpec .a none = some [] ∧
    (openOpts {} "a").map (fun o => osOpen o none) = some (.error .enoent) := by
  simp [modelOpen, modeString, openOpts, osOpen, Spec.FileIo.openSpec]

theorem mode_table_false : ¬ ModeTable {} := by
  intro h
  have := h .a none
  simp [modelOpen, modeString, openOpts, osOpen, Spec.FileIo.openSpec] at this

/-- with the repair of F17 (`create(true)` for mode `a`) the whole documented table holds -/
theorem mode_table_repaired (fx : Fixes) (hfx : fx.appendCreates = true) : ModeTable fx := by
  intro m existing
  cases m <;> cases existing <;> simp_all [modelOpen, modeString, openOpts, osOpen, Spec.FileIo.openSpec]

theorem bufw_write_inv (w : BufW) (d : Bytes) :
    (w.write d).1.file ++ (w.write d).1.buf = w.file ++ w.buf ++ d ∧ (w.write d).2 = d.length := by
  simp only [BufW.write]
  split
  · rename_i h1
    split
    · simp
    · rename_i h2
      have : w.buf = [] := List.length_eq_zero_iff.mp (by omega)
      simp [this]
  · split <;> simp

theorem writes_inv (ws : List Bytes) : ∀ (acc : BufW × List Nat),
    let r := ws.foldl (fun (acc : BufW × List Nat) d => let x := acc.1.write d; (x.1, acc.2 ++ [x.2])) acc
    r.1.file ++ r.1.buf = acc.1.file ++ acc.1.buf ++ ws.flatten ∧ r.2 = acc.2 ++ ws.map List.length := by
  induction ws with
  | nil => intro acc; simp
  | cons d ds ih =>
    intro acc
    have h := ih ((acc.1.write d).1, acc.2 ++ [(acc.1.write d).2])
    have hw := bufw_write_inv acc.1 d
    simp only [List.foldl_cons]
    simp only [] at h
    refine ⟨?_, ?_⟩
    · rw [h.1, hw.1]; simp [List.append_assoc]
    · rw [h.2, hw.2]; simp [List.append_assoc]

/-- **written files**: opened with `w`, `a` or `x`, written, then flushed or closed at a normal
program end (or ended by `exit` once F32 is repaired), the file holds what the open left followed by exactly the bytes written, and every
`write` returned the length of its data -/
theorem write_contents (fx : Fixes) (mode : String) (o : OpenOpts) (existing : Option Bytes) (c : Bytes) (writes : List Bytes)
    (e : Ending) (hm : openOpts fx mode = some o) (ho : osOpen o existing = .ok c) (hr : o.read = false)
    (he : e ≠ .exit ∨ fx.exitFlushes = true) :
    writeRun fx mode existing writes e = (.handle, writes.map List.length, some (c ++ writes.flatten)) := by
  have h := writes_inv writes ({ file := c }, [])
  simp only [List.append_nil, List.nil_append] at h
  simp only [writeRun, hm, ho, hr]
  cases e <;> simp_all [BufW.flush]

/-- **witness**: `write(f, "data"); exit(0)` leaves the file empty -/
theorem exit_loses_buffer :
    writeRun {} "w" none [[100, 97, 116, 97]] .exit = (.handle, [4], some []) ∧
    writeRun {} "w" none [[100, 97, 116, 97]] .normal = (.handle, [4], some [100, 97, 116, 97]) := by
  decide

end P2sh.Props.C21
