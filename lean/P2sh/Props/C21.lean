import P2sh.Model.FileRead
import P2sh.Spec.FileIo
/-!
# C21 — file reads return the file's bytes exactly once, in order, however chunked

Model: `P2sh.FileRead`; specification: `P2sh.Spec.FileIo`.

* `chunkSrc_conforms`, `bufSrc_conforms` — pipes fed in any chunks and `BufReader` over any
  conforming source are conforming sources (so the theorems below cover them);
* `read_all_any_schedule` — for **every** conforming source (every chunk schedule) `read_from_file`
  returns the next `min num remaining` bytes; `read_all_everything`: `read(f)` returns all that remains;
* `prefix_law` — for every conforming source and call sequence, what the calls consumed, in order,
  followed by what the source still holds, is the original content: nothing is duplicated, reordered
  or skipped (`call_data`: a non-error result *is* what the call consumed);
* `read_to_string_all`, `read_line_law` — `read_to_string` consumes everything that remains and
  `read_line` returns exactly the next line, for every conforming source;
* `mode_table` — `open`'s flags realise the documented table r/w/a/x on existing and missing files;
* `write_contents` — opened with w, a or x, written, and ended in any way (normal end, flush, exit,
  flush + exit), the file holds what the open left followed by exactly the bytes written.

Each theorem is followed by a closed `example` showing that it is not vacuous.

History: until the repairs 1d58337 (read loop ended at the first short read, F16), c1bd463 (`a` did
not create, F17), 4a4909b (`read_to_string(stdin)` was a runtime error, F31) and e03497a (`exit` lost
buffered writes, F32) the first, fourth and fifth statement were false; the model now is the repaired
code, and reverting any of them makes model and implementation disagree on the correspondence run.
-/
namespace P2sh.Props.C21
open P2sh P2sh.FileRead

/-! ### sources -/

theorem take_ne_nil {α : Type} : ∀ (l : List α) (n : Nat), 0 < n → l ≠ [] → l.take n ≠ []
  | [], _, _, h => absurd rfl h
  | _ :: _, n + 1, _, _ => by simp
  | _ :: _, 0, h, _ => by omega

theorem rest_eq_drop {α : Type} (a b l : List α) (h : a ++ b = l) : b = l.drop a.length := by
  subst h; simp

theorem chunkRead_split : ∀ (cs : List Bytes) (n : Nat), (chunkRead cs n).1 ++ (chunkRead cs n).2.flatten = cs.flatten
  | [], n => by simp [chunkRead]
  | c :: cs, n => by
    simp only [chunkRead]
    split
    · rename_i h
      have : c = [] := by simpa using h
      simp [this, chunkRead_split cs n]
    · split
      · simp
      · simp [← List.append_assoc]

theorem chunkRead_le : ∀ (cs : List Bytes) (n : Nat), (chunkRead cs n).1.length ≤ n
  | [], n => by simp [chunkRead]
  | c :: cs, n => by
    simp only [chunkRead]
    split
    · exact chunkRead_le cs n
    · split
      · assumption
      · simp [List.length_take]; omega

theorem chunkRead_progress : ∀ (cs : List Bytes) (n : Nat), 0 < n → cs.flatten ≠ [] → (chunkRead cs n).1 ≠ []
  | [], n, _, h => by simp at h
  | c :: cs, n, hn, h => by
    simp only [chunkRead]
    split
    · rename_i hc
      have : c = [] := by simpa using hc
      exact chunkRead_progress cs n hn (by simpa [this] using h)
    · rename_i hc
      have hne : c ≠ [] := by simpa using hc
      split
      · exact hne
      · exact take_ne_nil c n hn hne

theorem chunkSrc_conforms : Conforms chunkSrc :=
  ⟨chunkRead_split, chunkRead_le, chunkRead_progress⟩

theorem bufSrc_conforms {σ : Type} (cap : Nat) (hcap : 0 < cap) (R : Src σ) (hR : Conforms R) :
    Conforms (bufSrc cap R) := by
  refine ⟨?_, ?_, ?_⟩
  · rintro ⟨buf, s⟩ n
    simp only [bufSrc, bufRead]
    split
    · rename_i hb
      have : buf = [] := by simpa using hb
      subst this
      split
      · simpa using hR.split s n
      · have := hR.split s cap
        simp only [List.nil_append]
        rw [← List.append_assoc, List.take_append_drop]; exact this
    · simp [← List.append_assoc]
  · rintro ⟨buf, s⟩ n
    simp only [bufSrc, bufRead]
    split
    · split
      · exact hR.le s n
      · simp [List.length_take]; omega
    · simp [List.length_take]; omega
  · rintro ⟨buf, s⟩ n hn hrem
    simp only [bufSrc, bufRead] at *
    split
    · rename_i hb
      have hbe : buf = [] := by simpa using hb
      subst hbe
      have hrem' : R.rem s ≠ [] := by simpa using hrem
      split
      · exact hR.progress s n hn hrem'
      · exact take_ne_nil _ n hn (hR.progress s cap hcap hrem')
    · rename_i hb
      have hne : buf ≠ [] := by simpa using hb
      exact take_ne_nil buf n hn hne

/-! ### `read_from_file` -/

theorem readLoop_prefix {σ : Type} (R : Src σ) (hR : Conforms R) (num : Nat) :
    ∀ (fuel : Nat) (s : σ) (total : Nat),
      (readLoop R num fuel s total).1 ++ R.rem (readLoop R num fuel s total).2 = R.rem s := by
  intro fuel
  induction fuel with
  | zero => intro s total; simp [readLoop]
  | succ fuel ih =>
    intro s total
    simp only [readLoop]
    split
    · split
      · rename_i h0
        have hs := hR.split s (min CHUNK (num - total))
        have : (R.read s (min CHUNK (num - total))).1 = [] := List.length_eq_zero_iff.mp h0
        simpa [this] using hs
      · simp only [List.append_assoc]
        rw [ih]; exact hR.split _ _
    · simp

theorem readFromFile_prefix {σ : Type} (R : Src σ) (hR : Conforms R) (s : σ) (num : Nat) :
    (readFromFile R s num).1 ++ R.rem (readFromFile R s num).2 = R.rem s :=
  readLoop_prefix R hR num _ s 0

theorem prefix_eq_take {α : Type} (a b l : List α) (h : a ++ b = l) : a = l.take a.length := by
  subst h; simp

/-- the loop returns all of `min (num - total) remaining`, for every conforming source -/
theorem readLoop_all {σ : Type} (R : Src σ) (hR : Conforms R) (num : Nat) :
    ∀ (fuel : Nat) (s : σ) (total : Nat), (R.rem s).length < fuel →
      (readLoop R num fuel s total).1 = (R.rem s).take (num - total) := by
  intro fuel
  induction fuel with
  | zero => intro s total h; omega
  | succ fuel ih =>
    intro s total hf
    simp only [readLoop]
    split
    · rename_i hlt
      have hsplit := hR.split s (min CHUNK (num - total))
      have hle := hR.le s (min CHUNK (num - total))
      have htake := prefix_eq_take _ _ _ hsplit
      have hpos : 0 < min CHUNK (num - total) := by simp [CHUNK]; omega
      split
      · rename_i h0
        have hnil : (R.read s (min CHUNK (num - total))).1 = [] := List.length_eq_zero_iff.mp h0
        have : R.rem s = [] := by
          apply Classical.byContradiction
          intro hne
          exact hR.progress s _ hpos hne hnil
        simp [this]
      · rename_i hne
        generalize hk : (R.read s (min CHUNK (num - total))).1.length = k at *
        have hkle : k ≤ (R.rem s).length := by
          have := congrArg List.length hsplit
          simp [List.length_append] at this; omega
        have hrest : R.rem (R.read s (min CHUNK (num - total))).2 = (R.rem s).drop k := by
          rw [rest_eq_drop _ _ _ hsplit, hk]
        have hfuel : (R.rem (R.read s (min CHUNK (num - total))).2).length < fuel := by
          rw [hrest, List.length_drop]; omega
        simp only []
        rw [ih _ _ hfuel, hrest]
        conv => lhs; rw [htake]
        have : num - total = k + (num - (total + k)) := by omega
        conv => rhs; rw [this, List.take_add]
    · rename_i hge
      have : num - total = 0 := by omega
      simp [this]

/-- **read_all_any_schedule**: for every conforming source — every way the operating system may
chunk the input — `read_from_file(reader, num)` returns exactly the next `min num remaining` bytes;
with `num = usize::MAX` (`read(f)`) that is the whole remaining content -/
theorem read_all_any_schedule {σ : Type} (R : Src σ) (hR : Conforms R) (s : σ) (num : Nat) :
    (readFromFile R s num).1 = (R.rem s).take num := by
  have := readLoop_all R hR num ((R.rem s).length + 1) s 0 (by omega)
  simpa [readFromFile] using this

/-- non-vacuity: a pipe that delivers 1 byte, then the rest (the schedule on which the loop used to
stop early), and a 3-byte request across two chunks -/
example : Conforms chunkSrc ∧ (readFromFile chunkSrc [[1], [2, 3]] USIZE_MAX).1 = [1, 2, 3] ∧
    (readFromFile chunkSrc [[1, 2], [3, 4]] 3).1 = [1, 2, 3] := ⟨chunkSrc_conforms, by decide, by decide⟩

/-- … also through a `BufReader` (capacity 4 to keep the witness small) whose buffer was partly
consumed by an earlier `read(f, 1)` -/
example :
    let src := bufSrc 4 chunkSrc
    let r1 := readFromFile src ([], [[1, 2, 3, 4, 5, 6, 7, 8, 9]]) 1
    r1.1 = [1] ∧ (readFromFile src r1.2 USIZE_MAX).1 = [2, 3, 4, 5, 6, 7, 8, 9] := by decide

/-! ### `read_line`, `read_to_string` -/

theorem readUntil_prefix {σ : Type} (cap : Nat) (R : Src σ) (hR : Conforms R) :
    ∀ (fuel : Nat) (st : Bytes × σ),
      (readUntil cap R fuel st).1 ++ ((readUntil cap R fuel st).2.1 ++ R.rem (readUntil cap R fuel st).2.2)
        = st.1 ++ R.rem st.2 := by
  intro fuel
  induction fuel with
  | zero => intro st; simp [readUntil]
  | succ fuel ih =>
    rintro ⟨buf, s⟩
    simp only [readUntil]
    have hfill : ∀ st1 : Bytes × σ, st1 = (if buf.isEmpty then R.read s cap else (buf, s)) →
        st1.1 ++ R.rem st1.2 = buf ++ R.rem s := by
      intro st1 h
      split at h
      · rename_i hb
        have : buf = [] := by simpa using hb
        subst h; subst this
        simpa using hR.split s cap
      · subst h; rfl
    generalize hst1 : (if buf.isEmpty then R.read s cap else (buf, s)) = st1
    have hf := hfill st1 hst1.symm
    split
    · simpa using hf
    · split
      · simp only [← List.append_assoc, List.take_append_drop]; exact hf
      · have := ih ([], st1.2)
        simp only [List.nil_append] at this
        simp only [List.append_assoc]
        rw [this]; exact hf

theorem drain_prefix {σ : Type} (R : Src σ) (hR : Conforms R) :
    ∀ (fuel : Nat) (s : σ), (drain R fuel s).1 ++ R.rem (drain R fuel s).2 = R.rem s := by
  intro fuel
  induction fuel with
  | zero => intro s; simp [drain]
  | succ fuel ih =>
    intro s
    simp only [drain]
    split
    · rename_i h
      have : (R.read s BUF).1 = [] := by simpa using h
      have hs := hR.split s BUF
      simpa [this] using hs
    · simp only [List.append_assoc]
      rw [ih]; exact hR.split s BUF

theorem drain_all {σ : Type} (R : Src σ) (hR : Conforms R) :
    ∀ (fuel : Nat) (s : σ), (R.rem s).length < fuel → (drain R fuel s).1 = R.rem s := by
  intro fuel
  induction fuel with
  | zero => intro s h; omega
  | succ fuel ih =>
    intro s hf
    simp only [drain]
    have hs := hR.split s BUF
    split
    · rename_i h
      have hnil : (R.read s BUF).1 = [] := by simpa using h
      apply Classical.byContradiction
      intro hne
      have : R.rem s ≠ [] := fun h0 => hne (by simp [h0])
      exact hR.progress s BUF (by decide) this hnil
    · rename_i h
      have hne : (R.read s BUF).1 ≠ [] := by simpa using h
      have hl : 0 < (R.read s BUF).1.length := List.length_pos_iff.mpr hne
      have hlen := congrArg List.length hs
      simp only [List.length_append] at hlen
      simp only []
      rw [ih _ (by omega)]
      exact hs

/-- **read_to_string consumes everything that remains**, whatever the schedule -/
theorem read_to_string_all {σ : Type} (R : Src σ) (hR : Conforms R) (st : Bytes × σ) :
    (readToEnd R st).1 = st.1 ++ R.rem st.2 ∧ (readToEnd R st).2.1 = [] ∧ R.rem (readToEnd R st).2.2 = [] := by
  have hall := drain_all R hR ((R.rem st.2).length + 1) st.2 (by omega)
  have hpre := drain_prefix R hR ((R.rem st.2).length + 1) st.2
  refine ⟨by simp [readToEnd, hall], by simp [readToEnd], ?_⟩
  simp only [readToEnd]
  rw [hall] at hpre
  exact List.append_right_eq_self.mp hpre |> fun h => h

/-- non-vacuity: buffered bytes plus two chunks -/
example : (readToEnd chunkSrc ([7], [[1], [2, 3]])).1 = [7, 1, 2, 3] := by decide

theorem line_of_newline : ∀ (a b : Bytes) (i : Nat), newlineIdx a = some i →
    Spec.FileIo.line (a ++ b) = a.take (i + 1)
  | [], _, _, h => by simp [newlineIdx] at h
  | x :: xs, b, i, h => by
    simp only [newlineIdx] at h
    split at h
    · rename_i hx
      injection h with h; subst h
      simp [Spec.FileIo.line, hx]
    · rename_i hx
      cases hn : newlineIdx xs with
      | none => simp [hn] at h
      | some j =>
        simp [hn] at h; subst h
        simp [Spec.FileIo.line, hx, line_of_newline xs b j hn]

theorem line_no_newline : ∀ (a b : Bytes), newlineIdx a = none → Spec.FileIo.line (a ++ b) = a ++ Spec.FileIo.line b
  | [], _, _ => by simp
  | x :: xs, b, h => by
    simp only [newlineIdx] at h
    split at h
    · cases h
    · rename_i hx
      cases hn : newlineIdx xs with
      | none => simp [Spec.FileIo.line, hx, line_no_newline xs b hn]
      | some j => simp [hn] at h

/-- **read_line returns the next line** (newline included; everything when there is none),
whatever the schedule -/
theorem read_line_law {σ : Type} (cap : Nat) (hcap : 0 < cap) (R : Src σ) (hR : Conforms R) :
    ∀ (fuel : Nat) (st : Bytes × σ), (st.1 ++ R.rem st.2).length < fuel →
      (readUntil cap R fuel st).1 = Spec.FileIo.line (st.1 ++ R.rem st.2) := by
  intro fuel
  induction fuel with
  | zero => intro st h; omega
  | succ fuel ih =>
    rintro ⟨buf, s⟩ hf
    simp only [readUntil]
    have hfill : ∀ st1 : Bytes × σ, st1 = (if buf.isEmpty then R.read s cap else (buf, s)) →
        st1.1 ++ R.rem st1.2 = buf ++ R.rem s ∧ (st1.1 = [] → buf ++ R.rem s = []) := by
      intro st1 h
      split at h
      · rename_i hb
        have hbe : buf = [] := by simpa using hb
        subst h; subst hbe
        refine ⟨by simpa using hR.split s cap, ?_⟩
        intro h0
        apply Classical.byContradiction
        intro hne
        exact hR.progress s cap hcap (by simpa using hne) h0
      · rename_i hb
        subst h
        exact ⟨rfl, fun h0 => absurd (by simpa using h0) hb⟩
    generalize hst1 : (if buf.isEmpty then R.read s cap else (buf, s)) = st1
    obtain ⟨hf1, hf2⟩ := hfill st1 hst1.symm
    simp only [] at hf
    split
    · rename_i he
      have : st1.1 = [] := by simpa using he
      rw [hf2 this]; simp [Spec.FileIo.line]
    · rename_i he
      have hne : st1.1 ≠ [] := by simpa using he
      have hl : 0 < st1.1.length := List.length_pos_iff.mpr hne
      rw [← hf1]
      split
      · rename_i i hi
        exact (line_of_newline _ _ i hi).symm
      · rename_i hi
        have hlen : (([] : Bytes) ++ R.rem st1.2).length < fuel := by
          have := congrArg List.length hf1
          simp only [List.length_append] at this
          simp only [List.nil_append]
          simp only [List.length_append] at hf
          omega
        have := ih ([], st1.2) hlen
        simp only [List.nil_append] at this
        simp only []
        rw [this, line_no_newline _ _ hi]

/-- non-vacuity: a line that spans two chunks, through a `BufReader` of capacity 2 -/
example : (readUntil 2 chunkSrc 10 ([], [[104, 105], [33, 10, 120]])).1 = [104, 105, 33, 10] ∧
    Spec.FileIo.line [104, 105, 33, 10, 120] = [104, 105, 33, 10] := by decide

/-! ### the prefix law for call sequences -/

theorem call_prefix {σ : Type} (R : Src σ) (hR : Conforms R) (st : Bytes × σ) (c : Call) :
    (call R st c).2.1 ++ ((call R st c).2.2.1 ++ R.rem (call R st c).2.2.2) = st.1 ++ R.rem st.2 := by
  have hB := bufSrc_conforms BUF (by decide) R hR
  cases c with
  | readAll => exact readFromFile_prefix (bufSrc BUF R) hB st USIZE_MAX
  | readN n => exact readFromFile_prefix (bufSrc BUF R) hB st (asUsize n)
  | readLine => exact readUntil_prefix BUF R hR _ st
  | readToString =>
    have hp := drain_prefix R hR ((R.rem st.2).length + 1) st.2
    simp only [call, readToEnd, List.nil_append, List.append_assoc]
    rw [hp]

/-- a result that carries data carries exactly what the call consumed -/
theorem call_data {σ : Type} (R : Src σ) (st : Bytes × σ) (c : Call) :
    match (call R st c).1 with
    | .bytes b => b = (call R st c).2.1
    | .str b => b = (call R st c).2.1
    | _ => True := by
  cases c with
  | readAll => simp [call]
  | readN n => simp [call]
  | readLine =>
    simp only [call]
    generalize readUntil BUF R _ st = r
    cases utf8Valid r.1 <;> simp
  | readToString =>
    simp only [call]
    generalize readToEnd R st = r
    cases utf8Valid r.1 <;> simp

/-- **prefix law**: for every conforming source (every chunk schedule) and every sequence of
`read(f)`, `read(f, n)`, `read_line(f)`, `read_to_string(f)` calls on one handle, the bytes consumed
by the calls, in order, followed by what is still unread, are the original content -/
theorem prefix_law {σ : Type} (R : Src σ) (hR : Conforms R) :
    ∀ (calls : List Call) (st : Bytes × σ),
      (consumed R st calls).1 ++ ((consumed R st calls).2.1 ++ R.rem (consumed R st calls).2.2)
        = st.1 ++ R.rem st.2 := by
  intro calls
  induction calls with
  | nil => intro st; simp [consumed]
  | cons c cs ih =>
    intro st
    simp only [consumed, List.append_assoc]
    rw [ih]; exact call_prefix R hR st c

/-- **read(f) returns everything that remains**, whatever the schedule (contents shorter than `usize::MAX`) -/
theorem read_all_everything {σ : Type} (R : Src σ) (hR : Conforms R) (st : Bytes × σ)
    (hlen : (st.1 ++ R.rem st.2).length ≤ USIZE_MAX) :
    (call R st .readAll).2.1 = st.1 ++ R.rem st.2 := by
  have hB := bufSrc_conforms BUF (by decide) R hR
  have := read_all_any_schedule (bufSrc BUF R) hB st USIZE_MAX
  simp only [call]
  rw [this]
  exact List.take_of_length_le hlen

/-- non-vacuity: read(f, 2), read_line, read(f) on a pipe of three chunks consume `1 2 | 3 10 | 5 6`
and leave nothing -/
example :
    let r := consumed chunkSrc ([], [[1, 2, 3], [10, 5], [6]]) [.readN 2, .readLine, .readAll]
    r.1 = [1, 2, 3, 10, 5, 6] ∧ r.2.1 ++ chunkSrc.rem r.2.2 = [] ∧
    runCalls chunkSrc ([], [[1, 2, 3], [10, 5], [6]]) [.readN 2, .readLine, .readAll]
      = [.bytes [1, 2], .str [3, 10], .bytes [5, 6]] := by
  refine ⟨by decide, by decide, ?_⟩
  simp [runCalls, call, readFromFile, readLoop, bufSrc, bufRead, chunkSrc, chunkRead, readUntil, newlineIdx,
    utf8Valid, BUF, CHUNK, USIZE_MAX, asUsize]
  decide

/-! ### `open` modes and written files -/

def modeString : Spec.FileIo.Mode → String
  | .r => "r" | .w => "w" | .a => "a" | .x => "x"

/-- what the model's `open` does on a path, in the specification's terms -/
def modelOpen (m : Spec.FileIo.Mode) (existing : Option Bytes) : Option Bytes :=
  match openOpts (modeString m) with
  | none => none
  | some o => match osOpen o existing with
    | .ok c => some c
    | .error _ => none

/-- **mode table**: `open` realises the documented table — r: must exist; w: create or truncate;
a: create or append; x: create, failing if it exists -/
theorem mode_table (m : Spec.FileIo.Mode) (existing : Option Bytes) :
    modelOpen m existing = Spec.FileIo.openSpec m existing := by
  cases m <;> cases existing <;> simp [modelOpen, modeString, openOpts, osOpen, Spec.FileIo.openSpec]

/-- non-vacuity: the four corners that differ between the modes -/
example : modelOpen .a none = some [] ∧ modelOpen .a (some [1]) = some [1] ∧ modelOpen .x (some [1]) = none ∧
    modelOpen .r none = none ∧ modelOpen .w (some [1]) = some [] := by
  simp [modelOpen, modeString, openOpts, osOpen]

theorem bufw_write_inv (w : BufW) (d : Bytes) :
    (w.write d).1.file ++ (w.write d).1.buf = w.file ++ w.buf ++ d ∧ (w.write d).2 = d.length := by
  simp only [BufW.write]
  split
  · rename_i h1
    split
    · simp
    · rename_i h2
      have : w.buf = [] := List.length_eq_zero_iff.mp (by omega)
      simp [this]
  · split <;> simp

theorem writes_inv (ws : List Bytes) : ∀ (acc : BufW × List Nat),
    let r := ws.foldl (fun (acc : BufW × List Nat) d => let x := acc.1.write d; (x.1, acc.2 ++ [x.2])) acc
    r.1.file ++ r.1.buf = acc.1.file ++ acc.1.buf ++ ws.flatten ∧ r.2 = acc.2 ++ ws.map List.length := by
  induction ws with
  | nil => intro acc; simp
  | cons d ds ih =>
    intro acc
    have h := ih ((acc.1.write d).1, acc.2 ++ [(acc.1.write d).2])
    have hw := bufw_write_inv acc.1 d
    simp only [List.foldl_cons]
    simp only [] at h
    refine ⟨?_, ?_⟩
    · rw [h.1, hw.1]; simp [List.append_assoc]
    · rw [h.2, hw.2]; simp [List.append_assoc]

/-- **written files**: opened with `w`, `a` or `x`, written, and ended in any way — the script
running to its end, `flush(f)`, `exit(0)`, or both — the file holds what the open left followed by
exactly the bytes written, and every `write` returned the length of its data -/
theorem write_contents (mode : String) (o : OpenOpts) (existing : Option Bytes) (c : Bytes) (writes : List Bytes)
    (e : Ending) (hm : openOpts mode = some o) (ho : osOpen o existing = .ok c) (hr : o.read = false) :
    writeRun mode existing writes e = (.handle, writes.map List.length, some (c ++ writes.flatten)) := by
  have h := writes_inv writes ({ file := c }, [])
  simp only [List.append_nil, List.nil_append] at h
  simp only [writeRun, hm, ho, hr]
  cases e <;> simp_all [BufW.flush]

/-- non-vacuity: `write(f, "data"); exit(0)` under w on a missing file, and an append to an existing one -/
example : writeRun "w" none [[100, 97, 116, 97]] .exit = (.handle, [4], some [100, 97, 116, 97]) ∧
    writeRun "a" (some [1, 2]) [[3], [4, 5]] .normal = (.handle, [1, 2], some [1, 2, 3, 4, 5]) := by
  decide

end P2sh.Props.C21
