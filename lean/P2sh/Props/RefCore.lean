import P2sh.Spec.Ref
import P2sh.Core.Lang
import P2sh.Core.Correct
import P2sh.Core.Encode
import P2sh.Props.C06
import P2sh.Props.C09
import P2sh.Props.RefBvars
/-!
# The oracle and the compiler's source semantics agree on the core fragment

Two semantics of the language live in this development:

* `Spec/Ref.lean` (`Ref.evalE`): the reference interpreter over the real AST, written from the
  language documents -- the **oracle** of the differential tests; its operators are `Spec.binary`,
  `Spec.unary`, `Spec.falsey`;
* `Core/Lang.lean` (`Core.eval`): the evaluation of core expressions against which **compiler
  correctness** is stated (`Core.compile_correct`); its operators are the VM model's
  (`execOperator`, `unaryBang/Minus/Not`, `Val.isFalsey`).

This file connects them.  `toAst nm ln e` embeds a core expression into the AST the way its source
text parses (`ofExpr_toAst`: `Core.ofExpr`, the recogniser of the fragment that reads the AST of
parsed source, maps it back to `e` for every expression that source text denotes).  `EnvRel nm env st g` relates the oracle's environment / state to Core's globals.  Then, for
**every** core expression `e` (all fourteen constructors: literals, `true`/`false`/`null`, unary and
binary operators, `<`/`<=` with their right-to-left evaluation, `&&`/`||`, `if`/`else`, reads of and
assignments to globals, `match` with literal / range / default patterns and `|` alternatives) whose
global indices are below the number of globals (`globalsBelow`):

* `ref_value_core`   -- if the oracle yields a value, `Core.eval` yields that value, and the states
                        stay related (environment unchanged, only the cells change);
* `ref_error_core`   -- if the oracle raises a runtime error, `Core.eval` is `none` (runtime error);
* `ref_no_jump_core` -- the oracle never leaves such an expression through `break`/`continue`/`return`;
* `ref_value_compiled` -- with `Core.compile_correct`: the compiled code pushes the oracle's value.

Nothing is claimed when the oracle ends in `unc` (the documents do not say), `mem` (a repetition
beyond 16 MiB) or `fuel`: there the oracle does not commit.  In particular no restriction on
literals is needed: a `lit`/pattern value that no literal denotes is embedded as `Expr.invalid` /
a range without literal bounds, on which the oracle answers `unc`.

The only hypothesis on the expression is `globalsBelow g.length e` (a compiled program refers to
defined globals only; `gget i` beyond the globals is `null` for Core and an unbound name for the
oracle).  `EnvRel` asks that every global hold a scalar (null, bool, int, float, char, byte, string):
on scalars `reify`/`reflect` are the identity (`reifyM_scalar`, `reflectM_scalar`) and operators
yield scalars again (`binary_scalar`); arrays, maps, functions and the heap are outside the fragment.

The operator bridge is `Props/C09` (`binary_spec`, `unary_spec`) and `Props/C06` (`falsey_table`).
-/
namespace P2sh.RefCore
open P2sh P2sh.Ref
open P2sh.Core (CExpr CArms CPat UnOp)
open P2sh.Props.C09 (Agrees specOp binary_spec unary_spec hugeRepeat execUnary)

/-! ## scalars -/

def isScalar : Val → Bool
  | .null | .bool _ | .int _ | .float _ | .char _ | .byte _ | .str _ => true
  | _ => false

theorem reify_scalar (h : Heap) {v : Val} (hv : isScalar v = true) : reify h reifyDepth v = v := by
  cases v <;> first | rfl | (simp [isScalar] at hv)

theorem reflect_scalar (h : Heap) {v : Val} (hv : isScalar v = true) : reflect h reifyDepth v = (h, v) := by
  cases v <;> first | rfl | (simp [isScalar] at hv)

/-- scalars have nothing to expand: the oracle's structural view of them is complete -/
theorem expandsWithin_scalar (h : Heap) {v : Val} (hv : isScalar v = true) : expandsWithin h reifyDepth v = true := by
  cases v <;> first | rfl | (simp [isScalar] at hv)

theorem reifyM_scalar {v : Val} (hv : isScalar v = true) : reifyM v = pure v := by
  funext s
  show (reifyM v).run.run s = _
  rw [P2sh.Props.RefBvars.run_reifyM, if_pos (expandsWithin_scalar _ hv), reify_scalar _ hv]; rfl

theorem reflectM_scalar {v : Val} (hv : isScalar v = true) : reflectM v = pure v := by
  funext s
  cases v <;> first | rfl | (simp [isScalar] at hv)

theorem not_poison : ∀ (v : Val), isScalar v = true → (v matches .other "poison") = false := by
  intro v hv
  cases v <;> first | rfl | (simp [isScalar] at hv)

/-! ## running the monad -/

abbrev run {α} (m : M α) (s : St) : Except Err α × St := m.run.run s

theorem run_pure {α} (a : α) (s : St) : run (pure a : M α) s = (.ok a, s) := rfl
theorem run_throw {α} (e : Err) (s : St) : run (throw e : M α) s = (.error e, s) := rfl

theorem run_bind {α β} (m : M α) (f : α → M β) (s : St) :
    run (m >>= f) s =
      match run m s with
      | (.ok a, s') => run (f a) s'
      | (.error e, s') => (.error e, s') := P2sh.Props.RefBvars.run_bind m f s

def bindR {α β} (m : M (R α)) (k : α → Env → M (R β)) : M (R β) :=
  m >>= fun r => match r with
    | .jump f env => pure (.jump f env)
    | .val v env => k v env

def Out {α} (env : Env) (P : α → St → Prop) (E : Prop) : Except Err (R α) × St → Prop
  | (.ok (.val v env'), s') => env' = env ∧ P v s'
  | (.ok (.jump _ _), _) => False
  | (.error (.rt _), _) => E
  | (.error _, _) => True

theorem out_bindR {α β} {env : Env} {P : α → St → Prop} {E : Prop} {P' : β → St → Prop} {E' : Prop}
    {m : M (R α)} {k : α → Env → M (R β)} {s : St}
    (hm : Out env P E (run m s)) (hE : E → E')
    (hk : ∀ v s', P v s' → Out env P' E' (run (k v env) s')) :
    Out env P' E' (run (bindR m k) s) := by
  unfold bindR
  show Out env P' E' ((m >>= _).run.run s)
  rw [P2sh.Props.RefBvars.run_bind]
  revert hm
  show Out env P E (m.run.run s) → _
  rcases m.run.run s with ⟨er | (⟨v, env1⟩ | ⟨fl, env1⟩), s1⟩
  · cases er <;> intro h <;> first | exact hE h | trivial
  · rintro ⟨rfl, hp⟩; exact hk v s1 hp
  · intro h; exact h.elim


/-! ## the embedding of core expressions into the AST -/

def binSym : Operator → String
  | .add => "+" | .sub => "-" | .mul => "*" | .div => "/" | .mod => "%"
  | .equal => "==" | .notEqual => "!=" | .greater => ">" | .greaterEq => ">="
  | .band => "&" | .bor => "|" | .bxor => "^" | .shl => "<<" | .shr => ">>"

def unSym : UnOp → String
  | .bang => "!" | .minus => "-" | .bnot => "~"

def specUn : UnOp → Spec.UnOp
  | .bang => .bang | .minus => .minus | .bnot => .bnot

/-- a literal of the constant pool as the literal expression that puts it there; other values
(which no literal denotes) become `Expr.invalid`, on which the oracle says nothing -/
def litAst (ln : Nat) : Val → Expr
  | .int v => .int ln v
  | .float f => .float ln f
  | .str s => .str ln s
  | .char c => .char ln c
  | .byte b => .byte ln b
  | _ => .invalid

/-- `{ x }` / `=> x`: a block holding one expression statement -/
def exprBlock (ln : Nat) (x : Expr) : Block := .mk ln [.exprS ln x]

/-- a pattern; a `lit` pattern that no pattern literal denotes becomes a range without literal
bounds, on which the oracle says nothing -/
def toPat (ln : Nat) : CPat → Pat
  | .lit (.int v) => .pint ln v
  | .lit (.char c) => .pchar ln c
  | .lit (.byte b) => .pbyte ln b
  | .lit (.str s) => .pstr ln s
  | .lit _ => .prange ln ".." .invalid .invalid
  | .bool b => .pbool ln b
  | .range incl lo hi => .prange ln (if incl then "..=" else "..") (litAst ln lo) (litAst ln hi)
  | .dflt => .pdef ln

mutual
def toAst (nm : Nat → String) (ln : Nat) : CExpr → Expr
  | .lit v => litAst ln v
  | .tru => .bool ln true
  | .fls => .bool ln false
  | .null => .null ln
  | .un op e => .unary ln (unSym op) (toAst nm ln e)
  | .bin op a b => .binary ln (binSym op) (toAst nm ln a) (toAst nm ln b)
  | .lt a b => .binary ln "<" (toAst nm ln a) (toAst nm ln b)
  | .le a b => .binary ln "<=" (toAst nm ln a) (toAst nm ln b)
  | .and a b => .binary ln "&&" (toAst nm ln a) (toAst nm ln b)
  | .or a b => .binary ln "||" (toAst nm ln a) (toAst nm ln b)
  | .ite c t e => .ifE ln (toAst nm ln c) (exprBlock ln (toAst nm ln t)) (.els (exprBlock ln (toAst nm ln e)))
  | .gget i => .ident ln (nm i) .get
  | .gset i e => .assign ln (.ident ln (nm i) .set) (toAst nm ln e)
  | .matchE s arms => .matchE ln (toAst nm ln s) (toArms nm ln arms)
def toArms (nm : Nat → String) (ln : Nat) : CArms → List Arm
  | .last d => [.mk ln [.pdef ln] (exprBlock ln (toAst nm ln d))]
  | .cons pats body rest => .mk ln (pats.map (toPat ln)) (exprBlock ln (toAst nm ln body)) :: toArms nm ln rest
end

mutual
/-- every global the expression reads or assigns is one of the first `n` -/
def globalsBelow (n : Nat) : CExpr → Bool
  | .lit _ | .tru | .fls | .null => true
  | .un _ e => globalsBelow n e
  | .bin _ a b | .lt a b | .le a b | .and a b | .or a b => globalsBelow n a && globalsBelow n b
  | .ite c t e => globalsBelow n c && globalsBelow n t && globalsBelow n e
  | .gget i => i < n
  | .gset i e => i < n && globalsBelow n e
  | .matchE s arms => globalsBelow n s && globalsBelowArms n arms
def globalsBelowArms (n : Nat) : CArms → Bool
  | .last d => globalsBelow n d
  | .cons _ body rest => globalsBelow n body && globalsBelowArms n rest
end

theorem toAst_not_call (nm : Nat → String) (ln : Nat) (e : CExpr) (l : Nat) (f : Expr) (args : List Expr) :
    toAst nm ln e ≠ .call l f args := by
  cases e <;> simp [toAst]
  case lit v => cases v <;> simp [litAst]

/-! ## equations of the reference evaluator, one per construct of the fragment -/

theorem bind_congr_fun {α β} {m : M α} {f g : α → M β} (h : ∀ a, f a = g a) : m >>= f = m >>= g := by
  have : f = g := funext h
  rw [this]

/-- closes `do`-block = `bindR`-chain goals (the two sides use different auxiliary matchers) -/
macro "bindR_eq" : tactic =>
  `(tactic| repeat' (first | rfl | (unfold bindR) | (apply bind_congr_fun; intro r; cases r <;> dsimp only)))

theorem evalE_zero (env : Env) (x : Expr) : evalE 0 env x = throw .fuel := by rw [evalE]

theorem evalE_null (f : Nat) (env : Env) (l : Nat) : evalE (f+1) env (.null l) = pure (.val .null env) := by rw [evalE]
theorem evalE_bool (f : Nat) (env : Env) (l : Nat) (b : Bool) : evalE (f+1) env (.bool l b) = pure (.val (.bool b) env) := by rw [evalE]
theorem evalE_invalid (f : Nat) (env : Env) : evalE (f+1) env .invalid = throw .unc := by
  rw [evalE] <;> (intros; contradiction)

/-- the values literals denote -/
def isLit : Val → Bool
  | .int _ | .float _ | .str _ | .char _ | .byte _ => true
  | _ => false

theorem isLit_scalar {v : Val} (h : isLit v = true) : isScalar v = true := by
  cases v <;> first | rfl | (simp [isLit] at h)

theorem evalE_lit (f : Nat) (env : Env) (l : Nat) (v : Val) :
    evalE (f+1) env (litAst l v) = if isLit v then pure (.val v env) else throw .unc := by
  cases v <;> simp only [litAst] <;> first | (rw [evalE_invalid]; rfl) | (rw [evalE]; rfl)

theorem evalE_un (f : Nat) (env : Env) (l : Nat) (o : UnOp) (a : Expr) :
    evalE (f+1) env (.unary l (unSym o) a) = bindR (evalE f env a) fun v env =>
      reifyM v >>= fun v' => ofExpect l (Spec.unary (specUn o) v') >>= fun r => pure (.val r env) := by
  cases o <;> (rw [evalE]; simp only [unSym, specUn]; bindR_eq)

theorem specBinOp_binSym (o : Operator) : specBinOp (binSym o) = some (specOp o) := by
  cases o <;> rfl

theorem evalE_bin (f : Nat) (env : Env) (l : Nat) (o : Operator) (a b : Expr) :
    evalE (f+1) env (.binary l (binSym o) a b) = bindR (evalE f env a) fun va env =>
      bindR (evalE f env b) fun vb env => applyBinary l (specOp o) va vb >>= fun r => pure (.val r env) := by
  cases o <;> (rw [evalE] <;> first | decide | bindR_eq)

theorem evalE_lt (f : Nat) (env : Env) (l : Nat) (a b : Expr) :
    evalE (f+1) env (.binary l "<" a b) = bindR (evalE f env b) fun vb env =>
      bindR (evalE f env a) fun va env => applyBinary l .gt vb va >>= fun r => pure (.val r env) := by
  rw [evalE] <;> first | decide | bindR_eq

theorem evalE_le (f : Nat) (env : Env) (l : Nat) (a b : Expr) :
    evalE (f+1) env (.binary l "<=" a b) = bindR (evalE f env b) fun vb env =>
      bindR (evalE f env a) fun va env => applyBinary l .ge vb va >>= fun r => pure (.val r env) := by
  rw [evalE] <;> first | decide | bindR_eq

theorem evalE_and (f : Nat) (env : Env) (l : Nat) (a b : Expr) :
    evalE (f+1) env (.binary l "&&" a b) = bindR (evalE f env a) fun va env =>
      truthy va >>= fun t => if t then evalE f env b else pure (.val va env) := by
  rw [evalE]; bindR_eq

theorem evalE_or (f : Nat) (env : Env) (l : Nat) (a b : Expr) :
    evalE (f+1) env (.binary l "||" a b) = bindR (evalE f env a) fun va env =>
      truthy va >>= fun t => if t then pure (.val va env) else evalE f env b := by
  rw [evalE] <;> first | decide | bindR_eq

theorem evalE_ite (f : Nat) (env : Env) (l : Nat) (c : Expr) (t b : Block) :
    evalE (f+1) env (.ifE l c t (.els b)) = bindR (evalE f env c) fun vc env =>
      truthy vc >>= fun tt => if tt then evalBranch f env t else evalBranch f env b := by
  rw [evalE]; bindR_eq

theorem evalE_gget (f : Nat) (env : Env) (l : Nat) (name : String) (acc : Access) (c : Nat)
    (h : lookupEnv name env = some (.g c)) :
    evalE (f+1) env (.ident l name acc) = getCell c >>= fun v =>
      if (v matches .other "poison") then throw .unc else pure (.val v env) := by
  rw [evalE]; simp only [h]; rfl

/-- assignment of `v` to the identifier `name` -/
def assignIdent (name : String) (v : Val) (env : Env) : M (R Val) :=
  match lookupEnv name env with
  | some (.g c) => do setCell c v; pure (.val v env)
  | some (.l _) =>
    match updEnv name v env with
    | some env' => pure (.val v env')
    | none => throw .unc
  | some (.cap _) =>
    match lookupEnv selfKey env, updEnvCap name v env with
    | some (.cap (.clos _ _ id)), some env' => do
      if (← get).active.count id ≥ 2 then throw .unc
      modify fun s => { s with clos := s.clos.modify (id - 1) fun c =>
        { c with captured := (name, .cap (.other "poison")) :: c.captured } }
      pure (.val v env')
    | _, _ => throw .unc
  | none => throw .unc

theorem evalE_gset (f : Nat) (env : Env) (l l' : Nat) (name : String) (acc : Access) (rhs : Expr) :
    evalE (f+1) env (.assign l (.ident l' name acc) rhs) = bindR (evalE f env rhs) fun v env => assignIdent name v env := by
  rw [evalE]; bindR_eq

theorem assignIdent_g {name : String} {v : Val} {env : Env} {c : Nat} (h : lookupEnv name env = some (.g c)) :
    assignIdent name v env = (setCell c v >>= fun _ => pure (.val v env)) := by
  unfold assignIdent; simp only [h]


/-! ## operators: the oracle's `applyBinary`/`ofExpect` against the VM model's operators -/

def ExpScalar : Spec.Expect → Prop
  | .value v => isScalar v = true
  | _ => True

macro "es_leaf" : tactic => `(tactic| (simp only [ExpScalar, Spec.wrap64, Spec.wrap8, isScalar]; done))
macro "es_tac" : tactic => `(tactic| repeat' (first | es_leaf | split))

theorem es_intArith (op : Spec.Op) (a b : Int) : ExpScalar (Spec.intArith op a b) := by
  unfold Spec.intArith; es_tac
theorem es_byteArith (op : Spec.Op) (a b : Nat) : ExpScalar (Spec.byteArith op a b) := by
  unfold Spec.byteArith; es_tac
theorem es_floatArithZ (op : Spec.Op) (a b : Float) (z : Bool) : ExpScalar (Spec.floatArithZ op a b z) := by
  unfold Spec.floatArithZ; es_tac
theorem es_floatArith (op : Spec.Op) (a b : Float) : ExpScalar (Spec.floatArith op a b) := es_floatArithZ _ _ _ _
theorem es_relFloat (op : Spec.Op) (a b : Float) : ExpScalar (Spec.relFloat op a b) := by
  unfold Spec.relFloat; es_tac
theorem es_relOrd {α} [LT α] [DecidableRel (α := α) (· < ·)] [DecidableEq α] (op : Spec.Op) (a b : α) :
    ExpScalar (Spec.relOrd op a b) := by
  unfold Spec.relOrd; es_tac

theorem unary_scalar (op : Spec.UnOp) (v : Val) : ExpScalar (Spec.unary op v) := by
  cases op <;> cases v <;> first | exact True.intro | rfl

macro "es_bin" : tactic => `(tactic| repeat' (first | es_leaf | exact es_intArith _ _ _ | exact es_byteArith _ _ _ | exact es_floatArithZ _ _ _ _ | exact es_floatArith _ _ _ | exact es_relFloat _ _ _ | exact es_relOrd _ _ _ | split))

/-- operators applied to scalars yield scalars -/
theorem binary_scalar (op : Spec.Op) (l r : Val) (hl : isScalar l = true) (hr : isScalar r = true) :
    ExpScalar (Spec.binary op l r) := by
  unfold Spec.binary
  split
  · es_tac
  · es_tac
  · split
    all_goals first | (simp [isScalar] at hl; done) | es_bin


theorem truthy_scalar {v : Val} (hv : isScalar v = true) : truthy v = pure (!(Spec.falsey v)) := by
  unfold truthy
  rw [reifyM_scalar hv, pure_bind]

theorem out_ofExpect {env : Env} {P : Val → St → Prop} {E : Prop} (l : Nat) (ex : Spec.Expect) (s : St)
    (hv : ∀ v, ex = .value v → P v s) (he : ex = .error → E) :
    Out env P E (run (ofExpect l ex >>= fun r => pure (.val r env)) s) := by
  cases ex
  · exact ⟨rfl, hv _ rfl⟩
  · exact he rfl
  · exact True.intro

/-- what `applyBinary` on two scalars may do -/
def OpOut (op : Operator) (l r : Val) (s : St) : Except Err Val × St → Prop
  | (.ok v, s') => s' = s ∧ execOperator op l r = .ok v ∧ isScalar v = true
  | (.error (.rt _), _) => ∃ msg, execOperator op l r = .err msg
  | (.error _, _) => True

theorem opOut_of_spec (line : Nat) (op : Operator) (l r : Val) (s : St)
    (hspec : Agrees (execOperator op l r) (Spec.binary (specOp op) l r))
    (hsc : ExpScalar (Spec.binary (specOp op) l r)) :
    OpOut op l r s (run (ofExpect line (Spec.binary (specOp op) l r) >>= fun v => reflectM v) s) := by
  revert hspec hsc
  generalize Spec.binary (specOp op) l r = ex
  intro hspec hsc
  cases ex with
  | value v =>
    have hsc' : isScalar v = true := hsc
    simp only [ofExpect, pure_bind, reflectM_scalar hsc']
    exact ⟨rfl, hspec, hsc'⟩
  | error => exact hspec
  | any => exact True.intro

theorem huge_iff (s0 : String) (n : Int64) :
    (decide (n.toInt ≥ 0) && decide (s0.utf8ByteSize * n.toInt.toNat > 16777216)) = true ↔
      (¬ n < 0 ∧ s0.utf8ByteSize * n.toNatClampNeg > 16777216) := by
  have : n < 0 ↔ n.toInt < 0 := by rw [Int64.lt_iff_toInt_lt]; exact Iff.rfl
  simp only [Bool.and_eq_true, decide_eq_true_eq, this, Int64.toNatClampNeg]
  omega

theorem run_applyBinary (line : Nat) (op : Operator) (l r : Val) (hl : isScalar l = true) (hr : isScalar r = true)
    (s : St) : OpOut op l r s (run (applyBinary line (specOp op) l r) s) := by
  have hsc := binary_scalar (specOp op) l r hl hr
  unfold applyBinary
  simp only [reifyM_scalar hl, reifyM_scalar hr, pure_bind]
  split
  · rename_i s0 n hop
    split
    · exact True.intro
    · rename_i hh
      refine opOut_of_spec line op _ _ s (binary_spec op _ _ ?_) hsc
      rintro - ⟨-, s1, n1, (⟨h1, h2⟩ | ⟨h1, h2⟩), hb⟩
      · cases h1; cases h2; exact hh ((huge_iff _ _).mpr hb)
      · cases h1
  · rename_i n s0 hop
    split
    · exact True.intro
    · rename_i hh
      refine opOut_of_spec line op _ _ s (binary_spec op _ _ ?_) hsc
      rintro - ⟨-, s1, n1, (⟨h1, h2⟩ | ⟨h1, h2⟩), hb⟩
      · cases h1
      · cases h1; cases h2; exact hh ((huge_iff _ _).mpr hb)
  · rename_i hn1 hn2
    refine opOut_of_spec line op _ _ s (binary_spec op _ _ ?_) hsc
    rintro hop ⟨-, s1, n1, (⟨h1, h2⟩ | ⟨h1, h2⟩), hb⟩
    · subst hop h1 h2; exact hn1 _ _ rfl rfl rfl
    · subst hop h1 h2; exact hn2 _ _ rfl rfl rfl

theorem out_applyBinary {env : Env} {P : Val → St → Prop} {E : Prop} (line : Nat) (op : Operator) (l r : Val) (s : St)
    (hl : isScalar l = true) (hr : isScalar r = true)
    (hv : ∀ v, execOperator op l r = .ok v → isScalar v = true → P v s)
    (he : (∃ msg, execOperator op l r = .err msg) → E) :
    Out env P E (run (applyBinary line (specOp op) l r >>= fun x => pure (.val x env)) s) := by
  have h := run_applyBinary line op l r hl hr s
  show Out env P E ((applyBinary line (specOp op) l r >>= _).run.run s)
  rw [P2sh.Props.RefBvars.run_bind]
  revert h
  show OpOut op l r s ((applyBinary line (specOp op) l r).run.run s) → _
  rcases (applyBinary line (specOp op) l r).run.run s with ⟨er | v, s1⟩
  · cases er <;> intro h <;> first | exact he h | exact True.intro
  · rintro ⟨rfl, h1, h2⟩; exact ⟨rfl, hv v h1 h2⟩


/-! ## a branch `{ x }` holding one expression statement -/

theorem out_evalBranch {env : Env} {P : Val → St → Prop} {E : Prop} (f ln : Nat) (x : Expr) (s : St)
    (hx : ∀ l fn args, x = .call l fn args → False)
    (h : ∀ f', Out ([] :: env) P E (run (evalE f' ([] :: env) x) s)) :
    Out env P E (run (evalBranch f env (exprBlock ln x)) s) := by
  match f with
  | 0 => rw [evalBranch]; exact True.intro
  | 1 => rw [evalBranch, evalBlock]; exact True.intro
  | 2 => rw [evalBranch, evalBlock, evalStmts]; exact True.intro
  | 3 => rw [evalBranch, evalBlock, exprBlock, Block.stmts, evalStmts, evalStmt]; exact True.intro
  | f+4 =>
    rw [evalBranch, evalBlock, exprBlock, Block.stmts, evalStmts, evalStmt]
    case x_3 => exact hx
    simp only [bind_assoc]
    rw [run_bind]
    have := h f
    revert this
    rcases run (evalE f ([] :: env) x) s with ⟨er | (⟨v, env1⟩ | ⟨fl, env1⟩), s1⟩
    · cases er <;> intro h <;> first | exact h | exact True.intro
    · rintro ⟨rfl, hp⟩
      simp only [pure_bind]
      rw [evalStmts]
      · exact ⟨rfl, hp⟩
      · omega
    · intro h; exact h.elim


/-! ## `match`: patterns -/

theorem patTest_lit (v w : Val) : Core.patTest v (.lit w) = some (v.eq w) := by
  simp [Core.patTest, execOperator, Val.isFalsey]

theorem patTest_bool (v : Val) (b : Bool) : Core.patTest v (.bool b) = some (v.eq (.bool b)) := by
  simp [Core.patTest, execOperator, Val.isFalsey]

theorem patTest_range (x lo hi : Val) (incl geLo gtHi geHi : Bool)
    (h1 : execOperator .greaterEq x lo = .ok (.bool geLo))
    (h2 : execOperator .greater x hi = .ok (.bool gtHi))
    (h3 : execOperator .greaterEq x hi = .ok (.bool geHi)) :
    Core.patTest x (.range incl lo hi) = some (geLo && (if incl then !gtHi else !geHi)) := by
  cases incl <;> cases geLo <;> simp [Core.patTest, h1, h2, h3, Val.isFalsey]

/-- the oracle's range test against the two comparisons of the match template, in any strict total order -/
theorem range_bool {α} [LT α] [LE α] [DecidableRel (α := α) (· < ·)] [DecidableRel (α := α) (· ≤ ·)] [DecidableEq α]
    (h : ∀ a b : α, b < a ↔ ¬ a < b ∧ a ≠ b) (hle : ∀ a b : α, a ≤ b ↔ ¬ b < a) (a x b : α) (incl : Bool) :
    (decide (a ≤ x) && (if incl then decide (x ≤ b) else decide (x < b))) =
    ((decide (a < x) || decide (x = a)) && (if incl then !decide (b < x) else !(decide (b < x) || decide (x = b)))) := by
  have irr : ∀ c : α, ¬ c < c := fun c hc => ((h c c).mp hc).2 rfl
  have e1 : decide (a ≤ x) = (decide (a < x) || decide (x = a)) := by
    rw [Bool.eq_iff_iff]
    simp only [decide_eq_true_eq, Bool.or_eq_true, hle a x]
    constructor
    · intro hn
      by_cases hx : x = a
      · exact Or.inr hx
      · exact Or.inl ((h x a).mpr ⟨hn, hx⟩)
    · rintro (hlt | rfl)
      · exact ((h x a).mp hlt).1
      · exact irr _
  have e2 : decide (x ≤ b) = !decide (b < x) := by
    rw [Bool.eq_iff_iff]; simp [hle x b]
  have e3 : decide (x < b) = !(decide (b < x) || decide (x = b)) := by
    rw [Bool.eq_iff_iff]
    simp only [decide_eq_true_eq, Bool.not_eq_true', Bool.or_eq_false_iff, decide_eq_false_iff_not]
    rw [h b x]
    constructor
    · rintro ⟨h1, h2⟩; exact ⟨h1, fun e => h2 e.symm⟩
    · rintro ⟨h1, h2⟩; exact ⟨h1, fun e => h2 e.symm⟩
  rw [e1, e2, e3]

theorem u8_gt_iff (a b : UInt8) : b < a ↔ ¬ a < b ∧ a ≠ b := by
  simp only [UInt8.lt_iff_toNat_lt, ne_eq, ← UInt8.toNat_inj]; omega

theorem byte_rel (a b : UInt8) :
    binaryOp .gt (.byte a) (.byte b) = .ok (.bool (decide (b < a))) ∧
    binaryOp .ge (.byte a) (.byte b) = .ok (.bool (decide (b < a) || decide (a = b))) := by
  constructor
  · rw [P2sh.Props.C09.binaryOp_rel .gt (.byte a) (.byte b) (.inl rfl) rfl rfl rfl]
    simp only [applyBin, Val.gt, Val.partialCmp, P2sh.Props.C09.cmpOf_gt a b (u8_gt_iff a b)]
  · rw [P2sh.Props.C09.binaryOp_rel .ge (.byte a) (.byte b) (.inr rfl) rfl rfl rfl]
    simp only [applyBin, Val.ge, Val.partialCmp, P2sh.Props.C09.cmpOf_ge a b (u8_gt_iff a b)]

theorem incl_sym (incl : Bool) : ((if incl then "..=" else "..") == "..=") = incl := by
  cases incl <;> decide

theorem litAst_int {ln l : Nat} {w : Val} {a : Int64} (h : litAst ln w = .int l a) : w = .int a := by
  cases w <;> simp [litAst] at h; rw [h.2]
theorem litAst_char {ln l : Nat} {w : Val} {a : Char} (h : litAst ln w = .char l a) : w = .char a := by
  cases w <;> simp [litAst] at h; rw [h.2]
theorem litAst_byte {ln l : Nat} {w : Val} {a : UInt8} (h : litAst ln w = .byte l a) : w = .byte a := by
  cases w <;> simp [litAst] at h; rw [h.2]
theorem litAst_str {ln l : Nat} {w : Val} {a : String} (h : litAst ln w = .str l a) : w = .str a := by
  cases w <;> simp [litAst] at h; rw [h.2]

/-- what the oracle's `patMatches` may do on a pattern of the fragment: agree with the test of the
match template, or say nothing; it never raises a runtime error -/
def PatOut (v : Val) (p : CPat) (s : St) : Except Err Bool × St → Prop
  | (.ok b, s') => s' = s ∧ Core.patTest v p = some b
  | (.error (.rt _), _) => False
  | (.error _, _) => True

theorem run_patMatches (ln : Nat) (v : Val) (p : CPat) (s : St) :
    PatOut v p s (run (patMatches v (toPat ln p)) s) := by
  cases p with
  | dflt => exact ⟨rfl, rfl⟩
  | bool b =>
    simp only [toPat, patMatches]
    cases v <;> exact ⟨rfl, by simp [patTest_bool, Val.eq]⟩
  | lit w =>
    cases w
    case int n =>
      simp only [toPat, patMatches]
      cases v <;> first | exact True.intro | exact ⟨rfl, by simp [patTest_lit, Val.eq]⟩
    case char n =>
      simp only [toPat, patMatches]
      cases v <;> exact ⟨rfl, by simp [patTest_lit, Val.eq]⟩
    case byte n =>
      simp only [toPat, patMatches]
      cases v <;> exact ⟨rfl, by simp [patTest_lit, Val.eq]⟩
    case str n =>
      simp only [toPat, patMatches]
      cases v <;> exact ⟨rfl, by simp [patTest_lit, Val.eq]⟩
    all_goals (simp only [toPat, patMatches]; cases v <;> exact True.intro)
  | range incl lo hi =>
    simp only [toPat, patMatches, incl_sym]
    split
    · rename_i x l1 a l2 b h1 h2
      cases litAst_int h1; cases litAst_int h2
      refine ⟨rfl, ?_⟩
      rw [patTest_range _ _ _ incl _ _ _ (P2sh.Props.C09.int_ge x a) (P2sh.Props.C09.int_gt x b) (P2sh.Props.C09.int_ge x b)]
      rw [range_bool (fun a b : Int => by omega) (fun a b : Int => by omega) a.toInt x.toInt b.toInt incl]
    · rename_i x l1 a l2 b h1 h2
      cases litAst_char h1; cases litAst_char h2
      refine ⟨rfl, ?_⟩
      rw [patTest_range _ _ _ incl _ _ _ (P2sh.Props.C09.char_rel x a).2 (P2sh.Props.C09.char_rel x b).1 (P2sh.Props.C09.char_rel x b).2]
      rw [range_bool P2sh.Proofs.char_gt_iff (fun a b : Char => by simp) a x b incl]
    · rename_i x l1 a l2 b h1 h2
      cases litAst_byte h1; cases litAst_byte h2
      refine ⟨rfl, ?_⟩
      rw [patTest_range _ _ _ incl _ _ _ (byte_rel x a).2 (byte_rel x b).1 (byte_rel x b).2]
      rw [range_bool u8_gt_iff (fun a b : UInt8 => by simp) a x b incl]
    · rename_i x l1 a l2 b h1 h2
      cases litAst_str h1; cases litAst_str h2
      refine ⟨rfl, ?_⟩
      rw [patTest_range _ _ _ incl _ _ _ (P2sh.Props.C09.str_rel x a).2 (P2sh.Props.C09.str_rel x b).1 (P2sh.Props.C09.str_rel x b).2]
      rw [range_bool P2sh.Proofs.string_gt_iff (fun a b : String => by simp) a x b incl]
    · exact True.intro

/-! ## `match`: the alternatives of one arm -/

/-- the loop over the alternatives of an arm, as `evalArms` writes it -/
def hitLoop (hit0 : Bool) (v : Val) (pats : List Pat) : M Bool := do
  let mut hit := hit0
  for p in pats do
    if !hit then
      if ← patMatches v p then hit := true
  return hit

theorem evalArms_zero (env : Env) (v : Val) (arms : List Arm) : evalArms 0 env v arms = throw .fuel := by
  rw [evalArms]

theorem evalArms_cons (f : Nat) (env : Env) (v : Val) (l : Nat) (pats : List Pat) (body : Block) (rest : List Arm) :
    evalArms (f+1) env v (.mk l pats body :: rest) = hitLoop false v pats >>= fun hit =>
      if hit then evalBranch f env body else evalArms f env v rest := by
  rw [evalArms]
  unfold hitLoop
  simp only [bind_assoc, pure_bind]

theorem hitLoop_nil (hit0 : Bool) (v : Val) : hitLoop hit0 v [] = pure hit0 := by
  unfold hitLoop
  simp only [List.forIn_nil, pure_bind]

theorem hitLoop_cons (hit0 : Bool) (v : Val) (p : Pat) (ps : List Pat) :
    hitLoop hit0 v (p :: ps) = (if hit0 then pure true else patMatches v p) >>= fun h => hitLoop h v ps := by
  unfold hitLoop
  simp only [List.forIn_cons, bind_assoc]
  cases hit0
  · simp
    apply bind_congr_fun
    intro b
    cases b <;> simp
  · simp

def HitOut (hit0 : Bool) (v : Val) (cps : List CPat) (s : St) : Except Err Bool × St → Prop
  | (.ok b, s') => s' = s ∧ (if hit0 then b = true else Core.patsTest v cps = some b)
  | (.error (.rt _), _) => False
  | (.error _, _) => True

theorem run_hitLoop (ln : Nat) (v : Val) (s : St) :
    ∀ (cps : List CPat) (hit0 : Bool), HitOut hit0 v cps s (run (hitLoop hit0 v (cps.map (toPat ln))) s)
  | [], hit0 => by
    rw [List.map_nil, hitLoop_nil]
    cases hit0 <;> exact ⟨rfl, rfl⟩
  | p :: ps, hit0 => by
    rw [List.map_cons, hitLoop_cons, run_bind]
    cases hit0 with
    | true =>
      have := run_hitLoop ln v s ps true
      simp only [if_true, run_pure]
      revert this
      rcases run (hitLoop true v (ps.map (toPat ln))) s with ⟨er | b', s2⟩
      · exact id
      · rintro ⟨rfl, hb⟩; exact ⟨rfl, hb⟩
    | false =>
      have hp := run_patMatches ln v p s
      revert hp
      simp only [Bool.false_eq_true, if_false]
      rcases run (patMatches v (toPat ln p)) s with ⟨er | b, s1⟩
      · cases er <;> intro h <;> first | exact h.elim | exact True.intro
      · rintro ⟨rfl, hpt⟩
        have := run_hitLoop ln v s1 ps b
        revert this
        show HitOut b v ps s1 (run (hitLoop b v (ps.map (toPat ln))) s1) → HitOut false v (p :: ps) s1 (run (hitLoop b v (ps.map (toPat ln))) s1)
        rcases run (hitLoop b v (ps.map (toPat ln))) s1 with ⟨er | b', s2⟩
        · cases er <;> exact id
        · rintro ⟨rfl, hb⟩
          refine ⟨rfl, ?_⟩
          cases b with
          | true =>
            simp only [if_true] at hb
            simp [Core.patsTest, hpt, hb]
          | false =>
            simp only [Bool.false_eq_true, if_false] at hb ⊢
            simp [Core.patsTest, hpt, hb]

theorem out_bind_hit {env : Env} {P : Val → St → Prop} {E : Prop} {hit0 : Bool} {v : Val} {cps : List CPat} {s : St}
    {m : M Bool} {K : Bool → M (R Val)} (h : HitOut hit0 v cps s (run m s))
    (hk : ∀ b, (if hit0 then b = true else Core.patsTest v cps = some b) → Out env P E (run (K b) s)) :
    Out env P E (run (m >>= K) s) := by
  rw [run_bind]
  revert h
  rcases run m s with ⟨er | b, s1⟩
  · cases er <;> intro h <;> first | exact h.elim | exact True.intro
  · rintro ⟨rfl, hb⟩; exact hk b hb

theorem evalE_match (f : Nat) (env : Env) (l : Nat) (scrut : Expr) (arms : List Arm) :
    evalE (f+1) env (.matchE l scrut arms) = bindR (evalE f env scrut) fun v env =>
      reifyM v >>= fun v' => evalArms f env v' arms := by
  rw [evalE]; bindR_eq

/-! ## the relation between the two states, and the statement proved by induction -/

/-- `env`/`st` (oracle) and `g` (Core): the `i`-th global is the name `nm i`, bound by reference to
cell `i`; the cells are the globals; every global holds a scalar (so that `reify`/`reflect` are
the identity and no binding is poisoned) -/
structure EnvRel (nm : Nat → String) (env : Env) (st : St) (g : List Val) : Prop where
  cells : st.cells = g
  bound : ∀ i, i < g.length → lookupEnv (nm i) env = some (.g i)
  scalars : ∀ v ∈ g, isScalar v = true

theorem EnvRel.step {nm env st g} (h : EnvRel nm env st g) {g' : List Val} (hl : g'.length = g.length)
    (hs : ∀ v ∈ g', isScalar v = true) : EnvRel nm env { st with cells := g' } g' :=
  ⟨rfl, fun i hi => h.bound i (hl ▸ hi), hs⟩

theorem EnvRel.push {nm env st g} (h : EnvRel nm env st g) : EnvRel nm ([] :: env) st g :=
  ⟨h.cells, fun i hi => by simpa [lookupEnv, lookupScope] using h.bound i hi, h.scalars⟩

/-- the value half of the statement, about one outcome of the oracle -/
def ValOK (st : St) (g : List Val) (ev : Option (Val × List Val)) (v : Val) (st' : St) : Prop :=
  isScalar v = true ∧ ∃ g', ev = some (v, g') ∧ st' = { st with cells := g' } ∧
    g'.length = g.length ∧ ∀ x ∈ g', isScalar x = true

/-- what is proved of one run of the oracle: a value is Core's value (and the states stay related, the
environment unchanged), a runtime error is Core's `none`, a jump does not occur -/
def Post (env : Env) (st : St) (g : List Val) (ev : Option (Val × List Val)) : Except Err (R Val) × St → Prop :=
  Out env (ValOK st g ev) (ev = none)

def Main (nm : Nat → String) (ln : Nat) (e : CExpr) : Prop :=
  ∀ fuel env st g, EnvRel nm env st g → globalsBelow g.length e = true →
    Post env st g (Core.eval g e) (run (evalE fuel env (toAst nm ln e)) st)

theorem st_self {st : St} {g : List Val} (h : st.cells = g) : st = { st with cells := g } := by
  subst h; rfl

theorem applyUn_eq (op : UnOp) (v : Val) : Core.applyUn op v = execUnary (specUn op) v := by
  cases op <;> rfl

/-- the shape shared by `a op b`, `a < b`, `a <= b` (`x` is evaluated first) -/
theorem main_binop {nm ln} (op : Operator) (x y e : CExpr) (ihx : Main nm ln x) (ihy : Main nm ln y)
    (line f : Nat) (env : Env) (st : St) (g : List Val) (hr : EnvRel nm env st g)
    (hfx : globalsBelow g.length x = true) (hfy : globalsBelow g.length y = true)
    (h1 : Core.eval g x = none → Core.eval g e = none)
    (h2 : ∀ vx g1, Core.eval g x = some (vx, g1) → Core.eval g1 y = none → Core.eval g e = none)
    (h3 : ∀ vx g1 vy g2 r, Core.eval g x = some (vx, g1) → Core.eval g1 y = some (vy, g2) →
      execOperator op vx vy = .ok r → Core.eval g e = some (r, g2))
    (h4 : ∀ vx g1 vy g2 msg, Core.eval g x = some (vx, g1) → Core.eval g1 y = some (vy, g2) →
      execOperator op vx vy = .err msg → Core.eval g e = none) :
    Post env st g (Core.eval g e) (run (bindR (evalE f env (toAst nm ln x)) fun vx env =>
      bindR (evalE f env (toAst nm ln y)) fun vy env =>
        applyBinary line (specOp op) vx vy >>= fun r => pure (.val r env)) st) := by
  refine out_bindR (ihx f env st g hr hfx) h1 ?_
  rintro vx s1 ⟨hvx, g1, hex, rfl, hl1, hs1⟩
  have hr1 := hr.step hl1 hs1
  refine out_bindR (ihy f env _ g1 hr1 (hl1 ▸ hfy)) (h2 vx g1 hex) ?_
  rintro vy s2 ⟨hvy, g2, hey, rfl, hl2, hs2⟩
  refine out_applyBinary line op vx vy _ hvx hvy ?_ ?_
  · intro r hop hrs
    exact ⟨hrs, g2, h3 _ _ _ _ _ hex hey hop, rfl, hl2.trans hl1, hs2⟩
  · rintro ⟨msg, hop⟩
    exact h4 _ _ _ _ _ hex hey hop

macro "binop_side" : tactic => `(tactic| (intros; simp only [Core.eval, *]))

theorem Out.mono {α} {env : Env} {P P' : α → St → Prop} {E E' : Prop} {o : Except Err (R α) × St}
    (hP : ∀ v s, P v s → P' v s) (hE : E → E') (h : Out env P E o) : Out env P' E' o := by
  rcases o with ⟨er | (⟨v, env1⟩ | ⟨fl, env1⟩), s1⟩
  · cases er <;> first | exact hE h | exact True.intro
  · exact ⟨h.1, hP _ _ h.2⟩
  · exact h.elim

/-- continue after a first part that led from `g` to `g1` -/
theorem post_trans {env' : Env} {st : St} {g g1 : List Val} {ev ev' : Option (Val × List Val)}
    {o : Except Err (R Val) × St} (hl1 : g1.length = g.length) (hev : ev = ev')
    (h : Out env' (ValOK { st with cells := g1 } g1 ev') (ev' = none) o) :
    Out env' (ValOK st g ev) (ev = none) o := by
  subst hev
  refine h.mono ?_ id
  rintro v s ⟨hv, g', he, rfl, hl, hs⟩
  exact ⟨hv, g', he, rfl, hl.trans hl1, hs⟩

theorem run_getCell_bind {β} (c : Nat) (K : Val → M β) (s : St) :
    run (getCell c >>= K) s = run (K (s.cells.getD c .null)) s := rfl

theorem run_setCell_bind {β} (c : Nat) (v : Val) (K : Unit → M β) (s : St) :
    run (setCell c v >>= K) s = run (K ()) { s with cells := s.cells.set c v } := rfl

theorem getD_scalar {g : List Val} (h : ∀ v ∈ g, isScalar v = true) (i : Nat) : isScalar (g.getD i .null) = true := by
  rw [List.getD_eq_getElem?_getD]
  cases hi : g[i]? with
  | none => rfl
  | some v => exact h v (List.mem_of_getElem? hi)

theorem set_scalar {g : List Val} (h : ∀ v ∈ g, isScalar v = true) (i : Nat) {v : Val} (hv : isScalar v = true) :
    ∀ x ∈ g.set i v, isScalar x = true := by
  intro x hx
  rcases List.mem_or_eq_of_mem_set hx with h1 | h1
  · exact h x h1
  · rw [h1]; exact hv

def ArmsMain (nm : Nat → String) (ln : Nat) (arms : CArms) : Prop :=
  ∀ fuel env st g v, EnvRel nm env st g → isScalar v = true → globalsBelowArms g.length arms = true →
    Post env st g (Core.evalArms g v arms) (run (evalArms fuel env v (toArms nm ln arms)) st)

theorem main_arms (nm : Nat → String) (ln : Nat) : ∀ arms : CArms, arms.All (Main nm ln) → ArmsMain nm ln arms := by
  intro arms
  induction arms using CArms.ind with
  | last d =>
    intro hall fuel env st g v hr hv hf
    simp only [CArms.All] at hall
    simp only [globalsBelowArms] at hf
    cases fuel with
    | zero => rw [evalArms_zero]; exact True.intro
    | succ f =>
      rw [toArms, evalArms_cons]
      refine out_bind_hit (run_hitLoop ln v st [.dflt] false) ?_
      intro b hb
      have hb' : b = true := by simpa [Core.patsTest, Core.patTest] using hb.symm
      subst hb'
      simp only [if_true]
      rw [show Core.evalArms g v (.last d) = Core.eval g d by simp only [Core.evalArms]]
      exact out_evalBranch f ln _ _ (fun l fn args h => toAst_not_call nm ln d l fn args h) fun f' =>
        hall f' _ _ g hr.push hf
  | cons pats body rest ih =>
    intro hall fuel env st g v hr hv hf
    simp only [CArms.All] at hall
    simp only [globalsBelowArms, Bool.and_eq_true] at hf
    cases fuel with
    | zero => rw [evalArms_zero]; exact True.intro
    | succ f =>
      rw [toArms, evalArms_cons]
      refine out_bind_hit (run_hitLoop ln v st pats false) ?_
      intro b hb
      simp only [Bool.false_eq_true, if_false] at hb
      cases b with
      | true =>
        simp only [if_true]
        rw [show Core.evalArms g v (.cons pats body rest) = Core.eval g body by simp only [Core.evalArms, hb]]
        exact out_evalBranch f ln _ _ (fun l fn args h => toAst_not_call nm ln body l fn args h) fun f' =>
          hall.1 f' _ _ g hr.push hf.1
      | false =>
        simp only [Bool.false_eq_true, if_false]
        rw [show Core.evalArms g v (.cons pats body rest) = Core.evalArms g v rest by simp only [Core.evalArms, hb]]
        exact ih hall.2 f env st g v hr hv hf.2

theorem main_core (nm : Nat → String) (ln : Nat) : ∀ e, Main nm ln e := by
  intro e
  induction e with
  | lit v =>
    intro fuel env st g hr _
    cases fuel with
    | zero => rw [evalE_zero]; exact True.intro
    | succ f =>
      rw [toAst, evalE_lit]
      cases hc : isLit v with
      | true => exact ⟨rfl, isLit_scalar hc, g, rfl, st_self hr.cells, rfl, hr.scalars⟩
      | false => exact True.intro
  | tru =>
    intro fuel env st g hr _
    cases fuel with
    | zero => rw [evalE_zero]; exact True.intro
    | succ f => rw [toAst, evalE_bool]; exact ⟨rfl, rfl, g, rfl, st_self hr.cells, rfl, hr.scalars⟩
  | fls =>
    intro fuel env st g hr _
    cases fuel with
    | zero => rw [evalE_zero]; exact True.intro
    | succ f => rw [toAst, evalE_bool]; exact ⟨rfl, rfl, g, rfl, st_self hr.cells, rfl, hr.scalars⟩
  | null =>
    intro fuel env st g hr _
    cases fuel with
    | zero => rw [evalE_zero]; exact True.intro
    | succ f => rw [toAst, evalE_null]; exact ⟨rfl, rfl, g, rfl, st_self hr.cells, rfl, hr.scalars⟩
  | un op a ih =>
    intro fuel env st g hr hf
    cases fuel with
    | zero => rw [evalE_zero]; exact True.intro
    | succ f =>
      rw [toAst, evalE_un]
      simp only [globalsBelow] at hf
      refine out_bindR (ih f env st g hr hf) (fun h => by simp only [Core.eval, h]) ?_
      rintro v s1 ⟨hv, g1, he, rfl, hl1, hs1⟩
      rw [reifyM_scalar hv, pure_bind]
      have hspec := unary_spec (specUn op) v
      have hes := unary_scalar (specUn op) v
      refine out_ofExpect ln _ _ ?_ ?_
      · intro r hx
        rw [hx] at hspec hes
        have h1 : Core.applyUn op v = .ok r := by rw [applyUn_eq]; exact hspec
        exact ⟨hes, g1, by simp only [Core.eval, he, h1], rfl, hl1, hs1⟩
      · intro hx
        rw [hx] at hspec
        obtain ⟨msg, hm⟩ := hspec
        have h1 : Core.applyUn op v = .err msg := by rw [applyUn_eq]; exact hm
        simp only [Core.eval, he, h1]
  | bin op a b iha ihb =>
    intro fuel env st g hr hf
    cases fuel with
    | zero => rw [evalE_zero]; exact True.intro
    | succ f =>
      rw [toAst, evalE_bin]
      simp only [globalsBelow, Bool.and_eq_true] at hf
      exact main_binop op a b _ iha ihb ln f env st g hr hf.1 hf.2 (by binop_side) (by binop_side) (by binop_side) (by binop_side)
  | lt a b iha ihb =>
    intro fuel env st g hr hf
    cases fuel with
    | zero => rw [evalE_zero]; exact True.intro
    | succ f =>
      rw [toAst, evalE_lt]
      simp only [globalsBelow, Bool.and_eq_true] at hf
      exact main_binop .greater b a _ ihb iha ln f env st g hr hf.2 hf.1 (by binop_side) (by binop_side) (by binop_side) (by binop_side)
  | le a b iha ihb =>
    intro fuel env st g hr hf
    cases fuel with
    | zero => rw [evalE_zero]; exact True.intro
    | succ f =>
      rw [toAst, evalE_le]
      simp only [globalsBelow, Bool.and_eq_true] at hf
      exact main_binop .greaterEq b a _ ihb iha ln f env st g hr hf.2 hf.1 (by binop_side) (by binop_side) (by binop_side) (by binop_side)
  | and a b iha ihb =>
    intro fuel env st g hr hf
    cases fuel with
    | zero => rw [evalE_zero]; exact True.intro
    | succ f =>
      rw [toAst, evalE_and]
      simp only [globalsBelow, Bool.and_eq_true] at hf
      refine out_bindR (iha f env st g hr hf.1) (fun h => by simp only [Core.eval, h]) ?_
      rintro va s1 ⟨hva, g1, hea, rfl, hl1, hs1⟩
      rw [truthy_scalar hva, pure_bind, ← P2sh.Props.C06.falsey_table]
      cases hfal : va.isFalsey with
      | true =>
        simp only [Bool.not_true, Bool.false_eq_true, if_false]
        exact ⟨rfl, hva, g1, by simp only [Core.eval, hea, hfal, if_true], rfl, hl1, hs1⟩
      | false =>
        simp only [Bool.not_false, if_true]
        exact post_trans hl1 (by simp [Core.eval, hea, hfal]) (ihb f env _ g1 (hr.step hl1 hs1) (hl1 ▸ hf.2))
  | or a b iha ihb =>
    intro fuel env st g hr hf
    cases fuel with
    | zero => rw [evalE_zero]; exact True.intro
    | succ f =>
      rw [toAst, evalE_or]
      simp only [globalsBelow, Bool.and_eq_true] at hf
      refine out_bindR (iha f env st g hr hf.1) (fun h => by simp only [Core.eval, h]) ?_
      rintro va s1 ⟨hva, g1, hea, rfl, hl1, hs1⟩
      rw [truthy_scalar hva, pure_bind, ← P2sh.Props.C06.falsey_table]
      cases hfal : va.isFalsey with
      | true =>
        simp only [Bool.not_true, Bool.false_eq_true, if_false]
        exact post_trans hl1 (by simp [Core.eval, hea, hfal]) (ihb f env _ g1 (hr.step hl1 hs1) (hl1 ▸ hf.2))
      | false =>
        simp only [Bool.not_false, if_true]
        exact ⟨rfl, hva, g1, by simp [Core.eval, hea, hfal], rfl, hl1, hs1⟩
  | ite c t e ihc iht ihe =>
    intro fuel env st g hr hf
    cases fuel with
    | zero => rw [evalE_zero]; exact True.intro
    | succ f =>
      rw [toAst, evalE_ite]
      simp only [globalsBelow, Bool.and_eq_true] at hf
      refine out_bindR (ihc f env st g hr hf.1.1) (fun h => by simp only [Core.eval, h]) ?_
      rintro vc s1 ⟨hvc, g1, hec, rfl, hl1, hs1⟩
      rw [truthy_scalar hvc, pure_bind, ← P2sh.Props.C06.falsey_table]
      have hr1 := (hr.step hl1 hs1).push
      cases hfal : vc.isFalsey with
      | true =>
        simp only [Bool.not_true, Bool.false_eq_true, if_false]
        exact out_evalBranch f ln _ _ (fun l fn args h => toAst_not_call nm ln e l fn args h) fun f' =>
          post_trans hl1 (by simp [Core.eval, hec, hfal]) (ihe f' _ _ g1 hr1 (hl1 ▸ hf.2))
      | false =>
        simp only [Bool.not_false, if_true]
        exact out_evalBranch f ln _ _ (fun l fn args h => toAst_not_call nm ln t l fn args h) fun f' =>
          post_trans hl1 (by simp [Core.eval, hec, hfal]) (iht f' _ _ g1 hr1 (hl1 ▸ hf.1.2))
  | gget i =>
    intro fuel env st g hr hf
    cases fuel with
    | zero => rw [evalE_zero]; exact True.intro
    | succ f =>
      simp only [globalsBelow, decide_eq_true_eq] at hf
      rw [toAst, evalE_gget _ _ _ _ _ i (hr.bound i hf), run_getCell_bind, hr.cells]
      have hsc := getD_scalar hr.scalars i
      rw [not_poison _ hsc]
      exact ⟨rfl, hsc, g, rfl, st_self hr.cells, rfl, hr.scalars⟩
  | gset i e ih =>
    intro fuel env st g hr hf
    cases fuel with
    | zero => rw [evalE_zero]; exact True.intro
    | succ f =>
      simp only [globalsBelow, Bool.and_eq_true, decide_eq_true_eq] at hf
      rw [toAst, evalE_gset]
      refine out_bindR (ih f env st g hr hf.2) (fun h => by simp only [Core.eval, h]) ?_
      rintro v s1 ⟨hv, g1, he, rfl, hl1, hs1⟩
      rw [assignIdent_g (hr.bound i hf.1), run_setCell_bind]
      have hi : i < g1.length := hl1 ▸ hf.1
      exact ⟨rfl, hv, g1.set i v, by simp only [Core.eval, he, hi, if_true], rfl,
        by rw [List.length_set]; exact hl1, set_scalar hs1 i hv⟩
  | matchE s arms ihs iharms =>
    intro fuel env st g hr hf
    cases fuel with
    | zero => rw [evalE_zero]; exact True.intro
    | succ f =>
      rw [toAst, evalE_match]
      simp only [globalsBelow, Bool.and_eq_true] at hf
      refine out_bindR (ihs f env st g hr hf.1) (fun h => by simp only [Core.eval, h]) ?_
      rintro v s1 ⟨hv, g1, hes, rfl, hl1, hs1⟩
      rw [reifyM_scalar hv, pure_bind]
      exact post_trans hl1 (by simp only [Core.eval, hes])
        (main_arms nm ln arms iharms f env _ g1 v (hr.step hl1 hs1) hv (hl1 ▸ hf.2))


/-! ## the theorems -/

/-- **the oracle's value is Core's value.**  Whenever the reference interpreter (the oracle)
evaluates the AST of a core expression to a value, `Core.eval` -- the semantics the compiler is
proved correct against -- yields the same value, the environment is unchanged, the oracle's state
differs from the initial one only in the cells, which are Core's globals afterwards, and the
relation between the states holds again. -/
theorem ref_value_core {nm : Nat → String} {ln : Nat} {e : CExpr} {fuel : Nat} {env env' : Env} {st st' : St}
    {g : List Val} {v : Val} (hr : EnvRel nm env st g) (hf : globalsBelow g.length e = true)
    (h : run (evalE fuel env (toAst nm ln e)) st = (.ok (.val v env'), st')) :
    ∃ g', Core.eval g e = some (v, g') ∧ env' = env ∧ st' = { st with cells := g' } ∧ EnvRel nm env' st' g' := by
  have hm := main_core nm ln e fuel env st g hr hf
  rw [h] at hm
  obtain ⟨rfl, -, g', he, rfl, hl, hs⟩ := hm
  exact ⟨g', he, rfl, rfl, hr.step hl hs⟩

/-- **the oracle's runtime error is Core's runtime error.** -/
theorem ref_error_core {nm : Nat → String} {ln : Nat} {e : CExpr} {fuel : Nat} {env : Env} {st st' : St}
    {g : List Val} {l : Nat} (hr : EnvRel nm env st g) (hf : globalsBelow g.length e = true)
    (h : run (evalE fuel env (toAst nm ln e)) st = (.error (.rt l), st')) :
    Core.eval g e = none := by
  have hm := main_core nm ln e fuel env st g hr hf
  rw [h] at hm
  exact hm

/-- a core expression never leaves through `break`/`continue`/`return` -/
theorem ref_no_jump_core {nm : Nat → String} {ln : Nat} {e : CExpr} {fuel : Nat} {env env' : Env} {st st' : St}
    {g : List Val} {fl : Flow} (hr : EnvRel nm env st g) (hf : globalsBelow g.length e = true) :
    run (evalE fuel env (toAst nm ln e)) st ≠ (.ok (.jump fl env'), st') := by
  intro h
  have hm := main_core nm ln e fuel env st g hr hf
  rw [h] at hm
  exact hm

/-- the value the oracle yields is a scalar (used to chain expressions) -/
theorem ref_value_scalar {nm : Nat → String} {ln : Nat} {e : CExpr} {fuel : Nat} {env env' : Env} {st st' : St}
    {g : List Val} {v : Val} (hr : EnvRel nm env st g) (hf : globalsBelow g.length e = true)
    (h : run (evalE fuel env (toAst nm ln e)) st = (.ok (.val v env'), st')) : isScalar v = true := by
  have hm := main_core nm ln e fuel env st g hr hf
  rw [h] at hm
  exact hm.2.1

/-- **composition with compiler correctness**: when the oracle yields the value `v`, the code
`Core.compile` emits for the expression, run on the Core machine from globals `g`, pushes `v` and
ends at the end of the code, with globals again related to the oracle's state. -/
theorem ref_value_compiled {nm : Nat → String} {ln : Nat} {e : CExpr} {fuel : Nat} {env env' : Env} {st st' : St}
    {g : List Val} {v : Val} (hr : EnvRel nm env st g) (hf : globalsBelow g.length e = true)
    (h : run (evalE fuel env (toAst nm ln e)) st = (.ok (.val v env'), st'))
    (C : List Core.Instr) (K : List Val) (pos k : Nat) (stk : List Val)
    (hc : Core.codeAt C pos (Core.compile pos k e)) (hp : Core.poolAt K k (Core.consts e)) :
    ∃ g', Core.Steps C K ⟨pos, stk, g⟩ ⟨pos + Core.bytes (Core.compile pos k e), v :: stk, g'⟩ ∧
      EnvRel nm env' st' g' := by
  obtain ⟨g', he, -, -, hr'⟩ := ref_value_core hr hf h
  exact ⟨g', Core.compile_correct e C K pos k stk g v g' hc hp he, hr'⟩

/-! ## the concrete instance of `EnvRel`: one global scope with distinct names -/

def globalScope (nm : Nat → String) (n : Nat) : Scope := (List.range n).map fun i => (nm i, Bind.g i)

theorem lookupScope_map (nm : Nat → String) (n : Nat) (hinj : ∀ i j, i < n → j < n → nm i = nm j → i = j) (i : Nat) (hi : i < n) :
    ∀ l : List Nat, (∀ j ∈ l, j < n) → i ∈ l → lookupScope (nm i) (l.map fun j => (nm j, Bind.g j)) = some (.g i)
  | [], _, hm => by cases hm
  | j :: rest, hl, hm => by
    simp only [List.map_cons, lookupScope]
    by_cases hji : nm j = nm i
    · have : j = i := hinj j i (hl j (List.mem_cons_self ..)) hi hji
      subst this
      simp
    · have hne : i ≠ j := fun e => hji (by rw [e])
      have hm' : i ∈ rest := by
        rcases List.mem_cons.mp hm with h | h
        · exact absurd h hne
        · exact h
      simp only [beq_iff_eq, hji, if_false]
      exact lookupScope_map nm n hinj i hi rest (fun j hj => hl j (List.mem_cons_of_mem _ hj)) hm'

/-- a single global scope binding the pairwise distinct names `nm 0 … nm (n-1)` to the cells `0 … n-1`
which hold scalars -/
theorem EnvRel.ofNames (nm : Nat → String) (st : St) (g : List Val)
    (hinj : ∀ i j, i < g.length → j < g.length → nm i = nm j → i = j)
    (hc : st.cells = g) (hs : ∀ v ∈ g, isScalar v = true) : EnvRel nm [globalScope nm g.length] st g := by
  refine ⟨hc, fun i hi => ?_, hs⟩
  have := lookupScope_map nm g.length hinj i hi (List.range g.length) (fun j hj => List.mem_range.mp hj)
    (List.mem_range.mpr hi)
  simp only [lookupEnv, globalScope, this]

/-! ## the embedding is what the recogniser of the fragment reads back -/

/-- patterns a source pattern denotes -/
def patOK : CPat → Bool
  | .lit (.int _) | .lit (.char _) | .lit (.byte _) | .lit (.str _) => true
  | .lit _ => false
  | .bool _ | .dflt => true
  | .range _ (.int _) (.int _) | .range _ (.char _) (.char _) | .range _ (.byte _) (.byte _)
  | .range _ (.str _) (.str _) => true
  | .range .. => false

mutual
/-- core expressions that source text denotes: literals and patterns of literal kinds, every
`match` with patterns of one kind (the compiler's check `kindsUniform`) -/
def denotable (nm : Nat → String) (ln : Nat) : CExpr → Bool
  | .lit v => isLit v
  | .tru | .fls | .null | .gget _ => true
  | .un _ e | .gset _ e => denotable nm ln e
  | .bin _ a b | .lt a b | .le a b | .and a b | .or a b => denotable nm ln a && denotable nm ln b
  | .ite c t e => denotable nm ln c && denotable nm ln t && denotable nm ln e
  | .matchE s arms => denotable nm ln s && denotableArms nm ln arms && Core.kindsUniform (toArms nm ln arms)
def denotableArms (nm : Nat → String) (ln : Nat) : CArms → Bool
  | .last d => denotable nm ln d
  | .cons pats body rest => pats.all patOK && denotable nm ln body && denotableArms nm ln rest
end

mutual
def depth : CExpr → Nat
  | .lit _ | .tru | .fls | .null | .gget _ => 0
  | .un _ e | .gset _ e => depth e + 1
  | .bin _ a b | .lt a b | .le a b | .and a b | .or a b => max (depth a) (depth b) + 1
  | .ite c t e => max (depth c) (max (depth t) (depth e)) + 1
  | .matchE s arms => max (depth s) (depthArms arms) + 1
def depthArms : CArms → Nat
  | .last d => depth d + 1
  | .cons _ body rest => max (depth body) (depthArms rest) + 1
end

theorem ofPat_toPat (ln : Nat) (p : CPat) (h : patOK p = true) : Core.ofPat (toPat ln p) = some p := by
  cases p with
  | dflt => rfl
  | bool b => rfl
  | lit w => cases w <;> first | rfl | (simp [patOK] at h)
  | range incl lo hi =>
    cases lo <;> cases hi <;> first | (simp [patOK] at h; done) | (cases incl <;> rfl)

theorem ofPats_toPat (ln : Nat) : ∀ ps : List CPat, ps.all patOK = true → Core.ofPats (ps.map (toPat ln)) = some ps
  | [], _ => rfl
  | p :: ps, h => by
    simp only [List.all_cons, Bool.and_eq_true] at h
    simp [Core.ofPats, ofPat_toPat ln p h.1, ofPats_toPat ln ps h.2]

def RoundTrip (vis : Core.Vis) (nm : Nat → String) (ln n : Nat) (e : CExpr) : Prop :=
  denotable nm ln e = true → globalsBelow n e = true → ∀ fuel, depth e < fuel →
    Core.ofExpr vis fuel (toAst nm ln e) = some e

theorem binSym_special (o : Operator) : binSym o ≠ "&&" ∧ binSym o ≠ "||" ∧ binSym o ≠ "<" ∧ binSym o ≠ "<=" := by
  cases o <;> decide

theorem operatorOfString_binSym (o : Operator) : Core.operatorOfString (binSym o) = some o := by
  cases o <;> rfl

theorem unOfString_unSym (o : UnOp) : Core.unOfString (unSym o) = some o := by
  cases o <;> rfl

theorem roundTrip_arms (vis : Core.Vis) (nm : Nat → String) (ln n : Nat) :
    ∀ arms : CArms, arms.All (RoundTrip vis nm ln n) → denotableArms nm ln arms = true →
      globalsBelowArms n arms = true → ∀ fuel, depthArms arms < fuel →
      Core.ofArms vis fuel (toArms nm ln arms) = some arms := by
  intro arms
  induction arms using CArms.ind with
  | last d =>
    intro hall hd hg fuel hf
    simp only [CArms.All] at hall
    simp only [denotableArms] at hd
    simp only [globalsBelowArms] at hg
    simp only [depthArms] at hf
    obtain ⟨f, rfl⟩ : ∃ f, fuel = f + 1 := ⟨fuel - 1, by omega⟩
    rw [toArms, exprBlock, Core.ofArms]
    simp [Core.armBody, Core.lastDefault?, hall hd hg f (by omega)]
  | cons pats body rest ih =>
    intro hall hd hg fuel hf
    simp only [CArms.All] at hall
    simp only [denotableArms, Bool.and_eq_true] at hd
    simp only [globalsBelowArms, Bool.and_eq_true] at hg
    simp only [depthArms] at hf
    obtain ⟨f, rfl⟩ : ∃ f, fuel = f + 1 := ⟨fuel - 1, by omega⟩
    have hrest : ∃ a as, toArms nm ln rest = a :: as := by
      cases rest <;> simp [toArms]
    obtain ⟨a, as, hra⟩ := hrest
    rw [toArms, exprBlock, Core.ofArms]
    have hl : Core.lastDefault? (pats.map (toPat ln)) (toArms nm ln rest) = none := by
      rw [hra]; unfold Core.lastDefault?; split <;> simp_all
    simp [Core.armBody, hl, hall.1 hd.1.2 hg.1 f (by omega), ofPats_toPat ln pats hd.1.1,
      ih hall.2 hd.2 hg.2 f (by omega)]


/-- **the embedding is in the recogniser's domain and is read back as the expression it came
from**: `Core.ofExpr` (which maps the AST of parsed source into the fragment) inverts `toAst` on
every denotable expression, for names `nm i` that the visible globals `vis` resolve to slot `i` -/
theorem ofExpr_toAst (vis : Core.Vis) (nm : Nat → String) (ln n : Nat)
    (hvis : ∀ i, i < n → Core.globalIndex vis (nm i) = some i) : ∀ e, RoundTrip vis nm ln n e := by
  intro e
  induction e with
  | lit v =>
    intro hd _ fuel hf
    obtain ⟨f, rfl⟩ : ∃ f, fuel = f + 1 := ⟨fuel - 1, by omega⟩
    simp only [denotable] at hd
    cases v <;> first | (simp [isLit] at hd; done) | (rw [toAst, litAst, Core.ofExpr])
  | tru => intro _ _ fuel hf; obtain ⟨f, rfl⟩ : ∃ f, fuel = f + 1 := ⟨fuel - 1, by omega⟩; rw [toAst, Core.ofExpr]
  | fls => intro _ _ fuel hf; obtain ⟨f, rfl⟩ : ∃ f, fuel = f + 1 := ⟨fuel - 1, by omega⟩; rw [toAst, Core.ofExpr]
  | null => intro _ _ fuel hf; obtain ⟨f, rfl⟩ : ∃ f, fuel = f + 1 := ⟨fuel - 1, by omega⟩; rw [toAst, Core.ofExpr]
  | un op a ih =>
    intro hd hg fuel hf
    simp only [denotable] at hd
    simp only [globalsBelow] at hg
    simp only [depth] at hf
    obtain ⟨f, rfl⟩ : ∃ f, fuel = f + 1 := ⟨fuel - 1, by omega⟩
    rw [toAst, Core.ofExpr]
    simp [unOfString_unSym, ih hd hg f (by omega)]
  | bin op a b iha ihb =>
    intro hd hg fuel hf
    simp only [denotable, Bool.and_eq_true] at hd
    simp only [globalsBelow, Bool.and_eq_true] at hg
    simp only [depth] at hf
    obtain ⟨f, rfl⟩ : ∃ f, fuel = f + 1 := ⟨fuel - 1, by omega⟩
    rw [toAst, Core.ofExpr]
    simp only [iha hd.1 hg.1 f (by omega), ihb hd.2 hg.2 f (by omega)]
    cases op <;> rfl
  | lt a b iha ihb =>
    intro hd hg fuel hf
    simp only [denotable, Bool.and_eq_true] at hd
    simp only [globalsBelow, Bool.and_eq_true] at hg
    simp only [depth] at hf
    obtain ⟨f, rfl⟩ : ∃ f, fuel = f + 1 := ⟨fuel - 1, by omega⟩
    rw [toAst, Core.ofExpr]
    simp [iha hd.1 hg.1 f (by omega), ihb hd.2 hg.2 f (by omega)]
  | le a b iha ihb =>
    intro hd hg fuel hf
    simp only [denotable, Bool.and_eq_true] at hd
    simp only [globalsBelow, Bool.and_eq_true] at hg
    simp only [depth] at hf
    obtain ⟨f, rfl⟩ : ∃ f, fuel = f + 1 := ⟨fuel - 1, by omega⟩
    rw [toAst, Core.ofExpr]
    simp [iha hd.1 hg.1 f (by omega), ihb hd.2 hg.2 f (by omega)]
  | and a b iha ihb =>
    intro hd hg fuel hf
    simp only [denotable, Bool.and_eq_true] at hd
    simp only [globalsBelow, Bool.and_eq_true] at hg
    simp only [depth] at hf
    obtain ⟨f, rfl⟩ : ∃ f, fuel = f + 1 := ⟨fuel - 1, by omega⟩
    rw [toAst, Core.ofExpr]
    simp [iha hd.1 hg.1 f (by omega), ihb hd.2 hg.2 f (by omega)]
  | or a b iha ihb =>
    intro hd hg fuel hf
    simp only [denotable, Bool.and_eq_true] at hd
    simp only [globalsBelow, Bool.and_eq_true] at hg
    simp only [depth] at hf
    obtain ⟨f, rfl⟩ : ∃ f, fuel = f + 1 := ⟨fuel - 1, by omega⟩
    rw [toAst, Core.ofExpr]
    simp [iha hd.1 hg.1 f (by omega), ihb hd.2 hg.2 f (by omega)]
  | ite c t e ihc iht ihe =>
    intro hd hg fuel hf
    simp only [denotable, Bool.and_eq_true] at hd
    simp only [globalsBelow, Bool.and_eq_true] at hg
    simp only [depth] at hf
    obtain ⟨f, rfl⟩ : ∃ f, fuel = f + 1 := ⟨fuel - 1, by omega⟩
    rw [toAst, exprBlock, exprBlock, Core.ofExpr]
    simp [ihc hd.1.1 hg.1.1 f (by omega), iht hd.1.2 hg.1.2 f (by omega), ihe hd.2 hg.2 f (by omega)]
  | gget i =>
    intro _ hg fuel hf
    simp only [globalsBelow, decide_eq_true_eq] at hg
    obtain ⟨f, rfl⟩ : ∃ f, fuel = f + 1 := ⟨fuel - 1, by omega⟩
    rw [toAst, Core.ofExpr]
    simp [hvis i hg]
  | gset i e ih =>
    intro hd hg fuel hf
    simp only [denotable] at hd
    simp only [globalsBelow, Bool.and_eq_true, decide_eq_true_eq] at hg
    simp only [depth] at hf
    obtain ⟨f, rfl⟩ : ∃ f, fuel = f + 1 := ⟨fuel - 1, by omega⟩
    rw [toAst, Core.ofExpr]
    simp [hvis i hg.1, ih hd hg.2 f (by omega)]
  | matchE s arms ihs iharms =>
    intro hd hg fuel hf
    simp only [denotable, Bool.and_eq_true] at hd
    simp only [globalsBelow, Bool.and_eq_true] at hg
    simp only [depth] at hf
    obtain ⟨f, rfl⟩ : ∃ f, fuel = f + 1 := ⟨fuel - 1, by omega⟩
    rw [toAst, Core.ofExpr]
    simp [ihs hd.1.1 hg.1 f (by omega), roundTrip_arms vis nm ln n arms iharms hd.1.2 hg.2 f (by omega), hd.2]

/-! ## non-vacuity: the hypotheses hold and the oracle commits -/

section Examples
def nm1 : Nat → String
  | 0 => "x"
  | 1 => "y"
  | _ => "z"

def g1 : List Val := [.int 7]
def st1 : St := { cells := g1 }
def env1 : Env := [globalScope nm1 1]

theorem rel1 : EnvRel nm1 env1 st1 g1 :=
  EnvRel.ofNames nm1 st1 g1 (by intro i j hi hj _; simp [g1] at hi hj; omega) rfl (by decide)

/-- `(1 + 2) < 4 && !(x == 3)` with `x = 7` -/
def e1 : CExpr :=
  .and (.lt (.bin .add (.lit (.int 1)) (.lit (.int 2))) (.lit (.int 4)))
       (.un .bang (.bin .equal (.gget 0) (.lit (.int 3))))

theorem e1_ref : run (evalE 10 env1 (toAst nm1 1 e1)) st1 = (.ok (.val (.bool true) env1), st1) := by rfl

example : ∃ g', Core.eval g1 e1 = some (.bool true, g') :=
  let ⟨g', h, _⟩ := ref_value_core rel1 (by decide) e1_ref
  ⟨g', h⟩

/-- `true + 1`: a runtime error of the oracle, on the line of the operator -/
def e2 : CExpr := .bin .add .tru (.lit (.int 1))
theorem e2_ref : run (evalE 10 env1 (toAst nm1 1 e2)) st1 = (.error (.rt 1), st1) := by rfl
example : Core.eval g1 e2 = none := ref_error_core rel1 (by decide) e2_ref

/-- `if (x = x + 1) > 7 { match x { 1..=5 => 10, 8 | 9 => 20, _ => 30 } } else { 0 }` with `x = 7`:
an assignment, an `if` and a `match` with a range, alternatives and the default arm -/
def e3 : CExpr :=
  .ite (.bin .greater (.gset 0 (.bin .add (.gget 0) (.lit (.int 1)))) (.lit (.int 7)))
    (.matchE (.gget 0)
      (.cons [.range true (.int 1) (.int 5)] (.lit (.int 10))
        (.cons [.lit (.int 8), .lit (.int 9)] (.lit (.int 20))
          (.last (.lit (.int 30))))))
    (.lit (.int 0))

theorem e3_ref : run (evalE 20 env1 (toAst nm1 1 e3)) st1 =
    (.ok (.val (.int 20) env1), { st1 with cells := [.int 8] }) := by rfl

example : Core.eval g1 e3 = some (.int 20, [.int 8]) := by
  obtain ⟨g', h, -, hst, -⟩ := ref_value_core rel1 (by decide) e3_ref
  have : g' = [.int 8] := (congrArg St.cells hst).symm
  rw [h, this]

/-- `match x { 'a' => 1, _ => 2 }` with the integer `x`: the oracle says `false` for a pattern of
another kind, so the default arm is taken -- and Core (`NotEqual` on an int and a char) agrees -/
def e4 : CExpr := .matchE (.gget 0) (.cons [.lit (.char 'a')] (.lit (.int 1)) (.last (.lit (.int 2))))
theorem e4_ref : run (evalE 20 env1 (toAst nm1 1 e4)) st1 = (.ok (.val (.int 2) env1), st1) := by rfl
example : ∃ g', Core.eval g1 e4 = some (.int 2, g') :=
  let ⟨g', h, _⟩ := ref_value_core rel1 (by decide) e4_ref
  ⟨g', h⟩

/-- the recogniser of the fragment (`Core.ofExpr`, which reads the AST of the parsed source) maps
the embedding back to the core expression -/
example : Core.ofExpr [("x", 0)] 20 (toAst nm1 1 e1) = some e1 := by rfl
example : Core.ofExpr [("x", 0)] 20 (toAst nm1 1 e3) = some e3 :=
  ofExpr_toAst [("x", 0)] nm1 1 1 (by intro i hi; obtain rfl : i = 0 := by omega
                                      rfl) e3 (by decide) (by decide) 20 (by decide)
example : Core.ofExpr [("x", 0)] 20 (toAst nm1 1 e3) = some e3 := by rfl
example : Core.ofExpr [("x", 0)] 20 (toAst nm1 1 e4) = some e4 := by rfl

end Examples

#print axioms ref_value_core
#print axioms ref_error_core
#print axioms ref_no_jump_core
#print axioms ref_value_scalar
#print axioms ref_value_compiled
#print axioms EnvRel.ofNames
#print axioms ofExpr_toAst

end P2sh.RefCore
