import P2sh.Props.BcvStep
import P2sh.Props.BcvVals
/-!
# The store typing that discharges the closure discipline `CD` (part 1: definitions, heap lemmas, (a), (c))

`SInv consts s`: there are ghost data `F` (the heap identities that are captured-value vectors of closures),
`T` (their guaranteed minimum length) and `n = s.heap.next` such that every closure value anywhere in the
state (stack, globals, constants, heap objects, running frames) points to a vector in `F` that is long enough
for its checked code, and no container value aliases a vector of `F`.
-/
namespace P2sh.Props.Bcv
open P2sh P2sh.Vm P2sh.Bcv P2sh.Code P2sh.Props.BcvWp P2sh.Props.BcvVals

/-! ## the partial-correctness calculus (`wp` without the no-panic claim) -/

def wpl {α} (m : M α) (Q : α → St → Prop) (s : St) : Prop :=
  match exec m s with
  | (.ok a, s') => Q a s'
  | (.error _, _) => True

theorem wpl_iff {α} (m : M α) (Q : α → St → Prop) (s : St) :
    wpl m Q s ↔ ∀ a s', exec m s = (.ok a, s') → Q a s' := by
  unfold wpl
  cases h : exec m s with
  | mk r s' =>
    cases r with
    | ok a => simp
    | error e => simp

theorem wpl_pure {α} (a : α) (Q : α → St → Prop) (s : St) : wpl (pure a : M α) Q s ↔ Q a s := by
  simp [wpl]

theorem wpl_bind {α β} (m : M α) (f : α → M β) (Q : β → St → Prop) (s : St) :
    wpl (m >>= f) Q s ↔ wpl m (fun a s' => wpl (f a) Q s') s := by
  unfold wpl
  rw [exec_bind]
  cases h : exec m s with
  | mk r s' =>
    cases r with
    | ok a => simp
    | error e => simp

theorem wpl_get (Q : St → St → Prop) (s : St) : wpl (get : M St) Q s ↔ Q s s := by simp [wpl]
theorem wpl_set (s' : St) (Q : PUnit → St → Prop) (s : St) : wpl (set s' : M PUnit) Q s ↔ Q ⟨⟩ s' := by simp [wpl]
theorem wpl_modify (f : St → St) (Q : PUnit → St → Prop) (s : St) : wpl (modify f : M PUnit) Q s ↔ Q ⟨⟩ (f s) := by
  simp [wpl]
theorem wpl_throw {α} (e : Res) (Q : α → St → Prop) (s : St) : wpl (throw e : M α) Q s ↔ True := by simp [wpl]
theorem wpl_rtErr {α} (msg : String) (l : Nat) (Q : α → St → Prop) (s : St) : wpl (rtErr msg l : M α) Q s ↔ True := by
  simp [wpl, rtErr]
theorem wpl_panicM {α} (msg : String) (Q : α → St → Prop) (s : St) : wpl (panicM msg : M α) Q s ↔ True := by
  simp [wpl, panicM]

theorem wpl_mono {α} {m : M α} {Q Q' : α → St → Prop} {s : St} (h : wpl m Q s) (hq : ∀ a s', Q a s' → Q' a s') :
    wpl m Q' s := by
  unfold wpl at *
  split <;> simp_all

theorem wpl_ite {α} (c : Prop) [Decidable c] (a b : M α) (Q : α → St → Prop) (s : St) :
    wpl (if c then a else b) Q s ↔ (if c then wpl a Q s else wpl b Q s) := by
  split <;> rfl

theorem wpl_ok {α} {m : M α} {Q : α → St → Prop} {s s' : St} {a : α} (h : wpl m Q s) (he : exec m s = (.ok a, s')) :
    Q a s' := by
  unfold wpl at h; rw [he] at h; exact h

/-- the no-panic calculus and the partial-correctness calculus combine -/
theorem wp_and_wpl {α} {m : M α} {Q R : α → St → Prop} {s : St} (h1 : wp m Q s) (h2 : wpl m R s) :
    wp m (fun a s' => Q a s' ∧ R a s') s := by
  unfold wp wpl at *
  cases h : exec m s with
  | mk r s' =>
    rw [h] at h1 h2
    cases r with
    | ok a => exact ⟨h1, h2⟩
    | error e => cases e <;> exact h1

theorem wpl_of_wp {α} {m : M α} {Q : α → St → Prop} {s : St} (h1 : wp m Q s) : wpl m Q s := by
  unfold wp wpl at *
  cases h : exec m s with
  | mk r s' =>
    rw [h] at h1
    cases r with
    | ok a => exact h1
    | error e => trivial

theorem wpl_push (v : Val) (line : Nat) (Q : Unit → St → Prop) (s : St) :
    wpl (push v line) Q s ↔ (s.sp < s.stack.size → Q () { s with stack := s.stack.set! s.sp v, sp := s.sp + 1 }) := by
  simp only [push, wpl_bind, wpl_get, wpl_ite, wpl_rtErr, wpl_set]
  split <;> simp_all <;> omega

theorem wpl_pop (line : Nat) (Q : Val → St → Prop) (s : St) :
    wpl (pop line) Q s ↔ (s.sp ≠ 0 → Q (s.stack.getD (s.sp - 1) .null) { s with sp := s.sp - 1 }) := by
  simp only [pop, wpl_bind, wpl_get, wpl_ite, wpl_rtErr, wpl_set, wpl_pure]
  split <;> simp_all

theorem wpl_peek0 (Q : Val → St → Prop) (s : St) :
    wpl (peek 0) Q s ↔ Q (if s.sp = 0 then .null else s.stack.getD (s.sp - 1) .null) s := by
  simp only [peek, wpl_bind, wpl_get, wpl_ite, wpl_panicM, wpl_pure]
  split
  · omega
  · split <;> simp_all

theorem wpl_top0 (line : Nat) (Q : Val → St → Prop) (s : St) :
    wpl (top 0 line) Q s ↔ (s.sp ≠ 0 → Q (s.stack.getD (s.sp - 1) .null) s) := by
  simp only [top, wpl_bind, wpl_get, wpl_ite, wpl_panicM, wpl_pure, wpl_rtErr]
  split
  · omega
  · split <;> simp_all

theorem wpl_curFrame' (Q : Frame → St → Prop) (s : St) :
    wpl curFrame Q s ↔ match s.frames with | f :: _ => Q f s | [] => True := by
  simp only [curFrame, wpl_bind, wpl_get]
  cases s.frames <;> simp [wpl_pure, wpl_panicM]

theorem wpl_setIp (ip : Nat) (Q : Unit → St → Prop) (s : St) : wpl (setIp ip) Q s ↔ Q () (withIp ip s) := by
  simp only [setIp, wpl_modify, withIp]
  exact Iff.rfl

theorem wpl_reifyM (v : Val) (Q : Val → St → Prop) (s : St) : wpl (reifyM v) Q s ↔ Q (reify s.heap reifyDepth v) s := by
  simp only [reifyM, wpl_bind, wpl_get, wpl_pure]

theorem wpl_reflectM (v : Val) (Q : Val → St → Prop) (s : St) :
    wpl (reflectM v) Q s ↔ Q (reflect s.heap reifyDepth v).2 { s with heap := (reflect s.heap reifyDepth v).1 } := by
  simp only [reflectM, wpl_bind, wpl_get, wpl_pure, wpl_set]

theorem wpl_readU16 (code : List Nat) (pos : Nat) (Q : Nat → St → Prop) (s : St) (h : ∀ k, Q k s) :
    wpl (readU16 code pos) Q s := by
  unfold readU16
  split
  · simp only [wpl_pure]; exact h _
  · simp only [wpl_panicM]

theorem wpl_readU8 (code : List Nat) (pos : Nat) (Q : Nat → St → Prop) (s : St) (h : ∀ k, Q k s) :
    wpl (readU8 code pos) Q s := by
  unfold readU8
  split
  · simp only [wpl_pure]; exact h _
  · simp only [wpl_panicM]

theorem wpl_readU16' (code : List Nat) (pos : Nat) (Q : Nat → St → Prop) (s : St) (h : pos + 2 ≤ code.length) :
    wpl (readU16 code pos) Q s ↔ Q (code.getD pos 0 * 256 + code.getD (pos + 1) 0) s := by
  unfold readU16
  have h1 : code[pos]? = some (code.getD pos 0) := by
    rw [List.getD_eq_getElem?_getD, List.getElem?_eq_getElem (by omega)]; rfl
  have h2 : code[pos + 1]? = some (code.getD (pos + 1) 0) := by
    rw [List.getD_eq_getElem?_getD, List.getElem?_eq_getElem (by omega)]; rfl
  rw [h1, h2]
  simp only [wpl_pure]

theorem wpl_readU8' (code : List Nat) (pos : Nat) (Q : Nat → St → Prop) (s : St) (h : pos + 1 ≤ code.length) :
    wpl (readU8 code pos) Q s ↔ Q (code.getD pos 0) s := by
  unfold readU8
  have h1 : code[pos]? = some (code.getD pos 0) := by
    rw [List.getD_eq_getElem?_getD, List.getElem?_eq_getElem (by omega)]; rfl
  rw [h1]
  simp only [wpl_pure]

theorem wpl_ofOpRes (line : Nat) (r : OpRes) (Q : Val → St → Prop) (s : St) :
    wpl (ofOpRes line r) Q s ↔ match r with
      | .ok v => Q (reflect s.heap reifyDepth v).2 { s with heap := (reflect s.heap reifyDepth v).1 }
      | .err _ => True
      | .panic _ => True := by
  cases r <;> simp [ofOpRes, wpl_reflectM, wpl_rtErr, wpl_panicM]

/-- `mapM` of a computation that only reads the state -/
theorem wpl_mapM_read {α β} (f : α → M β) (g : St → α → β)
    (hf : ∀ a (Q : β → St → Prop) s, wpl (f a) Q s ↔ Q (g s a) s) :
    ∀ (l : List α) (Q : List β → St → Prop) (s : St), wpl (l.mapM f) Q s ↔ Q (l.map (g s)) s := by
  intro l
  induction l with
  | nil => intro Q s; simp only [List.mapM_nil, wpl_pure, List.map_nil]
  | cons a l ih =>
    intro Q s
    rw [List.mapM_cons]
    simp only [wpl_bind, hf, ih, wpl_pure, List.map_cons]

/-! ## bounded variant of `reflect_spec`: the fresh identities are below the new `next` -/

section reflectB
variable {P : FnDef → Nat → Prop} {C C' : Nat → Prop}

theorem foldA_next_le {n : Nat} (hrec : ∀ (h : Heap) (v : Val), h.next ≤ (reflect h n v).1.next) :
    ∀ (xs : List Val) (acc : Heap × List Val), acc.1.next ≤ (xs.foldl (stepA n) acc).1.next := by
  intro xs
  induction xs with
  | nil => intro acc; exact Nat.le_refl _
  | cons x xs ih =>
    intro acc
    rw [List.foldl_cons]
    exact Nat.le_trans (hrec acc.1 x) (ih (stepA n acc x))

theorem foldM_next_le {n : Nat} (hrec : ∀ (h : Heap) (v : Val), h.next ≤ (reflect h n v).1.next) :
    ∀ (kvs : List (Val × Val)) (acc : Heap × List (Val × Val)), acc.1.next ≤ (kvs.foldl (stepM n) acc).1.next := by
  intro kvs
  induction kvs with
  | nil => intro acc; exact Nat.le_refl _
  | cons p kvs ih =>
    intro acc
    rw [List.foldl_cons]
    exact Nat.le_trans (Nat.le_trans (hrec acc.1 p.1) (hrec _ p.2)) (ih (stepM n acc p))

theorem reflect_next_le : ∀ (n : Nat) (h : Heap) (v : Val), h.next ≤ (reflect h n v).1.next := by
  intro n
  induction n with
  | zero => intro h v; exact Nat.le_refl _
  | succ n ih =>
    intro h v
    cases v
    case arr id xs =>
      by_cases hid : id = 0
      · subst hid
        rw [reflect_arr0]
        exact Nat.le_trans (foldA_next_le ih xs (h, [])) (Nat.le_succ _)
      · have : reflect h (n+1) (.arr id xs) = (h, .arr id []) := by simp [reflect, hid]
        rw [this]; exact Nat.le_refl _
    case map id kvs =>
      by_cases hid : id = 0
      · subst hid
        rw [reflect_map0]
        exact Nat.le_trans (foldM_next_le ih kvs (h, [])) (Nat.le_succ _)
      · have : reflect h (n+1) (.map id kvs) = (h, .map id []) := by simp [reflect, hid]
        rw [this]; exact Nat.le_refl _
    all_goals exact Nat.le_refl _

/-- the statement proved by induction on the fuel: one colour `C` for the old identities and the new ones
below the bound `N` -/
def ReflectOkB (P : FnDef → Nat → Prop) (C : Nat → Prop) (n : Nat) : Prop :=
  ∀ (h : Heap) (v : Val) (N : Nat), HeapWf h → HeapOk P C h → (reflect h n v).1.next ≤ N →
    (∀ id, h.next ≤ id → id < N → C id) → VOk P C v →
    VOk P C (reflect h n v).2 ∧ HeapExt P C h (reflect h n v).1

theorem foldA_okB {n : Nat} (hrec : ReflectOkB P C n) :
    ∀ (xs : List Val) (acc : Heap × List Val) (N : Nat), HeapWf acc.1 → HeapOk P C acc.1 →
      (xs.foldl (stepA n) acc).1.next ≤ N →
      (∀ id, acc.1.next ≤ id → id < N → C id) → VOkL P C acc.2 → VOkL P C xs →
      VOkL P C (xs.foldl (stepA n) acc).2 ∧ HeapExt P C acc.1 (xs.foldl (stepA n) acc).1 := by
  intro xs
  induction xs with
  | nil => intro acc N hw hk _ _ ha _; exact ⟨ha, HeapExt.refl hw hk⟩
  | cons x xs ih =>
    intro acc N hw hk hN hf ha hx
    rw [vokL_cons] at hx
    rw [List.foldl_cons] at hN ⊢
    have hN1 : (reflect acc.1 n x).1.next ≤ N :=
      Nat.le_trans (foldA_next_le (reflect_next_le n) xs (stepA n acc x)) hN
    obtain ⟨hv, e1⟩ := hrec acc.1 x N hw hk hN1 hf hx.1
    have := ih (stepA n acc x) N e1.wf e1.ok hN (fun id hid => hf id (Nat.le_trans e1.le hid))
      (vokL_append ha (vokL_singleton hv)) hx.2
    exact ⟨this.1, e1.trans this.2⟩

theorem foldM_okB {n : Nat} (hrec : ReflectOkB P C n) :
    ∀ (kvs : List (Val × Val)) (acc : Heap × List (Val × Val)) (N : Nat), HeapWf acc.1 → HeapOk P C acc.1 →
      (kvs.foldl (stepM n) acc).1.next ≤ N →
      (∀ id, acc.1.next ≤ id → id < N → C id) → VOkP P C acc.2 → VOkP P C kvs →
      VOkP P C (kvs.foldl (stepM n) acc).2 ∧ HeapExt P C acc.1 (kvs.foldl (stepM n) acc).1 := by
  intro kvs
  induction kvs with
  | nil => intro acc N hw hk _ _ ha _; exact ⟨ha, HeapExt.refl hw hk⟩
  | cons p kvs ih =>
    intro acc N hw hk hN hf ha hx
    obtain ⟨k, v⟩ := p
    rw [vokP_cons] at hx
    rw [List.foldl_cons] at hN ⊢
    have hN2 : (reflect (reflect acc.1 n k).1 n v).1.next ≤ N :=
      Nat.le_trans (foldM_next_le (reflect_next_le n) kvs (stepM n acc (k, v))) hN
    have hN1 : (reflect acc.1 n k).1.next ≤ N := Nat.le_trans (reflect_next_le n _ v) hN2
    obtain ⟨hk1, e1⟩ := hrec acc.1 k N hw hk hN1 hf hx.1
    have hf1 : ∀ id, (reflect acc.1 n k).1.next ≤ id → id < N → C id := fun id hid => hf id (Nat.le_trans e1.le hid)
    obtain ⟨hv2, e2⟩ := hrec (reflect acc.1 n k).1 v N e1.wf e1.ok hN2 hf1 hx.2.1
    have := ih (stepM n acc (k, v)) N e2.wf e2.ok hN (fun id hid => hf1 id (Nat.le_trans e2.le hid))
      (vokP_append ha (vokP_cons.2 ⟨hk1, hv2, vokP_nil⟩)) hx.2.2
    exact ⟨this.1, (e1.trans e2).trans this.2⟩

theorem reflectOkB (n : Nat) : ReflectOkB P C n := by
  induction n with
  | zero => intro h v N hw hk _ _ hv; exact ⟨hv, HeapExt.refl hw hk⟩
  | succ n ih =>
    intro h v N hw hk hN hf hv
    cases v
    case arr id xs =>
      rw [vok_arr] at hv
      by_cases hid : id = 0
      · subst hid
        rw [reflect_arr0] at hN ⊢
        have hN' : (xs.foldl (stepA n) (h, [])).1.next < N := hN
        obtain ⟨hys, e⟩ := foldA_okB ih xs (h, []) N hw hk (Nat.le_of_lt hN') hf vokL_nil hv.2
        exact ⟨vok_arr.2 ⟨Or.inr (hf _ e.le hN'), vokL_nil⟩, e.trans (HeapExt.alloc e.wf e.ok hys)⟩
      · have : reflect h (n+1) (.arr id xs) = (h, .arr id []) := by simp [reflect, hid]
        rw [this]
        exact ⟨vok_arr.2 ⟨hv.1, vokL_nil⟩, HeapExt.refl hw hk⟩
    case map id kvs =>
      rw [vok_map] at hv
      by_cases hid : id = 0
      · subst hid
        rw [reflect_map0] at hN ⊢
        have hN' : (kvs.foldl (stepM n) (h, [])).1.next < N := hN
        obtain ⟨hys, e⟩ := foldM_okB ih kvs (h, []) N hw hk (Nat.le_of_lt hN') hf vokP_nil hv.2
        exact ⟨vok_map.2 ⟨Or.inr (hf _ e.le hN'), vokP_nil⟩, e.trans (HeapExt.alloc e.wf e.ok hys)⟩
      · have : reflect h (n+1) (.map id kvs) = (h, .map id []) := by simp [reflect, hid]
        rw [this]
        exact ⟨vok_map.2 ⟨hv.1, vokP_nil⟩, HeapExt.refl hw hk⟩
    all_goals exact ⟨hv, HeapExt.refl hw hk⟩

/-- `reflect_spec` with the fresh identities bounded by the new `next` -/
theorem reflect_specB {h : Heap} {n : Nat} {v : Val} (hw : HeapWf h) (hk : HeapOk P C h) (hv : VOk P C v)
    (hC : ∀ id, C id → C' id) (hnew : ∀ id, h.next ≤ id → id < (reflect h n v).1.next → C' id) :
    VOk P C' (reflect h n v).2 ∧ HeapOk P C' (reflect h n v).1 ∧ HeapWf (reflect h n v).1 ∧
      h.next ≤ (reflect h n v).1.next ∧ (∀ id, id < h.next → (reflect h n v).1.get? id = h.get? id) := by
  obtain ⟨h1, e⟩ := reflectOkB (P := P) (C := C') n h v _ hw (heapOk_mono (fun _ _ x => x) hC hk) (Nat.le_refl _) hnew
    (vok_mono (fun _ _ x => x) hC hv)
  exact ⟨h1, e.ok, e.wf, e.le, e.old⟩

end reflectB

/-! ## the store typing -/

/-- a closure value `.clos g _ id` is well-typed: its code is checked and its captured vector is a registered
vector of sufficient guaranteed length -/
def PP (consts : List Val) (F : Nat → Prop) (T : Nat → Nat) (g : FnDef) (id : Nat) : Prop :=
  (∃ sm, check consts .func g = .ok sm) ∧ F id ∧ freeNeed g ≤ T id

/-- a container identity is allocated and is not a captured vector -/
def CC (F : Nat → Prop) (n : Nat) (id : Nat) : Prop := id < n ∧ ¬ F id

abbrev VS (consts : List Val) (F : Nat → Prop) (T : Nat → Nat) (n : Nat) (v : Val) : Prop :=
  VOk (PP consts F T) (CC F n) v

/-- every frame except the bottom one runs a well-typed closure -/
def FramesOk (P : FnDef → Nat → Prop) : List Frame → Prop
  | [] => True
  | f :: rest => (rest ≠ [] → P f.fn f.closId) ∧ FramesOk P rest

structure SI (consts : List Val) (F : Nat → Prop) (T : Nat → Nat) (n : Nat) (s : St) : Prop where
  nx : s.heap.next = n
  wf : HeapWf s.heap
  pos : 0 < n
  f0 : ¬ F 0
  hok : HeapOk (PP consts F T) (CC F n) s.heap
  fs : ∀ id, F id → id < n ∧ T id ≤ (s.heap.getArr id).length
  stack : ∀ i, VS consts F T n (s.stack.getD i .null)
  globals : ∀ i, VS consts F T n (s.globals.getD i .null)
  cst : ∀ (i : Nat) (c : Val), s.constants[i]? = some c → VS consts F T n c
  frames : FramesOk (PP consts F T) s.frames

/-- **the store typing** -/
def SInv (consts : List Val) (s : St) : Prop := ∃ F T n, SI consts F T n s

/-! ### (a) the store typing gives the closure discipline -/

theorem sinv_cd {consts : List Val} {s : St} (h : SInv consts s) : CD consts s := by
  obtain ⟨F, T, n, h⟩ := h
  constructor
  · intro i g fr id hi
    have := h.stack i
    rw [hi] at this
    obtain ⟨hck, hF, hle⟩ := vok_clos.1 this
    exact ⟨hck, Nat.le_trans hle (h.fs id hF).2⟩
  · intro f rest hf hr
    have := h.frames
    rw [hf] at this
    obtain ⟨_, hF, hle⟩ := this.1 hr
    exact Nat.le_trans hle (h.fs _ hF).2

/-! ### (c) the initial state -/

theorem vok_plain {P : FnDef → Nat → Prop} {C : Nat → Prop} {v : Val} (h : plainConst v = true) : VOk P C v := by
  cases v <;> simp [plainConst] at h ⊢

theorem getD_replicate_null (k i : Nat) : (Array.replicate k Val.null).getD i .null = .null := by
  simp [Array.getD]

theorem sinv_init {consts : List Val} (main : FnDef) (hc : consts.all Bcv.plainConst = true) :
    SInv consts (Vm.initState main consts) := by
  refine ⟨fun _ => False, fun _ => 0, 1, ?_⟩
  refine ⟨rfl, ?_, Nat.one_pos, fun h => h, ?_, fun _ h => h.elim, ?_, ?_, ?_, ?_⟩
  · intro p hp; simp [initState] at hp
  · intro p hp; simp [initState] at hp
  · intro i; simp only [initState, getD_replicate_null]; exact vok_null
  · intro i; simp only [initState, getD_replicate_null]; exact vok_null
  · intro i c hi
    simp only [initState, List.getElem?_toArray] at hi
    have := List.mem_of_getElem? hi
    exact vok_plain (List.all_eq_true.1 hc c this)
  · simp [initState, FramesOk]

end P2sh.Props.Bcv
