import P2sh.Model.Parser
import P2sh.Props.C01
import P2sh.Props.C03
/-!
# C01, parser half — the Pratt-parser model ends on EVERY token list with the driver's fuel

`P2sh.Parser.parseExpr` / `loop` / `parseArgs` / `parseArgsTail` are fuel-indexed; the result `fuel`
stands for "did not end" (out of fuel, or the `while peek_valid_expression` loop of `parse_expression`
meeting a token that continues the expression but has no infix function: the real loop does not advance
then).  The theorems:

* `infix_when_continues` — table fact, from `C03.infix_for_every_prec` (every rule with a precedence above
  `Lowest` has an infix function) and `right_assoc_have_infix`, both `decide`d against the generated
  `Gen.ParseRules.rules`: a token on which `peek_valid_expression` answers true has an infix function.
  A change of the Rust table that gives a prefix-only token (`!`, `~`, a literal, …) a precedence
  reintroduces the hang and breaks this fact.
* `progress` — with fuel `2·|ts| + 1` (`+ 2` for the loop, the argument list, `if`, `match` and its arms, array
  elements, map pairs and statements, `+ 3` for blocks) no function returns `fuel`, and each consumes at least one
  token when it succeeds (the loop and the block: do not add tokens).  `parseAlt_good` / `parsePats_good`: the same
  for the alternatives of a match pattern.
* `parseTop_total`, `parseTokens_total` — the statement-level entry with the driver's fuel `2·|ts| + 4`
  ends with `ok`, `err` or `skip` for EVERY token list.
* `parse_text_total` — with `C01.scan_total`: for every source string, scanning ends without panic and the
  parser model ends on its tokens.  `skip` = the text is outside the modelled sub-grammar (one expression
  statement over literals, identifiers, groups, prefix/binary operators, assignment, ranges, index, call);
  for those texts nothing is claimed about the real parser here (C01's differential run covers them).
* `parseProgram_total`, `parseProgramTokens_total`, `parse_program_text_total` — the same for whole programs
  (`parse_program` with `let`, `return`, expression statements, blocks, `while`, `loop`, loop labels,
  `break`/`continue`, `fn` statements, filter statements, and `if`/`else`, `fn` literals, `match` with flat
  patterns, array and map literals, `null`, `_` as expressions).
-/
namespace P2sh.Props.C01Parse
open P2sh.Parser P2sh.Gen.ParseRules

/-! ## the table fact -/

theorem rankOf_eq (n : String) : P2sh.Parser.rankOf n = (P2sh.Props.C03.rankOf n).getD 0 := by
  unfold P2sh.Parser.rankOf P2sh.Props.C03.rankOf
  cases precedenceOrder.find? (fun q => q.1 == n) <;> rfl

/-- every right-associative rule has an infix function -/
theorem right_assoc_have_infix : rules.all (fun r => !(r.2.2.2.2 == "Right") || r.2.2.1 != "") = true := by decide +kernel

theorem lowest_is_zero : P2sh.Parser.rankOf "Lowest" = 0 := by decide +kernel

/-- a token that continues an expression (`peek_valid_expression` true) has an infix function -/
theorem infixKind_ne_none {tt : String} (h : infixFn tt ≠ "") : infixKind tt ≠ .none := by
  unfold infixKind
  simp only [beq_iff_eq, h, if_false]
  repeat' split
  all_goals simp

theorem infix_when_continues (c : Nat) (tt : String) (h : continues c tt = true) : infixKind tt ≠ .none := by
  apply infixKind_ne_none
  have hs := P2sh.Props.C03.loop_test
  simp only [continues, hs.1, hs.2, Bool.false_eq_true, if_false, if_true, Bool.and_eq_true] at h
  have h := h.1.1
  unfold infixFn
  unfold rightAssoc precRank at h
  unfold ruleOf at h ⊢
  cases hf : rules.find? (fun r => r.1 == tt) with
  | none =>
    simp only [hf, lowest_is_zero] at h
    simp at h
  | some r =>
    have hmem : r ∈ rules := List.mem_of_find?_eq_some hf
    simp only [hf] at h ⊢
    have h1 := List.all_eq_true.mp right_assoc_have_infix r hmem
    have h2 := List.all_eq_true.mp P2sh.Props.C03.infix_for_every_prec r hmem
    cases hr : (r.2.2.2.2 == "Right")
    · simp only [hr, Bool.false_eq_true, if_false, decide_eq_true_eq] at h
      rw [rankOf_eq] at h
      cases hk : P2sh.Props.C03.rankOf r.2.2.2.1 with
      | none => simp [hk] at h
      | some k =>
        cases k with
        | zero => simp [hk] at h
        | succ k => simp only [hk] at h2; simpa using h2
    · simp only [hr, Bool.not_true, Bool.false_or] at h1; simpa using h1

/-! ## progress -/

/-- ends, and leaves fewer than `n + 1` tokens / strictly fewer than `n + 1` … -/
def Le {α} (r : Res (α × List Tok)) (n : Nat) : Prop := r ≠ .fuel ∧ ∀ a rest, r = .ok (a, rest) → rest.length ≤ n
def Lt {α} (r : Res (α × List Tok)) (n : Nat) : Prop := r ≠ .fuel ∧ ∀ a rest, r = .ok (a, rest) → rest.length + 1 ≤ n

theorem Le_err {α n} : Le (Res.err : Res (α × List Tok)) n := ⟨by simp, by simp⟩
theorem Le_skip {α n} : Le (Res.skip : Res (α × List Tok)) n := ⟨by simp, by simp⟩
theorem Lt_err {α n} : Lt (Res.err : Res (α × List Tok)) n := ⟨by simp, by simp⟩
theorem Lt_skip {α n} : Lt (Res.skip : Res (α × List Tok)) n := ⟨by simp, by simp⟩
theorem Le_ok {α n} {a : α} {rest : List Tok} (h : rest.length ≤ n) : Le (Res.ok (a, rest)) n :=
  ⟨by simp, by intro a' r' e; cases e; exact h⟩
theorem Lt_ok {α n} {a : α} {rest : List Tok} (h : rest.length + 1 ≤ n) : Lt (Res.ok (a, rest)) n :=
  ⟨by simp, by intro a' r' e; cases e; exact h⟩
theorem Lt_of_Le {α n m} {r : Res (α × List Tok)} (h : Le r n) (hm : n + 1 ≤ m) : Lt r m :=
  ⟨h.1, fun a rest e => by have := h.2 a rest e; omega⟩
theorem Le_mono {α n m} {r : Res (α × List Tok)} (h : Le r n) (hm : n ≤ m) : Le r m :=
  ⟨h.1, fun a rest e => by have := h.2 a rest e; omega⟩
theorem Lt_mono {α n m} {r : Res (α × List Tok)} (h : Lt r n) (hm : n ≤ m) : Lt r m :=
  ⟨h.1, fun a rest e => by have := h.2 a rest e; omega⟩

theorem Lt_ite {α n} {c : Prop} [Decidable c] {a b : Res (α × List Tok)} (ha : c → Lt a n) (hb : ¬ c → Lt b n) :
    Lt (if c then a else b) n := by
  split
  · exact ha ‹_›
  · exact hb ‹_›
theorem Le_ite {α n} {c : Prop} [Decidable c] {a b : Res (α × List Tok)} (ha : c → Le a n) (hb : ¬ c → Le b n) :
    Le (if c then a else b) n := by
  split
  · exact ha ‹_›
  · exact hb ‹_›

theorem bind_cases {α β} {m : Res α} {k : α → Res β} (P : Res β → Prop) (herr : P .err) (hskip : P .skip)
    (hnf : m ≠ .fuel) (hok : ∀ a, m = .ok a → P (k a)) : P (m.bind k) := by
  cases m with
  | ok a => exact hok a rfl
  | err => exact herr
  | skip => exact hskip
  | fuel => exact absurd rfl hnf

theorem tail_le (ts : List Tok) : ts.tail.length ≤ ts.length := by cases ts <;> simp

theorem tail_lt_of_peek {tt : String} {ts : List Tok} (h : peekIs tt ts = true) (hne : (tt == "Eof") = false) :
    ts.tail.length + 1 ≤ ts.length := by
  cases ts with
  | nil => simp [peekIs, hne] at h
  | cons t tl => simp

theorem identAtom_nf (t : Tok) : identAtom t ≠ .fuel := by cases t <;> simp [identAtom]
theorem decimalAtom_nf (t : Tok) : decimalAtom t ≠ .fuel := by cases t <;> simp [decimalAtom]
theorem boolAtom_nf (t : Tok) : boolAtom t ≠ .fuel := by cases t <;> simp [boolAtom]

theorem skipSemi_le (ts : List Tok) : (skipSemi ts).length ≤ ts.length := by
  unfold skipSemi; split
  · exact tail_le ts
  · exact Nat.le_refl _

theorem labelOf_le (ts : List Tok) : (labelOf ts).2.length ≤ ts.length := by
  unfold labelOf; split
  · exact Nat.le_trans (skipSemi_le _) (tail_le ts)
  · exact skipSemi_le ts

theorem parseParamsTail_le : ∀ (ts : List Tok) (acc ps : List String) (r : List Tok),
    parseParamsTail ts acc = .ok (ps, r) → r.length ≤ ts.length
  | c :: p :: rest, acc, ps, r, h => by
    cases p <;> simp only [parseParamsTail] at h <;> split at h <;>
      first
      | (have := parseParamsTail_le rest _ ps r h; simp only [List.length_cons]; omega)
      | (simp at h; done)
      | (split at h
         · simp only [Res.ok.injEq, Prod.mk.injEq] at h; rw [← h.2]; simp
         · simp at h)
  | [c], acc, ps, r, h => by
    simp only [parseParamsTail] at h
    split at h
    · simp at h
    · split at h
      · simp only [Res.ok.injEq, Prod.mk.injEq] at h; rw [← h.2]; simp
      · simp at h
  | [], acc, ps, r, h => by simp [parseParamsTail] at h

theorem parseParamsTail_nf : ∀ (ts : List Tok) (acc : List String), parseParamsTail ts acc ≠ .fuel
  | c :: p :: rest, acc => by
    cases p <;> simp only [parseParamsTail] <;> split <;>
      first
      | exact parseParamsTail_nf rest _
      | (simp; done)
      | (split <;> simp)
  | [c], acc => by simp only [parseParamsTail]; split <;> (try split) <;> simp
  | [], acc => by simp [parseParamsTail]

theorem parseParams_good (ts : List Tok) : Le (parseParams ts) ts.length := by
  unfold parseParams
  split
  · exact Le_ok (tail_le ts)
  · split
    · rename_i s0 rest0 _
      refine ⟨?_, fun ps r h => ?_⟩
      · exact parseParamsTail_nf _ _
      · have := parseParamsTail_le rest0 [s0] ps r h; simp only [List.length_cons]; omega
    · exact Le_skip

theorem litAtom_nf (t : Tok) : litAtom t ≠ .fuel := by
  cases t <;> simp only [litAtom] <;> (repeat' split) <;> simp

theorem dollarOperand_good (ts : List Tok) : Lt (dollarOperand ts) ts.length := by
  cases ts with
  | nil => exact Lt_err
  | cons a rest =>
    simp only [dollarOperand, List.length_cons]
    split
    · exact bind_cases (Lt · _) Lt_err Lt_skip (decimalAtom_nf a) (fun e _ => Lt_ok (Nat.le_refl _))
    · split
      · exact bind_cases (Lt · _) Lt_err Lt_skip (identAtom_nf a) (fun e _ => Lt_ok (Nat.le_refl _))
      · exact Lt_err

theorem patAtomOf_nf (t : Tok) : patAtomOf t ≠ .fuel := by
  cases t with
  | lit tt s =>
    simp only [patAtomOf]
    split
    · exact bind_cases (· ≠ .fuel) (by simp) (by simp) (litAtom_nf _) (fun e _ => by cases e <;> simp only [] <;> (try split) <;> simp)
    · split <;> simp
  | _ => simp only [patAtomOf] <;> (repeat' split) <;> simp

theorem finishPats_nf (ps : List (Option PPat)) : finishPats ps ≠ .fuel := by
  unfold finishPats
  split
  · simp
  · dsimp only
    split
    · simp
    · split <;> simp

theorem finishArms_nf (arms : List PArm) : finishArms arms ≠ .fuel := by
  unfold finishArms
  split
  · split
    · split <;> simp
    · simp
  · simp

/-- one alternative of a match pattern ends and consumes at least its first token -/
theorem parseAlt_good (ts : List Tok) : Lt (parseAlt ts) ts.length := by
  unfold parseAlt
  cases ts with
  | nil => exact Lt_err
  | cons a rest =>
    simp only [List.length_cons]
    refine bind_cases (Lt · _) Lt_err Lt_skip (patAtomOf_nf a) (fun x _ => ?_)
    split
    · split <;> first | exact Lt_err | exact Lt_skip
    · split
      · split
        · exact Lt_err
        · rename_i b rest3 hr
          have h1 := tail_le rest
          rw [hr] at h1
          simp only [List.length_cons] at h1
          refine bind_cases (Lt · _) Lt_err Lt_skip (patAtomOf_nf b) (fun y _ => ?_)
          split
          · exact Lt_err
          · split
            · split
              · exact Lt_ok (by omega)
              · exact Lt_err
            · exact Lt_skip
      · split
        · exact Lt_ok (by omega)
        · exact Lt_skip

/-- the alternatives of a match pattern: with `2·|ts| + 1` fuel the loop over `|` ends -/
theorem parsePats_good : ∀ (F : Nat) (acc : List (Option PPat)) (ts : List Tok), 2 * ts.length + 1 ≤ F →
    Lt (parsePats F acc ts) ts.length := by
  intro F
  induction F with
  | zero => intros; omega
  | succ F ih =>
    intro acc ts hF
    rw [parsePats.eq_2]
    have hA := parseAlt_good ts
    refine bind_cases (Lt · _) Lt_err Lt_skip hA.1 (fun a ha => ?_)
    obtain ⟨p, rest⟩ := a
    have := hA.2 p rest ha
    have := tail_le rest
    dsimp only
    split
    · exact Lt_mono (ih _ rest.tail (by omega)) (by omega)
    · exact Lt_ok (by omega)

-- decomposes a goal `Lt/Le (body at fuel F+1) n` given the induction hypotheses `ihP … ihS` and `hF` in context
set_option hygiene false in
macro "prog_auto" : tactic => `(tactic|
  repeat (first
    | exact Lt_err | exact Lt_skip | exact Le_err | exact Le_skip
    | refine Lt_ite (fun _ => ?_) (fun _ => ?_)
    | refine Le_ite (fun _ => ?_) (fun _ => ?_)
    | split
    | (apply Lt_ok; omega) | (apply Le_ok; omega)
    | (refine Lt_of_Le (ihL _ _ _ (by omega)) (by omega))
    | (refine Le_mono (ihL _ _ _ (by omega)) (by omega))
    | (refine Lt_mono (ihT _ _ (by omega)) (by omega))
    | (refine Lt_mono (ihI _ (by omega)) (by omega))
    | (refine Lt_of_Le (ihB _ _ (by omega)) (by omega))
    | (refine Le_mono (ihB _ _ (by omega)) (by omega))
    | (refine bind_cases (Lt · _) Lt_err Lt_skip (ihP _ _ (by omega)).1 (fun a ha => ?_); obtain ⟨x, r⟩ := a;
       have := (ihP _ _ (by omega)).2 _ _ ha; have := tail_le r; have := tail_le r.tail; have := tail_le r.tail.tail; have := skipSemi_le r; dsimp only)
    | (refine bind_cases (Le · _) Le_err Le_skip (ihP _ _ (by omega)).1 (fun a ha => ?_); obtain ⟨x, r⟩ := a;
       have := (ihP _ _ (by omega)).2 _ _ ha; have := tail_le r; have := tail_le r.tail; have := tail_le r.tail.tail; have := skipSemi_le r; dsimp only)
    | (refine bind_cases (Lt · _) Lt_err Lt_skip (ihB _ _ (by omega)).1 (fun a ha => ?_); obtain ⟨x, r⟩ := a;
       have := (ihB _ _ (by omega)).2 _ _ ha; have := tail_le r; have := tail_le r.tail; have := tail_le r.tail.tail; dsimp only)
    | (refine bind_cases (Le · _) Le_err Le_skip (ihB _ _ (by omega)).1 (fun a ha => ?_); obtain ⟨x, r⟩ := a;
       have := (ihB _ _ (by omega)).2 _ _ ha; have := tail_le r; have := tail_le r.tail; have := tail_le r.tail.tail; dsimp only)
    | (refine bind_cases (Lt · _) Lt_err Lt_skip (ihI _ (by omega)).1 (fun a ha => ?_); obtain ⟨x, r⟩ := a;
       have := (ihI _ (by omega)).2 _ _ ha; dsimp only)
    | (refine bind_cases (Le · _) Le_err Le_skip (ihS _ (by omega)).1 (fun a ha => ?_); obtain ⟨x, r⟩ := a;
       have := (ihS _ (by omega)).2 _ _ ha; dsimp only)
    | (refine bind_cases (Lt · _) Lt_err Lt_skip (parseParams_good _).1 (fun a ha => ?_); obtain ⟨x, r⟩ := a;
       have := (parseParams_good _).2 _ _ ha; have := tail_le r; have := tail_le r.tail; dsimp only)
    | (refine Lt_mono (ihET _ _ (by omega)) (by omega))
    | (refine Lt_mono (ihR _ _ (by omega)) (by omega))
    | (refine Lt_mono (ihK _ _ (by omega)) (by omega))
    | (refine bind_cases (Lt · _) Lt_err Lt_skip (ihM _ (by omega)).1 (fun a ha => ?_); obtain ⟨x, r⟩ := a;
       have := (ihM _ (by omega)).2 _ _ ha; dsimp only)
    | (refine bind_cases (Lt · _) Lt_err Lt_skip (ihE _ (by omega)).1 (fun a ha => ?_); obtain ⟨x, r⟩ := a;
       have := (ihE _ (by omega)).2 _ _ ha; dsimp only)
    | (refine bind_cases (Lt · _) Lt_err Lt_skip (ihK _ _ (by omega)).1 (fun a ha => ?_); obtain ⟨x, r⟩ := a;
       have := (ihK _ _ (by omega)).2 _ _ ha; dsimp only)
    | (refine bind_cases (Lt · _) Lt_err Lt_skip (ihR _ _ (by omega)).1 (fun a ha => ?_); obtain ⟨x, r⟩ := a;
       have := (ihR _ _ (by omega)).2 _ _ ha; dsimp only)
    | (refine bind_cases (Lt · _) Lt_err Lt_skip (ihO _ (by omega)).1 (fun a ha => ?_); obtain ⟨x, r⟩ := a;
       have := (ihO _ (by omega)).2 _ _ ha; have := tail_le r; dsimp only)
    | (refine bind_cases (Lt · _) Lt_err Lt_skip (parsePats_good _ _ _ (by omega)).1 (fun a ha => ?_); obtain ⟨x, r⟩ := a;
       have := (parsePats_good _ _ _ (by omega)).2 _ _ ha; have := tail_le r; have := tail_le r.tail; dsimp only)
    | (refine bind_cases (Lt · _) Lt_err Lt_skip (finishPats_nf _) (fun a ha => ?_); try dsimp only)
    | (refine bind_cases (Lt · _) Lt_err Lt_skip (finishArms_nf _) (fun a ha => ?_); try dsimp only)))

set_option maxHeartbeats 2000000 in
/-- **progress**: with `2·|ts| + 1` fuel (`+ 2` for the loop and the argument list) every function of the
parser model ends, and what it leaves is shorter than what it got (the loop: not longer) -/
theorem progress : ∀ F,
    (∀ c ts, 2 * ts.length + 1 ≤ F → Lt (parseExpr F c ts) ts.length) ∧
    (∀ c l ts, 2 * ts.length + 2 ≤ F → Le (loop F c l ts) ts.length) ∧
    (∀ ts, 2 * ts.length + 2 ≤ F → Lt (parseArgs F ts) ts.length) ∧
    (∀ acc ts, 2 * ts.length + 1 ≤ F → Lt (parseArgsTail F acc ts) ts.length) ∧
    (∀ ts, 2 * ts.length + 2 ≤ F → Lt (parseIf F ts) ts.length) ∧
    (∀ acc ts, 2 * ts.length + 3 ≤ F → Le (parseBlock F acc ts) ts.length) ∧
    (∀ ts, 2 * ts.length + 2 ≤ F → Lt (parseStmt F ts) ts.length) ∧
    (∀ ts, 2 * ts.length + 2 ≤ F → Lt (parseMatch F ts) ts.length) ∧
    (∀ acc ts, 2 * ts.length + 2 ≤ F → Lt (parseArms F acc ts) ts.length) ∧
    (∀ ts, 2 * ts.length + 2 ≤ F → Lt (parseElems F ts) ts.length) ∧
    (∀ acc ts, 2 * ts.length + 1 ≤ F → Lt (parseElemsTail F acc ts) ts.length) ∧
    (∀ acc ts, 2 * ts.length + 2 ≤ F → Lt (parseMapPairs F acc ts) ts.length) ∧
    (∀ ts, 2 * ts.length + 2 ≤ F → Lt (parseArmBody F ts) ts.length) := by
  intro F
  induction F with
  | zero =>
    refine ⟨?_, ?_, ?_, ?_, ?_, ?_, ?_, ?_, ?_, ?_, ?_, ?_, ?_⟩ <;> intros <;> omega
  | succ F ih =>
    obtain ⟨ihP, ihL, ihA, ihT, ihI, ihB, ihS, ihM, ihR, ihE, ihET, ihK, ihO⟩ := ih
    refine ⟨?_, ?_, ?_, ?_, ?_, ?_, ?_, ?_, ?_, ?_, ?_, ?_, ?_⟩
    · intro c ts hF
      cases ts with
      | nil => rw [parseExpr.eq_2]; exact Lt_err
      | cons t rest =>
        simp only [List.length_cons] at hF ⊢
        rw [parseExpr.eq_3]
        split
        · exact Lt_err
        · split
          · exact Lt_err
          · exact Lt_skip
          · exact bind_cases (Lt · _) Lt_err Lt_skip (identAtom_nf t)
              (fun a _ => Lt_of_Le (ihL c a rest (by omega)) (Nat.le_refl _))
          · refine bind_cases (Lt · _) Lt_err Lt_skip (decimalAtom_nf t) (fun a _ => ?_)
            split
            · exact Lt_err
            · exact Lt_of_Le (ihL c a rest (by omega)) (Nat.le_refl _)
          · refine bind_cases (Lt · _) Lt_err Lt_skip (boolAtom_nf t) (fun a _ => ?_)
            split
            · exact Lt_err
            · exact Lt_of_Le (ihL c a rest (by omega)) (Nat.le_refl _)
          · have hP := ihP unaryRank rest (by omega)
            refine bind_cases (Lt · _) Lt_err Lt_skip hP.1 (fun a ha => ?_)
            obtain ⟨e, rest'⟩ := a
            have := hP.2 e rest' ha
            exact Lt_of_Le (ihL c _ rest' (by omega)) (by omega)
          · have hP := ihP assignRank rest (by omega)
            refine bind_cases (Lt · _) Lt_err Lt_skip hP.1 (fun a ha => ?_)
            obtain ⟨e, rest'⟩ := a
            have := hP.2 e rest' ha
            have := tail_le rest'
            simp only
            split
            · split
              · exact Lt_err
              · exact Lt_of_Le (ihL c _ rest'.tail (by omega)) (by omega)
            · exact Lt_err
          · prog_auto
          · have := tail_le rest
            split
            · rename_i hlp
              have := tail_lt_of_peek hlp (by decide)
              prog_auto
            · exact Lt_err
          · exact Lt_of_Le (ihL c _ rest (by omega)) (Nat.le_refl _)
          · exact Lt_of_Le (ihL c _ rest (by omega)) (Nat.le_refl _)
          · prog_auto
          · prog_auto
          · have := tail_le rest
            prog_auto
          · refine bind_cases (Lt · _) Lt_err Lt_skip (litAtom_nf t) (fun a _ => ?_)
            split
            · exact Lt_err
            · exact Lt_of_Le (ihL c a rest (by omega)) (Nat.le_refl _)
          · exact Lt_of_Le (ihL c _ rest (by omega)) (Nat.le_refl _)
          · have hD := dollarOperand_good rest
            refine bind_cases (Lt · _) Lt_err Lt_skip hD.1 (fun a ha => ?_)
            obtain ⟨e, rest2⟩ := a
            have := hD.2 e rest2 ha
            exact Lt_of_Le (ihL c _ rest2 (by omega)) (by omega)
    · intro c l ts hF
      cases ts with
      | nil => rw [loop.eq_2]; exact Le_ok (Nat.le_refl _)
      | cons t rest =>
        simp only [List.length_cons] at hF ⊢
        rw [loop.eq_3]
        split
        · rename_i hc
          have hk := infix_when_continues c t.ttype hc
          split
          · rename_i hn; exact absurd hn hk
          · exact Le_skip
          · have hP := ihP (precRank t.ttype) rest (by omega)
            refine bind_cases (Le · _) Le_err Le_skip hP.1 (fun a ha => ?_)
            obtain ⟨e, rest'⟩ := a
            have := hP.2 e rest' ha
            exact Le_mono (ihL c _ rest' (by omega)) (by omega)
          · have hP := ihP (precRank t.ttype) rest (by omega)
            refine bind_cases (Le · _) Le_err Le_skip hP.1 (fun a ha => ?_)
            obtain ⟨e, rest'⟩ := a
            have := hP.2 e rest' ha
            exact Le_mono (ihL c _ rest' (by omega)) (by omega)
          · have hP := ihP (precRank t.ttype) rest (by omega)
            refine bind_cases (Le · _) Le_err Le_skip hP.1 (fun a ha => ?_)
            obtain ⟨e, rest'⟩ := a
            have := hP.2 e rest' ha
            simp only
            split
            · exact Le_mono (ihL c _ rest' (by omega)) (by omega)
            · exact Le_err
          · have hP := ihP assignRank rest (by omega)
            refine bind_cases (Le · _) Le_err Le_skip hP.1 (fun a ha => ?_)
            obtain ⟨e, rest'⟩ := a
            have := hP.2 e rest' ha
            have := tail_le rest'
            simp only
            split
            · exact Le_mono (ihL c _ rest'.tail (by omega)) (by omega)
            · exact Le_err
          · have hA := ihA rest (by omega)
            refine bind_cases (Le · _) Le_err Le_skip hA.1 (fun a ha => ?_)
            obtain ⟨args, rest'⟩ := a
            have := hA.2 args rest' ha
            exact Le_mono (ihL c _ rest' (by omega)) (by omega)
        · exact Le_ok (by simp)
    · intro ts hF
      rw [parseArgs.eq_2]
      split
      · rename_i h; exact Lt_ok (tail_lt_of_peek h (by decide))
      · have hP := ihP assignRank ts (by omega)
        refine bind_cases (Lt · _) Lt_err Lt_skip hP.1 (fun a ha => ?_)
        obtain ⟨e, rest'⟩ := a
        have := hP.2 e rest' ha
        exact Lt_mono (ihT [e] rest' (by omega)) (by omega)
    · intro acc ts hF
      rw [parseArgsTail.eq_2]
      split
      · rename_i h
        have := tail_lt_of_peek h (by decide)
        have hP := ihP assignRank ts.tail (by omega)
        refine bind_cases (Lt · _) Lt_err Lt_skip hP.1 (fun a ha => ?_)
        obtain ⟨e, rest'⟩ := a
        have := hP.2 e rest' ha
        exact Lt_mono (ihT _ rest' (by omega)) (by omega)
      · split
        · rename_i h; exact Lt_ok (tail_lt_of_peek h (by decide))
        · exact Lt_err
    · intro ts hF
      rw [parseIf.eq_2]
      prog_auto
    · intro acc ts hF
      rw [parseBlock.eq_2]
      have := tail_le ts
      prog_auto
    · intro ts hF
      cases ts with
      | nil => rw [parseStmt.eq_2]; exact Lt_err
      | cons t rest =>
        simp only [List.length_cons] at hF ⊢
        rw [parseStmt.eq_3]
        have := tail_le rest
        have := tail_le rest.tail
        have := tail_le rest.tail.tail
        have := skipSemi_le rest
        have := labelOf_le rest
        have : (t :: rest).length = rest.length + 1 := rfl
        prog_auto
    · intro ts hF
      rw [parseMatch.eq_2]
      prog_auto
    · intro acc ts hF
      rw [parseArms.eq_2]
      have := tail_le ts
      split
      · rename_i h
        have := tail_lt_of_peek h (by decide)
        prog_auto
      · refine Lt_ite (fun _ => Lt_err) (fun _ => ?_)
        have hQ := parsePats_good F [] ts (by omega)
        refine bind_cases (Lt · _) Lt_err Lt_skip hQ.1 (fun a ha => ?_)
        obtain ⟨ps, r1⟩ := a
        have := hQ.2 _ _ ha
        have := tail_le r1
        try dsimp only
        refine bind_cases (Lt · _) Lt_err Lt_skip (finishPats_nf _) (fun pats _ => ?_)
        try dsimp only
        refine Lt_ite (fun _ => ?_) (fun _ => Lt_err)
        have hO := ihO r1.tail (by omega)
        refine bind_cases (Lt · _) Lt_err Lt_skip hO.1 (fun a ha => ?_)
        obtain ⟨b, r2⟩ := a
        have := hO.2 _ _ ha
        have := tail_le r2
        try dsimp only
        refine Lt_ite (fun _ => Lt_err) (fun _ => ?_)
        refine Lt_mono (ihR _ _ ?_) ?_
        · split <;> omega
        · split <;> omega
    · intro ts hF
      rw [parseElems.eq_2]
      split
      · rename_i h; exact Lt_ok (tail_lt_of_peek h (by decide))
      · have hP := ihP assignRank ts (by omega)
        refine bind_cases (Lt · _) Lt_err Lt_skip hP.1 (fun a ha => ?_)
        obtain ⟨e, rest'⟩ := a
        have := hP.2 e rest' ha
        exact Lt_mono (ihET [e] rest' (by omega)) (by omega)
    · intro acc ts hF
      rw [parseElemsTail.eq_2]
      split
      · rename_i h
        have := tail_lt_of_peek h (by decide)
        have hP := ihP assignRank ts.tail (by omega)
        refine bind_cases (Lt · _) Lt_err Lt_skip hP.1 (fun a ha => ?_)
        obtain ⟨e, rest'⟩ := a
        have := hP.2 e rest' ha
        exact Lt_mono (ihET _ rest' (by omega)) (by omega)
      · split
        · rename_i h; exact Lt_ok (tail_lt_of_peek h (by decide))
        · exact Lt_err
    · intro acc ts hF
      rw [parseMapPairs.eq_2]
      split
      · rename_i h; exact Lt_ok (tail_lt_of_peek h (by decide))
      · prog_auto
    · intro ts hF
      rw [parseArmBody.eq_2]
      split
      · rename_i h
        have := tail_lt_of_peek h (by decide)
        prog_auto
      · prog_auto

/-! ## totality -/

/-- the statement-level entry ends on EVERY token list once the fuel is at least `2·|ts| + 1` -/
theorem parseTop_total (ts : List Tok) (F : Nat) (hF : 2 * ts.length + 1 ≤ F) : parseTop F ts ≠ .fuel := by
  unfold parseTop
  cases ts with
  | nil => simp
  | cons t rest =>
    simp only
    split
    · simp
    · split
      · simp
      · have hP := (progress F).1 assignRank (t :: rest) hF
        refine bind_cases (· ≠ .fuel) (by simp) (by simp) hP.1 (fun a _ => ?_)
        obtain ⟨e, rest'⟩ := a
        simp only
        split <;> split <;> simp

/-- **parseTokens_total**: with the driver's fuel `2·|ts| + 4` the parser model ends with `ok`, `err` or
`skip` on every list of scanner tokens, well-formed or not -/
theorem parseTokens_total (ts : List P2sh.Scanner.Token) : parseTokens ts ≠ .fuel := by
  unfold parseTokens
  exact parseTop_total _ _ (by simp)

theorem parseTokens_cases (ts : List P2sh.Scanner.Token) :
    (∃ e, parseTokens ts = .ok e) ∨ parseTokens ts = .err ∨ parseTokens ts = .skip := by
  have := parseTokens_total ts
  cases h : parseTokens ts with
  | ok e => exact Or.inl ⟨e, rfl⟩
  | err => exact Or.inr (Or.inl rfl)
  | skip => exact Or.inr (Or.inr rfl)
  | fuel => exact absurd h this

/-- **parse_text_total**: for every source text the pipeline "scan, then parse" of the models ends: the
scanner model returns a token list (no panic, no fuel exhaustion: `C01.scan_total`) and on it the parser
model ends with a tree (`ok`), with "an error was reported" (`err`), or with `skip` = the text is not one
expression statement of the modelled sub-grammar (nothing is claimed about such a text here) -/
theorem parse_text_total (src : String) :
    ∃ ts, P2sh.Scanner.scan src = .ok ts ∧
      ((∃ e, parseTokens ts = .ok e) ∨ parseTokens ts = .err ∨ parseTokens ts = .skip) := by
  obtain ⟨ts, h⟩ := P2sh.Props.C01.scan_total src
  exact ⟨ts, h, parseTokens_cases ts⟩

/-! ## whole programs (`parse_program`: statements until `Eof`) -/

theorem parseProgram_total : ∀ (F : Nat) (acc : List PStmt) (ts : List Tok), 2 * ts.length + 3 ≤ F →
    parseProgram F acc ts ≠ .fuel := by
  intro F
  induction F with
  | zero => intros; omega
  | succ F ih =>
    intro acc ts hF
    rw [parseProgram]
    split
    · simp
    · have hS := (progress F).2.2.2.2.2.2.1 ts (by omega)
      refine bind_cases (· ≠ .fuel) (by simp) (by simp) hS.1 (fun a ha => ?_)
      obtain ⟨s, rest⟩ := a
      have := hS.2 s rest ha
      exact ih _ rest (by omega)

/-- **parseProgramTokens_total**: the program-level parser model, with the driver's fuel `2·|ts| + 4`, ends
with a statement list, with "an error was reported", or with `skip`, on every list of scanner tokens -/
theorem parseProgramTokens_total (ts : List P2sh.Scanner.Token) : parseProgramTokens ts ≠ .fuel := by
  unfold parseProgramTokens
  exact parseProgram_total _ _ _ (by simp)

/-- **parse_program_text_total**: for every source text, scanning ends without panic and the program-level
parser model ends on the tokens: with the statement list (`ok`), with "an error was reported" (`err`), or
with `skip` = the text uses a construct outside the model (dot expressions,
match patterns that are not `|`-separated atoms or ranges of two atoms, non-identifier parameters, `else` followed
by neither `if` nor `{`), about which nothing is claimed here -/
theorem parse_program_text_total (src : String) :
    ∃ ts, P2sh.Scanner.scan src = .ok ts ∧
      ((∃ p, parseProgramTokens ts = .ok p) ∨ parseProgramTokens ts = .err ∨ parseProgramTokens ts = .skip) := by
  obtain ⟨ts, h⟩ := P2sh.Props.C01.scan_total src
  refine ⟨ts, h, ?_⟩
  have := parseProgramTokens_total ts
  cases hp : parseProgramTokens ts with
  | ok p => exact Or.inl ⟨p, rfl⟩
  | err => exact Or.inr (Or.inl rfl)
  | skip => exact Or.inr (Or.inr rfl)
  | fuel => exact absurd hp this

/-! ## non-vacuity: the hang the table fact excludes

If `!` had a precedence (seeded change C01-m1), `a ! b` would make the real `while` loop spin: with the
rule table as it is, `!` after an operand simply ends the expression. -/
example : parseTop 20 [.ident "a", .t "Bang", .ident "b"] = .skip := by rfl
example : infixKind "Bang" = .none ∧ precRank "Bang" = 0 := by decide +kernel
example : parseTop 4 [.ident "a", .t "Plus"] = .err := by rfl
example : parseTop 3 [.ident "a", .t "Plus", .ident "b"] = .fuel := by rfl     -- less than the bound: not enough
example : parseTop 7 [.ident "a", .t "Plus", .ident "b"] = .ok (.bin "Plus" (.ident "a") (.ident "b")) := by rfl
-- `let x = 1; while x { x = 2 }`
example : parseProgram 40 [] [.t "Let", .ident "x", .t "Assign", .int 1, .t "Semicolon", .t "While", .ident "x", .t "LeftBrace",
    .ident "x", .t "Assign", .int 2, .t "RightBrace", .t "Eof"] =
    .ok [.letS "x" (.int 1), .whileS (.ident "x") [.exprS (.assign (.ident "x") (.int 2))]] := by rfl
-- an unterminated block is accepted (as in the code); `let` without a name is an error
example : parseProgram 10 [] [.t "LeftBrace", .int 1, .t "Eof"] = .ok [.block [.exprS (.int 1)]] := by rfl
example : parseProgram 10 [] [.t "Let", .t "Assign", .int 1, .t "Eof"] = .err := by rfl

/-! ### `match`, labels, filters, array and map literals -/
-- `match x { 1 | 2 => 3, _ => { 4 } }`
example : parseProgram 40 [] [.t "Match", .ident "x", .t "LeftBrace", .int 1, .t "BitwiseOr", .int 2, .t "MatchArm", .int 3, .t "Comma",
    .t "Underscore", .t "MatchArm", .t "LeftBrace", .int 4, .t "RightBrace", .t "RightBrace", .t "Eof"] =
    .ok [.exprS (.matchE (.ident "x") [.mk [.pint 1, .pint 2] [.exprS (.int 3)], .mk [.pdef] [.exprS (.int 4)]])] := by rfl
-- `match x { 1..2 => 3 }`: the missing `_` arm is added with the body `null`
example : parseProgram 40 [] [.t "Match", .ident "x", .t "LeftBrace", .int 1, .t "RangeEx", .int 2, .t "MatchArm", .int 3, .t "RightBrace", .t "Eof"] =
    .ok [.exprS (.matchE (.ident "x") [.mk [.prange "RangeEx" (.int 1) (.int 2)] [.exprS (.int 3)], .mk [.pdef] [.exprS .null]])] := by rfl
-- `match x { _ => 1, 2 => 3 }` ("unreachable pattern"), `match x { _ | 1 => 2 }`, `match x { y => 2 }`, `match x { 1 2 }`, `match x { 1 => 2`: errors
example : parseProgram 40 [] [.t "Match", .ident "x", .t "LeftBrace", .t "Underscore", .t "MatchArm", .int 1, .t "Comma", .int 2, .t "MatchArm", .int 3,
    .t "RightBrace", .t "Eof"] = .err := by rfl
example : parseProgram 40 [] [.t "Match", .ident "x", .t "LeftBrace", .t "Underscore", .t "BitwiseOr", .int 1, .t "MatchArm", .int 2, .t "RightBrace", .t "Eof"] = .err := by rfl
example : parseProgram 40 [] [.t "Match", .ident "x", .t "LeftBrace", .ident "y", .t "MatchArm", .int 2, .t "RightBrace", .t "Eof"] = .err := by rfl
example : parseProgram 40 [] [.t "Match", .ident "x", .t "LeftBrace", .int 1, .int 2, .t "RightBrace", .t "Eof"] = .err := by rfl
example : parseProgram 40 [] [.t "Match", .ident "x", .t "LeftBrace", .int 1, .t "MatchArm", .int 2, .t "Eof"] = .err := by rfl
-- a pattern outside the flat form (`(1) => 2`, a string literal): nothing is claimed
example : parseProgram 40 [] [.t "Match", .ident "x", .t "LeftBrace", .t "LeftParen", .int 1, .t "RightParen", .t "MatchArm", .int 2, .t "RightBrace", .t "Eof"] = .skip := by rfl
example : parseProgram 40 [] [.t "Match", .ident "x", .t "LeftBrace", .t "Dollar", .int 1, .t "MatchArm", .int 2, .t "RightBrace", .t "Eof"] = .skip := by rfl
-- `match x { "a" | 'b'..'c' => $1 }`; a char literal of two characters is an error
example : parseProgram 40 [] [.t "Match", .ident "x", .t "LeftBrace", .lit "Str" "a", .t "BitwiseOr", .lit "Char" "b", .t "RangeEx", .lit "Char" "c",
    .t "MatchArm", .t "Dollar", .int 1, .t "RightBrace", .t "Eof"] =
    .ok [.exprS (.matchE (.ident "x") [.mk [.plit "Str" "a", .prange "RangeEx" (.lit "Char" "b") (.lit "Char" "c")] [.exprS (.un "Dollar" (.int 1))],
      .mk [.pdef] [.exprS .null]])] := by rfl
example : parseProgram 40 [] [.lit "Char" "ab", .t "Eof"] = .err := by rfl
-- `a: loop { break a; }`, `a: 1` (error)
example : parseProgram 40 [] [.ident "a", .t "Colon", .t "Loop", .t "LeftBrace", .t "Break", .ident "a", .t "Semicolon", .t "RightBrace", .t "Eof"] =
    .ok [.loopL "a" [.breakS (some "a")]] := by rfl
example : parseProgram 40 [] [.ident "a", .t "Colon", .int 1, .t "Eof"] = .err := by rfl
-- `@ x { 1 }`, `@ end { }`, `@ x`, `@ end 1` (error), `@ x;` (error: the `;` is not skipped)
example : parseProgram 40 [] [.t "Filter", .ident "x", .t "LeftBrace", .int 1, .t "RightBrace", .t "Eof"] = .ok [.filterS (.expr (.ident "x")) [.exprS (.int 1)]] := by rfl
example : parseProgram 40 [] [.t "Filter", .t "End", .t "LeftBrace", .t "RightBrace", .t "Eof"] = .ok [.filterS .fend []] := by rfl
example : parseProgram 40 [] [.t "Filter", .ident "x", .t "Eof"] = .ok [.filterP (.ident "x")] := by rfl
example : parseProgram 40 [] [.t "Filter", .t "End", .int 1, .t "Eof"] = .err := by rfl
example : parseProgram 40 [] [.t "Filter", .ident "x", .t "Semicolon", .t "Eof"] = .err := by rfl
-- `[1, x][0]`, `map {1: 2,}`, `[1 2]` (error)
example : parseProgram 40 [] [.t "LeftBracket", .int 1, .t "Comma", .ident "x", .t "RightBracket", .t "LeftBracket", .int 0, .t "RightBracket", .t "Eof"] =
    .ok [.exprS (.index (.arr [.int 1, .ident "x"]) (.int 0))] := by rfl
example : parseProgram 40 [] [.t "Map", .t "LeftBrace", .int 1, .t "Colon", .int 2, .t "Comma", .t "RightBrace", .t "Eof"] =
    .ok [.exprS (.map [.mk (.int 1) (.int 2)])] := by rfl
example : parseProgram 40 [] [.t "LeftBracket", .int 1, .int 2, .t "RightBracket", .t "Eof"] = .err := by rfl

end P2sh.Props.C01Parse
