import P2sh.Props.FnChainMatch
set_option linter.unusedVariables false
/-!
# oracle ⇒ VM model for programs with functions: the usable composition

`FnChain.oracle_vm_fn_partial` (and `FnChainMatch.oracle_vm_fn_partial_m`) have the shape

  `∃ k g' …, evalT … k … = some (g', …) ∧ TopR … g' … ∧ (fits T k → ∃ vfuel vs', Vm.run … = ok …)`

where the fuel `k` is produced INSIDE the existential by `RefFn.ref_program_fn_partial`: a user of the theorem cannot
discharge `fits T k` for a `k` he does not know, and no example instantiates the implication.

This file states the composition with the fuel on the user's side.  The user supplies ONE terminating evaluation
`he0 : evalT (phiT T) k0 … T = some (g0, h0, a0)` of `Core.Fn`'s evaluator (closed by `rfl` / `decide +kernel` for a
concrete program) together with `hfit : fits T k0` (closed by `decide`).  `Core.Fn.evalT` is monotone in its fuel
(`RefFn.mono_evalT`), hence deterministic (`FMono.det`): the result `(g', h', a')` that `RefFn.ref_program_fn_partial`
relates to the oracle's final state IS `(g0, h0, a0)`.  So

* `oracle_vm_fn`   (fragment `fragOK`,  `FnChain.program_vm_fn`)
* `oracle_vm_fn_m` (fragment `fragOKm`, `FnChainMatch.program_vm_fn_m`: + `match`)

conclude, with no hypothesis left about a fuel chosen by somebody else: `Vm.run` on the encoded compiled program ends
normally, its globals are the user's `g0` (`CoreVm.GRel`), the stack is empty, the main frame is alone, AND `(g0, h0, a0)`
is related (`RefFn.TopR`) to the final state `st'` / environment `env'` of the ORACLE's run of the embedded program.

Initial configurations: `RefFn.ref_program_fn_partial` holds from any closure heap `h` and any array/map heap `a`;
`FnChain.program_vm_fn` starts from `h = [[]]` (the main code's closure object, `FnVm.progInit`) and any `a`.  The
theorems here take the common case `h = [[]]`, `a` arbitrary (the examples use `a = {}`).

`oracle_vm_fn_cells`: the corollary a user reads results off — an integer in cell `j` of the oracle's final state is
the integer in global `j` of the VM's final state.

Non-vacuity (`ExampleO`, every hypothesis by `rfl` / `decide` / `decide +kernel` or an existing example's lemma):
* `mk_oracle_vm`  — `RefFn.mkT`: `fn mk(a) { return fn(b) { a + b }; }  let f = mk(1); let g = mk(2); let x = f(10);
  let y = g(10);` (closures capturing different values) through `oracle_vm_fn`: VM globals `x = 11`, `y = 12`;
* `fact_oracle_vm` — `factT`: `RefFn.factD` as a whole program, `fn fact(n) { if n < 2 { 1 } else { n * fact(n - 1) } }
  let r = fact(3);` (recursion through `CurrentClosure`) through `oracle_vm_fn`: `r = 6`.  (`FnChain.Example.prog`, whose
  `fact` calls itself through the global, is outside `RefFn.okTop`: checked below.)
* `cls_oracle_vm` — `RefFn.clsT`: `fn cls(n) { match n { 0 => 10, 1..=5 => 20, _ => 30 } }` called three times,
  through `oracle_vm_fn_m`: `10`, `20`, `30`.
-/

namespace P2sh.FnChain
open P2sh P2sh.Core.Fn

/-- `Core.Fn.evalT` is deterministic across fuels (from `RefFn.mono_evalT`) -/
theorem evalT_det (Φ : FnDef → Option FDecl) (T : List FTop) (g : List Val) (h : List (List Val)) (a : Heap) {k1 k2 : Nat}
    {r1 r2 : List Val × List (List Val) × Heap} (h1 : evalT Φ k1 g h a T = some r1) (h2 : evalT Φ k2 g h a T = some r2) : r1 = r2 :=
  RefFn.FMono.det (RefFn.mono_evalT Φ T g h a) h1 h2

/-- **oracle ⇒ VM model, usable form** (`RefFn`'s fragment `okTop`, `FnChain`'s fragment `fragOK`).  The oracle
(`Spec/Ref.lean`) runs the embedding `toTops N T` of the program to its normal end (`hrun`); the user supplies one
terminating evaluation `he0` of `Core.Fn.evalT` whose fuel fits (`hfit`).  Then `Vm.run` on the encoded compiled program
ends normally with exactly the globals `g0` of that evaluation, the empty stack and the main frame alone, and
`(g0, h0, a0)` is the configuration related (`RefFn.TopR`: cell `j` of the oracle ~ global `j`, closures ~ closure
objects) to the oracle's final state `st'` and environment `env'`. -/
theorem oracle_vm_fn {N : RefFn.Names} (hN : RefFn.NamesOK N) (n : Nat) {T : List FTop} {fuel : Nat} {v : Val} {env' : Ref.Env}
    {st' : Ref.St} (a : Heap) (hok : RefFn.okTop N (phiT T) n 0 T = true)
    (hrun : RefCore.run (Ref.evalStmts fuel [[]] (RefFn.toTops N T) .null) {} = (.ok (.normal, v, env'), st'))
    (hf : fragOK T = true) (hi : initOK T = true)
    (main : FnDef) (hcode : main.code = Core.encode (compileT 0 0 T)) (hlines : main.code.length ≤ main.lines.length)
    (hfits : (compileT 0 0 T).all Core.fitsI = true) (hnc : FnVm.noCurr (compileT 0 0 T) = true)
    (hF : FnVm.codedB (codesT 0 T) = true) (hK : FnVm.scalars (constsT T)) (hn : n ≤ P2sh.Gen.Limits.GLOBALS_SIZE)
    {k0 : Nat} {g0 : List Val} {h0 : List (List Val)} {a0 : Heap}
    (he0 : evalT (phiT T) k0 (List.replicate n .null) [[]] a T = some (g0, h0, a0)) (hfit : fits T k0) :
    ∃ vfuel vs' CT n', Vm.run main (constsT T) vfuel = (.ok (), vs') ∧ CoreVm.GRel vs'.globals g0 ∧ vs'.sp = 0 ∧
      vs'.frames.length = 1 ∧ RefFn.TopR N (phiT T) n n' env' CT st' g0 h0 a0 := by
  obtain ⟨k, g', h', a', CT, n', hev, hr⟩ := RefFn.ref_program_fn_partial hN n [[]] a hok hrun
  have heq := evalT_det (phiT T) T _ _ _ hev he0
  simp only [Prod.mk.injEq] at heq
  obtain ⟨rfl, rfl, rfl⟩ := heq
  obtain ⟨vfuel, vs', h1, h2, h3, h4⟩ := program_vm_fn T k0 n a a' g' h' he0 hf hi hfit main hcode hlines hfits hnc hF hK hn
  exact ⟨vfuel, vs', CT, n', h1, h2, h3, h4, hr⟩

/-- the same for the fragment with `match` (`FnChainMatch.fragOKm` / `initOK_m`, `program_vm_fn_m`) -/
theorem oracle_vm_fn_m {N : RefFn.Names} (hN : RefFn.NamesOK N) (n : Nat) {T : List FTop} {fuel : Nat} {v : Val} {env' : Ref.Env}
    {st' : Ref.St} (a : Heap) (hok : RefFn.okTop N (phiT T) n 0 T = true)
    (hrun : RefCore.run (Ref.evalStmts fuel [[]] (RefFn.toTops N T) .null) {} = (.ok (.normal, v, env'), st'))
    (hf : fragOKm T = true) (hi : initOK_m T = true)
    (main : FnDef) (hcode : main.code = Core.encode (compileT 0 0 T)) (hlines : main.code.length ≤ main.lines.length)
    (hfits : (compileT 0 0 T).all Core.fitsI = true) (hnc : FnVm.noCurr (compileT 0 0 T) = true)
    (hF : FnVm.codedB (codesT 0 T) = true) (hK : FnVm.scalars (constsT T)) (hn : n ≤ P2sh.Gen.Limits.GLOBALS_SIZE)
    {k0 : Nat} {g0 : List Val} {h0 : List (List Val)} {a0 : Heap}
    (he0 : evalT (phiT T) k0 (List.replicate n .null) [[]] a T = some (g0, h0, a0)) (hfit : fits T k0) :
    ∃ vfuel vs' CT n', Vm.run main (constsT T) vfuel = (.ok (), vs') ∧ CoreVm.GRel vs'.globals g0 ∧ vs'.sp = 0 ∧
      vs'.frames.length = 1 ∧ RefFn.TopR N (phiT T) n n' env' CT st' g0 h0 a0 := by
  obtain ⟨k, g', h', a', CT, n', hev, hr⟩ := RefFn.ref_program_fn_partial hN n [[]] a hok hrun
  have heq := evalT_det (phiT T) T _ _ _ hev he0
  simp only [Prod.mk.injEq] at heq
  obtain ⟨rfl, rfl, rfl⟩ := heq
  obtain ⟨vfuel, vs', h1, h2, h3, h4⟩ := program_vm_fn_m T k0 n a a' g' h' he0 hf hi hfit main hcode hlines hfits hnc hF hK hn
  exact ⟨vfuel, vs', CT, n', h1, h2, h3, h4, hr⟩

/-- reading the result: what `RefFn.TopR` says about integers.  If cell `j` of the oracle's final state holds the
integer `i`, global `j` of the evaluation the VM agrees with (`CoreVm.GRel vs'.globals g0`) holds an `Int64` of value `i`. -/
theorem oracle_vm_fn_cells {N : RefFn.Names} {Φ : FnDef → Option FDecl} {G n' : Nat} {env' : Ref.Env} {CT : RefFn.CTab} {st' : Ref.St}
    {g0 : List Val} {h0 : List (List Val)} {a0 : Heap} (hr : RefFn.TopR N Φ G n' env' CT st' g0 h0 a0)
    {j : Nat} {i : Int} (hj : (st'.cells.map RefProg.intOf)[j]? = some (some i)) :
    ∃ x : Int64, g0[j]? = some (.int x) ∧ x.toInt = i :=
  hr.int_at rfl hj

/-! ## non-vacuity -/

namespace ExampleO
open P2sh.RefFn (stdNames stdNames_ok mkT mkD addD mkT_ok mkT_ref clsT clsD clsT_ok clsT_ref of_cellInts cellInts)

/-! ### closures: `RefFn.mkT` -/

def mkMain : FnDef := ⟨Core.encode (compileT 0 0 mkT), List.replicate (Core.encode (compileT 0 0 mkT)).length 1, 0, 0, 0⟩

def mkFdMk : FnDef := mkFd (fnTop 0 mkD).1 (fnTop 0 mkD).2 mkD
def mkFdAdd : FnDef := mkFd (fnTop 0 addD).1 (fnTop 0 addD).2 addD

/-- the user's side: one evaluation with fuel 40, and that fuel fits -/
theorem mkT_eval : evalT (phiT mkT) 40 (List.replicate 5 .null) [[]] {} mkT =
    some ([.clos mkFdMk [] 1, .clos mkFdAdd [] 2, .clos mkFdAdd [] 3, .int 11, .int 12], [[], [], [.int 1], [.int 2]], {}) := by rfl
example : fits mkT 40 := by decide
example : fragOK mkT = true ∧ initOK mkT = true := ⟨by rfl, by rfl⟩

/-- **`oracle_vm_fn` instantiated on closures**: the oracle's run of `fn mk(a) { return fn(b) { a + b }; } let f = mk(1);
let g = mk(2); let x = f(10); let y = g(10);` (`RefFn.mkT_ref`, by `decide +kernel`) ends normally in some `st'`, `env'`;
`Vm.run` on the encoded compiled program ends normally with globals `[mk, f, g, 11, 12]`, and that configuration is
the one related to the oracle's final state, whose cells 3 and 4 hold `11` and `12`. -/
theorem mk_oracle_vm : ∃ (v : Val) (env' : Ref.Env) (st' : Ref.St) (vfuel : Nat) (vs' : Vm.St) (CT : RefFn.CTab) (n' : Nat),
    RefCore.run (Ref.evalStmts 60 [[]] (RefFn.toTops stdNames mkT) .null) {} = (.ok (.normal, v, env'), st') ∧
    st'.cells.map RefProg.intOf = [none, none, none, some 11, some 12] ∧
    Vm.run mkMain (constsT mkT) vfuel = (.ok (), vs') ∧
    CoreVm.GRel vs'.globals [.clos mkFdMk [] 1, .clos mkFdAdd [] 2, .clos mkFdAdd [] 3, .int 11, .int 12] ∧
    vs'.sp = 0 ∧ vs'.frames.length = 1 ∧
    RefFn.TopR stdNames (phiT mkT) 5 n' env' CT st'
      [.clos mkFdMk [] 1, .clos mkFdAdd [] 2, .clos mkFdAdd [] 3, .int 11, .int 12] [[], [], [.int 1], [.int 2]] {} := by
  obtain ⟨v, env', st', hrun, hcells⟩ := of_cellInts mkT_ref
  obtain ⟨vfuel, vs', CT, n', h1, h2, h3, h4, hr⟩ :=
    oracle_vm_fn stdNames_ok 5 {} mkT_ok hrun (by rfl) (by rfl) mkMain rfl (by simp [mkMain]) (by decide) rfl (by decide)
      (FnVm.scalars_of_all rfl) (by decide) mkT_eval (by decide)
  exact ⟨v, env', st', vfuel, vs', CT, n', hrun, hcells, h1, h2, h3, h4, hr⟩

/-! ### recursion: `RefFn.factD` (the function calls itself through `CurrentClosure`) as a whole program

`FnChain.Example.prog` (`fact` calling itself through the GLOBAL `fact`: `GetGlobal 0` inside the body) is not in `RefFn`'s
fragment: `okTop` checks the body of the `n`-th top-level function against the `n` EARLIER globals and lets it name itself
by `FExpr.curr` only — what the real compiler emits for a named function's self-reference.  `RefFn.factD` is that form. -/

/-- `fn fact(n) { if n < 2 { 1 } else { n * fact(n - 1) } }  let r = fact(3);` -/
def factT : List FTop := [RefFn.factTop, .stmt (.letG 1 1 (.call 1 (.gget 1 0) (.cons (.lit 1 (.int 3)) .nil)))]

def factFd : FnDef := mkFd (fnTop 0 RefFn.factD).1 (fnTop 0 RefFn.factD).2 RefFn.factD
def factMain : FnDef := ⟨Core.encode (compileT 0 0 factT), List.replicate (Core.encode (compileT 0 0 factT)).length 1, 0, 0, 0⟩

/-- the compiled function: the self-reference is `CurrentClosure` -/
example : (codesT 0 factT).map (·.2) =
    [[.const 0, .getLocal 0, .op .greater, .jif 15, .const 1, .jump 27,
      .getLocal 0, .currClosure, .getLocal 0, .const 2, .op .sub, .call 1, .op .mul, .retv]] := by rfl

theorem fact_ok' (Φ : FnDef → Option FDecl) (h1 : Φ (mkFd (fnTop 0 RefFn.factD).1 (fnTop 0 RefFn.factD).2 RefFn.factD) = some RefFn.factD) :
    RefFn.okTop stdNames Φ 2 0 factT = true := by
  simp only [factT, RefFn.factTop, RefFn.factD] at h1 ⊢
  simp [RefFn.okTop, RefFn.okP, RefFn.okS, RefFn.okE, RefFn.okArgs, RefFn.lastOK, RefFn.paramVis, RefFn.fnCtx, h1]
  exact stdNames_ok.gn_ne 0

/-- the program is in `RefFn`'s fragment -/
theorem fact_ok : RefFn.okTop stdNames (phiT factT) 2 0 factT = true := fact_ok' _ (by rfl)

/-- the oracle runs the embedding of the program to its normal end: cell 1 (`r`) holds `6` -/
theorem fact_ref : cellInts (RefCore.run (Ref.evalStmts 80 [[]] (RefFn.toTops stdNames factT) .null) {}) = some [none, some 6] := by
  decide +kernel

/-- the user's side: one evaluation with fuel 40, and that fuel fits -/
theorem fact_eval : evalT (phiT factT) 40 (List.replicate 2 .null) [[]] {} factT = some ([.clos factFd [] 1, .int 6], [[], []], {}) := by rfl
example : fits factT 40 := by decide
example : fragOK factT = true ∧ initOK factT = true := ⟨by rfl, by rfl⟩

/-- **`oracle_vm_fn` instantiated on a recursive function** -/
theorem fact_oracle_vm : ∃ (v : Val) (env' : Ref.Env) (st' : Ref.St) (vfuel : Nat) (vs' : Vm.St) (CT : RefFn.CTab) (n' : Nat),
    RefCore.run (Ref.evalStmts 80 [[]] (RefFn.toTops stdNames factT) .null) {} = (.ok (.normal, v, env'), st') ∧
    st'.cells.map RefProg.intOf = [none, some 6] ∧
    Vm.run factMain (constsT factT) vfuel = (.ok (), vs') ∧
    CoreVm.GRel vs'.globals [.clos factFd [] 1, .int 6] ∧ vs'.sp = 0 ∧ vs'.frames.length = 1 ∧
    RefFn.TopR stdNames (phiT factT) 2 n' env' CT st' [.clos factFd [] 1, .int 6] [[], []] {} := by
  obtain ⟨v, env', st', hrun, hcells⟩ := of_cellInts fact_ref
  obtain ⟨vfuel, vs', CT, n', h1, h2, h3, h4, hr⟩ :=
    oracle_vm_fn stdNames_ok 2 {} fact_ok hrun (by rfl) (by rfl) factMain rfl (by simp [factMain]) (by decide) rfl (by decide)
      (FnVm.scalars_of_all rfl) (by decide) fact_eval (by decide)
  exact ⟨v, env', st', vfuel, vs', CT, n', hrun, hcells, h1, h2, h3, h4, hr⟩

/-- `FnChain.Example.prog` (self-reference through the global) is rejected by `okTop`, whatever `Φ` -/
example (Φ : FnDef → Option FDecl) : RefFn.okTop stdNames Φ 2 0 FnChain.Example.prog = false := by
  simp [FnChain.Example.prog, FnChain.Example.factD, FnVm.Example.argsOf, RefFn.okTop, RefFn.okP, RefFn.okS, RefFn.okE, RefFn.okArgs,
    RefFn.paramVis, RefFn.fnCtx]

/-! ### `match`: `RefFn.clsT` -/

def clsMain : FnDef := ⟨Core.encode (compileT 0 0 clsT), List.replicate (Core.encode (compileT 0 0 clsT)).length 1, 0, 0, 0⟩
def clsFd : FnDef := mkFd (fnTop 0 clsD).1 (fnTop 0 clsD).2 clsD

theorem clsT_eval : evalT (phiT clsT) 40 (List.replicate 4 .null) [[]] {} clsT =
    some ([.clos clsFd [] 1, .int 10, .int 20, .int 30], [[], []], {}) := by rfl
example : fits clsT 40 := by decide
/-- outside `FnChain`'s fragment (it has a `match`), inside `FnChainMatch`'s -/
example : fragOK clsT = false ∧ fragOKm clsT = true ∧ initOK_m clsT = true := ⟨by rfl, by rfl, by rfl⟩

/-- **`oracle_vm_fn_m` instantiated on `match`**: `fn cls(n) { match n { 0 => 10, 1..=5 => 20, _ => 30 } }
let a = cls(0); let b = cls(3); let c = cls(9);` -/
theorem cls_oracle_vm : ∃ (v : Val) (env' : Ref.Env) (st' : Ref.St) (vfuel : Nat) (vs' : Vm.St) (CT : RefFn.CTab) (n' : Nat),
    RefCore.run (Ref.evalStmts 60 [[]] (RefFn.toTops stdNames clsT) .null) {} = (.ok (.normal, v, env'), st') ∧
    st'.cells.map RefProg.intOf = [none, some 10, some 20, some 30] ∧
    Vm.run clsMain (constsT clsT) vfuel = (.ok (), vs') ∧
    CoreVm.GRel vs'.globals [.clos clsFd [] 1, .int 10, .int 20, .int 30] ∧ vs'.sp = 0 ∧ vs'.frames.length = 1 ∧
    RefFn.TopR stdNames (phiT clsT) 4 n' env' CT st' [.clos clsFd [] 1, .int 10, .int 20, .int 30] [[], []] {} := by
  obtain ⟨v, env', st', hrun, hcells⟩ := of_cellInts clsT_ref
  obtain ⟨vfuel, vs', CT, n', h1, h2, h3, h4, hr⟩ :=
    oracle_vm_fn_m stdNames_ok 4 {} clsT_ok hrun (by rfl) (by rfl) clsMain rfl (by simp [clsMain]) (by decide) rfl (by decide)
      (FnVm.scalars_of_all rfl) (by decide) clsT_eval (by decide)
  exact ⟨v, env', st', vfuel, vs', CT, n', hrun, hcells, h1, h2, h3, h4, hr⟩

/-- reading an integer off the relation (`oracle_vm_fn_cells`): the VM-side global 2 of `clsT` is the oracle's `20` -/
example {n' : Nat} {env' : Ref.Env} {CT : RefFn.CTab} {st' : Ref.St} {g0 : List Val} {h0 : List (List Val)} {a0 : Heap}
    (hr : RefFn.TopR stdNames (phiT clsT) 4 n' env' CT st' g0 h0 a0)
    (hcells : st'.cells.map RefProg.intOf = [none, some 10, some 20, some 30]) :
    ∃ x : Int64, g0[2]? = some (.int x) ∧ x.toInt = 20 :=
  oracle_vm_fn_cells hr (j := 2) (by rw [hcells]; rfl)

end ExampleO

#print axioms oracle_vm_fn
#print axioms oracle_vm_fn_m
#print axioms oracle_vm_fn_cells
#print axioms ExampleO.mk_oracle_vm
#print axioms ExampleO.fact_oracle_vm
#print axioms ExampleO.cls_oracle_vm

end P2sh.FnChain
