import P2sh.Model.Proto
import P2sh.Spec.Rfc
import P2sh.Props.C15
import P2sh.Props.C16Path
/-!
# C16, the read history — "whatever other properties of the packet were read before"

`named_path_reads_reference` (C16Path) starts from a freshly built packet: nothing is cached.  A script reads many
properties of the same packet, and every read goes through the cache of layer objects the earlier reads left behind
(`getProp`/`innerStep` prefer the cached inner object to parsing).  Here:

* `View raw f o` — the invariant: `o` is the freshly parsed object `f` with, below it, a chain of cached layers, each
  of which is what `from_bytes` yields at the payload offset of the layer above for the kind the type field above
  selects (`dispatch`), or the error object that parse yields.  The cache is a partial view of the one tree the captured
  bytes determine.
* `access_agree` — on a packet object that is such a view of the fresh one, every access expression (`pkt.<path>`,
  `$n.<path>`, any `n`, any path — names the type fields disagree with, names that are no property, paths through error
  objects, paths that end at a layer) reads what it reads on the fresh packet, and leaves such a view behind.
* `read_after_reads` — **the read-history theorem**: for EVERY frame (no well-formedness is needed), record header and
  script of `.get` steps, the outputs are, position by position, the outputs of each read run alone on the fresh packet.
* `read_after_reads_writes_reparses` — the same for scripts of reads, `.write` and `.reparse` steps in any order (everything
  but assignments), for frames whose bytes are bytes and a record header whose words fit 32 bits (C15's hypotheses): a
  write yields record header ++ captured bytes and leaves the packet alone; a re-parse of the unmodified packet gives
  the fresh packet.
* `reads_reference_any_history` — **C16 with the history clause**: after any such script (reads, writes, re-parses) a
  read through any head and path yields a value `Rfc.readExpect` allows (`Reads`).

No exclusion remains for scripts without assignments; what an assignment does to later reads is C17 (`C17Others`).
-/
namespace P2sh.Props.C16
open P2sh P2sh.Proto P2sh.Spec

/-! ## the invariant -/

/-- a named layer getter whose name the type field agrees with parses the layer `$n` descends into (record layer included) -/
theorem named_dispatch_hist (h : Hdr) (nm : PP) (k : LayerKind) (hl : layerProp h nm = some k)
    (hm : typeMismatch h k = false) : dispatch h = some k := by
  cases h with
  | pcap x => cases nm <;> simp [layerProp] at hl; subst hl; rfl
  | _ => exact named_getter_agrees_dispatch _ nm k (by intro ph hh; cases hh) hl hm

/-- `View raw f o`: `f` is a freshly parsed object (a layer with nothing cached, or the error object), `o` is `f` with a
chain of cached inner objects, each the parse of the captured bytes the type field above it selects -/
inductive View (raw : List Nat) : Obj → Obj → Prop
  | err : View raw .err .err
  | fresh (h : Hdr) (off : Nat) : View raw (.layer h off .none) (.layer h off .none)
  | cached (h : Hdr) (off : Nat) (kind : LayerKind) (inner : Obj) : dispatch h = some kind →
      View raw (parseLayer raw kind off) inner → View raw (.layer h off .none) (.layer h off inner)

theorem View.left {raw : List Nat} {f o : Obj} (h : View raw f o) : View raw f f := by
  cases h with
  | err => exact .err
  | fresh h off => exact .fresh h off
  | cached h off _ _ _ _ => exact .fresh h off

theorem View.toVal {raw : List Nat} {f o : Obj} (h : View raw f o) : o.toVal = f.toVal := by
  cases h <;> rfl

theorem View.ne_none {raw : List Nat} {f o : Obj} (h : View raw f o) : o ≠ .none := by
  cases h <;> intro e <;> cases e

theorem View.ne_val {raw : List Nat} {f o : Obj} (h : View raw f o) (v : Val) : o ≠ .val v := by
  cases h <;> intro e <;> cases e

theorem parseLayer_view (raw : List Nat) (k : LayerKind) (off : Nat) :
    View raw (parseLayer raw k off) (parseLayer raw k off) := by
  cases k <;> simp only [parseLayer] <;> (repeat' split) <;> first | exact .err | exact .fresh _ _

/-- the view is faithful in C15's sense (every cached layer is some parse at its offset) -/
theorem View.faithful {raw : List Nat} {f o : Obj} (h : View raw f o) :
    ∀ kind s, f = parseLayer raw kind s → C15.Faithful raw s o := by
  induction h with
  | err => intro _ _ _; trivial
  | fresh h off => intro kind s e; exact ⟨⟨kind, e.symm⟩, trivial⟩
  | cached h off k inner _ _ ih => intro kind s e; exact ⟨⟨kind, e.symm⟩, ih k off rfl⟩

/-- a continuation that reads the same on a view as on the fresh object, and leaves a view behind -/
def Agree (raw : List Nat) (k : Obj → Obj × StepOut) : Prop :=
  ∀ f o, View raw f o → (k o).2 = (k f).2 ∧ View raw f (k o).1

/-! ## `getProp`, `walk` -/

theorem getProp_leaf (raw : List Nat) (p : PP) (k k' : Obj → Obj × StepOut) (last : Bool) (h : Hdr) (off : Nat)
    (inner inner' : Obj) (hlp : layerProp h p = none) :
    (getProp raw p k last (.layer h off inner)).1 = .layer h off inner ∧
    (getProp raw p k last (.layer h off inner)).2 = (getProp raw p k' last (.layer h off inner')).2 := by
  simp only [getProp, hlp]
  cases last <;>
    cases (if p = PP.payload then some (bytesVal (List.drop off raw)) else Option.map FieldVal.toVal (h.get p)) <;>
    exact ⟨rfl, rfl⟩

theorem getProp_mismatch (raw : List Nat) (p : PP) (k : Obj → Obj × StepOut) (last : Bool) (h : Hdr) (off : Nat)
    (inner : Obj) (kind : LayerKind) (hlp : layerProp h p = some kind) (hm : typeMismatch h kind = true) :
    getProp raw p k last (.layer h off inner) = (.layer h off inner, (k (.val .null)).2) := by
  simp [getProp, hlp, hm]

theorem getProp_fresh (raw : List Nat) (p : PP) (k : Obj → Obj × StepOut) (last : Bool) (h : Hdr) (off : Nat)
    (kind : LayerKind) (hlp : layerProp h p = some kind) (hm : typeMismatch h kind = false) :
    getProp raw p k last (.layer h off .none) =
      (.layer h off (k (parseLayer raw kind off)).1, (k (parseLayer raw kind off)).2) := by
  simp [getProp, hlp, hm]

theorem getProp_cached (raw : List Nat) (p : PP) (k : Obj → Obj × StepOut) (last : Bool) (h : Hdr) (off : Nat)
    (inner : Obj) (kind : LayerKind) (hlp : layerProp h p = some kind) (hm : typeMismatch h kind = false)
    (hn : inner ≠ .none) :
    getProp raw p k last (.layer h off inner) = (.layer h off (k inner).1, (k inner).2) := by
  cases inner with
  | none => exact absurd rfl hn
  | _ => simp [getProp, hlp, hm]

theorem getProp_agree (raw : List Nat) (p : PP) (k : Obj → Obj × StepOut) (last : Bool) (hk : Agree raw k) :
    Agree raw (getProp raw p k last) := by
  intro f o hv
  cases hv with
  | err => exact ⟨rfl, .err⟩
  | fresh h off =>
    refine ⟨rfl, ?_⟩
    cases hlp : layerProp h p with
    | none => rw [(getProp_leaf raw p k k last h off .none .none hlp).1]; exact .fresh h off
    | some kind =>
      cases hm : typeMismatch h kind with
      | true => rw [getProp_mismatch raw p k last h off .none kind hlp hm]; exact .fresh h off
      | false =>
        rw [getProp_fresh raw p k last h off kind hlp hm]
        exact .cached h off kind _ (named_dispatch_hist h p kind hlp hm) (hk _ _ (parseLayer_view raw kind off)).2
  | cached h off kind inner hd hvi =>
    cases hlp : layerProp h p with
    | none =>
      obtain ⟨e1, e2⟩ := getProp_leaf raw p k k last h off inner .none hlp
      rw [e1]; exact ⟨e2, .cached h off kind inner hd hvi⟩
    | some kind' =>
      cases hm : typeMismatch h kind' with
      | true =>
        rw [getProp_mismatch raw p k last h off inner kind' hlp hm, getProp_mismatch raw p k last h off .none kind' hlp hm]
        exact ⟨rfl, .cached h off kind inner hd hvi⟩
      | false =>
        have hk' : kind' = kind := by
          have := named_dispatch_hist h p kind' hlp hm
          rw [hd] at this; cases this; rfl
        subst hk'
        rw [getProp_cached raw p k last h off inner kind' hlp hm hvi.ne_none, getProp_fresh raw p k last h off kind' hlp hm]
        obtain ⟨a, b⟩ := hk _ _ hvi
        exact ⟨a, .cached h off kind' _ hd b⟩

theorem walk_agree (raw : List Nat) : ∀ ps, Agree raw (walk raw none ps) := by
  intro ps
  induction ps with
  | nil => intro f o hv; simp only [walk]; exact ⟨by rw [hv.toVal], hv⟩
  | cons p ps ih =>
    cases ps with
    | nil => simp only [walk]; exact getProp_agree raw p _ true ih
    | cons q qs => simp only [walk]; exact getProp_agree raw p _ false ih

/-! ## `$n` -/

theorem innerStep_cached (raw : List Nat) (k kf : Obj → Obj × StepOut) (h : Hdr) (off : Nat) (inner : Obj)
    (hn : inner ≠ .none) : innerStep raw k kf (.layer h off inner) = (.layer h off (k inner).1, (k inner).2) := by
  cases inner with
  | none => exact absurd rfl hn
  | _ => rfl

theorem innerStep_fresh_some (raw : List Nat) (k kf : Obj → Obj × StepOut) (h : Hdr) (off : Nat) (kind : LayerKind)
    (hd : dispatch h = some kind) :
    innerStep raw k kf (.layer h off .none) =
      (.layer h off (k (parseLayer raw kind off)).1, (k (parseLayer raw kind off)).2) := by
  simp [innerStep, hd]

theorem innerStep_fresh_none (raw : List Nat) (k kf : Obj → Obj × StepOut) (h : Hdr) (off : Nat)
    (hd : dispatch h = none) : innerStep raw k kf (.layer h off .none) = (.layer h off .none, (kf (.val .null)).2) := by
  simp [innerStep, hd]

theorem innerStep_agree (raw : List Nat) (k kf : Obj → Obj × StepOut) (hk : Agree raw k) (hkf : Agree raw kf) :
    Agree raw (innerStep raw k kf) := by
  intro f o hv
  cases hv with
  | err => exact hkf _ _ .err
  | fresh h off =>
    refine ⟨rfl, ?_⟩
    cases hd : dispatch h with
    | none => rw [innerStep_fresh_none raw k kf h off hd]; exact .fresh h off
    | some kind =>
      rw [innerStep_fresh_some raw k kf h off kind hd]
      exact .cached h off kind _ hd (hk _ _ (parseLayer_view raw kind off)).2
  | cached h off kind inner hd hvi =>
    rw [innerStep_cached raw k kf h off inner hvi.ne_none, innerStep_fresh_some raw k kf h off kind hd]
    obtain ⟨a, b⟩ := hk _ _ hvi
    exact ⟨a, .cached h off kind _ hd b⟩

theorem descend_agree (raw : List Nat) (kf : Obj → Obj × StepOut) (hkf : Agree raw kf) :
    ∀ n, Agree raw (descend raw kf n) := by
  intro n
  induction n with
  | zero => simpa [descend] using hkf
  | succ n ih => simp only [descend]; exact innerStep_agree raw _ _ ih hkf

/-- **one read through the cache**: on an object that is a view of the fresh object `f`, the access expression reads what
it reads on `f`, and what it leaves behind is again a view of `f` -/
theorem access_agree (raw : List Nat) (hd : Head) (path : List PP) :
    Agree raw (fun root => access raw root hd path none) := by
  intro f o hv
  cases hd with
  | pkt => exact walk_agree raw path f o hv
  | dollar n =>
    simp only [access]
    split
    · exact ⟨rfl, hv⟩
    · exact descend_agree raw _ (walk_agree raw path) _ f o hv

/-! ## scripts -/

/-- a `.get` step -/
def Step.isGet : Step → Bool
  | .get _ _ => true
  | _ => false

theorem run_single (p : Pkt) (s : Step) : (p.run [s]).2 = [(p.step s).2] := rfl

theorem flatMap_singletons {α β : Type} (f : α → β) (xs : List α) : xs.flatMap (fun x => [f x]) = xs.map f := by
  induction xs with
  | nil => rfl
  | cons x xs ih => simp [List.flatMap_cons, ih]

/-- scripts of reads, from any packet state whose cache is a view of the fresh packet object -/
theorem run_gets_view (ph : PcapHdr) (raw : List Nat) (gets : List Step) (hg : ∀ g ∈ gets, Step.isGet g = true) :
    ∀ p : Pkt, p.raw = raw → View raw (Pkt.new ph raw).root p.root →
      (p.run gets).2 = gets.map (fun g => ((Pkt.new ph raw).step g).2) ∧
      (p.run gets).1.raw = raw ∧ View raw (Pkt.new ph raw).root (p.run gets).1.root := by
  induction gets with
  | nil => intro p hraw hv; exact ⟨rfl, hraw, hv⟩
  | cons g rest ih =>
    intro p hraw hv
    have hgg := hg g (by simp)
    have hrest : ∀ x ∈ rest, Step.isGet x = true := fun x hx => hg x (by simp [hx])
    cases g with
    | get hd path =>
      obtain ⟨a, b⟩ := access_agree raw hd path _ _ hv
      obtain ⟨i1, i2, i3⟩ := ih hrest { p with root := (access p.raw p.root hd path none).1 } hraw (by simpa [hraw] using b)
      refine ⟨?_, ?_, ?_⟩
      · simp only [Pkt.run, Pkt.step, List.map_cons]
        rw [i1]
        congr 2
        simpa [hraw, Pkt.new] using a
      · simpa [Pkt.run, Pkt.step] using i2
      · simpa [Pkt.run, Pkt.step] using i3
    | set hd path v => simp [Step.isGet] at hgg
    | write => simp [Step.isGet] at hgg
    | reparse => simp [Step.isGet] at hgg

/-- **C16, the read history.**  For every captured frame `raw` (well-formed or not), every record header and EVERY script
of reads — heads `pkt` and `$n` for any `n`, any property paths: names the type fields agree or disagree with, names
that are no property of the object reached, paths through error objects, paths that end at a layer object — the outputs
of the script are, position by position, the outputs of each read run ALONE on the freshly built packet: what was read
before never changes what a read returns. -/
theorem read_after_reads (ph : PcapHdr) (raw : List Nat) (gets : List Step) (hg : ∀ g ∈ gets, Step.isGet g = true) :
    ((Pkt.new ph raw).run gets).2 = gets.flatMap (fun g => ((Pkt.new ph raw).run [g]).2) := by
  have := (run_gets_view ph raw gets hg (Pkt.new ph raw) rfl (.fresh _ _)).1
  rw [this]
  simp only [run_single]
  exact (flatMap_singletons _ gets).symm

/-- the same, by position: the `i`-th output is the output of the `i`-th read on the fresh packet -/
theorem read_after_reads_at (ph : PcapHdr) (raw : List Nat) (gets : List Step) (hg : ∀ g ∈ gets, Step.isGet g = true)
    (i : Nat) (hd : Head) (path : List PP) (hi : gets[i]? = some (.get hd path)) :
    ((Pkt.new ph raw).run gets).2[i]? = some (access raw (Pkt.new ph raw).root hd path none).2.toOut := by
  rw [(run_gets_view ph raw gets hg (Pkt.new ph raw) rfl (.fresh _ _)).1]
  simp [List.getElem?_map, hi, Pkt.step, Pkt.new]

/-! ## reads, writes and re-parses -/

/-- scripts without assignments, from any packet state whose cache is a view of the fresh packet object -/
theorem run_reads_view (ph : PcapHdr) (hfit : C15.PcapHdr.fits ph) (raw : List Nat) (hw : wf raw) (steps : List Step)
    (hro : ∀ st ∈ steps, C15.Step.isRead st = true) :
    ∀ p : Pkt, p.raw = raw → View raw (Pkt.new ph raw).root p.root → C15.RootOk raw ph p.root →
      (p.run steps).2 = steps.map (fun g => ((Pkt.new ph raw).step g).2) ∧
      (p.run steps).1.raw = raw ∧ View raw (Pkt.new ph raw).root (p.run steps).1.root ∧
      C15.RootOk raw ph (p.run steps).1.root := by
  have hfresh : (Pkt.new ph raw).bytes = ph.toBytes ++ raw := by
    simpa [Pkt.bytes, Pkt.new] using C15.bytes_of_root raw hw ph (Pkt.new ph raw).root ⟨.none, rfl, trivial⟩
  induction steps with
  | nil => intro p hraw hv hr; exact ⟨rfl, hraw, hv, hr⟩
  | cons st rest ih =>
    intro p hraw hv hr
    have hst := hro st (by simp)
    have hrest : ∀ x ∈ rest, C15.Step.isRead x = true := fun x hx => hro x (by simp [hx])
    have hb : p.bytes = ph.toBytes ++ raw := by
      simpa [Pkt.bytes, hraw] using C15.bytes_of_root raw hw ph p.root hr
    cases st with
    | get hd path =>
      obtain ⟨a, b⟩ := access_agree raw hd path _ _ hv
      obtain ⟨i1, i2, i3, i4⟩ := ih hrest { p with root := (access p.raw p.root hd path none).1 } hraw
        (by simpa [hraw] using b) (by simpa [hraw] using C15.access_root raw ph hd path p.root hr)
      refine ⟨?_, ?_, ?_, ?_⟩
      · simp only [Pkt.run, Pkt.step, List.map_cons]
        rw [i1]
        congr 2
        simpa [hraw, Pkt.new] using a
      · simpa [Pkt.run, Pkt.step] using i2
      · simpa [Pkt.run, Pkt.step] using i3
      · simpa [Pkt.run, Pkt.step] using i4
    | set hd path v => simp [C15.Step.isRead] at hst
    | write =>
      obtain ⟨i1, i2, i3, i4⟩ := ih hrest p hraw hv hr
      refine ⟨?_, ?_, ?_, ?_⟩
      · simp only [Pkt.run, Pkt.step, List.map_cons]
        rw [i1, hb, hfresh]
        rfl
      · simpa [Pkt.run, Pkt.step] using i2
      · simpa [Pkt.run, Pkt.step] using i3
      · simpa [Pkt.run, Pkt.step] using i4
    | reparse =>
      have hre : p.reparse = Pkt.new ph raw := by
        have hd : (ph.toBytes ++ raw).drop 16 = raw := by
          rw [← C15.pcap_toBytes_length ph]; simp
        simp only [Pkt.reparse, hb, C15.pcap_reparse ph hfit raw, hd]
      obtain ⟨i1, i2, i3, i4⟩ := ih hrest (Pkt.new ph raw) rfl (.fresh _ _) ⟨.none, rfl, trivial⟩
      refine ⟨?_, ?_, ?_, ?_⟩
      · simp only [Pkt.run, Pkt.step, List.map_cons, hre]
        rw [i1, hb, hfresh]
        rfl
      · simpa [Pkt.run, Pkt.step, hre] using i2
      · simpa [Pkt.run, Pkt.step, hre] using i3
      · simpa [Pkt.run, Pkt.step, hre] using i4

/-- **the read history with writes and re-parses.**  For every frame whose bytes are bytes, every record header whose
words fit 32 bits and every script WITHOUT ASSIGNMENTS — reads as in `read_after_reads`, `.write` (serialise) and
`.reparse` (serialise and build a fresh packet from the bytes) in any order — the outputs are, position by position,
the outputs of each step run alone on the freshly built packet. -/
theorem read_after_reads_writes_reparses (ph : PcapHdr) (hfit : C15.PcapHdr.fits ph) (raw : List Nat) (hw : wf raw)
    (steps : List Step) (hro : ∀ st ∈ steps, C15.Step.isRead st = true) :
    ((Pkt.new ph raw).run steps).2 = steps.flatMap (fun g => ((Pkt.new ph raw).run [g]).2) := by
  have := (run_reads_view ph hfit raw hw steps hro (Pkt.new ph raw) rfl (.fresh _ _) ⟨.none, rfl, trivial⟩).1
  rw [this]
  simp only [run_single]
  exact (flatMap_singletons _ steps).symm

/-! ## the property with its history clause -/

theorem run_append_snd (p : Pkt) (a b : List Step) : (p.run (a ++ b)).2 = (p.run a).2 ++ ((p.run a).1.run b).2 := by
  induction a generalizing p with
  | nil => rfl
  | cons s rest ih => simp only [List.cons_append, Pkt.run, List.cons_append, ih]

/-- **C16 with "whatever other properties of the packet were read before".**  After ANY script without assignments
(reads through any heads and paths, writes, re-parses) on the packet of a well-formed frame, a read through any head and
any path yields a value the reference `Rfc.readExpect` allows for the captured bytes (`Reads`: the bit slice the RFC
layout names, the address text, the layer object, the error object, null, the payload bytes …). -/
theorem reads_reference_any_history (ph : PcapHdr) (hfit : C15.PcapHdr.fits ph) (raw : List Nat) (hw : wf raw)
    (before : List Step) (hro : ∀ st ∈ before, C15.Step.isRead st = true) (hd : Head) (path : List PP) :
    ∃ out : StepOut,
      ((Pkt.new ph raw).run (before ++ [.get hd path])).2 = ((Pkt.new ph raw).run before).2 ++ [out.toOut] ∧
      Reads out (Rfc.readExpect (specState ph raw) (headOf hd) path) := by
  refine ⟨(access raw (Pkt.new ph raw).root hd path none).2, ?_, named_path_reads_reference ph hfit raw hw hd path⟩
  have hall : ∀ st ∈ before ++ [Step.get hd path], C15.Step.isRead st = true := by
    intro st hs
    rcases List.mem_append.mp hs with h | h
    · exact hro st h
    · simp at h; subst h; rfl
  rw [read_after_reads_writes_reparses ph hfit raw hw _ hall, read_after_reads_writes_reparses ph hfit raw hw _ hro]
  simp [List.flatMap_append, run_single, Pkt.step, Pkt.new]

/-- the packet STATE version: in every state a script without assignments reaches, every access expression reads what it
reads on the fresh packet -/
theorem access_any_history (ph : PcapHdr) (hfit : C15.PcapHdr.fits ph) (raw : List Nat) (hw : wf raw)
    (before : List Step) (hro : ∀ st ∈ before, C15.Step.isRead st = true) (hd : Head) (path : List PP) :
    (access raw ((Pkt.new ph raw).run before).1.root hd path none).2 = (access raw (Pkt.new ph raw).root hd path none).2 ∧
    Reads (access raw ((Pkt.new ph raw).run before).1.root hd path none).2
      (Rfc.readExpect (specState ph raw) (headOf hd) path) := by
  obtain ⟨-, -, hv, -⟩ := run_reads_view ph hfit raw hw before hro (Pkt.new ph raw) rfl (.fresh _ _) ⟨.none, rfl, trivial⟩
  have h := (access_agree raw hd path _ _ hv).1
  refine ⟨h, ?_⟩
  have h' : (access raw ((Pkt.new ph raw).run before).1.root hd path none).2 =
      (access raw (Pkt.new ph raw).root hd path none).2 := h
  rw [h']
  exact named_path_reads_reference ph hfit raw hw hd path

/-! ## a concrete frame -/

/-- Ethernet + IPv4 (id 0x1234, TTL 64, UDP) + UDP (53 → 8080, length 10) + two bytes (the frame of `C17Others`) -/
def histFrame : Bytes :=
  [0,1,2,3,4,5, 6,7,8,9,10,11, 8,0,
   0x45,0,0,30, 0x12,0x34,0,0, 64,17,0,0, 10,0,0,1, 10,0,0,2,
   0,53, 0x1f,0x90, 0,10, 0,0, 0xde,0xad]

def histHdr : PcapHdr := { sec := 0, usec := 0, caplen := 44, wirelen := 44 }

/-- `pkt.eth.ipv4.ttl`, `$3.dstport`, `pkt.eth.type`, `pkt.eth.ipv4.udp.payload`, `$2.src` -/
def histScript : List Step :=
  [.get .pkt [.eth, .ipv4, .ttl], .get (.dollar 3) [.dstport], .get .pkt [.eth, .etype],
   .get .pkt [.eth, .ipv4, .udp, .payload], .get (.dollar 2) [.src]]

/-- what an output is, as data with decidable equality -/
inductive Shown where
  | num (n : Int)
  | text (s : String)
  | bytes (bs : List Nat)
  | null
  | errObj
  | obj (s : String)
  | rterr
  | other
deriving DecidableEq, Repr

def byteOf : Val → Option Nat
  | .byte b => some b.toNat
  | _ => none

def shown : Out → Shown
  | .ok (.int i) => .num i.toInt
  | .ok (.str s) => .text s
  | .ok (.arr _ xs) => if xs.all (fun x => (byteOf x).isSome) then .bytes (xs.filterMap byteOf) else .other
  | .ok .null => .null
  | .ok (.err _) => .errObj
  | .ok (.other s) => .obj s
  | .rterr => .rterr
  | .bytes bs => .bytes bs
  | _ => .other

/-- the five mixed reads in one script: 64, 8080, 0x0800, the two payload bytes, `10.0.0.1` … -/
example : ((Pkt.new histHdr histFrame).run histScript).2.map shown =
    [.num 64, .num 8080, .num 0x0800, .bytes [0xde, 0xad], .text "10.0.0.1"] := by decide

/-- … and each of them alone on the fresh packet: the same five values -/
example : (histScript.flatMap (fun g => ((Pkt.new histHdr histFrame).run [g]).2)).map shown =
    [.num 64, .num 8080, .num 0x0800, .bytes [0xde, 0xad], .text "10.0.0.1"] := by decide

/-- the cache the five reads leave behind is not the empty one: the later reads did go through cached layers -/
example : (match ((Pkt.new histHdr histFrame).run histScript).1.root with
    | .layer (.pcap _) 0 (.layer (.eth _) 14 (.layer (.ipv4 _) 34 (.layer (.udp _) 42 .none))) => true
    | _ => false) = true := by decide

/-- the theorem on that script (its hypothesis is satisfiable) -/
example : ((Pkt.new histHdr histFrame).run histScript).2 =
    histScript.flatMap (fun g => ((Pkt.new histHdr histFrame).run [g]).2) :=
  read_after_reads histHdr histFrame histScript (by decide)

/-- reads that lead nowhere are covered: `pkt.eth.ipv6` (null), `pkt.eth.tcp` (runtime error), `$7` (null), `$11` (runtime
error), `pkt.eth.ipv4.udp` (the layer object), then `$3.dstport` still reads 8080 -/
example : ((Pkt.new histHdr histFrame).run
    [.get .pkt [.eth, .ipv6], .get .pkt [.eth, .tcp], .get (.dollar 7) [], .get (.dollar 11) [.ttl],
     .get .pkt [.eth, .ipv4, .udp], .get (.dollar 3) [.dstport]]).2.map shown =
    [.null, .rterr, .null, .rterr, .obj "udp", .num 8080] := by decide

/-- a truncated frame (the UDP header is cut): the error object is cached by the first read and read again by the second -/
example : ((Pkt.new histHdr (histFrame.take 38)).run
    [.get (.dollar 3) [], .get .pkt [.eth, .ipv4, .udp], .get (.dollar 3) [.dstport], .get .pkt [.eth, .ipv4, .ttl]]).2.map shown =
    [.errObj, .errObj, .rterr, .num 64] := by decide

/-- with a write and a re-parse in between, by the theorem -/
example : ((Pkt.new histHdr histFrame).run (histScript ++ [Step.write, Step.reparse] ++ histScript)).2 =
    (histScript ++ [Step.write, Step.reparse] ++ histScript).flatMap (fun g => ((Pkt.new histHdr histFrame).run [g]).2) :=
  read_after_reads_writes_reparses histHdr (by unfold C15.PcapHdr.fits; decide) histFrame (by unfold wf; decide) _ (by decide)

/-- the property with its history clause on that frame: after the five reads, `$3.dstport` is the number the reference
expects there, 8080 -/
example : ∃ out : StepOut,
    ((Pkt.new histHdr histFrame).run (histScript ++ [.get (.dollar 3) [.dstport]])).2 =
      ((Pkt.new histHdr histFrame).run histScript).2 ++ [out.toOut] ∧
    Reads out (Rfc.readExpect (specState histHdr histFrame) (.dollar 3) [.dstport]) :=
  reads_reference_any_history histHdr (by unfold C15.PcapHdr.fits; decide) histFrame (by unfold wf; decide) histScript
    (by decide) (.dollar 3) [.dstport]

example : (match Rfc.readExpect (specState histHdr histFrame) (.dollar 3) [.dstport] with
    | .num [8080] => true | _ => false) = true := by decide

end P2sh.Props.C16

#print axioms P2sh.Props.C16.access_agree
#print axioms P2sh.Props.C16.read_after_reads
#print axioms P2sh.Props.C16.read_after_reads_at
#print axioms P2sh.Props.C16.read_after_reads_writes_reparses
#print axioms P2sh.Props.C16.reads_reference_any_history
#print axioms P2sh.Props.C16.access_any_history
