import P2sh.Model.Symtab
/-!
# C04 — names resolve to the innermost visible binding

Theorems about the symbol-table model (tied to `src/compiler/symtab.rs` by the `symtab`
correspondence op, step by step, and to the whole compiler by the language-level engine):

* `define_resolves_new`      — right after `let x`, `x` resolves to the new binding at every depth
                               at or below it (the innermost binding wins);
* `define_keeps_others`      — other names resolve as before;
* `leaveBlock_undoes_define` — when the block ends the table is what it was before the block's
                               `let` (the inner binding hides the outer one only until then);
* `shadow_ends_with_block`   — hence every name resolves after the block as it did before it;
* `absent_everywhere_is_none` — a name bound in no enclosing table does not resolve
                               (⇒ "undefined identifier").
-/
namespace P2sh.Props.C04
open P2sh.Symtab P2sh.Symtab.Table

theorem lookup_setStore_same (name : String) (syms : List Symbol) (st : List (String × List Symbol)) :
    lookupStore name (setStore name syms st) = some syms := by
  induction st with
  | nil => simp [setStore, lookupStore]
  | cons p rest ih =>
    obtain ⟨n, s⟩ := p
    by_cases h : n = name
    · subst h; simp [setStore, lookupStore]
    · have h' : (n == name) = false := by simpa using h
      simp [setStore, lookupStore, h', ih]

theorem lookup_setStore_other (name other : String) (syms : List Symbol) (st : List (String × List Symbol))
    (h : other ≠ name) : lookupStore other (setStore name syms st) = lookupStore other st := by
  have hno : (name == other) = false := by
    simp only [beq_eq_false_iff_ne, ne_eq]; exact fun e => h e.symm
  induction st with
  | nil => simp [setStore, lookupStore, hno]
  | cons p rest ih =>
    obtain ⟨n, s⟩ := p
    by_cases hn : n = name
    · subst hn
      simp [setStore, lookupStore, hno]
    · have h' : (n == name) = false := by simpa using hn
      by_cases ho : n = other
      · subst ho
        simp [setStore, lookupStore, h']
      · have h2 : (n == other) = false := by simpa using ho
        simp [setStore, lookupStore, h', h2, ih]

/-- **the innermost binding wins**: right after `define t x d`, resolving `x` at any depth
`d' ≥ d` yields the symbol just defined -/
theorem define_resolves_new (l : Level) (rest : Table) (x : String) (d d' : Nat) (h : d ≤ d') :
    (resolve (define (l :: rest) x d).1 x d').2 = some (define (l :: rest) x d).2 := by
  simp only [define, cur, List.headD, updCur, resolve, lookup_setStore_same]
  simp [pick, List.reverse_append, List.find?, h]

/-- the part of `resolve` that does not depend on `numDefs` -/
theorem resolve_snd_congr (l l' : Level) (rest : Table) (y : String) (d : Nat)
    (hs : l.store = l'.store) (hf : l.free = l'.free) :
    (resolve (l :: rest) y d).2 = (resolve (l' :: rest) y d).2 := by
  simp only [resolve, hs]
  cases lookupStore y l'.store with
  | some syms => rfl
  | none =>
    simp only
    split
    · rfl
    · cases resolve rest y maxDepth with
      | mk o' r =>
        cases r with
        | none => rfl
        | some sym => simp only [hf]; split <;> rfl

/-- other names are not affected by a definition -/
theorem define_keeps_others (l : Level) (rest : Table) (x y : String) (d d' : Nat) (h : y ≠ x) :
    (resolve (define (l :: rest) x d).1 y d').2 = (resolve (l :: rest) y d').2 := by
  simp only [define, cur, List.headD, updCur, resolve, lookup_setStore_other _ _ _ _ h]
  cases lookupStore y l.store with
  | some syms => rfl
  | none =>
    simp only
    split
    · rfl
    · cases resolve rest y maxDepth with
      | mk o' r =>
        cases r with
        | none => rfl
        | some sym => simp only; split <;> rfl

/-- table invariant at block depth `d`: no empty entries, every symbol has depth ≤ d -/
def Inv (st : List (String × List Symbol)) (d : Nat) : Prop :=
  ∀ p ∈ st, p.2 ≠ [] ∧ ∀ s ∈ p.2, s.depth ≤ d

theorem filter_keep_id (d : Nat) (syms : List Symbol) (h : ∀ s ∈ syms, s.depth ≤ d) :
    syms.filter (keep d) = syms := by
  apply List.filter_eq_self.mpr
  intro s hs
  simp [keep, h s hs]

theorem leave_store_id (st : List (String × List Symbol)) (d : Nat) (h : Inv st d) :
    ((st.map (fun p => (p.1, p.2.filter (keep d)))).filter (fun p => !p.2.isEmpty)) = st := by
  induction st with
  | nil => rfl
  | cons p rest ih =>
    obtain ⟨n, syms⟩ := p
    have hp := h (n, syms) (List.mem_cons_self)
    have hr : Inv rest d := fun q hq => h q (List.mem_cons_of_mem _ hq)
    have hf := filter_keep_id d syms hp.2
    have hne : (!List.isEmpty syms) = true := by
      have := hp.1
      cases syms <;> simp_all
    simp only [List.map_cons, hf, List.filter_cons, hne, if_true]
    rw [ih hr]

/-- the store after defining `x` one level deeper and then leaving that level -/
theorem leave_after_define_store (st : List (String × List Symbol)) (x : String) (d : Nat) (sym : Symbol)
    (hs : sym.depth = d + 1) (hsc : sym.scope = .global ∨ sym.scope = .local) (h : Inv st d) :
    (((setStore x (((lookupStore x st).getD []) ++ [sym]) st).map (fun p => (p.1, p.2.filter (keep d)))).filter
      (fun p => !p.2.isEmpty)) = st := by
  have hdrop : keep d sym = false := by
    rcases hsc with h1 | h1 <;> simp [keep, hs, h1]
  induction st with
  | nil => simp [setStore, lookupStore, hdrop]
  | cons p rest ih =>
    obtain ⟨n, syms⟩ := p
    have hp := h (n, syms) (List.mem_cons_self)
    have hr : Inv rest d := fun q hq => h q (List.mem_cons_of_mem _ hq)
    have hf := filter_keep_id d syms hp.2
    have hne : (!List.isEmpty syms) = true := by
      have := hp.1
      cases syms <;> simp_all
    by_cases hn : n = x
    · subst hn
      have hl := leave_store_id rest d hr
      simp [setStore, lookupStore, List.filter_append, hf, hdrop, hne, hl]
    · have hb : (n == x) = false := by simpa using hn
      simp only [setStore, lookupStore, hb, Bool.false_eq_true, if_false, List.map_cons, hf, List.filter_cons, hne, if_true]
      rw [ih hr]

/-- **an inner binding hides the outer one only until its block ends**: defining `x` inside a
block one level deeper and leaving the block restores the store exactly -/
theorem leaveBlock_undoes_define (l : Level) (rest : Table) (x : String) (d : Nat) (h : Inv l.store d) :
    Table.store (leaveBlock (define (l :: rest) x (d + 1)).1 d) = l.store := by
  simp only [define, leaveBlock, cur, List.headD, updCur, Table.store]
  apply leave_after_define_store l.store x d _ rfl _ h
  cases rest <;> simp

/-- every name resolves after the block exactly as it did before the block's `let` -/
theorem shadow_ends_with_block (l : Level) (rest : Table) (x y : String) (d : Nat) (h : Inv l.store d) :
    (resolve (leaveBlock (define (l :: rest) x (d + 1)).1 d) y d).2 = (resolve (l :: rest) y d).2 := by
  have hs := leaveBlock_undoes_define l rest x d h
  simp only [define, leaveBlock, cur, List.headD, updCur, Table.store] at hs ⊢
  exact resolve_snd_congr _ l rest y d hs rfl

/-- a name bound in no table of the chain does not resolve: "undefined identifier" -/
theorem absent_everywhere_is_none : ∀ (t : Table) (x : String) (d : Nat),
    (∀ l ∈ t, lookupStore x l.store = none) → (resolve t x d).2 = none
  | [], _, _, _ => rfl
  | l :: rest, x, d, h => by
    have h0 := h l (List.mem_cons_self)
    have ih := absent_everywhere_is_none rest x maxDepth (fun l' hl' => h l' (List.mem_cons_of_mem _ hl'))
    simp only [resolve, h0]
    split
    · rfl
    · cases hres : resolve rest x maxDepth with
      | mk o' r =>
        rw [hres] at ih
        simp only at ih
        subst ih
        rfl

/-- non-vacuity: an outer `x`, an inner block shadowing it, and the use after the block -/
example :
    let t0 := (define Table.empty "x" 0).1
    let t1 := leaveBlock (define t0 "x" 1).1 0
    (resolve t1 "x" 0).2 = (resolve t0 "x" 0).2 ∧ (resolve t0 "x" 0).2 = some ⟨"x", .global, 0, 0⟩ := by
  decide

end P2sh.Props.C04
