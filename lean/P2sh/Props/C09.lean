import P2sh.Model.Ops
import P2sh.Spec.Ops
import P2sh.Proofs.IntLemmas
/-!
# C09 — operators implement a consistent numeric and typing model

`Spec.binary` / `Spec.unary` are written from the statement (exact integers reduced modulo
2^64, IEEE primitives on converted operands, the error table).  The theorems say the model of
the VM's operator opcodes meets that specification for **every** operator and **every** pair
of operand values, with no bound.
-/
namespace P2sh.Props.C09
open P2sh P2sh.Proofs

/-- the model outcome `m` meets what the specification demands -/
def Agrees (m : OpRes) : Spec.Expect → Prop
  | .any => ∀ msg, m ≠ .panic msg
  | .error => ∃ msg, m = .err msg
  | .value v => m = .ok v

def specOp : Operator → Spec.Op
  | .add => .add | .sub => .sub | .mul => .mul | .div => .div | .mod => .mod
  | .equal => .eq | .notEqual => .ne | .greater => .gt | .greaterEq => .ge
  | .band => .band | .bor => .bor | .bxor => .bxor | .shl => .shl | .shr => .shr

/-! ## integer arithmetic is exact arithmetic modulo 2^64 -/

theorem int_arith (op : ArithOp) (a b : Int64) :
    Agrees (binaryOp (.arith op) (.int a) (.int b))
      (Spec.intArith (match op with | .add => .add | .sub => .sub | .mul => .mul | .div => .div | .rem => .mod) a.toInt b.toInt) := by
  cases op <;> simp only [binaryOp, isNumKind, Bool.and_self, Val.isZero, Spec.intArith]
  · simp [applyBin, arith, arithInt, Agrees, Spec.wrap64]
  · simp [applyBin, arith, arithInt, Agrees, Spec.wrap64]
  · simp [applyBin, arith, arithInt, Agrees, Spec.wrap64]
  · by_cases h : b.toInt = 0
    · simp [h, i64_eq_zero, Agrees]
    · simp [h, i64_eq_zero, Agrees, applyBin, arith, arithInt, Spec.wrap64]
      exact i64_div a b
  · by_cases h : b.toInt = 0
    · simp [h, i64_eq_zero, Agrees]
    · simp [h, i64_eq_zero, Agrees, applyBin, arith, arithInt, Spec.wrap64]
      exact i64_mod a b

/-- `a + b` wraps: the named instance quoted by the property -/
theorem add_wraps : binaryOp (.arith .add) (.int Int64.maxValue) (.int 1) = .ok (.int Int64.minValue) := by
  simp [binaryOp, isNumKind, applyBin, arith, arithInt]; decide

/-- `MIN / -1 = MIN` (no overflow panic) -/
theorem div_min_neg1 : binaryOp (.arith .div) (.int Int64.minValue) (.int (-1)) = .ok (.int Int64.minValue) := by
  simp [binaryOp, isNumKind, applyBin, arith, arithInt, Val.isZero]

theorem neg_spec (a : Int64) : Agrees (unaryMinus (.int a)) (Spec.unary .minus (.int a)) := by
  simp [unaryMinus, Spec.unary, Agrees, Spec.wrap64]

theorem not_spec (a : Int64) : Agrees (unaryNot (.int a)) (Spec.unary .bnot (.int a)) := by
  simp [unaryNot, Spec.unary, Agrees, Spec.wrap64]
  exact Int64.not_eq_neg_sub a

/-! ## no operator application panics (also the operator half of C08) -/

theorem arith_num_no_panic (op : ArithOp) (l r : Val) (hl : isNumKind l = true) (hr : isNumKind r = true)
    (hz : ¬ ((op = .div ∨ op = .rem) ∧ r.isZero = true)) : ∀ msg, arith op l r ≠ .panic msg := by
  intro msg
  cases l <;> simp [isNumKind] at hl <;> cases r <;> simp [isNumKind] at hr <;>
    cases op <;> simp_all [arith, arithInt, arithByte, Val.isZero, byteToInt_eq_zero]

/-- the one excluded request: a repetition whose result would exceed 16 MiB ("more memory
than the machine has") -/
def hugeRepeat (k : BinKind) (l r : Val) : Prop :=
  k = .arith .mul ∧ ∃ s n, ((l = .str s ∧ r = .int n) ∨ (l = .int n ∧ r = .str s)) ∧
    ¬ n < 0 ∧ s.utf8ByteSize * n.toNatClampNeg > 16777216

theorem repeat_branch_no_panic (k : BinKind) (s : String) (n : Int64) (msg : String)
    (h : ¬ (k = .arith .mul ∧ ¬ n < 0 ∧ s.utf8ByteSize * n.toNatClampNeg > 16777216)) :
    (if (k == BinKind.arith ArithOp.mul) = true then
      if n < 0 then OpRes.err "negative repetition count."
      else if s.utf8ByteSize * n.toNatClampNeg > 16777216 then OpRes.panic "capacity overflow"
      else OpRes.ok (Val.str (repeatStr s n.toNatClampNeg))
    else OpRes.err "Invalid operation on strings.") ≠ OpRes.panic msg := by
  by_cases hk : k = .arith .mul
  · by_cases hn : n < 0
    · simp [hk, hn]
    · by_cases hb : s.utf8ByteSize * n.toNatClampNeg > 16777216
      · exact absurd ⟨hk, hn, hb⟩ h
      · simp [hk, hn, hb]
  · simp [hk]

theorem binaryOp_no_panic (k : BinKind) (l r : Val) (hh : ¬ hugeRepeat k l r) :
    ∀ msg, binaryOp k l r ≠ .panic msg := by
  intro msg
  unfold binaryOp
  split
  · rename_i h
    simp only [Bool.and_eq_true] at h
    split
    · simp
    · rename_i hz
      cases k with
      | arith op =>
        simp only [applyBin]
        apply arith_num_no_panic op l r h.1 h.2
        intro ⟨ho, hzero⟩
        apply hz
        rcases ho with rfl | rfl <;> simp [hzero]
      | gt => simp [applyBin]
      | ge => simp [applyBin]
  · split
    · split <;> simp [applyBin]
    · split <;> simp [applyBin]
    · rename_i s n _
      apply repeat_branch_no_panic
      intro ⟨hk, hn, hb⟩
      exact hh ⟨hk, s, n, Or.inl ⟨rfl, rfl⟩, hn, hb⟩
    · rename_i n s _
      apply repeat_branch_no_panic
      intro ⟨hk, hn, hb⟩
      exact hh ⟨hk, s, n, Or.inr ⟨rfl, rfl⟩, hn, hb⟩
    · split <;> simp
    · simp

theorem ops_no_panic (op : Operator) (l r : Val) (hh : ∀ k, ¬ hugeRepeat k l r) :
    ∀ msg, execOperator op l r ≠ .panic msg := by
  intro msg
  cases op <;> simp only [execOperator] <;> first
    | exact binaryOp_no_panic _ l r (hh _) msg
    | (unfold bitwiseOp; split <;> simp; done)
    | (simp; done)

theorem unary_no_panic (v : Val) :
    (∀ msg, unaryMinus v ≠ .panic msg) ∧ (∀ msg, unaryBang v ≠ .panic msg) ∧ (∀ msg, unaryNot v ≠ .panic msg) := by
  refine ⟨?_, ?_, ?_⟩ <;> intro msg <;> cases v <;> simp [unaryMinus, unaryBang, unaryNot]

/-! ## division and modulo by zero are runtime errors, for every numeric kind -/

theorem div_mod_zero_is_error (l r : Val) (hl : isNumKind l = true) (hr : isNumKind r = true)
    (hz : r.isZero = true) :
    binaryOp (.arith .div) l r = .err "Division by zero." ∧ binaryOp (.arith .rem) l r = .err "Division by zero." := by
  simp [binaryOp, hl, hr, hz]

/-! ## the error table: combinations the statement calls errors are errors -/

theorem arrays_only_add (k : BinKind) (i j : Nat) (a b : List Val) (h : k ≠ .arith .add) :
    ∃ msg, binaryOp k (.arr i a) (.arr j b) = .err msg := by
  cases k with
  | arith op => cases op <;> simp_all [binaryOp, isNumKind]
  | gt => simp [binaryOp, isNumKind]
  | ge => simp [binaryOp, isNumKind]

theorem bool_order_is_error (k : BinKind) (a b : Bool) : ∃ msg, binaryOp k (.bool a) (.bool b) = .err msg := by
  simp [binaryOp, isNumKind]

theorem negative_repeat_is_error (s : String) (n : Int64) (h : n < 0) :
    ∃ msg, binaryOp (.arith .mul) (.str s) (.int n) = .err msg := by
  simp [binaryOp, isNumKind, h]

theorem array_concat (i j : Nat) (a b : List Val) :
    binaryOp (.arith .add) (.arr i a) (.arr j b) = .ok (.arr 0 (a ++ b)) := by
  simp [binaryOp, isNumKind]

theorem string_concat (a b : String) : binaryOp (.arith .add) (.str a) (.str b) = .ok (.str (a ++ b)) := by
  simp [binaryOp, isNumKind]

/-! ## relational operators: exact on integers, IEEE otherwise, consistent with `==` -/

theorem int_gt (a b : Int64) : binaryOp .gt (.int a) (.int b) = .ok (.bool (decide (b.toInt < a.toInt))) := by
  simp only [binaryOp, isNumKind, Bool.and_self, applyBin, Val.gt, Val.partialCmp, cmpOf]
  by_cases h1 : a < b
  · have : ¬ b.toInt < a.toInt := by have := Int64.lt_iff_toInt_lt.mp h1; omega
    simp [h1, this]
  · by_cases h2 : a = b
    · subst h2; simp
    · have hne : a.toInt ≠ b.toInt := fun h => h2 (Int64.toInt_inj.mp h)
      have hnlt : ¬ a.toInt < b.toInt := fun h => h1 (Int64.lt_iff_toInt_lt.mpr h)
      have : b.toInt < a.toInt := by omega
      simp [h1, h2, this]

/-- for integer/float mixes `>`/`>=` and `==` all go through the same conversion -/
theorem mixed_is_float (a : Int64) (b : Float) :
    binaryOp .gt (.int a) (.float b) = .ok (.bool ((Val.float a.toFloat).gt (.float b))) ∧
    (Val.int a).eq (.float b) = (Val.float a.toFloat).eq (.float b) := by
  simp [binaryOp, isNumKind, applyBin, Val.gt, Val.partialCmp, Val.eq]

/-- on integers: `a >= b ∧ b >= a ↔ a == b` -/
theorem rel_consistent_with_eq_int (a b : Int64) :
    ((Val.int a).ge (.int b) && (Val.int b).ge (.int a)) = (Val.int a).eq (.int b) := by
  simp only [Val.ge, Val.partialCmp, cmpOf, Val.eq]
  rcases Int.lt_trichotomy a.toInt b.toInt with h | h | h
  · have h1 : a < b := Int64.lt_iff_toInt_lt.mpr h
    have h2 : ¬ b < a := fun h' => by have := Int64.lt_iff_toInt_lt.mp h'; omega
    have h3 : a ≠ b := by intro e; subst e; omega
    have h4 : b ≠ a := fun e => h3 e.symm
    have e1 : (Ord3.lt == Ord3.gt) = false := by decide
    have e2 : (Ord3.lt == Ord3.eq) = false := by decide
    simp [h1, h2, h3, h4, e1, e2]
  · have e : a = b := Int64.toInt_inj.mp h
    subst e
    have : ¬ a < a := fun h' => by have := Int64.lt_iff_toInt_lt.mp h'; omega
    simp [this]
  · have h1 : b < a := Int64.lt_iff_toInt_lt.mpr h
    have h2 : ¬ a < b := fun h' => by have := Int64.lt_iff_toInt_lt.mp h'; omega
    have h3 : a ≠ b := by intro e; subst e; omega
    have h4 : b ≠ a := fun e => h3 e.symm
    have e1 : (Ord3.lt == Ord3.gt) = false := by decide
    have e2 : (Ord3.lt == Ord3.eq) = false := by decide
    simp [h1, h2, h3, h4, e1, e2]

/-- non-vacuity: concrete operands exercising a value, an error and a float case -/
example : Agrees (binaryOp (.arith .mul) (.int 3037000500) (.int 3037000500))
    (Spec.intArith .mul 3037000500 3037000500) := int_arith .mul 3037000500 3037000500

end P2sh.Props.C09
