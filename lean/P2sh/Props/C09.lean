import P2sh.Model.Ops
import P2sh.Spec.Ops
import P2sh.Proofs.IntLemmas
import P2sh.Proofs.OpsLemmas
import P2sh.Props.C06
/-!
# C09 — operators implement a consistent numeric and typing model

`Spec.binary` / `Spec.unary` are written from the statement (exact integers reduced modulo
2^64, IEEE primitives on converted operands, the error table).  The theorems say the model of
the VM's operator opcodes meets that specification for **every** operator and **every** pair
of operand values, with no bound.
-/
namespace P2sh.Props.C09
open P2sh P2sh.Proofs

/-- the model outcome `m` meets what the specification demands -/
def Agrees (m : OpRes) : Spec.Expect → Prop
  | .any => ∀ msg, m ≠ .panic msg
  | .error => ∃ msg, m = .err msg
  | .value v => m = .ok v

def specOp : Operator → Spec.Op
  | .add => .add | .sub => .sub | .mul => .mul | .div => .div | .mod => .mod
  | .equal => .eq | .notEqual => .ne | .greater => .gt | .greaterEq => .ge
  | .band => .band | .bor => .bor | .bxor => .bxor | .shl => .shl | .shr => .shr

/-! ## integer arithmetic is exact arithmetic modulo 2^64 -/

theorem int_arith (op : ArithOp) (a b : Int64) :
    Agrees (binaryOp (.arith op) (.int a) (.int b))
      (Spec.intArith (match op with | .add => .add | .sub => .sub | .mul => .mul | .div => .div | .rem => .mod) a.toInt b.toInt) := by
  cases op <;> simp only [binaryOp, isNumKind, Bool.and_self, Val.isZero, Spec.intArith]
  · simp [applyBin, arith, arithInt, Agrees, Spec.wrap64]
  · simp [applyBin, arith, arithInt, Agrees, Spec.wrap64]
  · simp [applyBin, arith, arithInt, Agrees, Spec.wrap64]
  · by_cases h : b.toInt = 0
    · simp [h, i64_eq_zero, Agrees]
    · simp [h, i64_eq_zero, Agrees, applyBin, arith, arithInt, Spec.wrap64]
      exact i64_div a b
  · by_cases h : b.toInt = 0
    · simp [h, i64_eq_zero, Agrees]
    · simp [h, i64_eq_zero, Agrees, applyBin, arith, arithInt, Spec.wrap64]
      exact i64_mod a b

/-- `a + b` wraps: the named instance quoted by the property -/
theorem add_wraps : binaryOp (.arith .add) (.int Int64.maxValue) (.int 1) = .ok (.int Int64.minValue) := by
  simp [binaryOp, isNumKind, applyBin, arith, arithInt]; decide

/-- `MIN / -1 = MIN` (no overflow panic) -/
theorem div_min_neg1 : binaryOp (.arith .div) (.int Int64.minValue) (.int (-1)) = .ok (.int Int64.minValue) := by
  simp [binaryOp, isNumKind, applyBin, arith, arithInt, Val.isZero]

theorem neg_spec (a : Int64) : Agrees (unaryMinus (.int a)) (Spec.unary .minus (.int a)) := by
  simp [unaryMinus, Spec.unary, Agrees, Spec.wrap64]

theorem not_spec (a : Int64) : Agrees (unaryNot (.int a)) (Spec.unary .bnot (.int a)) := by
  simp [unaryNot, Spec.unary, Agrees, Spec.wrap64]
  exact Int64.not_eq_neg_sub a

/-! ## no operator application panics (also the operator half of C08) -/

theorem arith_num_no_panic (op : ArithOp) (l r : Val) (hl : isNumKind l = true) (hr : isNumKind r = true)
    (hz : ¬ ((op = .div ∨ op = .rem) ∧ r.isZero = true)) : ∀ msg, arith op l r ≠ .panic msg := by
  intro msg
  cases l <;> simp [isNumKind] at hl <;> cases r <;> simp [isNumKind] at hr <;>
    cases op <;> simp_all [arith, arithInt, arithByte, Val.isZero, byteToInt_eq_zero]

/-- the one excluded request: a repetition whose result would exceed 16 MiB ("more memory
than the machine has") -/
def hugeRepeat (k : BinKind) (l r : Val) : Prop :=
  k = .arith .mul ∧ ∃ s n, ((l = .str s ∧ r = .int n) ∨ (l = .int n ∧ r = .str s)) ∧
    ¬ n < 0 ∧ s.utf8ByteSize * n.toNatClampNeg > 16777216

theorem repeat_branch_no_panic (k : BinKind) (s : String) (n : Int64) (msg : String)
    (h : ¬ (k = .arith .mul ∧ ¬ n < 0 ∧ s.utf8ByteSize * n.toNatClampNeg > 16777216)) :
    (if (k == BinKind.arith ArithOp.mul) = true then
      if n < 0 then OpRes.err "negative repetition count."
      else if s.utf8ByteSize * n.toNatClampNeg > 16777216 then OpRes.panic "capacity overflow"
      else OpRes.ok (Val.str (repeatStr s n.toNatClampNeg))
    else OpRes.err "Invalid operation on strings.") ≠ OpRes.panic msg := by
  by_cases hk : k = .arith .mul
  · by_cases hn : n < 0
    · simp [hk, hn]
    · by_cases hb : s.utf8ByteSize * n.toNatClampNeg > 16777216
      · exact absurd ⟨hk, hn, hb⟩ h
      · simp [hk, hn, hb]
  · simp [hk]

theorem binaryOp_no_panic (k : BinKind) (l r : Val) (hh : ¬ hugeRepeat k l r) :
    ∀ msg, binaryOp k l r ≠ .panic msg := by
  intro msg
  unfold binaryOp
  split
  · rename_i h
    simp only [Bool.and_eq_true] at h
    split
    · simp
    · rename_i hz
      cases k with
      | arith op =>
        simp only [applyBin]
        apply arith_num_no_panic op l r h.1 h.2
        intro ⟨ho, hzero⟩
        apply hz
        rcases ho with rfl | rfl <;> simp [hzero]
      | gt => split <;> simp [applyBin]
      | ge => split <;> simp [applyBin]
  · split
    · split <;> simp [applyBin]
    · split <;> simp [applyBin]
    · rename_i s n _
      apply repeat_branch_no_panic
      intro ⟨hk, hn, hb⟩
      exact hh ⟨hk, s, n, Or.inl ⟨rfl, rfl⟩, hn, hb⟩
    · rename_i n s _
      apply repeat_branch_no_panic
      intro ⟨hk, hn, hb⟩
      exact hh ⟨hk, s, n, Or.inr ⟨rfl, rfl⟩, hn, hb⟩
    · split <;> simp
    · simp

theorem ops_no_panic (op : Operator) (l r : Val) (hh : ∀ k, ¬ hugeRepeat k l r) :
    ∀ msg, execOperator op l r ≠ .panic msg := by
  intro msg
  cases op <;> simp only [execOperator] <;> first
    | exact binaryOp_no_panic _ l r (hh _) msg
    | (unfold bitwiseOp; split <;> simp; done)
    | (simp; done)

theorem unary_no_panic (v : Val) :
    (∀ msg, unaryMinus v ≠ .panic msg) ∧ (∀ msg, unaryBang v ≠ .panic msg) ∧ (∀ msg, unaryNot v ≠ .panic msg) := by
  refine ⟨?_, ?_, ?_⟩ <;> intro msg <;> cases v <;> simp [unaryMinus, unaryBang, unaryNot]

/-! ## division and modulo by zero are runtime errors, for every numeric kind -/

theorem div_mod_zero_is_error (l r : Val) (hl : isNumKind l = true) (hr : isNumKind r = true)
    (hz : r.isZero = true) :
    binaryOp (.arith .div) l r = .err "Division by zero." ∧ binaryOp (.arith .rem) l r = .err "Division by zero." := by
  simp [binaryOp, hl, hr, hz]

/-! ## the error table: combinations the statement calls errors are errors -/

theorem arrays_only_add (k : BinKind) (i j : Nat) (a b : List Val) (h : k ≠ .arith .add) :
    ∃ msg, binaryOp k (.arr i a) (.arr j b) = .err msg := by
  cases k with
  | arith op => cases op <;> simp_all [binaryOp, isNumKind]
  | gt => simp [binaryOp, isNumKind]
  | ge => simp [binaryOp, isNumKind]

theorem bool_order_is_error (k : BinKind) (a b : Bool) : ∃ msg, binaryOp k (.bool a) (.bool b) = .err msg := by
  simp [binaryOp, isNumKind]

theorem negative_repeat_is_error (s : String) (n : Int64) (h : n < 0) :
    ∃ msg, binaryOp (.arith .mul) (.str s) (.int n) = .err msg := by
  simp [binaryOp, isNumKind, h]

theorem array_concat (i j : Nat) (a b : List Val) :
    binaryOp (.arith .add) (.arr i a) (.arr j b) = .ok (.arr 0 (a ++ b)) := by
  simp [binaryOp, isNumKind]

theorem string_concat (a b : String) : binaryOp (.arith .add) (.str a) (.str b) = .ok (.str (a ++ b)) := by
  simp [binaryOp, isNumKind]

/-! ## relational operators: exact on integers, IEEE otherwise, consistent with `==` -/

/-- on two numbers of which both or neither are bytes, `>`/`>=` go to the comparison -/
theorem binaryOp_rel (k : BinKind) (l r : Val) (hk : k = .gt ∨ k = .ge) (hl : isNumKind l = true) (hr : isNumKind r = true)
    (hb : isByteVal l = isByteVal r) : binaryOp k l r = applyBin k l r := by
  rcases hk with rfl | rfl <;> simp [binaryOp, hl, hr, hb]

/-- ordering a byte against an integer or a float is a runtime error -/
theorem byte_number_order_is_error (k : BinKind) (l r : Val) (hk : k = .gt ∨ k = .ge) (hl : isNumKind l = true) (hr : isNumKind r = true)
    (hb : isByteVal l ≠ isByteVal r) : binaryOp k l r = .err "Invalid comparison of a byte and a number." := by
  rcases hk with rfl | rfl <;> simp [binaryOp, hl, hr, hb]

theorem int_gt (a b : Int64) : binaryOp .gt (.int a) (.int b) = .ok (.bool (decide (b.toInt < a.toInt))) := by
  rw [binaryOp_rel .gt (.int a) (.int b) (.inl rfl) rfl rfl rfl]
  simp only [applyBin, Val.gt, Val.partialCmp, cmpOf]
  by_cases h1 : a < b
  · have : ¬ b.toInt < a.toInt := by have := Int64.lt_iff_toInt_lt.mp h1; omega
    simp [h1, this]
  · by_cases h2 : a = b
    · subst h2; simp
    · have hne : a.toInt ≠ b.toInt := fun h => h2 (Int64.toInt_inj.mp h)
      have hnlt : ¬ a.toInt < b.toInt := fun h => h1 (Int64.lt_iff_toInt_lt.mpr h)
      have : b.toInt < a.toInt := by omega
      simp [h1, h2, this]

/-- for integer/float mixes `>`/`>=` and `==` all go through the same conversion -/
theorem mixed_is_float (a : Int64) (b : Float) :
    binaryOp .gt (.int a) (.float b) = .ok (.bool ((Val.float a.toFloat).gt (.float b))) ∧
    (Val.int a).eq (.float b) = (Val.float a.toFloat).eq (.float b) := by
  rw [binaryOp_rel .gt (.int a) (.float b) (.inl rfl) rfl rfl rfl]
  simp [applyBin, Val.gt, Val.partialCmp, Val.eq]

/-- on integers: `a >= b ∧ b >= a ↔ a == b` -/
theorem rel_consistent_with_eq_int (a b : Int64) :
    ((Val.int a).ge (.int b) && (Val.int b).ge (.int a)) = (Val.int a).eq (.int b) := by
  simp only [Val.ge, Val.partialCmp, cmpOf, Val.eq]
  rcases Int.lt_trichotomy a.toInt b.toInt with h | h | h
  · have h1 : a < b := Int64.lt_iff_toInt_lt.mpr h
    have h2 : ¬ b < a := fun h' => by have := Int64.lt_iff_toInt_lt.mp h'; omega
    have h3 : a ≠ b := by intro e; subst e; omega
    have h4 : b ≠ a := fun e => h3 e.symm
    have e1 : (Ord3.lt == Ord3.gt) = false := by decide
    have e2 : (Ord3.lt == Ord3.eq) = false := by decide
    simp [h1, h2, h3, h4, e1, e2]
  · have e : a = b := Int64.toInt_inj.mp h
    subst e
    have : ¬ a < a := fun h' => by have := Int64.lt_iff_toInt_lt.mp h'; omega
    simp [this]
  · have h1 : b < a := Int64.lt_iff_toInt_lt.mpr h
    have h2 : ¬ a < b := fun h' => by have := Int64.lt_iff_toInt_lt.mp h'; omega
    have h3 : a ≠ b := by intro e; subst e; omega
    have h4 : b ≠ a := fun e => h3 e.symm
    have e1 : (Ord3.lt == Ord3.gt) = false := by decide
    have e2 : (Ord3.lt == Ord3.eq) = false := by decide
    simp [h1, h2, h3, h4, e1, e2]

/-- non-vacuity: concrete operands exercising a value, an error and a float case -/
example : Agrees (binaryOp (.arith .mul) (.int 3037000500) (.int 3037000500))
    (Spec.intArith .mul 3037000500 3037000500) := int_arith .mul 3037000500 3037000500

/-! # The full table (`binary_spec`, `unary_spec`) -/

theorem agrees_err (m : String) : Agrees (.err m) .error := ⟨m, rfl⟩
theorem agrees_ok_any (v : Val) : Agrees (.ok v) .any := fun _ h => OpRes.noConfusion h
theorem agrees_err_any (m : String) : Agrees (.err m) .any := fun _ h => OpRes.noConfusion h
theorem agrees_val (v : Val) : Agrees (.ok v) (.value v) := rfl

/-! ## ordering through `cmpOf` -/

theorem cmpOf_gt {α} [LT α] [DecidableRel (α := α) (· < ·)] [BEq α] [LawfulBEq α] (a b : α)
    (h : b < a ↔ ¬ a < b ∧ a ≠ b) : (some (cmpOf a b) == some Ord3.gt) = decide (b < a) := by
  have e1 : (some Ord3.lt == some Ord3.gt) = false := by decide
  have e2 : (some Ord3.eq == some Ord3.gt) = false := by decide
  unfold cmpOf
  by_cases h1 : a < b
  · have : ¬ b < a := fun h' => (h.mp h').1 h1
    simp only [h1, this, if_true, e1, decide_false]
  · by_cases h2 : a = b
    · subst h2
      simp only [h1, if_false, beq_self_eq_true, if_true, e2, decide_false]
    · have : b < a := h.mpr ⟨h1, h2⟩
      have h3 : (a == b) = false := by simpa using h2
      simp [h1, h3, this]

theorem cmpOf_ge {α} [LT α] [DecidableRel (α := α) (· < ·)] [BEq α] [LawfulBEq α] [DecidableEq α] (a b : α)
    (h : b < a ↔ ¬ a < b ∧ a ≠ b) :
    (some (cmpOf a b) == some Ord3.gt || some (cmpOf a b) == some Ord3.eq) = (decide (b < a) || decide (a = b)) := by
  have e1 : (some Ord3.lt == some Ord3.gt) = false := by decide
  have e2 : (some Ord3.eq == some Ord3.gt) = false := by decide
  have e3 : (some Ord3.lt == some Ord3.eq) = false := by decide
  unfold cmpOf
  by_cases h1 : a < b
  · have : ¬ b < a := fun h' => (h.mp h').1 h1
    have h2 : a ≠ b := fun e => by subst e; exact this h1
    simp only [h1, this, if_true, e1, e3, decide_false, h2, Bool.or_self]
  · by_cases h2 : a = b
    · subst h2
      simp only [h1, if_false, beq_self_eq_true, if_true, e2, decide_false, decide_true, Bool.false_or]
    · have : b < a := h.mpr ⟨h1, h2⟩
      have h3 : (a == b) = false := by simpa using h2
      simp [h1, h3, this]

theorem i64_gt_iff (a b : Int64) : b < a ↔ ¬ a < b ∧ a ≠ b := by
  simp only [Int64.lt_iff_toInt_lt, ne_eq, ← Int64.toInt_inj]; omega

/-- `>=` on integers is the exact comparison -/
theorem int_ge (a b : Int64) :
    binaryOp .ge (.int a) (.int b) = .ok (.bool (decide (b.toInt < a.toInt) || decide (a.toInt = b.toInt))) := by
  rw [binaryOp_rel .ge (.int a) (.int b) (.inr rfl) rfl rfl rfl]
  simp only [applyBin, Val.ge, Val.partialCmp]
  rw [cmpOf_ge a b (i64_gt_iff a b)]
  simp [Int64.lt_iff_toInt_lt, Int64.toInt_inj]

example : binaryOp .ge (.int (-3)) (.int (-3)) = .ok (.bool true) := by
  rw [int_ge]; exact congrArg (fun x => OpRes.ok (Val.bool x)) (by decide)

/-! ## shifts and bitwise operators -/

/-- shift amounts are taken modulo 64; `<<` is multiplication by the power of two modulo 2^64,
`>>` the flooring (arithmetic) division -/
theorem shift_mod64 (a b : Int64) :
    bitwiseOp .shl (.int a) (.int b) = .ok (.int (Int64.ofInt (a.toInt * 2 ^ (b.toInt % 64).toNat))) ∧
    bitwiseOp .shr (.int a) (.int b) = .ok (.int (Int64.ofInt (a.toInt / 2 ^ (b.toInt % 64).toNat))) := by
  simp only [bitwiseOp, i64_shl, i64_shr, and_self]

example : bitwiseOp .shl (.int 1) (.int 65) = .ok (.int 2) := by
  rw [(shift_mod64 1 65).1]; exact congrArg (fun x => OpRes.ok (Val.int x)) (by decide)
example : bitwiseOp .shr (.int (-9)) (.int (-63)) = .ok (.int (-5)) := by
  rw [(shift_mod64 _ _).2]; exact congrArg (fun x => OpRes.ok (Val.int x)) (by decide)

/-- the integer/integer row of the table -/
theorem row_int_int (op : Operator) (a b : Int64) :
    Agrees (execOperator op (.int a) (.int b)) (Spec.binary (specOp op) (.int a) (.int b)) := by
  cases op
  · exact int_arith .add a b
  · exact int_arith .sub a b
  · exact int_arith .mul a b
  · exact int_arith .div a b
  · exact int_arith .rem a b
  · show OpRes.ok (.bool (a == b)) = .ok (.bool (decide (a.toInt = b.toInt))); rw [i64_beq]
  · show OpRes.ok (.bool (!(a == b))) = .ok (.bool (!decide (a.toInt = b.toInt))); rw [i64_beq]
  · show binaryOp .gt (.int a) (.int b) = _; rw [int_gt]
  · show binaryOp .ge (.int a) (.int b) = _; rw [int_ge]
  · exact agrees_val _
  · exact agrees_val _
  · exact agrees_val _
  · show bitwiseOp .shl (.int a) (.int b) = _; rw [(shift_mod64 a b).1]; rfl
  · show bitwiseOp .shr (.int a) (.int b) = _; rw [(shift_mod64 a b).2]; rfl

/-! ## bytes: arithmetic modulo 2^8 -/

/-- byte arithmetic is arithmetic on naturals reduced modulo 2^8 -/
theorem byte_mod256 (op : ArithOp) (a b : UInt8) :
    Agrees (binaryOp (.arith op) (.byte a) (.byte b))
      (Spec.byteArith (match op with | .add => .add | .sub => .sub | .mul => .mul | .div => .div | .rem => .mod) a.toNat b.toNat) := by
  have hz : (b == 0) = decide (b.toNat = 0) := by
    by_cases h : b = 0
    · subst h; decide
    · have : b.toNat ≠ 0 := fun h' => h (UInt8.toNat_inj.mp (by simpa using h'))
      simp [h, this]
  cases op <;> simp only [binaryOp, isNumKind, Bool.and_self, Val.isZero, Spec.byteArith]
  · simp [applyBin, arith, arithByte, Agrees, Spec.wrap8, u8_add a b]
  · simp [applyBin, arith, arithByte, Agrees, Spec.wrap8, u8_sub a b]
  · simp [applyBin, arith, arithByte, Agrees, Spec.wrap8, u8_mul a b]
  · by_cases h : b.toNat = 0
    · simp [h, hz, Agrees]
    · simp [h, hz, Agrees, applyBin, arith, arithByte, Spec.wrap8, u8_div a b]
  · by_cases h : b.toNat = 0
    · simp [h, hz, Agrees]
    · simp [h, hz, Agrees, applyBin, arith, arithByte, Spec.wrap8, u8_mod a b]

example : binaryOp (.arith .sub) (.byte 3) (.byte 250) = .ok (.byte 9) := by
  have := byte_mod256 .sub 3 250
  simpa [Agrees, Spec.byteArith, Spec.wrap8] using this

theorem row_byte_byte (op : Operator) (a b : UInt8) :
    Agrees (execOperator op (.byte a) (.byte b)) (Spec.binary (specOp op) (.byte a) (.byte b)) := by
  cases op
  · exact byte_mod256 .add a b
  · exact byte_mod256 .sub a b
  · exact byte_mod256 .mul a b
  · exact byte_mod256 .div a b
  · exact byte_mod256 .rem a b
  all_goals first | exact agrees_ok_any _ | exact agrees_err_any _

/-! ## integer/byte mixes are integer operations on the byte's value -/

theorem int_byte_is_int (op : ArithOp) (a : Int64) (b : UInt8) :
    binaryOp (.arith op) (.int a) (.byte b) = binaryOp (.arith op) (.int a) (.int (byteToInt b)) ∧
    binaryOp (.arith op) (.byte b) (.int a) = binaryOp (.arith op) (.int (byteToInt b)) (.int a) := by
  have hz : (byteToInt b == 0) = (b == 0) := by
    by_cases h : b = 0
    · subst h; decide
    · have : byteToInt b ≠ 0 := fun h' => h ((byteToInt_eq_zero b).mp h')
      rw [beq_eq_false_iff_ne.mpr this, beq_eq_false_iff_ne.mpr h]
  constructor <;> simp only [binaryOp, isNumKind, Bool.and_self, Val.isZero, hz, applyBin, arith] <;> rfl

theorem int_byte_arith (op : ArithOp) (a : Int64) (b : UInt8) :
    Agrees (binaryOp (.arith op) (.int a) (.byte b))
      (Spec.intArith (match op with | .add => .add | .sub => .sub | .mul => .mul | .div => .div | .rem => .mod) a.toInt b.toNat) := by
  rw [(int_byte_is_int op a b).1, ← byteToInt_toInt b]; exact int_arith op a (byteToInt b)

theorem byte_int_arith (op : ArithOp) (a : UInt8) (b : Int64) :
    Agrees (binaryOp (.arith op) (.byte a) (.int b))
      (Spec.intArith (match op with | .add => .add | .sub => .sub | .mul => .mul | .div => .div | .rem => .mod) a.toNat b.toInt) := by
  rw [(int_byte_is_int op b a).2, ← byteToInt_toInt a]; exact int_arith op (byteToInt a) b

theorem row_int_byte (op : Operator) (a : Int64) (b : UInt8) :
    Agrees (execOperator op (.int a) (.byte b)) (Spec.binary (specOp op) (.int a) (.byte b)) := by
  cases op
  · exact int_byte_arith .add a b
  · exact int_byte_arith .sub a b
  · exact int_byte_arith .mul a b
  · exact int_byte_arith .div a b
  · exact int_byte_arith .rem a b
  all_goals first | exact agrees_ok_any _ | exact agrees_err _

theorem row_byte_int (op : Operator) (a : UInt8) (b : Int64) :
    Agrees (execOperator op (.byte a) (.int b)) (Spec.binary (specOp op) (.byte a) (.int b)) := by
  cases op
  · exact byte_int_arith .add a b
  · exact byte_int_arith .sub a b
  · exact byte_int_arith .mul a b
  · exact byte_int_arith .div a b
  · exact byte_int_arith .rem a b
  all_goals first | exact agrees_ok_any _ | exact agrees_err _

example : binaryOp (.arith .sub) (.byte 200) (.int 201) = .ok (.int (-1)) := by
  have := row_byte_int .sub 200 201
  simp only [execOperator, specOp, Spec.binary, Spec.isArith, if_true, Spec.intArith, Agrees, Spec.wrap64] at this
  rw [this]; exact congrArg (fun x => OpRes.ok (Val.int x)) (by decide)

/-! ## any float operand: the IEEE primitive on the converted operands

`Float` has a logical model in Lean's core (`Float.Model`): `+ - * /`, `<`, `≤`, `==` and the
conversion of a byte reduce to it, so the comparison rows are proved (`float_gt_model`,
`float_ge_model`) and the arithmetic rows are the same primitive applied to the same operands.
`Int64.toFloat` alone is an opaque constant of this Lean version. -/

def arithSpecOp : ArithOp → Spec.Op
  | .add => .add | .sub => .sub | .mul => .mul | .div => .div | .rem => .mod

theorem float_arith_rowZ (op : ArithOp) (l r : Val) (x y : Float) (zero : Bool)
    (hl : isNumKind l = true) (hr : isNumKind r = true)
    (ha : ∀ o, arith o l r = .ok (arithFloat o x y)) (hz : r.isZero = zero) :
    Agrees (binaryOp (.arith op) l r) (Spec.floatArithZ (arithSpecOp op) x y zero) := by
  cases op <;>
    simp only [binaryOp, hl, hr, Bool.and_self, if_true, applyBin, ha, hz, arithSpecOp, Spec.floatArithZ, arithFloat]
  · exact agrees_val _
  · exact agrees_val _
  · exact agrees_val _
  · cases zero
    · exact agrees_val _
    · exact agrees_err _
  · cases zero
    · exact agrees_val _
    · exact agrees_err _

theorem float_arith_row (op : ArithOp) (l r : Val) (x y : Float)
    (hl : isNumKind l = true) (hr : isNumKind r = true)
    (ha : ∀ o, arith o l r = .ok (arithFloat o x y)) (hz : r.isZero = (y == 0.0)) :
    Agrees (binaryOp (.arith op) l r) (Spec.floatArith (arithSpecOp op) x y) :=
  float_arith_rowZ op l r x y (y == 0.0) hl hr ha hz

theorem float_rel_row (l r : Val) (x y : Float)
    (hl : isNumKind l = true) (hr : isNumKind r = true) (hb : isByteVal l = isByteVal r) (hc : l.partialCmp r = cmpFloat x y) :
    binaryOp .gt l r = .ok (.bool (decide (x > y))) ∧ binaryOp .ge l r = .ok (.bool (decide (x ≥ y))) := by
  constructor
  · rw [binaryOp_rel .gt l r (.inl rfl) hl hr hb]
    simp only [applyBin, Val.gt, hc, float_gt_model]
  · rw [binaryOp_rel .ge l r (.inr rfl) hl hr hb]
    simp only [applyBin, Val.ge, hc, float_ge_model]

theorem row_float_float (op : Operator) (a b : Float) :
    Agrees (execOperator op (.float a) (.float b)) (Spec.binary (specOp op) (.float a) (.float b)) := by
  cases op
  · exact float_arith_row .add (.float a) (.float b) a b rfl rfl (fun _ => rfl) rfl
  · exact float_arith_row .sub (.float a) (.float b) a b rfl rfl (fun _ => rfl) rfl
  · exact float_arith_row .mul (.float a) (.float b) a b rfl rfl (fun _ => rfl) rfl
  · exact float_arith_row .div (.float a) (.float b) a b rfl rfl (fun _ => rfl) rfl
  · exact float_arith_row .rem (.float a) (.float b) a b rfl rfl (fun _ => rfl) rfl
  · exact agrees_val _
  · exact agrees_val _
  · exact (float_rel_row (.float a) (.float b) a b rfl rfl rfl rfl).1
  · exact (float_rel_row (.float a) (.float b) a b rfl rfl rfl rfl).2
  all_goals exact agrees_err _

theorem row_int_float (op : Operator) (a : Int64) (b : Float) :
    Agrees (execOperator op (.int a) (.float b)) (Spec.binary (specOp op) (.int a) (.float b)) := by
  cases op
  · exact float_arith_row .add (.int a) (.float b) a.toFloat b rfl rfl (fun _ => rfl) rfl
  · exact float_arith_row .sub (.int a) (.float b) a.toFloat b rfl rfl (fun _ => rfl) rfl
  · exact float_arith_row .mul (.int a) (.float b) a.toFloat b rfl rfl (fun _ => rfl) rfl
  · exact float_arith_row .div (.int a) (.float b) a.toFloat b rfl rfl (fun _ => rfl) rfl
  · exact float_arith_row .rem (.int a) (.float b) a.toFloat b rfl rfl (fun _ => rfl) rfl
  · exact agrees_val _
  · exact agrees_val _
  · exact (float_rel_row (.int a) (.float b) a.toFloat b rfl rfl rfl rfl).1
  · exact (float_rel_row (.int a) (.float b) a.toFloat b rfl rfl rfl rfl).2
  all_goals exact agrees_err _

/-- `float / int`, `float % int`: the divisor is an integer, and it is zero when the integer is —
which is what the VM tests (`Int64.toFloat` is an opaque constant of this Lean version, so the
zero test of this row is, rightly, not about the converted operand) -/
theorem row_float_int (op : Operator) (a : Float) (b : Int64) :
    Agrees (execOperator op (.float a) (.int b)) (Spec.binary (specOp op) (.float a) (.int b)) := by
  cases op
  · exact agrees_val _
  · exact agrees_val _
  · exact agrees_val _
  · exact float_arith_rowZ .div (.float a) (.int b) a b.toFloat _ rfl rfl (fun _ => rfl) (i64_eq_zero b)
  · exact float_arith_rowZ .rem (.float a) (.int b) a b.toFloat _ rfl rfl (fun _ => rfl) (i64_eq_zero b)
  · exact agrees_val _
  · exact agrees_val _
  · exact (float_rel_row (.float a) (.int b) a b.toFloat rfl rfl rfl rfl).1
  · exact (float_rel_row (.float a) (.int b) a b.toFloat rfl rfl rfl rfl).2
  all_goals exact agrees_err _

example (x : Float) : Agrees (execOperator .div (.float x) (.int 0)) .error := row_float_int .div x 0
example (x : Float) : Agrees (execOperator .mod (.float x) (.int 3)) (.value (.float (fmod x (3 : Int64).toFloat))) :=
  row_float_int .mod x 3

theorem row_float_byte (op : Operator) (a : Float) (b : UInt8) :
    Agrees (execOperator op (.float a) (.byte b)) (Spec.binary (specOp op) (.float a) (.byte b)) := by
  cases op
  · exact agrees_val _
  · exact agrees_val _
  · exact agrees_val _
  · exact float_arith_row .div (.float a) (.byte b) a b.toFloat rfl rfl (fun _ => rfl) (u8_toFloat_zero b).symm
  · exact float_arith_row .rem (.float a) (.byte b) a b.toFloat rfl rfl (fun _ => rfl) (u8_toFloat_zero b).symm
  all_goals first | exact agrees_ok_any _ | exact agrees_err _

theorem row_byte_float (op : Operator) (a : UInt8) (b : Float) :
    Agrees (execOperator op (.byte a) (.float b)) (Spec.binary (specOp op) (.byte a) (.float b)) := by
  cases op
  · exact agrees_val _
  · exact agrees_val _
  · exact agrees_val _
  · exact float_arith_row .div (.byte a) (.float b) a.toFloat b rfl rfl (fun _ => rfl) rfl
  · exact float_arith_row .rem (.byte a) (.float b) a.toFloat b rfl rfl (fun _ => rfl) rfl
  all_goals first | exact agrees_ok_any _ | exact agrees_err _

/-- IEEE: `a ≥ b ∧ b ≥ a` exactly when `a == b` (false on both sides for NaN) -/
theorem float_ge_ge_iff_beq (a b : Float) : (decide (a ≥ b) && decide (b ≥ a)) = (a == b) := by
  have h1 := float_le_iff b a
  have h2 := float_le_iff a b
  have h3 := float_beq_iff a b
  rw [fcmp_swap] at h1
  show (decide (b ≤ a) && decide (a ≤ b)) = (a == b)
  cases h : fcmp a b with
  | none => simp_all
  | some o => cases o <;> simp_all

/-- on floats and on integer/float mixes (which compare as doubles): `a >= b ∧ b >= a ↔ a == b` -/
theorem rel_consistent_with_eq_float (a b : Float) :
    ((Val.float a).ge (.float b) && (Val.float b).ge (.float a)) = (Val.float a).eq (.float b) := by
  simp only [Val.ge, Val.partialCmp, Val.eq, float_ge_model, float_ge_ge_iff_beq]

theorem rel_consistent_with_eq_mixed (a : Int64) (b : Float) :
    ((Val.int a).ge (.float b) && (Val.float b).ge (.int a)) = (Val.int a).eq (.float b) := by
  simp only [Val.ge, Val.partialCmp, Val.eq, float_ge_model, float_ge_ge_iff_beq]

example : ((Val.float (0.0 / 0.0)).ge (.float 1.5) && (Val.float 1.5).ge (.float (0.0 / 0.0))) =
    (Val.float (0.0 / 0.0)).eq (.float 1.5) := rel_consistent_with_eq_float _ _

/-! ## strings and chars: lexicographic comparison, concatenation, repetition -/

theorem str_rel (a b : String) :
    binaryOp .gt (.str a) (.str b) = .ok (.bool (decide (b < a))) ∧
    binaryOp .ge (.str a) (.str b) = .ok (.bool (decide (b < a) || decide (a = b))) := by
  constructor
  · simp only [binaryOp, isNumKind, Bool.and_self, Bool.false_eq_true, if_false, applyBin, Val.gt, Val.partialCmp,
      cmpOf_gt a b (string_gt_iff a b)]
  · simp only [binaryOp, isNumKind, Bool.and_self, Bool.false_eq_true, if_false, applyBin, Val.ge, Val.partialCmp,
      cmpOf_ge a b (string_gt_iff a b)]

theorem char_rel (a b : Char) :
    binaryOp .gt (.char a) (.char b) = .ok (.bool (decide (b < a))) ∧
    binaryOp .ge (.char a) (.char b) = .ok (.bool (decide (b < a) || decide (a = b))) := by
  constructor
  · simp only [binaryOp, isNumKind, Bool.and_self, Bool.false_eq_true, if_false, applyBin, Val.gt, Val.partialCmp,
      cmpOf_gt a b (char_gt_iff a b)]
  · simp only [binaryOp, isNumKind, Bool.and_self, Bool.false_eq_true, if_false, applyBin, Val.ge, Val.partialCmp,
      cmpOf_ge a b (char_gt_iff a b)]

example : binaryOp .gt (.str "b") (.str "ab") = .ok (.bool true) := by
  rw [(str_rel _ _).1]; exact congrArg (fun x => OpRes.ok (Val.bool x)) (by decide)

theorem row_str_str (op : Operator) (a b : String) :
    Agrees (execOperator op (.str a) (.str b)) (Spec.binary (specOp op) (.str a) (.str b)) := by
  cases op
  case greater => exact (str_rel a b).1
  case greaterEq => exact (str_rel a b).2
  all_goals first | exact agrees_err _ | exact agrees_val _

theorem row_char_char (op : Operator) (a b : Char) :
    Agrees (execOperator op (.char a) (.char b)) (Spec.binary (specOp op) (.char a) (.char b)) := by
  cases op
  case greater => exact (char_rel a b).1
  case greaterEq => exact (char_rel a b).2
  all_goals first | exact agrees_err _ | exact agrees_val _

/-- `string * n`: an error for negative `n`, the `n`-fold repetition otherwise (the request
beyond 16 MiB is the memory exclusion) -/
theorem repeat_spec (s : String) (n : Int64) (hh : ¬ hugeRepeat (.arith .mul) (.str s) (.int n)) :
    Agrees (binaryOp (.arith .mul) (.str s) (.int n)) (Spec.binary .mul (.str s) (.int n)) := by
  have hlt : (n < 0) ↔ n.toInt < 0 := by
    rw [Int64.lt_iff_toInt_lt]; exact Iff.rfl
  simp only [binaryOp, isNumKind, beq_self_eq_true, if_true, Spec.binary, Int64.toNatClampNeg]
  by_cases h1 : n < 0
  · simp only [h1, hlt.mp h1, if_true]; exact agrees_err _
  · have h1' : ¬ n.toInt < 0 := fun h => h1 (hlt.mpr h)
    by_cases h2 : s.utf8ByteSize * n.toInt.toNat > 16777216
    · exact absurd ⟨rfl, s, n, Or.inl ⟨rfl, rfl⟩, h1, h2⟩ hh
    · simp only [h1, h1', h2, if_false, repeatStr_eq]
      exact agrees_val _

example : binaryOp (.arith .mul) (.str "ab") (.int 3) = .ok (.str "ababab") := by
  have h : ¬ hugeRepeat (.arith .mul) (.str "ab") (.int 3) := by
    rintro ⟨-, s, n, (⟨h1, h2⟩ | ⟨h1, -⟩), -, hb⟩
    · cases h1; cases h2; revert hb; decide
    · cases h1
  exact (repeat_spec "ab" 3 h : Agrees _ (.value (.str "ababab")))

theorem row_str_int (op : Operator) (s : String) (n : Int64)
    (hh : op = .mul → ¬ hugeRepeat (.arith .mul) (.str s) (.int n)) :
    Agrees (execOperator op (.str s) (.int n)) (Spec.binary (specOp op) (.str s) (.int n)) := by
  cases op
  case mul => exact repeat_spec s n (hh rfl)
  all_goals first | exact agrees_err _ | exact agrees_ok_any _

theorem row_int_str (op : Operator) (n : Int64) (s : String)
    (hh : op = .mul → ¬ hugeRepeat (.arith .mul) (.int n) (.str s)) :
    Agrees (execOperator op (.int n) (.str s)) (Spec.binary (specOp op) (.int n) (.str s)) := by
  cases op
  case mul => exact binaryOp_no_panic _ _ _ (hh rfl)
  all_goals first | exact agrees_err _ | exact agrees_ok_any _

/-! ## `==` / `!=` on arrays: element-wise, as far as the statements fix the elements' equality -/

theorem array_eq_spec (i j : Nat) (xs ys : List Val) (b : Bool) (h : Spec.specEqList xs ys = some b) :
    execOperator .equal (.arr i xs) (.arr j ys) = .ok (.bool b) ∧
    execOperator .notEqual (.arr i xs) (.arr j ys) = .ok (.bool (!b)) := by
  simp only [execOperator, Val.eq, specEqList_sound xs ys b h, and_self]

example : execOperator .equal (.arr 1 [.int 1, .str "a", .arr 2 [.null]]) (.arr 3 [.int 1, .str "a", .arr 4 [.null]])
    = .ok (.bool true) :=
  (array_eq_spec _ _ _ _ true (by decide +kernel)).1

theorem row_arr_arr (op : Operator) (i j : Nat) (xs ys : List Val) :
    Agrees (execOperator op (.arr i xs) (.arr j ys)) (Spec.binary (specOp op) (.arr i xs) (.arr j ys)) := by
  cases op
  case equal =>
    simp only [specOp, Spec.binary, Spec.numEq]
    cases h : Spec.specEqList xs ys with
    | none => exact agrees_ok_any _
    | some b => exact (array_eq_spec i j xs ys b h).1
  case notEqual =>
    simp only [specOp, Spec.binary, Spec.numEq]
    cases h : Spec.specEqList xs ys with
    | none => exact agrees_ok_any _
    | some b => exact (array_eq_spec i j xs ys b h).2
  all_goals first | exact agrees_err _ | exact agrees_val _

/-! ## the table -/

/-- **the table**: for every operator and every pair of operand values the VM's operator code (as
modelled) yields the value the specification fixes, a runtime error where it demands one, and
does not panic where it is silent.  Excluded: only the repetition beyond 16 MiB (`hugeRepeat`, the
memory exclusion of the property).  The cells not named below are
the combinations the statement calls runtime errors (and `==`/`!=` on them, left open). -/
theorem binary_spec (op : Operator) (l r : Val)
    (hh : op = .mul → ¬ hugeRepeat (.arith .mul) l r) :
    Agrees (execOperator op l r) (Spec.binary (specOp op) l r) := by
  cases l <;> cases r
  case int.int a b => exact row_int_int op a b
  case byte.byte a b => exact row_byte_byte op a b
  case int.byte a b => exact row_int_byte op a b
  case byte.int a b => exact row_byte_int op a b
  case float.float a b => exact row_float_float op a b
  case int.float a b => exact row_int_float op a b
  case float.int a b => exact row_float_int op a b
  case float.byte a b => exact row_float_byte op a b
  case byte.float a b => exact row_byte_float op a b
  case str.str a b => exact row_str_str op a b
  case char.char a b => exact row_char_char op a b
  case str.int s n => exact row_str_int op s n hh
  case int.str n s => exact row_int_str op n s hh
  case arr.arr i xs j ys => exact row_arr_arr op i j xs ys
  all_goals (cases op <;> first | exact agrees_err _ | exact agrees_ok_any _ | exact agrees_val _)

/-! ## unary operators -/

def execUnary : Spec.UnOp → Val → OpRes
  | .minus => unaryMinus
  | .bang => unaryBang
  | .bnot => unaryNot

/-- `-` negates integers modulo 2^64 and floats, `~` is `-x-1`, `!` follows the truthiness table;
every other operand kind is a runtime error (bytes: unconstrained, no panic) -/
theorem unary_spec (op : Spec.UnOp) (v : Val) : Agrees (execUnary op v) (Spec.unary op v) := by
  cases op
  case bang => show unaryBang v = _; rw [C06.bang_is_table]
  case minus =>
    cases v
    case int a => exact neg_spec a
    all_goals first | exact agrees_val _ | exact agrees_err _ | exact agrees_err_any _
  case bnot =>
    cases v
    case int a => exact not_spec a
    all_goals first | exact agrees_err _ | exact agrees_err_any _

example : Agrees (unaryNot (.int Int64.maxValue)) (.value (.int Int64.minValue)) :=
  unary_spec .bnot (.int Int64.maxValue)
example : Agrees (unaryMinus (.str "x")) .error := unary_spec .minus (.str "x")

/-- non-vacuity of the table: a wrapping shift, a byte/int mix, a float comparison, an error cell -/
example : Agrees (execOperator .shl (.int 3) (.int 127)) (.value (.int Int64.minValue)) :=
  binary_spec .shl (.int 3) (.int 127) (by intro h; cases h)
example : Agrees (execOperator .greater (.char 'a') (.int 1)) .error :=
  binary_spec .greater (.char 'a') (.int 1) (by intro h; cases h)
example (x : Float) : Agrees (execOperator .greaterEq (.float x) (.int 7)) (.value (.bool (x ≥ (7 : Int64).toFloat))) :=
  binary_spec .greaterEq (.float x) (.int 7) (by intro h; cases h)

end P2sh.Props.C09
