import P2sh.Props.CoreVm
import P2sh.Core.Fn.Encode
set_option linter.unusedSimpArgs false
/-!
# The machine with functions and closures is a refinement of the VM model

`Core.Fn.fstep` (`Core/Fn/Lang.lean`) is the machine with frames, locals, function constants and
closures against which `Core/Fn`'s compiler correctness is stated (`sound_all`, `call_correct`,
`program_correct_fn`); `Vm.step` / `Vm.runLoop` (`Model/Vm.lean`) is the model of the real VM.  This
file extends `Props/CoreVm.lean` from the single main frame to the frame stack: on the encoded bytes,
**one `fstep` is one iteration of the VM's loop** — `Call`, `ReturnValue`, `Return`, `GetLocal`,
`SetLocal`, `DefineLocal`, `Closure`, `GetFree`, `SetFree`, `CurrentClosure`, `GetBuiltinFn` and every
instruction of `CoreVm` — and the states stay related.

* `FRel K fs d vs`          — the simulation relation (frames, ONE operand stack, globals, closure objects).
* `fstep_refines_partial`   — one `fstep` = one `tick` ending normally, `FRel` preserved.
* `fsteps_refine_partial`   — checked runs (`DSteps`) ⇒ `VmSteps`.
* `run_refines_partial`     — a checked halting run from the initial state ⇒ `Vm.run` ends normally, related.
* `program_run_refines_partial` — composed with `Core.Fn.program_correct_fn`: a terminating `evalT` of a
  program ⇒ `Vm.run` on the encoded main code + constants ends normally with the evaluator's globals.
* `stale_local_diverges`    — the one place where the machines differ on related states;
  `currClosure_in_main` — why the main code must not contain `CurrentClosure` when its frame carries a dummy function.
* `Example`                 — `fn mk(a) { return fn(b) { a + b }; }  let r = mk(1)(2);`, all of it instantiated.

**Partial** (the suffix): `Array`, `Map`, `GetIndex`, `SetIndex` (`noHeapI`) and calls of builtin
functions are excluded, and no value may be an array / a map reference (`scalars`): the correspondence
between `Core/Fn`'s heap `a` and the VM's reify / reflect is not done here.  `fstep`'s heap `a` is
therefore unconstrained and unused.

**Side conditions that are not static.**  `Core.Fn.FSteps` says nothing about the states in between, so the
stack bound (`STACK_SIZE`), the frame bound (`MAX_FRAMES`) and the defined-slot condition are taken as
hypotheses over the run of the machine with frames: `dstep` is `fstep` with the checks `preOk` / `postOk`,
`checkedRun` the executable predicate "the run passes them".  Nothing is assumed about the VM's run.

Model/Vm.lean, CoreVm.lean and Core/Fn are not changed.
-/
namespace P2sh.FnVm
open P2sh P2sh.Vm P2sh.Code P2sh.Props.BcvWp P2sh.CoreVm
open P2sh.Props.Bcv (tick finish exec_runLoop_succ)
open P2sh.Core (Instr fetch bytes)
open P2sh.Core.Fn (FSt Act fstep FSteps botGet botSet botTake freeGet freeSet opH falseyH view cmpH FTop FDecl evalT phiT codeT codesT constsT compileT lookupFd program_correct_fn)

/-! ## stacks that agree on the defined slots -/

/-- pointwise: where the shadow says `true` (the slot has been written since it became live) the
VM's slot and the machine's slot hold the same value; where it says `false` (a local slot of a
called function that has not been stored yet: the VM leaves there whatever was on the stack, the
machine of `Core/Fn` a `null`) nothing is claimed -/
inductive SR : List Val → List Val → List Bool → Prop
  | nil : SR [] [] []
  | cons {x y b xs ys bs} : (b = true → x = y) → SR xs ys bs → SR (x :: xs) (y :: ys) (b :: bs)

theorem SR.len {xs ys bs} (h : SR xs ys bs) : xs.length = ys.length ∧ bs.length = ys.length := by
  induction h with
  | nil => exact ⟨rfl, rfl⟩
  | cons _ _ ih => simp [ih.1, ih.2]

theorem SR.append {xs ys bs xs' ys' bs'} (h : SR xs ys bs) (h' : SR xs' ys' bs') :
    SR (xs ++ xs') (ys ++ ys') (bs ++ bs') := by
  induction h with
  | nil => exact h'
  | cons hb _ ih => exact .cons hb ih

theorem SR.reverse {xs ys bs} (h : SR xs ys bs) : SR xs.reverse ys.reverse bs.reverse := by
  induction h with
  | nil => exact .nil
  | cons hb _ ih =>
    simp only [List.reverse_cons]
    exact ih.append (.cons hb .nil)

theorem SR.drop {xs ys bs} (h : SR xs ys bs) (n : Nat) : SR (xs.drop n) (ys.drop n) (bs.drop n) := by
  induction h generalizing n with
  | nil => simpa using SR.nil
  | cons hb ht ih =>
    cases n with
    | zero => exact .cons hb ht
    | succ n => simpa using ih n

theorem SR.set {xs ys bs} (h : SR xs ys bs) (i : Nat) (v : Val) : SR (xs.set i v) (ys.set i v) (bs.set i true) := by
  induction h generalizing i with
  | nil => simpa using SR.nil
  | cons hb ht ih =>
    cases i with
    | zero => exact .cons (fun _ => rfl) ht
    | succ i => exact .cons hb (ih i)

theorem SR.get {xs ys bs} (h : SR xs ys bs) (i : Nat) (hb : bs[i]? = some true) : xs[i]? = ys[i]? := by
  induction h generalizing i with
  | nil => simp at hb
  | cons hx _ ih =>
    cases i with
    | zero =>
      simp at hb
      simp [hx hb]
    | succ i => simpa using ih i (by simpa using hb)

theorem SR.take_eq {xs ys bs} (h : SR xs ys bs) (n : Nat) (hb : (bs.take n).all id = true) : xs.take n = ys.take n := by
  induction h generalizing n with
  | nil => simp
  | cons hx _ ih =>
    cases n with
    | zero => simp
    | succ n =>
      simp only [List.take_succ_cons, List.all_cons, Bool.and_eq_true, id] at hb
      simp [hx hb.1, ih n hb.2]

theorem SR.fresh : ∀ (xs : List Val), SR xs (List.replicate xs.length .null) (List.replicate xs.length false)
  | [] => .nil
  | _ :: xs => .cons (fun h => by cases h) (SR.fresh xs)

/-- the live part `stack[0 .. sp)` of the VM's operand stack, top first, agrees with the machine's
stack `stk` on the slots the shadow `d` marks as defined -/
def SRel (st : Array Val) (sp : Nat) (stk : List Val) (d : List Bool) : Prop :=
  sp ≤ st.size ∧ SR (st.toList.take sp).reverse stk d

theorem SRel.length {st sp stk d} (h : SRel st sp stk d) : stk.length = sp ∧ d.length = sp := by
  obtain ⟨h1, h2⟩ := h
  have := h2.len
  simp at this
  omega

theorem vm_push (st : Array Val) (sp : Nat) (v : Val) (hlt : sp < st.size) :
    ((st.set! sp v).toList.take (sp + 1)).reverse = v :: (st.toList.take sp).reverse := by
  simp [List.take_add_one, List.take_set, hlt]
  exact List.set_eq_of_length_le (by simp; omega)

theorem vm_top (st : Array Val) (sp : Nat) (h0 : sp ≠ 0) (hle : sp ≤ st.size) :
    (st.toList.take sp).reverse = st.getD (sp - 1) .null :: (st.toList.take (sp - 1)).reverse := by
  cases sp with
  | zero => exact absurd rfl h0
  | succ n =>
    have hn : n < st.size := by omega
    simp [List.take_add_one, hn]

theorem SRel.push {st sp stk d} (h : SRel st sp stk d) (hlt : sp < st.size) (v : Val) :
    SRel (st.set! sp v) (sp + 1) (v :: stk) (true :: d) := by
  obtain ⟨h1, h2⟩ := h
  refine ⟨by simp; omega, ?_⟩
  rw [vm_push st sp v hlt]
  exact .cons (fun _ => rfl) h2

theorem all_take_succ {d : List Bool} {n : Nat} (h : (d.take (n + 1)).all id = true) :
    (d.take 1).all id = true ∧ ((d.drop 1).take n).all id = true := by
  cases d with
  | nil => simp
  | cons b bs =>
    simp only [List.take_succ_cons, List.all_cons, Bool.and_eq_true, id] at h
    simp [h.1, h.2]

/-- popping reads the top slot: it must be defined -/
theorem SRel.pop {st sp v stk d} (h : SRel st sp (v :: stk) d) (hd : (d.take 1).all id = true) :
    sp ≠ 0 ∧ st.getD (sp - 1) .null = v ∧ SRel st (sp - 1) stk (d.drop 1) := by
  obtain ⟨h1, h2⟩ := h
  have h0 : sp ≠ 0 := by
    intro h0; subst h0
    simp at h2
    cases h2
  rw [vm_top st sp h0 h1] at h2
  cases h2 with
  | cons hx ht =>
    rename_i b bs
    simp at hd
    exact ⟨h0, hx hd, by omega, by simpa using ht⟩

theorem vm_set (st : Array Val) (sp p : Nat) (v : Val) :
    ((st.set! p v).toList.take sp).reverse = (((st.toList.take sp).reverse).reverse.set p v).reverse := by
  simp [List.take_set]

theorem vm_shrink (st : Array Val) (sp sp' : Nat) (hle : sp' ≤ sp) (hsz : sp ≤ st.size) :
    (st.toList.take sp').reverse = ((st.toList.take sp).reverse).drop (sp - sp') := by
  rw [List.drop_reverse]
  simp [List.take_take]
  congr 1
  omega

theorem vm_grow (st : Array Val) (sp m : Nat) :
    (st.toList.take (sp + m)).reverse = ((st.toList.drop sp).take m).reverse ++ (st.toList.take sp).reverse := by
  rw [List.take_add, List.reverse_append]

theorem vm_get (st : Array Val) (sp j : Nat) (hj : j < sp) (hsz : sp ≤ st.size) :
    ((st.toList.take sp).reverse).reverse[j]? = some (st.getD j .null) := by
  have : j < st.size := by omega
  simp [hj, this]

/-- a store into slot `p` (counted from the bottom) makes it defined -/
theorem SRel.setAt {st sp stk d} (h : SRel st sp stk d) (p : Nat) (v : Val) :
    SRel (st.set! p v) sp (botSet stk p v) ((d.reverse.set p true).reverse) := by
  obtain ⟨h1, h2⟩ := h
  refine ⟨by simpa using h1, ?_⟩
  rw [vm_set]
  exact (h2.reverse.set p v).reverse

/-- a read of slot `j` (counted from the bottom) that the shadow marks as defined -/
theorem SRel.getAt {st sp stk d} (h : SRel st sp stk d) (j : Nat) (hd : d.reverse[j]? = some true) :
    botGet stk j = some (st.getD j .null) ∧ j < sp := by
  obtain ⟨h1, h2⟩ := h
  have hl := h2.len
  have hj : j < sp := by
    have : j < d.reverse.length := by
      cases hlt : decide (j < d.reverse.length) with
      | true => simpa using hlt
      | false =>
        have : d.reverse.length ≤ j := by simpa using hlt
        rw [List.getElem?_eq_none this] at hd
        cases hd
    simp at this hl
    omega
  refine ⟨?_, hj⟩
  have := h2.reverse.get j hd
  rw [vm_get st sp j hj h1] at this
  exact this.symm

/-- `sp` goes down to `sp'` -/
theorem SRel.shrink {st sp stk d} (h : SRel st sp stk d) (sp' : Nat) (hle : sp' ≤ sp) :
    SRel st sp' (botTake stk sp') (d.drop (d.length - sp')) := by
  obtain ⟨hl1, hl2⟩ := h.length
  obtain ⟨h1, h2⟩ := h
  refine ⟨by omega, ?_⟩
  rw [vm_shrink st sp sp' hle h1]
  unfold botTake
  rw [hl1, hl2]
  exact h2.drop _

/-- `sp` goes up by `m`: the new slots hold what the VM left there, the machine has `null`s, the shadow `false` -/
theorem SRel.grow {st sp stk d} (h : SRel st sp stk d) (m : Nat) (hle : sp + m ≤ st.size) :
    SRel st (sp + m) (List.replicate m .null ++ stk) (List.replicate m false ++ d) := by
  obtain ⟨h1, h2⟩ := h
  refine ⟨hle, ?_⟩
  rw [vm_grow]
  have hlen : ((st.toList.drop sp).take m).reverse.length = m := by simp; omega
  have := SR.fresh ((st.toList.drop sp).take m).reverse
  rw [hlen] at this
  exact this.append h2

/-- the `n` topmost slots, all defined, are the same values on both sides -/
theorem SRel.topN {st sp stk d} (h : SRel st sp stk d) (n : Nat) (hd : (d.take n).all id = true) (hn : n ≤ sp) :
    (List.range n).map (fun i => st.getD (sp - n + i) .null) = (stk.take n).reverse := by
  obtain ⟨h1, h2⟩ := h
  rw [← h2.take_eq n hd, List.take_reverse, List.reverse_reverse]
  have hlen : (st.toList.take sp).length = sp := by simp; omega
  rw [hlen]
  apply List.ext_getElem?
  intro i
  by_cases hi : i < n
  · have h3 : sp - n + i < st.size := by omega
    have h4 : sp - n + i < sp := by omega
    simp [List.getElem?_drop, List.getElem?_take, hi, h3, h4]
  · have h4 : ¬ sp - n + i < sp := by omega
    simp [List.getElem?_drop, List.getElem?_take, hi, h4]

/-! ## the closure objects: `Core/Fn`'s list of captured-value vectors inside the VM's heap -/

/-- cell `id` of `Core/Fn`'s heap of closure objects is the array object `id` of the VM's heap (an
absent object reads as the empty vector: the main program's closure 0); a new object gets the same
id on both sides (`heap.next = h.length`) -/
def HRel (hp : Heap) (h : List (List Val)) : Prop :=
  hp.next = h.length ∧ ∀ id fr, h[id]? = some fr → hp.getArr id = fr

theorem get?_alloc_self (hp : Heap) (o : HObj) : (hp.alloc o).1.get? hp.next = some o := by
  simp [Heap.alloc, Heap.get?]

theorem get?_alloc_other (hp : Heap) (o : HObj) (id : Nat) (hne : id ≠ hp.next) : (hp.alloc o).1.get? id = hp.get? id := by
  have : (hp.next == id) = false := by simpa using fun h => hne h.symm
  simp [Heap.alloc, Heap.get?, List.find?_cons, this]

theorem get?_set (hp : Heap) (id id' : Nat) (o : HObj) :
    (hp.set id o).get? id' = if id' = id then (hp.get? id').map (fun _ => o) else hp.get? id' := by
  simp only [Heap.set, Heap.get?, List.find?_map]
  have hfun : ((fun p : Nat × HObj => p.1 == id') ∘ fun p => if (p.1 == id) = true then (id, o) else p) = (fun p => p.1 == id') := by
    funext p
    by_cases h : p.1 = id <;> simp [h]
  rw [hfun]
  cases hf : hp.objs.find? (fun p => p.1 == id') with
  | none => simp
  | some p =>
    have hp1 : p.1 = id' := by simpa using List.find?_some hf
    by_cases h : id' = id
    · simp [h, ← hp1]
      simp [hp1, h]
    · have : ¬ p.1 = id := by rw [hp1]; exact h
      simp [h, this]

theorem HRel.alloc {hp h} (R : HRel hp h) (fr : List Val) : HRel (hp.alloc (.arr fr)).1 (h ++ [fr]) := by
  obtain ⟨h1, h2⟩ := R
  refine ⟨by simp [Heap.alloc, h1], fun id fr' hid => ?_⟩
  by_cases hlt : id < h.length
  · rw [List.getElem?_append_left hlt] at hid
    have := h2 id fr' hid
    unfold Heap.getArr at this ⊢
    rw [get?_alloc_other hp _ id (by omega)]
    exact this
  · have hge : h.length ≤ id := by omega
    rw [List.getElem?_append_right hge] at hid
    have hid0 : id - h.length = 0 := by
      cases hx : id - h.length with
      | zero => rfl
      | succ k => rw [hx] at hid; simp at hid
    rw [hid0] at hid
    simp at hid
    subst hid
    have : id = hp.next := by omega
    subst this
    unfold Heap.getArr
    rw [get?_alloc_self]

theorem HRel.set {hp h} (R : HRel hp h) {id i : Nat} {fr : List Val} {v : Val} (hid : h[id]? = some fr) (hi : i < fr.length) :
    HRel (hp.set id (.arr (fr.set i v))) (h.set id (fr.set i v)) := by
  obtain ⟨h1, h2⟩ := R
  refine ⟨by simpa [Heap.set] using h1, fun id' fr' hid' => ?_⟩
  unfold Heap.getArr
  rw [get?_set]
  by_cases hx : id' = id
  · subst hx
    have hlt : id' < h.length := by
      cases hlt : decide (id' < h.length) with
      | true => simpa using hlt
      | false =>
        have : h.length ≤ id' := by simpa using hlt
        rw [List.getElem?_eq_none this] at hid
        cases hid
    simp [hlt] at hid'
    subst hid'
    have hg := h2 id' fr hid
    unfold Heap.getArr at hg
    cases hgo : hp.get? id' with
    | none =>
      rw [hgo] at hg
      subst hg
      simp at hi
    | some o => simp
  · simp only [hx, if_false]
    rw [List.getElem?_set_ne (fun h => hx h.symm)] at hid'
    exact h2 id' fr' hid'

/-! ## the simulation relation -/

/-- no `CurrentClosure` in the code (the main program's code: the real compiler emits it only inside
a function that names itself) -/
def noCurr (c : List Instr) : Bool := c.all fun i => match i with | .currClosure => false | _ => true

/-- a frame of `Core/Fn`'s machine and a frame of the VM: the VM frame's function holds the
encoding of the frame's instruction list (every operand fitting its width) and a line table that
covers it, `ip` is the byte offset `pc`, same base pointer, same closure object; the function is the
function constant the machine's frame names (`CurrentClosure` pushes it) — except for code without
`CurrentClosure` (the main program, whose frame in `Core/Fn` carries a dummy function) -/
structure ActRel (a : Act) (f : Frame) : Prop where
  code : f.fn.code = Core.encode a.code
  lines : f.fn.code.length ≤ f.fn.lines.length
  fits : a.code.all Core.fitsI = true
  ip : f.ip = a.pc
  bp : f.bp = a.bp
  cid : f.closId = a.cid
  fd : f.fn = a.fd ∨ noCurr a.code = true

inductive FramesRel : List Act → List Frame → Prop
  | nil : FramesRel [] []
  | cons {a f as fs} : ActRel a f → FramesRel as fs → FramesRel (a :: as) (f :: fs)

theorem FramesRel.length {as fs} (h : FramesRel as fs) : as.length = fs.length := by
  induction h with
  | nil => rfl
  | cons _ _ ih => simp [ih]

/-- every frame but the bottom one was entered by a `Call`: its base pointer is above the callee slot -/
def bpsOk : List Nat → Prop
  | [] => True
  | [_] => True
  | b :: rest => 1 ≤ b ∧ bpsOk rest

def scalars (l : List Val) : Prop := ∀ v ∈ l, scalar v = true

/-- `vs` is the VM state that stands for the state `fs` of the machine with frames, `d` being the
shadow of `fs.stk` (which slots have been written since they became live):

* `frames`  — the frame stacks correspond frame by frame (`ActRel`), innermost first;
* `consts`  — the constant array is the pool `K` (function constants are the same values);
* `stack`   — ONE operand stack: `stack[0 .. sp)` reversed agrees with `fs.stk` on the defined slots
              (`SRel`); a frame's locals are the slots `stack[bp .. bp + numLocals)`;
* `globals` — as in `CoreVm` (`GRel`);
* `heap`    — the closure objects are the VM heap's arrays with the same ids (`HRel`);
* `scalar…` — no value of the pool, the stack, the globals or a closure object is a reference to
              an array / a map (those instructions are excluded: `noHeapI`). -/
structure FRel (K : List Val) (fs : FSt) (d : List Bool) (vs : Vm.St) : Prop where
  frames : FramesRel (fs.act :: fs.callers) vs.frames
  bps : bpsOk ((fs.act :: fs.callers).map (·.bp))
  consts : vs.constants.toList = K
  size : vs.stack.size = stackSize
  stack : SRel vs.stack vs.sp fs.stk d
  globals : GRel vs.globals fs.g
  heap : HRel vs.heap fs.h
  scalarK : scalars K
  scalarS : scalars fs.stk
  scalarG : scalars fs.g
  scalarH : ∀ c ∈ fs.h, scalars c

theorem scalars_cons {v : Val} {l : List Val} (hv : scalar v = true) (hl : scalars l) : scalars (v :: l) := by
  intro x hx
  rcases List.mem_cons.mp hx with rfl | hx
  · exact hv
  · exact hl x hx

theorem scalars_tail {v : Val} {l : List Val} (h : scalars (v :: l)) : scalars l := fun x hx => h x (by simp [hx])
theorem scalars_head {v : Val} {l : List Val} (h : scalars (v :: l)) : scalar v = true := h v (by simp)

theorem scalars_drop {l : List Val} (h : scalars l) (n : Nat) : scalars (l.drop n) :=
  fun x hx => h x (List.mem_of_mem_drop hx)

theorem scalars_take {l : List Val} (h : scalars l) (n : Nat) : scalars (l.take n) :=
  fun x hx => h x (List.mem_of_mem_take hx)

theorem scalars_append {l l' : List Val} (h : scalars l) (h' : scalars l') : scalars (l ++ l') := by
  intro x hx
  rcases List.mem_append.mp hx with hx | hx
  · exact h x hx
  · exact h' x hx

theorem scalars_reverse {l : List Val} (h : scalars l) : scalars l.reverse := fun x hx => h x (by simpa using hx)

theorem scalars_set {l : List Val} (h : scalars l) {v : Val} (hv : scalar v = true) (i : Nat) : scalars (l.set i v) :=
  scalar_set h hv

theorem scalars_replicate_null (n : Nat) : scalars (List.replicate n .null) := by
  intro x hx
  rw [List.eq_of_mem_replicate hx]; rfl

variable {K : List Val} {F : FnDef → Option (List Instr)}
variable {act : Act} {stk g : List Val} {h : List (List Val)} {a : Heap} {callers : List Act} {d : List Bool} {vs : Vm.St}

theorem FRel.next {f : Frame} {rest : List Frame} (R : FRel K ⟨act, stk, g, h, a, callers⟩ d vs)
    (hf : vs.frames = f :: rest) {vs' : St} {pc' : Nat} {stk' g' : List Val} {h' : List (List Val)} {a' : Heap} {d' : List Bool}
    (hfr : vs'.frames = { f with ip := pc' } :: rest) (hc : vs'.constants = vs.constants)
    (hst : SRel vs'.stack vs'.sp stk' d') (hsz : vs'.stack.size = vs.stack.size) (hg : GRel vs'.globals g')
    (hh : HRel vs'.heap h') (hs : scalars stk') (hsg : scalars g') (hsh : ∀ c ∈ h', scalars c) :
    FRel K ⟨{ act with pc := pc' }, stk', g', h', a', callers⟩ d' vs' := by
  have hfs := R.frames
  rw [hf] at hfs
  cases hfs with
  | cons hA hrest =>
    refine ⟨?_, R.bps, by rw [hc]; exact R.consts, by rw [hsz]; exact R.size, hst, hg, hh, R.scalarK, hs, hsg, hsh⟩
    rw [hfr]
    exact .cons ⟨hA.code, hA.lines, hA.fits, rfl, hA.bp, hA.cid, hA.fd⟩ hrest

/-! ## one iteration of the VM's loop, on the top frame -/

theorem setup {i : Instr} (R : FRel K ⟨act, stk, g, h, a, callers⟩ d vs) (hfetch : fetch act.code act.pc = some i) :
    ∃ f rest line pre post, vs.frames = f :: rest ∧ ActRel act f ∧ FramesRel callers rest ∧
      f.fn.code = pre ++ (Core.encodeI i ++ post) ∧ f.ip = pre.length ∧
      act.pc = pre.length ∧ f.fn.lines[f.ip]? = some line ∧ f.ip < f.fn.code.length ∧ Core.fitsI i = true := by
  have hfs := R.frames
  cases hvf : vs.frames with
  | nil => rw [hvf] at hfs; cases hfs
  | cons f rest =>
    rw [hvf] at hfs
    cases hfs with
    | cons hA hrest =>
      obtain ⟨pre, post, he, hpc⟩ := fetch_encode act.code _ i hfetch
      have hlt : f.ip < f.fn.code.length := by
        rw [hA.code, he, hA.ip, hpc]
        have h1 := encodeI_length i
        have h2 := i.size_pos
        simp; omega
      have hl := hA.lines
      exact ⟨f, rest, f.fn.lines[f.ip]'(by omega), pre, post, rfl, hA, hrest, hA.code.trans he, hA.ip.trans hpc, hpc,
        List.getElem?_eq_getElem (by omega), hlt, (List.all_eq_true.mp hA.fits) i (fetch_mem act.code _ i hfetch)⟩

theorem tick_wpe' {f : Frame} {rest : List Frame} {line : Nat} {Q : St → Prop} {E : Res → St → Prop} (hf : vs.frames = f :: rest)
    (hlt : f.ip < f.fn.code.length) (hline : f.fn.lines[f.ip]? = some line)
    (h : wpe (step (opOfByte (f.fn.code.getD f.ip 0)) f.fn.code f.ip line >>= finish) (fun _ s' => Q s') E vs) :
    wpe tick (fun b s' => b = true ∧ Q s') E vs := by
  unfold tick
  rw [wpe_bind] at h
  simp only [wpe_bind, wpe_curFrame, hf, hlt, if_true, hline, wpe_pure, true_and]
  exact h

abbrev Goal (K : List Val) (fs' : FSt) (d' : List Bool) (vs : St) : Prop :=
  wpe tick (fun b s' => b = true ∧ FRel K fs' d' s') noErr vs

/-! ## the side conditions of a step, and the shadow after it -/

/-- arrays, maps and indexing are outside this file (the `_partial` in the names below) -/
def noHeapI : Instr → Bool
  | .array _ | .hmap _ | .getIndex | .setIndex => false
  | _ => true

/-- how many operands an instruction reads from the top of the stack -/
def need : Instr → Nat
  | .pop | .minus | .bang | .bnot | .jif _ | .jifnp _ | .setGlobal _ | .defGlobal _ | .dup
  | .retv | .setLocal _ | .defLocal _ | .setFree _ => 1
  | .op _ => 2
  | .call n => n + 1
  | .closure _ n => n
  | _ => 0

/-- what must hold BEFORE instruction `i` runs in state `s` with shadow `d`: the instruction is
covered; the slots it reads are defined (its operands; the local slot of a `GetLocal`); the callee of
a `Call` is a closure (builtin calls are not covered); at a return the base pointer is inside the stack -/
def preOk (i : Instr) (s : FSt) (d : List Bool) : Bool :=
  noHeapI i && (d.take (need i)).all id &&
  match i with
  | .getLocal x => d.reverse[s.act.bp + x]? == some true
  | .call n => (match s.stk[n]? with | some (.clos ..) => true | _ => false)
  | .retv | .ret => decide (s.act.bp ≤ s.stk.length)
  | _ => true

/-- what must hold AFTER the step: the stack within `STACK_SIZE` (strictly after a `Call`:
`push_frame` refuses `bp + num_locals ≥ STACK_SIZE`), fewer than `MAX_FRAMES` frames below the current one -/
def postOk (i : Instr) (s' : FSt) : Bool :=
  decide (s'.stk.length ≤ stackSize) && decide (s'.callers.length < maxFrames) &&
  match i with
  | .call _ => decide (s'.stk.length < stackSize)
  | _ => true

/-- the shadow after instruction `i`: pushes are defined, a store defines its slot, a call adds
undefined slots for the callee's locals that are not parameters, a return cuts back to `bp - 1` -/
def nextD (i : Instr) (s : FSt) (d : List Bool) : List Bool :=
  match i with
  | .const _ | .tru | .fls | .null | .getGlobal _ | .getLocal _ | .getFree _ | .currClosure | .getBuiltin _ | .dup => true :: d
  | .pop | .jif _ | .defGlobal _ => d.drop 1
  | .op _ => true :: d.drop 2
  | .minus | .bang | .bnot => true :: d.drop 1
  | .setLocal x => (d.reverse.set (s.act.bp + x) true).reverse
  | .defLocal x => ((d.drop 1).reverse.set (s.act.bp + x) true).reverse
  | .closure _ n => true :: d.drop n
  | .call n =>
    (match s.stk[n]? with
     | some (.clos fd _ _) => List.replicate (fd.numLocals - n) false ++ d
     | _ => d)
  | .retv | .ret => true :: d.drop (d.length - (s.act.bp - 1))
  | _ => d

set_option hygiene false in
macro "fv_pre" : tactic => `(tactic| (
  obtain ⟨f, rest, line, pre, post, hf, hA, hrest, hcode, hip, hpc, hline, hlt, hfi⟩ := setup R hfetch
  have hipc := hA.ip
  refine tick_wpe' hf hlt hline ?_))

theorem post_stk {i : Instr} {s' : FSt} (h : postOk i s' = true) : s'.stk.length ≤ stackSize := by
  simp only [postOk, Bool.and_eq_true, decide_eq_true_eq] at h
  exact h.1.1

theorem room_of {st : Array Val} {sp : Nat} {v : Val} {stk : List Val} {d : List Bool} (hst : SRel st sp stk d) (hsz : st.size = stackSize)
    (hb : (v :: stk).length ≤ stackSize) : sp < st.size := by
  have := hst.length.1
  simp at hb
  omega

variable {fs' : FSt}

theorem step_const {idx : Nat} (R : FRel K ⟨act, stk, g, h, a, callers⟩ d vs) (hfetch : fetch act.code act.pc = some (.const idx))
    (hstep : fstep K F ⟨act, stk, g, h, a, callers⟩ = some fs') (hpost : postOk (.const idx) fs' = true) :
    Goal K fs' (true :: d) vs := by
  fv_pre
  rw [encodeI_const] at hcode
  have hnm := opname (b := 0) (name := "Constant") hcode hip rfl rfl
  obtain ⟨h1, h2⟩ := operands16 hcode hip
  unfold step; simp only [hnm]
  unfold fstep at hstep
  simp only [hfetch, Core.step] at hstep
  cases hk : K[idx]? with
  | none => simp [hk] at hstep
  | some v =>
    simp only [hk, Option.map_some, Option.some.injEq] at hstep
    subst hstep
    have hkc : vs.constants[idx]? = some v := by
      rw [← R.consts] at hk; simpa using hk
    have hsp := room_of R.stack R.size (post_stk hpost)
    simp only [wpe_bind, wpe_readU16 _ _ _ _ _ _ _ h1 h2, wpe_get, dec16 (fits16 hfi), hkc, wpe_push, wpe_setIp,
      wpe_pure, finish, wpe_curFrame, withIp, hf, hsp, ↓reduceIte]
    exact R.next hf (by rw [hipc]) rfl (R.stack.push hsp v) (by simp) R.globals R.heap
      (scalars_cons (R.scalarK _ (List.mem_of_getElem? hk)) R.scalarS) R.scalarG R.scalarH

theorem step_pop (R : FRel K ⟨act, stk, g, h, a, callers⟩ d vs) (hfetch : fetch act.code act.pc = some .pop)
    (hstep : fstep K F ⟨act, stk, g, h, a, callers⟩ = some fs') (hpre : preOk .pop ⟨act, stk, g, h, a, callers⟩ d = true) :
    Goal K fs' (d.drop 1) vs := by
  fv_pre
  have hnm := opname (b := 1) (name := "Pop") hcode hip rfl rfl
  unfold step; simp only [hnm]
  unfold fstep at hstep
  simp only [hfetch, Core.step] at hstep
  simp only [preOk, need, noHeapI, Bool.and_eq_true, Bool.true_and, Bool.and_true] at hpre
  cases stk with
  | nil => simp at hstep
  | cons v rest =>
    simp at hstep
    subst hstep
    obtain ⟨n1, e1, s1⟩ := R.stack.pop hpre
    simp only [wpe_bind, wpe_pop, wpe_pure, finish, wpe_curFrame, wpe_setIp, withIp, hf, n1, ↓reduceIte]
    exact R.next hf (by rw [hipc]) rfl s1 rfl R.globals R.heap (scalars_tail R.scalarS) R.scalarG R.scalarH

theorem preOk_need {i : Instr} {s : FSt} {d : List Bool} (h : preOk i s d = true) : (d.take (need i)).all id = true := by
  simp only [preOk, Bool.and_eq_true] at h
  exact h.1.2

/-- the arms `push v; pure .advance` -/
theorem push_arm {f : Frame} {rest : List Frame} (R : FRel K ⟨act, stk, g, h, a, callers⟩ d vs) (hf : vs.frames = f :: rest)
    (hipc : f.ip = act.pc) (v : Val) (line : Nat) (hv : scalar v = true) (hb : (v :: stk).length ≤ stackSize) :
    wpe ((do push v line; pure Next.advance) >>= finish)
      (fun _ s' => FRel K ⟨{ act with pc := act.pc + 1 }, v :: stk, g, h, a, callers⟩ (true :: d) s') noErr vs := by
  have hsp := room_of R.stack R.size hb
  simp only [wpe_bind, wpe_push, wpe_pure, finish, wpe_curFrame, wpe_setIp, withIp, hf, hsp, ↓reduceIte]
  exact R.next hf (by rw [hipc]) rfl (R.stack.push hsp v) (by simp) R.globals R.heap (scalars_cons hv R.scalarS) R.scalarG R.scalarH

theorem step_tru (R : FRel K ⟨act, stk, g, h, a, callers⟩ d vs) (hfetch : fetch act.code act.pc = some .tru)
    (hstep : fstep K F ⟨act, stk, g, h, a, callers⟩ = some fs') (hpost : postOk .tru fs' = true) : Goal K fs' (true :: d) vs := by
  fv_pre
  have hnm := opname (b := 7) (name := "True") hcode hip rfl rfl
  unfold step; simp only [hnm]
  unfold fstep at hstep
  simp [hfetch, Core.step] at hstep
  subst hstep
  exact push_arm R hf hipc _ line rfl (post_stk hpost)

theorem step_fls (R : FRel K ⟨act, stk, g, h, a, callers⟩ d vs) (hfetch : fetch act.code act.pc = some .fls)
    (hstep : fstep K F ⟨act, stk, g, h, a, callers⟩ = some fs') (hpost : postOk .fls fs' = true) : Goal K fs' (true :: d) vs := by
  fv_pre
  have hnm := opname (b := 8) (name := "False") hcode hip rfl rfl
  unfold step; simp only [hnm]
  unfold fstep at hstep
  simp [hfetch, Core.step] at hstep
  subst hstep
  exact push_arm R hf hipc _ line rfl (post_stk hpost)

theorem step_null (R : FRel K ⟨act, stk, g, h, a, callers⟩ d vs) (hfetch : fetch act.code act.pc = some .null)
    (hstep : fstep K F ⟨act, stk, g, h, a, callers⟩ = some fs') (hpost : postOk .null fs' = true) : Goal K fs' (true :: d) vs := by
  fv_pre
  have hnm := opname (b := 18) (name := "Null") hcode hip rfl rfl
  unfold step; simp only [hnm]
  unfold fstep at hstep
  simp [hfetch, Core.step] at hstep
  subst hstep
  exact push_arm R hf hipc _ line rfl (post_stk hpost)

theorem step_dup (R : FRel K ⟨act, stk, g, h, a, callers⟩ d vs) (hfetch : fetch act.code act.pc = some .dup)
    (hstep : fstep K F ⟨act, stk, g, h, a, callers⟩ = some fs') (hpre : preOk .dup ⟨act, stk, g, h, a, callers⟩ d = true)
    (hpost : postOk .dup fs' = true) : Goal K fs' (true :: d) vs := by
  fv_pre
  have hnm := opname (b := 44) (name := "Dup") hcode hip rfl rfl
  unfold step; simp only [hnm]
  unfold fstep at hstep
  simp only [hfetch, Core.step] at hstep
  have hd := preOk_need hpre
  cases stk with
  | nil => simp at hstep
  | cons v rest' =>
    simp at hstep
    subst hstep
    obtain ⟨n1, e1, s1⟩ := R.stack.pop hd
    have hsp := room_of R.stack R.size (post_stk hpost)
    simp only [wpe_bind, wpe_peek0, wpe_push, wpe_pure, finish, wpe_curFrame, wpe_setIp, withIp, hf, n1, e1, hsp, ↓reduceIte]
    exact R.next hf (by rw [hipc]) rfl (R.stack.push hsp v) (by simp) R.globals R.heap
      (scalars_cons (scalars_head R.scalarS) R.scalarS) R.scalarG R.scalarH

theorem drop1_cons {d : List Bool} (hd : (d.take 1).all id = true) (hne : d ≠ []) : true :: d.drop 1 = d := by
  cases d with
  | nil => exact absurd rfl hne
  | cons b bs => simp at hd; simp [hd]

theorem step_minus (R : FRel K ⟨act, stk, g, h, a, callers⟩ d vs) (hfetch : fetch act.code act.pc = some .minus)
    (hstep : fstep K F ⟨act, stk, g, h, a, callers⟩ = some fs') (hpre : preOk .minus ⟨act, stk, g, h, a, callers⟩ d = true) :
    Goal K fs' (true :: d.drop 1) vs := by
  fv_pre
  have hnm := opname (b := 13) (name := "Minus") hcode hip rfl rfl
  unfold step; simp only [hnm]
  unfold fstep at hstep
  simp only [hfetch, Core.step] at hstep
  have hd := preOk_need hpre
  cases stk with
  | nil => simp at hstep
  | cons v rest' =>
    simp only at hstep
    cases hx : unaryMinus v with
    | err m => rw [hx] at hstep; simp at hstep
    | panic m => rw [hx] at hstep; simp at hstep
    | ok w =>
      rw [hx] at hstep; simp at hstep
      subst hstep
      obtain ⟨n1, e1, s1⟩ := R.stack.pop hd
      have hroom : vs.sp - 1 < vs.stack.size := by have := R.stack.1; omega
      have hnum := unaryMinus_isNumber hx
      have hw := unaryMinus_scalar hx
      simp only [wpe_bind, wpe_peek0, wpe_ite, wpe_rtErr, wpe_pop, wpe_ofOpRes, wpe_push, wpe_pure, finish,
        wpe_curFrame, wpe_setIp, withIp, hf, n1, e1, hnum, hx, reflect_scalar _ _ hw, hroom, ↓reduceIte,
        Bool.not_true, Bool.false_eq_true]
      have hsp1 : vs.sp - 1 + 1 = vs.sp := by omega
      refine R.next hf (by rw [hipc]) rfl (s1.push hroom w) (by simp) R.globals R.heap
        (scalars_cons hw (scalars_tail R.scalarS)) R.scalarG R.scalarH

theorem step_bnot (R : FRel K ⟨act, stk, g, h, a, callers⟩ d vs) (hfetch : fetch act.code act.pc = some .bnot)
    (hstep : fstep K F ⟨act, stk, g, h, a, callers⟩ = some fs') (hpre : preOk .bnot ⟨act, stk, g, h, a, callers⟩ d = true) :
    Goal K fs' (true :: d.drop 1) vs := by
  fv_pre
  have hnm := opname (b := 38) (name := "Not") hcode hip rfl rfl
  unfold step; simp only [hnm]
  unfold fstep at hstep
  simp only [hfetch, Core.step] at hstep
  have hd := preOk_need hpre
  cases stk with
  | nil => simp at hstep
  | cons v rest' =>
    simp only at hstep
    cases hx : unaryNot v with
    | err m => rw [hx] at hstep; simp at hstep
    | panic m => rw [hx] at hstep; simp at hstep
    | ok w =>
      rw [hx] at hstep; simp at hstep
      subst hstep
      obtain ⟨n1, e1, s1⟩ := R.stack.pop hd
      have hroom : vs.sp - 1 < vs.stack.size := by have := R.stack.1; omega
      have hw := unaryNot_scalar hx
      simp only [wpe_bind, wpe_pop, wpe_ofOpRes, wpe_push, wpe_pure, finish,
        wpe_curFrame, wpe_setIp, withIp, hf, n1, e1, hx, reflect_scalar _ _ hw, hroom, ↓reduceIte]
      exact R.next hf (by rw [hipc]) rfl (s1.push hroom w) (by simp) R.globals R.heap
        (scalars_cons hw (scalars_tail R.scalarS)) R.scalarG R.scalarH

theorem falseyH_scalar (a : Heap) {v : Val} (hv : scalar v = true) : falseyH a v = v.isFalsey := by
  cases v <;> first | rfl | simp [scalar] at hv

theorem step_bang (R : FRel K ⟨act, stk, g, h, a, callers⟩ d vs) (hfetch : fetch act.code act.pc = some .bang)
    (hstep : fstep K F ⟨act, stk, g, h, a, callers⟩ = some fs') (hpre : preOk .bang ⟨act, stk, g, h, a, callers⟩ d = true) :
    Goal K fs' (true :: d.drop 1) vs := by
  fv_pre
  have hnm := opname (b := 14) (name := "Bang") hcode hip rfl rfl
  unfold step; simp only [hnm]
  unfold fstep at hstep
  simp only [hfetch] at hstep
  have hd := preOk_need hpre
  cases stk with
  | nil => simp at hstep
  | cons v rest' =>
    simp at hstep
    subst hstep
    obtain ⟨n1, e1, s1⟩ := R.stack.pop hd
    have hroom : vs.sp - 1 < vs.stack.size := by have := R.stack.1; omega
    have hv : scalar v = true := scalars_head R.scalarS
    simp only [wpe_bind, wpe_pop, wpe_reifyM, wpe_push, wpe_pure, finish,
      wpe_curFrame, wpe_setIp, withIp, hf, n1, e1, reify_scalar _ _ hv, hroom, ↓reduceIte]
    rw [falseyH_scalar a hv]
    exact R.next hf (by rw [hipc]) rfl (s1.push hroom _) (by simp) R.globals R.heap
      (scalars_cons rfl (scalars_tail R.scalarS)) R.scalarG R.scalarH

theorem step_jump {t : Nat} (R : FRel K ⟨act, stk, g, h, a, callers⟩ d vs) (hfetch : fetch act.code act.pc = some (.jump t))
    (hstep : fstep K F ⟨act, stk, g, h, a, callers⟩ = some fs') : Goal K fs' d vs := by
  fv_pre
  rw [encodeI_jump] at hcode
  have hnm := opname (b := 15) (name := "Jump") hcode hip rfl rfl
  obtain ⟨h1, h2⟩ := operands16 hcode hip
  unfold step; simp only [hnm]
  unfold fstep at hstep
  simp [hfetch, Core.step] at hstep
  subst hstep
  simp only [wpe_bind, wpe_readU16 _ _ _ _ _ _ _ h1 h2, dec16 (fits16 hfi), wpe_setIp, wpe_pure, finish, withIp, hf]
  exact R.next hf rfl rfl R.stack rfl R.globals R.heap R.scalarS R.scalarG R.scalarH

theorem step_jif {t : Nat} (R : FRel K ⟨act, stk, g, h, a, callers⟩ d vs) (hfetch : fetch act.code act.pc = some (.jif t))
    (hstep : fstep K F ⟨act, stk, g, h, a, callers⟩ = some fs') (hpre : preOk (.jif t) ⟨act, stk, g, h, a, callers⟩ d = true) :
    Goal K fs' (d.drop 1) vs := by
  fv_pre
  rw [encodeI_jif] at hcode
  have hnm := opname (b := 16) (name := "JumpIfFalse") hcode hip rfl rfl
  obtain ⟨h1, h2⟩ := operands16 hcode hip
  unfold step; simp only [hnm]
  unfold fstep at hstep
  simp only [hfetch] at hstep
  have hd := preOk_need hpre
  cases stk with
  | nil => simp at hstep
  | cons v rest' =>
    simp at hstep
    subst hstep
    obtain ⟨n1, e1, s1⟩ := R.stack.pop hd
    have hv : scalar v = true := scalars_head R.scalarS
    simp only [wpe_bind, wpe_readU16 _ _ _ _ _ _ _ h1 h2, dec16 (fits16 hfi), wpe_setIp, wpe_pop, wpe_reifyM,
      withIp, hf, n1, e1, reify_scalar _ _ hv, ↓reduceIte]
    rw [falseyH_scalar a hv]
    by_cases hfal : v.isFalsey = true
    · simp only [hfal, ↓reduceIte, wpe_bind, wpe_setIp, wpe_pure, finish, withIp]
      exact R.next hf rfl rfl s1 rfl R.globals R.heap (scalars_tail R.scalarS) R.scalarG R.scalarH
    · simp only [hfal, Bool.false_eq_true, ↓reduceIte, wpe_bind, wpe_setIp, wpe_pure, finish, withIp, wpe_curFrame]
      exact R.next hf (by rw [hipc]) rfl s1 rfl R.globals R.heap (scalars_tail R.scalarS) R.scalarG R.scalarH

theorem step_jifnp {t : Nat} (R : FRel K ⟨act, stk, g, h, a, callers⟩ d vs) (hfetch : fetch act.code act.pc = some (.jifnp t))
    (hstep : fstep K F ⟨act, stk, g, h, a, callers⟩ = some fs') (hpre : preOk (.jifnp t) ⟨act, stk, g, h, a, callers⟩ d = true) :
    Goal K fs' d vs := by
  fv_pre
  rw [encodeI_jifnp] at hcode
  have hnm := opname (b := 17) (name := "JumpIfFalseNoPop") hcode hip rfl rfl
  obtain ⟨h1, h2⟩ := operands16 hcode hip
  unfold step; simp only [hnm]
  unfold fstep at hstep
  simp only [hfetch] at hstep
  have hd := preOk_need hpre
  cases stk with
  | nil => simp at hstep
  | cons v rest' =>
    simp at hstep
    subst hstep
    obtain ⟨n1, e1, s1⟩ := R.stack.pop hd
    have hv : scalar v = true := scalars_head R.scalarS
    simp only [wpe_bind, wpe_readU16 _ _ _ _ _ _ _ h1 h2, dec16 (fits16 hfi), wpe_setIp, wpe_top0, wpe_reifyM,
      withIp, hf, n1, e1, reify_scalar _ _ hv, ↓reduceIte]
    rw [falseyH_scalar a hv]
    by_cases hfal : v.isFalsey = true
    · simp only [hfal, ↓reduceIte, wpe_bind, wpe_setIp, wpe_pure, finish, withIp]
      exact R.next hf rfl rfl R.stack rfl R.globals R.heap R.scalarS R.scalarG R.scalarH
    · simp only [hfal, Bool.false_eq_true, ↓reduceIte, wpe_bind, wpe_setIp, wpe_pure, finish, withIp, wpe_curFrame]
      exact R.next hf (by rw [hipc]) rfl R.stack rfl R.globals R.heap R.scalarS R.scalarG R.scalarH

theorem step_getGlobal {i : Nat} (R : FRel K ⟨act, stk, g, h, a, callers⟩ d vs) (hfetch : fetch act.code act.pc = some (.getGlobal i))
    (hstep : fstep K F ⟨act, stk, g, h, a, callers⟩ = some fs') (hpost : postOk (.getGlobal i) fs' = true) :
    Goal K fs' (true :: d) vs := by
  fv_pre
  rw [encodeI_getGlobal] at hcode
  have hnm := opname (b := 20) (name := "GetGlobal") hcode hip rfl rfl
  obtain ⟨h1, h2⟩ := operands16 hcode hip
  unfold step; simp only [hnm]
  unfold fstep at hstep
  simp [hfetch, Core.step] at hstep
  subst hstep
  have hsp := room_of R.stack R.size (post_stk hpost)
  have hroom := globals_room R.globals (fits16 hfi)
  have hget : vs.globals.getD i .null = g[i]?.getD .null := (R.globals.2.2 i).trans (List.getD_eq_getElem?_getD ..)
  simp only [wpe_bind, wpe_readU16 _ _ _ _ _ _ _ h1 h2, dec16 (fits16 hfi), wpe_setIp, wpe_get, wpe_ite, wpe_panicM,
    wpe_push, wpe_pure, finish, wpe_curFrame, withIp, hf, hroom, hsp, hget, ↓reduceIte]
  refine R.next hf (by rw [hipc]) rfl (R.stack.push hsp _) (by simp) R.globals R.heap (scalars_cons ?_ R.scalarS) R.scalarG R.scalarH
  cases hgi : g[i]? with
  | none => rfl
  | some w => exact R.scalarG w (List.mem_of_getElem? hgi)

theorem step_setGlobal {i : Nat} (R : FRel K ⟨act, stk, g, h, a, callers⟩ d vs) (hfetch : fetch act.code act.pc = some (.setGlobal i))
    (hstep : fstep K F ⟨act, stk, g, h, a, callers⟩ = some fs') (hpre : preOk (.setGlobal i) ⟨act, stk, g, h, a, callers⟩ d = true) :
    Goal K fs' d vs := by
  fv_pre
  rw [encodeI_setGlobal] at hcode
  have hnm := opname (b := 21) (name := "SetGlobal") hcode hip rfl rfl
  obtain ⟨h1, h2⟩ := operands16 hcode hip
  unfold step; simp only [hnm]
  unfold fstep at hstep
  simp only [hfetch, Core.step] at hstep
  have hd := preOk_need hpre
  cases stk with
  | nil => simp at hstep
  | cons v rest' =>
    by_cases hi : i < g.length
    case neg => simp [hi] at hstep
    simp [hi] at hstep
    subst hstep
    obtain ⟨n1, e1, s1⟩ := R.stack.pop hd
    have hroom := globals_room R.globals (fits16 hfi)
    have hv : scalar v = true := scalars_head R.scalarS
    simp only [wpe_bind, wpe_readU16 _ _ _ _ _ _ _ h1 h2, dec16 (fits16 hfi), wpe_setIp, wpe_top0, wpe_get, wpe_ite,
      wpe_panicM, wpe_set, wpe_pure, finish, wpe_curFrame, withIp, hf, hroom, n1, e1, ↓reduceIte]
    exact R.next hf (by rw [hipc]) rfl R.stack rfl (R.globals.set hi v) R.heap R.scalarS (scalar_set R.scalarG hv) R.scalarH

theorem step_defGlobal {i : Nat} (R : FRel K ⟨act, stk, g, h, a, callers⟩ d vs) (hfetch : fetch act.code act.pc = some (.defGlobal i))
    (hstep : fstep K F ⟨act, stk, g, h, a, callers⟩ = some fs') (hpre : preOk (.defGlobal i) ⟨act, stk, g, h, a, callers⟩ d = true) :
    Goal K fs' (d.drop 1) vs := by
  fv_pre
  rw [encodeI_defGlobal] at hcode
  have hnm := opname (b := 19) (name := "DefineGlobal") hcode hip rfl rfl
  obtain ⟨h1, h2⟩ := operands16 hcode hip
  unfold step; simp only [hnm]
  unfold fstep at hstep
  simp only [hfetch, Core.step] at hstep
  have hd := preOk_need hpre
  cases stk with
  | nil => simp at hstep
  | cons v rest' =>
    by_cases hi : i < g.length
    case neg => simp [hi] at hstep
    simp [hi] at hstep
    subst hstep
    obtain ⟨n1, e1, s1⟩ := R.stack.pop hd
    have hroom := globals_room R.globals (fits16 hfi)
    have hv : scalar v = true := scalars_head R.scalarS
    simp only [wpe_bind, wpe_readU16 _ _ _ _ _ _ _ h1 h2, dec16 (fits16 hfi), wpe_setIp, wpe_pop, wpe_get, wpe_ite,
      wpe_panicM, wpe_set, wpe_pure, finish, wpe_curFrame, withIp, hf, hroom, n1, e1, ↓reduceIte]
    exact R.next hf (by rw [hipc]) rfl s1 rfl (R.globals.set hi v) R.heap (scalars_tail R.scalarS) (scalar_set R.scalarG hv) R.scalarH

/-! ### operators -/

theorem opH_scalar (a : Heap) {o : Operator} {l r : Val} (hl : scalar l = true) (hr : scalar r = true) :
    (∃ v, execOperator o l r = .ok v ∧ opH a o l r = .same v) ∨ opH a o l r = .fail := by
  unfold opH cmpH view
  simp only [reify_scalar _ _ hl, reify_scalar _ _ hr]
  cases hx : execOperator o l r with
  | ok v =>
    left
    have hs := execOperator_scalar hl hr hx
    cases v with
    | bool b => cases b <;> exact ⟨_, rfl, rfl⟩
    | arr => simp [scalar] at hs
    | map => simp [scalar] at hs
    | _ => exact ⟨_, rfl, rfl⟩
  | err m => right; rfl
  | panic m => right; rfl

/-- what an arm made of stack operations only leaves behind -/
structure Eff (vs vs' : St) (stk' : List Val) (d' : List Bool) : Prop where
  frames : vs'.frames = vs.frames
  constants : vs'.constants = vs.constants
  globals : vs'.globals = vs.globals
  heap : vs'.heap = vs.heap
  size : vs'.stack.size = vs.stack.size
  stack : SRel vs'.stack vs'.sp stk' d'

theorem advance_eff {stk' : List Val} {d' : List Bool} {f : Frame} {rest : List Frame} {s' : St}
    (R : FRel K ⟨act, stk, g, h, a, callers⟩ d vs) (hf : vs.frames = f :: rest) (hipc : f.ip = act.pc)
    (he : Eff vs s' stk' d') (hs : scalars stk') :
    wpe (pure Next.advance >>= finish) (fun _ s'' => FRel K ⟨{ act with pc := act.pc + 1 }, stk', g, h, a, callers⟩ d' s'') noErr s' := by
  have hfr : s'.frames = f :: rest := he.frames.trans hf
  simp only [wpe_bind, wpe_pure, finish, wpe_curFrame, hfr, wpe_setIp, withIp]
  refine R.next hf (by rw [hipc]) he.constants he.stack he.size ?_ ?_ hs R.scalarG R.scalarH
  · show GRel s'.globals g
    rw [he.globals]; exact R.globals
  · show HRel s'.heap h
    rw [he.heap]; exact R.heap

theorem eff_binaryVm_ok {r l v : Val} {rest : List Val} {k : BinKind} {line : Nat}
    (hst : SRel vs.stack vs.sp (r :: l :: rest) d) (hd : (d.take 2).all id = true) (hr : scalar r = true) (hl : scalar l = true)
    (hb : binaryOp k l r = .ok v) :
    wpe (binaryVm k line) (fun _ s' => Eff vs s' (v :: rest) (true :: d.drop 2)) noErr vs := by
  obtain ⟨hd1, hd2⟩ := all_take_succ hd
  obtain ⟨n1, e1, s1⟩ := hst.pop hd1
  obtain ⟨n2, e2, s2⟩ := s1.pop hd2
  have hv := binaryOp_scalar hl hr hb
  have hroom : vs.sp - 1 - 1 < vs.stack.size := by have := hst.1; omega
  simp only [binaryVm, wpe_bind, wpe_pop, wpe_reifyM, wpe_ofOpRes, wpe_push, n1, n2, ↓reduceIte, e1, e2,
    reify_scalar _ _ hr, reify_scalar _ _ hl, hb, reflect_scalar _ _ hv, hroom]
  refine ⟨rfl, rfl, rfl, rfl, by simp, ?_⟩
  have := s2.push hroom v
  simpa [List.drop_drop] using this

theorem eff_bitwiseVm_ok {r l v : Val} {rest : List Val} {op : BitOp} {line : Nat}
    (hst : SRel vs.stack vs.sp (r :: l :: rest) d) (hd : (d.take 2).all id = true) (hb : bitwiseOp op l r = .ok v) :
    wpe (bitwiseVm op line) (fun _ s' => Eff vs s' (v :: rest) (true :: d.drop 2)) noErr vs := by
  obtain ⟨hd1, hd2⟩ := all_take_succ hd
  obtain ⟨n1, e1, s1⟩ := hst.pop hd1
  obtain ⟨n2, e2, s2⟩ := s1.pop hd2
  have hv := bitwiseOp_scalar hb
  have hroom : vs.sp - 1 - 1 < vs.stack.size := by have := hst.1; omega
  simp only [bitwiseVm, wpe_bind, wpe_pop, wpe_ofOpRes, wpe_push, n1, n2, ↓reduceIte, e1, e2,
    hb, reflect_scalar _ _ hv, hroom]
  refine ⟨rfl, rfl, rfl, rfl, by simp, ?_⟩
  have := s2.push hroom v
  simpa [List.drop_drop] using this

set_option hygiene false in
macro "fv_op" nm:str "," b:num "," eff:term : tactic => `(tactic| (
  have hnm := opname (b := $b) (name := $nm) hcode hip rfl rfl
  unfold step; simp only [hnm]
  simp only [execOperator] at hexec
  rw [wpe_bind, wpe_bind]
  refine wpe_mono $eff ?_ (fun _ _ h => h)
  intro _ s' he
  exact advance_eff R hf hipc he hsc))

theorem step_op {o : Operator} (R : FRel K ⟨act, stk, g, h, a, callers⟩ d vs) (hfetch : fetch act.code act.pc = some (.op o))
    (hstep : fstep K F ⟨act, stk, g, h, a, callers⟩ = some fs') (hpre : preOk (.op o) ⟨act, stk, g, h, a, callers⟩ d = true) :
    Goal K fs' (true :: d.drop 2) vs := by
  fv_pre
  unfold fstep at hstep
  simp only [hfetch] at hstep
  have hd : (d.take 2).all id = true := preOk_need hpre
  match stk, R, hstep with
  | [], _, hstep => simp at hstep
  | [_], _, hstep => simp at hstep
  | r :: l :: rest', R, hstep =>
    simp only at hstep
    have hr : scalar r = true := R.scalarS r (by simp)
    have hl : scalar l = true := R.scalarS l (by simp)
    have hrest : scalars rest' := scalars_tail (scalars_tail R.scalarS)
    rcases opH_scalar a (o := o) hl hr with ⟨v, hexec, hsame⟩ | hfail
    case inr => rw [hfail] at hstep; simp at hstep
    rw [hsame] at hstep
    simp at hstep
    subst hstep
    have hsc : scalars (v :: rest') := scalars_cons (execOperator_scalar hl hr hexec) hrest
    cases o
    case add => fv_op "Add", 2, (eff_binaryVm_ok R.stack hd hr hl hexec)
    case sub => fv_op "Sub", 3, (eff_binaryVm_ok R.stack hd hr hl hexec)
    case mul => fv_op "Mul", 4, (eff_binaryVm_ok R.stack hd hr hl hexec)
    case div => fv_op "Div", 5, (eff_binaryVm_ok R.stack hd hr hl hexec)
    case mod => fv_op "Mod", 6, (eff_binaryVm_ok R.stack hd hr hl hexec)
    case greater => fv_op "Greater", 11, (eff_binaryVm_ok R.stack hd hr hl hexec)
    case greaterEq => fv_op "GreaterEq", 12, (eff_binaryVm_ok R.stack hd hr hl hexec)
    case band => fv_op "And", 39, (eff_bitwiseVm_ok R.stack hd hexec)
    case bor => fv_op "Or", 40, (eff_bitwiseVm_ok R.stack hd hexec)
    case bxor => fv_op "Xor", 41, (eff_bitwiseVm_ok R.stack hd hexec)
    case shl => fv_op "ShiftLeft", 42, (eff_bitwiseVm_ok R.stack hd hexec)
    case shr => fv_op "ShiftRight", 43, (eff_bitwiseVm_ok R.stack hd hexec)
    case equal =>
      have hnm := opname (b := 9) (name := "Equal") hcode hip rfl rfl
      unfold step; simp only [hnm]
      simp only [execOperator] at hexec
      cases hexec
      obtain ⟨hd1, hd2⟩ := all_take_succ hd
      obtain ⟨n1, e1, s1⟩ := R.stack.pop hd1
      obtain ⟨n2, e2, s2⟩ := s1.pop hd2
      have hroom : vs.sp - 1 - 1 < vs.stack.size := by have := R.stack.1; omega
      simp only [wpe_bind, wpe_pop, wpe_reifyM, wpe_push, wpe_pure, finish, wpe_curFrame, wpe_setIp, withIp, hf,
        n1, n2, ↓reduceIte, e1, e2, reify_scalar _ _ hr, reify_scalar _ _ hl, hroom]
      refine R.next hf (by rw [hipc]) rfl ?_ (by simp) R.globals R.heap hsc R.scalarG R.scalarH
      have := s2.push hroom (.bool (l.eq r))
      simpa [List.drop_drop] using this
    case notEqual =>
      have hnm := opname (b := 10) (name := "NotEqual") hcode hip rfl rfl
      unfold step; simp only [hnm]
      simp only [execOperator] at hexec
      cases hexec
      obtain ⟨hd1, hd2⟩ := all_take_succ hd
      obtain ⟨n1, e1, s1⟩ := R.stack.pop hd1
      obtain ⟨n2, e2, s2⟩ := s1.pop hd2
      have hroom : vs.sp - 1 - 1 < vs.stack.size := by have := R.stack.1; omega
      simp only [wpe_bind, wpe_pop, wpe_reifyM, wpe_push, wpe_pure, finish, wpe_curFrame, wpe_setIp, withIp, hf,
        n1, n2, ↓reduceIte, e1, e2, reify_scalar _ _ hr, reify_scalar _ _ hl, hroom]
      refine R.next hf (by rw [hipc]) rfl ?_ (by simp) R.globals R.heap hsc R.scalarG R.scalarH
      have := s2.push hroom (.bool (!(l.eq r)))
      simpa [List.drop_drop] using this

/-! ### locals, closures, captured values -/

theorem wpe_readU8 (E : Res → St → Prop) (s : St) (code : List Nat) (pos x : Nat) (Q : Nat → St → Prop)
    (hx : code[pos]? = some x) : wpe (readU8 code pos) Q E s ↔ Q x s := by
  unfold readU8
  rw [hx]
  simp only [wpe_pure]

theorem enc2 (b n : Nat) : b :: (beBytes 1 (n % 2 ^ 8) ++ []) = [b, n % 256] := by simp [beBytes]
theorem enc4 (b c n : Nat) : b :: (beBytes 2 (c % 2 ^ 16) ++ (beBytes 1 (n % 2 ^ 8) ++ [])) =
    [b, c % 65536 / 256 % 256, c % 65536 % 256, n % 256] := by simp [beBytes]
theorem encodeI_call (n : Nat) : Core.encodeI (.call n) = [26, n % 256] := enc2 26 n
theorem encodeI_defLocal (n : Nat) : Core.encodeI (.defLocal n) = [29, n % 256] := enc2 29 n
theorem encodeI_getLocal (n : Nat) : Core.encodeI (.getLocal n) = [30, n % 256] := enc2 30 n
theorem encodeI_setLocal (n : Nat) : Core.encodeI (.setLocal n) = [31, n % 256] := enc2 31 n
theorem encodeI_getBuiltin (n : Nat) : Core.encodeI (.getBuiltin n) = [32, n % 256] := enc2 32 n
theorem encodeI_getFree (n : Nat) : Core.encodeI (.getFree n) = [35, n % 256] := enc2 35 n
theorem encodeI_setFree (n : Nat) : Core.encodeI (.setFree n) = [36, n % 256] := enc2 36 n
theorem encodeI_closure (c n : Nat) : Core.encodeI (.closure c n) = [34, c % 65536 / 256 % 256, c % 65536 % 256, n % 256] := enc4 34 c n

theorem fits8 {n : Nat} (h : (decide (n < 256 ^ 1) && true) = true) : n < 256 := by simpa using h

theorem operand8 {code pre post : List Nat} {ip b n : Nat} (hcode : code = pre ++ ([b, n % 256] ++ post)) (hip : ip = pre.length)
    (hn : n < 256) : code[ip + 1]? = some n := by
  rw [byte_at hcode hip 1 (by simp)]
  simp [Nat.mod_eq_of_lt hn]

theorem botGet_mem {l : List Val} {j : Nat} {v : Val} (h : botGet l j = some v) : v ∈ l := by
  unfold botGet at h
  simpa using List.mem_of_getElem? h

theorem scalars_botSet {l : List Val} (hl : scalars l) {v : Val} (hv : scalar v = true) (p : Nat) : scalars (botSet l p v) := by
  unfold botSet
  exact scalars_reverse (scalars_set (scalars_reverse hl) hv p)

theorem step_getLocal {x : Nat} (R : FRel K ⟨act, stk, g, h, a, callers⟩ d vs) (hfetch : fetch act.code act.pc = some (.getLocal x))
    (hstep : fstep K F ⟨act, stk, g, h, a, callers⟩ = some fs') (hpre : preOk (.getLocal x) ⟨act, stk, g, h, a, callers⟩ d = true)
    (hpost : postOk (.getLocal x) fs' = true) : Goal K fs' (true :: d) vs := by
  fv_pre
  rw [encodeI_getLocal] at hcode
  have hnm := opname (b := 30) (name := "GetLocal") hcode hip rfl rfl
  have h1 := operand8 hcode hip (fits8 hfi)
  unfold step; simp only [hnm]
  unfold fstep at hstep
  simp only [hfetch] at hstep
  have hdx : d.reverse[act.bp + x]? = some true := by
    simp only [preOk, Bool.and_eq_true, beq_iff_eq] at hpre
    exact hpre.2
  obtain ⟨hget, hlt2⟩ := R.stack.getAt _ hdx
  have hget' : botGet stk (act.bp + x) = some (vs.stack.getD (act.bp + x) .null) := hget
  have hsc : scalar (vs.stack.getD (act.bp + x) .null) = true := R.scalarS _ (botGet_mem hget')
  rw [hget'] at hstep
  simp only [Option.some.injEq] at hstep
  subst hstep
  have hsp := room_of R.stack R.size (post_stk hpost)
  have hroom : ¬ f.bp + x ≥ vs.stack.size := by rw [hA.bp]; have := R.stack.1; omega
  simp only [wpe_bind, wpe_readU8 _ _ _ _ _ _ h1, wpe_setIp, wpe_curFrame, wpe_get, wpe_ite, wpe_panicM, wpe_push, wpe_pure,
    finish, withIp, hf, hroom, hsp, ↓reduceIte]
  rw [hA.bp]
  exact R.next hf (by simp [hipc, hA.bp, hA.cid]) rfl (R.stack.push hsp _) (by simp) R.globals R.heap
    (scalars_cons hsc R.scalarS) R.scalarG R.scalarH

theorem step_setLocal {x : Nat} (R : FRel K ⟨act, stk, g, h, a, callers⟩ d vs) (hfetch : fetch act.code act.pc = some (.setLocal x))
    (hstep : fstep K F ⟨act, stk, g, h, a, callers⟩ = some fs') (hpre : preOk (.setLocal x) ⟨act, stk, g, h, a, callers⟩ d = true) :
    Goal K fs' ((d.reverse.set (act.bp + x) true).reverse) vs := by
  fv_pre
  rw [encodeI_setLocal] at hcode
  have hnm := opname (b := 31) (name := "SetLocal") hcode hip rfl rfl
  have h1 := operand8 hcode hip (fits8 hfi)
  unfold step; simp only [hnm]
  unfold fstep at hstep
  simp only [hfetch] at hstep
  have hd := preOk_need hpre
  cases stk with
  | nil => simp at hstep
  | cons v rest' =>
    simp only at hstep
    simp at hstep
    obtain ⟨hi, rfl⟩ := hstep
    obtain ⟨n1, e1, s1⟩ := R.stack.pop hd
    have hroom : ¬ f.bp + x ≥ vs.stack.size := by
      rw [hA.bp]; have := R.stack.1; have hl : (v :: rest').length = vs.sp := R.stack.length.1; simp at hl; omega
    simp only [wpe_bind, wpe_readU8 _ _ _ _ _ _ h1, wpe_setIp, wpe_curFrame, wpe_top0, wpe_get, wpe_ite, wpe_panicM, wpe_set, wpe_pure,
      finish, withIp, hf, hroom, n1, e1, ↓reduceIte]
    rw [hA.bp]
    exact R.next hf (by simp [hipc, hA.bp, hA.cid]) rfl (R.stack.setAt _ v) (by simp) R.globals R.heap
      (scalars_botSet R.scalarS (scalars_head R.scalarS) _) R.scalarG R.scalarH

theorem step_defLocal {x : Nat} (R : FRel K ⟨act, stk, g, h, a, callers⟩ d vs) (hfetch : fetch act.code act.pc = some (.defLocal x))
    (hstep : fstep K F ⟨act, stk, g, h, a, callers⟩ = some fs') (hpre : preOk (.defLocal x) ⟨act, stk, g, h, a, callers⟩ d = true) :
    Goal K fs' (((d.drop 1).reverse.set (act.bp + x) true).reverse) vs := by
  fv_pre
  rw [encodeI_defLocal] at hcode
  have hnm := opname (b := 29) (name := "DefineLocal") hcode hip rfl rfl
  have h1 := operand8 hcode hip (fits8 hfi)
  unfold step; simp only [hnm]
  unfold fstep at hstep
  simp only [hfetch] at hstep
  have hd := preOk_need hpre
  cases stk with
  | nil => simp at hstep
  | cons v rest' =>
    simp only at hstep
    simp at hstep
    obtain ⟨hi, rfl⟩ := hstep
    obtain ⟨n1, e1, s1⟩ := R.stack.pop hd
    have hroom : ¬ f.bp + x ≥ vs.stack.size := by
      rw [hA.bp]; have := R.stack.1; have := s1.length.1; omega
    simp only [wpe_bind, wpe_readU8 _ _ _ _ _ _ h1, wpe_setIp, wpe_curFrame, wpe_pop, wpe_get, wpe_ite, wpe_panicM, wpe_set, wpe_pure,
      finish, withIp, hf, hroom, n1, e1, ↓reduceIte]
    rw [hA.bp]
    exact R.next hf (by simp [hipc, hA.bp, hA.cid]) rfl (s1.setAt _ v) (by simp) R.globals R.heap
      (scalars_botSet (scalars_tail R.scalarS) (scalars_head R.scalarS) _) R.scalarG R.scalarH

theorem noCurr_fetch {c : List Instr} {pc : Nat} (hf : fetch c pc = some .currClosure) : noCurr c = false := by
  have hm := fetch_mem c pc _ hf
  cases hn : noCurr c with
  | false => rfl
  | true =>
    have := (List.all_eq_true.mp hn) _ hm
    simp at this

theorem step_currClosure (R : FRel K ⟨act, stk, g, h, a, callers⟩ d vs) (hfetch : fetch act.code act.pc = some .currClosure)
    (hstep : fstep K F ⟨act, stk, g, h, a, callers⟩ = some fs') (hpost : postOk .currClosure fs' = true) : Goal K fs' (true :: d) vs := by
  fv_pre
  have hnm := opname (b := 37) (name := "CurrClosure") hcode hip rfl rfl
  unfold step; simp only [hnm]
  unfold fstep at hstep
  simp [hfetch] at hstep
  subst hstep
  have hfd : f.fn = act.fd := by
    rcases hA.fd with h1 | h1
    · exact h1
    · rw [noCurr_fetch hfetch] at h1; cases h1
  have hsp := room_of R.stack R.size (post_stk hpost)
  simp only [wpe_bind, wpe_curFrame, wpe_push, wpe_pure, finish, wpe_setIp, withIp, hf, hsp, ↓reduceIte]
  rw [hfd, hA.cid]
  exact R.next hf (by simp [hipc, hA.bp, hA.cid, hfd]) rfl (R.stack.push hsp _) (by simp) R.globals R.heap (scalars_cons rfl R.scalarS) R.scalarG R.scalarH

theorem step_getBuiltin {x : Nat} (R : FRel K ⟨act, stk, g, h, a, callers⟩ d vs) (hfetch : fetch act.code act.pc = some (.getBuiltin x))
    (hstep : fstep K F ⟨act, stk, g, h, a, callers⟩ = some fs') (hpost : postOk (.getBuiltin x) fs' = true) : Goal K fs' (true :: d) vs := by
  fv_pre
  rw [encodeI_getBuiltin] at hcode
  have hnm := opname (b := 32) (name := "GetBuiltinFn") hcode hip rfl rfl
  have h1 := operand8 hcode hip (fits8 hfi)
  unfold step; simp only [hnm]
  unfold fstep at hstep
  simp only [hfetch] at hstep
  cases hb : Core.Fn.builtinName x with
  | none => simp [hb] at hstep
  | some n =>
    simp [hb] at hstep
    subst hstep
    have hb' : Vm.builtinName x = some n := hb
    have hsp := room_of R.stack R.size (post_stk hpost)
    simp only [wpe_bind, wpe_readU8 _ _ _ _ _ _ h1, wpe_setIp, hb', wpe_push, wpe_pure, finish, wpe_curFrame, withIp, hf, hsp, ↓reduceIte]
    exact R.next hf (by simp [hipc, hA.bp, hA.cid]) rfl (R.stack.push hsp _) (by simp) R.globals R.heap (scalars_cons rfl R.scalarS) R.scalarG R.scalarH

theorem step_getFree {x : Nat} (R : FRel K ⟨act, stk, g, h, a, callers⟩ d vs) (hfetch : fetch act.code act.pc = some (.getFree x))
    (hstep : fstep K F ⟨act, stk, g, h, a, callers⟩ = some fs') (hpost : postOk (.getFree x) fs' = true) : Goal K fs' (true :: d) vs := by
  fv_pre
  rw [encodeI_getFree] at hcode
  have hnm := opname (b := 35) (name := "GetFree") hcode hip rfl rfl
  have h1 := operand8 hcode hip (fits8 hfi)
  unfold step; simp only [hnm]
  unfold fstep at hstep
  simp only [hfetch] at hstep
  cases hg : freeGet h act.cid x with
  | none => simp [hg] at hstep
  | some v =>
    simp [hg] at hstep
    subst hstep
    unfold freeGet at hg
    cases hc : h[act.cid]? with
    | none => simp [hc] at hg
    | some fr =>
      simp only [hc] at hg
      have hfree : freeOf vs.heap f.closId = fr := by rw [hA.cid]; exact R.heap.2 _ _ hc
      have hsp := room_of R.stack R.size (post_stk hpost)
      simp only [wpe_bind, wpe_readU8 _ _ _ _ _ _ h1, wpe_setIp, wpe_curFrame, wpe_get, withIp, hf]
      have hfree' : freeOf vs.heap f.closId = fr := hfree
      simp only [hfree', hg, wpe_bind, wpe_push, wpe_pure, finish, wpe_curFrame, wpe_setIp, withIp, hsp, ↓reduceIte]
      exact R.next hf (by simp [hipc, hA.bp, hA.cid]) rfl (R.stack.push hsp _) (by simp) R.globals R.heap
        (scalars_cons (R.scalarH fr (List.mem_of_getElem? hc) v (List.mem_of_getElem? hg)) R.scalarS) R.scalarG R.scalarH

theorem step_setFree {x : Nat} (R : FRel K ⟨act, stk, g, h, a, callers⟩ d vs) (hfetch : fetch act.code act.pc = some (.setFree x))
    (hstep : fstep K F ⟨act, stk, g, h, a, callers⟩ = some fs') (hpre : preOk (.setFree x) ⟨act, stk, g, h, a, callers⟩ d = true) :
    Goal K fs' d vs := by
  fv_pre
  rw [encodeI_setFree] at hcode
  have hnm := opname (b := 36) (name := "SetFree") hcode hip rfl rfl
  have h1 := operand8 hcode hip (fits8 hfi)
  unfold step; simp only [hnm]
  unfold fstep at hstep
  simp only [hfetch] at hstep
  have hd := preOk_need hpre
  cases stk with
  | nil => simp at hstep
  | cons v rest' =>
    simp only at hstep
    cases hg : freeSet h act.cid x v with
    | none => simp [hg] at hstep
    | some h' =>
      simp [hg] at hstep
      subst hstep
      unfold freeSet at hg
      cases hc : h[act.cid]? with
      | none => simp [hc] at hg
      | some fr =>
        simp only [hc] at hg
        by_cases hx : x < fr.length
        case neg => simp [hx] at hg
        simp only [hx, if_true, Option.some.injEq] at hg
        subst hg
        have hfree : freeOf vs.heap f.closId = fr := by rw [hA.cid]; exact R.heap.2 _ _ hc
        obtain ⟨n1, e1, s1⟩ := R.stack.pop hd
        have hx' : ¬ x ≥ fr.length := by omega
        simp only [wpe_bind, wpe_readU8 _ _ _ _ _ _ h1, wpe_setIp, wpe_curFrame, wpe_get, withIp, hf]
        simp only [hfree, hx', wpe_bind, wpe_ite, wpe_panicM, wpe_top0, wpe_modify, wpe_pure, finish, wpe_curFrame, wpe_setIp, withIp,
          n1, e1, ↓reduceIte]
        rw [hA.cid]
        refine R.next hf (by simp [hipc, hA.bp, hA.cid]) rfl R.stack rfl R.globals (R.heap.set hc hx) R.scalarS R.scalarG ?_
        intro c hcm
        rcases List.mem_or_eq_of_mem_set hcm with hcm | rfl
        · exact R.scalarH c hcm
        · exact scalars_set (R.scalarH fr (List.mem_of_getElem? hc)) (scalars_head R.scalarS) x

/-! ### `Closure`, `Call`, `ReturnValue`, `Return` -/

theorem SRel.dropN {st sp stk d} (hs : SRel st sp stk d) (n : Nat) (hn : n ≤ sp) : SRel st (sp - n) (stk.drop n) (d.drop n) := by
  have := hs.shrink (sp - n) (by omega)
  obtain ⟨l1, l2⟩ := hs.length
  unfold botTake at this
  rw [l1, l2] at this
  have e : sp - (sp - n) = n := by omega
  rwa [e] at this

theorem all_take_get {d : List Bool} {n k : Nat} (hd : (d.take n).all id = true) (hk : k < n) (hl : k < d.length) : d[k]? = some true := by
  have hm : d[k] ∈ d.take n := by
    rw [List.mem_take_iff_getElem]
    exact ⟨k, by omega, rfl⟩
  have := (List.all_eq_true.mp hd) _ hm
  simp at this
  simp [hl, this]

/-- slot `k` from the top, defined -/
theorem SRel.nth {st sp stk d} (hs : SRel st sp stk d) {k : Nat} {v : Val} (hd : d[k]? = some true) (hv : stk[k]? = some v) :
    k < sp ∧ st.getD (sp - 1 - k) .null = v := by
  obtain ⟨l1, l2⟩ := hs.length
  obtain ⟨h1, h2⟩ := hs
  have hk : k < stk.length := (List.getElem?_eq_some_iff.mp hv).1
  have hk' : k < sp := by omega
  refine ⟨hk', ?_⟩
  have := h2.get k hd
  rw [hv, List.getElem?_reverse (by simp; omega)] at this
  have hlen : (st.toList.take sp).length = sp := by simp; omega
  rw [hlen] at this
  have h3 : sp - 1 - k < st.size := by omega
  have h4 : sp - 1 - k < sp := by omega
  simp [List.getElem?_take, h4, h3] at this
  simp [h3, this]

/-- the code memory `F` holds, for every function constant, the instruction list its `code` bytes
encode (what `Core/Fn/Encode.lean`'s `fnTop` builds: `encode (compileFn k d)`), with a line table
that covers it, operands that fit their widths, and at least as many slots as parameters -/
def Coded (F : FnDef → Option (List Instr)) : Prop :=
  ∀ fd code, F fd = some code →
    fd.code = Core.encode code ∧ fd.code.length ≤ fd.lines.length ∧ code.all Core.fitsI = true ∧ fd.numParams ≤ fd.numLocals

theorem fits_closure {c n : Nat} (h : Core.fitsI (.closure c n) = true) : c < 65536 ∧ n < 256 := by
  have : (decide (c < 256 ^ 2) && (decide (n < 256 ^ 1) && true)) = true := h
  simpa using this

theorem step_closure {c n : Nat} (R : FRel K ⟨act, stk, g, h, a, callers⟩ d vs) (hfetch : fetch act.code act.pc = some (.closure c n))
    (hstep : fstep K F ⟨act, stk, g, h, a, callers⟩ = some fs') (hpre : preOk (.closure c n) ⟨act, stk, g, h, a, callers⟩ d = true)
    (hpost : postOk (.closure c n) fs' = true) : Goal K fs' (true :: d.drop n) vs := by
  fv_pre
  rw [encodeI_closure] at hcode
  have hnm := opname (b := 34) (name := "Closure") hcode hip rfl rfl
  obtain ⟨hc16, hn8⟩ := fits_closure hfi
  have h1 : f.fn.code[f.ip + 1]? = some (c % 65536 / 256 % 256) := byte_at hcode hip 1 (by simp)
  have h2 : f.fn.code[f.ip + 1 + 1]? = some (c % 65536 % 256) := byte_at hcode hip 2 (by simp)
  have h3 : f.fn.code[f.ip + 3]? = some n := by
    rw [byte_at hcode hip 3 (by simp)]
    simp [Nat.mod_eq_of_lt hn8]
  unfold step; simp only [hnm]
  unfold fstep at hstep
  simp only [hfetch] at hstep
  have hd : (d.take n).all id = true := preOk_need hpre
  have hlen : stk.length = vs.sp := R.stack.length.1
  cases hk : K[c]? with
  | none => simp [hk] at hstep
  | some kv =>
    cases kv with
    | func fd =>
      simp only [hk] at hstep
      by_cases hn : n ≤ stk.length
      case neg => simp [hn] at hstep
      simp only [hn, if_true, Option.some.injEq] at hstep
      subst hstep
      have hkc : vs.constants[c]? = some (.func fd) := by
        rw [← R.consts] at hk; simpa using hk
      have hnsp : ¬ vs.sp < n := by omega
      have hfree := R.stack.topN n hd (by omega)
      have hs1 := R.stack.dropN n (by omega)
      have hroom : vs.sp - n < vs.stack.size := by
        have hb := post_stk hpost
        have hsz := R.size
        have hl1 : (stk.drop n).length = vs.sp - n := hs1.length.1
        simp at hb
        omega
      simp only [wpe_bind, wpe_readU16 _ _ _ _ _ _ _ h1 h2, wpe_readU8 _ _ _ _ _ _ h3, dec16 hc16, wpe_get, hkc, hnsp, wpe_ite, wpe_panicM,
        Heap.alloc, wpe_set, wpe_push, wpe_setIp, wpe_pure, finish, wpe_curFrame, withIp, hf, hfree, hroom, ↓reduceIte]
      have hnext : vs.heap.next = h.length := R.heap.1
      have hh := R.heap.alloc (stk.take n).reverse
      simp only [Heap.alloc, hnext] at hh
      rw [hnext]
      refine R.next hf (by simp [hipc]) rfl (hs1.push hroom _) (by simp) R.globals hh (scalars_cons rfl (scalars_drop R.scalarS n))
        R.scalarG ?_
      intro cell hcm
      rcases List.mem_append.mp hcm with hcm | hcm
      · exact R.scalarH cell hcm
      · simp at hcm; subst hcm
        exact scalars_reverse (scalars_take R.scalarS n)
    | _ => simp [hk] at hstep

theorem scalars_botTake {l : List Val} (hl : scalars l) (n : Nat) : scalars (botTake l n) := by
  unfold botTake
  exact scalars_drop hl _

theorem step_call {n : Nat} (hF : Coded F) (R : FRel K ⟨act, stk, g, h, a, callers⟩ d vs) (hfetch : fetch act.code act.pc = some (.call n))
    (hstep : fstep K F ⟨act, stk, g, h, a, callers⟩ = some fs') (hpre : preOk (.call n) ⟨act, stk, g, h, a, callers⟩ d = true)
    (hpost : postOk (.call n) fs' = true) : Goal K fs' (nextD (.call n) ⟨act, stk, g, h, a, callers⟩ d) vs := by
  fv_pre
  rw [encodeI_call] at hcode
  have hnm := opname (b := 26) (name := "Call") hcode hip rfl rfl
  have h1 := operand8 hcode hip (fits8 hfi)
  unfold step; simp only [hnm]
  unfold fstep at hstep
  simp only [hfetch] at hstep
  have hd : (d.take (n + 1)).all id = true := preOk_need hpre
  have hlen : stk.length = vs.sp := R.stack.length.1
  have hdlen : d.length = vs.sp := R.stack.length.2
  cases hk : stk[n]? with
  | none => simp [hk] at hstep
  | some cv =>
    cases cv with
    | clos fd fr id =>
      simp only [hk] at hstep
      by_cases hnp : n = fd.numParams
      case neg => simp [hnp] at hstep
      rw [if_pos hnp] at hstep
      cases hFc : F fd with
      | none => simp [hFc] at hstep
      | some code =>
        simp only [hFc, Option.some.injEq] at hstep
        subst hstep
        obtain ⟨hcd, hln, hft, hnl⟩ := hF fd code hFc
        have hnd : nextD (.call n) ⟨act, stk, g, h, a, callers⟩ d = List.replicate (fd.numLocals - n) false ++ d := by
          simp [nextD, hk]
        rw [hnd]
        have hkl : n < stk.length := (List.getElem?_eq_some_iff.mp hk).1
        have hdn : d[n]? = some true := all_take_get hd (by omega) (by omega)
        obtain ⟨_, hcallee⟩ := R.stack.nth hdn hk
        have hnlt : ¬ vs.sp < 1 + n := by omega
        have hne : (n != fd.numParams) = false := by simp [hnp]
        simp only [postOk, Bool.and_eq_true, decide_eq_true_eq, List.length_append, List.length_replicate, List.length_cons] at hpost
        obtain ⟨⟨hp1, hp2⟩, hp3⟩ := hpost
        have hrl : rest.length = callers.length := hrest.length.symm
        have hsz := R.size
        have hfl : ¬ (rest.length + 1 ≥ maxFrames) := by omega
        have hbl : ¬ (vs.sp - n + fd.numLocals ≥ vs.stack.size) := by omega
        simp only [wpe_bind, wpe_readU8 _ _ _ _ _ _ h1, execCall, wpe_get, hnlt, wpe_ite, hcallee, hne, wpe_curFrame, wpe_setIp, withIp, hf,
          pushFrame, wpe_set, wpe_modify, wpe_pure, finish, Bool.or_eq_true, decide_eq_true_eq, List.length_cons, hfl, hbl, or_self,
          Bool.false_eq_true, ↓reduceIte]
        refine ⟨?_, ?_, R.consts, R.size, ?_, R.globals, R.heap, R.scalarK, ?_, R.scalarG, R.scalarH⟩
        · exact .cons ⟨hcd, hln, hft, rfl, by simp [hlen], rfl, .inl rfl⟩
            (.cons ⟨hA.code, hA.lines, hA.fits, by simp [hipc], hA.bp, hA.cid, hA.fd⟩ hrest)
        · exact ⟨by show 1 ≤ stk.length - n; omega, R.bps⟩
        · have hg := R.stack.grow (fd.numLocals - n) (by omega)
          have e : vs.sp - n + fd.numLocals = vs.sp + (fd.numLocals - n) := by omega
          show SRel vs.stack (vs.sp - n + fd.numLocals) _ _
          rw [e]
          exact hg
        · exact scalars_append (scalars_replicate_null _) R.scalarS
    | _ => simp [preOk, hk] at hpre

theorem step_retv (R : FRel K ⟨act, stk, g, h, a, callers⟩ d vs) (hfetch : fetch act.code act.pc = some .retv)
    (hstep : fstep K F ⟨act, stk, g, h, a, callers⟩ = some fs') (hpre : preOk .retv ⟨act, stk, g, h, a, callers⟩ d = true) :
    Goal K fs' (true :: d.drop (d.length - (act.bp - 1))) vs := by
  fv_pre
  have hnm := opname (b := 27) (name := "ReturnValue") hcode hip rfl rfl
  unfold step; simp only [hnm]
  unfold fstep at hstep
  simp only [hfetch] at hstep
  have hd := preOk_need hpre
  have hbp : act.bp ≤ stk.length := by
    simp only [preOk, Bool.and_eq_true, decide_eq_true_eq] at hpre
    exact hpre.2
  have hlen : stk.length = vs.sp := R.stack.length.1
  cases stk with
  | nil => simp at hstep
  | cons v rest' =>
    cases callers with
    | nil => simp at hstep
    | cons c cs =>
      simp only [Option.some.injEq] at hstep
      subst hstep
      cases hrest with
      | cons hA2 hrest2 =>
        rename_i f2 rest2
        have hb := R.bps
        have hb1 : 1 ≤ act.bp := hb.1
        have hb2 : bpsOk ((c :: cs).map (·.bp)) := hb.2
        obtain ⟨n1, e1, s1⟩ := R.stack.pop hd
        have hnb : ¬ act.bp < 1 := by omega
        have hle : act.bp - 1 ≤ vs.sp := by omega
        have hsh := R.stack.shrink (act.bp - 1) hle
        have hroom : act.bp - 1 < vs.stack.size := by have := R.stack.1; omega
        simp only [wpe_bind, wpe_pop, wpe_get, hf, hnb, wpe_ite, wpe_panicM, wpe_set, wpe_push, wpe_pure, finish, n1, e1, hA.bp, hroom, ↓reduceIte]
        exact ⟨.cons hA2 hrest2, hb2, R.consts, by simpa using R.size, hsh.push hroom v, R.globals, R.heap, R.scalarK,
          scalars_cons (scalars_head R.scalarS) (scalars_botTake R.scalarS _), R.scalarG, R.scalarH⟩

theorem step_ret (R : FRel K ⟨act, stk, g, h, a, callers⟩ d vs) (hfetch : fetch act.code act.pc = some .ret)
    (hstep : fstep K F ⟨act, stk, g, h, a, callers⟩ = some fs') (hpre : preOk .ret ⟨act, stk, g, h, a, callers⟩ d = true) :
    Goal K fs' (true :: d.drop (d.length - (act.bp - 1))) vs := by
  fv_pre
  have hnm := opname (b := 28) (name := "Return") hcode hip rfl rfl
  unfold step; simp only [hnm]
  unfold fstep at hstep
  simp only [hfetch] at hstep
  have hbp : act.bp ≤ stk.length := by
    simp only [preOk, Bool.and_eq_true, decide_eq_true_eq] at hpre
    exact hpre.2
  have hlen : stk.length = vs.sp := R.stack.length.1
  cases callers with
  | nil => simp at hstep
  | cons c cs =>
    simp only [Option.some.injEq] at hstep
    subst hstep
    cases hrest with
    | cons hA2 hrest2 =>
      rename_i f2 rest2
      have hb := R.bps
      have hb1 : 1 ≤ act.bp := hb.1
      have hb2 : bpsOk ((c :: cs).map (·.bp)) := hb.2
      have hnb : ¬ act.bp < 1 := by omega
      have hle : act.bp - 1 ≤ vs.sp := by omega
      have hsh := R.stack.shrink (act.bp - 1) hle
      have hroom : act.bp - 1 < vs.stack.size := by have := R.stack.1; omega
      simp only [wpe_bind, wpe_get, hf, hnb, wpe_ite, wpe_panicM, wpe_set, wpe_push, wpe_pure, finish, hA.bp, hroom, ↓reduceIte]
      exact ⟨.cons hA2 hrest2, hb2, R.consts, by simpa using R.size, hsh.push hroom .null, R.globals, R.heap, R.scalarK,
        scalars_cons rfl (scalars_botTake R.scalarS _), R.scalarG, R.scalarH⟩

/-! ## one step of the machine with frames is one iteration of the VM's loop -/

/-- **one `fstep` is one iteration of `VM::run`** (`tick`, the body of `runLoop`), for every instruction
except `Array` / `Map` / `GetIndex` / `SetIndex` and calls of builtins (hence `_partial`).

Side conditions: `hF` — the code memory holds what the function constants' bytes encode (`Coded`);
`hpre` (`preOk`) — the slots the instruction reads are defined in the shadow `d` (the VM does not
initialise the local slots of a called function: see `stale_local_diverges`), the callee of a `Call` is
a closure, at a return `bp ≤ sp`; `hpost` (`postOk`) — the stack after the step is within `STACK_SIZE`
(strictly, after a `Call`), fewer than `MAX_FRAMES` frames.  That every operand fits its width is
part of the relation (`ActRel.fits`). -/
theorem fstep_refines_partial {fs fs' : FSt} {d : List Bool} {vs : Vm.St} {i : Instr} (hF : Coded F) (R : FRel K fs d vs)
    (hfetch : fetch fs.act.code fs.act.pc = some i) (hstep : fstep K F fs = some fs')
    (hpre : preOk i fs d = true) (hpost : postOk i fs' = true) :
    ∃ vs', exec tick vs = (.ok true, vs') ∧ FRel K fs' (nextD i fs d) vs' := by
  obtain ⟨act, stk, g, h, a, callers⟩ := fs
  suffices hg : Goal K fs' (nextD i ⟨act, stk, g, h, a, callers⟩ d) vs by
    obtain ⟨b, vs', he, rfl, hr⟩ := wpe_elim _ _ hg
    exact ⟨vs', he, hr⟩
  cases i with
  | const idx => exact step_const R hfetch hstep hpost
  | pop => exact step_pop R hfetch hstep hpre
  | op o => exact step_op R hfetch hstep hpre
  | tru => exact step_tru R hfetch hstep hpost
  | fls => exact step_fls R hfetch hstep hpost
  | null => exact step_null R hfetch hstep hpost
  | minus => exact step_minus R hfetch hstep hpre
  | bang => exact step_bang R hfetch hstep hpre
  | bnot => exact step_bnot R hfetch hstep hpre
  | jump t => exact step_jump R hfetch hstep
  | jif t => exact step_jif R hfetch hstep hpre
  | jifnp t => exact step_jifnp R hfetch hstep hpre
  | getGlobal i => exact step_getGlobal R hfetch hstep hpost
  | setGlobal i => exact step_setGlobal R hfetch hstep hpre
  | defGlobal i => exact step_defGlobal R hfetch hstep hpre
  | dup => exact step_dup R hfetch hstep hpre hpost
  | call n => exact step_call hF R hfetch hstep hpre hpost
  | retv => exact step_retv R hfetch hstep hpre
  | ret => exact step_ret R hfetch hstep hpre
  | getLocal x => exact step_getLocal R hfetch hstep hpre hpost
  | setLocal x => exact step_setLocal R hfetch hstep hpre
  | defLocal x => exact step_defLocal R hfetch hstep hpre
  | closure c n => exact step_closure R hfetch hstep hpre hpost
  | currClosure => exact step_currClosure R hfetch hstep hpost
  | getFree x => exact step_getFree R hfetch hstep hpost
  | setFree x => exact step_setFree R hfetch hstep hpre
  | getBuiltin x => exact step_getBuiltin R hfetch hstep hpost
  | array n => simp [preOk, noHeapI] at hpre
  | hmap n => simp [preOk, noHeapI] at hpre
  | getIndex => simp [preOk, noHeapI] at hpre
  | setIndex => simp [preOk, noHeapI] at hpre

/-! ## runs -/

/-- the machine with frames, its shadow, and the side conditions of `fstep_refines_partial` checked at
every step: a CHECKED step is a step of `fstep` (`dstep_fstep`) -/
def dstep (K : List Val) (F : FnDef → Option (List Instr)) : FSt × List Bool → Option (FSt × List Bool)
  | (s, d) =>
    match fetch s.act.code s.act.pc with
    | none => none
    | some i =>
      if preOk i s d then
        (match fstep K F s with
         | some s' => if postOk i s' then some (s', nextD i s d) else none
         | none => none)
      else none

theorem dstep_inv {s s' : FSt} {d d' : List Bool} (hd : dstep K F (s, d) = some (s', d')) :
    ∃ i, fetch s.act.code s.act.pc = some i ∧ preOk i s d = true ∧ fstep K F s = some s' ∧ postOk i s' = true ∧ d' = nextD i s d := by
  unfold dstep at hd
  cases hf : fetch s.act.code s.act.pc with
  | none => simp [hf] at hd
  | some i =>
    simp only [hf] at hd
    by_cases hp : preOk i s d = true
    case neg => simp [hp] at hd
    simp only [hp, if_true] at hd
    cases hs : fstep K F s with
    | none => simp [hs] at hd
    | some s1 =>
      simp only [hs] at hd
      by_cases hq : postOk i s1 = true
      case neg => simp [hq] at hd
      simp only [hq, if_true, Option.some.injEq, Prod.mk.injEq] at hd
      obtain ⟨rfl, rfl⟩ := hd
      exact ⟨i, rfl, hp, rfl, hq, rfl⟩

theorem dstep_fstep {s s' : FSt} {d d' : List Bool} (hd : dstep K F (s, d) = some (s', d')) : fstep K F s = some s' := by
  obtain ⟨_, _, _, h, _⟩ := dstep_inv hd
  exact h

theorem dstep_refines {s s' : FSt} {d d' : List Bool} {vs : Vm.St} (hF : Coded F) (R : FRel K s d vs) (hd : dstep K F (s, d) = some (s', d')) :
    ∃ vs', exec tick vs = (.ok true, vs') ∧ FRel K s' d' vs' := by
  obtain ⟨i, hf, hp, hs, hq, rfl⟩ := dstep_inv hd
  exact fstep_refines_partial hF R hf hs hp hq

/-- checked runs -/
inductive DSteps (K : List Val) (F : FnDef → Option (List Instr)) : FSt × List Bool → FSt × List Bool → Prop
  | refl (x) : DSteps K F x x
  | cons {x y z} : dstep K F x = some y → DSteps K F y z → DSteps K F x z

theorem DSteps.fsteps {x y : FSt × List Bool} (hs : DSteps K F x y) : FSteps K F x.1 y.1 := by
  induction hs with
  | refl x => exact .refl _
  | cons hd _ ih =>
    rename_i x y z
    obtain ⟨s, d⟩ := x
    obtain ⟨s1, d1⟩ := y
    exact .cons (dstep_fstep hd) ih

/-- **runs**: a checked run of the machine with frames is a sequence of iterations of the VM's loop -/
theorem fsteps_refine_partial {x y : FSt × List Bool} {vs : Vm.St} (hF : Coded F) (R : FRel K x.1 x.2 vs) (hs : DSteps K F x y) :
    ∃ vs', VmSteps vs vs' ∧ FRel K y.1 y.2 vs' := by
  induction hs generalizing vs with
  | refl x => exact ⟨vs, .refl _, R⟩
  | cons hd _ ih =>
    rename_i x y z
    obtain ⟨s, d⟩ := x
    obtain ⟨s1, d1⟩ := y
    obtain ⟨v1, he, R1⟩ := dstep_refines hF R hd
    obtain ⟨v2, hv, R2⟩ := ih R1
    exact ⟨v2, .cons he hv, R2⟩

/-- `n` checked steps, executable -/
def dsteps (K : List Val) (F : FnDef → Option (List Instr)) : Nat → FSt × List Bool → Option (FSt × List Bool)
  | 0, x => some x
  | n+1, x =>
    match dstep K F x with
    | some y => dsteps K F n y
    | none => none

theorem dsteps_DSteps : ∀ (n : Nat) (x y : FSt × List Bool), dsteps K F n x = some y → DSteps K F x y
  | 0, x, y, h => by simp [dsteps] at h; subst h; exact .refl _
  | n+1, x, y, h => by
    simp only [dsteps] at h
    cases hd : dstep K F x with
    | none => simp [hd] at h
    | some x1 =>
      simp only [hd] at h
      exact .cons hd (dsteps_DSteps n x1 y h)

/-- at the end of the current frame's code the loop ends normally, the state unchanged -/
theorem tick_halt {fs : FSt} {d : List Bool} {vs : Vm.St} (R : FRel K fs d vs) (hpc : fs.act.pc = bytes fs.act.code) :
    exec tick vs = (.ok false, vs) := by
  have hfs := R.frames
  cases hvf : vs.frames with
  | nil => rw [hvf] at hfs; cases hfs
  | cons f rest =>
    rw [hvf] at hfs
    cases hfs with
    | cons hA _ =>
      have hnlt : ¬ f.ip < f.fn.code.length := by rw [hA.code, encode_length, hA.ip, hpc]; omega
      have hw : wpe tick (fun b s' => b = false ∧ s' = vs) noErr vs := by
        unfold tick
        simp only [wpe_bind, wpe_curFrame, hvf, hnlt, if_false, wpe_pure, and_self]
      obtain ⟨b, s', he, rfl, rfl⟩ := wpe_elim _ _ hw
      exact he

/-- the initial state of `Vm.run` stands for the initial state of the machine with frames: the main
frame (`mfd`: the function `Core/Fn` attributes to it — `Core/Fn/Prog.lean` uses a dummy), the empty
stack, `n` global slots, the closure objects `[[]]` (object 0: the main program's, no captured values) -/
theorem rel_init (main mfd : FnDef) (M : List Instr) (n : Nat) (a : Heap) (hcode : main.code = Core.encode M)
    (hlines : main.code.length ≤ main.lines.length) (hfits : M.all Core.fitsI = true) (hfd : main = mfd ∨ noCurr M = true)
    (hK : scalars K) (hn : n ≤ P2sh.Gen.Limits.GLOBALS_SIZE) :
    FRel K ⟨⟨M, mfd, 0, 0, 0⟩, [], List.replicate n .null, [[]], a, []⟩ [] (initState main K) := by
  have hheap : HRel ({} : Heap) [[]] := ⟨rfl, fun id fr hid => by
    cases id with
    | zero => simp at hid; subst hid; rfl
    | succ k => simp at hid⟩
  have hgl : GRel (initState main K).globals (List.replicate n .null) := by
    refine ⟨by simp [initState], by simpa [initState] using hn, fun i => ?_⟩
    simp only [initState, Array.getD_eq_getD_getElem?, List.getD_eq_getElem?_getD]
    by_cases h1 : i < P2sh.Gen.Limits.GLOBALS_SIZE <;> by_cases h2 : i < n <;> simp [h1, h2]
  exact {
    frames := .cons ⟨hcode, hlines, hfits, rfl, rfl, rfl, hfd⟩ .nil
    bps := trivial
    consts := by simp [initState]
    size := by simp [initState]
    stack := ⟨by simp [initState], by simpa [initState] using SR.nil⟩
    globals := hgl
    heap := hheap
    scalarK := hK
    scalarS := by intro v hv; cases hv
    scalarG := scalars_replicate_null n
    scalarH := by
      intro c hc
      simp at hc; subst hc
      intro v hv; cases hv }

/-- **a checked halting run of the machine with frames is a normal run of the VM model** -/
theorem run_refines_partial (hF : Coded F) (main mfd : FnDef) (M : List Instr) (n : Nat) (a : Heap)
    (hcode : main.code = Core.encode M) (hlines : main.code.length ≤ main.lines.length) (hfits : M.all Core.fitsI = true)
    (hfd : main = mfd ∨ noCurr M = true) (hK : scalars K) (hn : n ≤ P2sh.Gen.Limits.GLOBALS_SIZE)
    {y : FSt × List Bool} (hsteps : DSteps K F (⟨⟨M, mfd, 0, 0, 0⟩, [], List.replicate n .null, [[]], a, []⟩, []) y)
    (hend : y.1.act.pc = bytes y.1.act.code) :
    ∃ fuel vs', Vm.run main K fuel = (.ok (), vs') ∧ FRel K y.1 y.2 vs' := by
  obtain ⟨vs', hv, R'⟩ := fsteps_refine_partial hF (rel_init main mfd M n a hcode hlines hfits hfd hK hn) hsteps
  obtain ⟨m, hm⟩ := hv.fuel 1
  refine ⟨m + 1, vs', ?_, R'⟩
  show exec (Vm.runLoop (m + 1)) (initState main K) = _
  rw [hm, exec_runLoop_succ, tick_halt R' hend]

/-! ## whole programs: composing with `Core.Fn.program_correct_fn` -/

theorem fetch_end : ∀ (C : List Instr), fetch C (bytes C) = none
  | [] => rfl
  | i :: is => by
    have hp := i.size_pos
    have h0 : ¬ (i.size + bytes is = 0) := by omega
    have h1 : ¬ (i.size + bytes is < i.size) := by omega
    have h2 : i.size + bytes is - i.size = bytes is := by omega
    simp only [bytes, fetch, h0, h1, if_false, h2]
    exact fetch_end is

theorem fstep_end {s : FSt} (hs : s.act.pc = bytes s.act.code) : fstep K F s = none := by
  obtain ⟨act, stk, g, h, a, callers⟩ := s
  simp only at hs
  unfold fstep
  simp only [hs, fetch_end]

theorem FSteps_det {s t t' : FSt} (h1 : FSteps K F s t) (e1 : fstep K F t = none) (h2 : FSteps K F s t') (e2 : fstep K F t' = none) :
    t = t' := by
  induction h1 with
  | refl s =>
    cases h2 with
    | refl => rfl
    | cons hs _ => rw [e1] at hs; cases hs
  | cons hs _ ih =>
    cases h2 with
    | refl => rw [e2] at hs; cases hs
    | cons hs' hr =>
      rw [hs] at hs'
      cases hs'
      exact ih e1 hr

/-- the checked run of `k` steps exists and ends at the end of the running frame's code (executable:
the side conditions of `fstep_refines_partial` along the run of the machine with frames) -/
def checkedRun (K : List Val) (F : FnDef → Option (List Instr)) (k : Nat) (x : FSt × List Bool) : Bool :=
  match dsteps K F k x with
  | some y => y.1.act.pc == bytes y.1.act.code
  | none => false

/-- `Coded`, executable, for a code memory given as a table -/
def codedB (L : List (FnDef × List Instr)) : Bool :=
  L.all fun x => x.1.code == Core.encode x.2 && decide (x.1.code.length ≤ x.1.lines.length) && x.2.all Core.fitsI &&
    decide (x.1.numParams ≤ x.1.numLocals)

theorem lookupFd_mem {α : Type} {fd : FnDef} : ∀ {L : List (FnDef × α)} {c : α}, lookupFd fd L = some c → (fd, c) ∈ L
  | [], _, h => by simp [lookupFd] at h
  | (key, c0) :: rest, c, h => by
    simp only [lookupFd] at h
    by_cases hk : fd = key
    · simp only [hk, if_true, Option.some.injEq] at h
      subst h
      simp [hk]
    · simp only [hk, if_false] at h
      exact List.mem_cons_of_mem _ (lookupFd_mem h)

theorem coded_of_table {L : List (FnDef × List Instr)} (hL : codedB L = true) : Coded (fun fd => lookupFd fd L) := by
  intro fd code hfd
  have := (List.all_eq_true.mp hL) _ (lookupFd_mem hfd)
  simp only [Bool.and_eq_true, decide_eq_true_eq, beq_iff_eq] at this
  exact ⟨this.1.1.1, this.1.1.2, this.1.2, this.2⟩

/-- the initial state of `Core.Fn.program_correct_fn` for the program `T` with `n` global slots -/
def progInit (T : List FTop) (n : Nat) (a : Heap) : FSt :=
  ⟨⟨compileT 0 0 T, ⟨[], [], 0, 0, 0⟩, 0, 0, 0⟩, [], List.replicate n .null, [[]], a, []⟩

/-- **a successful terminating evaluation of a program with functions and closures ⇒ `Vm.run` on the
encoded main code and the program's constants ends normally with the evaluator's globals** (the
empty stack, the main frame alone).

`he`: the reference evaluation `Core.Fn.evalT` of `T` terminates with globals `g'`.  The VM runs the
function `main` whose code is the encoding of `compileT 0 0 T` with the pool `constsT T`.
Static side conditions: operands fit (`hfits`, and in every function: `hF`), the function constants
hold the encoding of their code (`hF`: `codedB (codesT 0 T)`), no `CurrentClosure` in the main code
(`hnc`), no array/map constant (`hK`).
The stack / frame-depth / defined-slot bounds are NOT derived statically: `hchk` says that the run of
the machine with frames (the one `program_correct_fn` produces: `fstep` is deterministic) passes the
checks `preOk` / `postOk` of `fstep_refines_partial` at each of its `k` steps — an executable predicate. -/
theorem program_run_refines_partial (T : List FTop) (efuel n k : Nat) (a a' : Heap) (g' : List Val) (h' : List (List Val))
    (he : evalT (phiT T) efuel (List.replicate n .null) [[]] a T = some (g', h', a'))
    (main : FnDef) (hcode : main.code = Core.encode (compileT 0 0 T)) (hlines : main.code.length ≤ main.lines.length)
    (hfits : (compileT 0 0 T).all Core.fitsI = true) (hnc : noCurr (compileT 0 0 T) = true)
    (hF : codedB (codesT 0 T) = true) (hK : scalars (constsT T)) (hn : n ≤ P2sh.Gen.Limits.GLOBALS_SIZE)
    (hchk : checkedRun (constsT T) (codeT T) k (progInit T n a, []) = true) :
    ∃ fuel vs', Vm.run main (constsT T) fuel = (.ok (), vs') ∧ GRel vs'.globals g' ∧ vs'.sp = 0 ∧ vs'.frames.length = 1 := by
  unfold checkedRun at hchk
  cases hd : dsteps (constsT T) (codeT T) k (progInit T n a, []) with
  | none => simp [hd] at hchk
  | some y =>
    simp only [hd, beq_iff_eq] at hchk
    have hDS := dsteps_DSteps k _ _ hd
    have hFc : Coded (codeT T) := coded_of_table hF
    obtain ⟨fuel, vs', hrun, R⟩ := run_refines_partial hFc main ⟨[], [], 0, 0, 0⟩ (compileT 0 0 T) n a hcode hlines hfits (.inr hnc) hK hn
      hDS hchk
    have hfin := program_correct_fn efuel T _ g' _ h' a a' he
    have hy : y.1 = ⟨⟨compileT 0 0 T, ⟨[], [], 0, 0, 0⟩, 0, bytes (compileT 0 0 T), 0⟩, [], g', h', a', []⟩ :=
      FSteps_det hDS.fsteps (fstep_end hchk) hfin (fstep_end rfl)
    have hg := R.globals
    have hst := R.stack.length.1
    have hfr := R.frames.length
    rw [hy] at hg hst hfr
    exact ⟨fuel, vs', hrun, hg, by simpa using hst.symm, by simpa using hfr.symm⟩

theorem scalars_of_all {l : List Val} (hl : l.all scalar = true) : scalars l := fun v hv => (List.all_eq_true.mp hl) v hv

/-! ## non-vacuity: a function that returns a closure, called twice -/

namespace Example
open P2sh.Core.Fn

def argsOf : List FExpr → FArgs
  | [] => .nil
  | a :: r => .cons a (argsOf r)

/-- `fn(b) { a + b }`: `a` is captured (`GetFree 0`), `b` the parameter (`GetLocal 0`) -/
def innerD : FDecl := ⟨1, 1, [.expr 1 (.bin 1 .add (.fget 1 0) (.lget 1 0))], 1⟩
/-- its function constant's code bytes and line table, as the real compiler builds them (`fnTop`) -/
def innerC : List Nat × List Nat := fnTop 0 innerD
/-- `fn mk(a) { return fn(b) { a + b }; }`: loads `a` (`GetLocal 0`), creates the closure (`Closure 0 1`) -/
def mkD : FDecl := ⟨1, 1, [.ret 1 (.mkclos 1 innerC.1 innerC.2 1 1 innerD.body [.loc 0])], 1⟩
def mkC : List Nat × List Nat := fnTop 0 mkD

/-- `fn mk(a) { return fn(b) { a + b }; }  let r = mk(1)(2);` -/
def prog : List FTop :=
  [.fnDef 1 0 mkC.1 mkC.2 mkD,
   .stmt (.letG 2 1 (.call 2 (.call 2 (.gget 2 0) (argsOf [.lit 2 (.int 1)])) (argsOf [.lit 2 (.int 2)])))]

/-- the compiled program: main code, the two functions' code, the bytes the VM runs -/
example : compileT 0 0 prog =
    [.closure 1 0, .defGlobal 0, .getGlobal 0, .const 2, .call 1, .const 3, .call 1, .defGlobal 1] := by rfl
example : (codesT 0 prog).map (·.2) =
    [[.getFree 0, .getLocal 0, .op .add, .retv], [.getLocal 0, .closure 0 1, .retv]] := by rfl
example : Core.encode (compileT 0 0 prog) = [34, 0, 1, 0, 19, 0, 0, 20, 0, 0, 0, 0, 2, 26, 1, 0, 0, 3, 26, 1, 19, 0, 1] := by decide
example : mkC.1 = [30, 0, 34, 0, 0, 1, 27] ∧ innerC.1 = [35, 0, 30, 0, 2, 27] := by decide

/-- the main function the VM runs -/
def exMain : FnDef := ⟨Core.encode (compileT 0 0 prog), List.replicate 23 1, 0, 0, 0⟩

/-- the relation holds initially -/
example : FRel (constsT prog) (progInit prog 2 {}) [] (initState exMain (constsT prog)) :=
  rel_init exMain _ (compileT 0 0 prog) 2 {} rfl (by decide) (by decide) (.inr rfl) (scalars_of_all rfl) (by decide)

/-- the first step, instantiated: one iteration of the VM's loop creates the closure of `mk` -/
example : ∃ vs', exec tick (initState exMain (constsT prog)) = (.ok true, vs') ∧
    FRel (constsT prog) ⟨⟨compileT 0 0 prog, ⟨[], [], 0, 0, 0⟩, 0, 4, 0⟩, [.clos (mkFd mkC.1 mkC.2 mkD) [] 1], [.null, .null], [[], []], {}, []⟩
      [true] vs' :=
  fstep_refines_partial (F := codeT prog) (i := .closure 1 0) (coded_of_table (L := codesT 0 prog) rfl)
    (rel_init exMain _ (compileT 0 0 prog) 2 {} rfl (by decide) (by decide) (.inr rfl) (scalars_of_all rfl) (by decide))
    rfl rfl rfl rfl

/-- the side conditions hold along the whole run (15 steps: two calls, two returns, a closure created
inside a function, a captured value read after its creator returned) -/
example : checkedRun (constsT prog) (codeT prog) 15 (progInit prog 2 {}, []) = true := by rfl

/-- **the run-level theorem, instantiated**: `Vm.run` on the encoded program ends normally, the
global `r` holds `3`, the stack is empty, only the main frame is left -/
theorem example_run : ∃ fuel vs', Vm.run exMain (constsT prog) fuel = (.ok (), vs') ∧
      GRel vs'.globals [.clos (mkFd mkC.1 mkC.2 mkD) [] 1, .int 3] ∧ vs'.sp = 0 ∧ vs'.frames.length = 1 :=
  program_run_refines_partial prog 40 2 15 {} {} _ [[], [], [.int 1]] (by rfl) exMain rfl (by decide) (by decide) rfl (by decide)
    (scalars_of_all rfl) (by decide) (by rfl)

end Example

/-! ## where the two machines genuinely differ: the local slots of a called function -/

namespace Stale
open P2sh.Core.Fn

/-- a function with one local slot that is not a parameter, read before it is stored: `GetLocal 0; ReturnValue`
(the real compiler emits this for `fn f() { let x = x; … }` — a name read in its own initialiser —, which
`Core/Fn/Encode.lean` keeps outside the fragment for this reason) -/
def fC : List Instr := [.getLocal 0, .retv]
def fFd : FnDef := ⟨Core.encode fC, [1, 1, 1], 1, 0, 1⟩
/-- two values pushed and popped (they stay in the VM's stack array above `sp`), then `f()` is called; its
result is left on the stack -/
def M : List Instr := [.const 0, .const 0, .pop, .pop, .closure 1 0, .call 0]
def sK : List Val := [.int 7, .func fFd]
def sF : FnDef → Option (List Instr) := fun fd => if fd = fFd then some fC else none
def mainFd : FnDef := ⟨Core.encode M, List.replicate 14 1, 0, 0, 0⟩
def init : FSt := ⟨⟨M, mainFd, 0, 0, 0⟩, [], [], [[]], {}, []⟩

def isNull : Val → Bool | .null => true | _ => false
def isInt (n : Int) : Val → Bool | .int i => i.toInt == n | _ => false

/-- the initial states are related, the code memory is `Coded` -/
example : FRel sK init [] (initState mainFd sK) :=
  rel_init mainFd mainFd M 0 {} rfl (by decide) (by decide) (.inl rfl) (scalars_of_all rfl) (by decide)
example : Coded sF := by
  intro fd code hfd
  unfold sF at hfd
  by_cases hx : fd = fFd
  · simp only [hx, if_true, Option.some.injEq] at hfd
    subst hfd hx
    exact ⟨rfl, by decide, by decide, by decide⟩
  · simp [hx] at hfd

/-- the first six steps (up to and including the `Call`) pass the checks; the seventh — `GetLocal 0` on
the slot the call left undefined — does not -/
example : (dsteps sK sF 6 (init, [])).isSome = true ∧ (dsteps sK sF 7 (init, [])).isSome = false := by
  constructor <;> rfl

/-- **finding**: `Call` does not initialise the callee's local slots that are not parameters.  From
related initial states both machines run to the end without an error, and end with DIFFERENT values on
the stack (the result of `f()`): `null` in the machine of `Core/Fn` (`fstep`: fresh slots are `null`),
`7` in the VM model (the slot keeps what an earlier push left in the stack array).  Hence the shadow `d` in `FRel` and the
defined-slot condition in `preOk`; `Core.Fn.program_correct_fn` is about programs that store every local
before reading it. -/
theorem stale_local_diverges :
    (match Core.Fn.frun sK sF 20 init with | .done s => s.stk.map isNull | _ => []) = [true] ∧
    (match Vm.run mainFd sK 20 with | (.ok (), vs') => vs'.sp == 1 && isInt 7 (vs'.stack.getD 0 .null) | _ => false) = true := by
  constructor
  · rfl
  · decide +kernel

end Stale

/-! ## why `ActRel.fd` asks for code without `CurrentClosure` when the functions differ -/

namespace Curr
open P2sh.Core.Fn

def M : List Instr := [.currClosure]
def mainFd : FnDef := ⟨Core.encode M, [1], 0, 0, 0⟩
/-- the main frame as `Core.Fn.program_correct_fn` sets it up: a dummy function -/
def init : FSt := ⟨⟨M, ⟨[], [], 0, 0, 0⟩, 0, 0, 0⟩, [], [], [[]], {}, []⟩

def closCode : Val → Option (List Nat) | .clos fd _ _ => some fd.code | _ => none

/-- `CurrentClosure` in the main program (the real compiler never emits it there): the machine of
`Core/Fn`, whose main frame carries a dummy function, pushes a closure of THAT function; the VM pushes
a closure of the main function.  Not a difference of the machines — with `mfd := main` in `rel_init`
they agree (`ActRel.fd`, left disjunct) — but of the initial state `program_correct_fn` uses; hence
the hypothesis `noCurr (compileT 0 0 T)` of `program_run_refines_partial`. -/
theorem currClosure_in_main :
    (match Core.Fn.frun [] (fun _ => none) 5 init with | .done s => s.stk.map closCode | _ => []) = [some []] ∧
    (match Vm.run mainFd [] 5 with | (.ok (), vs') => closCode (vs'.stack.getD 0 .null) | _ => none) = some [37] := by
  constructor
  · rfl
  · decide +kernel

end Curr

#print axioms fstep_refines_partial
#print axioms dstep_refines
#print axioms fsteps_refine_partial
#print axioms run_refines_partial
#print axioms program_run_refines_partial
#print axioms rel_init
#print axioms tick_halt
#print axioms coded_of_table
#print axioms Example.example_run
#print axioms Stale.stale_local_diverges
#print axioms Curr.currClosure_in_main

end P2sh.FnVm
