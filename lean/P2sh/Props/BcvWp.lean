import P2sh.Model.Vm
import P2sh.Props.C08
/-!
# A weakest-precondition calculus for the VM monad (used by `P2sh.Props.Bcv`)

`wp m Q s`: running `m` from `s` does not end in a panic other than the memory exclusion
("capacity overflow": `String::repeat` beyond 2^24 bytes, excluded by property C08), and if it returns
`a` in state `s'` then `Q a s'`.  Runtime errors, `unmodelled` and `fuel` outcomes satisfy it.
-/
namespace P2sh.Props.BcvWp
open P2sh P2sh.Vm

def exec {α} (m : M α) (s : St) : Except Res α × St := (m.run.run s)

@[simp] theorem exec_pure {α} (a : α) (s : St) : exec (pure a : M α) s = (.ok a, s) := rfl
theorem exec_bind {α β} (m : M α) (f : α → M β) (s : St) :
    exec (m >>= f) s = match exec m s with
      | (.ok a, s') => exec (f a) s'
      | (.error e, s') => (.error e, s') := by
  simp only [exec, bind, ExceptT.bind, ExceptT.run, ExceptT.mk, ExceptT.bindCont, StateT.bind, StateT.run]
  cases h : m s with
  | mk r s' => cases r <;> rfl
@[simp] theorem exec_get (s : St) : exec (get : M St) s = (.ok s, s) := rfl
@[simp] theorem exec_set (s' s : St) : exec (set s' : M PUnit) s = (.ok ⟨⟩, s') := rfl
@[simp] theorem exec_modify (f : St → St) (s : St) : exec (modify f : M PUnit) s = (.ok ⟨⟩, f s) := rfl
@[simp] theorem exec_throw {α} (e : Res) (s : St) : exec (throw e : M α) s = (.error e, s) := rfl

/-- the only panic the property tolerates: the memory exclusion of `*` on strings -/
def memPanic (msg : String) : Prop := msg = "capacity overflow"

def wp {α} (m : M α) (Q : α → St → Prop) (s : St) : Prop :=
  match exec m s with
  | (.ok a, s') => Q a s'
  | (.error (.panic msg), _) => memPanic msg
  | (.error _, _) => True

theorem wp_pure {α} (a : α) (Q : α → St → Prop) (s : St) : wp (pure a : M α) Q s ↔ Q a s := by
  simp [wp]

theorem wp_bind {α β} (m : M α) (f : α → M β) (Q : β → St → Prop) (s : St) :
    wp (m >>= f) Q s ↔ wp m (fun a s' => wp (f a) Q s') s := by
  unfold wp
  rw [exec_bind]
  cases h : exec m s with
  | mk r s' =>
    cases r with
    | ok a => simp
    | error e => cases e <;> simp

theorem wp_get (Q : St → St → Prop) (s : St) : wp (get : M St) Q s ↔ Q s s := by simp [wp]
theorem wp_set (s' : St) (Q : PUnit → St → Prop) (s : St) : wp (set s' : M PUnit) Q s ↔ Q ⟨⟩ s' := by simp [wp]
theorem wp_modify (f : St → St) (Q : PUnit → St → Prop) (s : St) : wp (modify f : M PUnit) Q s ↔ Q ⟨⟩ (f s) := by
  simp [wp]
theorem wp_throw_panic {α} (msg : String) (Q : α → St → Prop) (s : St) :
    wp (throw (.panic msg) : M α) Q s ↔ memPanic msg := by simp [wp]
theorem wp_throw_err {α} (msg : String) (l : Nat) (Q : α → St → Prop) (s : St) :
    wp (throw (.err msg l) : M α) Q s ↔ True := by simp [wp]
theorem wp_throw_unmodelled {α} (w : String) (Q : α → St → Prop) (s : St) :
    wp (throw (.unmodelled w) : M α) Q s ↔ True := by simp [wp]
theorem wp_throw_fuel {α} (Q : α → St → Prop) (s : St) : wp (throw .fuel : M α) Q s ↔ True := by simp [wp]
theorem wp_rtErr {α} (msg : String) (l : Nat) (Q : α → St → Prop) (s : St) : wp (rtErr msg l : M α) Q s ↔ True := by
  simp [wp, rtErr]
theorem wp_panicM {α} (msg : String) (Q : α → St → Prop) (s : St) : wp (panicM msg : M α) Q s ↔ memPanic msg := by
  simp [wp, panicM]

theorem wp_mono {α} {m : M α} {Q Q' : α → St → Prop} {s : St} (h : wp m Q s) (hq : ∀ a s', Q a s' → Q' a s') :
    wp m Q' s := by
  unfold wp at *
  split <;> simp_all

theorem wp_ite {α} (c : Prop) [Decidable c] (a b : M α) (Q : α → St → Prop) (s : St) :
    wp (if c then a else b) Q s ↔ (if c then wp a Q s else wp b Q s) := by
  split <;> rfl

/-- what a successful run gives -/
theorem wp_ok {α} {m : M α} {Q : α → St → Prop} {s s' : St} {a : α} (h : wp m Q s) (he : exec m s = (.ok a, s')) : Q a s' := by
  unfold wp at h; rw [he] at h; exact h

theorem wp_no_panic {α} {m : M α} {Q : α → St → Prop} {s s' : St} {msg : String} (h : wp m Q s)
    (he : exec m s = (.error (.panic msg), s')) : memPanic msg := by
  unfold wp at h; rw [he] at h; exact h

/-! ## the primitives of the VM -/

theorem wp_push (v : Val) (line : Nat) (Q : Unit → St → Prop) (s : St) :
    wp (push v line) Q s ↔ (s.sp < s.stack.size → Q () { s with stack := s.stack.set! s.sp v, sp := s.sp + 1 }) := by
  simp only [push, wp_bind, wp_get, wp_ite, wp_rtErr, wp_set]
  split <;> simp_all <;> omega

theorem wp_pop (line : Nat) (Q : Val → St → Prop) (s : St) :
    wp (pop line) Q s ↔ (s.sp ≠ 0 → Q (s.stack.getD (s.sp - 1) .null) { s with sp := s.sp - 1 }) := by
  simp only [pop, wp_bind, wp_get, wp_ite, wp_rtErr, wp_set, wp_pure]
  split <;> simp_all

theorem wp_peek0 (Q : Val → St → Prop) (s : St) :
    wp (peek 0) Q s ↔ Q (if s.sp = 0 then .null else s.stack.getD (s.sp - 1) .null) s := by
  simp only [peek, wp_bind, wp_get, wp_ite, wp_panicM, wp_pure]
  split
  · omega
  · split <;> simp_all

theorem wp_top0 (line : Nat) (Q : Val → St → Prop) (s : St) :
    wp (top 0 line) Q s ↔ (s.sp ≠ 0 → Q (s.stack.getD (s.sp - 1) .null) s) := by
  simp only [top, wp_bind, wp_get, wp_ite, wp_panicM, wp_pure, wp_rtErr]
  split
  · omega
  · split <;> simp_all

theorem wp_curFrame (Q : Frame → St → Prop) (s : St) (f : Frame) (rest : List Frame) (hf : s.frames = f :: rest) :
    wp curFrame Q s ↔ Q f s := by
  simp only [curFrame, wp_bind, wp_get, hf, wp_pure]

/-- the state after `setIp` -/
def withIp (ip : Nat) (s : St) : St :=
  match s.frames with
  | f :: rest => { s with frames := { f with ip := ip } :: rest }
  | [] => s

theorem wp_setIp (ip : Nat) (Q : Unit → St → Prop) (s : St) : wp (setIp ip) Q s ↔ Q () (withIp ip s) := by
  simp only [setIp, wp_modify, withIp]
  exact Iff.rfl

theorem wp_reifyM (v : Val) (Q : Val → St → Prop) (s : St) : wp (reifyM v) Q s ↔ Q (reify s.heap reifyDepth v) s := by
  simp only [reifyM, wp_bind, wp_get, wp_pure]

theorem wp_reflectM (v : Val) (Q : Val → St → Prop) (s : St) :
    wp (reflectM v) Q s ↔ Q (reflect s.heap reifyDepth v).2 { s with heap := (reflect s.heap reifyDepth v).1 } := by
  simp only [reflectM, wp_bind, wp_get, wp_pure, wp_set]

theorem wp_readU16 (code : List Nat) (pos : Nat) (Q : Nat → St → Prop) (s : St) (h : pos + 2 ≤ code.length) :
    wp (readU16 code pos) Q s ↔ Q (code.getD pos 0 * 256 + code.getD (pos + 1) 0) s := by
  unfold readU16
  have h1 : code[pos]? = some (code.getD pos 0) := by
    rw [List.getD_eq_getElem?_getD, List.getElem?_eq_getElem (by omega)]; rfl
  have h2 : code[pos + 1]? = some (code.getD (pos + 1) 0) := by
    rw [List.getD_eq_getElem?_getD, List.getElem?_eq_getElem (by omega)]; rfl
  rw [h1, h2]
  simp only [wp_pure]

theorem wp_readU8 (code : List Nat) (pos : Nat) (Q : Nat → St → Prop) (s : St) (h : pos + 1 ≤ code.length) :
    wp (readU8 code pos) Q s ↔ Q (code.getD pos 0) s := by
  unfold readU8
  have h1 : code[pos]? = some (code.getD pos 0) := by
    rw [List.getD_eq_getElem?_getD, List.getElem?_eq_getElem (by omega)]; rfl
  rw [h1]
  simp only [wp_pure]

end P2sh.Props.BcvWp
