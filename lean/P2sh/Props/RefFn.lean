import P2sh.Props.RefProg
import P2sh.Core.Fn.Encode
/-!
# The oracle and Core.Fn (functions and closures) agree

`Props/RefCore.lean` / `Props/RefProg.lean` connect the oracle (`Spec/Ref.lean`) with the function-free source
semantics `Core.eval` / `Core.evalP`.  This file does the same for `Core/Fn/Lang.lean` (`Core.Fn.evalE` / `evalS` /
`evalP` / `evalT`, fuel-indexed), the semantics compiler correctness for functions and closures
(`Core.Fn.program_correct_fn`) is stated against.

* `toAstF` / `toStmtF` / `toStmtsF` / `toTop` / `toTops`: the embedding of `FExpr` / `FStmt` / `FTop` into the real AST, for
  names `Names.gn i` (global slot `i`), `Names.ln d i` (local slot `i` of a function at nesting depth `d`), the
  function's own name and the names of its captured variables (`Ctx`; a captured variable keeps the name it has in
  the function it comes from).  `stdNames` / `stdNames_ok`: names that satisfy `NamesOK`.  The recogniser
  `Core.Fn.ofTops` reads the embedding of every example program back (`rfl`).
* `VR CT`: values -- scalars are equal, the oracle's closure `k+1` is Core.Fn's `.clos fd [] hid` when `CT[k] = (fd, hid)`;
  `Inv`: the closure table (`ClosEntry`: name, parameters, body = embedding of the declaration `Φ fd`, captured
  globals by reference, captured `.cap v` bindings related pointwise to the closure object `hid`), cells / globals;
  `Frame`: an activation -- the environment is `mkEnv V vals base` (block scopes of local slots over the
  activation's base `[self, (%self, ·) :: captured]`), the slots hold related values; `TopR`: the top level.
* `all_ok`: by induction on the oracle's fuel, for expressions, `match` arms, arguments, statements, statement
  lists, blocks, loops and `callValue`: a value / flow of the oracle is the (related) value / flow of Core.Fn's
  evaluator for some fuel; a runtime error of the oracle means no fuel makes Core.Fn's evaluator succeed
  (`Post`: Core.Fn answers `none` both for an error and for missing fuel).  Nothing is claimed for `unc` / `mem` / `fuel`.
* theorems: `ref_program_fn_partial`, `ref_program_fn_error_partial` (whole programs against `evalT`, `Inv` established
  from the empty state), `ref_program_fn_compiled_partial` (composition with `Core.Fn.program_correct_fn`: the compiled
  program on the machine), `ref_call_fn_partial`, `ref_expr_fn_partial`, `ref_stmts_fn_partial` and their `_error_` versions.

`_partial`: the fragment is `okE` / `okArms` / `okArgs` / `okS` / `okP` / `okTop`: literals, unary and binary operators (also
applied to function values), `<` / `<=`, `&&` / `||`, `if` / `else` (expression and statement), `match` (literal, range,
`|`, default patterns), globals, parameters and locals (`let` anywhere in a body, blocks, assignment), the function's
own name (recursion), calls (arity errors, calls of non-functions), `return e;` / `return;`, `while` / `loop` with
labelled and plain `break` / `continue`, function literals anywhere in an expression capturing parameters,
locals, captured variables (capture chains) and the enclosing function itself BY VALUE, reads of captured
variables, closures returned / stored / called after their creator has returned; at top level `let`, `fn f…`,
`f = fn…` (mutual recursion through globals) and statements.  The predicates are `Bool`-valued; the single test that
is not computable is `Φ fd = some d` for a function literal (`Φ` is an arbitrary function; `Classical.decide`).
EXCLUDED: assignment to a captured variable (`fset`: the oracle poisons the closure's copy, answers `unc` when another
activation of the same closure object is live -- a rule added after this file found the oracle committing to a stale
copy there, see the examples at the end --, and `Frame` keeps the activation's base fixed), arrays, maps, builtins; `let` inside a top-level block; a global function's body
mentioning a global defined after it (also unresolved for the real compiler) or its own global slot other than by
its name; function bodies whose last statement is a block or a loop (the oracle leaves their value open).
No disagreement between the oracle and `Core.Fn` was found on the fragment.
-/
namespace P2sh.RefFn
open P2sh P2sh.Ref P2sh.RefCore P2sh.RefProg
open P2sh.Core (UnOp CPat LPat)
open P2sh.Props.C09 (specOp)
open P2sh.Core.Fn (FExpr FArms FArgs FStmt FDecl FTop Cap Sto FFlow mkFd)

/-! ## names and the embedding -/

structure Names where
  gn : Nat → String
  ln : Nat → Nat → String

structure Ctx where
  depth : Nat
  self : String
  frees : List String

def params (N : Names) (d np : Nat) : List String := (List.range np).map (N.ln d)

def capName (N : Names) (c : Ctx) : Cap → String
  | .loc i => N.ln c.depth i
  | .free j => c.frees.getD j ""
  | .self => c.self

def toPatL : LPat → Pat
  | .lit l (.int v) => .pint l v
  | .lit l (.char c) => .pchar l c
  | .lit l (.byte b) => .pbyte l b
  | .lit l (.str s) => .pstr l s
  | .lit l _ => .prange l ".." .invalid .invalid
  | .bool l b => .pbool l b
  | .range l incl lo hi => .prange l (if incl then "..=" else "..") (litAst l lo) (litAst l hi)
  | .dflt l => .pdef l

mutual
def toAstF (N : Names) (c : Ctx) : FExpr → Expr
  | .lit l v => litAst l v
  | .tru l => .bool l true
  | .fls l => .bool l false
  | .null l => .null l
  | .un l op e => .unary l (unSym op) (toAstF N c e)
  | .bin l op a b => .binary l (binSym op) (toAstF N c a) (toAstF N c b)
  | .lt l a b => .binary l "<" (toAstF N c a) (toAstF N c b)
  | .le l a b => .binary l "<=" (toAstF N c a) (toAstF N c b)
  | .and l a b => .binary l "&&" (toAstF N c a) (toAstF N c b)
  | .or l a b => .binary l "||" (toAstF N c a) (toAstF N c b)
  | .ite l cnd t e => .ifE l (toAstF N c cnd) (exprBlock l (toAstF N c t)) (.els (exprBlock l (toAstF N c e)))
  | .gget l i => .ident l (N.gn i) .get
  | .gset l i e => .assign l (.ident l (N.gn i) .set) (toAstF N c e)
  | .matchE l s arms => .matchE l (toAstF N c s) (toArmsF N c arms)
  | .lget l i => .ident l (N.ln c.depth i) .get
  | .lset l i e => .assign l (.ident l (N.ln c.depth i) .set) (toAstF N c e)
  | .curr l => .ident l c.self .get
  | .call l f args => .call l (toAstF N c f) (toArgsF N c args)
  | .fget l j => .ident l (c.frees.getD j "") .get
  | .fset l j e => .assign l (.ident l (c.frees.getD j "") .set) (toAstF N c e)
  | .mkclos l _ _ np _ body caps =>
    .fn l "" (params N (c.depth + 1) np) (.mk l (toStmtsF N ⟨c.depth + 1, "", caps.map (capName N c)⟩ body))
  | .arrLit l es => .arr l (toArgsF N c es)
  | .mapLit l es => .map l (toPairsF N c es)
  | .index l a i => .index l (toAstF N c a) (toAstF N c i) .get
  | .setIndex l a i e => .assign l (.index l (toAstF N c a) (toAstF N c i) .set) (toAstF N c e)
  | .bfn l i => .ident l ((Core.Fn.builtinName i).getD "") .get
def toArmsF (N : Names) (c : Ctx) : FArms → List Arm
  | .last la lp d => [.mk la [.pdef lp] (exprBlock la (toAstF N c d))]
  | .cons la pats body rest => .mk la (pats.map toPatL) (exprBlock la (toAstF N c body)) :: toArmsF N c rest
def toArgsF (N : Names) (c : Ctx) : FArgs → List Expr
  | .nil => []
  | .cons a rest => toAstF N c a :: toArgsF N c rest
def toPairsF (N : Names) (c : Ctx) : FArgs → List (Expr × Expr)
  | .cons k (.cons v rest) => (toAstF N c k, toAstF N c v) :: toPairsF N c rest
  | _ => []
def toStmtF (N : Names) (c : Ctx) : FStmt → Stmt
  | .letG l i e => .letS l i (N.gn i) (toAstF N c e)
  | .letL l i e => .letS l 0 (N.ln c.depth i) (toAstF N c e)
  | .expr l e => .exprS l (toAstF N c e)
  | .block l body => .block (.mk l (toStmtsF N c body))
  | .whileS l lbl cnd body => .whileS l lbl (toAstF N c cnd) (.mk l (toStmtsF N c body))
  | .loopS l lbl body => .loop l lbl (.mk l (toStmtsF N c body))
  | .breakS l lbl => .breakS l lbl
  | .continueS l lbl => .continueS l lbl
  | .ifS ls l cnd t e =>
    .exprS ls (.ifE l (toAstF N c cnd) (.mk l (toStmtsF N c t)) (.els (.mk l (toStmtsF N c e))))
  | .ret l e => .ret l (some (toAstF N c e))
  | .retN l => .ret l none
def toStmtsF (N : Names) (c : Ctx) : List FStmt → List Stmt
  | [] => []
  | s :: rest => toStmtF N c s :: toStmtsF N c rest
end

def topCtx : Ctx := ⟨0, "", []⟩
def fnCtx (N : Names) (gi : Nat) : Ctx := ⟨1, N.gn gi, []⟩

def toTop (N : Names) : FTop → Stmt
  | .stmt s => toStmtF N topCtx s
  | .fnDef l gi _ _ d => .fnS l gi (N.gn gi) (params N 1 d.np) (.mk d.line (toStmtsF N (fnCtx N gi) d.body))
  | .fnSet ls l gi _ _ d =>
    .exprS ls (.assign l (.ident l (N.gn gi) .set) (.fn d.line "" (params N 1 d.np) (.mk d.line (toStmtsF N ⟨1, "", []⟩ d.body))))

def toTops (N : Names) : List FTop → List Stmt
  | [] => []
  | t :: rest => toTop N t :: toTops N rest

/-! ## Core.Fn: more fuel never changes a result -/

section Mono
variable (Φ : FnDef → Option FDecl)

structure Mono (fuel : Nat) : Prop where
  E : ∀ cx σ e r f', fuel ≤ f' → Core.Fn.evalE Φ fuel cx σ e = some r → Core.Fn.evalE Φ f' cx σ e = some r
  Arms : ∀ cx σ w a r f', fuel ≤ f' → Core.Fn.evalArms Φ fuel cx σ w a = some r → Core.Fn.evalArms Φ f' cx σ w a = some r
  Args : ∀ cx σ a r f', fuel ≤ f' → Core.Fn.evalArgs Φ fuel cx σ a = some r → Core.Fn.evalArgs Φ f' cx σ a = some r
  S : ∀ cx σ s r f', fuel ≤ f' → Core.Fn.evalS Φ fuel cx σ s = some r → Core.Fn.evalS Φ f' cx σ s = some r
  P : ∀ cx σ ss r f', fuel ≤ f' → Core.Fn.evalP Φ fuel cx σ ss = some r → Core.Fn.evalP Φ f' cx σ ss = some r

theorem mono_succ (fuel : Nat) (ih : Mono Φ fuel) : Mono Φ (fuel + 1) := by
  have hE := ih.E
  have hA := ih.Arms
  have hG := ih.Args
  have hS := ih.S
  have hP := ih.P
  refine ⟨?_, ?_, ?_, ?_, ?_⟩
  · intro cx σ e r f' hle h
    obtain ⟨m, rfl⟩ : ∃ m, f' = m + 1 := ⟨f' - 1, by omega⟩
    have hm : fuel ≤ m := by omega
    cases e with
    | call l f args =>
      simp only [Core.Fn.evalE] at h ⊢
      cases hef : Core.Fn.evalE Φ fuel cx σ f with
      | none => simp [hef] at h
      | some rf =>
        obtain ⟨vf, σ1⟩ := rf
        rw [hE _ _ _ _ m hm hef]
        simp only [hef] at h ⊢
        cases hea : Core.Fn.evalArgs Φ fuel cx σ1 args with
        | none => simp [hea] at h
        | some ra =>
          obtain ⟨vs, σ2⟩ := ra
          rw [hG _ _ _ _ m hm hea]
          simp only [hea] at h ⊢
          cases vf with
          | clos fd free id =>
            simp only at h ⊢
            cases hΦ : Φ fd with
            | none => simp [hΦ] at h
            | some d =>
              simp only [hΦ] at h ⊢
              by_cases hlen : vs.length = d.np
              · rw [if_pos hlen] at h ⊢
                simp only [Sto.enter_eq, Sto.back_eq] at h ⊢
                cases hb : Core.Fn.evalP Φ fuel (some (fd, id)) ⟨vs ++ List.replicate (d.nl - d.np) Val.null, σ2.g, σ2.h, σ2.a⟩ d.body with
                | none => simp [hb] at h
                | some rb => rw [hP _ _ _ _ m hm hb]; simp only [hb] at h; exact h
              · simp [hlen] at h
          | builtin name => exact h
          | _ => simp at h
    | setIndex l c i e =>
      simp only [Core.Fn.evalE] at h ⊢
      cases hef : Core.Fn.evalE Φ fuel cx σ e with
      | none => simp [hef] at h
      | some rf =>
        obtain ⟨vf, σ1⟩ := rf
        rw [hE _ _ _ _ m hm hef]
        simp only [hef] at h ⊢
        grind
    | _ => simp only [Core.Fn.evalE] at h ⊢ <;> grind
  · intro cx σ w a r f' hle h
    obtain ⟨m, rfl⟩ : ∃ m, f' = m + 1 := ⟨f' - 1, by omega⟩
    have hm : fuel ≤ m := by omega
    cases a <;> simp only [Core.Fn.evalArms] at h ⊢ <;> grind
  · intro cx σ a r f' hle h
    obtain ⟨m, rfl⟩ : ∃ m, f' = m + 1 := ⟨f' - 1, by omega⟩
    have hm : fuel ≤ m := by omega
    cases a <;> simp only [Core.Fn.evalArgs] at h ⊢ <;> grind
  · intro cx σ s r f' hle h
    obtain ⟨m, rfl⟩ : ∃ m, f' = m + 1 := ⟨f' - 1, by omega⟩
    have hm : fuel ≤ m := by omega
    cases s <;> simp only [Core.Fn.evalS] at h ⊢ <;> grind
  · intro cx σ ss r f' hle h
    obtain ⟨m, rfl⟩ : ∃ m, f' = m + 1 := ⟨f' - 1, by omega⟩
    have hm : fuel ≤ m := by omega
    cases ss <;> simp only [Core.Fn.evalP] at h ⊢ <;> grind

theorem mono_all : ∀ fuel, Mono Φ fuel
  | 0 => ⟨by intro _ _ _ _ _ _ h; simp [Core.Fn.evalE] at h, by intro _ _ _ _ _ _ _ h; simp [Core.Fn.evalArms] at h,
          by intro _ _ _ _ _ _ h; simp [Core.Fn.evalArgs] at h, by intro _ _ _ _ _ _ h; simp [Core.Fn.evalS] at h,
          by intro _ _ _ _ _ _ h; simp [Core.Fn.evalP] at h⟩
  | fuel+1 => mono_succ Φ fuel (mono_all fuel)

/-- an evaluation never changes the number of global slots -/
structure GLen (fuel : Nat) : Prop where
  E : ∀ cx σ e v σ', Core.Fn.evalE Φ fuel cx σ e = some (v, σ') → σ'.g.length = σ.g.length
  Arms : ∀ cx σ w a v σ', Core.Fn.evalArms Φ fuel cx σ w a = some (v, σ') → σ'.g.length = σ.g.length
  Args : ∀ cx σ a vs σ', Core.Fn.evalArgs Φ fuel cx σ a = some (vs, σ') → σ'.g.length = σ.g.length
  S : ∀ cx σ s σ' f bv, Core.Fn.evalS Φ fuel cx σ s = some (σ', f, bv) → σ'.g.length = σ.g.length
  P : ∀ cx σ ss σ' f bv, Core.Fn.evalP Φ fuel cx σ ss = some (σ', f, bv) → σ'.g.length = σ.g.length

theorem glen_succ (fuel : Nat) (ih : GLen Φ fuel) : GLen Φ (fuel + 1) := by
  have hE := ih.E
  have hA := ih.Arms
  have hG := ih.Args
  have hS := ih.S
  have hP := ih.P
  refine ⟨?_, ?_, ?_, ?_, ?_⟩
  · intro cx σ e v σ' he
    cases e with
    | call l f args =>
      simp only [Core.Fn.evalE] at he
      cases hef : Core.Fn.evalE Φ fuel cx σ f with
      | none => simp [hef] at he
      | some rf =>
        obtain ⟨vf, σ1⟩ := rf
        simp only [hef] at he
        cases hea : Core.Fn.evalArgs Φ fuel cx σ1 args with
        | none => simp [hea] at he
        | some ra =>
          obtain ⟨vs, σ2⟩ := ra
          simp only [hea] at he
          have h1 := hE _ _ _ _ _ hef
          have h2 := hG _ _ _ _ _ hea
          cases vf with
          | clos fd free id =>
            simp only at he
            cases hΦ : Φ fd with
            | none => simp [hΦ] at he
            | some d =>
              simp only [hΦ] at he
              by_cases hlen : vs.length = d.np
              · rw [if_pos hlen] at he
                simp only [Sto.enter_eq, Sto.back_eq] at he
                cases hb : Core.Fn.evalP Φ fuel (some (fd, id)) ⟨vs ++ List.replicate (d.nl - d.np) Val.null, σ2.g, σ2.h, σ2.a⟩ d.body with
                | none => simp [hb] at he
                | some rb =>
                  obtain ⟨σ3, fl, bv⟩ := rb
                  have h3 := hP _ _ _ _ _ _ hb
                  simp only [hb] at he
                  cases fl <;> simp at he <;> (obtain ⟨-, rfl⟩ := he; simp at h3 ⊢; omega)
              · simp [hlen] at he
          | builtin name =>
            simp only [Sto.setA_eq] at he
            cases hcb : Core.Fn.callBuiltinH σ2.a name vs with
            | none => simp [hcb] at he
            | some p => obtain ⟨r, a'⟩ := p; simp [hcb] at he; obtain ⟨-, rfl⟩ := he; simp; omega
          | _ => simp at he
    | _ => simp only [Core.Fn.evalE, Sto.setA_eq, Sto.gset_eq, Sto.lset_eq, Sto.setH_eq, Sto.pushH_eq] at he <;> grind
  · intro cx σ w a v σ' he
    cases a <;> simp only [Core.Fn.evalArms] at he <;> grind
  · intro cx σ a vs σ' he
    cases a <;> simp only [Core.Fn.evalArgs] at he <;> grind
  · intro cx σ s σ' f bv he
    cases s <;> simp only [Core.Fn.evalS, Sto.gset_eq, Sto.lset_eq] at he <;> grind
  · intro cx σ ss σ' f bv he
    cases ss <;> simp only [Core.Fn.evalP] at he <;> grind

theorem glen_all : ∀ fuel, GLen Φ fuel
  | 0 => ⟨by intro _ _ _ _ _ he; simp [Core.Fn.evalE] at he, by intro _ _ _ _ _ _ he; simp [Core.Fn.evalArms] at he,
          by intro _ _ _ _ _ he; simp [Core.Fn.evalArgs] at he, by intro _ _ _ _ _ _ he; simp [Core.Fn.evalS] at he,
          by intro _ _ _ _ _ _ he; simp [Core.Fn.evalP] at he⟩
  | fuel+1 => glen_succ Φ fuel (glen_all fuel)

end Mono

/-! ## environments of an activation: block scopes of local slots over a base -/

def upd (vals : Nat → Val) (i : Nat) (v : Val) : Nat → Val := fun j => if j = i then v else vals j

def mkScope (nm : Nat → String) (vals : Nat → Val) (is : List Nat) : Scope := is.map fun i => (nm i, Bind.l (vals i))

def mkEnv (nm : Nat → String) (V : List (List Nat)) (vals : Nat → Val) (base : Env) : Env :=
  V.map (mkScope nm vals) ++ base

section EnvLemmas
variable {nm : Nat → String} (hinj : ∀ i j, nm i = nm j → i = j)

theorem mkScope_upd_not {vals : Nat → Val} {i : Nat} {v : Val} {is : List Nat} (h : i ∉ is) :
    mkScope nm (upd vals i v) is = mkScope nm vals is := by
  unfold mkScope
  apply List.map_congr_left
  intro j hj
  have : j ≠ i := fun e => h (e ▸ hj)
  simp [upd, this]

theorem mkEnvScopes_upd_not {vals : Nat → Val} {i : Nat} {v : Val} {V : List (List Nat)} (h : i ∉ V.flatten) :
    V.map (mkScope nm (upd vals i v)) = V.map (mkScope nm vals) := by
  apply List.map_congr_left
  intro is his
  exact mkScope_upd_not (fun hi => h (List.mem_flatten.mpr ⟨is, his, hi⟩))

include hinj in
theorem lookupScope_mkScope_mem {vals : Nat → Val} {i : Nat} : ∀ {is : List Nat}, i ∈ is →
    lookupScope (nm i) (mkScope nm vals is) = some (.l (vals i))
  | [], h => by cases h
  | j :: rest, h => by
    simp only [mkScope, List.map_cons, lookupScope]
    by_cases hji : nm j = nm i
    · have := hinj j i hji; subst this; simp
    · have hne : j ≠ i := fun e => hji (by rw [e])
      have hm : i ∈ rest := by
        rcases List.mem_cons.mp h with h | h
        · exact absurd h.symm hne
        · exact h
      simp only [beq_iff_eq, hji, if_false]
      exact lookupScope_mkScope_mem hm

theorem lookupScope_mkScope_not {vals : Nat → Val} {name : String} : ∀ {is : List Nat}, (∀ i ∈ is, nm i ≠ name) →
    lookupScope name (mkScope nm vals is) = none
  | [], _ => rfl
  | j :: rest, h => by
    simp only [mkScope, List.map_cons, lookupScope]
    have hj : nm j ≠ name := h j (List.mem_cons_self ..)
    simp only [beq_iff_eq, hj, if_false]
    exact lookupScope_mkScope_not (fun i hi => h i (List.mem_cons_of_mem _ hi))

include hinj in
theorem lookupEnv_mkEnv_mem {vals : Nat → Val} {base : Env} {i : Nat} : ∀ {V : List (List Nat)}, i ∈ V.flatten →
    lookupEnv (nm i) (mkEnv nm V vals base) = some (.l (vals i))
  | [], h => by simp at h
  | is :: rest, h => by
    simp only [mkEnv, List.map_cons, List.cons_append, lookupEnv]
    by_cases hi : i ∈ is
    · rw [lookupScope_mkScope_mem hinj hi]
    · rw [lookupScope_mkScope_not (fun j hj e => hi (hinj j i e ▸ hj))]
      have : i ∈ rest.flatten := by
        simp only [List.flatten_cons, List.mem_append] at h
        exact h.resolve_left hi
      exact lookupEnv_mkEnv_mem this

theorem lookupEnv_mkEnv_other {vals : Nat → Val} {base : Env} {name : String} (h : ∀ i, nm i ≠ name) :
    ∀ {V : List (List Nat)}, lookupEnv name (mkEnv nm V vals base) = lookupEnv name base
  | [] => rfl
  | is :: rest => by
    simp only [mkEnv, List.map_cons, List.cons_append, lookupEnv]
    rw [lookupScope_mkScope_not (fun i _ => h i)]
    exact lookupEnv_mkEnv_other h

include hinj in
theorem updScope_mkScope {vals : Nat → Val} {i : Nat} {v : Val} : ∀ {is : List Nat}, i ∈ is → is.Nodup →
    updScope (nm i) v (mkScope nm vals is) = some (mkScope nm (upd vals i v) is)
  | [], h, _ => by cases h
  | j :: rest, h, hnd => by
    simp only [mkScope, List.map_cons, updScope]
    rw [List.nodup_cons] at hnd
    by_cases hji : nm j = nm i
    · have := hinj j i hji; subst this
      have := mkScope_upd_not (nm := nm) (vals := vals) (v := v) hnd.1
      simp only [mkScope] at this
      simp [upd]
      intro a ha e; subst e; exact absurd ha hnd.1
    · have hne : j ≠ i := fun e => hji (by rw [e])
      have hm : i ∈ rest := by
        rcases List.mem_cons.mp h with h | h
        · exact absurd h.symm hne
        · exact h
      have ih := updScope_mkScope (vals := vals) (v := v) hm hnd.2
      simp only [mkScope] at ih
      simp [hji, ih, upd, hne]

include hinj in
theorem updEnv_mkEnv {vals : Nat → Val} {base : Env} {i : Nat} {v : Val} : ∀ {V : List (List Nat)}, i ∈ V.flatten →
    V.flatten.Nodup → updEnv (nm i) v (mkEnv nm V vals base) = some (mkEnv nm V (upd vals i v) base)
  | [], h, _ => by simp at h
  | is :: rest, h, hnd => by
    simp only [mkEnv, List.map_cons, List.cons_append, updEnv]
    rw [List.flatten_cons, List.nodup_append] at hnd
    by_cases hi : i ∈ is
    · rw [lookupScope_mkScope_mem hinj hi, updScope_mkScope hinj hi hnd.1]
      have hnot : i ∉ rest.flatten := fun hr => hnd.2.2 i hi i hr rfl
      simp [mkEnvScopes_upd_not hnot]
    · rw [lookupScope_mkScope_not (fun j hj e => hi (hinj j i e ▸ hj))]
      have hr : i ∈ rest.flatten := by
        simp only [List.flatten_cons, List.mem_append] at h
        exact h.resolve_left hi
      have ih := updEnv_mkEnv (vals := vals) (base := base) (v := v) hr hnd.2.1
      simp only [mkEnv] at ih
      simp [ih, mkScope_upd_not hi]

theorem bindTop_mkEnv {vals : Nat → Val} {base : Env} {i : Nat} {v : Val} {V0 : List Nat} {Vt : List (List Nat)}
    (h : i ∉ (V0 :: Vt).flatten) :
    bindTop (nm i) (.l v) (mkEnv nm (V0 :: Vt) vals base) = mkEnv nm ((i :: V0) :: Vt) (upd vals i v) base := by
  have h0 : i ∉ V0 := fun hi => h (by simp [hi])
  have ht : i ∉ Vt.flatten := fun hi => h (by simp [hi])
  simp only [mkEnv, List.map_cons, List.cons_append, bindTop, mkEnvScopes_upd_not ht]
  simp [mkScope, upd]
  intro a ha e; subst e; exact absurd ha h0

theorem mkEnv_push {vals : Nat → Val} {base : Env} {V : List (List Nat)} :
    ([] : Scope) :: mkEnv nm V vals base = mkEnv nm ([] :: V) vals base := rfl

theorem mkEnv_tail {vals : Nat → Val} {base : Env} {V0 : List Nat} {Vt : List (List Nat)} :
    (mkEnv nm (V0 :: Vt) vals base).tail = mkEnv nm Vt vals base := rfl

end EnvLemmas

/-! ## values: scalars are equal, a closure of the oracle's table is a closure object of Core.Fn -/

abbrev CTab := List (FnDef × Nat)

/-- `CT[k] = (fd, hid)`: the oracle's closure `k+1` is Core.Fn's `.clos fd [] hid` -/
def VR (CT : CTab) (v w : Val) : Prop :=
  (isScalar v = true ∧ w = v) ∨ ∃ k fd hid, v = .clos emptyFn [] (k + 1) ∧ w = .clos fd [] hid ∧ CT[k]? = some (fd, hid)

theorem VR.scalar {CT : CTab} {v : Val} (h : isScalar v = true) : VR CT v v := .inl ⟨h, rfl⟩

theorem VR.mono {CT CT' : CTab} {v w : Val} (hp : CT <+: CT') (h : VR CT v w) : VR CT' v w := by
  rcases h with h | ⟨k, fd, hid, rfl, rfl, hk⟩
  · exact .inl h
  · obtain ⟨t, rfl⟩ := hp
    refine .inr ⟨k, fd, hid, rfl, rfl, ?_⟩
    have hlt : k < CT.length := by
      rcases Nat.lt_or_ge k CT.length with h | h
      · exact h
      · rw [List.getElem?_eq_none h] at hk; cases hk
    rw [List.getElem?_append_left hlt]; exact hk

theorem VR.notPoison {CT : CTab} {v w : Val} : VR CT v w → (v matches .other "poison") = false := by
  intro h
  rcases h with ⟨h, -⟩ | ⟨k, fd, hid, rfl, -, -⟩
  · exact RefCore.not_poison v h
  · rfl

theorem VR.reifyM_eq {CT : CTab} {v w : Val} (h : VR CT v w) : reifyM v = pure v := by
  rcases h with ⟨h, -⟩ | ⟨k, fd, hid, rfl, -, -⟩
  · exact reifyM_scalar h
  · rfl

theorem view_scalar (a : Heap) {v : Val} (h : isScalar v = true) : Core.Fn.view a v = v := by
  cases v <;> first | rfl | (simp [isScalar] at h)

theorem falseyH_scalar (a : Heap) {v : Val} (h : isScalar v = true) : Core.Fn.falseyH a v = v.isFalsey := by
  cases v <;> first | rfl | (simp [isScalar] at h)

theorem VR.falsey_eq {CT : CTab} {v w : Val} (a : Heap) (h : VR CT v w) : Core.Fn.falseyH a w = Spec.falsey v := by
  rcases h with ⟨h, rfl⟩ | ⟨k, fd, hid, rfl, rfl, -⟩
  · rw [falseyH_scalar a h, P2sh.Props.C06.falsey_table]
  · rfl

theorem VR.truthy_eq {CT : CTab} {v w : Val} (a : Heap) (h : VR CT v w) : Ref.truthy v = pure (!(Core.Fn.falseyH a w)) := by
  unfold Ref.truthy
  rw [h.reifyM_eq, pure_bind, h.falsey_eq a]

/-- values a relation `VR` holds of, pointwise -/
def VRs (CT : CTab) : List Val → List Val → Prop
  | [], [] => True
  | v :: vs, w :: ws => VR CT v w ∧ VRs CT vs ws
  | _, _ => False

theorem VRs.mono {CT CT' : CTab} (hp : CT <+: CT') : ∀ {vs ws : List Val}, VRs CT vs ws → VRs CT' vs ws
  | [], [], _ => True.intro
  | _ :: _, _ :: _, h => ⟨h.1.mono hp, VRs.mono hp h.2⟩
  | [], _ :: _, h => h.elim
  | _ :: _, [], h => h.elim

theorem VRs.length {CT : CTab} : ∀ {vs ws : List Val}, VRs CT vs ws → vs.length = ws.length
  | [], [], _ => rfl
  | _ :: _, _ :: _, h => by simp [VRs.length h.2]
  | [], _ :: _, h => h.elim
  | _ :: _, [], h => h.elim

theorem VRs.get {CT : CTab} : ∀ {vs ws : List Val}, VRs CT vs ws → ∀ i, i < vs.length →
    ∃ w, ws[i]? = some w ∧ VR CT (vs.getD i .null) w
  | [], [], _, i, hi => by simp at hi
  | v :: vs, w :: ws, h, 0, _ => ⟨w, rfl, h.1⟩
  | v :: vs, w :: ws, h, i+1, hi => by
    obtain ⟨w', h1, h2⟩ := VRs.get h.2 i (by simpa using hi)
    exact ⟨w', by simpa using h1, by simpa using h2⟩
  | [], _ :: _, h, _, _ => h.elim
  | _ :: _, [], h, _, _ => h.elim

/-! ## operators -/

/-- the unary operators: what the oracle fixes is what `unH` yields -/
theorem unary_bridge {CT : CTab} {v w : Val} (a : Heap) (op : UnOp) (h : VR CT v w) :
    match Spec.unary (specUn op) v with
    | .value r => Core.Fn.unH a op w = .ok r ∧ isScalar r = true
    | .error => ∃ msg, Core.Fn.unH a op w = .err msg
    | .any => True := by
  have hes := unary_scalar (specUn op) v
  rcases h with ⟨hv, hw⟩ | ⟨k, fd, hid, rfl, rfl, -⟩
  · rw [hw]
    cases op
    · simp only [specUn, Spec.unary]
      exact ⟨by simp [Core.Fn.unH, falseyH_scalar a hv, P2sh.Props.C06.falsey_table], rfl⟩
    · have hspec := P2sh.Props.C09.unary_spec .minus v
      have hes' : ExpScalar (Spec.unary .minus v) := hes
      simp only [specUn]
      generalize Spec.unary Spec.UnOp.minus v = ex at hspec hes' ⊢
      cases ex
      · exact ⟨hspec, hes'⟩
      · exact hspec
      · trivial
    · have hspec := P2sh.Props.C09.unary_spec .bnot v
      have hes' : ExpScalar (Spec.unary .bnot v) := hes
      simp only [specUn]
      generalize Spec.unary Spec.UnOp.bnot v = ex at hspec hes' ⊢
      cases ex
      · exact ⟨hspec, hes'⟩
      · exact hspec
      · trivial
  · cases op
    · exact ⟨rfl, rfl⟩
    · exact ⟨_, rfl⟩
    · exact ⟨_, rfl⟩

theorem opH_scalar (a : Heap) (op : Operator) {l r v : Val} (hl : isScalar l = true) (hr : isScalar r = true)
    (hv : isScalar v = true) (h : execOperator op l r = .ok v) : Core.Fn.opH a op l r = .same v := by
  unfold Core.Fn.opH Core.Fn.cmpH
  rw [view_scalar a hl, view_scalar a hr, h]
  cases v <;> first | rfl | (simp [isScalar] at hv)
  case bool b => cases b <;> rfl

theorem opH_err (a : Heap) (op : Operator) {l r : Val} {msg : String} (hl : Core.Fn.view a l = l) (hr : Core.Fn.view a r = r)
    (h : execOperator op l r = .err msg) : Core.Fn.opH a op l r = .fail := by
  unfold Core.Fn.opH Core.Fn.cmpH
  rw [hl, hr, h]

/-- what `applyBinary` may do on related operands -/
def OpOutF (a : Heap) (op : Operator) (wl wr : Val) (s : St) : Except Err Val × St → Prop
  | (.ok v, s') => s' = s ∧ isScalar v = true ∧ Core.Fn.opH a op wl wr = .same v
  | (.error (.rt _), _) => Core.Fn.opH a op wl wr = .fail
  | (.error _, _) => True

theorem spec_clos_left (sop : Spec.Op) (f : FnDef) (fr : List Val) (id : Nat) (r : Val) :
    Spec.binary sop (.clos f fr id) r = .any ∨ Spec.binary sop (.clos f fr id) r = .error := by
  cases sop <;> cases r <;> first | exact .inl rfl | exact .inr rfl

theorem spec_clos_right (sop : Spec.Op) (f : FnDef) (fr : List Val) (id : Nat) (l : Val) :
    Spec.binary sop l (.clos f fr id) = .any ∨ Spec.binary sop l (.clos f fr id) = .error := by
  cases sop <;> cases l <;> first | exact .inl rfl | exact .inr rfl

theorem spec_irr_left (sop : Spec.Op) (f f' : FnDef) (fr fr' : List Val) (id id' : Nat) (r : Val) :
    Spec.binary sop (.clos f fr id) r = Spec.binary sop (.clos f' fr' id') r := by
  cases sop <;> cases r <;> rfl

theorem spec_irr_right (sop : Spec.Op) (f f' : FnDef) (fr fr' : List Val) (id id' : Nat) (l : Val) :
    Spec.binary sop l (.clos f fr id) = Spec.binary sop l (.clos f' fr' id') := by
  cases sop <;> cases l <;> rfl

theorem VR.view_eq {CT : CTab} {v w : Val} (a : Heap) (h : VR CT v w) : Core.Fn.view a w = w := by
  rcases h with ⟨h, rfl⟩ | ⟨k, fd, hid, rfl, rfl, -⟩
  · exact view_scalar a h
  · rfl

theorem VR.spec_eq {CT : CTab} {vl wl vr wr : Val} (sop : Spec.Op) (hl : VR CT vl wl) (hr : VR CT vr wr) :
    Spec.binary sop wl wr = Spec.binary sop vl vr := by
  rcases hl with ⟨-, rfl⟩ | ⟨k, fd, hid, rfl, rfl, -⟩ <;> rcases hr with ⟨-, rfl⟩ | ⟨k', fd', hid', rfl, rfl, -⟩
  · rfl
  · exact spec_irr_right ..
  · exact spec_irr_left ..
  · exact (spec_irr_left ..).trans (spec_irr_right ..)

theorem applyBinary_clos_left (line : Nat) (sop : Spec.Op) (f : FnDef) (fr : List Val) (id : Nat) (r : Val)
    (hr : reifyM r = pure r) :
    applyBinary line sop (.clos f fr id) r = (ofExpect line (Spec.binary sop (.clos f fr id) r) >>= fun v => reflectM v) := by
  unfold applyBinary
  rw [show reifyM (.clos f fr id) = pure (.clos f fr id) from rfl, hr]
  simp only [pure_bind]

theorem applyBinary_clos_right (line : Nat) (sop : Spec.Op) (f : FnDef) (fr : List Val) (id : Nat) (l : Val)
    (hl : reifyM l = pure l) :
    applyBinary line sop l (.clos f fr id) = (ofExpect line (Spec.binary sop l (.clos f fr id)) >>= fun v => reflectM v) := by
  unfold applyBinary
  rw [show reifyM (.clos f fr id) = pure (.clos f fr id) from rfl, hl]
  simp only [pure_bind]

theorem opOutF_clos {CT : CTab} {vl wl vr wr : Val} (a : Heap) (line : Nat) (op : Operator) (hl : VR CT vl wl) (hr : VR CT vr wr) (s : St)
    (hc : Spec.binary (specOp op) vl vr = .any ∨ Spec.binary (specOp op) vl vr = .error)
    (hw : (∃ f fr id, wl = .clos f fr id) ∨ (∃ f fr id, wr = .clos f fr id)) :
    OpOutF a op wl wr s (run (ofExpect line (Spec.binary (specOp op) vl vr) >>= fun v => reflectM v) s) := by
  rcases hc with hc | hc
  · rw [hc]; exact True.intro
  · rw [hc]
    show Core.Fn.opH a op wl wr = .fail
    have hsp := P2sh.Props.C09.binary_spec op wl wr (by
      rintro - ⟨-, s1, n1, (⟨h1, h2⟩ | ⟨h1, h2⟩), -⟩
      · rcases hw with ⟨_, _, _, h⟩ | ⟨_, _, _, h⟩
        · rw [h] at h1; cases h1
        · rw [h] at h2; cases h2
      · rcases hw with ⟨_, _, _, h⟩ | ⟨_, _, _, h⟩
        · rw [h] at h1; cases h1
        · rw [h] at h2; cases h2)
    rw [VR.spec_eq _ hl hr, hc] at hsp
    obtain ⟨msg, hm⟩ := hsp
    exact opH_err a op (hl.view_eq a) (hr.view_eq a) hm

theorem binary_bridge {CT : CTab} {vl wl vr wr : Val} (a : Heap) (line : Nat) (op : Operator) (hl : VR CT vl wl) (hr : VR CT vr wr) (s : St) :
    OpOutF a op wl wr s (run (applyBinary line (specOp op) vl vr) s) := by
  rcases hl with ⟨hsl, hwl⟩ | ⟨k, fd, hid, hvl, hwl, hk⟩
  · rcases hr with ⟨hsr, hwr⟩ | ⟨k', fd', hid', hvr, hwr, hk'⟩
    · subst hwl hwr
      have h := run_applyBinary line op wl wr hsl hsr s
      generalize run (applyBinary line (specOp op) wl wr) s = o at h ⊢
      rcases o with ⟨er | v, s1⟩
      · cases er <;> first | exact True.intro | skip
        obtain ⟨msg, hm⟩ := h
        exact opH_err a op (view_scalar a hsl) (view_scalar a hsr) hm
      · obtain ⟨h0, h1, h2⟩ := h
        exact ⟨h0, h2, opH_scalar a op hsl hsr h2 h1⟩
    · have hl' : VR CT vl wl := .inl ⟨hsl, hwl⟩
      have hr' : VR CT vr wr := .inr ⟨k', fd', hid', hvr, hwr, hk'⟩
      subst hvr
      rw [applyBinary_clos_right _ _ _ _ _ _ hl'.reifyM_eq]
      exact opOutF_clos a line op hl' hr' s (spec_clos_right ..) (.inr ⟨_, _, _, hwr⟩)
  · have hl' : VR CT vl wl := .inr ⟨k, fd, hid, hvl, hwl, hk⟩
    subst hvl
    rw [applyBinary_clos_left _ _ _ _ _ _ hr.reifyM_eq]
    exact opOutF_clos a line op hl' hr s (spec_clos_left ..) (.inl ⟨_, _, _, hwl⟩)

/-! ## `match`: patterns -/

theorem toPatL_eq (p : LPat) : toPatL p = toPat p.line (Core.erasePat p) := by
  cases p with
  | lit l v => cases v <;> rfl
  | bool l b => rfl
  | range l incl lo hi => rfl
  | dflt l => rfl

/-- `RefCore.run_patMatches`, with the fact that a pattern on which the oracle commits is one source text denotes -/
def PatOut' (v : Val) (p : CPat) (s : St) : Except Err Bool × St → Prop
  | (.ok b, s') => s' = s ∧ Core.patTest v p = some b ∧ patOK p = true
  | (.error (.rt _), _) => False
  | (.error _, _) => True

theorem run_patMatches' (ln : Nat) (v : Val) (p : CPat) (s : St) :
    PatOut' v p s (run (patMatches v (toPat ln p)) s) := by
  have h := run_patMatches ln v p s
  by_cases hok : patOK p = true
  · generalize run (patMatches v (toPat ln p)) s = o at h ⊢
    rcases o with ⟨er | b, s1⟩
    · cases er <;> first | exact h | exact True.intro
    · exact ⟨h.1, h.2, hok⟩
  · have hunc : run (patMatches v (toPat ln p)) s = (.error .unc, s) := by
      cases p with
      | dflt => simp [patOK] at hok
      | bool b => simp [patOK] at hok
      | lit w => cases w <;> first | (simp [patOK] at hok; done) | (cases v <;> rfl)
      | range incl lo hi =>
        cases lo <;> cases hi <;> first | (simp [patOK] at hok; done) | (cases v <;> rfl)
    rw [hunc]; exact True.intro

theorem patOK_lit {w : Val} (h : patOK (.lit w) = true) : isScalar w = true := by
  cases w <;> first | rfl | (simp [patOK] at h)

theorem patOK_range {incl : Bool} {lo hi : Val} (h : patOK (.range incl lo hi) = true) : isScalar lo = true ∧ isScalar hi = true := by
  cases lo <;> cases hi <;> first | exact ⟨rfl, rfl⟩ | (simp [patOK] at h)

theorem patTestH_eq (a : Heap) {v : Val} (hv : Core.Fn.view a v = v) : ∀ cp : CPat, patOK cp = true →
    Core.Fn.patTestH a v cp = Core.patTest v cp
  | .dflt, _ => rfl
  | .bool b, _ => by
    simp only [Core.Fn.patTestH, Core.Fn.cmpH, Core.patTest]
    rw [hv, view_scalar a (show isScalar (.bool b) = true from rfl)]
    cases execOperator .notEqual v (.bool b) <;> rfl
  | .lit w, h => by
    simp only [Core.Fn.patTestH, Core.Fn.cmpH, Core.patTest]
    rw [hv, view_scalar a (patOK_lit h)]
    cases execOperator .notEqual v w <;> rfl
  | .range incl lo hi, h => by
    simp only [Core.Fn.patTestH, Core.Fn.cmpH, Core.patTest]
    rw [hv, view_scalar a (patOK_range h).1, view_scalar a (patOK_range h).2]
    cases execOperator .greaterEq v lo with
    | ok r1 =>
      dsimp only
      split
      · rfl
      · cases execOperator (if incl then Operator.greater else Operator.greaterEq) v hi <;> rfl
    | err m => rfl
    | panic m => rfl

/-- what the oracle's `patMatches` may do, against the pattern test of Core.Fn -/
def PatOutF (a : Heap) (w : Val) (p : CPat) (s : St) : Except Err Bool × St → Prop
  | (.ok b, s') => s' = s ∧ Core.Fn.patTestH a w p = some b
  | (.error (.rt _), _) => False
  | (.error _, _) => True

theorem pat_bridge_clos (a : Heap) (s : St) (f f' : FnDef) (fr fr' : List Val) (id id' : Nat) (p : LPat) :
    PatOutF a (.clos f' fr' id') (Core.erasePat p) s (run (patMatches (.clos f fr id) (toPatL p)) s) := by
  have hv : Core.Fn.view a (.clos f' fr' id') = .clos f' fr' id' := rfl
  cases p with
  | dflt l => exact ⟨rfl, rfl⟩
  | bool l b =>
    refine ⟨rfl, ?_⟩
    simp [Core.erasePat, Core.Fn.patTestH, Core.Fn.cmpH, hv, view_scalar a (show isScalar (.bool b) = true from rfl),
      execOperator, Val.eq, Val.isFalsey]
  | lit l w =>
    cases w <;> first
      | exact True.intro
      | (refine ⟨rfl, ?_⟩
         simp [Core.erasePat, Core.Fn.patTestH, Core.Fn.cmpH, hv, Core.Fn.view, reify, execOperator, Val.eq, Val.isFalsey])
  | range l incl lo hi => exact True.intro

theorem pat_bridge {CT : CTab} {v w : Val} (a : Heap) (s : St) (hvw : VR CT v w) (p : LPat) :
    PatOutF a w (Core.erasePat p) s (run (patMatches v (toPatL p)) s) := by
  rcases hvw with ⟨hs, rfl⟩ | ⟨k, fd, hid, rfl, rfl, -⟩
  · have h := run_patMatches' p.line w (Core.erasePat p) s
    rw [← toPatL_eq] at h
    generalize run (patMatches w (toPatL p)) s = o at h ⊢
    rcases o with ⟨er | b, s1⟩
    · cases er <;> first | exact h | exact True.intro
    · exact ⟨h.1, by rw [patTestH_eq a (view_scalar a hs) _ h.2.2]; exact h.2.1⟩
  · exact pat_bridge_clos a s _ _ _ _ _ _ p

def HitOutF (hit0 : Bool) (a : Heap) (w : Val) (cps : List CPat) (s : St) : Except Err Bool × St → Prop
  | (.ok b, s') => s' = s ∧ (if hit0 then b = true else Core.Fn.patsTestH a w cps = some b)
  | (.error (.rt _), _) => False
  | (.error _, _) => True

theorem run_hitLoopF {CT : CTab} {v w : Val} (a : Heap) (hvw : VR CT v w) (s : St) :
    ∀ (ps : List LPat) (hit0 : Bool), HitOutF hit0 a w (ps.map Core.erasePat) s (run (hitLoop hit0 v (ps.map toPatL)) s)
  | [], hit0 => by
    simp only [List.map_nil]
    rw [hitLoop_nil]
    cases hit0 <;> exact ⟨rfl, rfl⟩
  | p :: ps, hit0 => by
    simp only [List.map_cons]
    rw [hitLoop_cons, run_bind]
    cases hit0 with
    | true =>
      have := run_hitLoopF a hvw s ps true
      simp only [if_true, run_pure]
      revert this
      rcases run (hitLoop true v (ps.map toPatL)) s with ⟨er | b', s2⟩
      · exact id
      · rintro ⟨rfl, hb⟩; exact ⟨rfl, hb⟩
    | false =>
      have hp := pat_bridge a s hvw p
      revert hp
      simp only [Bool.false_eq_true, if_false]
      rcases run (patMatches v (toPatL p)) s with ⟨er | b, s1⟩
      · cases er <;> intro h <;> first | exact h.elim | exact True.intro
      · rintro ⟨rfl, hpt⟩
        have := run_hitLoopF a hvw s1 ps b
        revert this
        show HitOutF b a w (ps.map Core.erasePat) s1 (run (hitLoop b v (ps.map toPatL)) s1) →
          HitOutF false a w ((p :: ps).map Core.erasePat) s1 (run (hitLoop b v (ps.map toPatL)) s1)
        rcases run (hitLoop b v (ps.map toPatL)) s1 with ⟨er | b', s2⟩
        · cases er <;> exact id
        · rintro ⟨rfl, hb⟩
          refine ⟨rfl, ?_⟩
          cases b with
          | true =>
            simp only [if_true] at hb
            simp [Core.Fn.patsTestH, hpt, hb]
          | false =>
            simp only [Bool.false_eq_true, if_false] at hb ⊢
            simp [Core.Fn.patsTestH, hpt, hb]

/-! ## fuel-indexed evaluations of Core.Fn against runs of the oracle -/

abbrev FM (α : Type) := Nat → Option α

def FMono {α : Type} (m : FM α) : Prop := ∀ k k' r, k ≤ k' → m k = some r → m k' = some r

theorem FMono.const {α : Type} (o : Option α) : FMono (fun _ => o) := fun _ _ _ _ h => h

theorem FMono.bind {α β : Type} {a : FM α} {F : α → FM β} (ha : FMono a) (hF : ∀ x, FMono (F x)) :
    FMono (fun k => (a k).bind fun x => F x k) := by
  intro k k' r hle h
  cases hx : a k with
  | none => simp [hx] at h
  | some x =>
    simp only [hx, Option.bind_some] at h
    simp only [ha k k' x hle hx, Option.bind_some]
    exact hF x k k' r hle h

theorem FMono.det {α : Type} {m : FM α} (h : FMono m) {k1 k2 : Nat} {r1 r2 : α} (h1 : m k1 = some r1) (h2 : m k2 = some r2) :
    r1 = r2 := by
  have a := h k1 (max k1 k2) r1 (Nat.le_max_left ..) h1
  have b := h k2 (max k1 k2) r2 (Nat.le_max_right ..) h2
  rw [a] at b; exact Option.some.inj b

theorem FMono.ite {α : Type} {c : Prop} [Decidable c] {a b : FM α} (ha : FMono a) (hb : FMono b) :
    FMono (fun k => if c then a k else b k) := by
  by_cases hc : c <;> simp only [hc, if_true, if_false] <;> assumption

def Post {α β : Type} (Q : α → β → St → Prop) (ev : FM β) : Except Err α × St → Prop :=
  Res (fun a s' => ∃ k b, ev k = some b ∧ Q a b s') (∀ k, ev k = none)

theorem Post.bind {α α' β β' : Type} {Qa : α → α' → St → Prop} {Q : β → β' → St → Prop} {m : M α} {f : α → M β}
    {a : FM α'} {F : α' → FM β'} {s : St} (ha : FMono a) (hF : ∀ x, FMono (F x))
    (hm : Post Qa a (run m s)) (hk : ∀ x y s', Qa x y s' → Post Q (F y) (run (f x) s')) :
    Post Q (fun k => (a k).bind fun y => F y k) (run (m >>= f) s) := by
  refine Res.bind hm ?_ ?_
  · intro h k; simp [h k]
  · rintro x s' ⟨k0, y, hy, hq⟩
    refine Res.mono ?_ ?_ (hk x y s' hq)
    · rintro b s2 ⟨k1, r, hr, hq2⟩
      refine ⟨max k0 k1, r, ?_, hq2⟩
      simp only [ha k0 _ y (Nat.le_max_left ..) hy, Option.bind_some]
      exact hF y k1 _ r (Nat.le_max_right ..) hr
    · intro h k
      show (a k).bind (fun y => F y k) = none
      cases hx : a k with
      | none => rfl
      | some x' =>
        obtain rfl := ha.det hx hy
        exact h k

theorem Post.shift {α β : Type} {Q : α → β → St → Prop} {ev ev' : FM β} {o : Except Err α × St}
    (h0 : ev 0 = none) (hs : ∀ k, ev (k + 1) = ev' k) (h : Post Q ev' o) : Post Q ev o := by
  refine Res.mono ?_ ?_ h
  · rintro a s ⟨k, b, hb, hq⟩; exact ⟨k + 1, b, by rw [hs]; exact hb, hq⟩
  · intro hn k
    cases k with
    | zero => exact h0
    | succ k => rw [hs]; exact hn k

theorem Post.congr {α β : Type} {Q : α → β → St → Prop} {ev ev' : FM β} {o : Except Err α × St}
    (he : ∀ k, ev k = ev' k) (h : Post Q ev' o) : Post Q ev o := by
  have : ev = ev' := funext he
  rw [this]; exact h

theorem Post.mono {α β : Type} {Q Q' : α → β → St → Prop} {ev : FM β} {o : Except Err α × St}
    (hQ : ∀ a b s, Q a b s → Q' a b s) (h : Post Q ev o) : Post Q' ev o :=
  Res.mono (fun a s ⟨k, b, hb, hq⟩ => ⟨k, b, hb, hQ a b s hq⟩) id h

theorem Post.ok {α β : Type} {Q : α → β → St → Prop} {ev : FM β} {a : α} {s : St} (k : Nat) (b : β)
    (hb : ev k = some b) (hq : Q a b s) : Post Q ev (.ok a, s) := ⟨k, b, hb, hq⟩

theorem Post.bind_hit {α β : Type} {Q : α → β → St → Prop} {ev : FM β} {hit0 : Bool} {a : Heap} {w : Val} {cps : List CPat} {s : St}
    {m : M Bool} {K : Bool → M α} (h : HitOutF hit0 a w cps s (run m s))
    (hk : ∀ b, (if hit0 then b = true else Core.Fn.patsTestH a w cps = some b) → Post Q ev (run (K b) s)) :
    Post Q ev (run (m >>= K) s) := by
  rw [run_bind]
  revert h
  rcases run m s with ⟨er | b, s1⟩
  · cases er <;> intro h <;> first | exact h.elim | exact True.intro
  · rintro ⟨rfl, hb⟩; exact hk b hb

/-! ## Core.Fn's evaluators as binds -/

section CoreEq
variable (Φ : FnDef → Option FDecl)

theorem mono_E (cx : Option (FnDef × Nat)) (σ : Sto) (e : FExpr) : FMono (fun k => Core.Fn.evalE Φ k cx σ e) :=
  fun k k' r hle h => (mono_all Φ k).E cx σ e r k' hle h
theorem mono_Args (cx : Option (FnDef × Nat)) (σ : Sto) (e : FArgs) : FMono (fun k => Core.Fn.evalArgs Φ k cx σ e) :=
  fun k k' r hle h => (mono_all Φ k).Args cx σ e r k' hle h
theorem mono_S (cx : Option (FnDef × Nat)) (σ : Sto) (e : FStmt) : FMono (fun k => Core.Fn.evalS Φ k cx σ e) :=
  fun k k' r hle h => (mono_all Φ k).S cx σ e r k' hle h
theorem mono_P (cx : Option (FnDef × Nat)) (σ : Sto) (e : List FStmt) : FMono (fun k => Core.Fn.evalP Φ k cx σ e) :=
  fun k k' r hle h => (mono_all Φ k).P cx σ e r k' hle h

def unK (op : UnOp) (p : Val × Sto) : Option (Val × Sto) :=
  match Core.Fn.unH p.2.a op p.1 with
  | .ok r => some (r, p.2)
  | _ => none

def opK (op : Operator) (va : Val) (q : Val × Sto) : Option (Val × Sto) :=
  match Core.Fn.opH q.2.a op va q.1 with
  | .same r => some (r, q.2)
  | .new r a' => some (r, q.2.setA a')
  | .fail => none

macro "fe_tac" : tactic =>
  `(tactic| (simp only [Core.Fn.evalE, Core.Fn.evalS, Core.Fn.evalP, Core.Fn.evalArgs]
             repeat' (first | rfl | (split <;> simp_all (config := {failIfUnchanged := false}) [unK, opK]))))

theorem fE_zero (cx : Option (FnDef × Nat)) (σ : Sto) (e : FExpr) : Core.Fn.evalE Φ 0 cx σ e = none := by
  simp [Core.Fn.evalE]
theorem fArgs_zero (cx : Option (FnDef × Nat)) (σ : Sto) (e : FArgs) : Core.Fn.evalArgs Φ 0 cx σ e = none := by
  simp [Core.Fn.evalArgs]
theorem fS_zero (cx : Option (FnDef × Nat)) (σ : Sto) (e : FStmt) : Core.Fn.evalS Φ 0 cx σ e = none := by
  simp [Core.Fn.evalS]
theorem fP_zero (cx : Option (FnDef × Nat)) (σ : Sto) (e : List FStmt) : Core.Fn.evalP Φ 0 cx σ e = none := by
  simp [Core.Fn.evalP]

theorem fE_un (k : Nat) (cx : Option (FnDef × Nat)) (σ : Sto) (l : Nat) (op : UnOp) (e : FExpr) :
    Core.Fn.evalE Φ (k+1) cx σ (.un l op e) = (Core.Fn.evalE Φ k cx σ e).bind (unK op) := by
  simp only [Core.Fn.evalE]
  cases Core.Fn.evalE Φ k cx σ e with
  | none => rfl
  | some p => obtain ⟨v, σ1⟩ := p; simp only [Option.bind_some, unK]; split <;> simp_all

theorem fE_bin (k : Nat) (cx : Option (FnDef × Nat)) (σ : Sto) (l : Nat) (op : Operator) (a b : FExpr) :
    Core.Fn.evalE Φ (k+1) cx σ (.bin l op a b) =
      (Core.Fn.evalE Φ k cx σ a).bind fun p => (Core.Fn.evalE Φ k cx p.2 b).bind (opK op p.1) := by
  simp only [Core.Fn.evalE]
  cases Core.Fn.evalE Φ k cx σ a with
  | none => rfl
  | some p =>
    obtain ⟨v, σ1⟩ := p
    simp only [Option.bind_some]
    cases Core.Fn.evalE Φ k cx σ1 b with
    | none => rfl
    | some q => obtain ⟨w, σ2⟩ := q; simp only [Option.bind_some, opK]; split <;> simp_all

theorem fE_lt (k : Nat) (cx : Option (FnDef × Nat)) (σ : Sto) (l : Nat) (a b : FExpr) :
    Core.Fn.evalE Φ (k+1) cx σ (.lt l a b) =
      (Core.Fn.evalE Φ k cx σ b).bind fun p => (Core.Fn.evalE Φ k cx p.2 a).bind (opK .greater p.1) := by
  simp only [Core.Fn.evalE]
  cases Core.Fn.evalE Φ k cx σ b with
  | none => rfl
  | some p =>
    obtain ⟨v, σ1⟩ := p
    simp only [Option.bind_some]
    cases Core.Fn.evalE Φ k cx σ1 a with
    | none => rfl
    | some q => obtain ⟨w, σ2⟩ := q; simp only [Option.bind_some, opK]; split <;> simp_all

theorem fE_le (k : Nat) (cx : Option (FnDef × Nat)) (σ : Sto) (l : Nat) (a b : FExpr) :
    Core.Fn.evalE Φ (k+1) cx σ (.le l a b) =
      (Core.Fn.evalE Φ k cx σ b).bind fun p => (Core.Fn.evalE Φ k cx p.2 a).bind (opK .greaterEq p.1) := by
  simp only [Core.Fn.evalE]
  cases Core.Fn.evalE Φ k cx σ b with
  | none => rfl
  | some p =>
    obtain ⟨v, σ1⟩ := p
    simp only [Option.bind_some]
    cases Core.Fn.evalE Φ k cx σ1 a with
    | none => rfl
    | some q => obtain ⟨w, σ2⟩ := q; simp only [Option.bind_some, opK]; split <;> simp_all

theorem fE_and (k : Nat) (cx : Option (FnDef × Nat)) (σ : Sto) (l : Nat) (a b : FExpr) :
    Core.Fn.evalE Φ (k+1) cx σ (.and l a b) =
      (Core.Fn.evalE Φ k cx σ a).bind fun p => if Core.Fn.falseyH p.2.a p.1 then some p else Core.Fn.evalE Φ k cx p.2 b := by
  simp only [Core.Fn.evalE]
  cases Core.Fn.evalE Φ k cx σ a with
  | none => rfl
  | some p => rfl

theorem fE_or (k : Nat) (cx : Option (FnDef × Nat)) (σ : Sto) (l : Nat) (a b : FExpr) :
    Core.Fn.evalE Φ (k+1) cx σ (.or l a b) =
      (Core.Fn.evalE Φ k cx σ a).bind fun p => if Core.Fn.falseyH p.2.a p.1 then Core.Fn.evalE Φ k cx p.2 b else some p := by
  simp only [Core.Fn.evalE]
  cases Core.Fn.evalE Φ k cx σ a with
  | none => rfl
  | some p => rfl

theorem fE_ite (k : Nat) (cx : Option (FnDef × Nat)) (σ : Sto) (l : Nat) (c t e : FExpr) :
    Core.Fn.evalE Φ (k+1) cx σ (.ite l c t e) =
      (Core.Fn.evalE Φ k cx σ c).bind fun p =>
        if Core.Fn.falseyH p.2.a p.1 then Core.Fn.evalE Φ k cx p.2 e else Core.Fn.evalE Φ k cx p.2 t := by
  simp only [Core.Fn.evalE]
  cases Core.Fn.evalE Φ k cx σ c with
  | none => rfl
  | some p => rfl

theorem fArms_zero (cx : Option (FnDef × Nat)) (σ : Sto) (w : Val) (e : FArms) : Core.Fn.evalArms Φ 0 cx σ w e = none := by
  simp [Core.Fn.evalArms]

theorem mono_Arms (cx : Option (FnDef × Nat)) (σ : Sto) (w : Val) (e : FArms) : FMono (fun k => Core.Fn.evalArms Φ k cx σ w e) :=
  fun k k' r hle h => (mono_all Φ k).Arms cx σ w e r k' hle h

theorem fE_match (k : Nat) (cx : Option (FnDef × Nat)) (σ : Sto) (l : Nat) (sc : FExpr) (arms : FArms) :
    Core.Fn.evalE Φ (k+1) cx σ (.matchE l sc arms) =
      (Core.Fn.evalE Φ k cx σ sc).bind fun p => Core.Fn.evalArms Φ k cx p.2 p.1 arms := by
  simp only [Core.Fn.evalE]
  cases Core.Fn.evalE Φ k cx σ sc with
  | none => rfl
  | some p => rfl

theorem fArms_last (k : Nat) (cx : Option (FnDef × Nat)) (σ : Sto) (w : Val) (la lp : Nat) (d : FExpr) :
    Core.Fn.evalArms Φ (k+1) cx σ w (.last la lp d) = Core.Fn.evalE Φ k cx σ d := by
  simp only [Core.Fn.evalArms]

theorem fArms_cons_true (k : Nat) (cx : Option (FnDef × Nat)) (σ : Sto) (w : Val) (la : Nat) (pats : List LPat) (body : FExpr) (rest : FArms)
    (h : Core.Fn.patsTestH σ.a w (pats.map Core.erasePat) = some true) :
    Core.Fn.evalArms Φ (k+1) cx σ w (.cons la pats body rest) = Core.Fn.evalE Φ k cx σ body := by
  simp only [Core.Fn.evalArms, h]

theorem fArms_cons_false (k : Nat) (cx : Option (FnDef × Nat)) (σ : Sto) (w : Val) (la : Nat) (pats : List LPat) (body : FExpr) (rest : FArms)
    (h : Core.Fn.patsTestH σ.a w (pats.map Core.erasePat) = some false) :
    Core.Fn.evalArms Φ (k+1) cx σ w (.cons la pats body rest) = Core.Fn.evalArms Φ k cx σ w rest := by
  simp only [Core.Fn.evalArms, h]

theorem fE_gset (k : Nat) (cx : Option (FnDef × Nat)) (σ : Sto) (l i : Nat) (e : FExpr) :
    Core.Fn.evalE Φ (k+1) cx σ (.gset l i e) =
      (Core.Fn.evalE Φ k cx σ e).bind fun p => if i < p.2.g.length then some (p.1, p.2.gset i p.1) else none := by
  simp only [Core.Fn.evalE]
  cases Core.Fn.evalE Φ k cx σ e with
  | none => rfl
  | some p => rfl

theorem fE_lset (k : Nat) (cx : Option (FnDef × Nat)) (σ : Sto) (l i : Nat) (e : FExpr) :
    Core.Fn.evalE Φ (k+1) cx σ (.lset l i e) =
      (Core.Fn.evalE Φ k cx σ e).bind fun p => if i < p.2.l.length then some (p.1, p.2.lset i p.1) else none := by
  simp only [Core.Fn.evalE]
  cases Core.Fn.evalE Φ k cx σ e with
  | none => rfl
  | some p => rfl

/-- the call of the function value `wf` on the argument values `ws` -/
def callF (k : Nat) (wf : Val) (ws : List Val) (σ2 : Sto) : Option (Val × Sto) :=
  match wf with
  | .clos fd _ id =>
    (match Φ fd with
     | some d =>
       if ws.length = d.np then
         (match Core.Fn.evalP Φ k (some (fd, id)) (σ2.enter (ws ++ List.replicate (d.nl - d.np) .null)) d.body with
          | some (σ3, .ret v, _) => some (v, σ2.back σ3)
          | some (σ3, .normal, bv) => some (bv, σ2.back σ3)
          | _ => none)
       else none
     | none => none)
  | .builtin name =>
    (match Core.Fn.callBuiltinH σ2.a name ws with
     | some (r, a') => some (r, σ2.setA a')
     | none => none)
  | _ => none

theorem fE_call (k : Nat) (cx : Option (FnDef × Nat)) (σ : Sto) (l : Nat) (f : FExpr) (args : FArgs) :
    Core.Fn.evalE Φ (k+1) cx σ (.call l f args) =
      (Core.Fn.evalE Φ k cx σ f).bind fun p => (Core.Fn.evalArgs Φ k cx p.2 args).bind fun q => callF Φ k p.1 q.1 q.2 := by
  simp only [Core.Fn.evalE]
  cases Core.Fn.evalE Φ k cx σ f with
  | none => rfl
  | some p =>
    obtain ⟨vf, σ1⟩ := p
    simp only [Option.bind_some]
    cases Core.Fn.evalArgs Φ k cx σ1 args with
    | none => rfl
    | some q => obtain ⟨vs, σ2⟩ := q; rfl

theorem fArgs_cons (k : Nat) (cx : Option (FnDef × Nat)) (σ : Sto) (a : FExpr) (rest : FArgs) :
    Core.Fn.evalArgs Φ (k+1) cx σ (.cons a rest) =
      (Core.Fn.evalE Φ k cx σ a).bind fun p => (Core.Fn.evalArgs Φ k cx p.2 rest).bind fun q => some (p.1 :: q.1, q.2) := by
  simp only [Core.Fn.evalArgs]
  cases Core.Fn.evalE Φ k cx σ a with
  | none => rfl
  | some p =>
    obtain ⟨v, σ1⟩ := p
    simp only [Option.bind_some]
    cases Core.Fn.evalArgs Φ k cx σ1 rest with
    | none => rfl
    | some q => rfl

def exprSK (p : Val × Sto) : Option (Sto × FFlow × Val) := some (p.2, .normal, p.1)
def letLK (i : Nat) (p : Val × Sto) : Option (Sto × FFlow × Val) :=
  if i < p.2.l.length then some (p.2.lset i p.1, .normal, .null) else none
def blockSK (q : Sto × FFlow × Val) : Option (Sto × FFlow × Val) := some (q.1, q.2.1, .null)
def retSK (p : Val × Sto) : Option (Sto × FFlow × Val) := some (p.2, .ret p.1, .null)
def loopSK (k : Nat) (cx : Option (FnDef × Nat)) (lbl : Option String) (loop : FStmt) (q : Sto × FFlow × Val) :
    Option (Sto × FFlow × Val) :=
  match Core.Fn.floopAct lbl q.2.1 with
  | .again => Core.Fn.evalS Φ k cx q.1 loop
  | .exit => some (q.1, .normal, .null)
  | .propagate => some (q.1, q.2.1, .null)
def stmtsSK (k : Nat) (cx : Option (FnDef × Nat)) (rest : List FStmt) (q : Sto × FFlow × Val) : Option (Sto × FFlow × Val) :=
  match q.2.1 with
  | .normal =>
    (match rest with
     | [] => some (q.1, .normal, q.2.2)
     | _ :: _ => Core.Fn.evalP Φ k cx q.1 rest)
  | f => some (q.1, f, .null)

theorem fS_expr (k : Nat) (cx : Option (FnDef × Nat)) (σ : Sto) (l : Nat) (e : FExpr) :
    Core.Fn.evalS Φ (k+1) cx σ (.expr l e) = (Core.Fn.evalE Φ k cx σ e).bind exprSK := by
  simp only [Core.Fn.evalS]
  cases Core.Fn.evalE Φ k cx σ e with
  | none => rfl
  | some p => rfl

theorem fS_letL (k : Nat) (cx : Option (FnDef × Nat)) (σ : Sto) (l i : Nat) (e : FExpr) :
    Core.Fn.evalS Φ (k+1) cx σ (.letL l i e) = (Core.Fn.evalE Φ k cx σ e).bind (letLK i) := by
  simp only [Core.Fn.evalS]
  cases Core.Fn.evalE Φ k cx σ e with
  | none => rfl
  | some p => rfl

theorem fS_letG (k : Nat) (cx : Option (FnDef × Nat)) (σ : Sto) (l i : Nat) (e : FExpr) :
    Core.Fn.evalS Φ (k+1) cx σ (.letG l i e) =
      (Core.Fn.evalE Φ k cx σ e).bind fun p => if i < p.2.g.length then some (p.2.gset i p.1, .normal, .null) else none := by
  simp only [Core.Fn.evalS]
  cases Core.Fn.evalE Φ k cx σ e with
  | none => rfl
  | some p => rfl

theorem fS_block (k : Nat) (cx : Option (FnDef × Nat)) (σ : Sto) (l : Nat) (body : List FStmt) :
    Core.Fn.evalS Φ (k+1) cx σ (.block l body) = (Core.Fn.evalP Φ k cx σ body).bind blockSK := by
  simp only [Core.Fn.evalS]
  cases Core.Fn.evalP Φ k cx σ body with
  | none => rfl
  | some p => rfl

theorem fS_loop (k : Nat) (cx : Option (FnDef × Nat)) (σ : Sto) (l : Nat) (lbl : Option String) (body : List FStmt) :
    Core.Fn.evalS Φ (k+1) cx σ (.loopS l lbl body) =
      (Core.Fn.evalP Φ k cx σ body).bind (loopSK Φ k cx lbl (.loopS l lbl body)) := by
  simp only [Core.Fn.evalS]
  cases Core.Fn.evalP Φ k cx σ body with
  | none => rfl
  | some p => obtain ⟨σ2, f, v⟩ := p; simp only [Option.bind_some, loopSK]; split <;> simp_all

theorem fS_while (k : Nat) (cx : Option (FnDef × Nat)) (σ : Sto) (l : Nat) (lbl : Option String) (c : FExpr) (body : List FStmt) :
    Core.Fn.evalS Φ (k+1) cx σ (.whileS l lbl c body) =
      (Core.Fn.evalE Φ k cx σ c).bind fun p =>
        if Core.Fn.falseyH p.2.a p.1 then some (p.2, .normal, .null)
        else (Core.Fn.evalP Φ k cx p.2 body).bind (loopSK Φ k cx lbl (.whileS l lbl c body)) := by
  simp only [Core.Fn.evalS]
  cases Core.Fn.evalE Φ k cx σ c with
  | none => rfl
  | some p =>
    obtain ⟨vc, σ1⟩ := p
    simp only [Option.bind_some]
    split
    · rfl
    · cases Core.Fn.evalP Φ k cx σ1 body with
      | none => rfl
      | some p => obtain ⟨σ2, f, v⟩ := p; simp only [Option.bind_some, loopSK]; split <;> simp_all

theorem fS_ifS (k : Nat) (cx : Option (FnDef × Nat)) (σ : Sto) (ls l : Nat) (c : FExpr) (thn els : List FStmt) :
    Core.Fn.evalS Φ (k+1) cx σ (.ifS ls l c thn els) =
      (Core.Fn.evalE Φ k cx σ c).bind fun p =>
        if Core.Fn.falseyH p.2.a p.1 then Core.Fn.evalP Φ k cx p.2 els else Core.Fn.evalP Φ k cx p.2 thn := by
  simp only [Core.Fn.evalS]
  cases Core.Fn.evalE Φ k cx σ c with
  | none => rfl
  | some p => rfl

theorem fS_ret (k : Nat) (x : FnDef × Nat) (σ : Sto) (l : Nat) (e : FExpr) :
    Core.Fn.evalS Φ (k+1) (some x) σ (.ret l e) = (Core.Fn.evalE Φ k (some x) σ e).bind retSK := by
  simp only [Core.Fn.evalS]
  cases Core.Fn.evalE Φ k (some x) σ e with
  | none => rfl
  | some p => rfl

theorem fS_retN (k : Nat) (x : FnDef × Nat) (σ : Sto) (l : Nat) :
    Core.Fn.evalS Φ (k+1) (some x) σ (.retN l) = some (σ, .ret .null, .null) := by
  simp only [Core.Fn.evalS]

theorem fP_cons (k : Nat) (cx : Option (FnDef × Nat)) (σ : Sto) (s : FStmt) (rest : List FStmt) :
    Core.Fn.evalP Φ (k+1) cx σ (s :: rest) = (Core.Fn.evalS Φ k cx σ s).bind (stmtsSK Φ k cx rest) := by
  simp only [Core.Fn.evalP]
  cases Core.Fn.evalS Φ k cx σ s with
  | none => rfl
  | some p =>
    obtain ⟨σ1, f, v⟩ := p
    simp only [Option.bind_some, stmtsSK]
    cases f <;> rfl

end CoreEq

/-! ## equations of the oracle for the constructs with functions -/

theorem evalE_ident_l (f : Nat) (env : Env) (l : Nat) (name : String) (acc : Access) (v : Val)
    (h : lookupEnv name env = some (.l v)) : evalE (f+1) env (.ident l name acc) = pure (.val v env) := by
  rw [evalE]; simp only [h]

def poisonK (env : Env) (r : Val) : M (R Val) :=
  if (r matches .other "poison") then throw .unc else pure (.val r env)

theorem evalE_ident_cap (f : Nat) (env : Env) (l : Nat) (name : String) (acc : Access) (v : Val)
    (h : lookupEnv name env = some (.cap v)) : evalE (f+1) env (.ident l name acc) = poisonK env v := by
  rw [evalE]; simp only [h]; rfl

theorem evalE_gget' (f : Nat) (env : Env) (l : Nat) (name : String) (acc : Access) (c : Nat)
    (h : lookupEnv name env = some (.g c)) :
    evalE (f+1) env (.ident l name acc) = getCell c >>= poisonK env := by
  rw [evalE]; simp only [h]; rfl

theorem poisonK_ok {CT : CTab} {v w : Val} (env : Env) (h : VR CT v w) : poisonK env v = pure (.val v env) := by
  rcases h with ⟨hs, -⟩ | ⟨k, fd, hid, rfl, -, -⟩
  · cases v <;> first | rfl | (simp [isScalar] at hs)
  · rfl

theorem assignIdent_l {name : String} {v w : Val} {env env' : Env} (h : lookupEnv name env = some (.l w))
    (hu : updEnv name v env = some env') : assignIdent name v env = pure (.val v env') := by
  unfold assignIdent; simp only [h, hu]

/-- callee, arguments, the call: what a call expression and a call statement share -/
def callCore (f : Nat) (env : Env) (l : Nat) (fn : Expr) (args : List Expr) (K : Env → Val → M (R Val)) : M (R Val) :=
  bindR (evalE f env fn) fun vf env => bindR (evalArgs f env args) fun vargs env => callValue f l vf vargs >>= K env

theorem evalE_call (f : Nat) (env : Env) (l : Nat) (fn : Expr) (args : List Expr) :
    evalE (f+1) env (.call l fn args) = callCore f env l fn args poisonK := by
  rw [evalE]; unfold callCore; bindR_eq

theorem evalStmt_exprCall (f : Nat) (env : Env) (ls l : Nat) (fn : Expr) (args : List Expr) :
    evalStmt (f+1) env (.exprS ls (.call l fn args)) =
      callCore f env l fn args (fun env r => pure (.val r env)) >>= exprK := by
  rw [evalStmt]
  unfold callCore bindR
  simp only [bind_assoc]
  apply bind_congr_fun; intro r
  cases r with
  | jump fl env1 => simp only [pure_bind]; rfl
  | val vf env1 =>
    simp only [bind_assoc]
    apply bind_congr_fun; intro r
    cases r with
    | jump fl env2 => simp only [pure_bind]; rfl
    | val vs env2 => simp only [bind_assoc, pure_bind]; rfl

def capB : Bind → Bind
  | .l v => .cap v
  | b => b

theorem captureEnv_eq (env : Env) : captureEnv env = env.flatten.map fun p => (p.1, capB p.2) := by
  rw [captureEnv]
  apply List.map_congr_left
  rintro ⟨n, b⟩ _
  cases b <;> rfl

theorem lookupScope_map_capB (name : String) : ∀ sc : Scope,
    lookupScope name (sc.map fun p => (p.1, capB p.2)) = (lookupScope name sc).map capB
  | [] => rfl
  | (n, b) :: rest => by
    simp only [List.map_cons, lookupScope]
    by_cases h : (n == name) = true
    · simp [h]
    · simp only [h, Bool.false_eq_true, if_false]
      exact lookupScope_map_capB name rest

theorem lookupScope_append (name : String) : ∀ (a b : Scope),
    lookupScope name (a ++ b) = (match lookupScope name a with | some x => some x | none => lookupScope name b)
  | [], b => rfl
  | (n, x) :: rest, b => by
    simp only [List.cons_append, lookupScope]
    by_cases h : (n == name) = true
    · simp [h]
    · simp only [h, Bool.false_eq_true, if_false]
      exact lookupScope_append name rest b

theorem lookupScope_flatten (name : String) : ∀ env : Env, lookupScope name env.flatten = lookupEnv name env
  | [] => rfl
  | sc :: rest => by
    rw [List.flatten_cons, lookupScope_append, lookupScope_flatten name rest]
    simp only [lookupEnv]
    cases lookupScope name sc <;> rfl

theorem lookupScope_captureEnv (name : String) (env : Env) :
    lookupScope name (captureEnv env) = (lookupEnv name env).map capB := by
  rw [captureEnv_eq, lookupScope_map_capB, lookupScope_flatten]

theorem evalE_fn (f : Nat) (env : Env) (l : Nat) (name : String) (ps : List String) (body : Block) :
    evalE (f+1) env (.fn l name ps body) =
      mkClos { name := name, params := ps, body := body, captured := captureEnv env, line := l } >>= fun c => pure (.val c env) := by
  rw [evalE]

theorem run_mkClos_bind {β : Type} (c : RClos) (K : Val → M β) (s : St) :
    run (mkClos c >>= K) s = run (K (.clos emptyFn [] (s.clos.length + 1))) { s with clos := s.clos ++ [c] } := rfl

theorem evalArgs_zero (env : Env) (es : List Expr) : evalArgs 0 env es = throw .fuel := by rw [evalArgs]

theorem evalArgs_nil (f : Nat) (env : Env) : evalArgs (f+1) env [] = pure (.val [] env) := by
  rw [evalArgs]; exact Nat.succ_ne_zero _

theorem evalArgs_cons (f : Nat) (env : Env) (e : Expr) (es : List Expr) :
    evalArgs (f+1) env (e :: es) = bindR (evalE f env e) fun v env =>
      bindR (evalArgs f env es) fun vs env => pure (.val (v :: vs) env) := by
  rw [evalArgs]; bindR_eq

theorem evalStmt_retN (f : Nat) (env : Env) (l : Nat) : evalStmt (f+1) env (.ret l none) = pure (.ret .null, .null, env) := by
  rw [evalStmt]

def retK : R Val → M (Flow × Val × Env)
  | .val v env => pure (.ret v, .null, env)
  | .jump fl env => pure (fl, .null, env)

theorem evalStmt_ret (f : Nat) (env : Env) (l : Nat) (e : Expr) :
    evalStmt (f+1) env (.ret l (some e)) = evalE f env e >>= retK := by
  rw [evalStmt]
  apply bind_congr_fun; intro r; cases r <;> rfl

/-! ## the fragment -/

def visAfter : FStmt → List Nat → List Nat
  | .letL _ i _, vis => i :: vis
  | _, vis => vis

def defs : List FStmt → List Nat → List Nat
  | [], acc => acc
  | s :: rest, acc => defs rest (visAfter s acc)

theorem visAfter_append (s : FStmt) (a b : List Nat) : visAfter s (a ++ b) = visAfter s a ++ b := by
  cases s <;> rfl

def setTop (x : List Nat) : List (List Nat) → List (List Nat)
  | [] => []
  | _ :: Vt => x :: Vt

def lastRet (ss : List FStmt) : Bool :=
  match ss.getLast? with
  | some s => s.isRet
  | none => false

def lastExpr (ss : List FStmt) : Bool :=
  match ss.getLast? with
  | some s => s.isExprStmt
  | none => false

/-- a function body may end in an expression statement, an `if`, a `let`, a `return`, or be empty (the
value of a body that ends in a block or a loop is not specified by the oracle) -/
def lastOK (ss : List FStmt) : Bool :=
  match ss.getLast? with
  | some (.letL ..) | some (.expr ..) | some (.ifS ..) | some (.ret ..) | some (.retN ..) | none => true
  | _ => false

def okCap (c : Ctx) (vis : List Nat) : Cap → Bool
  | .loc i => vis.contains i
  | .free j => decide (j < c.frees.length)
  | .self => c.self != ""

def paramVis (np : Nat) : List Nat := (List.range np).reverse

open Classical in
mutual
/-- the expressions covered: literals, operators, `&&`/`||`, `if`/`else`, globals below the horizon `gh`, the
visible local slots `vis` (inside a function), the function's own name, calls, captured variables (reads),
function literals whose captured variables are visible and whose function constant `Φ` maps to their
declaration (the only non-computable test: `Φ` is an arbitrary function).
Excluded: `match`, assignment to captured variables, arrays, maps, builtins. -/
noncomputable def okE (N : Names) (Φ : FnDef → Option FDecl) (c : Ctx) (gh nl : Nat) (vis : List Nat) : FExpr → Bool
  | .lit .. | .tru _ | .fls _ | .null _ => true
  | .un _ _ e => okE N Φ c gh nl vis e
  | .bin _ _ a b | .lt _ a b | .le _ a b | .and _ a b | .or _ a b => okE N Φ c gh nl vis a && okE N Φ c gh nl vis b
  | .ite _ cnd t e => okE N Φ c gh nl vis cnd && okE N Φ c gh nl vis t && okE N Φ c gh nl vis e
  | .gget _ i => decide (i < gh)
  | .gset _ i e => decide (i < gh) && okE N Φ c gh nl vis e
  | .lget _ i => decide (0 < c.depth) && vis.contains i
  | .lset _ i e => decide (0 < c.depth) && vis.contains i && okE N Φ c gh nl vis e
  | .curr _ => c.self != ""
  | .call _ f args => okE N Φ c gh nl vis f && okArgs N Φ c gh nl vis args
  | .fget _ j => decide (j < c.frees.length)
  | .matchE _ s arms => okE N Φ c gh nl vis s && okArms N Φ c gh nl vis arms
  | .mkclos l code lines np nl' body caps =>
    caps.all (okCap c vis) && decide (np ≤ nl') &&
    decide (Φ (mkFd code lines ⟨np, nl', body, l⟩) = some ⟨np, nl', body, l⟩) &&
    okP N Φ ⟨c.depth + 1, "", caps.map (capName N c)⟩ gh nl' (paramVis np) body && lastOK body
  | _ => false
noncomputable def okArms (N : Names) (Φ : FnDef → Option FDecl) (c : Ctx) (gh nl : Nat) (vis : List Nat) : FArms → Bool
  | .last _ _ d => okE N Φ c gh nl vis d
  | .cons _ _ body rest => okE N Φ c gh nl vis body && okArms N Φ c gh nl vis rest
noncomputable def okArgs (N : Names) (Φ : FnDef → Option FDecl) (c : Ctx) (gh nl : Nat) (vis : List Nat) : FArgs → Bool
  | .nil => true
  | .cons a rest => okE N Φ c gh nl vis a && okArgs N Φ c gh nl vis rest
noncomputable def okS (N : Names) (Φ : FnDef → Option FDecl) (c : Ctx) (gh nl : Nat) (vis : List Nat) : FStmt → Bool
  | .letG .. => false
  | .letL _ i e => decide (0 < c.depth) && !vis.contains i && decide (i < nl) && okE N Φ c gh nl vis e
  | .expr _ e => okE N Φ c gh nl vis e
  | .block _ body => okP N Φ c gh nl vis body
  | .whileS _ _ cnd body => okE N Φ c gh nl vis cnd && okP N Φ c gh nl vis body
  | .loopS _ _ body => okP N Φ c gh nl vis body
  | .breakS .. | .continueS .. => true
  | .ifS _ _ cnd t e => okE N Φ c gh nl vis cnd && okP N Φ c gh nl vis t && okP N Φ c gh nl vis e
  | .ret _ e => decide (0 < c.depth) && okE N Φ c gh nl vis e
  | .retN _ => decide (0 < c.depth)
noncomputable def okP (N : Names) (Φ : FnDef → Option FDecl) (c : Ctx) (gh nl : Nat) (vis : List Nat) : List FStmt → Bool
  | [] => true
  | s :: rest => okS N Φ c gh nl vis s && okP N Φ c gh nl (visAfter s vis) rest
end

structure NamesOK (N : Names) : Prop where
  gn_inj : ∀ i j, N.gn i = N.gn j → i = j
  ln_inj : ∀ d d' i j, N.ln d i = N.ln d' j → d = d' ∧ i = j
  gn_ln : ∀ i d j, N.gn i ≠ N.ln d j
  gn_key : ∀ i, N.gn i ≠ selfKey
  ln_key : ∀ d i, N.ln d i ≠ selfKey
  gn_ne : ∀ i, N.gn i ≠ ""
  ln_ne : ∀ d i, N.ln d i ≠ ""

/-! ## the relation between the two configurations -/

section Rel
variable (N : Names) (Φ : FnDef → Option FDecl)

/-- the oracle's closure `c` is Core.Fn's function constant `fd` with the closure object `hid` -/
def ClosEntry (CT : CTab) (h : List (List Val)) (n : Nat) (c : RClos) (fd : FnDef) (hid : Nat) : Prop :=
  ∃ (d : FDecl) (cx : Ctx) (gh : Nat), Φ fd = some d ∧ c.name = cx.self ∧ c.params = params N cx.depth d.np ∧
    c.body.stmts = toStmtsF N cx d.body ∧ 0 < cx.depth ∧ d.np ≤ d.nl ∧ gh ≤ n ∧
    okP N Φ cx gh d.nl (paramVis d.np) d.body = true ∧ lastOK d.body = true ∧
    (∀ j, j < gh → N.gn j ≠ cx.self ∧ lookupScope (N.gn j) c.captured = some (.g j)) ∧
    (∀ j name, cx.frees[j]? = some name → (∀ d' i, cx.depth ≤ d' → N.ln d' i ≠ name) ∧ name ≠ cx.self ∧ name ≠ selfKey ∧ name ≠ "" ∧
      ∃ v w, lookupScope name c.captured = some (.cap v) ∧ Core.Fn.freeGet h hid j = some w ∧ VR CT v w) ∧
    (∀ d' i, N.ln d' i ≠ cx.self) ∧ cx.self ≠ selfKey

structure Inv (CT : CTab) (n : Nat) (st : St) (σ : Sto) : Prop where
  closLen : st.clos.length = CT.length
  clos : ∀ (k : Nat) fd hid, CT[k]? = some (fd, hid) → ∃ c, st.clos[k]? = some c ∧ ClosEntry N Φ CT σ.h n c fd hid
  cellsLen : st.cells.length = n
  gLen : n ≤ σ.g.length
  cells : ∀ j, j < n → ∃ v w, st.cells[j]? = some v ∧ σ.g[j]? = some w ∧ VR CT v w
  fresh : ∀ i, n ≤ i → st.sites.find? (·.1 == i) = none

/-- the static data of an activation -/
structure Act where
  c : Ctx
  gh : Nat
  nl : Nat
  base : Env
  cx : Option (FnDef × Nat)

structure Frame (A : Act) (CT : CTab) (V : List (List Nat)) (vals : Nat → Val) (σ : Sto) : Prop where
  nodup : V.flatten.Nodup
  locals : ∀ i ∈ V.flatten, ∃ w, σ.l[i]? = some w ∧ VR CT (vals i) w
  lLen : σ.l.length = A.nl
  globals : ∀ j, j < A.gh → lookupEnv (N.gn j) A.base = some (.g j)
  self : A.c.self ≠ "" → (∀ d' i, N.ln d' i ≠ A.c.self) ∧ A.c.self ≠ selfKey ∧
    ∃ vf fd id, lookupEnv A.c.self A.base = some (.cap vf) ∧ A.cx = some (fd, id) ∧ VR CT vf (.clos fd [] id)
  frees : ∀ j name, A.c.frees[j]? = some name → (∀ d' i, A.c.depth ≤ d' → N.ln d' i ≠ name) ∧ name ≠ "" ∧ name ≠ selfKey ∧
    ∃ v w fd id, A.cx = some (fd, id) ∧ lookupEnv name A.base = some (.cap v) ∧ Core.Fn.freeGet σ.h id j = some w ∧ VR CT v w
  infn : 0 < A.c.depth → (∃ x, A.cx = some x) ∧ isGlobalEnv A.base = false ∧ V ≠ []

structure Next (A : Act) (n : Nat) (CT : CTab) (σ : Sto) (V : List (List Nat)) (CT' : CTab) (vals' : Nat → Val) (st' : St) (σ' : Sto) : Prop where
  ext : CT <+: CT'
  hext : σ.h <+: σ'.h
  inv : Inv N Φ CT' n st' σ'
  frame : Frame N A CT' V vals' σ'

theorem freeGet_prefix {h h' : List (List Val)} {id j : Nat} {w : Val} (hp : h <+: h')
    (hg : Core.Fn.freeGet h id j = some w) : Core.Fn.freeGet h' id j = some w := by
  obtain ⟨t, rfl⟩ := hp
  unfold Core.Fn.freeGet at hg ⊢
  cases hid : h[id]? with
  | none => simp [hid] at hg
  | some fr =>
    have hlt : id < h.length := by
      rcases Nat.lt_or_ge id h.length with h1 | h1
      · exact h1
      · rw [List.getElem?_eq_none h1] at hid; cases hid
    rw [List.getElem?_append_left hlt, hid]
    simpa [hid] using hg

variable {N Φ}

theorem ClosEntry.mono {CT CT' : CTab} {h h' : List (List Val)} {n n' : Nat} {c : RClos} {fd : FnDef} {hid : Nat}
    (hc : CT <+: CT') (hh : h <+: h') (hn : n ≤ n') (he : ClosEntry N Φ CT h n c fd hid) : ClosEntry N Φ CT' h' n' c fd hid := by
  obtain ⟨d, cx, gh, h1, h2, h3, h4, h5, h6, h7, h8, h9, h10, h11, h12⟩ := he
  refine ⟨d, cx, gh, h1, h2, h3, h4, h5, h6, Nat.le_trans h7 hn, h8, h9, h10, ?_, h12⟩
  intro j name hj
  obtain ⟨a1, a2, a3, a4, v, w, b1, b2, b3⟩ := h11 j name hj
  exact ⟨a1, a2, a3, a4, v, w, b1, freeGet_prefix hh b2, b3.mono hc⟩

theorem Inv.of_gh {CT : CTab} {n : Nat} {st : St} {σ σ' : Sto} (hg : σ'.g = σ.g) (hh : σ'.h = σ.h) (h : Inv N Φ CT n st σ) :
    Inv N Φ CT n st σ' :=
  ⟨h.closLen, by rw [hh]; exact h.clos, h.cellsLen, by rw [hg]; exact h.gLen, by rw [hg]; exact h.cells, h.fresh⟩

theorem Inv.of_active {CT : CTab} {n : Nat} {st : St} {σ : Sto} (h : Inv N Φ CT n st σ) (act : List Nat) :
    Inv N Φ CT n { st with active := act } σ :=
  ⟨h.closLen, h.clos, h.cellsLen, h.gLen, h.cells, h.fresh⟩

theorem Inv.gset {CT : CTab} {n : Nat} {st : St} {σ : Sto} {j : Nat} {v w : Val} (h : Inv N Φ CT n st σ) (hj : j < n)
    (hv : VR CT v w) : Inv N Φ CT n { st with cells := st.cells.set j v } (σ.gset j w) := by
  refine ⟨h.closLen, h.clos, by simp [h.cellsLen], by simp [h.gLen], ?_, h.fresh⟩
  intro i hi
  obtain ⟨v0, w0, h1, h2, h3⟩ := h.cells i hi
  by_cases hij : j = i
  · subst hij
    have hlc : j < st.cells.length := by rw [h.cellsLen]; exact hj
    have hlg : j < σ.g.length := Nat.lt_of_lt_of_le hj h.gLen
    exact ⟨v, w, by simp [hlc], by simp [hlg], hv⟩
  · exact ⟨v0, w0, by simp [List.getElem?_set_ne hij, h1], by simp [List.getElem?_set_ne hij, h2], h3⟩

theorem Frame.mono {A : Act} {CT CT' : CTab} {V : List (List Nat)} {vals : Nat → Val} {σ σ' : Sto}
    (hc : CT <+: CT') (hl : σ'.l = σ.l) (hh : σ.h <+: σ'.h) (h : Frame N A CT V vals σ) : Frame N A CT' V vals σ' := by
  refine ⟨h.nodup, ?_, by rw [hl]; exact h.lLen, h.globals, ?_, ?_, h.infn⟩
  · intro i hi
    obtain ⟨w, h1, h2⟩ := h.locals i hi
    exact ⟨w, by rw [hl]; exact h1, h2.mono hc⟩
  · intro hs
    obtain ⟨h0, h0', vf, fd, id, h1, h2, h3⟩ := h.self hs
    exact ⟨h0, h0', vf, fd, id, h1, h2, h3.mono hc⟩
  · intro j name hj
    obtain ⟨h0, h0a, h0b, v, w, fd, id, h1, h2, h3, h4⟩ := h.frees j name hj
    exact ⟨h0, h0a, h0b, v, w, fd, id, h1, h2, freeGet_prefix hh h3, h4.mono hc⟩

theorem Frame.lset {A : Act} {CT : CTab} {V : List (List Nat)} {vals : Nat → Val} {σ : Sto} {i : Nat} {v w : Val}
    (h : Frame N A CT V vals σ) (hv : VR CT v w) : Frame N A CT V (upd vals i v) (σ.lset i w) := by
  refine ⟨h.nodup, ?_, by simp [h.lLen], h.globals, h.self, h.frees, h.infn⟩
  intro j hj
  obtain ⟨w0, h1, h2⟩ := h.locals j hj
  by_cases hij : j = i
  · subst hij
    have hlt : j < σ.l.length := by
      rcases Nat.lt_or_ge j σ.l.length with h3 | h3
      · exact h3
      · rw [List.getElem?_eq_none h3] at h1; cases h1
    exact ⟨w, by simp [hlt], by simpa [upd] using hv⟩
  · exact ⟨w0, by simp [List.getElem?_set_ne (Ne.symm hij), h1], by simpa [upd, hij] using h2⟩

theorem Frame.bindL {A : Act} {CT : CTab} {V0 : List Nat} {Vt : List (List Nat)} {vals : Nat → Val} {σ : Sto} {i : Nat} {v w : Val}
    (h : Frame N A CT (V0 :: Vt) vals σ) (hv : VR CT v w) (hi : i ∉ (V0 :: Vt).flatten) (hlt : i < σ.l.length) :
    Frame N A CT ((i :: V0) :: Vt) (upd vals i v) (σ.lset i w) := by
  have h' := h.lset (i := i) hv
  refine ⟨?_, ?_, h'.lLen, h.globals, h.self, h.frees, fun hd => ⟨(h.infn hd).1, (h.infn hd).2.1, by simp⟩⟩
  · have := h.nodup
    simp only [List.flatten_cons, List.cons_append] at this hi ⊢
    exact List.nodup_cons.mpr ⟨hi, this⟩
  · intro j hj
    simp only [List.flatten_cons, List.cons_append, List.mem_cons] at hj
    rcases hj with rfl | hj
    · exact ⟨w, by simp [hlt], by simpa [upd] using hv⟩
    · exact h'.locals j (by simpa using hj)

theorem Frame.push {A : Act} {CT : CTab} {V : List (List Nat)} {vals : Nat → Val} {σ : Sto}
    (h : Frame N A CT V vals σ) : Frame N A CT ([] :: V) vals σ :=
  ⟨by simpa using h.nodup, by simpa using h.locals, h.lLen, h.globals, h.self, h.frees,
   fun hd => ⟨(h.infn hd).1, (h.infn hd).2.1, by simp⟩⟩

theorem Frame.pop {A : Act} {CT : CTab} {V0 : List Nat} {V : List (List Nat)} {vals : Nat → Val} {σ : Sto}
    (h : Frame N A CT (V0 :: V) vals σ) (hne : 0 < A.c.depth → V ≠ []) : Frame N A CT V vals σ := by
  refine ⟨?_, ?_, h.lLen, h.globals, h.self, h.frees, fun hd => ⟨(h.infn hd).1, (h.infn hd).2.1, hne hd⟩⟩
  · have := h.nodup
    simp only [List.flatten_cons] at this
    exact (List.nodup_append.mp this).2.1
  · intro i hi
    exact h.locals i (by simp [hi])

theorem Next.refl {A : Act} {n : Nat} {CT : CTab} {σ : Sto} {V : List (List Nat)} {vals : Nat → Val} {st : St}
    (hI : Inv N Φ CT n st σ) (hF : Frame N A CT V vals σ) : Next N Φ A n CT σ V CT vals st σ :=
  ⟨List.prefix_refl _, List.prefix_refl _, hI, hF⟩

theorem Next.trans {A : Act} {n : Nat} {CT CT1 CT2 : CTab} {σ σ1 σ2 : Sto} {V V' : List (List Nat)} {vals1 vals2 : Nat → Val} {st1 st2 : St}
    (h1 : Next N Φ A n CT σ V CT1 vals1 st1 σ1) (h2 : Next N Φ A n CT1 σ1 V' CT2 vals2 st2 σ2) :
    Next N Φ A n CT σ V' CT2 vals2 st2 σ2 :=
  ⟨h1.ext.trans h2.ext, h1.hext.trans h2.hext, h2.inv, h2.frame⟩

theorem freeGet_new (h : List (List Val)) (ws : List Val) (j : Nat) : Core.Fn.freeGet (h ++ [ws]) h.length j = ws[j]? := by
  simp [Core.Fn.freeGet]

/-- a new closure: the table, the oracle's closure list and the closure heap grow by one entry -/
theorem Inv.pushClos {CT : CTab} {n : Nat} {st : St} {σ : Sto} (hI : Inv N Φ CT n st σ) (c : RClos) (fd : FnDef) (ws : List Val)
    (he : ClosEntry N Φ (CT ++ [(fd, σ.h.length)]) (σ.h ++ [ws]) n c fd σ.h.length) :
    Inv N Φ (CT ++ [(fd, σ.h.length)]) n { st with clos := st.clos ++ [c] } (σ.pushH ws) := by
  have hp : CT <+: CT ++ [(fd, σ.h.length)] := List.prefix_append _ _
  have hh : σ.h <+: σ.h ++ [ws] := List.prefix_append _ _
  refine ⟨by simp [hI.closLen], ?_, hI.cellsLen, hI.gLen, ?_, hI.fresh⟩
  · intro k fd' hid' hk
    by_cases hlt : k < CT.length
    · rw [List.getElem?_append_left hlt] at hk
      obtain ⟨c0, hc0, he0⟩ := hI.clos k fd' hid' hk
      refine ⟨c0, ?_, he0.mono hp hh (Nat.le_refl _)⟩
      show (st.clos ++ [c])[k]? = some c0
      rw [List.getElem?_append_left (by rw [hI.closLen]; exact hlt)]; exact hc0
    · have hk' : k = CT.length := by
        rcases Nat.lt_or_ge k (CT.length + 1) with h1 | h1
        · omega
        · rw [List.getElem?_eq_none (by simp; omega)] at hk; cases hk
      subst hk'
      simp only [List.getElem?_concat_length, Option.some.injEq, Prod.mk.injEq] at hk
      obtain ⟨rfl, rfl⟩ := hk
      refine ⟨c, ?_, he⟩
      show (st.clos ++ [c])[CT.length]? = some c
      rw [← hI.closLen]; simp
  · intro j hj
    obtain ⟨v, w, h1, h2, h3⟩ := hI.cells j hj
    exact ⟨v, w, h1, h2, h3.mono hp⟩

end Rel

/-! ## what is proved of one run of the oracle, by induction on its fuel -/

section Main
variable (N : Names) (Φ : FnDef → Option FDecl)

def envOf (A : Act) (V : List (List Nat)) (vals : Nat → Val) : Env := mkEnv (N.ln A.c.depth) V vals A.base

def EQ (A : Act) (n : Nat) (CT : CTab) (σ : Sto) (V : List (List Nat)) (r : R Val) (y : Val × Sto) (st' : St) : Prop :=
  ∃ v vals' CT', r = .val v (envOf N A V vals') ∧ VR CT' v y.1 ∧ Next N Φ A n CT σ V CT' vals' st' y.2

def AQ (A : Act) (n : Nat) (CT : CTab) (σ : Sto) (V : List (List Nat)) (r : R (List Val)) (y : List Val × Sto) (st' : St) : Prop :=
  ∃ vs vals' CT', r = .val vs (envOf N A V vals') ∧ VRs CT' vs y.1 ∧ Next N Φ A n CT σ V CT' vals' st' y.2

def FR (CT : CTab) : Flow → FFlow → Prop
  | .normal, .normal => True
  | .brk a, .brk b => a = b
  | .cont a, .cont b => a = b
  | .ret v, .ret w => VR CT v w
  | _, _ => False

def NormalOK (ss : List FStmt) (bv : Val) : Prop := lastRet ss = false ∧ (lastExpr ss = false → bv = .null)

def SQ (A : Act) (n : Nat) (CT : CTab) (σ : Sto) (V : List (List Nat)) (ss : List FStmt)
    (r : Flow × Val × Env) (y : Sto × FFlow × Val) (st' : St) : Prop :=
  ∃ V0' vals' CT', r.2.2 = envOf N A (setTop V0' V) vals' ∧ FR CT' r.1 y.2.1 ∧
    Next N Φ A n CT σ (setTop V0' V) CT' vals' st' y.1 ∧
    (y.2.1 = .normal → V0' = defs ss (V.headD []) ∧ VR CT' r.2.1 y.2.2 ∧ NormalOK ss y.2.2)

def BQ (A : Act) (n : Nat) (CT : CTab) (σ : Sto) (V : List (List Nat)) (ss : List FStmt)
    (r : Flow × Val × Env) (y : Sto × FFlow × Val) (st' : St) : Prop :=
  ∃ vals' CT', r.2.2 = envOf N A V vals' ∧ FR CT' r.1 y.2.1 ∧ Next N Φ A n CT σ V CT' vals' st' y.1 ∧
    (y.2.1 = .normal → VR CT' r.2.1 y.2.2 ∧ NormalOK ss y.2.2)

def CQ (n : Nat) (CT : CTab) (σ : Sto) (r : Val) (y : Val × Sto) (st' : St) : Prop :=
  ∃ CT', VR CT' r y.1 ∧ CT <+: CT' ∧ σ.h <+: y.2.h ∧ Inv N Φ CT' n st' y.2 ∧ y.2.l = σ.l

def mkLoopF (l : Nat) (lbl : Option String) : Option FExpr → List FStmt → FStmt
  | none, body => .loopS l lbl body
  | some c, body => .whileS l lbl c body

noncomputable def condOKF (N : Names) (Φ : FnDef → Option FDecl) (c : Ctx) (gh nl : Nat) (vis : List Nat) : Option FExpr → Bool
  | none => true
  | some e => okE N Φ c gh nl vis e

structure AllOK (fuel : Nat) : Prop where
  E : ∀ (A : Act) n CT V vals st σ e, Inv N Φ CT n st σ → Frame N A CT V vals σ → A.gh ≤ n →
    okE N Φ A.c A.gh A.nl V.flatten e = true →
    Post (EQ N Φ A n CT σ V) (fun k => Core.Fn.evalE Φ k A.cx σ e) (run (Ref.evalE fuel (envOf N A V vals) (toAstF N A.c e)) st)
  Arms : ∀ (A : Act) n CT V vals st σ v w arms, Inv N Φ CT n st σ → Frame N A CT V vals σ → A.gh ≤ n →
    okArms N Φ A.c A.gh A.nl V.flatten arms = true → VR CT v w →
    Post (EQ N Φ A n CT σ V) (fun k => Core.Fn.evalArms Φ k A.cx σ w arms)
      (run (Ref.evalArms fuel (envOf N A V vals) v (toArmsF N A.c arms)) st)
  Args : ∀ (A : Act) n CT V vals st σ e, Inv N Φ CT n st σ → Frame N A CT V vals σ → A.gh ≤ n →
    okArgs N Φ A.c A.gh A.nl V.flatten e = true →
    Post (AQ N Φ A n CT σ V) (fun k => Core.Fn.evalArgs Φ k A.cx σ e) (run (Ref.evalArgs fuel (envOf N A V vals) (toArgsF N A.c e)) st)
  S : ∀ (A : Act) n CT V vals st σ s, Inv N Φ CT n st σ → Frame N A CT V vals σ → A.gh ≤ n →
    okS N Φ A.c A.gh A.nl V.flatten s = true →
    Post (SQ N Φ A n CT σ V [s]) (fun k => Core.Fn.evalS Φ k A.cx σ s) (run (Ref.evalStmt fuel (envOf N A V vals) (toStmtF N A.c s)) st)
  P : ∀ (A : Act) n CT V vals st σ ss last, Inv N Φ CT n st σ → Frame N A CT V vals σ → A.gh ≤ n →
    okP N Φ A.c A.gh A.nl V.flatten ss = true → (ss = [] → last = .null) →
    Post (SQ N Φ A n CT σ V ss) (fun k => Core.Fn.evalP Φ k A.cx σ ss) (run (Ref.evalStmts fuel (envOf N A V vals) (toStmtsF N A.c ss) last) st)
  B : ∀ (A : Act) n CT V vals st σ ss l, Inv N Φ CT n st σ → Frame N A CT V vals σ → A.gh ≤ n →
    okP N Φ A.c A.gh A.nl V.flatten ss = true →
    Post (BQ N Φ A n CT σ V ss) (fun k => Core.Fn.evalP Φ k A.cx σ ss) (run (Ref.evalBlock fuel (envOf N A V vals) (.mk l (toStmtsF N A.c ss))) st)
  L : ∀ (A : Act) n CT V vals st σ l lbl cond body, Inv N Φ CT n st σ → Frame N A CT V vals σ → A.gh ≤ n →
    condOKF N Φ A.c A.gh A.nl V.flatten cond = true → okP N Φ A.c A.gh A.nl V.flatten body = true →
    Post (BQ N Φ A n CT σ V [mkLoopF l lbl cond body]) (fun k => Core.Fn.evalS Φ k A.cx σ (mkLoopF l lbl cond body))
      (run (Ref.evalLoop fuel (envOf N A V vals) lbl (cond.map (toAstF N A.c)) (.mk l (toStmtsF N A.c body))) st)
  C : ∀ n CT st σ l vf wf vargs wargs, Inv N Φ CT n st σ → VR CT vf wf → VRs CT vargs wargs →
    Post (CQ N Φ n CT σ) (fun k => callF Φ k wf wargs σ) (run (Ref.callValue fuel l vf vargs) st)

theorem callValue_zero (l : Nat) (vf : Val) (vargs : List Val) : callValue 0 l vf vargs = throw .fuel := by rw [callValue]

theorem all_zero : AllOK N Φ 0 := by
  refine ⟨?_, ?_, ?_, ?_, ?_, ?_, ?_, ?_⟩
  · intros; rw [evalE_zero]; exact True.intro
  · intros; rw [evalArms_zero]; exact True.intro
  · intros; rw [evalArgs_zero]; exact True.intro
  · intros; rw [evalStmt_zero]; exact True.intro
  · intros; rw [evalStmts_zero]; exact True.intro
  · intros; rw [evalBlock_zero]; exact True.intro
  · intros; rw [evalLoop_zero]; exact True.intro
  · intros; rw [callValue_zero]; exact True.intro

variable {N Φ} (hN : NamesOK N)

include hN in
theorem lookup_global {A : Act} {CT : CTab} {V : List (List Nat)} {vals : Nat → Val} {σ : Sto} (hF : Frame N A CT V vals σ)
    {j : Nat} (hj : j < A.gh) : lookupEnv (N.gn j) (envOf N A V vals) = some (.g j) := by
  unfold envOf
  rw [lookupEnv_mkEnv_other (fun i => (hN.gn_ln j _ i).symm)]
  exact hF.globals j hj

include hN in
theorem lookup_local {A : Act} {V : List (List Nat)} {vals : Nat → Val} {i : Nat} (hi : i ∈ V.flatten) :
    lookupEnv (N.ln A.c.depth i) (envOf N A V vals) = some (.l (vals i)) :=
  lookupEnv_mkEnv_mem (fun a b h => (hN.ln_inj _ _ a b h).2) hi

include hN in
theorem upd_local {A : Act} {V : List (List Nat)} {vals : Nat → Val} {i : Nat} {v : Val} (hi : i ∈ V.flatten) (hnd : V.flatten.Nodup) :
    updEnv (N.ln A.c.depth i) v (envOf N A V vals) = some (envOf N A V (upd vals i v)) :=
  updEnv_mkEnv (fun a b h => (hN.ln_inj _ _ a b h).2) hi hnd

theorem mono_callF (wf : Val) (ws : List Val) (σ : Sto) : FMono (fun k => callF Φ k wf ws σ) := by
  intro k k' r hle h
  unfold callF at h ⊢
  cases wf with
  | clos fd free id =>
    simp only at h ⊢
    cases hΦ : Φ fd with
    | none => simp [hΦ] at h
    | some d =>
      simp only [hΦ] at h ⊢
      by_cases hlen : ws.length = d.np
      · rw [if_pos hlen] at h ⊢
        simp only [Sto.enter_eq, Sto.back_eq] at h ⊢
        cases hb : Core.Fn.evalP Φ k (some (fd, id)) ⟨ws ++ List.replicate (d.nl - d.np) Val.null, σ.g, σ.h, σ.a⟩ d.body with
        | none => simp [hb] at h
        | some rb => rw [(mono_all Φ k).P _ _ _ rb k' hle hb]; simp only [hb] at h; exact h
      · simp [hlen] at h
  | builtin name => exact h
  | _ => simp at h

include hN in
/-- a captured variable: its current value in the creating activation, on both sides -/
theorem cap_ok {A : Act} {CT : CTab} {V : List (List Nat)} {vals : Nat → Val} {σ : Sto} (hF : Frame N A CT V vals σ)
    (cap : Cap) (hc : okCap A.c V.flatten cap = true) :
    ∃ v w, Core.Fn.capVal A.cx σ cap = some w ∧ (lookupEnv (capName N A.c cap) (envOf N A V vals)).map capB = some (.cap v) ∧
      VR CT v w ∧ (∀ d' i, A.c.depth + 1 ≤ d' → N.ln d' i ≠ capName N A.c cap) ∧ capName N A.c cap ≠ "" ∧ capName N A.c cap ≠ selfKey := by
  cases cap with
  | loc i =>
    simp only [okCap, List.contains_iff_mem] at hc
    obtain ⟨w, hw, hvr⟩ := hF.locals i hc
    refine ⟨vals i, w, hw, by rw [capName, lookup_local hN hc]; rfl, hvr, ?_, hN.ln_ne _ _, hN.ln_key _ _⟩
    intro d' i' hd h
    have := (hN.ln_inj _ _ _ _ h).1
    omega
  | free j =>
    simp only [okCap, decide_eq_true_eq] at hc
    have hj : A.c.frees[j]? = some (A.c.frees.getD j "") := by
      rw [List.getD_eq_getElem?_getD, List.getElem?_eq_getElem hc]; rfl
    obtain ⟨h0, h1, h2, v, w, fd, id, hcx, hlk, hfg, hvr⟩ := hF.frees j _ hj
    refine ⟨v, w, by simp [Core.Fn.capVal, hcx, hfg], ?_, hvr, fun d' i hd => h0 d' i (by omega), h1, h2⟩
    show (lookupEnv (A.c.frees.getD j "") (envOf N A V vals)).map capB = _
    unfold envOf
    rw [lookupEnv_mkEnv_other (fun i => h0 _ i (Nat.le_refl _)), hlk]; rfl
  | self =>
    simp only [okCap, bne_iff_ne, ne_eq] at hc
    obtain ⟨h0, h1, vf, fd, id, hlk, hcx, hvr⟩ := hF.self hc
    refine ⟨vf, .clos fd [] id, by simp [Core.Fn.capVal, hcx], ?_, hvr, fun d' i _ => h0 d' i, hc, h1⟩
    show (lookupEnv A.c.self (envOf N A V vals)).map capB = _
    unfold envOf
    rw [lookupEnv_mkEnv_other (fun i => h0 _ i), hlk]; rfl

include hN in
theorem caps_ok {A : Act} {CT : CTab} {V : List (List Nat)} {vals : Nat → Val} {σ : Sto} (hF : Frame N A CT V vals σ) :
    ∀ caps : List Cap, caps.all (okCap A.c V.flatten) = true →
    ∃ ws : List Val, Core.Fn.capVals A.cx σ caps = some ws ∧ ∀ (j : Nat) cap, caps[j]? = some cap → ∃ v w,
      (lookupEnv (capName N A.c cap) (envOf N A V vals)).map capB = some (.cap v) ∧ ws[j]? = some w ∧ VR CT v w ∧
      (∀ d' i, A.c.depth + 1 ≤ d' → N.ln d' i ≠ capName N A.c cap) ∧ capName N A.c cap ≠ "" ∧ capName N A.c cap ≠ selfKey
  | [], _ => ⟨[], rfl, fun j cap h => by simp at h⟩
  | cap :: rest, h => by
    simp only [List.all_cons, Bool.and_eq_true] at h
    obtain ⟨v, w, h1, h2, h3, h4⟩ := cap_ok hN hF cap h.1
    obtain ⟨ws, hws, hrest⟩ := caps_ok hF rest h.2
    refine ⟨w :: ws, by simp [Core.Fn.capVals, h1, hws], ?_⟩
    intro j cap' hj
    cases j with
    | zero =>
      simp only [List.getElem?_cons_zero, Option.some.injEq] at hj
      subst hj
      exact ⟨v, w, h2, rfl, h3, h4⟩
    | succ j =>
      obtain ⟨v', w', a1, a2, a3⟩ := hrest j cap' (by simpa using hj)
      exact ⟨v', w', a1, by simpa using a2, a3⟩

/-- the shape shared by `a op b`, `a < b`, `a <= b` (`x` is evaluated first) -/
theorem binop_ok {f : Nat} (hE : AllOK N Φ f) (A : Act) (n : Nat) (CT : CTab) (V : List (List Nat)) (vals : Nat → Val) (st : St) (σ : Sto)
    (x y : FExpr) (op : Operator) (line : Nat) (hI : Inv N Φ CT n st σ) (hF : Frame N A CT V vals σ) (hgh : A.gh ≤ n)
    (hx : okE N Φ A.c A.gh A.nl V.flatten x = true) (hy : okE N Φ A.c A.gh A.nl V.flatten y = true) :
    Post (EQ N Φ A n CT σ V) (fun k => (Core.Fn.evalE Φ k A.cx σ x).bind fun p => (Core.Fn.evalE Φ k A.cx p.2 y).bind (opK op p.1))
      (run (bindR (Ref.evalE f (envOf N A V vals) (toAstF N A.c x)) fun vx env =>
        bindR (Ref.evalE f env (toAstF N A.c y)) fun vy env =>
          applyBinary line (specOp op) vx vy >>= fun r => pure (.val r env)) st) := by
  unfold bindR
  refine Post.bind (mono_E _ _ _ _) (fun p => FMono.bind (mono_E _ _ _ _) (fun _ => FMono.const _)) (hE.E A n CT V vals st σ x hI hF hgh hx) ?_
  rintro r ⟨wx, σ1⟩ s1 ⟨vx, vals1, CT1, rfl, hvx, hn1⟩
  dsimp only
  refine Post.bind (mono_E _ _ _ _) (fun _ => FMono.const _) (hE.E A n CT1 V vals1 s1 σ1 y hn1.inv hn1.frame hgh hy) ?_
  rintro r ⟨wy, σ2⟩ s2 ⟨vy, vals2, CT2, rfl, hvy, hn2⟩
  dsimp only
  have hb := binary_bridge σ2.a line op (hvx.mono hn2.ext) hvy s2
  rw [run_bind]
  generalize run (applyBinary line (specOp op) vx vy) s2 = o at hb ⊢
  rcases o with ⟨er | r, s3⟩
  · cases er
    · intro k; simp [opK, show Core.Fn.opH σ2.a op wx wy = .fail from hb]
    all_goals exact True.intro
  · obtain ⟨rfl, hs, hop⟩ := hb
    exact Post.ok 0 (r, σ2) (by simp [opK, hop]) ⟨r, vals2, CT2, rfl, VR.scalar hs, hn1.trans hn2⟩

/-- callee, arguments, the call -/
theorem callCore_ok {f : Nat} (hE : AllOK N Φ f) (A : Act) (n : Nat) (CT : CTab) (V : List (List Nat)) (vals : Nat → Val) (st : St) (σ : Sto)
    (fn : FExpr) (args : FArgs) (l : Nat) (K : Env → Val → M (R Val))
    (hK : ∀ env r, poisonK env r = pure (.val r env) → K env r = pure (.val r env))
    (hI : Inv N Φ CT n st σ) (hF : Frame N A CT V vals σ) (hgh : A.gh ≤ n)
    (hfn : okE N Φ A.c A.gh A.nl V.flatten fn = true) (hargs : okArgs N Φ A.c A.gh A.nl V.flatten args = true) :
    Post (EQ N Φ A n CT σ V)
      (fun k => (Core.Fn.evalE Φ k A.cx σ fn).bind fun p => (Core.Fn.evalArgs Φ k A.cx p.2 args).bind fun q => callF Φ k p.1 q.1 q.2)
      (run (callCore f (envOf N A V vals) l (toAstF N A.c fn) (toArgsF N A.c args) K) st) := by
  unfold callCore bindR
  refine Post.bind (mono_E _ _ _ _) (fun p => FMono.bind (mono_Args _ _ _ _) (fun q => mono_callF _ _ _))
    (hE.E A n CT V vals st σ fn hI hF hgh hfn) ?_
  rintro r ⟨wf, σ1⟩ s1 ⟨vf, vals1, CT1, rfl, hvf, hn1⟩
  dsimp only
  refine Post.bind (mono_Args _ _ _ _) (fun q => mono_callF _ _ _) (hE.Args A n CT1 V vals1 s1 σ1 args hn1.inv hn1.frame hgh hargs) ?_
  rintro r ⟨ws, σ2⟩ s2 ⟨vs, vals2, CT2, rfl, hvs, hn2⟩
  dsimp only
  refine Res.bind (hE.C n CT2 s2 σ2 l vf wf vs ws hn2.inv (hvf.mono hn2.ext) hvs) id ?_
  rintro r s3 ⟨k, ⟨w, σ3⟩, hk, CT3, hvr, hext3, hh3, hinv3, hl3⟩
  rw [hK _ _ (poisonK_ok _ hvr)]
  exact Post.ok k (w, σ3) hk ⟨r, vals2, CT3, rfl, hvr,
    hn1.trans (hn2.trans ⟨hext3, hh3, hinv3, hn2.frame.mono hext3 hl3 hh3⟩)⟩

theorem evalP_single (k : Nat) (cx : Option (FnDef × Nat)) (σ : Sto) (l : Nat) (t : FExpr) :
    Core.Fn.evalP Φ (k+2) cx σ [.expr l t] = (Core.Fn.evalE Φ k cx σ t).bind fun p => some (p.2, .normal, p.1) := by
  rw [fP_cons, fS_expr]
  cases Core.Fn.evalE Φ k cx σ t with
  | none => rfl
  | some p => rfl

theorem setTop_headD (V : List (List Nat)) : setTop (V.headD []) V = V := by cases V <;> rfl

/-- a branch `{ t }` of an `if` expression -/
theorem branch_expr_ok {f0 : Nat} (hB : ∀ f', f' ≤ f0 → AllOK N Φ f') (A : Act) (n : Nat) (CT : CTab) (V : List (List Nat)) (vals : Nat → Val) (st : St) (σ : Sto)
    (t : FExpr) (l : Nat) (hI : Inv N Φ CT n st σ) (hF : Frame N A CT V vals σ) (hgh : A.gh ≤ n)
    (ht : okE N Φ A.c A.gh A.nl V.flatten t = true) :
    Post (EQ N Φ A n CT σ V) (fun k => Core.Fn.evalE Φ k A.cx σ t)
      (run (evalBranch f0 (envOf N A V vals) (exprBlock l (toAstF N A.c t))) st) := by
  cases f0 with
  | zero => rw [evalBranch_zero]; exact True.intro
  | succ f1 =>
    rw [evalBranch_succ]
    have hblk : exprBlock l (toAstF N A.c t) = .mk l (toStmtsF N A.c [.expr l t]) := by
      simp [exprBlock, toStmtsF, toStmtF]
    rw [hblk]
    have hb := (hB f1 (Nat.le_succ f1)).B A n CT V vals st σ [.expr l t] l hI hF hgh (by simp [okP, okS, ht])
    refine Res.bind hb ?_ ?_
    · intro h k
      have : Core.Fn.evalP Φ (k + 2) A.cx σ [.expr l t] = none := h (k + 2)
      rw [evalP_single] at this
      show Core.Fn.evalE Φ k A.cx σ t = none
      cases hx : Core.Fn.evalE Φ k A.cx σ t with
      | none => rfl
      | some p => simp [hx] at this
    · rintro ⟨fl, v, env'⟩ s1 ⟨k, ⟨σ1, fl', bv⟩, hk, vals1, CT1, henv, hfr, hn1, hnorm⟩
      have hk2 : ∃ k0, k = k0 + 2 := by
        match k, hk with
        | 0, hk => simp [Core.Fn.evalP] at hk
        | 1, hk => simp [Core.Fn.evalP, Core.Fn.evalS] at hk
        | k0+2, _ => exact ⟨k0, rfl⟩
      obtain ⟨k0, rfl⟩ := hk2
      have hk : Core.Fn.evalP Φ (k0 + 2) A.cx σ [.expr l t] = some (σ1, fl', bv) := hk
      rw [evalP_single] at hk
      cases hx : Core.Fn.evalE Φ k0 A.cx σ t with
      | none => simp [hx] at hk
      | some p =>
        obtain ⟨w, σ'⟩ := p
        simp only [hx, Option.bind_some, Option.some.injEq, Prod.mk.injEq] at hk
        obtain ⟨h1, h2, h3⟩ := hk
        subst h1 h2 h3
        have henv' : env' = envOf N A V vals1 := henv
        subst henv'
        cases fl <;> first | exact hfr.elim | skip
        exact Post.ok k0 (w, σ') hx ⟨v, vals1, CT1, rfl, (hnorm rfl).1, hn1⟩

include hN in
theorem expr_succ (f : Nat) (ih : ∀ f', f' ≤ f → AllOK N Φ f') :
    ∀ (A : Act) n CT V vals st σ e, Inv N Φ CT n st σ → Frame N A CT V vals σ → A.gh ≤ n →
    okE N Φ A.c A.gh A.nl V.flatten e = true →
    Post (EQ N Φ A n CT σ V) (fun k => Core.Fn.evalE Φ k A.cx σ e) (run (Ref.evalE (f+1) (envOf N A V vals) (toAstF N A.c e)) st) := by
  intro A n CT V vals st σ e hI hF hgh hok
  have hf := ih f (Nat.le_refl f)
  cases e with
  | lit l v =>
    rw [toAstF, evalE_lit]
    cases hc : isLit v with
    | true =>
      exact Post.ok 1 (v, σ) (by simp [Core.Fn.evalE]) ⟨v, vals, CT, rfl, VR.scalar (isLit_scalar hc), Next.refl hI hF⟩
    | false => exact True.intro
  | tru l =>
    rw [toAstF, evalE_bool]
    exact Post.ok 1 (.bool true, σ) (by simp [Core.Fn.evalE]) ⟨_, vals, CT, rfl, VR.scalar rfl, Next.refl hI hF⟩
  | fls l =>
    rw [toAstF, evalE_bool]
    exact Post.ok 1 (.bool false, σ) (by simp [Core.Fn.evalE]) ⟨_, vals, CT, rfl, VR.scalar rfl, Next.refl hI hF⟩
  | null l =>
    rw [toAstF, evalE_null]
    exact Post.ok 1 (.null, σ) (by simp [Core.Fn.evalE]) ⟨_, vals, CT, rfl, VR.scalar rfl, Next.refl hI hF⟩
  | un l op a =>
    simp only [okE] at hok
    rw [toAstF, evalE_un]
    refine Post.shift (fE_zero _ _ _ _) (fun k => fE_un Φ k A.cx σ l op a) ?_
    unfold bindR
    refine Post.bind (mono_E _ _ _ _) (fun _ => FMono.const _) (hf.E A n CT V vals st σ a hI hF hgh hok) ?_
    rintro r ⟨w, σ1⟩ s1 ⟨v, vals1, CT1, rfl, hvr, hn1⟩
    dsimp only
    rw [hvr.reifyM_eq, pure_bind]
    have hb := unary_bridge σ1.a op hvr
    generalize Spec.unary (specUn op) v = ex at hb ⊢
    cases ex with
    | value r =>
      exact Post.ok 0 (r, σ1) (by simp [unK, hb.1]) ⟨r, vals1, CT1, rfl, VR.scalar hb.2, hn1⟩
    | error =>
      obtain ⟨msg, hm⟩ := hb
      intro k; simp [unK, hm]
    | any => exact True.intro
  | bin l op a b =>
    simp only [okE, Bool.and_eq_true] at hok
    rw [toAstF, evalE_bin]
    exact Post.shift (fE_zero _ _ _ _) (fun k => fE_bin Φ k A.cx σ l op a b) (binop_ok hf A n CT V vals st σ a b op l hI hF hgh hok.1 hok.2)
  | lt l a b =>
    simp only [okE, Bool.and_eq_true] at hok
    rw [toAstF, evalE_lt]
    exact Post.shift (fE_zero _ _ _ _) (fun k => fE_lt Φ k A.cx σ l a b) (binop_ok hf A n CT V vals st σ b a .greater l hI hF hgh hok.2 hok.1)
  | le l a b =>
    simp only [okE, Bool.and_eq_true] at hok
    rw [toAstF, evalE_le]
    exact Post.shift (fE_zero _ _ _ _) (fun k => fE_le Φ k A.cx σ l a b) (binop_ok hf A n CT V vals st σ b a .greaterEq l hI hF hgh hok.2 hok.1)
  | and l a b =>
    simp only [okE, Bool.and_eq_true] at hok
    rw [toAstF, evalE_and]
    refine Post.shift (fE_zero _ _ _ _) (fun k => fE_and Φ k A.cx σ l a b) ?_
    unfold bindR
    refine Post.bind (mono_E _ _ _ _) (fun p => FMono.ite (FMono.const _) (mono_E _ _ _ _)) (hf.E A n CT V vals st σ a hI hF hgh hok.1) ?_
    rintro r ⟨wa, σ1⟩ s1 ⟨va, vals1, CT1, rfl, hva, hn1⟩
    dsimp only
    rw [hva.truthy_eq σ1.a, pure_bind]
    cases hfal : Core.Fn.falseyH σ1.a wa with
    | true =>
      simp only [Bool.not_true, Bool.false_eq_true, if_false]
      exact Post.ok 0 (wa, σ1) (by simp [hfal]) ⟨va, vals1, CT1, rfl, hva, hn1⟩
    | false =>
      simp only [Bool.not_false, if_true]
      refine Post.congr (ev' := fun k => Core.Fn.evalE Φ k A.cx σ1 b) (fun k => by simp [hfal]) ?_
      refine Post.mono ?_ (hf.E A n CT1 V vals1 s1 σ1 b hn1.inv hn1.frame hgh hok.2)
      rintro r y s ⟨v, vals2, CT2, rfl, hv, hn2⟩
      exact ⟨v, vals2, CT2, rfl, hv, hn1.trans hn2⟩
  | or l a b =>
    simp only [okE, Bool.and_eq_true] at hok
    rw [toAstF, evalE_or]
    refine Post.shift (fE_zero _ _ _ _) (fun k => fE_or Φ k A.cx σ l a b) ?_
    unfold bindR
    refine Post.bind (mono_E _ _ _ _) (fun p => FMono.ite (mono_E _ _ _ _) (FMono.const _)) (hf.E A n CT V vals st σ a hI hF hgh hok.1) ?_
    rintro r ⟨wa, σ1⟩ s1 ⟨va, vals1, CT1, rfl, hva, hn1⟩
    dsimp only
    rw [hva.truthy_eq σ1.a, pure_bind]
    cases hfal : Core.Fn.falseyH σ1.a wa with
    | false =>
      simp only [Bool.not_false, if_true]
      exact Post.ok 0 (wa, σ1) (by simp [hfal]) ⟨va, vals1, CT1, rfl, hva, hn1⟩
    | true =>
      simp only [Bool.not_true, Bool.false_eq_true, if_false]
      refine Post.congr (ev' := fun k => Core.Fn.evalE Φ k A.cx σ1 b) (fun k => by simp [hfal]) ?_
      refine Post.mono ?_ (hf.E A n CT1 V vals1 s1 σ1 b hn1.inv hn1.frame hgh hok.2)
      rintro r y s ⟨v, vals2, CT2, rfl, hv, hn2⟩
      exact ⟨v, vals2, CT2, rfl, hv, hn1.trans hn2⟩
  | ite l c t e =>
    simp only [okE, Bool.and_eq_true] at hok
    rw [toAstF, evalE_ite]
    refine Post.shift (fE_zero _ _ _ _) (fun k => fE_ite Φ k A.cx σ l c t e) ?_
    unfold bindR
    refine Post.bind (mono_E _ _ _ _) (fun p => FMono.ite (mono_E _ _ _ _) (mono_E _ _ _ _)) (hf.E A n CT V vals st σ c hI hF hgh hok.1.1) ?_
    rintro r ⟨wc, σ1⟩ s1 ⟨vc, vals1, CT1, rfl, hvc, hn1⟩
    dsimp only
    rw [hvc.truthy_eq σ1.a, pure_bind]
    cases hfal : Core.Fn.falseyH σ1.a wc with
    | true =>
      simp only [Bool.not_true, Bool.false_eq_true, if_false]
      refine Post.congr (ev' := fun k => Core.Fn.evalE Φ k A.cx σ1 e) (fun k => by simp [hfal]) ?_
      refine Post.mono ?_ (branch_expr_ok ih A n CT1 V vals1 s1 σ1 e l hn1.inv hn1.frame hgh hok.2)
      rintro r y s ⟨v, vals2, CT2, rfl, hv, hn2⟩
      exact ⟨v, vals2, CT2, rfl, hv, hn1.trans hn2⟩
    | false =>
      simp only [Bool.not_false, if_true]
      refine Post.congr (ev' := fun k => Core.Fn.evalE Φ k A.cx σ1 t) (fun k => by simp [hfal]) ?_
      refine Post.mono ?_ (branch_expr_ok ih A n CT1 V vals1 s1 σ1 t l hn1.inv hn1.frame hgh hok.1.2)
      rintro r y s ⟨v, vals2, CT2, rfl, hv, hn2⟩
      exact ⟨v, vals2, CT2, rfl, hv, hn1.trans hn2⟩
  | gget l i =>
    simp only [okE, decide_eq_true_eq] at hok
    rw [toAstF, evalE_gget' _ _ _ _ _ i (lookup_global hN hF hok), run_getCell_bind]
    obtain ⟨v, w, hc, hg, hvr⟩ := hI.cells i (Nat.lt_of_lt_of_le hok hgh)
    have hget : st.cells.getD i .null = v := by simp [List.getD_eq_getElem?_getD, hc]
    rw [hget, poisonK_ok _ hvr]
    exact Post.ok 1 (w, σ) (by simp [Core.Fn.evalE, List.getD_eq_getElem?_getD, hg]) ⟨v, vals, CT, rfl, hvr, Next.refl hI hF⟩
  | gset l i e =>
    simp only [okE, Bool.and_eq_true, decide_eq_true_eq] at hok
    rw [toAstF, evalE_gset]
    refine Post.shift (fE_zero _ _ _ _) (fun k => fE_gset Φ k A.cx σ l i e) ?_
    unfold bindR
    refine Post.bind (mono_E _ _ _ _) (fun _ => FMono.const _) (hf.E A n CT V vals st σ e hI hF hgh hok.2) ?_
    rintro r ⟨w, σ1⟩ s1 ⟨v, vals1, CT1, rfl, hv, hn1⟩
    dsimp only
    rw [assignIdent_g (lookup_global hN hn1.frame hok.1), run_setCell_bind]
    have hin : i < n := Nat.lt_of_lt_of_le hok.1 hgh
    have hlt : i < σ1.g.length := Nat.lt_of_lt_of_le hin hn1.inv.gLen
    have hfr1 : Frame N A CT1 V vals1 σ1 := hn1.frame
    have hiv1 : Inv N Φ CT1 n s1 σ1 := hn1.inv
    exact Post.ok 0 (w, σ1.gset i w) (by simp [hlt]) ⟨v, vals1, CT1, rfl, hv,
      ⟨hn1.ext, hn1.hext, hiv1.gset hin hv, Frame.mono (σ := σ1) (σ' := σ1.gset i w) (List.prefix_refl _) rfl (List.prefix_refl _) hfr1⟩⟩
  | lget l i =>
    simp only [okE, Bool.and_eq_true, decide_eq_true_eq, List.contains_iff_mem] at hok
    rw [toAstF, evalE_ident_l _ _ _ _ _ _ (lookup_local hN hok.2)]
    obtain ⟨w, hw, hvr⟩ := hF.locals i hok.2
    exact Post.ok 1 (w, σ) (by simp [Core.Fn.evalE, hw]) ⟨vals i, vals, CT, rfl, hvr, Next.refl hI hF⟩
  | lset l i e =>
    simp only [okE, Bool.and_eq_true, decide_eq_true_eq, List.contains_iff_mem] at hok
    rw [toAstF, evalE_gset]
    refine Post.shift (fE_zero _ _ _ _) (fun k => fE_lset Φ k A.cx σ l i e) ?_
    unfold bindR
    refine Post.bind (mono_E _ _ _ _) (fun _ => FMono.const _) (hf.E A n CT V vals st σ e hI hF hgh hok.2) ?_
    rintro r ⟨w, σ1⟩ s1 ⟨v, vals1, CT1, rfl, hv, hn1⟩
    dsimp only
    rw [assignIdent_l (lookup_local hN hok.1.2) (upd_local hN hok.1.2 hn1.frame.nodup)]
    obtain ⟨w0, hw0, -⟩ := hn1.frame.locals i hok.1.2
    have hlt : i < σ1.l.length := by
      rcases Nat.lt_or_ge i σ1.l.length with h3 | h3
      · exact h3
      · rw [List.getElem?_eq_none h3] at hw0; cases hw0
    have hfr1 : Frame N A CT1 V vals1 σ1 := hn1.frame
    have hiv1 : Inv N Φ CT1 n s1 σ1 := hn1.inv
    exact Post.ok 0 (w, σ1.lset i w) (by simp [hlt]) ⟨v, upd vals1 i v, CT1, rfl, hv,
      ⟨hn1.ext, hn1.hext, Inv.of_gh (σ := σ1) (σ' := σ1.lset i w) rfl rfl hiv1, hfr1.lset hv⟩⟩
  | curr l =>
    simp only [okE, bne_iff_ne, ne_eq] at hok
    obtain ⟨hne, -, vf, fd, id, hlk, hcx, hvr⟩ := hF.self hok
    have hlk' : lookupEnv A.c.self (envOf N A V vals) = some (.cap vf) := by
      unfold envOf; rw [lookupEnv_mkEnv_other (fun i => hne _ i)]; exact hlk
    rw [toAstF, evalE_ident_cap _ _ _ _ _ _ hlk', poisonK_ok _ hvr]
    exact Post.ok 1 (.clos fd [] id, σ) (by simp [Core.Fn.evalE, hcx]) ⟨vf, vals, CT, rfl, hvr, Next.refl hI hF⟩
  | call l fn args =>
    simp only [okE, Bool.and_eq_true] at hok
    rw [toAstF, evalE_call]
    refine Post.shift (fE_zero _ _ _ _) (fun k => fE_call Φ k A.cx σ l fn args) ?_
    exact callCore_ok hf A n CT V vals st σ fn args l poisonK (fun env r hr => hr) hI hF hgh hok.1 hok.2
  | matchE l sc arms =>
    simp only [okE, Bool.and_eq_true] at hok
    rw [toAstF, evalE_match]
    refine Post.shift (fE_zero _ _ _ _) (fun k => fE_match Φ k A.cx σ l sc arms) ?_
    unfold bindR
    refine Post.bind (mono_E _ _ _ _) (fun p => mono_Arms _ _ _ _ _) (hf.E A n CT V vals st σ sc hI hF hgh hok.1) ?_
    rintro r ⟨w, σ1⟩ s1 ⟨v, vals1, CT1, rfl, hv, hn1⟩
    dsimp only
    rw [hv.reifyM_eq, pure_bind]
    refine Post.mono ?_ (hf.Arms A n CT1 V vals1 s1 σ1 v w arms hn1.inv hn1.frame hgh hok.2 hv)
    rintro r y s ⟨v2, vals2, CT2, rfl, hv2, hn2⟩
    exact ⟨v2, vals2, CT2, rfl, hv2, hn1.trans hn2⟩
  | fget l j =>
    simp only [okE, decide_eq_true_eq] at hok
    have hj : A.c.frees[j]? = some (A.c.frees.getD j "") := by
      rw [List.getD_eq_getElem?_getD, List.getElem?_eq_getElem hok]; rfl
    obtain ⟨h0, -, -, v, w, fd, id, hcx, hlk, hfg, hvr⟩ := hF.frees j _ hj
    have hlk' : lookupEnv (A.c.frees.getD j "") (envOf N A V vals) = some (.cap v) := by
      unfold envOf; rw [lookupEnv_mkEnv_other (fun i => h0 _ i (Nat.le_refl _))]; exact hlk
    rw [toAstF, evalE_ident_cap _ _ _ _ _ _ hlk', poisonK_ok _ hvr]
    exact Post.ok 1 (w, σ) (by simp [Core.Fn.evalE, hcx, hfg]) ⟨v, vals, CT, rfl, hvr, Next.refl hI hF⟩
  | mkclos l code lines np nl' body caps =>
    simp only [okE, Bool.and_eq_true, decide_eq_true_eq] at hok
    obtain ⟨⟨⟨⟨hcaps, hnp⟩, hΦ⟩, hbody⟩, hlast⟩ := hok
    rw [toAstF, evalE_fn, run_mkClos_bind]
    obtain ⟨ws, hws, hinfo⟩ := caps_ok hN hF caps hcaps
    have hp : CT <+: CT ++ [(mkFd code lines ⟨np, nl', body, l⟩, σ.h.length)] := List.prefix_append _ _
    have hentry : ClosEntry N Φ (CT ++ [(mkFd code lines ⟨np, nl', body, l⟩, σ.h.length)]) (σ.h ++ [ws]) n
        { name := "", params := params N (A.c.depth + 1) np,
          body := .mk l (toStmtsF N ⟨A.c.depth + 1, "", caps.map (capName N A.c)⟩ body),
          captured := captureEnv (envOf N A V vals), line := l } (mkFd code lines ⟨np, nl', body, l⟩) σ.h.length := by
      refine ⟨⟨np, nl', body, l⟩, ⟨A.c.depth + 1, "", caps.map (capName N A.c)⟩, A.gh, hΦ, rfl, rfl, rfl, Nat.succ_pos _, hnp, hgh,
        hbody, hlast, ?_, ?_, fun d' i => hN.ln_ne d' i, (show "" ≠ selfKey by decide)⟩
      · intro j hj
        exact ⟨hN.gn_ne j, by rw [lookupScope_captureEnv, lookup_global hN hF hj]; rfl⟩
      · intro j name hj
        simp only [List.getElem?_map, Option.map_eq_some_iff] at hj
        obtain ⟨cap, hcap, rfl⟩ := hj
        obtain ⟨v, w, a1, a2, a3, a4, a5, a6⟩ := hinfo j cap hcap
        exact ⟨a4, a5, a6, a5, v, w, by rw [lookupScope_captureEnv]; exact a1, by rw [freeGet_new]; exact a2, a3.mono hp⟩
    have hfr : Frame N A (CT ++ [(mkFd code lines ⟨np, nl', body, l⟩, σ.h.length)]) V vals (σ.pushH ws) :=
      Frame.mono (σ := σ) (σ' := σ.pushH ws) hp rfl (List.prefix_append _ _) hF
    exact Post.ok 1 (.clos (mkFd code lines ⟨np, nl', body, l⟩) [] σ.h.length, σ.pushH ws) (by simp [Core.Fn.evalE, hws])
      ⟨_, vals, _, rfl, .inr ⟨st.clos.length, _, _, rfl, rfl, by rw [hI.closLen]; simp⟩,
       ⟨hp, List.prefix_append _ _, hI.pushClos _ _ ws hentry, hfr⟩⟩
  | _ => simp [okE] at hok

theorem arms_succ (f : Nat) (ih : ∀ f', f' ≤ f → AllOK N Φ f') :
    ∀ (A : Act) n CT V vals st σ v w arms, Inv N Φ CT n st σ → Frame N A CT V vals σ → A.gh ≤ n →
    okArms N Φ A.c A.gh A.nl V.flatten arms = true → VR CT v w →
    Post (EQ N Φ A n CT σ V) (fun k => Core.Fn.evalArms Φ k A.cx σ w arms)
      (run (Ref.evalArms (f+1) (envOf N A V vals) v (toArmsF N A.c arms)) st) := by
  intro A n CT V vals st σ v w arms hI hF hgh hok hvw
  cases arms with
  | last la lp d =>
    simp only [okArms] at hok
    rw [toArmsF, evalArms_cons]
    refine Post.shift (fArms_zero _ _ _ _ _) (fun k => fArms_last Φ k A.cx σ w la lp d) ?_
    refine Post.bind_hit (run_hitLoopF σ.a hvw st [.dflt lp] false) ?_
    intro b hb
    have hb' : b = true := by simpa [Core.Fn.patsTestH, Core.Fn.patTestH, Core.erasePat] using hb.symm
    subst hb'
    simp only [if_true]
    exact branch_expr_ok ih A n CT V vals st σ d la hI hF hgh hok
  | cons la pats body rest =>
    simp only [okArms, Bool.and_eq_true] at hok
    rw [toArmsF, evalArms_cons]
    refine Post.bind_hit (run_hitLoopF σ.a hvw st pats false) ?_
    intro b hb
    simp only [Bool.false_eq_true, if_false] at hb
    cases b with
    | true =>
      simp only [if_true]
      refine Post.shift (fArms_zero _ _ _ _ _) (fun k => fArms_cons_true Φ k A.cx σ w la pats body rest hb) ?_
      exact branch_expr_ok ih A n CT V vals st σ body la hI hF hgh hok.1
    | false =>
      simp only [Bool.false_eq_true, if_false]
      refine Post.shift (fArms_zero _ _ _ _ _) (fun k => fArms_cons_false Φ k A.cx σ w la pats body rest hb) ?_
      exact (ih f (Nat.le_refl f)).Arms A n CT V vals st σ v w rest hI hF hgh hok.2 hvw

include hN in
theorem args_succ (f : Nat) (hf : AllOK N Φ f) :
    ∀ (A : Act) n CT V vals st σ e, Inv N Φ CT n st σ → Frame N A CT V vals σ → A.gh ≤ n →
    okArgs N Φ A.c A.gh A.nl V.flatten e = true →
    Post (AQ N Φ A n CT σ V) (fun k => Core.Fn.evalArgs Φ k A.cx σ e) (run (Ref.evalArgs (f+1) (envOf N A V vals) (toArgsF N A.c e)) st) := by
  intro A n CT V vals st σ e hI hF hgh hok
  cases e with
  | nil =>
    rw [toArgsF, evalArgs_nil]
    exact Post.ok 1 ([], σ) (by simp [Core.Fn.evalArgs]) ⟨[], vals, CT, rfl, True.intro, Next.refl hI hF⟩
  | cons a rest =>
    simp only [okArgs, Bool.and_eq_true] at hok
    rw [toArgsF, evalArgs_cons]
    refine Post.shift (fArgs_zero _ _ _ _) (fun k => fArgs_cons Φ k A.cx σ a rest) ?_
    unfold bindR
    refine Post.bind (mono_E _ _ _ _) (fun p => FMono.bind (mono_Args _ _ _ _) (fun _ => FMono.const _)) (hf.E A n CT V vals st σ a hI hF hgh hok.1) ?_
    rintro r ⟨w, σ1⟩ s1 ⟨v, vals1, CT1, rfl, hv, hn1⟩
    dsimp only
    refine Post.bind (mono_Args _ _ _ _) (fun _ => FMono.const _) (hf.Args A n CT1 V vals1 s1 σ1 rest hn1.inv hn1.frame hgh hok.2) ?_
    rintro r ⟨ws, σ2⟩ s2 ⟨vs, vals2, CT2, rfl, hvs, hn2⟩
    dsimp only
    exact Post.ok 0 (w :: ws, σ2) rfl ⟨v :: vs, vals2, CT2, rfl, ⟨hv.mono hn2.ext, hvs⟩, hn1.trans hn2⟩

theorem SQ.same {A : Act} {n : Nat} {CT CT' : CTab} {σ : Sto} {V : List (List Nat)} {ss : List FStmt} {vals' : Nat → Val}
    {r : Flow × Val × Env} {y : Sto × FFlow × Val} {st' : St}
    (henv : r.2.2 = envOf N A V vals') (hfr : FR CT' r.1 y.2.1) (hn : Next N Φ A n CT σ V CT' vals' st' y.1)
    (hnorm : y.2.1 = .normal → VR CT' r.2.1 y.2.2 ∧ NormalOK ss y.2.2) (hd : defs ss (V.headD []) = V.headD []) :
    SQ N Φ A n CT σ V ss r y st' := by
  refine ⟨V.headD [], vals', CT', ?_, hfr, ?_, fun h => ⟨hd.symm, hnorm h⟩⟩
  · rw [setTop_headD]; exact henv
  · rw [setTop_headD]; exact hn

theorem toAstF_not_call (c : Ctx) (e : FExpr) (h : ∀ l f a, e ≠ .call l f a) :
    ∀ l' fn args, toAstF N c e = .call l' fn args → False := by
  intro l' fn args he
  cases e <;> simp only [toAstF] at he <;> first | (cases he; done) | skip
  case lit l v => cases v <;> simp [litAst] at he
  case call l f a => exact h l f a rfl

theorem isGlobalEnv_mkEnv_false {nm : Nat → String} {V : List (List Nat)} {vals : Nat → Val} {base : Env}
    (h : isGlobalEnv base = false) : isGlobalEnv (mkEnv nm V vals base) = false := by
  unfold isGlobalEnv mkEnv at *
  rw [List.all_append, h, Bool.and_false]

theorem lastRet_single (s : FStmt) : lastRet [s] = s.isRet := rfl
theorem lastExpr_single (s : FStmt) : lastExpr [s] = s.isExprStmt := rfl

/-- a branch of a statement-level `if` -/
theorem branch_stmts_ok {f0 : Nat} (hB : ∀ f', f' ≤ f0 → AllOK N Φ f') (A : Act) (n : Nat) (CT : CTab) (V : List (List Nat)) (vals : Nat → Val) (st : St) (σ : Sto)
    (body : List FStmt) (l : Nat) (s0 : FStmt) (hs0 : s0.isRet = false ∧ s0.isExprStmt = true ∧ defs [s0] (V.headD []) = V.headD [])
    (hI : Inv N Φ CT n st σ) (hF : Frame N A CT V vals σ) (hgh : A.gh ≤ n)
    (hb : okP N Φ A.c A.gh A.nl V.flatten body = true) :
    Post (SQ N Φ A n CT σ V [s0]) (fun k => Core.Fn.evalP Φ k A.cx σ body)
      (run (evalBranch f0 (envOf N A V vals) (.mk l (toStmtsF N A.c body)) >>= exprK) st) := by
  cases f0 with
  | zero => rw [evalBranch_zero]; exact True.intro
  | succ f1 =>
    rw [evalBranch_succ, bind_assoc]
    refine Res.bind ((hB f1 (Nat.le_succ f1)).B A n CT V vals st σ body l hI hF hgh hb) id ?_
    rintro ⟨fl, v, env'⟩ s2 ⟨k, ⟨σ2, fl', bv⟩, hk, vals2, CT2, henv, hfr, hn2, hnorm⟩
    have hN0 : NormalOK [s0] bv := ⟨by rw [lastRet_single]; exact hs0.1, by rw [lastExpr_single, hs0.2.1]; intro h; cases h⟩
    cases fl with
    | normal =>
      exact Post.ok k (σ2, fl', bv) hk (SQ.same henv hfr hn2 (fun h => ⟨(hnorm h).1, hN0⟩) hs0.2.2)
    | brk lb =>
      refine Post.ok k (σ2, fl', bv) hk (SQ.same henv hfr hn2 (fun h => ?_) hs0.2.2)
      have h' : fl' = .normal := h
      subst h'; exact hfr.elim
    | cont lb =>
      refine Post.ok k (σ2, fl', bv) hk (SQ.same henv hfr hn2 (fun h => ?_) hs0.2.2)
      have h' : fl' = .normal := h
      subst h'; exact hfr.elim
    | ret rv =>
      refine Post.ok k (σ2, fl', bv) hk (SQ.same henv hfr hn2 (fun h => ?_) hs0.2.2)
      have h' : fl' = .normal := h
      subst h'; exact hfr.elim

include hN in
theorem stmt_succ (f : Nat) (ih : ∀ f', f' ≤ f → AllOK N Φ f') :
    ∀ (A : Act) n CT V vals st σ s, Inv N Φ CT n st σ → Frame N A CT V vals σ → A.gh ≤ n →
    okS N Φ A.c A.gh A.nl V.flatten s = true →
    Post (SQ N Φ A n CT σ V [s]) (fun k => Core.Fn.evalS Φ k A.cx σ s) (run (Ref.evalStmt (f+1) (envOf N A V vals) (toStmtF N A.c s)) st) := by
  intro A n CT V vals st σ s hI hF hgh hok
  have hf := ih f (Nat.le_refl f)
  cases s with
  | letG l i e => simp [okS] at hok
  | whileS l lbl c body =>
    simp only [okS, Bool.and_eq_true] at hok
    rw [toStmtF, evalStmt_while]
    refine Post.mono ?_ (hf.L A n CT V vals st σ l lbl (some c) body hI hF hgh hok.1 hok.2)
    rintro r y s ⟨vals', CT', h1, h2, h3, h4⟩
    exact SQ.same h1 h2 h3 h4 rfl
  | loopS l lbl body =>
    simp only [okS] at hok
    rw [toStmtF, evalStmt_loop]
    refine Post.mono ?_ (hf.L A n CT V vals st σ l lbl none body hI hF hgh rfl hok)
    rintro r y s ⟨vals', CT', h1, h2, h3, h4⟩
    exact SQ.same h1 h2 h3 h4 rfl
  | letL l i e =>
    simp only [okS, Bool.and_eq_true, decide_eq_true_eq, Bool.not_eq_true', List.contains_eq_mem, decide_eq_false_iff_not] at hok
    obtain ⟨⟨⟨hd, hnotin⟩, hinl⟩, hoke⟩ := hok
    obtain ⟨-, hglob, hne⟩ := hF.infn hd
    obtain ⟨V0, Vt, rfl⟩ : ∃ V0 Vt, V = V0 :: Vt := by
      cases V with
      | nil => exact absurd rfl hne
      | cons a b => exact ⟨a, b, rfl⟩
    rw [toStmtF, evalStmt_let]
    refine Post.shift (fS_zero _ _ _ _) (fun k => fS_letL Φ k A.cx σ l i e) ?_
    refine Post.bind (mono_E _ _ _ _) (fun _ => FMono.const _) (hf.E A n CT _ vals st σ e hI hF hgh hoke) ?_
    rintro r ⟨w, σ1⟩ s1 ⟨v, vals1, CT1, rfl, hv, hn1⟩
    have hfr1 : Frame N A CT1 (V0 :: Vt) vals1 σ1 := hn1.frame
    have hiv1 : Inv N Φ CT1 n s1 σ1 := hn1.inv
    have hlt : i < σ1.l.length := by rw [hfr1.lLen]; exact hinl
    have hge : isGlobalEnv (envOf N A (V0 :: Vt) vals1) = false := isGlobalEnv_mkEnv_false hglob
    simp only [letK, hge, Bool.false_eq_true, if_false]
    unfold envOf
    rw [bindTop_mkEnv hnotin]
    exact Post.ok 0 (σ1.lset i w, .normal, .null) (by simp [letLK, hlt]) ⟨i :: V0, upd vals1 i v, CT1, rfl, True.intro,
      ⟨hn1.ext, hn1.hext, Inv.of_gh (σ := σ1) (σ' := σ1.lset i w) rfl rfl hiv1, hfr1.bindL hv hnotin hlt⟩,
      fun _ => ⟨rfl, VR.scalar rfl, rfl, fun _ => rfl⟩⟩
  | expr l e =>
    simp only [okS] at hok
    by_cases hcall : ∃ l' fn as, e = .call l' fn as
    · obtain ⟨l', fn, as, rfl⟩ := hcall
      simp only [okE, Bool.and_eq_true] at hok
      rw [toStmtF, toAstF, evalStmt_exprCall]
      refine Post.shift (fS_zero _ _ _ _) (fun k => fS_expr Φ k A.cx σ l (.call l' fn as)) ?_
      have hc := callCore_ok hf A n CT V vals st σ fn as l' (fun env r => pure (.val r env)) (fun _ _ _ => rfl) hI hF hgh hok.1 hok.2
      have hc' := Post.shift (ev := fun k => Core.Fn.evalE Φ k A.cx σ (.call l' fn as)) (fE_zero _ _ _ _) (fun k => fE_call Φ k A.cx σ l' fn as) hc
      refine Post.bind (mono_E _ _ _ _) (fun _ => FMono.const _) hc' ?_
      rintro r ⟨w, σ1⟩ s1 ⟨v, vals1, CT1, rfl, hv, hn1⟩
      exact Post.ok 0 (σ1, .normal, w) rfl (SQ.same rfl True.intro hn1 (fun _ => ⟨hv, rfl, fun h => by cases h⟩) rfl)
    · have hx : ∀ l' fn args, toAstF N A.c e = .call l' fn args → False :=
        toAstF_not_call A.c e (fun l' f a h => hcall ⟨l', f, a, h⟩)
      rw [toStmtF, evalStmt_expr _ _ _ _ hx]
      refine Post.shift (fS_zero _ _ _ _) (fun k => fS_expr Φ k A.cx σ l e) ?_
      refine Post.bind (mono_E _ _ _ _) (fun _ => FMono.const _) (hf.E A n CT V vals st σ e hI hF hgh hok) ?_
      rintro r ⟨w, σ1⟩ s1 ⟨v, vals1, CT1, rfl, hv, hn1⟩
      exact Post.ok 0 (σ1, .normal, w) rfl (SQ.same rfl True.intro hn1 (fun _ => ⟨hv, rfl, fun h => by cases h⟩) rfl)
  | block l body =>
    simp only [okS] at hok
    rw [toStmtF, evalStmt_block]
    refine Post.shift (fS_zero _ _ _ _) (fun k => fS_block Φ k A.cx σ l body) ?_
    refine Post.bind (mono_P _ _ _ _) (fun _ => FMono.const _) (hf.B A n CT V vals st σ body l hI hF hgh hok) ?_
    rintro ⟨fl, v, env'⟩ ⟨σ1, fl', bv⟩ s1 ⟨vals1, CT1, henv, hfr, hn1, hnorm⟩
    exact Post.ok 0 (σ1, fl', .null) rfl (SQ.same henv hfr hn1 (fun _ => ⟨VR.scalar rfl, rfl, fun _ => rfl⟩) rfl)
  | breakS l lbl =>
    rw [toStmtF, evalStmt_break]
    exact Post.ok 1 (σ, .brk lbl, .null) (by simp [Core.Fn.evalS])
      (SQ.same (r := (Flow.brk lbl, Val.null, envOf N A V vals)) rfl rfl (Next.refl hI hF) (fun h => by cases h) rfl)
  | continueS l lbl =>
    rw [toStmtF, evalStmt_continue]
    exact Post.ok 1 (σ, .cont lbl, .null) (by simp [Core.Fn.evalS])
      (SQ.same (r := (Flow.cont lbl, Val.null, envOf N A V vals)) rfl rfl (Next.refl hI hF) (fun h => by cases h) rfl)
  | ifS ls l c t e =>
    simp only [okS, Bool.and_eq_true] at hok
    rw [toStmtF, evalStmt_expr _ _ _ _ (fun _ _ _ h => by cases h)]
    refine Post.shift (fS_zero _ _ _ _) (fun k => fS_ifS Φ k A.cx σ ls l c t e) ?_
    cases f with
    | zero => rw [evalE_zero]; exact True.intro
    | succ f0 =>
      rw [evalE_ite]
      unfold bindR
      rw [bind_assoc]
      have hf0 := ih f0 (Nat.le_succ f0)
      refine Post.bind (mono_E _ _ _ _) (fun p => FMono.ite (mono_P _ _ _ _) (mono_P _ _ _ _)) (hf0.E A n CT V vals st σ c hI hF hgh hok.1.1) ?_
      rintro r ⟨wc, σ1⟩ s1 ⟨vc, vals1, CT1, rfl, hvc, hn1⟩
      dsimp only
      rw [hvc.truthy_eq σ1.a, pure_bind]
      have hB : ∀ f', f' ≤ f0 → AllOK N Φ f' := fun f' h => ih f' (Nat.le_succ_of_le h)
      have hs0 : (FStmt.ifS ls l c t e).isRet = false ∧ (FStmt.ifS ls l c t e).isExprStmt = true ∧
          defs [FStmt.ifS ls l c t e] (V.headD []) = V.headD [] := ⟨rfl, rfl, rfl⟩
      cases hfal : Core.Fn.falseyH σ1.a wc with
      | true =>
        simp only [Bool.not_true, Bool.false_eq_true, if_false]
        refine Post.congr (ev' := fun k => Core.Fn.evalP Φ k A.cx σ1 e) (fun k => by simp [hfal]) ?_
        refine Post.mono ?_ (branch_stmts_ok hB A n CT1 V vals1 s1 σ1 e l _ hs0 hn1.inv hn1.frame hgh hok.2)
        rintro r y s ⟨V0', vals2, CT2, h1, h2, hn2, h3⟩
        exact ⟨V0', vals2, CT2, h1, h2, hn1.trans hn2, h3⟩
      | false =>
        simp only [Bool.not_false, if_true]
        refine Post.congr (ev' := fun k => Core.Fn.evalP Φ k A.cx σ1 t) (fun k => by simp [hfal]) ?_
        refine Post.mono ?_ (branch_stmts_ok hB A n CT1 V vals1 s1 σ1 t l _ hs0 hn1.inv hn1.frame hgh hok.1.2)
        rintro r y s ⟨V0', vals2, CT2, h1, h2, hn2, h3⟩
        exact ⟨V0', vals2, CT2, h1, h2, hn1.trans hn2, h3⟩
  | ret l e =>
    simp only [okS, Bool.and_eq_true, decide_eq_true_eq] at hok
    obtain ⟨⟨x, hx⟩, -, -⟩ := hF.infn hok.1
    obtain ⟨c0, gh0, nl0, base0, cx0⟩ := A
    have hx' : cx0 = some x := hx
    subst hx'
    rw [toStmtF, evalStmt_ret]
    refine Post.shift (fS_zero _ _ _ _) (fun k => fS_ret Φ k x σ l e) ?_
    refine Post.bind (mono_E _ _ _ _) (fun _ => FMono.const _) (hf.E ⟨c0, gh0, nl0, base0, some x⟩ n CT V vals st σ e hI hF hgh hok.2) ?_
    rintro r ⟨w, σ1⟩ s1 ⟨v, vals1, CT1, rfl, hv, hn1⟩
    exact Post.ok 0 (σ1, .ret w, .null) rfl (SQ.same (r := (Flow.ret v, Val.null, _)) rfl hv hn1 (fun h => by cases h) rfl)
  | retN l =>
    simp only [okS, decide_eq_true_eq] at hok
    obtain ⟨⟨x, hx⟩, -, -⟩ := hF.infn hok
    obtain ⟨c0, gh0, nl0, base0, cx0⟩ := A
    have hx' : cx0 = some x := hx
    subst hx'
    rw [toStmtF, evalStmt_retN]
    exact Post.ok 1 (σ, .ret .null, .null) (fS_retN Φ 0 x σ l)
      (SQ.same (r := (Flow.ret Val.null, Val.null, _)) rfl (VR.scalar rfl) (Next.refl hI hF) (fun h => by cases h) rfl)

theorem mono_stmtsSK (k0 : Unit) (cx : Option (FnDef × Nat)) (rest : List FStmt) (q : Sto × FFlow × Val) :
    FMono (fun k => stmtsSK Φ k cx rest q) := by
  obtain ⟨σ1, fl, v⟩ := q
  cases fl <;> simp only [stmtsSK] <;> first | exact FMono.const _ | skip
  cases rest with
  | nil => exact FMono.const _
  | cons a b => exact mono_P _ _ _ _

theorem setTop_setTop (a b : List Nat) (V : List (List Nat)) : setTop a (setTop b V) = setTop a V := by
  cases V <;> rfl

theorem lastRet_cons2 (s s2 : FStmt) (r : List FStmt) : lastRet (s :: s2 :: r) = lastRet (s2 :: r) := by
  simp [lastRet, List.getLast?_cons_cons]
theorem lastExpr_cons2 (s s2 : FStmt) (r : List FStmt) : lastExpr (s :: s2 :: r) = lastExpr (s2 :: r) := by
  simp [lastExpr, List.getLast?_cons_cons]

theorem stmts_succ (f : Nat) (hf : AllOK N Φ f) :
    ∀ (A : Act) n CT V vals st σ ss last, Inv N Φ CT n st σ → Frame N A CT V vals σ → A.gh ≤ n →
    okP N Φ A.c A.gh A.nl V.flatten ss = true → (ss = [] → last = .null) →
    Post (SQ N Φ A n CT σ V ss) (fun k => Core.Fn.evalP Φ k A.cx σ ss) (run (Ref.evalStmts (f+1) (envOf N A V vals) (toStmtsF N A.c ss) last) st) := by
  intro A n CT V vals st σ ss last hI hF hgh hok hlast
  cases ss with
  | nil =>
    rw [toStmtsF, evalStmts_nil, hlast rfl]
    exact Post.ok 1 (σ, .normal, .null) (by simp [Core.Fn.evalP])
      (SQ.same (r := (Flow.normal, Val.null, envOf N A V vals)) rfl True.intro (Next.refl hI hF) (fun _ => ⟨VR.scalar rfl, rfl, fun _ => rfl⟩) rfl)
  | cons s rest =>
    simp only [okP, Bool.and_eq_true] at hok
    have hvis0 : V = [] → visAfter s [] = [] := by
      intro hV
      cases s <;> first | rfl | skip
      simp only [okS, Bool.and_eq_true, decide_eq_true_eq] at hok
      exact absurd hV (hF.infn hok.1.1.1.1).2.2
    rw [toStmtsF, evalStmts_cons]
    refine Post.shift (fP_zero _ _ _ _) (fun k => fP_cons Φ k A.cx σ s rest) ?_
    refine Post.bind (mono_S _ _ _ _) (fun q => mono_stmtsSK () _ _ q) (hf.S A n CT V vals st σ s hI hF hgh hok.1) ?_
    rintro ⟨fl, v, env1⟩ ⟨σ1, fl', bv⟩ s1 ⟨V0', vals1, CT1, henv, hfr, hn1, hnorm⟩
    have henv' : env1 = envOf N A (setTop V0' V) vals1 := henv
    subst henv'
    cases fl' with
    | normal =>
      cases fl <;> first | exact hfr.elim | skip
      obtain ⟨hV0, hvr, hN1⟩ := hnorm rfl
      have hV0' : V0' = visAfter s (V.headD []) := hV0
      show Post _ _ (run (evalStmts f _ (toStmtsF N A.c rest) v) s1)
      cases rest with
      | nil =>
        cases f with
        | zero => rw [evalStmts_zero]; exact True.intro
        | succ f0 =>
          rw [toStmtsF, evalStmts_nil]
          exact Post.ok 0 (σ1, .normal, bv) (by simp [stmtsSK]) ⟨V0', vals1, CT1, rfl, True.intro, hn1, fun _ => ⟨hV0, hvr, hN1⟩⟩
      | cons s2 rest2 =>
        have hflat : (setTop V0' V).flatten = visAfter s V.flatten := by
          cases V with
          | nil => simp [setTop, hvis0 rfl]
          | cons a b =>
            simp only [setTop, List.flatten_cons, hV0', List.headD_cons]
            rw [visAfter_append]
        have hokr : okP N Φ A.c A.gh A.nl (setTop V0' V).flatten (s2 :: rest2) = true := by rw [hflat]; exact hok.2
        refine Post.congr (ev' := fun k => Core.Fn.evalP Φ k A.cx σ1 (s2 :: rest2)) (fun k => by simp [stmtsSK]) ?_
        refine Post.mono ?_ (hf.P A n CT1 (setTop V0' V) vals1 s1 σ1 (s2 :: rest2) v hn1.inv hn1.frame hgh hokr (fun h => by cases h))
        rintro r y s ⟨V0'', vals2, CT2, h1, h2, hn2, h3⟩
        rw [setTop_setTop] at h1 hn2
        refine ⟨V0'', vals2, CT2, h1, h2, hn1.trans hn2, fun h => ?_⟩
        obtain ⟨a1, a2, a3, a4⟩ := h3 h
        refine ⟨?_, a2, by rw [lastRet_cons2]; exact a3, by rw [lastExpr_cons2]; exact a4⟩
        rw [a1]
        cases V with
        | nil => simp [setTop, defs, hvis0 rfl]
        | cons a b => simp [setTop, defs, hV0']
    | brk lb =>
      cases fl <;> first | exact hfr.elim | skip
      exact Post.ok 0 (σ1, .brk lb, .null) (by simp [stmtsSK]) ⟨V0', vals1, CT1, rfl, hfr, hn1, fun h => by cases h⟩
    | cont lb =>
      cases fl <;> first | exact hfr.elim | skip
      exact Post.ok 0 (σ1, .cont lb, .null) (by simp [stmtsSK]) ⟨V0', vals1, CT1, rfl, hfr, hn1, fun h => by cases h⟩
    | ret w =>
      cases fl <;> first | exact hfr.elim | skip
      exact Post.ok 0 (σ1, .ret w, .null) (by simp [stmtsSK]) ⟨V0', vals1, CT1, rfl, hfr, hn1, fun h => by cases h⟩

theorem block_succ (f : Nat) (hf : AllOK N Φ f) :
    ∀ (A : Act) n CT V vals st σ ss l, Inv N Φ CT n st σ → Frame N A CT V vals σ → A.gh ≤ n →
    okP N Φ A.c A.gh A.nl V.flatten ss = true →
    Post (BQ N Φ A n CT σ V ss) (fun k => Core.Fn.evalP Φ k A.cx σ ss) (run (Ref.evalBlock (f+1) (envOf N A V vals) (.mk l (toStmtsF N A.c ss))) st) := by
  intro A n CT V vals st σ ss l hI hF hgh hok
  rw [evalBlock_succ]
  have h := hf.P A n CT ([] :: V) vals st σ ss .null hI hF.push hgh (by simpa using hok) (fun _ => rfl)
  refine Res.bind h id ?_
  rintro ⟨fl, v, env'⟩ s1 ⟨k, ⟨σ1, fl', bv⟩, hk, V0', vals1, CT1, henv, hfr, hn1, hnorm⟩
  have henv' : env' = envOf N A (V0' :: V) vals1 := henv
  subst henv'
  exact Post.ok k (σ1, fl', bv) hk ⟨vals1, CT1, rfl, hfr,
    ⟨hn1.ext, hn1.hext, hn1.inv, Frame.pop (V0 := V0') hn1.frame (fun hd => (hF.infn hd).2.2)⟩, fun h => (hnorm h).2⟩

theorem mono_loopSK (cx : Option (FnDef × Nat)) (lbl : Option String) (loop : FStmt) (q : Sto × FFlow × Val) :
    FMono (fun k => loopSK Φ k cx lbl loop q) := by
  cases h : Core.Fn.floopAct lbl q.2.1 <;> simp only [loopSK, h]
  · exact mono_S _ _ _ _
  · exact FMono.const _
  · exact FMono.const _

theorem mkLoopF_normalOK (l : Nat) (lbl : Option String) (cond : Option FExpr) (body : List FStmt) :
    NormalOK [mkLoopF l lbl cond body] .null := by
  cases cond <;> exact ⟨rfl, fun _ => rfl⟩

/-- the body of a loop, then what the loop does with the flow -/
theorem loop_body_ok {f : Nat} (hf : AllOK N Φ f) (A : Act) (n : Nat) (CT : CTab) (V : List (List Nat)) (vals : Nat → Val) (st : St) (σ : Sto)
    (l : Nat) (lbl : Option String) (cond : Option FExpr) (body : List FStmt)
    (hI : Inv N Φ CT n st σ) (hF : Frame N A CT V vals σ) (hgh : A.gh ≤ n)
    (hc : condOKF N Φ A.c A.gh A.nl V.flatten cond = true) (hb : okP N Φ A.c A.gh A.nl V.flatten body = true) :
    Post (BQ N Φ A n CT σ V [mkLoopF l lbl cond body])
      (fun k => (Core.Fn.evalP Φ k A.cx σ body).bind (loopSK Φ k A.cx lbl (mkLoopF l lbl cond body)))
      (run (evalBlock f (envOf N A V vals) (.mk l (toStmtsF N A.c body)) >>=
        loopBodyK f lbl (cond.map (toAstF N A.c)) (.mk l (toStmtsF N A.c body))) st) := by
  refine Post.bind (mono_P _ _ _ _) (fun q => mono_loopSK _ _ _ q) (hf.B A n CT V vals st σ body l hI hF hgh hb) ?_
  rintro ⟨fl, v, env1⟩ ⟨σ1, fl', bv⟩ s1 ⟨vals1, CT1, henv, hfr, hn1, -⟩
  have henv' : env1 = envOf N A V vals1 := henv
  subst henv'
  have hN0 := mkLoopF_normalOK l lbl cond body
  have again : Core.Fn.floopAct lbl fl' = .again →
      Post (BQ N Φ A n CT σ V [mkLoopF l lbl cond body]) (fun k => loopSK Φ k A.cx lbl (mkLoopF l lbl cond body) (σ1, fl', bv))
        (run (evalLoop f (envOf N A V vals1) lbl (cond.map (toAstF N A.c)) (.mk l (toStmtsF N A.c body))) s1) := by
    intro hact
    refine Post.congr (ev' := fun k => Core.Fn.evalS Φ k A.cx σ1 (mkLoopF l lbl cond body)) (fun k => by simp [loopSK, hact]) ?_
    refine Post.mono ?_ (hf.L A n CT1 V vals1 s1 σ1 l lbl cond body hn1.inv hn1.frame hgh hc hb)
    rintro r y s ⟨vals2, CT2, h1, h2, hn2, h4⟩
    exact ⟨vals2, CT2, h1, h2, hn1.trans hn2, h4⟩
  cases fl' with
  | normal =>
    cases fl <;> first | exact hfr.elim | skip
    exact again rfl
  | brk lb =>
    cases fl <;> first | exact hfr.elim | skip
    have hlb : _ = lb := hfr
    subst hlb
    show Post _ _ (run (if labelMatches lbl _ then _ else _) s1)
    rw [labelMatches_eq]
    cases ht : Core.targets lbl _ with
    | true =>
      simp only [if_true]
      exact Post.ok 0 (σ1, .normal, .null) (by simp [loopSK, Core.Fn.floopAct, ht])
        ⟨vals1, CT1, rfl, True.intro, hn1, fun _ => ⟨VR.scalar rfl, hN0⟩⟩
    | false =>
      simp only [Bool.false_eq_true, if_false]
      exact Post.ok 0 (σ1, .brk _, .null) (by simp [loopSK, Core.Fn.floopAct, ht])
        ⟨vals1, CT1, rfl, rfl, hn1, fun h => by cases h⟩
  | cont lb =>
    cases fl <;> first | exact hfr.elim | skip
    have hlb : _ = lb := hfr
    subst hlb
    show Post _ _ (run (if labelMatches lbl _ then _ else _) s1)
    rw [labelMatches_eq]
    cases ht : Core.targets lbl _ with
    | true =>
      simp only [if_true]
      exact again (by simp [Core.Fn.floopAct, ht])
    | false =>
      simp only [Bool.false_eq_true, if_false]
      exact Post.ok 0 (σ1, .cont _, .null) (by simp [loopSK, Core.Fn.floopAct, ht])
        ⟨vals1, CT1, rfl, rfl, hn1, fun h => by cases h⟩
  | ret w =>
    cases fl <;> first | exact hfr.elim | skip
    exact Post.ok 0 (σ1, .ret w, .null) (by simp [loopSK, Core.Fn.floopAct])
      ⟨vals1, CT1, rfl, hfr, hn1, fun h => by cases h⟩

theorem loop_succ (f : Nat) (hf : AllOK N Φ f) :
    ∀ (A : Act) n CT V vals st σ l lbl cond body, Inv N Φ CT n st σ → Frame N A CT V vals σ → A.gh ≤ n →
    condOKF N Φ A.c A.gh A.nl V.flatten cond = true → okP N Φ A.c A.gh A.nl V.flatten body = true →
    Post (BQ N Φ A n CT σ V [mkLoopF l lbl cond body]) (fun k => Core.Fn.evalS Φ k A.cx σ (mkLoopF l lbl cond body))
      (run (Ref.evalLoop (f+1) (envOf N A V vals) lbl (cond.map (toAstF N A.c)) (.mk l (toStmtsF N A.c body))) st) := by
  intro A n CT V vals st σ l lbl cond body hI hF hgh hc hb
  rw [evalLoop_succ]
  cases cond with
  | none =>
    simp only [Option.map_none, loopCond, pure_bind]
    refine Post.shift (fS_zero _ _ _ _) (fun k => fS_loop Φ k A.cx σ l lbl body) ?_
    exact loop_body_ok hf A n CT V vals st σ l lbl none body hI hF hgh rfl hb
  | some c =>
    simp only [Option.map_some, loopCond, bind_assoc]
    refine Post.shift (fS_zero _ _ _ _) (fun k => fS_while Φ k A.cx σ l lbl c body) ?_
    refine Post.bind (mono_E _ _ _ _)
      (fun p => FMono.ite (FMono.const _) (FMono.bind (mono_P _ _ _ _) (fun q => mono_loopSK _ _ _ q)))
      (hf.E A n CT V vals st σ c hI hF hgh hc) ?_
    rintro r ⟨wc, σ1⟩ s1 ⟨vc, vals1, CT1, rfl, hvc, hn1⟩
    simp only [condK, bind_assoc, pure_bind]
    rw [hvc.truthy_eq σ1.a, pure_bind]
    cases hfal : Core.Fn.falseyH σ1.a wc with
    | true =>
      simp only [Bool.not_true]
      exact Post.ok 0 (σ1, .normal, .null) (by simp [hfal])
        ⟨vals1, CT1, rfl, True.intro, hn1, fun _ => ⟨VR.scalar rfl, mkLoopF_normalOK l lbl (some c) body⟩⟩
    | false =>
      simp only [Bool.not_false]
      refine Post.congr (ev' := fun k => (Core.Fn.evalP Φ k A.cx σ1 body).bind (loopSK Φ k A.cx lbl (mkLoopF l lbl (some c) body)))
        (fun k => by simp [hfal, mkLoopF]) ?_
      refine Post.mono ?_ (loop_body_ok hf A n CT1 V vals1 s1 σ1 l lbl (some c) body hn1.inv hn1.frame hgh hc hb)
      rintro r y s ⟨vals2, CT2, h1, h2, hn2, h4⟩
      exact ⟨vals2, CT2, h1, h2, hn1.trans hn2, h4⟩

end Main

/-! ## calls -/

def retKV (c : RClos) : Flow × Val × Env → M Val
  | (flow, v, _) =>
    match flow with
    | .ret r => pure r
    | .normal =>
      match c.body.stmts.getLast? with
      | some (.exprS ..) => pure v
      | some (.letS ..) | some (.fnS ..) | some (.ret ..) | none => pure .null
      | _ => pure (.other "poison")
    | _ => throw .unc

def callEnv (c : RClos) (vf : Val) (vargs : List Val) : Env :=
  [((c.params.zip vargs).map fun (n, v) => (n, Bind.l v)).reverse,
   (if c.name == "" then [] else [(c.name, .cap vf)]),
   (selfKey, .cap vf) :: c.captured]

theorem run_get_bind {β : Type} (K : St → M β) (s : St) : run (get >>= K) s = run (K s) s := rfl

/-- the end of an activation: its closure id leaves the list of the running ones -/
def popActive : M Unit := modify fun s => { s with active := s.active.tail }

theorem run_modify_bind {β : Type} (g : St → St) (K : Unit → M β) (s : St) : run (modify g >>= K) s = run (K ()) (g s) := rfl

theorem run_callValue_clos (f l : Nat) (a : FnDef) (b : List Val) (id : Nat) (vargs : List Val) (st : St) (c : RClos)
    (hc : st.clos[id - 1]? = some c) :
    run (callValue (f+1) l (.clos a b id) vargs) st =
      if c.params.length != vargs.length then (.error (.rt l), st)
      else run (evalBlock f (callEnv c (.clos a b id) vargs) c.body >>= fun r => popActive >>= fun _ => retKV c r)
        { st with active := id :: st.active } := by
  rw [callValue]
  rw [run_get_bind]
  simp only [hc]
  by_cases hlen : (c.params.length != vargs.length) = true
  · simp only [hlen, if_true]
    rfl
  · simp only [hlen, Bool.false_eq_true, if_false]
    rw [run_modify_bind]
    refine congrArg (fun m => run m _) (bind_congr_fun ?_)
    rintro ⟨fl, v, e⟩
    cases fl <;> rfl

theorem run_callValue_scalar (f l : Nat) (v : Val) (vargs : List Val) (st : St) (hs : isScalar v = true) :
    run (callValue (f+1) l v vargs) st = (.error (.rt l), st) := by
  cases v <;> first | (simp [isScalar] at hs; done) | (rw [callValue] <;> first | rfl | (intros; contradiction) | (intro h; cases h))

theorem callF_scalar (Φ : FnDef → Option FDecl) (k : Nat) (v : Val) (ws : List Val) (σ : Sto) (hs : isScalar v = true) :
    callF Φ k v ws σ = none := by
  cases v <;> first | (simp [isScalar] at hs; done) | rfl

theorem getLast_toStmtsF (N : Names) (c : Ctx) : ∀ ss : List FStmt, (toStmtsF N c ss).getLast? = ss.getLast?.map (toStmtF N c)
  | [] => rfl
  | [s] => rfl
  | s :: s2 :: r => by
    have ih := getLast_toStmtsF N c (s2 :: r)
    simp only [toStmtsF, List.getLast?_cons_cons] at ih ⊢
    exact ih

theorem retKV_normal (N : Names) (cx : Ctx) (c : RClos) (ss : List FStmt) (v : Val) (e : Env)
    (hb : c.body.stmts = toStmtsF N cx ss) (hl : lastOK ss = true) (hr : lastRet ss = false) :
    retKV c (.normal, v, e) = pure (if lastExpr ss then v else .null) := by
  unfold retKV
  simp only
  rw [hb, getLast_toStmtsF]
  unfold lastOK at hl
  unfold lastRet at hr
  unfold lastExpr
  cases hg : ss.getLast? with
  | none => rfl
  | some s =>
    rw [hg] at hl hr
    cases s <;> simp [FStmt.isRet] at hl hr <;> rfl

theorem param_scope (N : Names) (d np : Nat) (vargs : List Val) (h : vargs.length = np) :
    (((params N d np).zip vargs).map fun (p : String × Val) => (p.1, Bind.l p.2)).reverse =
      mkScope (N.ln d) (fun i => vargs.getD i .null) (paramVis np) := by
  unfold mkScope paramVis params
  rw [List.map_reverse]
  congr 1
  apply List.ext_getElem
  · simp [h]
  · intro i h1 h2
    simp only [List.length_map, List.length_zip, List.length_range] at h1 h2
    simp [List.getD_eq_getElem?_getD, List.getElem?_eq_getElem (show i < vargs.length by omega)]

def selfScope (c : RClos) (vf : Val) : Scope := if c.name == "" then [] else [(c.name, .cap vf)]

theorem lookup_base (c : RClos) (vf : Val) (name : String) (b : Bind) (h1 : name ≠ c.name) (h2 : name ≠ selfKey)
    (h : lookupScope name c.captured = some b) :
    lookupEnv name [selfScope c vf, (selfKey, .cap vf) :: c.captured] = some b := by
  have hs : lookupScope name (selfScope c vf) = none := by
    unfold selfScope
    split
    · rfl
    · simp [lookupScope, Ne.symm h1]
  simp [lookupEnv, hs, lookupScope, Ne.symm h2, h]

theorem lookup_self (c : RClos) (vf : Val) (h : c.name ≠ "") :
    lookupEnv c.name [selfScope c vf, (selfKey, .cap vf) :: c.captured] = some (.cap vf) := by
  simp [lookupEnv, selfScope, h, lookupScope]

theorem callF_none (Φ : FnDef → Option FDecl) (k : Nat) (fd : FnDef) (fr : List Val) (id : Nat) (ws : List Val) (σ : Sto) (d : FDecl)
    (hΦ : Φ fd = some d) (hl : ws.length = d.np)
    (h : Core.Fn.evalP Φ k (some (fd, id)) (σ.enter (ws ++ List.replicate (d.nl - d.np) .null)) d.body = none) :
    callF Φ k (.clos fd fr id) ws σ = none := by
  unfold callF; simp only [hΦ]; rw [if_pos hl, h]

theorem callF_ret (Φ : FnDef → Option FDecl) (k : Nat) (fd : FnDef) (fr : List Val) (id : Nat) (ws : List Val) (σ σ3 : Sto) (d : FDecl) (v x : Val)
    (hΦ : Φ fd = some d) (hl : ws.length = d.np)
    (h : Core.Fn.evalP Φ k (some (fd, id)) (σ.enter (ws ++ List.replicate (d.nl - d.np) .null)) d.body = some (σ3, .ret v, x)) :
    callF Φ k (.clos fd fr id) ws σ = some (v, σ.back σ3) := by
  unfold callF; simp only [hΦ]; rw [if_pos hl, h]

theorem callF_normal (Φ : FnDef → Option FDecl) (k : Nat) (fd : FnDef) (fr : List Val) (id : Nat) (ws : List Val) (σ σ3 : Sto) (d : FDecl) (bv : Val)
    (hΦ : Φ fd = some d) (hl : ws.length = d.np)
    (h : Core.Fn.evalP Φ k (some (fd, id)) (σ.enter (ws ++ List.replicate (d.nl - d.np) .null)) d.body = some (σ3, .normal, bv)) :
    callF Φ k (.clos fd fr id) ws σ = some (bv, σ.back σ3) := by
  unfold callF; simp only [hΦ]; rw [if_pos hl, h]

theorem callF_arity (Φ : FnDef → Option FDecl) (k : Nat) (fd : FnDef) (fr : List Val) (id : Nat) (ws : List Val) (σ : Sto) (d : FDecl)
    (hΦ : Φ fd = some d) (hl : ¬ ws.length = d.np) : callF Φ k (.clos fd fr id) ws σ = none := by
  unfold callF; simp only [hΦ]; rw [if_neg hl]

section Call
variable {N : Names} {Φ : FnDef → Option FDecl} (hN : NamesOK N)

include hN in
theorem call_succ (f : Nat) (hf : AllOK N Φ f) :
    ∀ n CT st σ l vf wf vargs wargs, Inv N Φ CT n st σ → VR CT vf wf → VRs CT vargs wargs →
    Post (CQ N Φ n CT σ) (fun k => callF Φ k wf wargs σ) (run (Ref.callValue (f+1) l vf vargs) st) := by
  intro n CT st σ l vf wf vargs wargs hI hvf hargs
  rcases hvf with ⟨hs, rfl⟩ | ⟨k, fd, hid, rfl, rfl, hk⟩
  · rw [run_callValue_scalar _ _ _ _ _ hs]
    intro k; exact callF_scalar Φ k _ _ _ hs
  · obtain ⟨c, hc, d, cx, gh, hΦ, hname, hparams, hbody, hdepth, hnpnl, hghn, hokb, hlast, hglob, hfrees, hlnself, hselfkey⟩ := hI.clos k fd hid hk
    rw [run_callValue_clos f l emptyFn [] (k+1) vargs st c (by simpa using hc)]
    have hplen : c.params.length = d.np := by rw [hparams]; simp [params]
    have hlen := hargs.length
    by_cases hne : vargs.length = d.np
    · have hb0 : (c.params.length != vargs.length) = false := by simp [hplen, hne]
      rw [hb0]
      simp only [Bool.false_eq_true, if_false]
      have hwl : wargs.length = d.np := by omega
      have hvfr : VR CT (.clos emptyFn [] (k+1)) (.clos fd [] hid) := .inr ⟨k, fd, hid, rfl, rfl, hk⟩
      have henv : callEnv c (.clos emptyFn [] (k+1)) vargs =
          envOf N ⟨cx, gh, d.nl, [selfScope c (.clos emptyFn [] (k+1)), (selfKey, .cap (.clos emptyFn [] (k+1))) :: c.captured], some (fd, hid)⟩
            [paramVis d.np] (fun i => vargs.getD i .null) := by
        unfold callEnv envOf mkEnv
        rw [hparams, param_scope N cx.depth d.np vargs hne]
        rfl
      have hF' : Frame N ⟨cx, gh, d.nl, [selfScope c (.clos emptyFn [] (k+1)), (selfKey, .cap (.clos emptyFn [] (k+1))) :: c.captured], some (fd, hid)⟩
          CT [paramVis d.np] (fun i => vargs.getD i .null) (σ.enter (wargs ++ List.replicate (d.nl - d.np) .null)) := by
        refine ⟨?_, ?_, ?_, ?_, ?_, ?_, ?_⟩
        · simp only [paramVis, List.flatten_cons, List.flatten_nil, List.append_nil]
          exact (List.reverse_perm _).nodup_iff.mpr List.nodup_range
        · intro i hi
          have hi' : i < d.np := by simpa [paramVis] using hi
          obtain ⟨w, hw, hvr⟩ := hargs.get i (by omega)
          exact ⟨w, by simp [List.getElem?_append_left (show i < wargs.length by omega), hw], hvr⟩
        · simp; omega
        · intro j hj
          obtain ⟨h1, h2⟩ := hglob j hj
          exact lookup_base c _ _ _ (by rw [hname]; exact h1) (hN.gn_key j) h2
        · intro hs
          refine ⟨hlnself, hselfkey, _, fd, hid, ?_, rfl, hvfr⟩
          show lookupEnv cx.self _ = _
          rw [← hname]
          exact lookup_self c _ (by rw [hname]; exact hs)
        · intro j name hj
          obtain ⟨a1, a2, a3, a4, v, w, b1, b2, b3⟩ := hfrees j name hj
          exact ⟨a1, a4, a3, v, w, fd, hid, rfl, lookup_base c _ _ _ (by rw [hname]; exact a2) a3 b1, b2, b3⟩
        · intro _
          exact ⟨⟨_, rfl⟩, by simp [isGlobalEnv], by simp⟩
      have hI' : Inv N Φ CT n { st with active := (k + 1) :: st.active } (σ.enter (wargs ++ List.replicate (d.nl - d.np) .null)) :=
        Inv.of_gh (σ := σ) rfl rfl (hI.of_active _)
      have hbody' : c.body = .mk c.body.line (toStmtsF N cx d.body) := by
        cases hcb : c.body with
        | mk bl bs =>
          rw [hcb] at hbody
          simp only [Block.stmts] at hbody
          rw [hbody]; rfl
      rw [henv, hbody']
      have hb := hf.B _ n CT [paramVis d.np] _ { st with active := (k + 1) :: st.active } _ d.body c.body.line hI' hF' hghn (by simpa using hokb)
      refine Res.bind hb ?_ ?_
      · intro h k'
        exact callF_none Φ k' fd [] hid wargs σ d hΦ hwl (h k')
      · rintro ⟨fl, v, env'⟩ s1 ⟨k', ⟨σ3, fl', bv⟩, hk', vals1, CT1, henv1, hfr, hn1, hnorm⟩
        have hk'' : Core.Fn.evalP Φ k' (some (fd, hid)) (σ.enter (wargs ++ List.replicate (d.nl - d.np) .null)) d.body = some (σ3, fl', bv) := hk'
        have hI3 : Inv N Φ CT1 n { s1 with active := s1.active.tail } (σ.back σ3) :=
          Inv.of_gh (σ := σ3) rfl rfl (hn1.inv.of_active _)
        show Res _ _ (run (popActive >>= fun _ => retKV c (fl, v, env')) s1)
        unfold popActive
        rw [run_modify_bind]
        cases fl' with
        | normal =>
          cases fl <;> first | exact hfr.elim | skip
          obtain ⟨hvr, hN1, hN2⟩ := hnorm rfl
          rw [retKV_normal N cx c d.body v env' hbody hlast hN1]
          refine Post.ok k' (bv, σ.back σ3) (callF_normal Φ k' fd [] hid wargs σ σ3 d bv hΦ hwl hk'') ⟨CT1, ?_, hn1.ext, hn1.hext, hI3, rfl⟩
          cases hle : lastExpr d.body with
          | true => exact hvr
          | false =>
            show VR CT1 .null bv
            have hbv : bv = .null := hN2 hle
            rw [hbv]; exact VR.scalar rfl
        | ret w =>
          cases fl <;> first | exact hfr.elim | skip
          exact Post.ok k' (w, σ.back σ3) (callF_ret Φ k' fd [] hid wargs σ σ3 d w bv hΦ hwl hk'') ⟨CT1, hfr, hn1.ext, hn1.hext, hI3, rfl⟩
        | brk lb =>
          cases fl <;> first | exact hfr.elim | skip
          exact True.intro
        | cont lb =>
          cases fl <;> first | exact hfr.elim | skip
          exact True.intro
    · have hb0 : (c.params.length != vargs.length) = true := by
        rw [hplen, bne_iff_ne]; omega
      rw [hb0]
      simp only [if_true]
      intro k'
      exact callF_arity Φ k' fd [] hid wargs σ d hΦ (by omega)

include hN in
theorem all_ok : ∀ fuel, AllOK N Φ fuel := by
  intro fuel
  induction fuel using Nat.strongRecOn with
  | ind fuel ih =>
    cases fuel with
    | zero => exact all_zero N Φ
    | succ f =>
      have ihf := ih f (Nat.lt_succ_self f)
      have ih' : ∀ f', f' ≤ f → AllOK N Φ f' := fun f' h => ih f' (Nat.lt_succ_of_le h)
      exact ⟨expr_succ hN f ih', arms_succ f ih', args_succ hN f ihf, stmt_succ hN f ih', stmts_succ f ihf, block_succ f ihf, loop_succ f ihf, call_succ hN f ihf⟩

/-! ## the theorems (Stage A: first-order functions) -/

include hN

/-- **a call of the oracle is a call of Core.Fn** (`…_partial`: function bodies of the fragment `okP` -- no
`match`, loops, function literals / captured variables, arrays, maps, builtins; bodies end in an
expression statement, an `if`, a `let`, a `return`, or are empty).  If the oracle's `callValue` on a closure of
its table yields a value, the call of the related Core.Fn function value on related arguments yields a related
value for some fuel, and the configurations are related again. -/
theorem ref_call_fn_partial {fuel n l : Nat} {CT : CTab} {st st' : St} {σ : Sto} {vf wf r : Val} {vargs wargs : List Val}
    (hI : Inv N Φ CT n st σ) (hf : VR CT vf wf) (ha : VRs CT vargs wargs)
    (h : run (Ref.callValue fuel l vf vargs) st = (.ok r, st')) :
    ∃ k w σ' CT', callF Φ k wf wargs σ = some (w, σ') ∧ VR CT' r w ∧ CT <+: CT' ∧ Inv N Φ CT' n st' σ' ∧ σ'.l = σ.l := by
  have hm := (all_ok hN fuel).C n CT st σ l vf wf vargs wargs hI hf ha
  rw [h] at hm
  obtain ⟨k, ⟨w, σ'⟩, hk, CT', h1, h2, -, h4, h5⟩ := hm
  exact ⟨k, w, σ', CT', hk, h1, h2, h4, h5⟩

/-- the oracle's runtime error in a call: no fuel makes Core.Fn's call succeed -/
theorem ref_call_fn_error_partial {fuel n l l' : Nat} {CT : CTab} {st st' : St} {σ : Sto} {vf wf : Val} {vargs wargs : List Val}
    (hI : Inv N Φ CT n st σ) (hf : VR CT vf wf) (ha : VRs CT vargs wargs)
    (h : run (Ref.callValue fuel l vf vargs) st = (.error (.rt l'), st')) :
    ∀ k, callF Φ k wf wargs σ = none := by
  have hm := (all_ok hN fuel).C n CT st σ l vf wf vargs wargs hI hf ha
  rw [h] at hm
  exact hm

/-- **expressions** (inside a function activation or at top level) -/
theorem ref_expr_fn_partial {fuel n : Nat} {A : Act} {CT : CTab} {V : List (List Nat)} {vals : Nat → Val} {st st' : St} {σ : Sto}
    {e : FExpr} {v : Val} {env' : Env}
    (hI : Inv N Φ CT n st σ) (hF : Frame N A CT V vals σ) (hgh : A.gh ≤ n) (hok : okE N Φ A.c A.gh A.nl V.flatten e = true)
    (h : run (Ref.evalE fuel (envOf N A V vals) (toAstF N A.c e)) st = (.ok (.val v env'), st')) :
    ∃ k w σ' CT' vals', Core.Fn.evalE Φ k A.cx σ e = some (w, σ') ∧ VR CT' v w ∧ env' = envOf N A V vals' ∧
      Inv N Φ CT' n st' σ' ∧ Frame N A CT' V vals' σ' := by
  have hm := (all_ok hN fuel).E A n CT V vals st σ e hI hF hgh hok
  rw [h] at hm
  obtain ⟨k, ⟨w, σ'⟩, hk, v0, vals', CT', h1, h2, h3⟩ := hm
  cases h1
  exact ⟨k, w, σ', CT', vals', hk, h2, rfl, h3.inv, h3.frame⟩

theorem ref_expr_fn_error_partial {fuel n l : Nat} {A : Act} {CT : CTab} {V : List (List Nat)} {vals : Nat → Val} {st st' : St} {σ : Sto}
    {e : FExpr}
    (hI : Inv N Φ CT n st σ) (hF : Frame N A CT V vals σ) (hgh : A.gh ≤ n) (hok : okE N Φ A.c A.gh A.nl V.flatten e = true)
    (h : run (Ref.evalE fuel (envOf N A V vals) (toAstF N A.c e)) st = (.error (.rt l), st')) :
    ∀ k, Core.Fn.evalE Φ k A.cx σ e = none := by
  have hm := (all_ok hN fuel).E A n CT V vals st σ e hI hF hgh hok
  rw [h] at hm
  exact hm

/-- **statement lists**: the flows are related (`return v` carries related values), the value of the list is
related when the flow is normal -/
theorem ref_stmts_fn_partial {fuel n : Nat} {A : Act} {CT : CTab} {V : List (List Nat)} {vals : Nat → Val} {st st' : St} {σ : Sto}
    {ss : List FStmt} {fl : Flow} {v : Val} {env' : Env}
    (hI : Inv N Φ CT n st σ) (hF : Frame N A CT V vals σ) (hgh : A.gh ≤ n) (hok : okP N Φ A.c A.gh A.nl V.flatten ss = true)
    (h : run (Ref.evalStmts fuel (envOf N A V vals) (toStmtsF N A.c ss) .null) st = (.ok (fl, v, env'), st')) :
    ∃ k σ' fl' bv CT', Core.Fn.evalP Φ k A.cx σ ss = some (σ', fl', bv) ∧ FR CT' fl fl' ∧ (fl' = .normal → VR CT' v bv) ∧
      Inv N Φ CT' n st' σ' := by
  have hm := (all_ok hN fuel).P A n CT V vals st σ ss .null hI hF hgh hok (fun _ => rfl)
  rw [h] at hm
  obtain ⟨k, ⟨σ', fl', bv⟩, hk, V0', vals', CT', h1, h2, h3, h4⟩ := hm
  exact ⟨k, σ', fl', bv, CT', hk, h2, fun hn => (h4 hn).2.1, h3.inv⟩

theorem ref_stmts_fn_error_partial {fuel n l : Nat} {A : Act} {CT : CTab} {V : List (List Nat)} {vals : Nat → Val} {st st' : St} {σ : Sto}
    {ss : List FStmt}
    (hI : Inv N Φ CT n st σ) (hF : Frame N A CT V vals σ) (hgh : A.gh ≤ n) (hok : okP N Φ A.c A.gh A.nl V.flatten ss = true)
    (h : run (Ref.evalStmts fuel (envOf N A V vals) (toStmtsF N A.c ss) .null) st = (.error (.rt l), st')) :
    ∀ k, Core.Fn.evalP Φ k A.cx σ ss = none := by
  have hm := (all_ok hN fuel).P A n CT V vals st σ ss .null hI hF hgh hok (fun _ => rfl)
  rw [h] at hm
  exact hm

end Call

/-! ## whole programs: top-level statements and function definitions against `evalT` -/

/-- `f = fn(…) {…};` at top level is the expression statement that assigns a function literal without captured variables -/
def fnSetStmt (ls l gi : Nat) (code lines : List Nat) (d : FDecl) : FStmt :=
  .expr ls (.gset l gi (.mkclos d.line code lines d.np d.nl d.body []))

theorem toTop_fnSet (N : Names) (ls l gi : Nat) (code lines : List Nat) (d : FDecl) :
    toTop N (.fnSet ls l gi code lines d) = toStmtF N topCtx (fnSetStmt ls l gi code lines d) := rfl

open Classical in
/-- programs covered: `let` at top level defines the next global slot; `fn f(…) {…}` / `let f = fn…` (`FTop.fnDef`)
defines the next global slot, its body refers to earlier globals and to itself by its own name; every other
top-level statement is in the fragment `okS` (no `let` inside top-level blocks); `f = fn…` (`fnSet`) is excluded -/
noncomputable def okTop (N : Names) (Φ : FnDef → Option FDecl) (G : Nat) : Nat → List FTop → Bool
  | _, [] => true
  | n, .stmt s :: rest =>
    (match s with
     | .letG _ i e => (i == n) && decide (n < G) && okE N Φ topCtx n 0 [] e && okTop N Φ G (n + 1) rest
     | s => okS N Φ topCtx n 0 [] s && okTop N Φ G n rest)
  | n, .fnDef _ gi code lines d :: rest =>
    (gi == n) && decide (n < G) && decide (Φ (mkFd code lines d) = some d) && decide (d.np ≤ d.nl) &&
    okP N Φ (fnCtx N gi) n d.nl (paramVis d.np) d.body && lastOK d.body && okTop N Φ G (n + 1) rest
  | n, .fnSet ls l gi code lines d :: rest =>
    okS N Φ topCtx n 0 [] (fnSetStmt ls l gi code lines d) && okTop N Φ G n rest

/-- one top-level item of `evalT` -/
def stepT (Φ : FnDef → Option FDecl) (g : List Val) (h : List (List Val)) (a : Heap) : FTop → Nat → Option (List Val × List (List Val) × Heap)
  | .stmt s, k =>
    (match Core.Fn.evalS Φ k none ⟨[], g, h, a⟩ s with
     | some (σ1, .normal, _) => some (σ1.g, σ1.h, σ1.a)
     | _ => none)
  | .fnDef _ gi code lines d, _ => if gi < g.length then some (g.set gi (.clos (mkFd code lines d) [] h.length), h ++ [[]], a) else none
  | .fnSet _ _ gi code lines d, _ => if gi < g.length then some (g.set gi (.clos (mkFd code lines d) [] h.length), h ++ [[]], a) else none

theorem evalT_cons (Φ : FnDef → Option FDecl) (k : Nat) (g : List Val) (h : List (List Val)) (a : Heap) (t : FTop) (rest : List FTop) :
    Core.Fn.evalT Φ k g h a (t :: rest) = (stepT Φ g h a t k).bind fun y => Core.Fn.evalT Φ k y.1 y.2.1 y.2.2 rest := by
  cases t with
  | stmt s =>
    simp only [Core.Fn.evalT, stepT]
    cases Core.Fn.evalS Φ k none ⟨[], g, h, a⟩ s with
    | none => rfl
    | some q => obtain ⟨σ1, fl, v⟩ := q; cases fl <;> rfl
  | fnDef l gi code lines d =>
    simp only [Core.Fn.evalT, stepT]
    split <;> rfl
  | fnSet ls l gi code lines d =>
    simp only [Core.Fn.evalT, stepT]
    split <;> rfl

theorem stepT_fnSet_eq (Φ : FnDef → Option FDecl) (g : List Val) (h : List (List Val)) (a : Heap) (ls l gi : Nat) (code lines : List Nat)
    (d : FDecl) (k k' : Nat) :
    stepT Φ g h a (.stmt (fnSetStmt ls l gi code lines d)) (k + 3) = stepT Φ g h a (.fnSet ls l gi code lines d) k' := by
  cases d with
  | mk np nl body line =>
    by_cases hgi : gi < g.length <;>
      simp [stepT, fnSetStmt, Core.Fn.evalS, Core.Fn.evalE, Core.Fn.capVals, mkFd, hgi]

theorem mono_stepT (Φ : FnDef → Option FDecl) (g : List Val) (h : List (List Val)) (a : Heap) (t : FTop) : FMono (stepT Φ g h a t) := by
  intro k k' r hle hk
  cases t with
  | stmt s =>
    simp only [stepT] at hk ⊢
    cases hs : Core.Fn.evalS Φ k none ⟨[], g, h, a⟩ s with
    | none => simp [hs] at hk
    | some q => rw [(mono_all Φ k).S _ _ _ q k' hle hs]; rw [hs] at hk; exact hk
  | fnDef l gi code lines d => exact hk
  | fnSet ls l gi code lines d => exact hk

theorem mono_evalT (Φ : FnDef → Option FDecl) : ∀ (T : List FTop) (g : List Val) (h : List (List Val)) (a : Heap),
    FMono (fun k => Core.Fn.evalT Φ k g h a T)
  | [], g, h, a => fun k k' r _ hk => by simpa [Core.Fn.evalT] using hk
  | t :: rest, g, h, a => by
    have := FMono.bind (mono_stepT Φ g h a t) (fun y => mono_evalT Φ rest y.1 y.2.1 y.2.2)
    intro k k' r hle hk
    have hk' : Core.Fn.evalT Φ k g h a (t :: rest) = some r := hk
    rw [evalT_cons] at hk'
    show Core.Fn.evalT Φ k' g h a (t :: rest) = some r
    rw [evalT_cons]
    exact this k k' r hle hk'

section Top
variable {N : Names} {Φ : FnDef → Option FDecl} (hN : NamesOK N) (G : Nat)

/-- the configuration between two top-level items: `n` globals defined, each bound by reference in the global scope -/
structure TopR (N : Names) (Φ : FnDef → Option FDecl) (G n : Nat) (base : Env) (CT : CTab) (st : St)
    (g : List Val) (h : List (List Val)) (a : Heap) : Prop where
  inv : Inv N Φ CT n st ⟨[], g, h, a⟩
  gl : g.length = G
  glob : isGlobalEnv base = true
  bound : ∀ j, j < n → lookupEnv (N.gn j) base = some (.g j)

def topAct (n : Nat) (base : Env) : Act := ⟨topCtx, n, 0, base, none⟩

theorem TopR.frame {n : Nat} {base : Env} {CT : CTab} {st : St} {g : List Val} {h : List (List Val)} {a : Heap}
    (hr : TopR N Φ G n base CT st g h a) (vals : Nat → Val) : Frame N (topAct n base) CT [] vals ⟨[], g, h, a⟩ :=
  ⟨by simp, by simp, rfl, hr.bound, fun hs => absurd rfl hs, fun j name hj => by simp [topAct, topCtx] at hj,
   fun hd => absurd hd (Nat.lt_irrefl 0)⟩

/-- a new global: cell `n` of the oracle, slot `n` of Core.Fn -/
theorem Inv.defGlobal {CT : CTab} {n : Nat} {st : St} {σ : Sto} {v w : Val} (hI : Inv N Φ CT n st σ) (hv : VR CT v w)
    (hn : n < σ.g.length) :
    Inv N Φ CT (n + 1) { st with cells := st.cells ++ [v], sites := (n, n) :: st.sites } (σ.gset n w) := by
  refine ⟨hI.closLen, ?_, by simp [hI.cellsLen], by simp; omega, ?_, ?_⟩
  · intro k fd hid hk
    obtain ⟨c, hc, he⟩ := hI.clos k fd hid hk
    exact ⟨c, hc, he.mono (List.prefix_refl _) (List.prefix_refl _) (Nat.le_succ n)⟩
  · intro j hj
    by_cases hjn : j = n
    · subst hjn
      refine ⟨v, w, ?_, by simp [hn], hv⟩
      show (st.cells ++ [v])[j]? = some v
      rw [← hI.cellsLen]; simp
    · have hj' : j < n := by omega
      obtain ⟨v0, w0, h1, h2, h3⟩ := hI.cells j hj'
      refine ⟨v0, w0, ?_, by simp [List.getElem?_set_ne (Ne.symm hjn), h2], h3⟩
      show (st.cells ++ [v])[j]? = some v0
      rw [List.getElem?_append_left (by rw [hI.cellsLen]; exact hj')]; exact h1
  · intro i hi
    show ((n, n) :: st.sites).find? _ = none
    rw [List.find?_cons]
    have hne : (n == i) = false := by simp; omega
    simp only [hne]
    exact hI.fresh i (by omega)

theorem run_defGlobal {β : Type} (st : St) (n : Nat) (v : Val) (K : Nat → Unit → M β) (hc : st.cells.length = n)
    (hf : st.sites.find? (·.1 == n) = none) :
    run (siteCell n >>= fun c => setCell c v >>= K c) st =
      run (K n ()) { st with cells := st.cells ++ [v], sites := (n, n) :: st.sites } := by
  rw [run_bind, run_siteCell_fresh _ _ hf]
  dsimp only
  rw [run_setCell_bind]
  dsimp only
  rw [append_set_last, hc]

include hN in
theorem TopR.bind {n : Nat} {base : Env} {CT : CTab} {st : St} {g : List Val} {h : List (List Val)} {a : Heap}
    (hr : TopR N Φ G n base CT st g h a) {CT' : CTab} {st' : St} {g' : List Val} {h' : List (List Val)} {a' : Heap}
    (hI : Inv N Φ CT' (n + 1) st' ⟨[], g', h', a'⟩) (hg : g'.length = G) :
    TopR N Φ G (n + 1) (bindTop (N.gn n) (.g n) base) CT' st' g' h' a' := by
  refine ⟨hI, hg, isGlobalEnv_bindTop _ _ _ hr.glob, ?_⟩
  intro j hj
  rw [lookupEnv_bindTop]
  by_cases hjn : j = n
  · subst hjn; simp
  · have hne : (N.gn n == N.gn j) = false := by
      simp only [beq_eq_false_iff_ne, ne_eq]
      intro e; exact hjn (hN.gn_inj _ _ e).symm
    rw [hne]
    simp only [Bool.false_eq_true, if_false]
    exact hr.bound j (by omega)

def fnSK (site : Nat) (name : String) (ps : List String) (body : Block) (l : Nat) (env : Env) : M (Flow × Val × Env) :=
  siteCell site >>= fun c =>
    mkClos { name := name, params := ps, body := body, captured := captureEnv (bindTop name (.g c) env), line := l } >>= fun cl =>
      setCell c cl >>= fun _ => pure (.normal, .null, bindTop name (.g c) env)

theorem evalStmt_fnS_global (f : Nat) (env : Env) (l site : Nat) (name : String) (ps : List String) (body : Block)
    (hg : isGlobalEnv env = true) :
    evalStmt (f+1) env (.fnS l site name ps body) = fnSK site name ps body l env := by
  rw [evalStmt]
  simp only [hg, if_true]
  rfl

theorem run_fnSK (st : St) (site : Nat) (name : String) (ps : List String) (body : Block) (l : Nat) (env : Env)
    (hf : st.sites.find? (·.1 == site) = none) :
    run (fnSK site name ps body l env) st =
      (.ok (.normal, .null, bindTop name (.g st.cells.length) env),
       { st with cells := st.cells ++ [.clos emptyFn [] (st.clos.length + 1)], sites := (site, st.cells.length) :: st.sites,
                 clos := st.clos ++ [⟨name, ps, body, captureEnv (bindTop name (.g st.cells.length) env), l⟩] }) := by
  unfold fnSK
  rw [run_bind, run_siteCell_fresh _ _ hf]
  dsimp only
  rw [run_mkClos_bind, run_setCell_bind, run_pure]
  dsimp only
  rw [append_set_last]

/-- what is proved of the head of a program -/
def HeadQ (N : Names) (Φ : FnDef → Option FDecl) (G : Nat) (g : List Val) (h : List (List Val)) (a : Heap) (t : FTop) (rest : List FTop)
    (r : Flow × Val × Env) (st1 : St) : Prop :=
  r.1 = .normal → ∃ k y CT1 n1, stepT Φ g h a t k = some y ∧ TopR N Φ G n1 r.2.2 CT1 st1 y.1 y.2.1 y.2.2 ∧ okTop N Φ G n1 rest = true

include hN in
theorem head_ok (f : Nat) (t : FTop) (rest : List FTop) (n : Nat) (base : Env) (CT : CTab) (st : St) (g : List Val) (h : List (List Val)) (a : Heap)
    (hr : TopR N Φ G n base CT st g h a) (hok : okTop N Φ G n (t :: rest) = true) :
    Res (HeadQ N Φ G g h a t rest) (∀ k, stepT Φ g h a t k = none) (run (evalStmt f base (toTop N t)) st) := by
  cases f with
  | zero => rw [evalStmt_zero]; exact True.intro
  | succ f =>
  have hall := all_ok (Φ := Φ) hN
  have hI := hr.inv
  have hcl : st.cells.length = n := hI.cellsLen
  subst hcl
  cases t with
  | fnSet ls l gi code lines d =>
    simp only [okTop, Bool.and_eq_true] at hok
    have hF := hr.frame G (fun _ => Val.null)
    have hs := (hall (f+1)).S (topAct st.cells.length base) st.cells.length CT [] (fun _ => Val.null) st ⟨[], g, h, a⟩
      (fnSetStmt ls l gi code lines d) hI hF (Nat.le_refl _) hok.1
    rw [toTop_fnSet]
    refine Res.mono ?_ ?_ hs
    · rintro ⟨fl, v, env1⟩ s1 ⟨k, ⟨σ1, fl', bv⟩, hk, V0', vals1, CT1, henv, hfr, hn1, -⟩ hnormal
      have hk' : Core.Fn.evalS Φ k none ⟨[], g, h, a⟩ (fnSetStmt ls l gi code lines d) = some (σ1, fl', bv) := hk
      have hfl : fl = .normal := hnormal
      subst hfl
      cases fl' <;> first | exact hfr.elim | skip
      have hI1 : Inv N Φ CT1 st.cells.length s1 σ1 := hn1.inv
      have hl1 : σ1.l.length = 0 := hn1.frame.lLen
      have hg1 : σ1.g.length = g.length := (glen_all Φ k).S _ _ _ _ _ _ hk'
      have hσ1 : σ1 = ⟨[], σ1.g, σ1.h, σ1.a⟩ := by
        cases σ1 with
        | mk l1 g1 h1 a1 =>
          have : l1 = [] := by simpa using hl1
          simp [this]
      have henv' : env1 = base := henv
      subst henv'
      have hstep : stepT Φ g h a (.stmt (fnSetStmt ls l gi code lines d)) k = some (σ1.g, σ1.h, σ1.a) := by simp [stepT, hk']
      have hstep3 := mono_stepT Φ g h a _ k (k + 3) _ (Nat.le_add_right _ _) hstep
      rw [stepT_fnSet_eq Φ g h a ls l gi code lines d k 0] at hstep3
      refine ⟨0, (σ1.g, σ1.h, σ1.a), CT1, st.cells.length, hstep3, ⟨?_, by rw [hg1]; exact hr.gl, hr.glob, hr.bound⟩, hok.2⟩
      rw [hσ1] at hI1; exact hI1
    · intro hnone k
      rw [← stepT_fnSet_eq Φ g h a ls l gi code lines d 0 k]
      simp [stepT, show Core.Fn.evalS Φ (0 + 3) none ⟨[], g, h, a⟩ (fnSetStmt ls l gi code lines d) = none from hnone 3]
  | fnDef l gi code lines d =>
    simp only [okTop, Bool.and_eq_true, beq_iff_eq, decide_eq_true_eq] at hok
    obtain ⟨⟨⟨⟨⟨⟨hgi0, hnG⟩, hΦ⟩, hnp⟩, hbody⟩, hlast⟩, hrest⟩ := hok
    subst hgi0
    rw [toTop, evalStmt_fnS_global _ _ _ _ _ _ _ hr.glob, run_fnSK _ _ _ _ _ _ _ (hI.fresh _ (Nat.le_refl _))]
    have hp : CT <+: CT ++ [(mkFd code lines d, h.length)] := List.prefix_append _ _
    have hgi : st.cells.length < g.length := by rw [hr.gl]; exact hnG
    have hentry : ClosEntry N Φ (CT ++ [(mkFd code lines d, h.length)]) (h ++ [[]]) st.cells.length
        ⟨N.gn st.cells.length, params N 1 d.np, .mk d.line (toStmtsF N (fnCtx N st.cells.length) d.body),
          captureEnv (bindTop (N.gn st.cells.length) (.g st.cells.length) base), l⟩ (mkFd code lines d) h.length := by
      refine ⟨d, fnCtx N st.cells.length, st.cells.length, hΦ, rfl, rfl, rfl, Nat.succ_pos _, hnp, Nat.le_refl _, hbody, hlast, ?_, ?_,
        fun d' i e => hN.gn_ln st.cells.length d' i e.symm, hN.gn_key st.cells.length⟩
      · intro j hj
        refine ⟨fun e => by have := hN.gn_inj _ _ e; omega, ?_⟩
        show lookupScope (N.gn j) (captureEnv (bindTop (N.gn st.cells.length) (.g st.cells.length) base)) = _
        rw [lookupScope_captureEnv, lookupEnv_bindTop]
        have hne : (N.gn st.cells.length == N.gn j) = false := by
          simp only [beq_eq_false_iff_ne, ne_eq]
          intro e; have := hN.gn_inj _ _ e; omega
        rw [hne]
        simp only [Bool.false_eq_true, if_false]
        rw [hr.bound j hj]; rfl
      · intro j name hj
        simp [fnCtx] at hj
    have hI1 := hI.pushClos _ (mkFd code lines d) [] hentry
    have hvr : VR (CT ++ [(mkFd code lines d, h.length)]) (.clos emptyFn [] (st.clos.length + 1)) (.clos (mkFd code lines d) [] h.length) :=
      .inr ⟨st.clos.length, _, _, rfl, rfl, by rw [hI.closLen]; simp⟩
    have hI2 := hI1.defGlobal (v := .clos emptyFn [] (st.clos.length + 1)) (w := .clos (mkFd code lines d) [] h.length) hvr hgi
    intro _
    exact ⟨0, (g.set st.cells.length (.clos (mkFd code lines d) [] h.length), h ++ [[]], a), CT ++ [(mkFd code lines d, h.length)],
      st.cells.length + 1, by simp [stepT, hgi], hr.bind hN G hI2 (by simp [hr.gl]), hrest⟩
  | stmt s =>
    have hF := hr.frame G (fun _ => Val.null)
    have hgen : ∀ s', okS N Φ topCtx st.cells.length 0 [] s' = true → okTop N Φ G st.cells.length rest = true →
        Res (HeadQ N Φ G g h a (.stmt s') rest) (∀ k, stepT Φ g h a (.stmt s') k = none)
          (run (evalStmt (f+1) base (toStmtF N topCtx s')) st) := by
      intro s' hs' hrest
      have hs := (hall (f+1)).S (topAct st.cells.length base) st.cells.length CT [] (fun _ => Val.null) st ⟨[], g, h, a⟩ s' hI hF (Nat.le_refl _) hs'
      refine Res.mono ?_ ?_ hs
      · rintro ⟨fl, v, env1⟩ s1 ⟨k, ⟨σ1, fl', bv⟩, hk, V0', vals1, CT1, henv, hfr, hn1, -⟩ hnormal
        have hk' : Core.Fn.evalS Φ k none ⟨[], g, h, a⟩ s' = some (σ1, fl', bv) := hk
        have hfl : fl = .normal := hnormal
        subst hfl
        cases fl' <;> first | exact hfr.elim | skip
        have hI1 : Inv N Φ CT1 st.cells.length s1 σ1 := hn1.inv
        have hl1 : σ1.l.length = 0 := hn1.frame.lLen
        have hg1 : σ1.g.length = g.length := (glen_all Φ k).S _ _ _ _ _ _ hk'
        have hσ1 : σ1 = ⟨[], σ1.g, σ1.h, σ1.a⟩ := by
          cases σ1 with
          | mk l1 g1 h1 a1 =>
            have : l1 = [] := by simpa using hl1
            simp [this]
        have henv' : env1 = base := henv
        subst henv'
        refine ⟨k, (σ1.g, σ1.h, σ1.a), CT1, st.cells.length, by simp [stepT, hk'], ⟨?_, by rw [hg1]; exact hr.gl, hr.glob, hr.bound⟩, hrest⟩
        rw [hσ1] at hI1; exact hI1
      · intro hnone k
        simp [stepT, show Core.Fn.evalS Φ k none ⟨[], g, h, a⟩ s' = none from hnone k]
    cases s with
    | letG l i e =>
      simp only [okTop, Bool.and_eq_true, beq_iff_eq, decide_eq_true_eq] at hok
      obtain ⟨⟨⟨hi0, hnG⟩, hoke⟩, hrest⟩ := hok
      subst hi0
      rw [toTop, toStmtF, evalStmt_let]
      have he := (hall f).E (topAct st.cells.length base) st.cells.length CT [] (fun _ => Val.null) st ⟨[], g, h, a⟩ e hI hF (Nat.le_refl _) hoke
      refine Res.bind he ?_ ?_
      · intro hnone k
        cases k with
        | zero => simp [stepT, Core.Fn.evalS]
        | succ k => simp [stepT, fS_letG, show Core.Fn.evalE Φ k none ⟨[], g, h, a⟩ e = none from hnone k]
      · rintro r s1 ⟨k, ⟨w, σ1⟩, hk, v, vals1, CT1, rfl, hv, hn1⟩
        have hk' : Core.Fn.evalE Φ k none ⟨[], g, h, a⟩ e = some (w, σ1) := hk
        have hI1 : Inv N Φ CT1 st.cells.length s1 σ1 := hn1.inv
        have hl1 : σ1.l.length = 0 := hn1.frame.lLen
        have hg1 : σ1.g.length = g.length := (glen_all Φ k).E _ _ _ _ _ hk'
        have hlt : st.cells.length < σ1.g.length := by rw [hg1, hr.gl]; exact hnG
        have hσ1 : σ1 = ⟨[], σ1.g, σ1.h, σ1.a⟩ := by
          cases σ1 with
          | mk l1 g1 h1 a1 =>
            have : l1 = [] := by simpa using hl1
            simp [this]
        have hcl1 : s1.cells.length = st.cells.length := hI1.cellsLen
        show Res _ _ (run (letK st.cells.length (N.gn st.cells.length) (.val v base)) s1)
        simp only [letK, hr.glob, if_true]
        rw [run_defGlobal s1 st.cells.length v _ hcl1 (hI1.fresh _ (Nat.le_refl _))]
        have hI2 := hI1.defGlobal hv hlt
        intro _
        refine ⟨k + 1, ((σ1.g.set st.cells.length w), σ1.h, σ1.a), CT1, st.cells.length + 1, ?_, ?_, hrest⟩
        · simp [stepT, fS_letG, hk', hlt]
        · refine hr.bind hN G ?_ (by simp [hg1, hr.gl])
          rw [hσ1] at hI2; exact hI2
    | expr l e => simp only [okTop] at hok; rw [Bool.and_eq_true] at hok; exact hgen _ hok.1 hok.2
    | block l b => simp only [okTop] at hok; rw [Bool.and_eq_true] at hok; exact hgen _ hok.1 hok.2
    | ifS ls l c t e => simp only [okTop] at hok; rw [Bool.and_eq_true] at hok; exact hgen _ hok.1 hok.2
    | breakS l lbl => simp only [okTop] at hok; rw [Bool.and_eq_true] at hok; exact hgen _ hok.1 hok.2
    | continueS l lbl => simp only [okTop] at hok; rw [Bool.and_eq_true] at hok; exact hgen _ hok.1 hok.2
    | whileS l lbl c b => simp only [okTop] at hok; rw [Bool.and_eq_true] at hok; exact hgen _ hok.1 hok.2
    | loopS l lbl b => simp only [okTop] at hok; rw [Bool.and_eq_true] at hok; exact hgen _ hok.1 hok.2
    | letL l i e => simp only [okTop] at hok; rw [Bool.and_eq_true] at hok; exact hgen _ hok.1 hok.2
    | ret l e => simp only [okTop] at hok; rw [Bool.and_eq_true] at hok; exact hgen _ hok.1 hok.2
    | retN l => simp only [okTop] at hok; rw [Bool.and_eq_true] at hok; exact hgen _ hok.1 hok.2

/-- what is proved of a run of the oracle on a program -/
def TQ (N : Names) (Φ : FnDef → Option FDecl) (G : Nat) (g : List Val) (h : List (List Val)) (a : Heap) (T : List FTop)
    (r : Flow × Val × Env) (st' : St) : Prop :=
  r.1 = .normal → ∃ k y CT n, Core.Fn.evalT Φ k g h a T = some y ∧ TopR N Φ G n r.2.2 CT st' y.1 y.2.1 y.2.2

include hN in
theorem top_ok : ∀ (fuel : Nat) (T : List FTop) (n : Nat) (base : Env) (CT : CTab) (st : St) (g : List Val) (h : List (List Val)) (a : Heap) (last : Val),
    TopR N Φ G n base CT st g h a → okTop N Φ G n T = true →
    Res (TQ N Φ G g h a T) (∀ k, Core.Fn.evalT Φ k g h a T = none) (run (evalStmts fuel base (toTops N T) last) st) := by
  intro fuel
  induction fuel with
  | zero => intros; rw [evalStmts_zero]; exact True.intro
  | succ f ih =>
    intro T n base CT st g h a last hr hok
    cases T with
    | nil =>
      rw [toTops, evalStmts_nil]
      intro _
      exact ⟨0, (g, h, a), CT, n, by simp [Core.Fn.evalT], hr⟩
    | cons t rest =>
      rw [toTops, evalStmts_cons]
      refine Res.bind (head_ok hN G f t rest n base CT st g h a hr hok) ?_ ?_
      · intro hnone k
        rw [evalT_cons, hnone k]; rfl
      · rintro ⟨fl, v, env1⟩ st1 hq
        cases fl with
        | normal =>
          obtain ⟨k1, y, CT1, n1, hstep, hr1, hrest⟩ := hq rfl
          show Res _ _ (run (evalStmts f env1 (toTops N rest) v) st1)
          refine Res.mono ?_ ?_ (ih rest n1 env1 CT1 st1 y.1 y.2.1 y.2.2 v hr1 hrest)
          · intro r s2 h2 hn
            obtain ⟨k2, y2, CT2, n2, hev, hr2⟩ := h2 hn
            refine ⟨max k1 k2, y2, CT2, n2, ?_, hr2⟩
            rw [evalT_cons, mono_stepT Φ g h a t k1 _ y (Nat.le_max_left ..) hstep]
            exact mono_evalT Φ rest _ _ _ k2 _ y2 (Nat.le_max_right ..) hev
          · intro hnone k
            rw [evalT_cons]
            cases hs : stepT Φ g h a t k with
            | none => rfl
            | some y' =>
              obtain rfl := (mono_stepT Φ g h a t).det hs hstep
              exact hnone k
        | brk lb => intro hn; cases hn
        | cont lb => intro hn; cases hn
        | ret rv => intro hn; cases hn

include hN

omit hN in
theorem TopR.init (N : Names) (Φ : FnDef → Option FDecl) (G : Nat) (h : List (List Val)) (a : Heap) :
    TopR N Φ G 0 [[]] [] {} (List.replicate G .null) h a :=
  ⟨⟨rfl, fun k fd hid hk => by simp at hk, rfl, Nat.zero_le _, fun j hj => absurd hj (Nat.not_lt_zero j), fun _ _ => rfl⟩,
   List.length_replicate, rfl, fun j hj => absurd hj (Nat.not_lt_zero j)⟩

/-- **whole programs with functions and closures** (`…_partial`: the programs `okTop`).  If the oracle runs the
embedding of the program from the empty state to its normal end, `Core.Fn.evalT` -- the semantics
`Core.Fn.program_correct_fn` is stated against -- with some fuel ends too, from `G` null globals and any closure
heap `h`, and the final configurations are related: `n'` globals are defined, cell `j` of the oracle and global `j`
of Core.Fn hold related values (equal scalars, corresponding closures), every closure of the oracle's table
corresponds to a closure object of Core.Fn with related captured values. -/
theorem ref_program_fn_partial {T : List FTop} {fuel : Nat} {v : Val} {env' : Env} {st' : St} (h : List (List Val)) (a : Heap)
    (hok : okTop N Φ G 0 T = true)
    (hrun : run (evalStmts fuel [[]] (toTops N T) .null) {} = (.ok (.normal, v, env'), st')) :
    ∃ k g' h' a' CT n', Core.Fn.evalT Φ k (List.replicate G .null) h a T = some (g', h', a') ∧
      TopR N Φ G n' env' CT st' g' h' a' := by
  have hm := top_ok hN G fuel T 0 [[]] [] {} (List.replicate G .null) h a .null (TopR.init N Φ G h a) hok
  rw [hrun] at hm
  obtain ⟨k, ⟨g', h', a'⟩, CT, n', hev, hr⟩ := hm rfl
  exact ⟨k, g', h', a', CT, n', hev, hr⟩

/-- the oracle's runtime error: no fuel makes `Core.Fn.evalT` end -/
theorem ref_program_fn_error_partial {T : List FTop} {fuel l : Nat} {st' : St} (h : List (List Val)) (a : Heap)
    (hok : okTop N Φ G 0 T = true)
    (hrun : run (evalStmts fuel [[]] (toTops N T) .null) {} = (.error (.rt l), st')) :
    ∀ k, Core.Fn.evalT Φ k (List.replicate G .null) h a T = none := by
  have hm := top_ok hN G fuel T 0 [[]] [] {} (List.replicate G .null) h a .null (TopR.init N Φ G h a) hok
  rw [hrun] at hm
  exact hm

end Top

/-- **composition with compiler correctness for functions** (`Core.Fn.program_correct_fn`): when the oracle runs a
program of the fragment to its normal end, the compiled program -- main code `compileT`, pool `constsT`, code
memory `codeT` --, run on the Core.Fn machine from `G` null globals, the empty stack and no frame, reaches the end
of the main code with the empty stack and no frame, and its globals and closure objects are related to the oracle's
final state. -/
theorem ref_program_fn_compiled_partial {N : Names} (hN : NamesOK N) (G : Nat) {T : List FTop} {fuel : Nat} {v : Val} {env' : Env} {st' : St}
    (h : List (List Val)) (a : Heap) (hok : okTop N (Core.Fn.phiT T) G 0 T = true)
    (hrun : run (evalStmts fuel [[]] (toTops N T) .null) {} = (.ok (.normal, v, env'), st')) :
    ∃ g' h' a' CT n',
      Core.Fn.FSteps (Core.Fn.constsT T) (Core.Fn.codeT T)
        ⟨⟨Core.Fn.compileT 0 0 T, ⟨[], [], 0, 0, 0⟩, 0, 0, 0⟩, [], List.replicate G .null, h, a, []⟩
        ⟨⟨Core.Fn.compileT 0 0 T, ⟨[], [], 0, 0, 0⟩, 0, Core.bytes (Core.Fn.compileT 0 0 T), 0⟩, [], g', h', a', []⟩ ∧
      TopR N (Core.Fn.phiT T) G n' env' CT st' g' h' a' := by
  obtain ⟨k, g', h', a', CT, n', hev, hr⟩ := ref_program_fn_partial hN G h a hok hrun
  exact ⟨g', h', a', CT, n', Core.Fn.program_correct_fn k T _ g' h h' a a' hev, hr⟩

/-! ## names that satisfy `NamesOK`, and non-vacuity -/

def stdNames : Names where
  gn i := String.ofList ('g' :: List.replicate i 'x')
  ln d i := String.ofList (List.replicate d 'a' ++ List.replicate (i + 1) 'b')

theorem rep_inj : ∀ (d d' i j : Nat),
    List.replicate d 'a' ++ List.replicate (i + 1) 'b' = List.replicate d' 'a' ++ List.replicate (j + 1) 'b' → d = d' ∧ i = j
  | 0, 0, i, j, h => by
    have := congrArg List.length h
    simp at this
    exact ⟨rfl, this⟩
  | 0, d'+1, i, j, h => by simp [List.replicate_succ] at h
  | d+1, 0, i, j, h => by simp [List.replicate_succ] at h
  | d+1, d'+1, i, j, h => by
    simp only [List.replicate_succ, List.cons_append, List.cons.injEq, true_and] at h
    have := rep_inj d d' i j (by simpa [List.replicate_succ] using h)
    exact ⟨by omega, this.2⟩

theorem selfKey_eq : selfKey = String.ofList ['%', 's', 'e', 'l', 'f'] := by decide
theorem empty_eq : "" = String.ofList [] := by decide

theorem stdNames_ok : NamesOK stdNames where
  gn_inj i j h := by
    have := String.ofList_injective h
    simp only [List.cons.injEq, true_and] at this
    simpa using congrArg List.length this
  ln_inj d d' i j h := rep_inj d d' i j (String.ofList_injective h)
  gn_ln i d j h := by
    have := String.ofList_injective h
    cases d <;> simp [List.replicate_succ] at this
  gn_key i h := by
    rw [selfKey_eq] at h
    have := String.ofList_injective h
    simp at this
  ln_key d i h := by
    rw [selfKey_eq] at h
    have := String.ofList_injective h
    cases d <;> simp [List.replicate_succ] at this
  gn_ne i h := by
    rw [empty_eq] at h
    have := String.ofList_injective h
    simp at this
  ln_ne d i h := by
    rw [empty_eq] at h
    have := String.ofList_injective h
    cases d <;> simp [List.replicate_succ] at this

section Examples

/-- `fn fact(n) { if n < 2 { 1 } else { n * fact(n - 1) } }`: recursion through the function's own name -/
def factD : FDecl :=
  ⟨1, 1, [.expr 1 (.ite 1 (.lt 1 (.lget 1 0) (.lit 1 (.int 2))) (.lit 1 (.int 1))
      (.bin 1 .mul (.lget 1 0) (.call 1 (.curr 1) (.cons (.bin 1 .sub (.lget 1 0) (.lit 1 (.int 1))) .nil))))], 1⟩

def factFd : FnDef := mkFd [] [] factD
def factΦ : FnDef → Option FDecl := fun x => if x = factFd then some factD else none

/-- the oracle's closure for `fact`, as `fn fact(n) {…}` at top level creates it -/
def factC : RClos :=
  { name := stdNames.gn 0, params := params stdNames 1 1, body := .mk 1 (toStmtsF stdNames (fnCtx stdNames 0) factD.body),
    captured := [], line := 1 }

def factSt : St := { clos := [factC] }
def factSto : Sto := ⟨[], [], [[]], {}⟩

theorem fact_inv : Inv stdNames factΦ [(factFd, 0)] 0 factSt factSto := by
  refine ⟨rfl, ?_, rfl, Nat.le_refl _, fun j hj => absurd hj (Nat.not_lt_zero j), fun _ _ => rfl⟩
  intro k fd hid hk
  cases k with
  | succ k => simp at hk
  | zero =>
    simp only [List.getElem?_cons_zero, Option.some.injEq, Prod.mk.injEq] at hk
    obtain ⟨rfl, rfl⟩ := hk
    refine ⟨factC, rfl, factD, fnCtx stdNames 0, 0, by simp [factΦ], rfl, rfl, rfl, by decide, by decide, Nat.le_refl _, ?_, by decide,
      fun j hj => absurd hj (Nat.not_lt_zero j), ?_, fun d' i h => stdNames_ok.gn_ln 0 d' i h.symm, stdNames_ok.gn_key 0⟩
    · simp [okP, okS, okE, okArgs, factD, paramVis, fnCtx]
      exact stdNames_ok.gn_ne 0
    · intro j name hj
      simp [fnCtx] at hj

def callInt (o : Except Err Val × St) : Option Int :=
  match o with
  | (.ok v, _) => intOf v
  | _ => none

/-- the oracle computes `fact(3) = 6` -/
theorem fact_ref' : callInt (run (Ref.callValue 60 1 (.clos emptyFn [] 1) [.int 3]) factSt) = some 6 := by decide +kernel

theorem fact_ref : ∃ (x : Int64) (st' : St), run (Ref.callValue 60 1 (.clos emptyFn [] 1) [.int 3]) factSt = (.ok (.int x), st') ∧ x.toInt = 6 := by
  have h := fact_ref'
  generalize run (Ref.callValue 60 1 (.clos emptyFn [] 1) [.int 3]) factSt = o at h
  rcases o with ⟨er | v, st'⟩
  · simp [callInt] at h
  · cases v <;> simp [callInt, intOf] at h
    exact ⟨_, st', rfl, h⟩

/-- … hence so does Core.Fn's evaluator -/
example : ∃ (k : Nat) (σ' : Sto) (x : Int64), callF factΦ k (.clos factFd [] 0) [.int 3] factSto = some (.int x, σ') ∧ x.toInt = 6 := by
  obtain ⟨x, st', h, hx⟩ := fact_ref
  obtain ⟨k, w, σ', CT', hk, hv, -, -, -⟩ :=
    ref_call_fn_partial stdNames_ok fact_inv (.inr ⟨0, factFd, 0, rfl, rfl, rfl⟩) (show VRs [(factFd, 0)] [.int 3] [.int 3] from ⟨VR.scalar rfl, True.intro⟩) h
  rcases hv with ⟨-, rfl⟩ | ⟨_, _, _, h1, -, -⟩
  · exact ⟨k, σ', x, hk, hx⟩
  · cases h1

/-- the recogniser of the fragment reads the embedding of `fn fact(n) {…}` back -/
def factTop : FTop := .fnDef 1 0 (Core.Fn.fnTop 0 factD).1 (Core.Fn.fnTop 0 factD).2 factD
example : (Core.Fn.ofTops 40 ⟨0, [], []⟩ 0 (toTops stdNames [factTop])).map (·.1) = some [factTop] := by rfl

/-! ### closures: `fn mk(a) { return fn(b) { a + b }; }` called twice with different `a` -/

def addBody : List FStmt := [.expr 1 (.bin 1 .add (.fget 1 0) (.lget 1 0))]
def addD : FDecl := ⟨1, 1, addBody, 1⟩
/-- `fn(b) { a + b }` inside `mk`: it captures the parameter `a` (slot 0 of `mk`) by value -/
def addLit : FExpr := .mkclos 1 (Core.Fn.fnTop 0 addD).1 (Core.Fn.fnTop 0 addD).2 1 1 addBody [.loc 0]
def mkD : FDecl := ⟨1, 1, [.ret 1 addLit], 1⟩

/-- ```
fn mk(a) { return fn(b) { a + b }; }
let f = mk(1);
let g = mk(2);
let x = f(10);
let y = g(10);
``` -/
def mkT : List FTop := [
  .fnDef 1 0 (Core.Fn.fnTop 0 mkD).1 (Core.Fn.fnTop 0 mkD).2 mkD,
  .stmt (.letG 1 1 (.call 1 (.gget 1 0) (.cons (.lit 1 (.int 1)) .nil))),
  .stmt (.letG 1 2 (.call 1 (.gget 1 0) (.cons (.lit 1 (.int 2)) .nil))),
  .stmt (.letG 1 3 (.call 1 (.gget 1 1) (.cons (.lit 1 (.int 10)) .nil))),
  .stmt (.letG 1 4 (.call 1 (.gget 1 2) (.cons (.lit 1 (.int 10)) .nil)))]

theorem mkT_phi_mk : Core.Fn.phiT mkT (mkFd (Core.Fn.fnTop 0 mkD).1 (Core.Fn.fnTop 0 mkD).2 mkD) = some mkD := by rfl
theorem mkT_phi_add : Core.Fn.phiT mkT (mkFd (Core.Fn.fnTop 0 addD).1 (Core.Fn.fnTop 0 addD).2 addD) = some addD := by rfl

theorem mkT_ok' (Φ : FnDef → Option FDecl)
    (h1 : Φ (mkFd (Core.Fn.fnTop 0 mkD).1 (Core.Fn.fnTop 0 mkD).2 mkD) = some mkD)
    (h2 : Φ (mkFd (Core.Fn.fnTop 0 addD).1 (Core.Fn.fnTop 0 addD).2 addD) = some addD) :
    okTop stdNames Φ 5 0 mkT = true := by
  simp only [mkT, mkD, addLit, addD, addBody] at h1 h2 ⊢
  simp [okTop, okP, okS, okE, okArgs, okCap, lastOK, paramVis, fnCtx, topCtx, visAfter, capName, h1, h2]

theorem mkT_ok : okTop stdNames (Core.Fn.phiT mkT) 5 0 mkT = true := mkT_ok' _ mkT_phi_mk mkT_phi_add

def cellInts (o : Except Err (Flow × Val × Env) × St) : Option (List (Option Int)) :=
  match o with
  | (.ok (.normal, _, _), st) => some (st.cells.map intOf)
  | _ => none

theorem of_cellInts {o : Except Err (Flow × Val × Env) × St} {cs : List (Option Int)} (h : cellInts o = some cs) :
    ∃ v env' st', o = (.ok (.normal, v, env'), st') ∧ st'.cells.map intOf = cs := by
  rcases o with ⟨er | ⟨fl, v, env'⟩, st'⟩
  · simp [cellInts] at h
  · cases fl <;> first | (simp [cellInts] at h; done) | exact ⟨v, env', st', rfl, by simpa [cellInts] using h⟩

/-- the oracle runs the program to its normal end: `x = 11`, `y = 12` (the first three cells hold closures) -/
theorem mkT_ref : cellInts (run (evalStmts 60 [[]] (toTops stdNames mkT) .null) {}) = some [none, none, none, some 11, some 12] := by
  decide +kernel

theorem int_of_intOf {v : Val} {i : Int} (h : intOf v = some i) : ∃ x : Int64, v = .int x ∧ x.toInt = i := by
  cases v <;> simp [intOf] at h
  exact ⟨_, rfl, h⟩

/-- … hence Core.Fn's `evalT` ends too, with `x` and `y` holding integers with the same values (the two closures
created by `mk(1)` and `mk(2)` captured different values of `a`), and so does the compiled program on the machine -/
example : ∃ (g' : List Val) (h' : List (List Val)) (a' : Heap) (x y : Int64),
    Core.Fn.FSteps (Core.Fn.constsT mkT) (Core.Fn.codeT mkT)
      ⟨⟨Core.Fn.compileT 0 0 mkT, ⟨[], [], 0, 0, 0⟩, 0, 0, 0⟩, [], List.replicate 5 .null, [[]], {}, []⟩
      ⟨⟨Core.Fn.compileT 0 0 mkT, ⟨[], [], 0, 0, 0⟩, 0, Core.bytes (Core.Fn.compileT 0 0 mkT), 0⟩, [], g', h', a', []⟩ ∧
    g'[3]? = some (.int x) ∧ x.toInt = 11 ∧ g'[4]? = some (.int y) ∧ y.toInt = 12 := by
  obtain ⟨v, env', st', hrun, hcells⟩ := of_cellInts mkT_ref
  obtain ⟨g', h', a', CT, n', hsteps, hr⟩ := ref_program_fn_compiled_partial stdNames_ok 5 [[]] {} mkT_ok hrun
  have hlen : st'.cells.length = 5 := by simpa using congrArg List.length hcells
  have hn' : n' = 5 := by rw [← hr.inv.cellsLen]; exact hlen
  subst hn'
  have key : ∀ (j : Nat) (i : Int), j < 5 → (st'.cells.map intOf)[j]? = some (some i) → ∃ x : Int64, g'[j]? = some (.int x) ∧ x.toInt = i := by
    intro j i hj hi
    obtain ⟨v0, w0, h1, h2, h3⟩ := hr.inv.cells j hj
    rw [List.getElem?_map, h1] at hi
    simp only [Option.map_some, Option.some.injEq] at hi
    obtain ⟨x, rfl, hx⟩ := int_of_intOf hi
    rcases h3 with ⟨-, rfl⟩ | ⟨_, _, _, h4, -, -⟩
    · exact ⟨x, h2, hx⟩
    · cases h4
  obtain ⟨x, hx1, hx2⟩ := key 3 11 (by omega) (by rw [hcells]; rfl)
  obtain ⟨y, hy1, hy2⟩ := key 4 12 (by omega) (by rw [hcells]; rfl)
  exact ⟨g', h', a', x, y, hsteps, hx1, hx2, hy1, hy2⟩

/-- the recogniser reads the embedding of the program back -/
example : (Core.Fn.ofTops 60 ⟨0, [], []⟩ 0 (toTops stdNames mkT)).map (·.1) = some mkT := by rfl

/-! ### a loop with a labelled `break` and a `continue` inside a function, locals, `return` -/

/-- ```
fn sum(n) { let s = 0; let i = 0;
  outer: while true { if i >= n { break outer; } else {}  s = s + i; i = i + 1; continue; }
  return s; }
let r = sum(4);
``` -/
def sumD : FDecl := ⟨1, 3, [
  .letL 1 1 (.lit 1 (.int 0)), .letL 1 2 (.lit 1 (.int 0)),
  .whileS 1 (some "outer") (.tru 1) [
    .ifS 1 1 (.bin 1 .greaterEq (.lget 1 2) (.lget 1 0)) [.breakS 1 (some "outer")] [],
    .expr 1 (.lset 1 1 (.bin 1 .add (.lget 1 1) (.lget 1 2))),
    .expr 1 (.lset 1 2 (.bin 1 .add (.lget 1 2) (.lit 1 (.int 1)))),
    .continueS 1 none],
  .ret 1 (.lget 1 1)], 1⟩

def sumT : List FTop := [
  .fnDef 1 0 (Core.Fn.fnTop 0 sumD).1 (Core.Fn.fnTop 0 sumD).2 sumD,
  .stmt (.letG 1 1 (.call 1 (.gget 1 0) (.cons (.lit 1 (.int 4)) .nil)))]

theorem sumT_ok' (Φ : FnDef → Option FDecl) (h1 : Φ (mkFd (Core.Fn.fnTop 0 sumD).1 (Core.Fn.fnTop 0 sumD).2 sumD) = some sumD) :
    okTop stdNames Φ 2 0 sumT = true := by
  simp only [sumT, sumD] at h1 ⊢
  simp [okTop, okP, okS, okE, okArgs, lastOK, paramVis, fnCtx, topCtx, visAfter, h1]

theorem sumT_ok : okTop stdNames (Core.Fn.phiT sumT) 2 0 sumT = true := sumT_ok' _ (by rfl)

theorem sumT_ref : cellInts (run (evalStmts 80 [[]] (toTops stdNames sumT) .null) {}) = some [none, some 6] := by
  decide +kernel

example : ∃ (k : Nat) (g' : List Val) (h' : List (List Val)) (a' : Heap) (x : Int64),
    Core.Fn.evalT (Core.Fn.phiT sumT) k [.null, .null] [[]] {} sumT = some (g', h', a') ∧ g'[1]? = some (.int x) ∧ x.toInt = 6 := by
  obtain ⟨v, env', st', hrun, hcells⟩ := of_cellInts sumT_ref
  obtain ⟨k, g', h', a', CT, n', hev, hr⟩ := ref_program_fn_partial stdNames_ok 2 [[]] {} sumT_ok hrun
  have hlen : st'.cells.length = 2 := by simpa using congrArg List.length hcells
  have hn' : n' = 2 := by rw [← hr.inv.cellsLen]; exact hlen
  subst hn'
  obtain ⟨v0, w0, h1, h2, h3⟩ := hr.inv.cells 1 (by omega)
  have hi : (st'.cells.map intOf)[1]? = some (some 6) := by rw [hcells]; rfl
  rw [List.getElem?_map, h1] at hi
  simp only [Option.map_some, Option.some.injEq] at hi
  obtain ⟨x, rfl, hx⟩ := int_of_intOf hi
  rcases h3 with ⟨-, rfl⟩ | ⟨_, _, _, h4, -, -⟩
  · exact ⟨k, g', h', a', x, hev, h2, hx⟩
  · cases h4

example : (Core.Fn.ofTops 60 ⟨0, [], []⟩ 0 (toTops stdNames sumT)).map (·.1) = some sumT := by rfl

/-- reads integer `i` at global `j` off the relation between the final configurations -/
theorem TopR.int_at {N : Names} {Φ : FnDef → Option FDecl} {G n : Nat} {base : Env} {CT : CTab} {st : St} {g : List Val} {h : List (List Val)} {a : Heap}
    (hr : TopR N Φ G n base CT st g h a) {cs : List (Option Int)} (hcells : st.cells.map intOf = cs) {j : Nat} {i : Int}
    (hj : cs[j]? = some (some i)) : ∃ x : Int64, g[j]? = some (.int x) ∧ x.toInt = i := by
  subst hcells
  have hjn : j < n := by
    rw [← hr.inv.cellsLen]
    rcases Nat.lt_or_ge j st.cells.length with h1 | h1
    · exact h1
    · rw [List.getElem?_eq_none (by simpa using h1)] at hj; cases hj
  obtain ⟨v0, w0, h1, h2, h3⟩ := hr.inv.cells j hjn
  rw [List.getElem?_map, h1] at hj
  simp only [Option.map_some, Option.some.injEq] at hj
  obtain ⟨x, rfl, hx⟩ := int_of_intOf hj
  rcases h3 with ⟨-, rfl⟩ | ⟨_, _, _, h4, -, -⟩
  · exact ⟨x, h2, hx⟩
  · cases h4

/-! ### a capture chain: the innermost function reads `a` through the closure in between -/

def in3Body : List FStmt := [.expr 1 (.bin 1 .add (.bin 1 .add (.fget 1 0) (.fget 1 1)) (.lget 1 0))]
def in3D : FDecl := ⟨1, 1, in3Body, 1⟩
def in3Lit : FExpr := .mkclos 1 (Core.Fn.fnTop 0 in3D).1 (Core.Fn.fnTop 0 in3D).2 1 1 in3Body [.free 0, .loc 0]
def in2Body : List FStmt := [.ret 1 in3Lit]
def in2D : FDecl := ⟨1, 1, in2Body, 1⟩
def in2Lit : FExpr := .mkclos 1 (Core.Fn.fnTop 0 in2D).1 (Core.Fn.fnTop 0 in2D).2 1 1 in2Body [.loc 0]
def mk3D : FDecl := ⟨1, 1, [.ret 1 in2Lit], 1⟩

/-- ```
fn mk3(a) { return fn(b) { return fn(c) { a + b + c }; }; }
let f = mk3(1); let g = f(2); let x = g(3);
``` -/
def mk3T : List FTop := [
  .fnDef 1 0 (Core.Fn.fnTop 0 mk3D).1 (Core.Fn.fnTop 0 mk3D).2 mk3D,
  .stmt (.letG 1 1 (.call 1 (.gget 1 0) (.cons (.lit 1 (.int 1)) .nil))),
  .stmt (.letG 1 2 (.call 1 (.gget 1 1) (.cons (.lit 1 (.int 2)) .nil))),
  .stmt (.letG 1 3 (.call 1 (.gget 1 2) (.cons (.lit 1 (.int 3)) .nil)))]

theorem mk3T_ok' (Φ : FnDef → Option FDecl)
    (h1 : Φ (mkFd (Core.Fn.fnTop 0 mk3D).1 (Core.Fn.fnTop 0 mk3D).2 mk3D) = some mk3D)
    (h2 : Φ (mkFd (Core.Fn.fnTop 0 in2D).1 (Core.Fn.fnTop 0 in2D).2 in2D) = some in2D)
    (h3 : Φ (mkFd (Core.Fn.fnTop 0 in3D).1 (Core.Fn.fnTop 0 in3D).2 in3D) = some in3D) :
    okTop stdNames Φ 4 0 mk3T = true := by
  simp only [mk3T, mk3D, in2Lit, in2D, in2Body, in3Lit, in3D, in3Body] at h1 h2 h3 ⊢
  simp [okTop, okP, okS, okE, okArgs, okCap, lastOK, paramVis, fnCtx, topCtx, visAfter, capName, h1, h2, h3]

theorem mk3T_ok : okTop stdNames (Core.Fn.phiT mk3T) 4 0 mk3T = true := mk3T_ok' _ (by rfl) (by rfl) (by rfl)

theorem mk3T_ref : cellInts (run (evalStmts 60 [[]] (toTops stdNames mk3T) .null) {}) = some [none, none, none, some 6] := by
  decide +kernel

example : ∃ (k : Nat) (g' : List Val) (h' : List (List Val)) (a' : Heap) (x : Int64),
    Core.Fn.evalT (Core.Fn.phiT mk3T) k (List.replicate 4 .null) [[]] {} mk3T = some (g', h', a') ∧ g'[3]? = some (.int x) ∧ x.toInt = 6 := by
  obtain ⟨v, env', st', hrun, hcells⟩ := of_cellInts mk3T_ref
  obtain ⟨k, g', h', a', CT, n', hev, hr⟩ := ref_program_fn_partial stdNames_ok 4 [[]] {} mk3T_ok hrun
  obtain ⟨x, hx1, hx2⟩ := hr.int_at hcells (j := 3) (i := 6) rfl
  exact ⟨k, g', h', a', x, hev, hx1, hx2⟩

example : (Core.Fn.ofTops 60 ⟨0, [], []⟩ 0 (toTops stdNames mk3T)).map (·.1) = some mk3T := by rfl

/-! ### `match` with a literal, a range and the default arm inside a function -/

def clsD : FDecl := ⟨1, 1, [.expr 1 (.matchE 1 (.lget 1 0)
  (.cons 1 [.lit 1 (.int 0)] (.lit 1 (.int 10))
    (.cons 1 [.range 1 true (.int 1) (.int 5)] (.lit 1 (.int 20))
      (.last 1 1 (.lit 1 (.int 30))))))], 1⟩

/-- ```
fn cls(n) { match n { 0 => 10, 1..=5 => 20, _ => 30 } }
let a = cls(0); let b = cls(3); let c = cls(9);
``` -/
def clsT : List FTop := [
  .fnDef 1 0 (Core.Fn.fnTop 0 clsD).1 (Core.Fn.fnTop 0 clsD).2 clsD,
  .stmt (.letG 1 1 (.call 1 (.gget 1 0) (.cons (.lit 1 (.int 0)) .nil))),
  .stmt (.letG 1 2 (.call 1 (.gget 1 0) (.cons (.lit 1 (.int 3)) .nil))),
  .stmt (.letG 1 3 (.call 1 (.gget 1 0) (.cons (.lit 1 (.int 9)) .nil)))]

theorem clsT_ok' (Φ : FnDef → Option FDecl) (h1 : Φ (mkFd (Core.Fn.fnTop 0 clsD).1 (Core.Fn.fnTop 0 clsD).2 clsD) = some clsD) :
    okTop stdNames Φ 4 0 clsT = true := by
  simp only [clsT, clsD] at h1 ⊢
  simp [okTop, okP, okS, okE, okArgs, okArms, lastOK, paramVis, fnCtx, topCtx, visAfter, h1]

theorem clsT_ok : okTop stdNames (Core.Fn.phiT clsT) 4 0 clsT = true := clsT_ok' _ (by rfl)

theorem clsT_ref : cellInts (run (evalStmts 60 [[]] (toTops stdNames clsT) .null) {}) = some [none, some 10, some 20, some 30] := by
  decide +kernel

example : ∃ (k : Nat) (g' : List Val) (h' : List (List Val)) (a' : Heap) (x y z : Int64),
    Core.Fn.evalT (Core.Fn.phiT clsT) k (List.replicate 4 .null) [[]] {} clsT = some (g', h', a') ∧
    g'[1]? = some (.int x) ∧ x.toInt = 10 ∧ g'[2]? = some (.int y) ∧ y.toInt = 20 ∧ g'[3]? = some (.int z) ∧ z.toInt = 30 := by
  obtain ⟨v, env', st', hrun, hcells⟩ := of_cellInts clsT_ref
  obtain ⟨k, g', h', a', CT, n', hev, hr⟩ := ref_program_fn_partial stdNames_ok 4 [[]] {} clsT_ok hrun
  obtain ⟨x, hx1, hx2⟩ := hr.int_at hcells (j := 1) (i := 10) rfl
  obtain ⟨y, hy1, hy2⟩ := hr.int_at hcells (j := 2) (i := 20) rfl
  obtain ⟨z, hz1, hz2⟩ := hr.int_at hcells (j := 3) (i := 30) rfl
  exact ⟨k, g', h', a', x, y, z, hev, hx1, hx2, hy1, hy2, hz1, hz2⟩

/-! ### mutual recursion through a global assigned later (`f = fn…`) -/

def evD : FDecl := ⟨1, 1, [.expr 1 (.ite 1 (.bin 1 .equal (.lget 1 0) (.lit 1 (.int 0))) (.lit 1 (.int 1))
  (.call 1 (.gget 1 0) (.cons (.bin 1 .sub (.lget 1 0) (.lit 1 (.int 1))) .nil)))], 1⟩
def odD : FDecl := ⟨1, 1, [.expr 1 (.ite 1 (.bin 1 .equal (.lget 1 0) (.lit 1 (.int 0))) (.lit 1 (.int 0))
  (.call 1 (.gget 1 1) (.cons (.bin 1 .sub (.lget 1 0) (.lit 1 (.int 1))) .nil)))], 1⟩

/-- ```
let od = null;
fn ev(n) { if n == 0 { 1 } else { od(n - 1) } }
od = fn(n) { if n == 0 { 0 } else { ev(n - 1) } };
let r = ev(4);
``` -/
def evT : List FTop := [
  .stmt (.letG 1 0 (.null 1)),
  .fnDef 1 1 (Core.Fn.fnTop 0 evD).1 (Core.Fn.fnTop 0 evD).2 evD,
  .fnSet 1 1 0 (Core.Fn.fnTop 4 odD).1 (Core.Fn.fnTop 4 odD).2 odD,
  .stmt (.letG 1 2 (.call 1 (.gget 1 1) (.cons (.lit 1 (.int 4)) .nil)))]

theorem evT_ok' (Φ : FnDef → Option FDecl)
    (h1 : Φ (mkFd (Core.Fn.fnTop 0 evD).1 (Core.Fn.fnTop 0 evD).2 evD) = some evD)
    (h2 : Φ (mkFd (Core.Fn.fnTop 4 odD).1 (Core.Fn.fnTop 4 odD).2 odD) = some odD) :
    okTop stdNames Φ 3 0 evT = true := by
  simp only [evT, evD, odD] at h1 h2 ⊢
  simp [okTop, fnSetStmt, okP, okS, okE, okArgs, okCap, lastOK, paramVis, fnCtx, topCtx, visAfter, h1, h2]

theorem evT_ok : okTop stdNames (Core.Fn.phiT evT) 3 0 evT = true := evT_ok' _ (by rfl) (by rfl)

theorem evT_ref : cellInts (run (evalStmts 80 [[]] (toTops stdNames evT) .null) {}) = some [none, none, some 1] := by
  decide +kernel

example : ∃ (k : Nat) (g' : List Val) (h' : List (List Val)) (a' : Heap) (x : Int64),
    Core.Fn.evalT (Core.Fn.phiT evT) k (List.replicate 3 .null) [[]] {} evT = some (g', h', a') ∧ g'[2]? = some (.int x) ∧ x.toInt = 1 := by
  obtain ⟨v, env', st', hrun, hcells⟩ := of_cellInts evT_ref
  obtain ⟨k, g', h', a', CT, n', hev, hr⟩ := ref_program_fn_partial stdNames_ok 3 [[]] {} evT_ok hrun
  obtain ⟨x, hx1, hx2⟩ := hr.int_at hcells (j := 2) (i := 1) rfl
  exact ⟨k, g', h', a', x, hev, hx1, hx2⟩

example : (Core.Fn.ofTops 60 ⟨0, [], []⟩ 0 (toTops stdNames evT)).map (·.1) = some evT := by rfl

/-! ### outside the fragment: assignment to a captured variable under re-entrancy

`fset` (assignment to a captured variable) is excluded from the theorems.  An earlier version of the oracle committed
on the program below to `r = 0` -- the activation of the closure that was already running when a nested activation
of the SAME closure object assigned to `a` read its own stale copy -- while Core.Fn (the VM: `Closure::free` is a
shared `RefCell`) yields `r = 5`: a disagreement found while proving this file.  The oracle now keeps the ids of the
running activations (`St.active`) and answers `unc` for an assignment to a captured variable while another
activation of the same closure object is live; the examples below check that it no longer commits here. -/

def reBody : List FStmt := [.ifS 1 1 (.bin 1 .equal (.lget 1 0) (.lit 1 (.int 0)))
  [.expr 1 (.fset 1 0 (.lit 1 (.int 5))), .expr 1 (.lit 1 (.int 0))]
  [.expr 1 (.call 1 (.gget 1 0) (.cons (.lit 1 (.int 0)) .nil)), .expr 1 (.fget 1 0)]]
def reD : FDecl := ⟨1, 1, reBody, 1⟩
def reLit : FExpr := .mkclos 1 (Core.Fn.fnTop 1 reD).1 (Core.Fn.fnTop 1 reD).2 1 1 reBody [.loc 0]
def reMkD : FDecl := ⟨0, 1, [.letL 1 0 (.lit 1 (.int 0)), .ret 1 reLit], 1⟩

/-- ```
let g = null;
fn mk() { let a = 0; return fn(n) { if n == 0 { a = 5; 0 } else { g(0); a } }; }
g = mk();
let r = g(1);
``` -/
def reT : List FTop := [
  .stmt (.letG 1 0 (.null 1)),
  .fnDef 1 1 (Core.Fn.fnTop 0 reMkD).1 (Core.Fn.fnTop 0 reMkD).2 reMkD,
  .stmt (.expr 1 (.gset 1 0 (.call 1 (.gget 1 1) .nil))),
  .stmt (.letG 1 2 (.call 1 (.gget 1 0) (.cons (.lit 1 (.int 1)) .nil)))]

/-- the program is in the domain of the recogniser (it is what the real compiler's fragment denotes) -/
example : (Core.Fn.ofTops 60 ⟨0, [], []⟩ 0 (toTops stdNames reT)).map (·.1) = some reT := by rfl

def isUnc (o : Except Err (Flow × Val × Env) × St) : Bool :=
  match o with
  | (.error .unc, _) => true
  | _ => false

/-- the oracle does not commit: the run ends in `unc` (at `a = 5` in the nested activation) … -/
theorem reT_oracle : isUnc (run (evalStmts 80 [[]] (toTops stdNames reT) .null) {}) = true := by
  decide +kernel

/-- … Core.Fn's evaluation (the VM's behaviour, by `program_correct_fn`) ends with `r = 5` -/
theorem reT_coreFn : (Core.Fn.evalT (Core.Fn.phiT reT) 60 (List.replicate 3 .null) [[]] {} reT).map (fun r => r.1.map intOf) =
    some [none, none, some 5] := by
  decide +kernel

/-! ### assignment to captured variables without re-entrancy: agreement checked by evaluation

Not covered by the theorems (`fset` is outside `okE`: a proof needs the activation's base environment and the closure
heap to change in place, i.e. `Frame` over a threaded base, closure objects in one-to-one correspondence with table
entries, and the invariant that committed assignments never touch the objects of `St.active`).  Three scenarios
evaluated on both sides: a counter called once; an assignment before the first read in two successive activations;
a nested activation that only READS, after which the outer activation assigns. -/

def cbBody : List FStmt := [.expr 1 (.fset 1 0 (.lget 1 0)), .expr 1 (.fget 1 0)]
def cbD : FDecl := ⟨1, 1, cbBody, 1⟩
def cbMk : FDecl := ⟨0, 1, [.letL 1 0 (.lit 1 (.int 0)),
  .ret 1 (.mkclos 1 (Core.Fn.fnTop 1 cbD).1 (Core.Fn.fnTop 1 cbD).2 1 1 cbBody [.loc 0])], 1⟩
/-- `fn mk() { let a = 0; return fn(n) { a = n; a }; }  let c = mk(); let x = c(5); let y = c(7);` -/
def cbT : List FTop := [
  .fnDef 1 0 (Core.Fn.fnTop 0 cbMk).1 (Core.Fn.fnTop 0 cbMk).2 cbMk,
  .stmt (.letG 1 1 (.call 1 (.gget 1 0) .nil)),
  .stmt (.letG 1 2 (.call 1 (.gget 1 1) (.cons (.lit 1 (.int 5)) .nil))),
  .stmt (.letG 1 3 (.call 1 (.gget 1 1) (.cons (.lit 1 (.int 7)) .nil)))]

example : cellInts (run (evalStmts 80 [[]] (toTops stdNames cbT) .null) {}) = some [none, none, some 5, some 7] := by decide +kernel
example : (Core.Fn.evalT (Core.Fn.phiT cbT) 60 (List.replicate 4 .null) [[]] {} cbT).map (fun r => r.1.map intOf) =
    some [none, none, some 5, some 7] := by decide +kernel

def ccBody : List FStmt := [.ifS 1 1 (.bin 1 .equal (.lget 1 0) (.lit 1 (.int 0)))
  [.expr 1 (.fget 1 0)]
  [.expr 1 (.fset 1 0 (.bin 1 .add (.call 1 (.gget 1 0) (.cons (.lit 1 (.int 0)) .nil)) (.lit 1 (.int 10)))), .expr 1 (.fget 1 0)]]
def ccD : FDecl := ⟨1, 1, ccBody, 1⟩
def ccMk : FDecl := ⟨0, 1, [.letL 1 0 (.lit 1 (.int 1)),
  .ret 1 (.mkclos 1 (Core.Fn.fnTop 1 ccD).1 (Core.Fn.fnTop 1 ccD).2 1 1 ccBody [.loc 0])], 1⟩
/-- `let g = null; fn mk() { let a = 1; return fn(n) { if n == 0 { a } else { a = g(0) + 10; a } }; }  g = mk(); let r = g(1);` -/
def ccT : List FTop := [
  .stmt (.letG 1 0 (.null 1)),
  .fnDef 1 1 (Core.Fn.fnTop 0 ccMk).1 (Core.Fn.fnTop 0 ccMk).2 ccMk,
  .stmt (.expr 1 (.gset 1 0 (.call 1 (.gget 1 1) .nil))),
  .stmt (.letG 1 2 (.call 1 (.gget 1 0) (.cons (.lit 1 (.int 1)) .nil)))]

example : cellInts (run (evalStmts 80 [[]] (toTops stdNames ccT) .null) {}) = some [none, none, some 11] := by decide +kernel
example : (Core.Fn.evalT (Core.Fn.phiT ccT) 60 (List.replicate 3 .null) [[]] {} ccT).map (fun r => r.1.map intOf) =
    some [none, none, some 11] := by decide +kernel

end Examples

#print axioms ref_call_fn_partial
#print axioms ref_call_fn_error_partial
#print axioms ref_expr_fn_partial
#print axioms ref_expr_fn_error_partial
#print axioms ref_stmts_fn_partial
#print axioms ref_stmts_fn_error_partial
#print axioms ref_program_fn_partial
#print axioms ref_program_fn_error_partial
#print axioms ref_program_fn_compiled_partial
#print axioms all_ok
#print axioms stdNames_ok

end P2sh.RefFn
