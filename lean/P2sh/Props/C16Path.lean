import P2sh.Model.Proto
import P2sh.Spec.Rfc
import P2sh.Props.C16
import P2sh.Props.C16More
import P2sh.Props.C15
/-!
# C16, continued — named paths end to end

`dollar_n_access` (C16More) ties `$n` alone to the reference.  Here the whole access expression `pkt.<l1>.<l2>…<field>` and
`$n.<l>…<field>` of the model (`Proto.access`, what `Pkt.run [.get …]` evaluates) is tied to `Rfc.readExpect`:

* `named_path_reads_reference` — on a freshly built packet over any well-formed frame, for every head (`pkt` or `$n`)
  and every property path, the value the script sees is one the reference allows (`Reads`): a number is the bit slice
  `Rfc.layout` names (the record header's words little-endian), a flag the bit, address text the reference rendering,
  a layer name the layer object, the error object for a truncated layer, null where no supported layer follows, the
  payload the bytes after the header; `notLayer` (a named layer whose type field selects another layer) reads as
  null — or as a runtime error when the name is no property of that layer at all; nothing is demanded where the
  reference says `any`.
* `named_getter_null_on_mismatch_reference` — the audit's restatement of `named_getter_null_on_mismatch` against the
  reference: whenever `Rfc.readExpect … = .notLayer` the script does not see a layer object (null or a runtime error);
  `named_getter_null_on_mismatch_null`: it sees null when the name is a layer property of the object reached
  (`eth.ipv6` on an IPv4 frame); the runtime error is the answer for a name that is no property of it (`eth.tcp`).
* Tools reused by C17Packet: `nav` (a path of layer names followed by a continuation), `Spine` (two cache trees that
  differ only below one position), `nav_spine`, `descend_spine`, `access_spine` (the object a path of layer names
  reaches is the one the reference cursor `Rfc.cursorAt` stands for, for every continuation — reading or assigning).
-/
namespace P2sh.Props.C16
open P2sh P2sh.Proto P2sh.Spec

def headOf : Head → Rfc.Head
  | .pkt => .pkt
  | .dollar n => .dollar n

/-- `GetProp n₁ … GetProp nₘ`, then the continuation `k` on the object reached -/
def nav (raw : List Nat) : List PP → (Obj → Obj × StepOut) → Obj → Obj × StepOut
  | [], k => k
  | n :: ns, k => getProp raw n (nav raw ns k) false

theorem walk_cons2 (raw : List Nat) (setv : Option Val) (n q : PP) (qs : List PP) :
    walk raw setv (n :: q :: qs) = getProp raw n (walk raw setv (q :: qs)) false := by
  funext o; simp [walk]

theorem walk_append (raw : List Nat) (setv : Option Val) (names : List PP) (p : PP) (rest : List PP) :
    walk raw setv (names ++ p :: rest) = nav raw names (walk raw setv (p :: rest)) := by
  induction names with
  | nil => rfl
  | cons n ns ih =>
    cases ns with
    | nil => simp only [List.cons_append, List.nil_append, walk_cons2, nav]
    | cons m ms =>
      simp only [List.cons_append] at ih ⊢
      rw [walk_cons2, ih]; rfl

/-- headers that can have a layer below them -/
def Inner : Hdr → Prop
  | .tcp _ => False
  | .udp _ => False
  | _ => True

/-- two cache trees with the same chain of layers down to one position, where they hold `r1` and `r2` -/
inductive Spine : Obj → Obj → Obj → Obj → Prop
  | here (r1 r2 : Obj) : Spine r1 r2 r1 r2
  | down (h : Hdr) (off : Nat) (i1 i2 r1 r2 : Obj) : Inner h → Spine i1 i2 r1 r2 →
      Spine (.layer h off i1) (.layer h off i2) r1 r2

theorem Spine.trans {T1 T2 m1 m2 r1 r2 : Obj} (a : Spine T1 T2 m1 m2) (b : Spine m1 m2 r1 r2) : Spine T1 T2 r1 r2 := by
  induction a with
  | here => exact b
  | down h off i1 i2 _ _ hin _ ih => exact .down h off i1 i2 r1 r2 hin (ih b)

def IsLayer : Obj → Prop
  | .layer _ _ _ => True
  | _ => False

theorem Spine.isLayer {T1 T2 r1 r2 : Obj} (a : Spine T1 T2 r1 r2) (h1 : IsLayer r1) (h2 : IsLayer r2) :
    IsLayer T1 ∧ IsLayer T2 := by
  cases a with
  | here => exact ⟨h1, h2⟩
  | down => exact ⟨trivial, trivial⟩

/-- both trees serialise to the same bytes in front of what stands at the position -/
theorem ser_spine (raw : List Nat) {T1 T2 r1 r2 : Obj} (a : Spine T1 T2 r1 r2) (h1 : IsLayer r1) (h2 : IsLayer r2) :
    ∃ pre, ser raw T1 = pre ++ ser raw r1 ∧ ser raw T2 = pre ++ ser raw r2 := by
  induction a with
  | here => exact ⟨[], rfl, rfl⟩
  | down h off i1 i2 r1 r2 hin sp ih =>
    obtain ⟨pre, e1, e2⟩ := ih h1 h2
    obtain ⟨l1, l2⟩ := sp.isLayer h1 h2
    refine ⟨h.toBytes ++ pre, ?_, ?_⟩
    · cases i1 with
      | layer a b c => cases h <;> simp [Inner] at hin <;> simp [ser] at e1 ⊢ <;> exact e1
      | _ => exact l1.elim
    · cases i2 with
      | layer a b c => cases h <;> simp [Inner] at hin <;> simp [ser] at e2 ⊢ <;> exact e2
      | _ => exact l2.elim

/-- the object is the packet itself or what `from_bytes` yields at the cursor's offset -/
def Parsed (raw : List Nat) (o : Obj) : Rfc.Cur → Prop
  | .at l s _ _ => l = .record ∨ ∃ kind, kindLayer kind = l ∧ o = parseLayer raw kind s
  | _ => True

theorem arrive_parsed (raw : List Nat) (kind : LayerKind) (off d : Nat) (ends : List Nat) :
    Parsed raw (parseLayer raw kind off) (Rfc.arrive raw (kindLayer kind) off d ends) := by
  unfold Rfc.arrive
  split
  · trivial
  · split
    · trivial
    · split
      · trivial
      · exact Or.inr ⟨kind, rfl, rfl⟩

/-- the layer the type field selects, asked for by its own name: the getter finds the name among the layer properties of
the object and the type field agrees -/
theorem dispatch_named (h : Hdr) (kind : LayerKind) (nm : PP) (hd : dispatch h = some kind)
    (hnm : Rfc.Layer.propOf nm = some (kindLayer kind)) :
    layerProp h nm = some kind ∧ typeMismatch h kind = false ∧ Inner h := by
  cases kind <;> cases nm <;> simp [Rfc.Layer.propOf, kindLayer] at hnm <;> cases h <;>
    simp only [dispatch] at hd <;> (try (repeat' split at hd)) <;>
    simp_all [layerProp, typeMismatch, typeWanted, Inner]

theorem dispatch_inner (h : Hdr) (kind : LayerKind) (hd : dispatch h = some kind) : Inner h := by
  cases h <;> simp [dispatch] at hd <;> trivial

/-- one name: below an object the cursor stands for, the name of the layer the reference finds there makes the getter
parse that layer at the payload offset and hand it to the continuation -/
theorem name_step (raw : List Nat) (hw : wf raw) (l : Rfc.Layer) (s d : Nat) (ends : List Nat) (h : Hdr) (off : Nat)
    (hs : Stands raw (.layer h off .none) (.at l s d ends)) (nm : PP) (want : Rfc.Layer)
    (hnm : Rfc.Layer.propOf nm = some want) (s' : Nat) (hin : Rfc.innerOf raw l s = some (want, s')) :
    ∃ kind, kindLayer kind = want ∧ s' = off ∧ Inner h ∧ layerProp h nm = some kind ∧ typeMismatch h kind = false ∧
      ∀ k last, getProp raw nm k last (.layer h off .none) =
        (.layer h off (k (parseLayer raw kind off)).1, (k (parseLayer raw kind off)).2) := by
  rcases inner_agrees raw hw l s d ends h off hs with ⟨_, hnone⟩ | ⟨kind, hdis, hsome⟩
  · rw [hnone] at hin; cases hin
  · rw [hsome] at hin
    simp only [Option.some.injEq, Prod.mk.injEq] at hin
    obtain ⟨hk, rfl⟩ := hin
    obtain ⟨h1, h2, h3⟩ := dispatch_named h kind nm hdis (by rw [hk]; exact hnm)
    refine ⟨kind, hk, rfl, h3, h1, h2, ?_⟩
    intro k last
    simp [getProp, h1, h2]

theorem stands_at_layer (raw : List Nat) (o : Obj) (l : Rfc.Layer) (s d : Nat) (ends : List Nat)
    (hs : Stands raw o (.at l s d ends)) : ∃ h off, o = .layer h off .none := by
  rcases hs with ⟨_, _, ph, e⟩ | ⟨_, e⟩ <;> exact ⟨_, _, e⟩

theorem cursorAt_nonat (st : Rfc.SState) (p : PP) (ps : List PP) (c : Rfc.Cur)
    (hc : ∀ l s d e, c ≠ .at l s d e) : Rfc.cursorAt st (p :: ps) c = .free := by
  cases c with
  | «at» l s d e => exact absurd rfl (hc l s d e)
  | _ => rfl

/-- **a path of layer names** reaches the object the reference cursor `cursorAt` stands for, whatever continuation follows;
the cache trees two continuations leave behind differ only at that position -/
theorem nav_spine (raw : List Nat) (hw : wf raw) (st : Rfc.SState) (hfr : st.fr = raw) (hd : st.dirty = none) :
    ∀ (names : List PP) (o : Obj) (c : Rfc.Cur), Stands raw o c → Parsed raw o c →
      ∀ l' s' d' e', Rfc.cursorAt st names c = .at l' s' d' e' →
      ∃ o', Stands raw o' (.at l' s' d' e') ∧ Parsed raw o' (.at l' s' d' e') ∧
        (∀ k, (nav raw names k o).2 = (k o').2) ∧
        (∀ k1 k2, Spine (nav raw names k1 o).1 (nav raw names k2 o).1 (k1 o').1 (k2 o').1) ∧
        (∀ k1 k, IsLayer (k1 o').1 → (nav raw names k (nav raw names k1 o).1).2 = (k (k1 o').1).2) := by
  intro names
  induction names with
  | nil =>
    intro o c hs hp l' s' d' e' hc
    simp only [Rfc.cursorAt] at hc
    subst hc
    exact ⟨o, hs, hp, fun _ => rfl, fun k1 k2 => .here _ _, fun _ _ _ => rfl⟩
  | cons nm rest ih =>
    intro o c hs hp l' s' d' e' hc
    cases c with
    | free => simp [Rfc.cursorAt] at hc
    | err => simp [Rfc.cursorAt] at hc
    | null => simp [Rfc.cursorAt] at hc
    | «at» l s d ends =>
      obtain ⟨h, off, rfl⟩ := stands_at_layer raw o l s d ends hs
      have hdirty : st.isDirty d = false := by simp [Rfc.SState.isDirty, hd]
      simp only [Rfc.cursorAt, hdirty, hfr] at hc
      cases hnm : Rfc.Layer.propOf nm with
      | none => simp [hnm] at hc
      | some want =>
        simp only [hnm] at hc
        cases hin : Rfc.innerOf raw l s with
        | none => simp [hin] at hc
        | some ls =>
          obtain ⟨l2, s2⟩ := ls
          simp only [hin, Bool.false_eq_true, if_false] at hc
          by_cases hl2 : l2 = want
          · subst hl2
            simp only [if_true] at hc
            obtain ⟨kind, hk, rfl, hinner, hlp, hmm, hstep⟩ := name_step raw hw l s d ends h off hs nm l2 hnm s2 hin
            subst hk
            obtain ⟨o', h1, h2, h3, h4, h5⟩ := ih (parseLayer raw kind s2) _ (arrive_stands raw hw kind s2 (d + 1) ends)
              (arrive_parsed raw kind s2 (d + 1) ends) l' s' d' e' hc
            refine ⟨o', h1, h2, ?_, ?_, ?_⟩
            · intro k; simp only [nav, hstep]; exact h3 k
            · intro k1 k2; simp only [nav, hstep]; exact .down _ _ _ _ _ _ hinner (h4 k1 k2)
            · intro k1 k hl1
              have hX := ((h4 k1 k1).isLayer hl1 hl1).1
              simp only [nav, hstep]
              cases hx : (nav raw rest k1 (parseLayer raw kind s2)).1 with
              | layer a b c =>
                simp only [getProp, hlp, hmm, Bool.false_eq_true, if_false]
                rw [← hx]; exact h5 k1 k hl1
              | none => rw [hx] at hX; exact hX.elim
              | err => rw [hx] at hX; exact hX.elim
              | val v => rw [hx] at hX; exact hX.elim
          · simp [hl2] at hc

theorem downN_err (st : Rfc.SState) : ∀ n, Rfc.downN st (n + 1) .err = .free := by
  intro n; simp [Rfc.downN, Rfc.down, downN_free]

/-- **`$n`** reaches the object the reference cursor `downN n` stands for, whatever continuation follows; the cache trees
two continuations leave behind differ only at that position -/
theorem descend_spine (raw : List Nat) (hw : wf raw) (st : Rfc.SState) (hfr : st.fr = raw) (hd : st.dirty = none) :
    ∀ (n : Nat) (o : Obj) (c : Rfc.Cur), Stands raw o c → Parsed raw o c →
      ∀ l' s' d' e', Rfc.downN st n c = .at l' s' d' e' →
      ∃ o', Stands raw o' (.at l' s' d' e') ∧ Parsed raw o' (.at l' s' d' e') ∧
        (∀ kf, (descend raw kf n o).2 = (kf o').2) ∧
        (∀ k1 k2, Spine (descend raw k1 n o).1 (descend raw k2 n o).1 (k1 o').1 (k2 o').1) ∧
        (∀ k1 k, IsLayer (k1 o').1 → (descend raw k n (descend raw k1 n o).1).2 = (k (k1 o').1).2) := by
  intro n
  induction n with
  | zero =>
    intro o c hs hp l' s' d' e' hc
    simp only [Rfc.downN] at hc
    subst hc
    exact ⟨o, hs, hp, fun _ => rfl, fun k1 k2 => .here _ _, fun _ _ _ => rfl⟩
  | succ n ih =>
    intro o c hs hp l' s' d' e' hc
    cases c with
    | free => rw [downN_free] at hc; cases hc
    | err => rw [downN_err] at hc; cases hc
    | null => rw [downN_null] at hc; cases hc
    | «at» l s d ends =>
      obtain ⟨h, off, rfl⟩ := stands_at_layer raw o l s d ends hs
      have hdirty : st.isDirty d = false := by simp [Rfc.SState.isDirty, hd]
      rcases inner_agrees raw hw l s d ends h off hs with ⟨hdis, hin⟩ | ⟨kind, hdis, hin⟩
      · simp only [Rfc.downN, Rfc.down, hdirty, hfr, hin, Bool.false_eq_true, if_false] at hc
        rw [downN_null] at hc; cases hc
      · simp only [Rfc.downN, Rfc.down, hdirty, hfr, hin, Bool.false_eq_true, if_false] at hc
        obtain ⟨o', h1, h2, h3, h4, h5⟩ := ih (parseLayer raw kind off) _ (arrive_stands raw hw kind off (d + 1) ends)
          (arrive_parsed raw kind off (d + 1) ends) l' s' d' e' hc
        have hstep : ∀ kf, descend raw kf (n + 1) (.layer h off .none) =
            (.layer h off (descend raw kf n (parseLayer raw kind off)).1, (descend raw kf n (parseLayer raw kind off)).2) := by
          intro kf; simp [descend, innerStep, hdis]
        refine ⟨o', h1, h2, ?_, ?_, ?_⟩
        · intro kf; rw [hstep]; exact h3 kf
        · intro k1 k2; rw [hstep, hstep]; exact .down _ _ _ _ _ _ (dispatch_inner h kind hdis) (h4 k1 k2)
        · intro k1 k hl1
          have hX := ((h4 k1 k1).isLayer hl1 hl1).1
          rw [hstep]
          cases hx : (descend raw k1 n (parseLayer raw kind off)).1 with
          | layer a b c =>
            simp only [descend, innerStep]
            rw [← hx]; exact h5 k1 k hl1
          | none => rw [hx] at hX; exact hX.elim
          | err => rw [hx] at hX; exact hX.elim
          | val v => rw [hx] at hX; exact hX.elim

theorem root_stands (ph : PcapHdr) (raw : List Nat) : Stands raw (Pkt.new ph raw).root Rfc.startCur :=
  Or.inl ⟨rfl, rfl, ph, rfl⟩

theorem root_parsed (ph : PcapHdr) (raw : List Nat) : Parsed raw (Pkt.new ph raw).root Rfc.startCur := Or.inl rfl

/-- **head and layer names together**: `pkt.<names>.<p …>` and `$n.<names>.<p …>` apply the rest of the path (`p …`,
reading or assigning) to the object the reference cursor `cursorAt names (headCur hd)` stands for -/
theorem access_spine (ph : PcapHdr) (raw : List Nat) (hw : wf raw) (hd : Head) (names : List PP) (p : PP) (rest : List PP)
    (l : Rfc.Layer) (s d : Nat) (e : List Nat)
    (hcur : Rfc.cursorAt (specState ph raw) names (Rfc.headCur (specState ph raw) (headOf hd)) = .at l s d e) :
    ∃ o', Stands raw o' (.at l s d e) ∧ Parsed raw o' (.at l s d e) ∧
      (∀ setv, (access raw (Pkt.new ph raw).root hd (names ++ p :: rest) setv).2 = (walk raw setv (p :: rest) o').2) ∧
      (∀ sv1 sv2, Spine (access raw (Pkt.new ph raw).root hd (names ++ p :: rest) sv1).1
        (access raw (Pkt.new ph raw).root hd (names ++ p :: rest) sv2).1
        (walk raw sv1 (p :: rest) o').1 (walk raw sv2 (p :: rest) o').1) ∧
      (∀ sv1 sv2 (p2 : PP) (rest2 : List PP), IsLayer (walk raw sv1 (p :: rest) o').1 →
        (access raw (access raw (Pkt.new ph raw).root hd (names ++ p :: rest) sv1).1 hd (names ++ p2 :: rest2) sv2).2 =
          (walk raw sv2 (p2 :: rest2) (walk raw sv1 (p :: rest) o').1).2) := by
  cases hd with
  | pkt =>
    obtain ⟨o', h1, h2, h3, h4, h5⟩ := nav_spine raw hw (specState ph raw) rfl rfl names _ _ (root_stands ph raw)
      (root_parsed ph raw) l s d e hcur
    refine ⟨o', h1, h2, ?_, ?_, ?_⟩
    · intro setv; simp only [access, walk_append]; exact h3 _
    · intro sv1 sv2; simp only [access, walk_append]; exact h4 _ _
    · intro sv1 sv2 p2 rest2 hl; simp only [access, walk_append]; exact h5 _ _ hl
  | dollar n =>
    simp only [headOf, Rfc.headCur] at hcur
    by_cases hn : n < 0 ∨ n > 10
    · simp only [hn, if_true] at hcur
      cases names <;> simp [Rfc.cursorAt] at hcur
    · simp only [hn, if_false] at hcur
      have hn' : ¬ (n < 0 ∨ n > (maxProtoDepth : Int)) := hn
      cases hmid : Rfc.downN (specState ph raw) n.toNat Rfc.startCur with
      | free => rw [hmid] at hcur; cases names <;> simp [Rfc.cursorAt] at hcur
      | err => rw [hmid] at hcur; cases names <;> simp [Rfc.cursorAt] at hcur
      | null => rw [hmid] at hcur; cases names <;> simp [Rfc.cursorAt] at hcur
      | «at» l1 s1 d1 e1 =>
        rw [hmid] at hcur
        obtain ⟨o1, a1, a2, a3, a4, a5⟩ := descend_spine raw hw (specState ph raw) rfl rfl n.toNat _ _ (root_stands ph raw)
          (root_parsed ph raw) l1 s1 d1 e1 hmid
        obtain ⟨o', h1, h2, h3, h4, h5⟩ := nav_spine raw hw (specState ph raw) rfl rfl names o1 _ a1 a2 l s d e hcur
        refine ⟨o', h1, h2, ?_, ?_, ?_⟩
        · intro setv
          simp only [access, hn', if_false]
          rw [a3, walk_append]; exact h3 _
        · intro sv1 sv2
          simp only [access, hn', if_false]
          have := a4 (walk raw sv1 (names ++ p :: rest)) (walk raw sv2 (names ++ p :: rest))
          refine this.trans ?_
          simp only [walk_append]; exact h4 _ _
        · intro sv1 sv2 p2 rest2 hl
          simp only [access, hn', if_false]
          have hl1 : IsLayer (walk raw sv1 (names ++ p :: rest) o1).1 := by
            rw [walk_append]
            exact ((h4 (walk raw sv1 (p :: rest)) (walk raw sv1 (p :: rest))).isLayer hl hl).1
          rw [a5 _ _ hl1]
          simp only [walk_append]
          exact h5 _ _ hl


/-! ## what a read yields, against what the reference expects -/

/-- the value a script sees is one the reference allows -/
def Reads (out : StepOut) : Rfc.Expect → Prop
  | .any => True
  | .notLayer => out = .ok .null ∨ out = .rterr
  | .num alts => ∃ n, n ∈ alts ∧ out = .ok (numVal n)
  | .flag b => out = .ok (.bool b)
  | .text alts => ∃ t, t ∈ alts ∧ out = .ok (.str (String.ofList t))
  | .payload alts => ∃ bs, bs ∈ alts ∧ out = .ok (bytesVal bs)
  | .obj l => out = .ok (.other l.objName)
  | .errObj => out = .ok (.err "packet")
  | .null => out = .ok .null
  | .notErr => False
  | .rterr => False
  | .wire _ => False

theorem bitSlice_congr (bs bs' : List Nat) (o w : Nat)
    (h : ∀ i, i < (o + w + 7) / 8 → Rfc.byteAt bs i = Rfc.byteAt bs' i) : Rfc.bitSlice bs o w = Rfc.bitSlice bs' o w := by
  unfold Rfc.bitSlice
  have : (List.range ((o + w + 7) / 8 - o / 8)).map (fun i => Rfc.byteAt bs (o / 8 + i)) =
      (List.range ((o + w + 7) / 8 - o / 8)).map (fun i => Rfc.byteAt bs' (o / 8 + i)) := by
    apply List.map_congr_left
    intro i hi
    have := List.mem_range.mp hi
    exact h _ (by omega)
  simp only [this]

theorem layout_within (l : Rfc.Layer) (p : PP) (o w : Nat) (hlay : Rfc.layout l p = some (o, w)) (hl : l ≠ .record) :
    o + w ≤ 8 * hdrLen l := by
  cases l <;> cases p <;> simp [Rfc.layout] at hlay <;> obtain ⟨rfl, rfl⟩ := hlay <;>
    first | exact absurd rfl hl | simp [hdrLen, Rfc.fixedSize]

/-- slices inside the fixed part of a header: the header's own bytes and the frame from `s` on give the same number -/
theorem slice_hdr_drop (raw : List Nat) (s n o w : Nat) (h : o + w ≤ 8 * n) :
    Rfc.bitSlice (hdrBytes (rd raw s) n) o w = Rfc.bitSlice (raw.drop s) o w := by
  apply bitSlice_congr
  intro i hi
  rw [byteAt_hdr _ _ _ (by omega), byteAt_drop]; rfl

theorem mem_eraseDups_pair {α : Type} [BEq α] [LawfulBEq α] (a b : α) : a ∈ [a, b].eraseDups := by
  rw [List.mem_eraseDups]; simp

/-- **a field of a parsed protocol header reads as the reference prescribes** — numbers are the bit slice, the flag the
bit, addresses the reference's text -/
theorem field_reads (raw : List Nat) (hw : wf raw) (st : Rfc.SState) (hfr : st.fr = raw) (l : Rfc.Layer) (s : Nat) (p : PP)
    (o w : Nat) (hl : l ≠ .record) (hlay : Rfc.layout l p = some (o, w)) :
    ∃ fv, (parseAs l (rd raw s)).get p = some fv ∧ Reads (.ok fv.toVal) (Rfc.fieldExpect st l s p o w) := by
  have hb := rd_lt hw s
  have hwithin := layout_within l p o w hlay hl
  unfold Rfc.fieldExpect
  simp only [Rfc.hdrAt, hl, if_false, hfr]
  cases hk : Rfc.kindOf l p with
  | num =>
    have hg := getter_is_slice l p o w (rd raw s) hb hlay hk hl
    rw [slice_hdr_drop raw s _ o w hwithin] at hg
    refine ⟨_, hg, ?_⟩
    simp only
    by_cases hf : l = .tcp ∧ p = .flags
    · obtain ⟨rfl, rfl⟩ := hf
      simp [Rfc.layout] at hlay
      obtain ⟨rfl, rfl⟩ := hlay
      simp only [and_self, if_true, Reads, FieldVal.toVal]
      exact ⟨_, mem_eraseDups_pair _ _, rfl⟩
    · simp only [hf, if_false, Reads, FieldVal.toVal]
      exact ⟨_, by simp, rfl⟩
  | flag =>
    have : l = .dot1q ∧ p = .dei := by
      cases l <;> cases p <;> simp [Rfc.kindOf] at hk <;> simp [Rfc.layout] at hlay <;> exact ⟨rfl, rfl⟩
    obtain ⟨rfl, rfl⟩ := this
    simp [Rfc.layout] at hlay
    obtain ⟨rfl, rfl⟩ := hlay
    refine ⟨_, dei_is_slice (rd raw s) hb, ?_⟩
    rw [slice_hdr_drop raw s 4 3 1 (by omega)]
    simp [Reads, FieldVal.toVal]
  | mac =>
    have : l = .ethernet ∧ (p = .dst ∨ p = .src) := by
      cases l <;> cases p <;> simp [Rfc.kindOf] at hk <;> simp
    obtain ⟨rfl, hp⟩ := this
    have h0 := hb 0; have h1 := hb 1; have h2 := hb 2; have h3 := hb 3; have h4 := hb 4; have h5 := hb 5
    have h6 := hb 6; have h7 := hb 7; have h8 := hb 8; have h9 := hb 9; have h10 := hb 10; have h11 := hb 11
    rcases hp with rfl | rfl <;> simp [Rfc.layout] at hlay <;> obtain ⟨rfl, rfl⟩ := hlay
    · refine ⟨_, rfl, ?_⟩
      simp only [Reads, FieldVal.toVal, EthHdr.parse]
      refine ⟨_, mem_eraseDups_pair _ _, ?_⟩
      rw [mac_text_is_reference _ (by simp; omega)]
      simp [List.range, List.range.loop, byteAt_drop, rd]
    · refine ⟨_, rfl, ?_⟩
      simp only [Reads, FieldVal.toVal, EthHdr.parse]
      refine ⟨_, mem_eraseDups_pair _ _, ?_⟩
      rw [mac_text_is_reference _ (by simp; omega)]
      simp [List.range, List.range.loop, byteAt_drop, rd]
  | v4 =>
    have : l = .ipv4 ∧ (p = .src ∨ p = .dst) := by
      cases l <;> cases p <;> simp [Rfc.kindOf] at hk <;> simp
    obtain ⟨rfl, hp⟩ := this
    have h12 := hb 12; have h13 := hb 13; have h14 := hb 14; have h15 := hb 15
    have h16 := hb 16; have h17 := hb 17; have h18 := hb 18; have h19 := hb 19
    rcases hp with rfl | rfl <;> simp [Rfc.layout] at hlay <;> obtain ⟨rfl, rfl⟩ := hlay
    · refine ⟨_, rfl, ?_⟩
      simp only [Reads, FieldVal.toVal, Ipv4Hdr.parse]
      refine ⟨_, List.mem_singleton.mpr rfl, ?_⟩
      rw [v4_text_is_reference _ (by simp; omega)]
      simp [List.range, List.range.loop, byteAt_drop, rd]
    · refine ⟨_, rfl, ?_⟩
      simp only [Reads, FieldVal.toVal, Ipv4Hdr.parse]
      refine ⟨_, List.mem_singleton.mpr rfl, ?_⟩
      rw [v4_text_is_reference _ (by simp; omega)]
      simp [List.range, List.range.loop, byteAt_drop, rd]
  | v6 =>
    have : l = .ipv6 := by cases l <;> cases p <;> simp [Rfc.kindOf] at hk <;> rfl
    subst this
    obtain ⟨t, hget, -, hmem⟩ := v6_getter_is_reference p o w (rd raw s) hb hlay hk
    refine ⟨_, hget, ?_⟩
    simp only [Reads, FieldVal.toVal]
    refine ⟨t, ?_, rfl⟩
    have : v6Slices (hdrBytes (rd raw s) 40) o = (List.range 8).map fun i => Rfc.bitSlice (raw.drop s) (o + 16 * i) 16 := by
      simp only [v6Slices]
      apply List.map_congr_left
      intro i hi
      have := List.mem_range.mp hi
      apply slice_hdr_drop
      simp [hdrLen, Rfc.fixedSize] at hwithin
      have hw' : w = 128 := by
        cases p <;> simp [Rfc.kindOf] at hk <;> simp [Rfc.layout] at hlay <;> (obtain ⟨_, rfl⟩ := hlay; rfl)
      omega
    rw [this] at hmem
    exact hmem


/-! ## paths -/

def NotRec : Rfc.Cur → Prop
  | .at l _ _ _ => l ≠ .record
  | _ => True

theorem arrive_notrec (raw : List Nat) (l : Rfc.Layer) (s d : Nat) (ends : List Nat) (hl : l ≠ .record) :
    NotRec (Rfc.arrive raw l s d ends) := by
  unfold Rfc.arrive
  split
  · trivial
  · split
    · trivial
    · split
      · trivial
      · exact hl

theorem innerOf_ne_record (fr : List Nat) (l : Rfc.Layer) (s : Nat) (l' : Rfc.Layer) (s' : Nat)
    (h : Rfc.innerOf fr l s = some (l', s')) : l' ≠ .record := by
  cases l <;> simp only [Rfc.innerOf, Rfc.typeField, Rfc.layout] at h <;> (try (cases h; done)) <;>
    (try (cases h; decide)) <;>
    (split at h <;> try cases h) <;> rename_i hn <;> unfold Rfc.nextLayer at hn <;> split at hn <;> cases hn <;> decide

theorem down_notrec (st : Rfc.SState) (c : Rfc.Cur) : NotRec (Rfc.down st c) := by
  cases c with
  | «at» l s d ends =>
    simp only [Rfc.down]
    split
    · trivial
    · split
      · rename_i l' s' hin
        exact arrive_notrec _ _ _ _ _ (innerOf_ne_record _ _ _ _ _ hin)
      · trivial
  | _ => trivial

theorem downN_notrec (st : Rfc.SState) : ∀ n c, NotRec c → NotRec (Rfc.downN st n c) := by
  intro n
  induction n with
  | zero => intro c h; exact h
  | succ n ih => intro c _; exact ih _ (down_notrec st c)

theorem layerProp_none (h : Hdr) (p : PP) (hp : Rfc.Layer.propOf p = none) : layerProp h p = none := by
  cases h <;> cases p <;> simp [Rfc.Layer.propOf] at hp <;> rfl

theorem layerProp_propOf (h : Hdr) (p : PP) (k : LayerKind) (hl : layerProp h p = some k) :
    Rfc.Layer.propOf p = some (kindLayer k) := by
  cases h <;> cases p <;> simp [layerProp] at hl <;> subst hl <;> rfl

theorem hdr_get_layername (h : Hdr) (p : PP) (want : Rfc.Layer) (hp : Rfc.Layer.propOf p = some want) : h.get p = none := by
  cases h <;> cases p <;> simp [Rfc.Layer.propOf] at hp <;> rfl

theorem walk_cons (raw : List Nat) (p : PP) (ps : List PP) (o : Obj) :
    walk raw none (p :: ps) o = getProp raw p (walk raw none ps) ps.isEmpty o := by
  cases ps <;> simp [walk]

theorem readFrom_nonat (st : Rfc.SState) (p : PP) (ps : List PP) (c : Rfc.Cur) (hc : ∀ l s d e, c ≠ .at l s d e) :
    Rfc.readFrom st (p :: ps) c = .any := by
  cases c with
  | «at» l s d e => exact absurd rfl (hc l s d e)
  | _ => rfl

theorem payload_reads (st : Rfc.SState) (raw : List Nat) (hfr : st.fr = raw) (l : Rfc.Layer) (s : Nat) (ends : List Nat) :
    Reads (.ok (bytesVal (raw.drop (s + Rfc.headerLen raw l s)))) (Rfc.payloadExpect st l s ends) := by
  simp only [Rfc.payloadExpect, Reads, hfr]
  refine ⟨_, ?_, rfl⟩
  rw [List.mem_eraseDups]
  simp

/-- **below the record layer**: reading a path from an object the reference cursor stands for yields what
`Rfc.readFrom` prescribes -/
theorem walk_reads (raw : List Nat) (hw : wf raw) (st : Rfc.SState) (hfr : st.fr = raw) (hd : st.dirty = none) :
    ∀ (path : List PP) (o : Obj) (c : Rfc.Cur), Stands raw o c → NotRec c →
      Reads (walk raw none path o).2 (Rfc.readFrom st path c) := by
  intro path
  induction path with
  | nil =>
    intro o c hs hn
    simp only [walk, Rfc.readFrom]
    cases c with
    | free => trivial
    | err => simp only [Stands] at hs; subst hs; simp [Rfc.curExpect, Reads, Obj.toVal]
    | null => simp only [Stands] at hs; subst hs; simp [Rfc.curExpect, Reads, Obj.toVal]
    | «at» l s d ends =>
      rcases hs with ⟨hr, _⟩ | ⟨_, rfl⟩
      · exact absurd hr hn
      · simp [Rfc.curExpect, Reads, Obj.toVal, kindName_parseAs]
  | cons p ps ih =>
    intro o c hs hn
    cases c with
    | free => simp [Rfc.readFrom, Reads]
    | err => simp [Rfc.readFrom, Reads]
    | null => simp [Rfc.readFrom, Reads]
    | «at» l s d ends =>
      have hl : l ≠ .record := hn
      have ho : o = .layer (parseAs l (rd raw s)) (s + Rfc.headerLen raw l s) .none := by
        rcases hs with ⟨hr, _⟩ | ⟨_, e⟩
        · exact absurd hr hl
        · exact e
      subst ho
      have hdirty : st.isDirty d = false := by simp [Rfc.SState.isDirty, hd]
      rw [walk_cons]
      simp only [Rfc.readFrom, hdirty, hfr, Bool.false_eq_true, if_false]
      cases hnm : Rfc.Layer.propOf p with
      | some want =>
        simp only
        rcases inner_agrees raw hw l s d ends _ _ hs with ⟨_, hin⟩ | ⟨kind, hdis, hin⟩
        · simp [hin, Reads]
        · simp only [hin]
          by_cases hk : kindLayer kind = want
          · subst hk
            obtain ⟨h1, h2, _⟩ := dispatch_named _ kind p hdis hnm
            simp only [if_true, getProp, h1, h2, Bool.false_eq_true, if_false]
            exact ih _ _ (arrive_stands raw hw kind _ (d + 1) ends) (arrive_notrec _ _ _ _ _ (kindLayer_ne_record kind))
          · simp only [hk, if_false]
            cases ps with
            | cons q qs => simp [Reads]
            | nil =>
              simp only [List.isEmpty_nil, if_true, Reads]
              cases hlp : layerProp (parseAs l (rd raw s)) p with
              | none =>
                right
                have hpay : p ≠ .payload := by intro e; subst e; simp [Rfc.Layer.propOf] at hnm
                simp [getProp, hlp, hpay, hdr_get_layername _ p want hnm]
              | some k' =>
                cases hm : typeMismatch (parseAs l (rd raw s)) k' with
                | true => left; simp [getProp, hlp, hm, walk, Obj.toVal]
                | false =>
                  exfalso
                  have hne : ∀ ph, parseAs l (rd raw s) ≠ .pcap ph := by intro ph; cases l <;> simp_all [parseAs]
                  have := named_getter_agrees_dispatch _ p k' hne hlp hm
                  rw [hdis] at this
                  cases this
                  have := layerProp_propOf _ p _ hlp
                  rw [hnm] at this
                  cases this
                  exact hk rfl
      | none =>
        simp only
        cases ps with
        | cons q qs => simp [Reads]
        | nil =>
          simp only [List.isEmpty_nil, Bool.not_true, Bool.false_eq_true, if_false]
          have hlp := layerProp_none (parseAs l (rd raw s)) p hnm
          by_cases hpay : p = .payload
          · subst hpay
            simp only [if_true, getProp, hlp]
            exact payload_reads st raw hfr l s ends
          · simp only [hpay, if_false]
            cases hlay : Rfc.layout l p with
            | none => trivial
            | some ow =>
              obtain ⟨o, w⟩ := ow
              obtain ⟨fv, hget, hr⟩ := field_reads raw hw st hfr l s p o w hl hlay
              simp only [getProp, hlp, hpay, if_false, hget, Option.map_some]
              exact hr


/-- the words of the record header (within 32 bits) read as the reference's little-endian slices -/
theorem record_field_reads (ph : PcapHdr) (hfit : C15.PcapHdr.fits ph) (raw : List Nat) (p : PP) (o w : Nat)
    (hlay : Rfc.layout .record p = some (o, w)) :
    ∃ fv, ph.get p = some fv ∧ Reads (.ok fv.toVal) (Rfc.fieldExpect (specState ph raw) .record 0 p o w) := by
  obtain ⟨f1, f2, f3, f4⟩ := hfit
  cases p <;> simp [Rfc.layout] at hlay <;> obtain ⟨rfl, rfl⟩ := hlay <;>
    refine ⟨_, rfl, ?_⟩ <;>
    simp only [Rfc.fieldExpect, Rfc.kindOf, Rfc.hdrAt, if_true, specState, Reads, FieldVal.toVal] <;>
    refine ⟨_, List.mem_singleton.mpr rfl, ?_⟩ <;> congr 2 <;>
    simp [PcapHdr.toBytes, le32, Rfc.leSlice, Rfc.leNat, Rfc.byteAt, List.range, List.range.loop] <;> omega

/-- **at the packet object**: `pkt`, `pkt.<word of the record header>`, `pkt.payload`, `pkt.eth…` -/
theorem root_reads (ph : PcapHdr) (hfit : C15.PcapHdr.fits ph) (raw : List Nat) (hw : wf raw) (path : List PP) :
    Reads (walk raw none path (Pkt.new ph raw).root).2 (Rfc.readFrom (specState ph raw) path Rfc.startCur) := by
  cases path with
  | nil => simp [walk, Rfc.readFrom, Rfc.curExpect, Rfc.startCur, Reads, Obj.toVal, Pkt.new, Hdr.kindName, Rfc.Layer.objName]
  | cons p ps =>
    rw [walk_cons]
    have hdirty : (specState ph raw).isDirty 0 = false := by simp [Rfc.SState.isDirty, specState]
    simp only [Rfc.readFrom, Rfc.startCur, hdirty, Bool.false_eq_true, if_false, Pkt.new]
    cases hnm : Rfc.Layer.propOf p with
    | some want =>
      simp only [Rfc.innerOf]
      by_cases hk : Rfc.Layer.ethernet = want
      · subst hk
        have hp : p = .eth := by cases p <;> simp [Rfc.Layer.propOf] at hnm <;> rfl
        subst hp
        simp only [if_true, getProp, layerProp, typeMismatch, typeWanted, Bool.false_eq_true, if_false]
        exact walk_reads raw hw (specState ph raw) rfl rfl ps _ _ (arrive_stands raw hw .eth 0 1 [])
          (arrive_notrec _ _ _ _ _ (by decide))
      · simp only [hk, if_false]
        cases ps with
        | cons q qs => simp [Reads]
        | nil =>
          simp only [List.isEmpty_nil, if_true, Reads]
          right
          have hpe : p ≠ .eth := by intro e; subst e; simp [Rfc.Layer.propOf] at hnm; exact hk hnm
          have hlp : layerProp (.pcap ph) p = none := by cases p <;> first | rfl | exact absurd rfl hpe
          have hpay : p ≠ .payload := by intro e; subst e; simp [Rfc.Layer.propOf] at hnm
          simp [getProp, hlp, hpay, hdr_get_layername _ p want hnm]
    | none =>
      simp only
      cases ps with
      | cons q qs => simp [Reads]
      | nil =>
        simp only [List.isEmpty_nil, Bool.not_true, Bool.false_eq_true, if_false]
        have hlp := layerProp_none (.pcap ph) p hnm
        by_cases hpay : p = .payload
        · subst hpay
          simp only [if_true, getProp, hlp]
          have := payload_reads (specState ph raw) raw rfl .record 0 []
          simpa [Rfc.headerLen, Rfc.fixedSize] using this
        · simp only [hpay, if_false]
          cases hlay : Rfc.layout .record p with
          | none => trivial
          | some ow =>
            obtain ⟨o, w⟩ := ow
            obtain ⟨fv, hget, hr⟩ := record_field_reads ph hfit raw p o w hlay
            simp only [getProp, hlp, hpay, if_false, Hdr.get, hget, Option.map_some]
            exact hr

theorem readFrom_free (st : Rfc.SState) (path : List PP) : Rfc.readFrom st path .free = .any := by
  cases path <;> rfl

/-- **C16, named paths end to end.**  On a fresh packet over a well-formed frame (record header within 32 bits), for
every head — `pkt` or `$n`, any `n` — and every property path, the value the script sees (`Pkt.run [.get hd path]`
evaluates `access`) is one `Rfc.readExpect` allows: the number is the bit slice the RFC layout names, the text the
reference rendering of the address bytes, the layer object for a name the type field agrees with, null or a runtime
error for a name it disagrees with (`notLayer`), the error object for a truncated layer, null below the last supported
layer, the payload the bytes after the header. -/
theorem named_path_reads_reference (ph : PcapHdr) (hfit : C15.PcapHdr.fits ph) (raw : List Nat) (hw : wf raw)
    (hd : Head) (path : List PP) :
    Reads (access raw (Pkt.new ph raw).root hd path none).2 (Rfc.readExpect (specState ph raw) (headOf hd) path) := by
  have hwild : (specState ph raw).wild = false := rfl
  simp only [Rfc.readExpect, hwild, Bool.false_eq_true, if_false]
  cases hd with
  | pkt => exact root_reads ph hfit raw hw path
  | dollar n =>
    simp only [headOf, Rfc.headCur]
    by_cases hn : n < 0 ∨ n > 10
    · simp only [hn, if_true, readFrom_free]; trivial
    · have hn' : ¬ (n < 0 ∨ n > (maxProtoDepth : Int)) := hn
      simp only [hn, if_false, access, hn']
      cases hk : n.toNat with
      | zero => simpa [descend, Rfc.downN] using root_reads ph hfit raw hw path
      | succ k =>
        have hstep : descend raw (walk raw none path) (k + 1) (Pkt.new ph raw).root =
            ((Obj.layer (.pcap ph) 0 (descend raw (walk raw none path) k (parseLayer raw .eth 0)).1),
             (descend raw (walk raw none path) k (parseLayer raw .eth 0)).2) := by
          simp [descend, innerStep, dispatch, Pkt.new]
        have hdown : Rfc.downN (specState ph raw) (k + 1) Rfc.startCur =
            Rfc.downN (specState ph raw) k (Rfc.arrive raw .ethernet 0 1 []) := by
          simp [Rfc.downN, Rfc.down, Rfc.startCur, Rfc.SState.isDirty, specState, Rfc.innerOf]
        rw [hstep, hdown]
        obtain ⟨o', hs', ho'⟩ := descend_stands raw hw (specState ph raw) rfl rfl (walk raw none path) k _ _
          (arrive_stands raw hw .eth 0 1 [])
        simp only
        rw [ho']
        exact walk_reads raw hw (specState ph raw) rfl rfl path o' _ hs'
          (downN_notrec _ k _ (arrive_notrec _ _ _ _ _ (by decide)))

/-- **a named layer whose type field selects another layer** — restated against the reference: whenever
`Rfc.readExpect` answers `notLayer` ("an X object IF the type field says X"), the script does not get a layer object:
it reads null, or a runtime error when the name is no property of the object reached -/
theorem named_getter_null_on_mismatch_reference (ph : PcapHdr) (hfit : C15.PcapHdr.fits ph) (raw : List Nat) (hw : wf raw)
    (hd : Head) (path : List PP) (h : Rfc.readExpect (specState ph raw) (headOf hd) path = .notLayer) :
    (access raw (Pkt.new ph raw).root hd path none).2 = .ok .null ∨
    (access raw (Pkt.new ph raw).root hd path none).2 = .rterr := by
  have := named_path_reads_reference ph hfit raw hw hd path
  rw [h] at this
  exact this


/-- **…and it is null** whenever the name is one of the layer properties of the object the path reaches (`eth.ipv4`,
`eth.ipv6`, `eth.vlan`, `vlan.*`, `ipv4.tcp`, `ipv4.udp`, …): the reference says `notLayer`, the script reads null -/
theorem named_getter_null_on_mismatch_null (ph : PcapHdr) (hfit : C15.PcapHdr.fits ph) (raw : List Nat) (hw : wf raw)
    (hd : Head) (names : List PP) (nm : PP) (l : Rfc.Layer) (s d : Nat) (e : List Nat)
    (hcur : Rfc.cursorAt (specState ph raw) names (Rfc.headCur (specState ph raw) (headOf hd)) = .at l s d e)
    (hlp : ∀ h, hdrLayer h = l → (layerProp h nm).isSome = true)
    (hne : Rfc.readExpect (specState ph raw) (headOf hd) (names ++ [nm]) = .notLayer) :
    (access raw (Pkt.new ph raw).root hd (names ++ [nm]) none).2 = .ok .null := by
  rcases named_getter_null_on_mismatch_reference ph hfit raw hw hd (names ++ [nm]) hne with h | h
  · exact h
  · exfalso
    obtain ⟨o', hst, -, hout, -, -⟩ := access_spine ph raw hw hd names nm [] l s d e hcur
    rw [hout none] at h
    have hl : ∃ hh off, o' = .layer hh off .none ∧ hdrLayer hh = l := by
      rcases hst with ⟨rfl, _, ph', rfl⟩ | ⟨_, rfl⟩
      · exact ⟨_, _, rfl, rfl⟩
      · exact ⟨_, _, rfl, hdrLayer_parseAs l _⟩
    obtain ⟨hh, off, rfl, hhl⟩ := hl
    have := hlp hh hhl
    cases hk : layerProp hh nm with
    | none => rw [hk] at this; cases this
    | some kind =>
      simp only [walk, getProp, hk] at h
      split at h
      · cases h
      · cases h

/-! ### the theorems on the VLAN + IPv4 + TCP frame of C16More: what the reference expects, and that the model delivers it -/

/-- `pkt.eth.vlan.ipv4.ttl` → the number 64; `pkt.eth.vlan.ipv4.src` → the text `10.0.0.1`; `$3.tcp` → the TCP object;
`pkt.eth.ipv4` (the EtherType says VLAN) → not a layer; `pkt.eth.vlan.ipv4.tcp.payload` → the two bytes after the options -/
example :
    let st := specState ⟨0, 0, 68, 68⟩ vlanTcpFrame
    (match Rfc.readExpect st .pkt [.eth, .vlan, .ipv4, .ttl] with | .num [64] => true | _ => false) = true ∧
    (match Rfc.readExpect st .pkt [.eth, .vlan, .ipv4, .src] with | .text [t] => t == "10.0.0.1".toList | _ => false) = true ∧
    (match Rfc.readExpect st (.dollar 3) [.tcp] with | .obj .tcp => true | _ => false) = true ∧
    (match Rfc.readExpect st .pkt [.eth, .ipv4] with | .notLayer => true | _ => false) = true ∧
    (match Rfc.readExpect st .pkt [.eth, .vlan, .ipv4, .tcp, .payload] with | .payload ps => ps.contains [0xde, 0xad] | _ => false) = true := by
  decide

example : Reads (access vlanTcpFrame (Pkt.new ⟨0, 0, 68, 68⟩ vlanTcpFrame).root .pkt [.eth, .vlan, .ipv4, .ttl] none).2
    (Rfc.readExpect (specState ⟨0, 0, 68, 68⟩ vlanTcpFrame) .pkt [.eth, .vlan, .ipv4, .ttl]) :=
  named_path_reads_reference _ (by unfold C15.PcapHdr.fits; decide) _ (by unfold wf; decide) .pkt _

/-- the EtherType says VLAN: `pkt.eth.ipv4` is null, `pkt.eth.tcp` (no property of an Ethernet object) a runtime error -/
example :
    (match (access vlanTcpFrame (Pkt.new ⟨0, 0, 68, 68⟩ vlanTcpFrame).root .pkt [.eth, .ipv4] none).2 with | .ok .null => true | _ => false) = true ∧
    (match (access vlanTcpFrame (Pkt.new ⟨0, 0, 68, 68⟩ vlanTcpFrame).root .pkt [.eth, .tcp] none).2 with | .rterr => true | _ => false) = true ∧
    (match Rfc.readExpect (specState ⟨0, 0, 68, 68⟩ vlanTcpFrame) .pkt [.eth, .tcp] with | .notLayer => true | _ => false) = true := by
  decide

/-- `pkt.eth.ipv4` on the VLAN frame is null by the theorem: `ipv4` is a layer property of an Ethernet object and the
reference answers `notLayer` -/
example : (access vlanTcpFrame (Pkt.new ⟨0, 0, 68, 68⟩ vlanTcpFrame).root .pkt ([.eth] ++ [.ipv4]) none).2 = .ok .null :=
  named_getter_null_on_mismatch_null _ (by unfold C15.PcapHdr.fits; decide) _ (by unfold wf; decide) .pkt [.eth] .ipv4
    .ethernet 0 1 [] (by rfl) (by intro h hh; cases h <;> simp [hdrLayer] at hh <;> rfl) (by rfl)

end P2sh.Props.C16
