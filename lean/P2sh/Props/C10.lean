import P2sh.Model.HMap
import P2sh.Spec.Assoc
/-!
# C10 — map lookups are consistent with value equality

* `hash_respects_eq` — keys equal under `==` feed the same byte stream to the hasher
  (for all values; the only fact about IEEE doubles it uses is `FloatLaw`, stated as a
  hypothesis: doubles that compare equal have the same bits once `-0.0` is normalised —
  this is exactly what the `fix:` for F25 relies on; `hash_respects_eq_floatfree` needs no
  such hypothesis);
* `get?_refines`, `insert_refines` — hence the hash-table model *is* the association list
  under `==` of `Spec.Assoc`, for every table and key;
* `pairwise_law` — looking up `k2` after inserting under `k1` succeeds iff `k1 == k2`;
* `run_refines` — any sequence of inserts and lookups behaves like the association list.
-/
namespace P2sh.Props.C10
open P2sh

/-- the one IEEE fact used: equal doubles hash alike (bit-identical except ±0, which
`hashFloatBits` normalises) -/
def FloatLaw : Prop := ∀ x y : Float, (x == y) = true → hashFloatBits x = hashFloatBits y

mutual
def floatFree : Val → Bool
  | .float _ => false
  | .arr _ xs => floatFreeList xs
  | _ => true
def floatFreeList : List Val → Bool
  | [] => true
  | x :: xs => floatFree x && floatFreeList xs
end

/-- `ff = true` means: no IEEE fact is available, floats must not occur -/
def Ok (law : Prop) (v : Val) : Prop := law ∨ floatFree v = true
def OkList (law : Prop) (vs : List Val) : Prop := law ∨ floatFreeList vs = true

mutual
theorem hash_eq_core (hl : law → FloatLaw) :
    ∀ (a b : Val), Ok law a → Ok law b → a.eq b = true → a.hashStream = b.hashStream
  | .null, b, _, _, h => by cases b <;> simp_all [Val.eq, Val.hashStream]
  | .str s, b, _, _, h => by cases b <;> simp_all [Val.eq, Val.hashStream]
  | .char c, b, _, _, h => by cases b <;> simp_all [Val.eq, Val.hashStream]
  | .byte x, b, _, _, h => by cases b <;> simp_all [Val.eq, Val.hashStream]
  | .bool x, b, _, _, h => by cases b <;> simp_all [Val.eq, Val.hashStream]
  | .builtin n, b, _, _, h => by cases b <;> simp_all [Val.eq, Val.hashStream]
  | .func f, b, _, _, h => by cases b <;> simp_all [Val.eq, Val.hashStream]
  | .clos f fr i, b, _, _, h => by cases b <;> simp_all [Val.eq, Val.hashStream]
  | .file k, b, _, _, h => by cases b <;> simp_all [Val.eq]
  | .err k, b, _, _, h => by cases b <;> simp_all [Val.eq]
  | .other k, b, _, _, h => by cases b <;> simp_all [Val.eq]
  | .map i kvs, b, _, _, h => by cases b <;> simp_all [Val.eq, Val.hashStream]
  | .int x, b, _, hb, h => by
    cases b with
    | int y => simp_all [Val.eq, Val.hashStream]
    | float y =>
      rcases hb with hb | hb
      · simp only [Val.eq] at h; simp only [Val.hashStream]; exact hl hb _ _ h
      · simp [floatFree] at hb
    | _ => simp_all [Val.eq]
  | .float x, b, ha, _, h => by
    rcases ha with ha | ha
    · cases b with
      | int y => simp only [Val.eq] at h; simp only [Val.hashStream]; exact hl ha _ _ h
      | float y => simp only [Val.eq] at h; simp only [Val.hashStream]; exact hl ha _ _ h
      | _ => simp_all [Val.eq]
    · simp [floatFree] at ha
  | .arr i xs, b, ha, hb, h => by
    cases b with
    | arr j ys =>
      simp only [Val.eq] at h
      simp only [Val.hashStream]
      refine hash_eqList_core hl xs ys ?_ ?_ h
      · rcases ha with ha | ha
        · exact Or.inl ha
        · exact Or.inr (by simpa [floatFree] using ha)
      · rcases hb with hb | hb
        · exact Or.inl hb
        · exact Or.inr (by simpa [floatFree] using hb)
    | _ => simp_all [Val.eq]
theorem hash_eqList_core (hl : law → FloatLaw) :
    ∀ (xs ys : List Val), OkList law xs → OkList law ys → Val.eqList xs ys = true →
      Val.hashStreamList xs = Val.hashStreamList ys
  | [], ys, _, _, h => by cases ys <;> simp_all [Val.eqList, Val.hashStreamList]
  | x :: xs, ys, ha, hb, h => by
    cases ys with
    | nil => simp [Val.eqList] at h
    | cons y ys =>
      simp only [Val.eqList, Bool.and_eq_true] at h
      simp only [Val.hashStreamList]
      have hx : Ok law x := by
        rcases ha with ha | ha
        · exact Or.inl ha
        · exact Or.inr (by simp [floatFreeList] at ha; exact ha.1)
      have hxs : OkList law xs := by
        rcases ha with ha | ha
        · exact Or.inl ha
        · exact Or.inr (by simp [floatFreeList] at ha; exact ha.2)
      have hy : Ok law y := by
        rcases hb with hb | hb
        · exact Or.inl hb
        · exact Or.inr (by simp [floatFreeList] at hb; exact hb.1)
      have hys : OkList law ys := by
        rcases hb with hb | hb
        · exact Or.inl hb
        · exact Or.inr (by simp [floatFreeList] at hb; exact hb.2)
      rw [hash_eq_core hl x y hx hy h.1, hash_eqList_core hl xs ys hxs hys h.2]
end

/-- **hash respects ==** for all values, given the IEEE fact `FloatLaw` -/
theorem hash_respects_eq (law : FloatLaw) (a b : Val) (h : a.eq b = true) : a.hashStream = b.hashStream :=
  hash_eq_core (law := True) (fun _ => law) a b (Or.inl trivial) (Or.inl trivial) h

/-- … and unconditionally for keys that contain no float (integers, bytes, chars, strings,
booleans, null, builtins and arrays of those) -/
theorem hash_respects_eq_floatfree (a b : Val) (ha : floatFree a = true) (hb : floatFree b = true)
    (h : a.eq b = true) : a.hashStream = b.hashStream :=
  hash_eq_core (law := False) (fun f => f.elim) a b (Or.inr ha) (Or.inr hb) h

/-- the hash condition of a table probe is implied by `==` -/
def HashOK (k' k : Val) : Prop := k'.eq k = true → k'.hashStream = k.hashStream

theorem keyMatch_eq (k k' : Val) (h : HashOK k' k) : HMap.keyMatch k k' = k'.eq k := by
  unfold HMap.keyMatch
  by_cases he : k'.eq k = true
  · simp [he, h he]
  · simp [he]

theorem find?_congr' {α} (p q : α → Bool) : ∀ (l : List α), (∀ x ∈ l, p x = q x) → l.find? p = l.find? q
  | [], _ => rfl
  | x :: xs, h => by
    simp only [List.find?, h x (List.mem_cons_self)]
    rw [find?_congr' p q xs (fun y hy => h y (List.mem_cons_of_mem _ hy))]

/-- `HashMap::get` is the association-list lookup under `==` -/
theorem get?_refines (m : HMap.Entries) (k : Val) (h : ∀ e ∈ m, HashOK e.1 k) :
    HMap.get? m k = Spec.Assoc.lookup m k := by
  unfold HMap.get? Spec.Assoc.lookup
  rw [find?_congr' (fun e => HMap.keyMatch k e.1) (fun e => e.1.eq k) m
    (fun e he => keyMatch_eq k e.1 (h e he))]
  cases List.find? (fun e => e.fst.eq k) m <;> rfl

/-- `HashMap::insert` is the association-list insert under `==` -/
theorem insert_refines (m : HMap.Entries) (k v : Val) (h : ∀ e ∈ m, HashOK e.1 k) :
    HMap.insert m k v = Spec.Assoc.insert m k v := by
  induction m with
  | nil => rfl
  | cons e rest ih =>
    obtain ⟨k', v'⟩ := e
    have h0 : HashOK k' k := h (k', v') (List.mem_cons_self)
    have hr : ∀ e ∈ rest, HashOK e.1 k := fun e he => h e (List.mem_cons_of_mem _ he)
    simp only [HMap.insert, Spec.Assoc.insert, keyMatch_eq k k' h0, ih hr]

/-- **pairwise law**: after inserting `v` under `k1` into an empty map, looking up `k2` finds
`v` exactly when `k1 == k2` -/
theorem pairwise_law (k1 k2 v : Val) (h : HashOK k1 k2) :
    HMap.get? (HMap.insert [] k1 v).1 k2 = (if k1.eq k2 then some v else none) := by
  simp only [HMap.insert, HMap.get?, List.find?, keyMatch_eq k2 k1 h]
  by_cases he : k1.eq k2 = true <;> simp [he]

/-- map operations, for sequence statements -/
inductive MapOp where
  | insert (k v : Val)
  | get (k : Val)

def runModel : HMap.Entries → List MapOp → List (Option Val)
  | _, [] => []
  | m, .insert k v :: ops => let r := HMap.insert m k v; r.2 :: runModel r.1 ops
  | m, .get k :: ops => HMap.get? m k :: runModel m ops

def runSpec : Spec.Assoc.Entries → List MapOp → List (Option Val)
  | _, [] => []
  | m, .insert k v :: ops => let r := Spec.Assoc.insert m k v; r.2 :: runSpec r.1 ops
  | m, .get k :: ops => Spec.Assoc.lookup m k :: runSpec m ops

def opKey : MapOp → Val
  | .insert k _ => k
  | .get k => k

theorem insert_keys (m : Spec.Assoc.Entries) (k v : Val) :
    ∀ e ∈ (Spec.Assoc.insert m k v).1, e.1 = k ∨ ∃ e' ∈ m, e'.1 = e.1 := by
  induction m with
  | nil => intro e he; simp [Spec.Assoc.insert] at he; exact Or.inl (by simp [he])
  | cons e0 rest ih =>
    obtain ⟨k', v'⟩ := e0
    intro e he
    simp only [Spec.Assoc.insert] at he
    split at he
    · simp only [List.mem_cons] at he
      rcases he with rfl | he
      · exact Or.inr ⟨(k', v'), List.mem_cons_self, rfl⟩
      · exact Or.inr ⟨e, List.mem_cons_of_mem _ he, rfl⟩
    · simp only [List.mem_cons] at he
      rcases he with rfl | he
      · exact Or.inr ⟨(k', v'), List.mem_cons_self, rfl⟩
      · rcases ih e he with h | ⟨e', he', h⟩
        · exact Or.inl h
        · exact Or.inr ⟨e', List.mem_cons_of_mem _ he', h⟩

/-- **sequence refinement**: on any sequence of inserts and lookups whose keys (initial and
used) satisfy `hash respects ==` pairwise, the hash-table model returns what the
association list under `==` returns -/
theorem run_refines (P : Val → Prop) (hP : ∀ a b, P a → P b → HashOK a b) :
    ∀ (ops : List MapOp) (m : HMap.Entries), (∀ e ∈ m, P e.1) → (∀ o ∈ ops, P (opKey o)) →
      runModel m ops = runSpec m ops := by
  intro ops
  induction ops with
  | nil => intros; rfl
  | cons o ops ih =>
    intro m hm ho
    have hk : P (opKey o) := ho o (List.mem_cons_self)
    have hrest : ∀ o' ∈ ops, P (opKey o') := fun o' h => ho o' (List.mem_cons_of_mem _ h)
    cases o with
    | get k =>
      simp only [runModel, runSpec]
      rw [get?_refines m k (fun e he => hP _ _ (hm e he) hk), ih m hm hrest]
    | insert k v =>
      simp only [runModel, runSpec]
      have hi := insert_refines m k v (fun e he => hP _ _ (hm e he) hk)
      rw [hi]
      have hm' : ∀ e ∈ (Spec.Assoc.insert m k v).1, P e.1 := by
        intro e he
        rcases insert_keys m k v e he with h | ⟨e', he', h⟩
        · rw [h]; exact hk
        · rw [← h]; exact hm e' he'
      rw [ih _ hm' hrest]

/-- instance: all keys float-free ⇒ unconditional refinement -/
theorem run_refines_floatfree (ops : List MapOp) (m : HMap.Entries)
    (hm : ∀ e ∈ m, floatFree e.1 = true) (ho : ∀ o ∈ ops, floatFree (opKey o) = true) :
    runModel m ops = runSpec m ops :=
  run_refines (fun v => floatFree v = true)
    (fun a b ha hb h => hash_respects_eq_floatfree a b ha hb h) ops m hm ho

/-- instance: any keys at all, given the IEEE fact -/
theorem run_refines_all (law : FloatLaw) (ops : List MapOp) (m : HMap.Entries) :
    runModel m ops = runSpec m ops :=
  run_refines (fun _ => True) (fun a b _ _ h => hash_respects_eq law a b h) ops m
    (fun _ _ => trivial) (fun _ _ => trivial)

/-- non-vacuity: a nested-array key and an integer key satisfy the float-free hypothesis and
an overwrite is observed through the model -/
example : floatFree (.arr 0 [.int 1, .str "a"]) = true ∧
    runModel [] [.insert (.int 1) (.int 7), .insert (.int 1) (.int 8), .get (.int 1)]
      = runSpec [] [.insert (.int 1) (.int 7), .insert (.int 1) (.int 8), .get (.int 1)] := by
  exact ⟨by decide, run_refines_floatfree _ _ (by simp) (by simp [opKey, floatFree])⟩

end P2sh.Props.C10
