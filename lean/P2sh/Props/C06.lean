import P2sh.Model.Ops
import P2sh.Spec.Ops
import P2sh.Proofs.IntLemmas
/-!
# C06 — truthiness follows the documented table

`Spec.falsey` is the documented table (false, 0, 0.0, null, '\0', b'\0', "", [], map {}).
`falsey_table` says `Object::is_falsey` (as modelled) is exactly that table, for every value.
`bang_is_table` lifts it to the `!` opcode.  The `&&` / `||` templates are in `Props/C06Logic`.
-/
namespace P2sh.Props.C06
open P2sh P2sh.Proofs

theorem char_eq_nul (c : Char) : (c == Char.ofNat 0) = decide (c.toNat = 0) := by
  by_cases h : c = Char.ofNat 0
  · subst h; decide
  · have : c.toNat ≠ 0 := by
      intro h'
      apply h
      apply Char.ext
      have : c.val.toNat = 0 := h'
      apply UInt32.toNat_inj.mp
      rw [this]; rfl
    simp [h, this]

theorem byte_eq_zero (b : UInt8) : (b == 0) = decide (b.toNat = 0) := by
  by_cases h : b = 0
  · subst h; decide
  · have : b.toNat ≠ 0 := fun h' => h (UInt8.toNat_inj.mp (by simpa using h'))
    simp [h, this]

theorem str_isEmpty (s : String) : s.isEmpty = decide (s = "") := by
  by_cases h : s = ""
  · subst h; decide
  · simp [h]

/-- **C06 truthiness table**: for every value, `is_falsey` holds exactly for the documented values -/
theorem falsey_table (v : Val) : v.isFalsey = Spec.falsey v := by
  cases v with
  | bool b => cases b <;> rfl
  | int n => simp [Val.isFalsey, Spec.falsey, i64_eq_zero]
  | float f => rfl
  | null => rfl
  | char c => simp [Val.isFalsey, Spec.falsey, char_eq_nul]
  | byte b => simp [Val.isFalsey, Spec.falsey, byte_eq_zero]
  | str s => simp [Val.isFalsey, Spec.falsey, str_isEmpty]
  | arr i xs => cases xs <;> rfl
  | map i kvs => cases kvs <;> rfl
  | _ => rfl

/-- the `!` opcode yields `true` exactly on the documented falsey values -/
theorem bang_is_table (v : Val) : unaryBang v = .ok (.bool (Spec.falsey v)) := by
  simp [unaryBang, falsey_table]

/-- every value is either falsey or truthy, never an error: the truthiness positions cannot fail -/
theorem bang_total (v : Val) : ∃ b, unaryBang v = .ok (.bool b) := ⟨_, bang_is_table v⟩

/-- non-vacuity: a falsey and a truthy representative of each container kind -/
example : Spec.falsey (.arr 3 []) = true ∧ Spec.falsey (.arr 3 [.null]) = false ∧
    Spec.falsey (.map 1 []) = true ∧ Spec.falsey (.str "") = true ∧ Spec.falsey (.builtin "len") = false := by
  decide

end P2sh.Props.C06
