import P2sh.Model.Code
/-!
# C14 — bytecode operands are encoded losslessly or the program is rejected

Codec half of the property (all opcodes, all operand values, no bound):

* `roundtrip`            — `read_operands (make op operands) = operands` whenever every operand
                           fits its declared width;
* `make_truncates`       — and exactly that hypothesis is needed: 65536 encodes as 0;
* `vm_reads_what_make_wrote` — each VM arm reads the layout DEFINITIONS declares and skips
                           exactly the operand bytes (checked over the *generated* tables);
* `fromU8_inverts_discriminant` — `Opcode::from(op as u8) = op` for every real opcode;
* `defined_iff_real`     — DEFINITIONS has a row exactly for the non-`Invalid` opcodes.

The compiler half ("a program that needs a wider operand is rejected") is in
`P2sh.Props.C14Compile` (stated over the compiler model).
-/
namespace P2sh.Props.C14
open P2sh.Code P2sh.Gen.Opcodes

/-! ## facts about the generated tables (re-checked whenever the source changes) -/

theorem makeArms_eq : makeArms = [(2, 2, 16), (1, 1, 8)] := by decide
theorem readArms_eq : readArms = [(2, 2), (1, 1)] := by decide

/-- every width declared in DEFINITIONS is 1 or 2 -/
theorem widths_supported : widths.all (fun r => r.2.all (fun w => w == 1 || w == 2)) = true := by decide

theorem widthsOf_supported {op ws} (h : widthsOf op = some ws) : ∀ w ∈ ws, w = 1 ∨ w = 2 := by
  have key : ∀ (tbl : List (Nat × List Nat)),
      tbl.all (fun r => r.2.all (fun w => w == 1 || w == 2)) = true →
      assoc op tbl = some ws → ∀ w ∈ ws, w = 1 ∨ w = 2 := by
    intro tbl
    induction tbl with
    | nil => intro _ h; simp [assoc] at h
    | cons r rest ih =>
      obtain ⟨k, v⟩ := r
      intro hall h w hw
      simp only [List.all_cons, Bool.and_eq_true] at hall
      simp only [assoc] at h
      split at h
      · cases h
        have := List.all_eq_true.mp hall.1 w hw
        simpa using this
      · exact ih hall.2 h w hw
  exact key widths widths_supported h

/-! ## big-endian round trip -/

theorem beValue_beBytes_1 (v : Nat) (h : v < 256) : beValue (beBytes 1 v) = v := by
  simp [beBytes, beValue]; omega

theorem beValue_beBytes_2 (v : Nat) (h : v < 65536) : beValue (beBytes 2 v) = v := by
  simp [beBytes, beValue]; omega

theorem encodeOperand_1 (o : Nat) : encodeOperand 1 o = some (beBytes 1 (o % 256)) := by
  simp [encodeOperand, makeArms_eq, assoc]

theorem encodeOperand_2 (o : Nat) : encodeOperand 2 o = some (beBytes 2 (o % 65536)) := by
  simp [encodeOperand, makeArms_eq, assoc]

/-- operand lists: decode ∘ encode = id, for any continuation `rest` of the byte stream -/
theorem readOperands_encodeOperands (ws : List Nat) :
    ∀ (os : List Nat) (rest : List Nat), os.length = ws.length →
      (∀ w ∈ ws, w = 1 ∨ w = 2) →
      (∀ i (h1 : i < os.length) (h2 : i < ws.length), fits ws[i] os[i]) →
      ∃ bs, encodeOperands os ws = .ok bs ∧ bs.length = ws.sum ∧
        readOperands ws (bs ++ rest) = .ok os ws.sum := by
  induction ws with
  | nil =>
    intro os rest hl _ _
    cases os with
    | nil => exact ⟨[], by simp [encodeOperands], by simp, by simp [readOperands]⟩
    | cons _ _ => simp at hl
  | cons w ws ih =>
    intro os rest hl hw hfit
    cases os with
    | nil => simp at hl
    | cons o os =>
      have hl' : os.length = ws.length := by simpa using hl
      obtain ⟨bs, hbs, hlen, hrd⟩ := ih os rest hl' (fun w' hw' => hw w' (List.mem_cons_of_mem _ hw'))
        (fun i h1 h2 => by
          have := hfit (i+1) (by simp; omega) (by simp; omega)
          simpa using this)
      have hfit0 : fits w o := hfit 0 (by simp) (by simp)
      rcases hw w (List.mem_cons_self) with rfl | rfl
      · refine ⟨beBytes 1 (o % 256) ++ bs, ?_, ?_, ?_⟩
        · simp [encodeOperands, encodeOperand_1, hbs]
        · simp [beBytes, hlen]; omega
        · have ho : o < 256 := by simpa [fits] using hfit0
          have hm : o % 256 = o := Nat.mod_eq_of_lt ho
          simp only [readOperands, readArms_eq, assoc]
          simp [beBytes, hm, hrd, beValue]
      · refine ⟨beBytes 2 (o % 65536) ++ bs, ?_, ?_, ?_⟩
        · simp [encodeOperands, encodeOperand_2, hbs]
        · simp [beBytes, hlen]; omega
        · have ho : o < 65536 := by simpa [fits] using hfit0
          have hm : o % 65536 = o := Nat.mod_eq_of_lt ho
          simp only [readOperands, readArms_eq, assoc]
          simp [beBytes, hm, hrd, beValue]
          have h1 : ¬ (bs.length + rest.length + 1 + 1 < 2) := by omega
          have h2 : o / 256 % 256 * 256 + o % 256 = o := by omega
          simp [h1, h2]

/-- **C14 codec round trip.** For every opcode with a DEFINITIONS row and every operand
list whose operands fit the declared widths, `make` produces `op :: bytes` and
`read_operands` on those bytes returns exactly the operands and the operand byte count. -/
theorem roundtrip (op : Nat) (ws os : List Nat)
    (hdef : widthsOf op = some ws) (hlen : os.length = ws.length)
    (hfit : ∀ i (h1 : i < os.length) (h2 : i < ws.length), fits ws[i] os[i]) :
    ∃ bs, make op os = .ok (op :: bs) ∧ bs.length = ws.sum ∧
      readOperands ws bs = .ok os ws.sum := by
  obtain ⟨bs, h1, h2, h3⟩ := readOperands_encodeOperands ws os [] hlen (widthsOf_supported hdef) hfit
  refine ⟨bs, ?_, h2, by simpa using h3⟩
  simp [make, hdef, h1]

/-- the length `make` gives to `lines` equals the length of the code it produces -/
theorem make_lines_aligned (op : Nat) (ws os : List Nat)
    (hdef : widthsOf op = some ws) (hlen : os.length = ws.length)
    (hfit : ∀ i (h1 : i < os.length) (h2 : i < ws.length), fits ws[i] os[i]) :
    ∃ bytes, make op os = .ok bytes ∧ bytes.length = makeLinesLen op := by
  obtain ⟨bs, h1, h2, _⟩ := roundtrip op ws os hdef hlen hfit
  exact ⟨op :: bs, h1, by simp [makeLinesLen, hdef, h2]; omega⟩

/-- non-vacuity: `Closure 513 3` meets the hypotheses and round-trips -/
example : make 34 [513, 3] = .ok [34, 2, 1, 3] ∧ readOperands [2, 1] [2, 1, 3] = .ok [513, 3] 3 := by
  decide

/-- the `fits` hypothesis is exactly what is needed: `make` silently truncates (`as u16`) -/
theorem make_truncates : make 0 [65536] = make 0 [0] ∧ make 30 [256] = make 30 [0] := by decide

/-! ## the VM reads what `make` wrote -/

/-- every arm of the VM's dispatch loop reads the operand layout DEFINITIONS declares and,
unless it transfers control itself, advances `ip` by exactly the operand bytes -/
theorem vm_reads_what_make_wrote : vmArms.all vmArmConsistent = true := by decide

/-- `Call` leaves `ip` behind the one-byte operand in both callee kinds -/
theorem call_advance : callFuncAdvance = 1 + ((widthsOf 26).getD []).sum ∧
    callBuiltinAdvance = 1 + ((widthsOf 26).getD []).sum := by decide

/-- every real opcode has a VM arm -/
theorem vm_arm_for_every_opcode :
    (List.range invalidCode).all (fun op => (assoc op vmArms).isSome) = true := by decide

/-- `Opcode::from(op as u8) = op` for every opcode below `Invalid` -/
theorem fromU8_inverts_discriminant :
    (List.range invalidCode).all (fun op => opOfByte op == op) = true := by decide

/-- all other bytes decode to `Invalid` -/
theorem fromU8_rest_invalid :
    (List.range 256).all (fun b => b < invalidCode || opOfByte b == invalidCode) = true := by decide +kernel

/-- DEFINITIONS has a row exactly for the real opcodes -/
theorem defined_iff_real :
    (List.range 256).all (fun op => (widthsOf op).isSome == decide (op < invalidCode)) = true := by decide +kernel

theorem names_count : names.length = invalidCode + 1 := by decide

/-- consequence used by the VM model: decoding the VM's way equals `read_operands` -/
theorem vm_decode_eq_readOperands :
    (List.range invalidCode).all (fun op =>
      match assoc op vmArms, widthsOf op with
      | some (reads, _, _), some ws => reads == layout ws
      | _, _ => false) = true := by decide

end P2sh.Props.C14
