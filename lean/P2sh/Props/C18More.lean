import P2sh.Model.Proto
import P2sh.Spec.Rfc
import P2sh.Props.C18
/-!
# C18, continued — the model's parsers against the reference parsers

For every text (not only the renderings of addresses):

* `mac_reference_standard`, `v4_reference_standard`, `v6_reference_standard` — a text the reference parser
  (`Spec.Rfc.parseMac` / `parseV4` / `parseV6`) calls standard with groups `gs` is accepted by the model's `from_str`
  with exactly those groups.  For IPv6 this covers form 1 and every position and length of the `::` of form 2
  (`v6_accepts_all` is the instance for texts built from group lists).
* `mac_reference_bad`, `v4_reference_bad`, `v6_reference_bad` — the other direction of the statement: a text the reference
  parser calls `.bad` (wrong number of groups, a group out of range, for IPv6 also a `::` standing for no group or a
  second `::`) is refused by the model's `from_str`.  With the `.std` direction this pins the model to the reference
  wherever the reference speaks; only `.any` texts (signs, stray separators, superfluous zeros …) are left open.
* Underneath: `split_eq_splitOn` (the reference's splitter is `str::split`), `countDouble_zero_find` /
  `countDouble_pos_find` (the reference's scan for `::` is `str::find`), `hex_digit` / `dec_digit` (every character the
  reference takes for a digit is one for `from_str_radix`, with the same value), `parseUnsigned_good`.
-/
open P2sh P2sh.Proto P2sh.Spec
namespace P2sh.Props.C18

theorem hex_digit (c : Char) (h : Rfc.isHex c = true) : digitVal c = some (Rfc.hexVal c) ∧ Rfc.hexVal c < 16 := by
  simp only [Rfc.isHex, Bool.or_eq_true, Bool.and_eq_true, decide_eq_true_eq, Char.le_def, UInt32.le_iff_toNat_le] at h
  simp only [digitVal, Rfc.hexVal, Char.le_def, UInt32.le_iff_toNat_le, Char.toNat]
  have e0 : ('0' : Char).val.toNat = 48 := by decide
  have e9 : ('9' : Char).val.toNat = 57 := by decide
  have ea : ('a' : Char).val.toNat = 97 := by decide
  have ef : ('f' : Char).val.toNat = 102 := by decide
  have eA : ('A' : Char).val.toNat = 65 := by decide
  have eF : ('F' : Char).val.toNat = 70 := by decide
  simp only [e0, e9, ea, ef, eA, eF] at h ⊢
  generalize c.val.toNat = n at *
  rcases h with (h | h) | h
  · simp [h]; omega
  · have c1 : ¬ (48 ≤ n ∧ n ≤ 57) := by omega
    have c2 : 97 ≤ n ∧ n ≤ 122 := by omega
    simp [c1, c2, h]; omega
  · have c1 : ¬ (48 ≤ n ∧ n ≤ 57) := by omega
    have c2 : ¬ (97 ≤ n ∧ n ≤ 122) := by omega
    have c3 : ¬ (97 ≤ n ∧ n ≤ 102) := by omega
    have c4 : 65 ≤ n ∧ n ≤ 90 := by omega
    simp [c1, c2, c3, c4]; omega

theorem dec_digit (c : Char) (h : Rfc.isDec c = true) : digitVal c = some (Rfc.hexVal c) ∧ Rfc.hexVal c < 10 := by
  simp only [Rfc.isDec, Bool.and_eq_true, decide_eq_true_eq, Char.le_def, UInt32.le_iff_toNat_le] at h
  simp only [digitVal, Rfc.hexVal, Char.le_def, UInt32.le_iff_toNat_le, Char.toNat]
  have e0 : ('0' : Char).val.toNat = 48 := by decide
  have e9 : ('9' : Char).val.toNat = 57 := by decide
  simp only [e0, e9] at h ⊢
  generalize c.val.toNat = n at *
  simp [h]; omega

/-- a character the group parser takes as a digit of this radix, with the reference's value -/
def GoodDigit (radix : Nat) (c : Char) : Prop := digitVal c = some (Rfc.hexVal c) ∧ Rfc.hexVal c < radix

theorem digitsVal_good (radix : Nat) : ∀ (g : List Char) (acc : Nat), (∀ c ∈ g, GoodDigit radix c) →
    digitsVal radix g acc = some (g.foldl (fun a c => a * radix + Rfc.hexVal c) acc) := by
  intro g
  induction g with
  | nil => intro acc _; rfl
  | cons c cs ih =>
    intro acc h
    obtain ⟨h1, h2⟩ := h c (by simp)
    simp only [digitsVal, h1, h2, if_true, List.foldl]
    exact ih _ (fun x hx => h x (by simp [hx]))

/-- **a group of good digits whose value is within the type parses to the reference's value** -/
theorem parseUnsigned_good (radix max : Nat) (g : List Char) (hne : g ≠ []) (h : ∀ c ∈ g, GoodDigit radix c)
    (hmax : Rfc.numOf radix g ≤ max) : parseUnsigned radix max g = some (Rfc.numOf radix g) := by
  cases g with
  | nil => exact absurd rfl hne
  | cons c cs =>
    have hc := (h c (by simp)).1
    have hp : c ≠ '+' := by intro e; subst e; simp [digitVal] at hc
    have hm : c ≠ '-' := by intro e; subst e; simp [digitVal] at hc
    rw [parseUnsigned_nosign _ _ _ _ hp hm, checkDigits, digitsVal_good radix _ 0 h]
    simp only [Rfc.numOf, List.foldl, Nat.zero_mul, Nat.zero_add] at hmax ⊢
    simp [hmax]

theorem parseAll_good (radix max : Nat) (gs : List (List Char))
    (h : ∀ g ∈ gs, g ≠ [] ∧ (∀ c ∈ g, GoodDigit radix c) ∧ Rfc.numOf radix g ≤ max) :
    parseAll radix max gs = some (gs.map (Rfc.numOf radix)) := by
  induction gs with
  | nil => rfl
  | cons g rest ih =>
    obtain ⟨h1, h2, h3⟩ := h g (by simp)
    simp [parseAll, parseUnsigned_good radix max g h1 h2 h3, ih (fun x hx => h x (by simp [hx]))]

/-! ## the two splitters -/

def prependHead (p : List Char) : List (List Char) → List (List Char)
  | [] => [p]
  | h :: t => (p ++ h) :: t

theorem splitOn_cons (sep : Char) (s : List Char) : ∃ h t, splitOn sep s = h :: t := by
  cases s with
  | nil => exact ⟨[], [], rfl⟩
  | cons c cs =>
    simp only [splitOn]
    split
    · exact ⟨_, _, rfl⟩
    · split <;> exact ⟨_, _, rfl⟩

theorem split_fold (sep : Char) : ∀ (s cur : List Char) (acc : List (List Char)),
    (let st := s.foldl (fun (st : List Char × List (List Char)) c =>
        if c = sep then ([], st.1.reverse :: st.2) else (c :: st.1, st.2)) (cur, acc)
     (st.1.reverse :: st.2).reverse) = acc.reverse ++ prependHead cur.reverse (splitOn sep s) := by
  intro s
  induction s with
  | nil => intro cur acc; simp [splitOn, prependHead]
  | cons c cs ih =>
    intro cur acc
    simp only [List.foldl]
    by_cases hc : c = sep
    · simp only [hc, if_true]
      have := ih [] (cur.reverse :: acc)
      simp only at this
      rw [this]
      simp only [splitOn, if_true]
      obtain ⟨h, t, e⟩ := splitOn_cons sep cs
      simp [e, prependHead]
    · simp only [hc, if_false]
      have := ih (c :: cur) acc
      simp only at this
      rw [this]
      simp only [splitOn, hc, if_false]
      obtain ⟨h, t, e⟩ := splitOn_cons sep cs
      simp [e, prependHead]

/-- **the reference's splitter and `str::split` give the same segments** -/
theorem split_eq_splitOn (sep : Char) (s : List Char) : Rfc.split sep s = splitOn sep s := by
  have := split_fold sep s [] []
  simp only [List.reverse_nil, List.nil_append] at this
  unfold Rfc.split
  simp only
  rw [this]
  obtain ⟨h, t, e⟩ := splitOn_cons sep s
  simp [e, prependHead]

theorem splitOn_mem (sep : Char) : ∀ (s g : List Char), g ∈ splitOn sep s → ∀ c ∈ g, c ∈ s ∧ c ≠ sep := by
  intro s
  induction s with
  | nil => intro g hg c hc; simp [splitOn] at hg; subst hg; cases hc
  | cons x xs ih =>
    intro g hg c hc
    simp only [splitOn] at hg
    by_cases hx : x = sep
    · simp only [hx, if_true, List.mem_cons] at hg
      rcases hg with rfl | hg
      · cases hc
      · have := ih g hg c hc; exact ⟨by simp [this.1], this.2⟩
    · simp only [hx, if_false] at hg
      cases hsp : splitOn sep xs with
      | nil =>
        simp only [hsp, List.mem_singleton] at hg
        subst hg; simp at hc; subst hc; exact ⟨by simp, hx⟩
      | cons h t =>
        simp only [hsp, List.mem_cons] at hg
        rcases hg with rfl | hg
        · simp only [List.mem_cons] at hc
          rcases hc with rfl | hc
          · exact ⟨by simp, hx⟩
          · have := ih h (by simp [hsp]) c hc; exact ⟨by simp [this.1], this.2⟩
        · have := ih g (by simp [hsp, hg]) c hc; exact ⟨by simp [this.1], this.2⟩


/-! ## where the `::` is: the reference's scan and `str::find` -/

theorem head_colon (l : List Char) (h : l.head? = some ':') : ∃ r, l = ':' :: r := by
  cases l with
  | nil => simp at h
  | cons d r => simp at h; subst h; exact ⟨r, rfl⟩

theorem countDouble_step (c : Char) (l : List Char) (h : c ≠ ':' ∨ l.head? ≠ some ':') :
    Rfc.countDouble (c :: l) = Rfc.countDouble l := by
  rw [Rfc.countDouble.eq_def]
  split
  · rename_i heq; simp at heq; obtain ⟨rfl, rfl⟩ := heq; simp at h
  · rename_i heq; simp at heq; obtain ⟨rfl, rfl⟩ := heq; rfl
  · rename_i heq; simp at heq

theorem cutDouble_step (acc : List Char) (c : Char) (l : List Char) (h : c ≠ ':' ∨ l.head? ≠ some ':') :
    Rfc.cutDouble acc (c :: l) = Rfc.cutDouble (c :: acc) l := by
  rw [Rfc.cutDouble.eq_def]
  split
  · rename_i heq; simp at heq; obtain ⟨rfl, rfl⟩ := heq; simp at h
  · rename_i heq; simp at heq; obtain ⟨rfl, rfl⟩ := heq; rfl
  · rename_i heq; simp at heq

theorem hasTriple_step (c : Char) (l : List Char) (h : c ≠ ':' ∨ l.head? ≠ some ':') :
    Rfc.hasTriple (c :: l) = Rfc.hasTriple l := by
  rw [Rfc.hasTriple.eq_def]
  split
  · rename_i heq; simp at heq; obtain ⟨rfl, rfl⟩ := heq; simp at h
  · rename_i heq; simp at heq; obtain ⟨rfl, rfl⟩ := heq; rfl
  · rename_i heq; simp at heq

theorem countDouble_zero_find : ∀ (s acc : List Char), Rfc.countDouble s = 0 → findDouble acc s = none := by
  intro s
  induction s with
  | nil => intro acc _; simp [findDouble]
  | cons c l ih =>
    intro acc h
    by_cases hd : c = ':' ∧ l.head? = some ':'
    · obtain ⟨rfl, hl⟩ := hd
      obtain ⟨r, rfl⟩ := head_colon l hl
      simp [Rfc.countDouble] at h
    · have hd' : c ≠ ':' ∨ l.head? ≠ some ':' := by
        by_cases hc : c = ':'
        · right; intro e; exact hd ⟨hc, e⟩
        · left; exact hc
      rw [countDouble_step c l hd'] at h
      rw [findDouble_step acc c l hd']
      exact ih _ h

theorem countDouble_pos_find : ∀ (s acc : List Char), Rfc.countDouble s ≠ 0 →
    findDouble acc s = some (Rfc.cutDouble acc s) := by
  intro s
  induction s with
  | nil => intro acc h; simp [Rfc.countDouble] at h
  | cons c l ih =>
    intro acc h
    by_cases hd : c = ':' ∧ l.head? = some ':'
    · obtain ⟨rfl, hl⟩ := hd
      obtain ⟨r, rfl⟩ := head_colon l hl
      simp [findDouble, Rfc.cutDouble]
    · have hd' : c ≠ ':' ∨ l.head? ≠ some ':' := by
        by_cases hc : c = ':'
        · right; intro e; exact hd ⟨hc, e⟩
        · left; exact hc
      rw [countDouble_step c l hd'] at h
      rw [findDouble_step acc c l hd', cutDouble_step acc c l hd']
      exact ih _ h

/-- both halves of the cut consist of characters of the text -/
theorem cutDouble_mem : ∀ (s acc : List Char),
    (∀ c ∈ (Rfc.cutDouble acc s).1, c ∈ acc ∨ c ∈ s) ∧ (∀ c ∈ (Rfc.cutDouble acc s).2, c ∈ s) := by
  intro s
  induction s with
  | nil => intro acc; simp [Rfc.cutDouble]
  | cons c l ih =>
    intro acc
    by_cases hd : c = ':' ∧ l.head? = some ':'
    · obtain ⟨rfl, hl⟩ := hd
      obtain ⟨r, rfl⟩ := head_colon l hl
      simp only [Rfc.cutDouble]
      refine ⟨fun x hx => Or.inl (by simpa using hx), fun x hx => by simp [hx]⟩
    · have hd' : c ≠ ':' ∨ l.head? ≠ some ':' := by
        by_cases hc : c = ':'
        · right; intro e; exact hd ⟨hc, e⟩
        · left; exact hc
      rw [cutDouble_step acc c l hd']
      obtain ⟨h1, h2⟩ := ih (c :: acc)
      refine ⟨fun x hx => ?_, fun x hx => by simp [h2 x hx]⟩
      rcases h1 x hx with h | h
      · simp only [List.mem_cons] at h
        rcases h with rfl | h
        · right; simp
        · left; exact h
      · right; simp [h]


/-! ## standard texts -/

/-- the segments of a text all of whose characters are digits or the separator consist of digits -/
theorem groups_good (radix : Nat) (isDig : Char → Bool) (sep : Char) (s : List Char)
    (hd : ∀ c, isDig c = true → GoodDigit radix c)
    (hall : s.all (fun c => isDig c || decide (c = sep)) = true) :
    ∀ g ∈ splitOn sep s, ∀ c ∈ g, GoodDigit radix c := by
  intro g hg c hc
  obtain ⟨hcs, hne⟩ := splitOn_mem sep s g hg c hc
  have := List.all_eq_true.mp hall c hcs
  simp only [Bool.or_eq_true, decide_eq_true_eq] at this
  rcases this with h | h
  · exact hd c h
  · exact absurd h hne

theorem filter_nonempty_self (G : List (List Char)) (h : (G.filter (fun g => !g.isEmpty)).length = G.length) :
    G.filter (fun g => !g.isEmpty) = G ∧ ∀ g ∈ G, g ≠ [] := by
  have hall := List.length_filter_eq_length_iff.mp h
  refine ⟨List.filter_eq_self.mpr hall, ?_⟩
  intro g hg e
  have := hall g hg
  simp [e] at this

/-- **MAC: the model accepts every text the reference calls standard, with the reference's value** -/
theorem mac_reference_standard (s : List Char) (gs : List Nat) (h : Rfc.parseMac s = .std gs) : parseMac s = some gs := by
  simp only [Rfc.parseMac, split_eq_splitOn] at h
  split at h
  · cases h
  · rename_i hchars
    split at h
    · cases h
    · rename_i hlen
      split at h
      · cases h
      · rename_i hwide
        split at h
        · rename_i hstd
          obtain ⟨hfe, hne⟩ := filter_nonempty_self (splitOn ':' s) (by omega)
          rw [hfe] at h hwide
          have hgs : gs = (splitOn ':' s).map (Rfc.numOf 16) := by cases h; rfl
          have hchars' : s.all (fun c => Rfc.isHex c || decide (c = ':')) = true := by
            cases hb : s.all (fun c => Rfc.isHex c || decide (c = ':')) with
            | true => rfl
            | false => rw [hb] at hchars; exact absurd rfl hchars
          have hgood := groups_good 16 Rfc.isHex ':' s (fun c hc => hex_digit c hc) hchars'
          have hw : ∀ g ∈ splitOn ':' s, Rfc.numOf 16 g ≤ 255 := by
            intro g hg
            have := hwide
            simp only [List.any_eq_true, not_exists, not_and, decide_eq_true_eq] at this
            have := this g hg; omega
          simp only [parseMac, hstd.1]
          rw [hgs]
          simpa using parseAll_good 16 255 _ (fun g hg => ⟨hne g hg, hgood g hg, hw g hg⟩)
        · cases h

/-- **IPv4: the model accepts every text the reference calls standard, with the reference's value** -/
theorem v4_reference_standard (s : List Char) (gs : List Nat) (h : Rfc.parseV4 s = .std gs) : parseV4 s = some gs := by
  simp only [Rfc.parseV4, split_eq_splitOn] at h
  split at h
  · cases h
  · rename_i hchars
    split at h
    · cases h
    · rename_i hlen
      split at h
      · cases h
      · rename_i hwide
        split at h
        · rename_i hstd
          obtain ⟨hfe, hne⟩ := filter_nonempty_self (splitOn '.' s) (by omega)
          rw [hfe] at h hwide
          have hgs : gs = (splitOn '.' s).map (Rfc.numOf 10) := by cases h; rfl
          have hchars' : s.all (fun c => Rfc.isDec c || decide (c = '.')) = true := by
            cases hb : s.all (fun c => Rfc.isDec c || decide (c = '.')) with
            | true => rfl
            | false => rw [hb] at hchars; exact absurd rfl hchars
          have hgood := groups_good 10 Rfc.isDec '.' s (fun c hc => dec_digit c hc) hchars'
          have hw : ∀ g ∈ splitOn '.' s, Rfc.numOf 10 g ≤ 255 := by
            intro g hg
            have := hwide
            simp only [List.any_eq_true, not_exists, not_and, decide_eq_true_eq] at this
            have := this g hg; omega
          simp only [parseV4, hstd.1]
          rw [hgs]
          simpa using parseAll_good 10 255 _ (fun g hg => ⟨hne g hg, hgood g hg, hw g hg⟩)
        · cases h

/-- one side of the `::` (or the whole text): the reference's groups, none empty and none beyond 16 bits, are what the
model's group parser yields -/
theorem v6GroupsOf_good (t : List Char) (hchars : ∀ c ∈ t, Rfc.isHex c = true ∨ c = ':')
    (hne : ∀ g ∈ Rfc.groupsOf t, g ≠ []) (hw : ∀ g ∈ Rfc.groupsOf t, Rfc.numOf 16 g ≤ 65535) :
    v6GroupsOf t = some ((Rfc.groupsOf t).map (Rfc.numOf 16)) := by
  by_cases he : t.isEmpty = true
  · simp [v6GroupsOf, Rfc.groupsOf, he]
  · simp only [Rfc.groupsOf, he, split_eq_splitOn, if_false, Bool.false_eq_true] at hne hw ⊢
    simp only [v6GroupsOf, he, if_false, Bool.false_eq_true]
    have hall : t.all (fun c => Rfc.isHex c || decide (c = ':')) = true := by
      rw [List.all_eq_true]; intro c hc
      rcases hchars c hc with h | h <;> simp [h]
    have hgood := groups_good 16 Rfc.isHex ':' t (fun c hc => hex_digit c hc) hall
    exact parseAll_good 16 65535 _ (fun g hg => ⟨hne g hg, hgood g hg, hw g hg⟩)

theorem groupsOf_length_pos (t : List Char) (h : (Rfc.groupsOf t).length ≠ 0) : t.isEmpty = false := by
  cases t with
  | nil => simp [Rfc.groupsOf] at h
  | cons _ _ => rfl

/-- **IPv6: the model's parser is the reference parser on every text the reference calls standard** — form 1 and
form 2 with the `::` at any position, standing for any number (≥ 1) of zero groups, groups of 1–4 digits of either case -/
theorem v6_reference_standard (s : List Char) (gs : List Nat) (h : Rfc.parseV6 s = .std gs) : parseV6 s = some gs := by
  simp only [Rfc.parseV6] at h
  split at h
  · cases h
  · rename_i hchars
    have hchars' : ∀ c ∈ s, Rfc.isHex c = true ∨ c = ':' := by
      intro c hc
      have : s.all (fun c => Rfc.isHex c || decide (c = ':')) = true := by
        cases hb : s.all (fun c => Rfc.isHex c || decide (c = ':')) with
        | true => rfl
        | false => rw [hb] at hchars; exact absurd rfl hchars
      simpa using List.all_eq_true.mp this c hc
    split at h
    · cases h
    · split at h
      · -- no `::`
        rename_i hcount
        rw [split_eq_splitOn] at h
        split at h
        · cases h
        · rename_i hlen
          split at h
          · cases h
          · rename_i hwide
            split at h
            · rename_i hstd
              obtain ⟨hfe, hne⟩ := filter_nonempty_self (splitOn ':' s) (by omega)
              rw [hfe] at h hwide
              have hgs : gs = (splitOn ':' s).map (Rfc.numOf 16) := by cases h; rfl
              have hsne : s.isEmpty = false := by
                cases s with
                | nil => simp [splitOn] at hstd
                | cons _ _ => rfl
              have hgo : Rfc.groupsOf s = splitOn ':' s := by simp [Rfc.groupsOf, hsne, split_eq_splitOn]
              have hw : ∀ g ∈ Rfc.groupsOf s, Rfc.numOf 16 g ≤ 65535 := by
                intro g hg
                rw [hgo] at hg
                have := hwide
                simp only [List.any_eq_true, not_exists, not_and, decide_eq_true_eq] at this
                have := this g hg; omega
              have hv := v6GroupsOf_good s hchars' (by rw [hgo]; exact hne) hw
              simp only [parseV6, countDouble_zero_find s [] hcount, hv, hgo, List.length_map, hstd.1, hgs]
              simp
            · cases h
      · -- one `::`
        rename_i hcount
        cases hcut : Rfc.cutDouble [] s with
        | mk l r =>
          simp only [hcut] at h
          split at h
          · cases h
          · rename_i hempty
            split at h
            · cases h
            · rename_i hmany
              split at h
              · cases h
              · rename_i hwide
                split at h
                · rename_i hplain
                  have hgs : gs = (Rfc.groupsOf l).map (Rfc.numOf 16) ++
                      List.replicate (8 - (Rfc.groupsOf l).length - (Rfc.groupsOf r).length) 0 ++
                      (Rfc.groupsOf r).map (Rfc.numOf 16) := by cases h; rfl
                  have hmem := cutDouble_mem s []
                  rw [hcut] at hmem
                  have hl : ∀ c ∈ l, Rfc.isHex c = true ∨ c = ':' := by
                    intro c hc; rcases hmem.1 c hc with h' | h'
                    · cases h'
                    · exact hchars' c h'
                  have hr : ∀ c ∈ r, Rfc.isHex c = true ∨ c = ':' := fun c hc => hchars' c (hmem.2 c hc)
                  simp only [Bool.or_eq_true, List.any_eq_true, not_or, not_exists, not_and] at hempty
                  simp only [List.any_append, Bool.or_eq_true, List.any_eq_true, not_or, not_exists, not_and,
                    decide_eq_true_eq] at hwide
                  have hvl := v6GroupsOf_good l hl (fun g hg e => by have := hempty.1 g hg; simp [e] at this)
                    (fun g hg => by have := hwide.1 g hg; omega)
                  have hvr := v6GroupsOf_good r hr (fun g hg e => by have := hempty.2 g hg; simp [e] at this)
                    (fun g hg => by have := hwide.2 g hg; omega)
                  have hfind : findDouble [] s = some (l, r) := by
                    rw [countDouble_pos_find s [] (by omega), hcut]
                  simp only [parseV6, hfind, hvl, hvr, List.length_map, hgs]
                  simp [hmany]
                · cases h
      · cases h

/-- `::1`, `1::`, `fe80::A:0b`, a full form with mixed case: standard for the reference, accepted with the same value -/
example : Rfc.parseV6 "::1".toList = .std [0, 0, 0, 0, 0, 0, 0, 1] ∧ Rfc.parseV6 "1::".toList = .std [1, 0, 0, 0, 0, 0, 0, 0] ∧
    Rfc.parseV6 "fe80::A:0b".toList = .std [0xfe80, 0, 0, 0, 0, 0, 10, 11] ∧
    Rfc.parseV6 "1:2:3:4:5:6:7:aBcD".toList = .std [1, 2, 3, 4, 5, 6, 7, 0xabcd] := by decide

example : parseV6 "fe80::A:0b".toList = some [0xfe80, 0, 0, 0, 0, 0, 10, 11] :=
  v6_reference_standard _ _ (by decide)

example : parseMac "00:1b:2C:ff:0a:99".toList = some [0, 0x1b, 0x2c, 0xff, 0x0a, 0x99] :=
  mac_reference_standard _ _ (by decide)

example : parseV4 "192.168.0.255".toList = some [192, 168, 0, 255] :=
  v4_reference_standard _ _ (by decide)

/-- `v6_accepts_all`'s texts with the reference: whenever the reference calls the joined text standard, both give the
same groups (the combined statement for texts built from group lists) -/
theorem v6_accepts_all_is_reference (pre post : List (List Char)) (gs : List Nat)
    (h : Rfc.parseV6 (joinSep ':' pre ++ ':' :: ':' :: joinSep ':' post) = .std gs) :
    parseV6 (joinSep ':' pre ++ ':' :: ':' :: joinSep ':' post) = some gs :=
  v6_reference_standard _ _ h


/-! ## rejected texts: what the reference calls `.bad` the model refuses -/

/-- a group of good digits the group parser accepts is not empty and its reference value is within the type -/
theorem parseUnsigned_some_good (radix max : Nat) (g : List Char) (h : ∀ c ∈ g, GoodDigit radix c)
    (hs : parseUnsigned radix max g ≠ none) : g ≠ [] ∧ Rfc.numOf radix g ≤ max := by
  cases g with
  | nil => simp [parseUnsigned] at hs
  | cons c cs =>
    refine ⟨by simp, ?_⟩
    have hc := (h c (by simp)).1
    have hp : c ≠ '+' := by intro e; subst e; simp [digitVal] at hc
    have hm : c ≠ '-' := by intro e; subst e; simp [digitVal] at hc
    rw [parseUnsigned_nosign _ _ _ _ hp hm, checkDigits, digitsVal_good radix _ 0 h] at hs
    simp only [Rfc.numOf]
    by_cases hle : List.foldl (fun a c => a * radix + Rfc.hexVal c) 0 (c :: cs) ≤ max
    · exact hle
    · simp only [if_neg hle] at hs; exact absurd rfl hs

/-- accepted group lists: as many values as groups, no empty group, every reference value within the type -/
theorem parseAll_some_good (radix max : Nat) (G : List (List Char)) (vs : List Nat)
    (h : parseAll radix max G = some vs) (hd : ∀ g ∈ G, ∀ c ∈ g, GoodDigit radix c) :
    vs.length = G.length ∧ ∀ g ∈ G, g ≠ [] ∧ Rfc.numOf radix g ≤ max := by
  refine ⟨parseAll_length radix max G vs h, fun g hg => ?_⟩
  apply parseUnsigned_some_good radix max g (hd g hg)
  intro hb
  rw [parseAll_none_of_mem radix max G g hg hb] at h
  cases h

theorem all_chars (isDig : Char → Bool) (sep : Char) (s : List Char)
    (h : ¬ (!s.all (fun c => isDig c || decide (c = sep))) = true) :
    s.all (fun c => isDig c || decide (c = sep)) = true := by
  cases hb : s.all (fun c => isDig c || decide (c = sep)) with
  | true => rfl
  | false => rw [hb] at h; exact absurd rfl h

theorem filter_nonempty_of_ne (G : List (List Char)) (h : ∀ g ∈ G, g ≠ []) : G.filter (fun g => !g.isEmpty) = G := by
  apply List.filter_eq_self.mpr
  intro g hg
  have := h g hg
  cases g with
  | nil => exact absurd rfl this
  | cons _ _ => rfl

theorem not_any_wide (radix max : Nat) (G : List (List Char)) (h : ∀ g ∈ G, g ≠ [] ∧ Rfc.numOf radix g ≤ max) :
    G.any (fun g => decide (Rfc.numOf radix g > max)) = false := by
  rw [List.any_eq_false]
  intro g hg
  have := (h g hg).2
  simp; omega

/-- **MAC: a text the reference calls bad (wrong number of groups, or a group beyond one octet) is refused** -/
theorem mac_reference_bad (s : List Char) (h : Rfc.parseMac s = .bad) : parseMac s = none := by
  cases hp : parseMac s with
  | none => rfl
  | some vs =>
    exfalso
    simp only [Rfc.parseMac, split_eq_splitOn] at h
    split at h
    · cases h
    · rename_i hchars
      have hgood := groups_good 16 Rfc.isHex ':' s (fun c hc => hex_digit c hc) (all_chars _ _ _ hchars)
      simp only [parseMac] at hp
      split at hp
      · cases hp
      · rename_i hlen
        obtain ⟨_, hg⟩ := parseAll_some_good 16 255 _ vs hp hgood
        rw [filter_nonempty_of_ne _ (fun g hg' => (hg g hg').1), not_any_wide 16 255 _ hg] at h
        simp only [Decidable.not_not] at hlen
        simp [hlen] at h
        split at h <;> cases h

/-- **IPv4: a text the reference calls bad is refused** -/
theorem v4_reference_bad (s : List Char) (h : Rfc.parseV4 s = .bad) : parseV4 s = none := by
  cases hp : parseV4 s with
  | none => rfl
  | some vs =>
    exfalso
    simp only [Rfc.parseV4, split_eq_splitOn] at h
    split at h
    · cases h
    · rename_i hchars
      have hgood := groups_good 10 Rfc.isDec '.' s (fun c hc => dec_digit c hc) (all_chars _ _ _ hchars)
      simp only [parseV4] at hp
      split at hp
      · cases hp
      · rename_i hlen
        obtain ⟨_, hg⟩ := parseAll_some_good 10 255 _ vs hp hgood
        rw [filter_nonempty_of_ne _ (fun g hg' => (hg g hg').1), not_any_wide 10 255 _ hg] at h
        simp only [Decidable.not_not] at hlen
        simp [hlen] at h
        split at h <;> cases h


/-- one side of a `::` (or a whole text) the model's group parser accepts: as many values as the reference has groups,
no empty group, none beyond 16 bits -/
theorem v6GroupsOf_some_good (t : List Char) (vs : List Nat) (hchars : ∀ c ∈ t, Rfc.isHex c = true ∨ c = ':')
    (h : v6GroupsOf t = some vs) :
    vs.length = (Rfc.groupsOf t).length ∧ ∀ g ∈ Rfc.groupsOf t, g ≠ [] ∧ Rfc.numOf 16 g ≤ 65535 := by
  by_cases he : t.isEmpty = true
  · simp only [v6GroupsOf, he, if_true] at h
    cases h
    simp [Rfc.groupsOf, he]
  · simp only [v6GroupsOf, he, if_false, Bool.false_eq_true] at h
    simp only [Rfc.groupsOf, he, split_eq_splitOn, if_false, Bool.false_eq_true]
    have hall : t.all (fun c => Rfc.isHex c || decide (c = ':')) = true := by
      rw [List.all_eq_true]; intro c hc
      rcases hchars c hc with h | h <;> simp [h]
    exact parseAll_some_good 16 65535 _ vs h (groups_good 16 Rfc.isHex ':' t (fun c hc => hex_digit c hc) hall)

/-- a text containing `::` has an empty segment after its first one -/
theorem empty_segment_of_double : ∀ r : List Char, Rfc.countDouble r ≠ 0 → [] ∈ (splitOn ':' r).tail := by
  intro r
  induction r with
  | nil => intro h; simp [Rfc.countDouble] at h
  | cons c l ih =>
    intro h
    by_cases hd : c = ':' ∧ l.head? = some ':'
    · obtain ⟨rfl, hl⟩ := hd
      obtain ⟨r, rfl⟩ := head_colon l hl
      simp [splitOn]
    · have hd' : c ≠ ':' ∨ l.head? ≠ some ':' := by
        by_cases hc : c = ':'
        · right; intro e; exact hd ⟨hc, e⟩
        · left; exact hc
      rw [countDouble_step c l hd'] at h
      have := ih h
      obtain ⟨hh, tt, e⟩ := splitOn_cons ':' l
      rw [e] at this
      by_cases hc : c = ':'
      · simp only [splitOn, hc, if_true, List.tail_cons, e]
        exact List.mem_cons_of_mem _ this
      · simp only [splitOn, hc, if_false, e, List.tail_cons]
        exact this

/-- with two `::` and no `:::`, the text after the first `::` still contains one -/
theorem second_double : ∀ (s acc : List Char), 2 ≤ Rfc.countDouble s → Rfc.hasTriple s = false →
    Rfc.countDouble (Rfc.cutDouble acc s).2 ≠ 0 := by
  intro s
  induction s with
  | nil => intro acc h; simp [Rfc.countDouble] at h
  | cons c l ih =>
    intro acc h ht
    by_cases hd : c = ':' ∧ l.head? = some ':'
    · obtain ⟨rfl, hl⟩ := hd
      obtain ⟨r, rfl⟩ := head_colon l hl
      have hr : r.head? ≠ some ':' := by
        intro e
        obtain ⟨r', rfl⟩ := head_colon r e
        simp [Rfc.hasTriple] at ht
      simp only [Rfc.cutDouble]
      simp only [Rfc.countDouble] at h
      rw [countDouble_step ':' r (Or.inr hr)] at h
      omega
    · have hd' : c ≠ ':' ∨ l.head? ≠ some ':' := by
        by_cases hc : c = ':'
        · right; intro e; exact hd ⟨hc, e⟩
        · left; exact hc
      rw [countDouble_step c l hd'] at h
      rw [hasTriple_step c l hd'] at ht
      rw [cutDouble_step acc c l hd']
      exact ih _ h ht

/-- **IPv6: a text the reference calls bad — the wrong number of groups, a group beyond 16 bits, a `::` that would
stand for no group, more than one `::` — is refused** -/
theorem v6_reference_bad (s : List Char) (h : Rfc.parseV6 s = .bad) : parseV6 s = none := by
  cases hp : parseV6 s with
  | none => rfl
  | some vs =>
    exfalso
    simp only [Rfc.parseV6] at h
    split at h
    · cases h
    · rename_i hchars
      have hchars' : ∀ c ∈ s, Rfc.isHex c = true ∨ c = ':' := by
        intro c hc
        simpa using List.all_eq_true.mp (all_chars _ _ _ hchars) c hc
      split at h
      · cases h
      · rename_i htriple
        have htriple' : Rfc.hasTriple s = false := by
          cases hb : Rfc.hasTriple s with
          | false => rfl
          | true => exact absurd hb htriple
        split at h
        · -- no `::`
          rename_i hcount
          simp only [parseV6, countDouble_zero_find s [] hcount] at hp
          cases hv : v6GroupsOf s with
          | none => simp [hv] at hp
          | some front =>
            simp only [hv] at hp
            split at hp
            · cases hp
            · rename_i hlen
              simp only [Decidable.not_not] at hlen
              obtain ⟨hl, hg⟩ := v6GroupsOf_some_good s front hchars' hv
              have hsne : s.isEmpty = false := by
                cases s with
                | nil => have h0 : front.length = 0 := by simpa [Rfc.groupsOf] using hl
                         omega
                | cons _ _ => rfl
              have hgo : Rfc.groupsOf s = Rfc.split ':' s := by simp [Rfc.groupsOf, hsne]
              rw [hgo] at hl hg
              rw [filter_nonempty_of_ne _ (fun g hg' => (hg g hg').1), not_any_wide 16 65535 _ hg] at h
              have h8 : (Rfc.split ':' s).length = 8 := by omega
              simp [h8] at h
              split at h <;> cases h
        · -- one `::`
          rename_i hcount
          cases hcut : Rfc.cutDouble [] s with
          | mk l r =>
            have hfind : findDouble [] s = some (l, r) := by
              rw [countDouble_pos_find s [] (by omega), hcut]
            have hmem := cutDouble_mem s []
            rw [hcut] at hmem
            have hl : ∀ c ∈ l, Rfc.isHex c = true ∨ c = ':' := by
              intro c hc; rcases hmem.1 c hc with h' | h'
              · cases h'
              · exact hchars' c h'
            have hr : ∀ c ∈ r, Rfc.isHex c = true ∨ c = ':' := fun c hc => hchars' c (hmem.2 c hc)
            simp only [parseV6, hfind] at hp
            cases hvl : v6GroupsOf l with
            | none => simp [hvl] at hp
            | some front =>
              cases hvr : v6GroupsOf r with
              | none => simp [hvl, hvr] at hp
              | some back =>
                simp only [hvl, hvr] at hp
                split at hp
                · cases hp
                · rename_i hmany
                  obtain ⟨hll, hlg⟩ := v6GroupsOf_some_good l front hl hvl
                  obtain ⟨hrl, hrg⟩ := v6GroupsOf_some_good r back hr hvr
                  simp only [hcut] at h
                  have hw : ((Rfc.groupsOf l ++ Rfc.groupsOf r).any fun g => decide (Rfc.numOf 16 g > 65535)) = false :=
                    not_any_wide 16 65535 _ (fun g hg => by
                      rcases List.mem_append.mp hg with h' | h'
                      · exact hlg g h'
                      · exact hrg g h')
                  rw [hw] at h
                  have hm : ¬ (Rfc.groupsOf l).length + (Rfc.groupsOf r).length > 7 := by omega
                  simp only [hm, if_false] at h
                  split at h
                  · cases h
                  · simp at h
                    split at h <;> cases h
        · -- two or more `::`
          rename_i hc0 hc1
          have hc2 : 2 ≤ Rfc.countDouble s := by
            have := Nat.pos_of_ne_zero (fun e => hc0 e)
            rcases Nat.lt_or_ge (Rfc.countDouble s) 2 with h' | h'
            · exact absurd (by omega) hc1
            · exact h'
          have hfind : findDouble [] s = some (Rfc.cutDouble [] s) := countDouble_pos_find s [] (by omega)
          have h2 := second_double s [] (by omega) htriple'
          cases hcut : Rfc.cutDouble [] s with
          | mk l r =>
            rw [hcut] at hfind h2
            simp only at h2
            simp only [parseV6, hfind] at hp
            cases hvr : v6GroupsOf r with
            | none => cases hvl : v6GroupsOf l <;> simp [hvl, hvr] at hp
            | some back =>
              have hrne : r.isEmpty = false := by
                cases r with
                | nil => simp [Rfc.countDouble] at h2
                | cons _ _ => rfl
              simp only [v6GroupsOf, hrne, if_false, Bool.false_eq_true] at hvr
              have hmem : [] ∈ splitOn ':' r := List.mem_of_mem_tail (empty_segment_of_double r h2)
              rw [parseAll_none_of_mem 16 65535 _ [] hmem rfl] at hvr
              cases hvr

/-! the reference calls these bad; the model refuses them (five groups, an octet of three digits, 256, seven and nine
groups, a group of five digits, a `::` between eight groups, two `::`) -/
example : Rfc.parseMac "00:11:22:33:44".toList = .bad ∧ Rfc.parseMac "00:11:22:33:44:100".toList = .bad ∧
    Rfc.parseV4 "1.2.3".toList = .bad ∧ Rfc.parseV4 "1.2.3.256".toList = .bad ∧
    Rfc.parseV6 "1:2:3:4:5:6:7".toList = .bad ∧ Rfc.parseV6 "1:2:3:4:5:6:7:8:9".toList = .bad ∧
    Rfc.parseV6 "1:2:3:4:5:6:7:10000".toList = .bad ∧ Rfc.parseV6 "1:2:3:4::5:6:7:8".toList = .bad ∧
    Rfc.parseV6 "1::2::3".toList = .bad := by decide

example : parseMac "00:11:22:33:44:100".toList = none := mac_reference_bad _ (by decide)
example : parseV4 "1.2.3.256".toList = none := v4_reference_bad _ (by decide)
example : parseV6 "1:2:3:4::5:6:7:8".toList = none := v6_reference_bad _ (by decide)
example : parseV6 "1::2::3".toList = none := v6_reference_bad _ (by decide)

end P2sh.Props.C18
