import P2sh.Model.Pcap
import P2sh.Spec.PcapFile
/-!
# C19 — pcap file reading and writing preserve records in order

Model: `P2sh.Pcap` (`Model/Pcap.lean`); specification: `P2sh.Spec.PcapFile`.

* `header_roundtrip`, `packet_header_roundtrip` — the little-endian header codecs invert each other;
* `read_all_decodes` — `pcap_read_all` on the encoding of a well-formed file returns its records;
* `read_next_then_null` — repeated `pcap_read_next` returns them in order, then null;
* `read_n_min` — `pcap_read_all(f, n)` returns the next `min n remaining` records and leaves the rest;
* `truncated_prefix` — a file cut inside record `k+1` yields exactly the first `k` records, then null;
  `corrupt_prefix` — … a record header with caplen > snaplen after `k` records: those `k`, then an error object;
* `write_read_id` — writing packets (caplen ≤ 65 535, the snaplen of the header `pcap_open(.., "w")` writes)
  and reading the file back reproduces them; `write_read_excluded` is the witness for the excluded case;
* `no_panic` — no run of the scripted model ever panics;
* (`Props/C19Spec.lean`) `decode_encode` — the specification's decoder, the oracle of the check, inverts its encoder.
-/
namespace P2sh.Props.C19
open P2sh P2sh.Pcap

/-! ### little-endian codecs -/

theorem toNat_ofNat_mod (n : Nat) : (UInt8.ofNat (n % 256)).toNat = n % 256 := by
  simp [UInt8.toNat_ofNat']

theorem rd32_le32 (n : Nat) (h : n < 4294967296) :
    rd32 (UInt8.ofNat (n % 256)) (UInt8.ofNat (n / 256 % 256)) (UInt8.ofNat (n / 65536 % 256))
      (UInt8.ofNat (n / 16777216 % 256)) = n := by
  simp only [rd32, toNat_ofNat_mod]; omega

theorem rd16_le16 (n : Nat) (h : n < 65536) :
    rd16 (UInt8.ofNat (n % 256)) (UInt8.ofNat (n / 256 % 256)) = n := by
  simp only [rd16, toNat_ofNat_mod]; omega

theorem ofNat_toNat_of_eq (a : UInt8) (n : Nat) (h : n = a.toNat) : UInt8.ofNat n = a := by
  subst h; simp

theorem le32_rd32 (a b c d : UInt8) : le32 (rd32 a b c d) = [a, b, c, d] := by
  have ha := a.toNat_lt; have hb := b.toNat_lt; have hc := c.toNat_lt; have hd := d.toNat_lt
  simp only [le32, rd32]
  rw [ofNat_toNat_of_eq a _ (by omega), ofNat_toNat_of_eq b _ (by omega), ofNat_toNat_of_eq c _ (by omega),
    ofNat_toNat_of_eq d _ (by omega)]

theorem rd32_lt (a b c d : UInt8) : rd32 a b c d < 4294967296 := by
  have ha := a.toNat_lt; have hb := b.toNat_lt; have hc := c.toNat_lt; have hd := d.toNat_lt
  simp only [rd32]; omega

/-! ### well-formedness on the model's types -/

structure WfHeader (h : GlobalHeader) : Prop where
  magic : h.magic = MAGIC_US ∨ h.magic = MAGIC_NS
  vmaj : h.versionMajor < 65536
  vmin : h.versionMinor < 65536
  zone : h.thiszone < 4294967296
  sig : h.sigfigs < 4294967296
  snap : h.snaplen < 4294967296
  link : h.linktype < 4294967296

structure WfPacket (snaplen : Nat) (p : Packet) : Prop where
  tsSec : p.hdr.tsSec < 4294967296
  tsUsec : p.hdr.tsUsec < 4294967296
  wirelen : p.hdr.wirelen < 4294967296
  caplen : p.hdr.caplen = p.data.length
  fits : p.hdr.caplen ≤ snaplen
  cap32 : p.hdr.caplen < 4294967296

/-- **header round trip**: parsing the bytes of a global header gives the header back -/
theorem header_roundtrip (h : GlobalHeader) (wf : WfHeader h) (rest : Bytes) :
    GlobalHeader.fromBytes (h.toBytes ++ rest) = .ok h := by
  obtain ⟨hm, h1, h2, h3, h4, h5, h6⟩ := wf
  simp only [GlobalHeader.toBytes, le32, le16, List.cons_append, List.nil_append, GlobalHeader.fromBytes]
  rw [rd32_le32 _ (by rcases hm with hm | hm <;> rw [hm] <;> decide), rd16_le16 _ h1, rd16_le16 _ h2,
    rd32_le32 _ h3, rd32_le32 _ h4, rd32_le32 _ h5, rd32_le32 _ h6]
  have : ¬ (h.magic ≠ MAGIC_US ∧ h.magic ≠ MAGIC_NS) := by
    rcases hm with hm | hm <;> simp [hm]
  simp [this]

/-- a header that parses is well-formed, and encodes back to the 24 bytes it came from -/
theorem header_parse_wf (bs : Bytes) (h : GlobalHeader) (hp : GlobalHeader.fromBytes bs = .ok h) :
    WfHeader h ∧ h.toBytes = bs.take 24 := by
  match bs, hp with
  | m0 :: m1 :: m2 :: m3 :: a0 :: a1 :: i0 :: i1 :: z0 :: z1 :: z2 :: z3 :: s0 :: s1 :: s2 :: s3 ::
      n0 :: n1 :: n2 :: n3 :: l0 :: l1 :: l2 :: l3 :: rest, hp =>
    simp only [GlobalHeader.fromBytes] at hp
    split at hp
    · cases hp
    · rename_i hmag
      injection hp with hp
      subst hp
      have ha0 := a0.toNat_lt; have ha1 := a1.toNat_lt; have hi0 := i0.toNat_lt; have hi1 := i1.toNat_lt
      refine ⟨⟨?_, ?_, ?_, rd32_lt .., rd32_lt .., rd32_lt .., rd32_lt ..⟩, ?_⟩
      · simp only []
        by_cases h1 : rd32 m0 m1 m2 m3 = MAGIC_US
        · exact Or.inl h1
        · by_cases h2 : rd32 m0 m1 m2 m3 = MAGIC_NS
          · exact Or.inr h2
          · exact absurd ⟨h1, h2⟩ hmag
      · simp only [rd16]; omega
      · simp only [rd16]; omega
      · have e16 : ∀ a b : UInt8, le16 (rd16 a b) = [a, b] := by
          intro a b
          have ha := a.toNat_lt; have hb := b.toNat_lt
          simp only [le16, rd16]
          rw [ofNat_toNat_of_eq a _ (by omega), ofNat_toNat_of_eq b _ (by omega)]
        simp [GlobalHeader.toBytes, le32_rd32, e16]

theorem packet_header_roundtrip (h : PacketHeader) (h1 : h.tsSec < 4294967296) (h2 : h.tsUsec < 4294967296)
    (h3 : h.caplen < 4294967296) (h4 : h.wirelen < 4294967296) (rest : Bytes) :
    PacketHeader.fromBytes (h.toBytes ++ rest) = .ok h := by
  simp only [PacketHeader.toBytes, le32, List.cons_append, List.nil_append, PacketHeader.fromBytes]
  rw [rd32_le32 _ h1, rd32_le32 _ h2, rd32_le32 _ h3, rd32_le32 _ h4]

theorem packet_header_length (h : PacketHeader) : h.toBytes.length = 16 := by
  simp [PacketHeader.toBytes, le32]

/-! ### the cursor -/

theorem readExact_append (xs ys : Bytes) : readExact xs.length (xs ++ ys) = (.ok xs, ys) := by
  simp [readExact]

theorem readExact_short (n : Nat) (xs : Bytes) (h : xs.length < n) : readExact n xs = (.error .unexpectedEof, []) := by
  simp [readExact]; omega

/-- reading one encoded packet off the front of the cursor -/
theorem nextPacket_encode (snap : Nat) (p : Packet) (wf : WfPacket snap p) (rest : Bytes) :
    nextPacket snap (p.toBytes ++ rest) = (.ok p, rest) := by
  have hlen := packet_header_length p.hdr
  have h1 : readExact 16 (p.toBytes ++ rest) = (.ok p.hdr.toBytes, p.data ++ rest) := by
    have := readExact_append p.hdr.toBytes (p.data ++ rest)
    rw [hlen] at this
    simpa [Packet.toBytes, List.append_assoc] using this
  have h2 : PacketHeader.fromBytes p.hdr.toBytes = .ok p.hdr := by
    have := packet_header_roundtrip p.hdr wf.tsSec wf.tsUsec wf.cap32 wf.wirelen []
    simpa using this
  have h3 : readExact p.hdr.caplen (p.data ++ rest) = (.ok p.data, rest) := by
    rw [wf.caplen]; exact readExact_append _ _
  have h4 : ¬ p.hdr.caplen > snap := Nat.not_lt.mpr wf.fits
  simp only [nextPacket, h1, h2, h3, h4, if_false]

/-- a packet cut anywhere before its end: `UnexpectedEof`, everything consumed -/
theorem nextPacket_truncated (snap : Nat) (p : Packet) (wf : WfPacket snap p) (c : Nat) (hc : c < p.toBytes.length) :
    nextPacket snap (p.toBytes.take c) = (.error .unexpectedEof, []) := by
  have hlen := packet_header_length p.hdr
  by_cases h16 : c < 16
  · have : (p.toBytes.take c).length < 16 := by simp [List.length_take]; omega
    simp only [nextPacket, readExact_short 16 _ this]
  · have htake : p.toBytes.take c = p.hdr.toBytes ++ p.data.take (c - 16) := by
      simp only [Packet.toBytes, List.take_append, hlen]
      rw [List.take_of_length_le (by omega)]
    have h1 : readExact 16 (p.toBytes.take c) = (.ok p.hdr.toBytes, p.data.take (c - 16)) := by
      rw [htake]
      have := readExact_append p.hdr.toBytes (p.data.take (c - 16))
      rwa [hlen] at this
    have h2 : PacketHeader.fromBytes p.hdr.toBytes = .ok p.hdr := by
      have := packet_header_roundtrip p.hdr wf.tsSec wf.tsUsec wf.cap32 wf.wirelen []
      simpa using this
    have h4 : ¬ p.hdr.caplen > snap := Nat.not_lt.mpr wf.fits
    have h3 : readExact p.hdr.caplen (p.data.take (c - 16)) = (.error .unexpectedEof, []) := by
      apply readExact_short
      have : p.toBytes.length = 16 + p.data.length := by simp [Packet.toBytes, hlen]
      simp [List.length_take, wf.caplen]; omega
    simp only [nextPacket, h1, h2, h3, h4, if_false]

/-- a record header whose caplen exceeds the snaplen: `InvalidData` -/
theorem nextPacket_corrupt (snap : Nat) (h : PacketHeader) (h1 : h.tsSec < 4294967296) (h2 : h.tsUsec < 4294967296)
    (h3 : h.caplen < 4294967296) (h4 : h.wirelen < 4294967296) (hbad : h.caplen > snap) (rest : Bytes) :
    nextPacket snap (h.toBytes ++ rest) = (.error .invalidData, rest) := by
  have hlen := packet_header_length h
  have e1 : readExact 16 (h.toBytes ++ rest) = (.ok h.toBytes, rest) := by
    have := readExact_append h.toBytes rest
    rwa [hlen] at this
  have e2 : PacketHeader.fromBytes h.toBytes = .ok h := by
    have := packet_header_roundtrip h h1 h2 h3 h4 []
    simpa using this
  simp only [nextPacket, e1, e2, hbad, if_true]

/-! ### sequences of packets -/

def encodePackets (ps : List Packet) : Bytes := (ps.map Packet.toBytes).flatten

theorem encodePackets_cons (p : Packet) (ps : List Packet) :
    encodePackets (p :: ps) = p.toBytes ++ encodePackets ps := by
  simp [encodePackets]

/-- prepend packets to the outcome of the rest of the loop -/
def prepend (ps : List Packet) :
    Except (IoErr × List Packet) (List Packet) × Bytes → Except (IoErr × List Packet) (List Packet) × Bytes
  | (.ok qs, c) => (.ok (ps ++ qs), c)
  | (.error (e, qs), c) => (.error (e, ps ++ qs), c)

theorem prepend_nil (r : Except (IoErr × List Packet) (List Packet) × Bytes) : prepend [] r = r := by
  rcases r with ⟨⟨e, qs⟩ | r, c⟩ <;> simp [prepend]

theorem prepend_cons (p : Packet) (ps : List Packet) (r : Except (IoErr × List Packet) (List Packet) × Bytes) :
    prepend (p :: ps) r = prepend [p] (prepend ps r) := by
  rcases r with ⟨⟨e, qs⟩ | r, c⟩ <;> simp [prepend]

theorem readLoop_succ_ok (snap n : Nat) (p : Packet) (cur cur1 : Bytes) (h : nextPacket snap cur = (.ok p, cur1)) :
    readLoop snap (n + 1) cur = prepend [p] (readLoop snap n cur1) := by
  simp only [readLoop, h]
  rcases readLoop snap n cur1 with ⟨⟨e, qs⟩ | r, c⟩ <;> simp [prepend]

/-- the loop over `ps` followed by anything, with at least `|ps|` iterations allowed -/
theorem readLoop_encode (snap : Nat) (ps : List Packet) (wf : ∀ p ∈ ps, WfPacket snap p) (rest : Bytes) :
    ∀ n, ps.length ≤ n →
      readLoop snap n (encodePackets ps ++ rest) = prepend ps (readLoop snap (n - ps.length) rest) := by
  induction ps with
  | nil => intro n _; simp [encodePackets, prepend_nil]
  | cons p ps ih =>
    intro n hn
    obtain ⟨m, rfl⟩ : ∃ m, n = m + 1 := ⟨n - 1, by simp at hn; omega⟩
    have hp := nextPacket_encode snap p (wf p (List.mem_cons_self)) (encodePackets ps ++ rest)
    have e : m + 1 - (p :: ps).length = m - ps.length := by simp
    rw [encodePackets_cons, List.append_assoc, readLoop_succ_ok snap m p _ _ hp,
      ih (fun q hq => wf q (List.mem_cons_of_mem _ hq)) m (by simp at hn; omega), e, prepend_cons p ps]

/-- … and with at most `|ps|` iterations: the first `n`, the rest stays in the file -/
theorem readLoop_take (snap : Nat) (ps : List Packet) (wf : ∀ p ∈ ps, WfPacket snap p) (rest : Bytes) :
    ∀ n, n ≤ ps.length →
      readLoop snap n (encodePackets ps ++ rest) = (.ok (ps.take n), encodePackets (ps.drop n) ++ rest) := by
  induction ps with
  | nil => intro n hn; have : n = 0 := by simpa using hn
           subst this; simp [readLoop, encodePackets]
  | cons p ps ih =>
    intro n hn
    cases n with
    | zero => simp [readLoop]
    | succ m =>
      have hp := nextPacket_encode snap p (wf p (List.mem_cons_self)) (encodePackets ps ++ rest)
      rw [encodePackets_cons, List.append_assoc, readLoop_succ_ok snap m p _ _ hp,
        ih (fun q hq => wf q (List.mem_cons_of_mem _ hq)) m (by simp at hn; omega)]
      simp [prepend]

theorem readLoop_eof (snap n : Nat) (cur : Bytes) (h : nextPacket snap cur = (.error .unexpectedEof, [])) :
    readLoop snap n cur = (.ok [], if n = 0 then cur else []) := by
  cases n with
  | zero => simp [readLoop]
  | succ m => simp [readLoop, h]

theorem nextPacket_nil (snap : Nat) : nextPacket snap [] = (.error .unexpectedEof, []) := by
  simp [nextPacket, readExact]

/-! ### the theorems of the statement, on the model's reader -/

/-- `k` successive `pcap_read_next` calls -/
def readNexts : Nat → Reader → List Res
  | 0, _ => []
  | k + 1, r => let (x, r') := readNext r; x :: readNexts k r'

theorem readNexts_succ_ok (hdr : GlobalHeader) (k : Nat) (p : Packet) (cur cur1 : Bytes)
    (h : nextPacket hdr.snaplen cur = (.ok p, cur1)) :
    readNexts (k + 1) { hdr, cur } = .pkt p :: readNexts k { hdr, cur := cur1 } := by
  simp [readNexts, readNext, h]

/-- **read_all on a well-formed file** (any count ≥ the number of records, in particular
`usize::MAX` for the one-argument form) -/
theorem readAll_wellformed (hdr : GlobalHeader) (ps : List Packet) (wf : ∀ p ∈ ps, WfPacket hdr.snaplen p)
    (hlen : ps.length ≤ USIZE_MAX) :
    (readAll { hdr, cur := encodePackets ps } none).1 = .arr ps := by
  have := readLoop_encode hdr.snaplen ps wf [] USIZE_MAX hlen
  simp only [List.append_nil] at this
  simp only [readAll, this]
  rw [readLoop_eof _ _ _ (nextPacket_nil _)]
  simp [prepend]

/-- **read_next … then null**, also on a file cut inside the following record -/
theorem readNexts_prefix (hdr : GlobalHeader) (ps : List Packet) (wf : ∀ p ∈ ps, WfPacket hdr.snaplen p)
    (junk : Bytes) (hj : nextPacket hdr.snaplen junk = (.error .unexpectedEof, [])) :
    readNexts (ps.length + 1) { hdr, cur := encodePackets ps ++ junk } = ps.map .pkt ++ [.null] := by
  induction ps with
  | nil => simp [readNexts, readNext, encodePackets, hj]
  | cons p ps ih =>
    have hp := nextPacket_encode hdr.snaplen p (wf p (List.mem_cons_self)) (encodePackets ps ++ junk)
    have := ih (fun q hq => wf q (List.mem_cons_of_mem _ hq))
    rw [List.length_cons, encodePackets_cons, List.append_assoc, readNexts_succ_ok hdr _ p _ _ hp, this]
    simp

theorem read_next_then_null (hdr : GlobalHeader) (ps : List Packet) (wf : ∀ p ∈ ps, WfPacket hdr.snaplen p) :
    readNexts (ps.length + 1) { hdr, cur := encodePackets ps } = ps.map .pkt ++ [.null] := by
  have := readNexts_prefix hdr ps wf [] (nextPacket_nil _)
  simpa using this

/-- **read_all(f, n) = the next min(n, remaining) records**; what it leaves is the encoding of the others -/
theorem read_n_min (hdr : GlobalHeader) (ps : List Packet) (wf : ∀ p ∈ ps, WfPacket hdr.snaplen p) (n : Nat)
    (hn : n ≤ USIZE_MAX) :
    (readAll { hdr, cur := encodePackets ps } (some (n : Int))).1 = .arr (ps.take n) ∧
    (n ≤ ps.length → (readAll { hdr, cur := encodePackets ps } (some (n : Int))).2.cur = encodePackets (ps.drop n)) := by
  have hcount : asUsize (n : Int) = n := by
    simp only [asUsize, USIZE_MAX] at *
    omega
  by_cases hle : n ≤ ps.length
  · have := readLoop_take hdr.snaplen ps wf [] n hle
    simp only [List.append_nil] at this
    simp [readAll, hcount, this]
  · have hge : ps.length ≤ n := by omega
    have := readLoop_encode hdr.snaplen ps wf [] n hge
    simp only [List.append_nil] at this
    refine ⟨?_, fun h => absurd h hle⟩
    simp only [readAll, hcount, this]
    rw [readLoop_eof _ _ _ (nextPacket_nil _)]
    simp [prepend, List.take_of_length_le hge]

/-- **truncation**: a file cut after `c` bytes of the record following `ps` (`c` short of the whole
record) yields exactly `ps` — through `pcap_read_all` and through `pcap_read_next`, then null -/
theorem truncated_prefix (hdr : GlobalHeader) (ps : List Packet) (wf : ∀ p ∈ ps, WfPacket hdr.snaplen p)
    (q : Packet) (wq : WfPacket hdr.snaplen q) (c : Nat) (hc : c < q.toBytes.length) (hlen : ps.length ≤ USIZE_MAX) :
    (readAll { hdr, cur := encodePackets ps ++ q.toBytes.take c } none).1 = .arr ps ∧
    readNexts (ps.length + 1) { hdr, cur := encodePackets ps ++ q.toBytes.take c } = ps.map .pkt ++ [.null] := by
  have hj := nextPacket_truncated hdr.snaplen q wq c hc
  refine ⟨?_, readNexts_prefix hdr ps wf _ hj⟩
  have := readLoop_encode hdr.snaplen ps wf (q.toBytes.take c) USIZE_MAX hlen
  simp only [readAll, this]
  rw [readLoop_eof _ _ _ hj]
  simp [prepend]

/-- **corruption** (a complete record header with caplen > snaplen after `ps`): `pcap_read_next`
yields exactly `ps` and then an error object; `pcap_read_all` reports the error object -/
theorem corrupt_prefix (hdr : GlobalHeader) (ps : List Packet) (wf : ∀ p ∈ ps, WfPacket hdr.snaplen p)
    (h : PacketHeader) (h1 : h.tsSec < 4294967296) (h2 : h.tsUsec < 4294967296) (h3 : h.caplen < 4294967296)
    (h4 : h.wirelen < 4294967296) (hbad : h.caplen > hdr.snaplen) (rest : Bytes) :
    readNexts (ps.length + 1) { hdr, cur := encodePackets ps ++ (h.toBytes ++ rest) }
      = ps.map .pkt ++ [.err .invalidData] := by
  have hj := nextPacket_corrupt hdr.snaplen h h1 h2 h3 h4 hbad rest
  induction ps with
  | nil => simp [readNexts, readNext, encodePackets, hj]
  | cons p ps ih =>
    have hp := nextPacket_encode hdr.snaplen p (wf p (List.mem_cons_self)) (encodePackets ps ++ (h.toBytes ++ rest))
    have := ih (fun q hq => wf q (List.mem_cons_of_mem _ hq))
    rw [List.length_cons, encodePackets_cons, List.append_assoc, readNexts_succ_ok hdr _ p _ _ hp, this]
    simp

/-- **corruption, through `pcap_read_all`**: the complete records before the malformed one are
delivered (exactly `ps`), and the next read — `pcap_read_next` or `pcap_read_all` — reports the
error object; with no complete record before it the error object is returned at once -/
theorem corrupt_prefix_all (hdr : GlobalHeader) (ps : List Packet) (wf : ∀ p ∈ ps, WfPacket hdr.snaplen p)
    (h : PacketHeader) (h1 : h.tsSec < 4294967296) (h2 : h.tsUsec < 4294967296) (h3 : h.caplen < 4294967296)
    (h4 : h.wirelen < 4294967296) (hbad : h.caplen > hdr.snaplen) (rest : Bytes) (hlen : ps.length < USIZE_MAX) :
    let r : Reader := { hdr, cur := encodePackets ps ++ (h.toBytes ++ rest) }
    (ps ≠ [] → (readAll r none).1 = .arr ps ∧
        (readNext (readAll r none).2).1 = .err .invalidData ∧
        (readAll (readAll r none).2 none).1 = .err .invalidData) ∧
    (ps = [] → (readAll r none).1 = .err .invalidData) := by
  intro r
  have hj := nextPacket_corrupt hdr.snaplen h h1 h2 h3 h4 hbad rest
  have hloop := readLoop_encode hdr.snaplen ps wf (h.toBytes ++ rest) USIZE_MAX (by omega)
  obtain ⟨m, hm⟩ : ∃ m, USIZE_MAX - ps.length = m + 1 := ⟨USIZE_MAX - ps.length - 1, by omega⟩
  have hbadloop : readLoop hdr.snaplen (m + 1) (h.toBytes ++ rest) = (.error (.invalidData, []), rest) := by
    simp only [readLoop, hj]
  rw [hm, hbadloop] at hloop
  have hall : readAll r none =
      if !ps.isEmpty then (.arr ps, { hdr, cur := rest, failed := some .invalidData })
      else (.err .invalidData, { hdr, cur := rest, failed := some .invalidData }) := by
    simp only [readAll, r, hloop, prepend, List.append_nil, stickyOf]
    cases ps <;> simp
  constructor
  · intro hne
    have : (!ps.isEmpty) = true := by cases ps <;> simp_all
    rw [hall]
    simp only [this, if_true]
    refine ⟨trivial, ?_, ?_⟩
    · simp [readNext]
    · simp [readAll, USIZE_MAX]
  · intro he
    subst he
    rw [hall]
    simp

/-! ### writing -/

theorem writeFile_eq (ps : List Packet) : writeFile ps = newFile ++ encodePackets ps := by
  have : ∀ (out : Bytes), ps.foldl (fun out p => (writePacket out p).1) out = out ++ encodePackets ps := by
    induction ps with
    | nil => intro out; simp [encodePackets]
    | cons p ps ih => intro out; rw [List.foldl_cons, ih]; simp [writePacket, encodePackets, List.append_assoc]
  exact this newFile

theorem fromFile_header (h : GlobalHeader) (wf : WfHeader h) (rest : Bytes) :
    fromFile (h.toBytes ++ rest) = .ok { hdr := h, cur := rest } := by
  have hl : h.toBytes.length = 24 := by simp [GlobalHeader.toBytes, le32, le16]
  have h1 : readExact 24 (h.toBytes ++ rest) = (.ok h.toBytes, rest) := by
    have := readExact_append h.toBytes rest
    rwa [hl] at this
  have h2 : GlobalHeader.fromBytes h.toBytes = .ok h := by
    have := header_roundtrip h wf []
    simpa using this
  simp only [fromFile, h1, h2]

theorem default_header_wf : WfHeader (GlobalHeader.new MAGIC_US) := by
  refine ⟨Or.inl rfl, ?_, ?_, ?_, ?_, ?_, ?_⟩ <;> decide

/-- the snaplen of the header that `pcap_open(path, "w")` writes (a constant of the working tree) -/
theorem default_snaplen : (GlobalHeader.new MAGIC_US).snaplen = 65535 := rfl

/-- **write then read**: packets with caplen ≤ 65 535 (the snaplen of the header that
`pcap_open(path, "w")` writes) written with `pcap_write` and read back are the same packets -/
theorem write_read_id (ps : List Packet) (wf : ∀ p ∈ ps, WfPacket 65535 p) (hlen : ps.length ≤ USIZE_MAX) :
    ∃ rd, fromFile (writeFile ps) = .ok rd ∧ (readAll rd none).1 = .arr ps := by
  refine ⟨{ hdr := GlobalHeader.new MAGIC_US, cur := encodePackets ps }, ?_, ?_⟩
  · rw [writeFile_eq]; exact fromFile_header _ default_header_wf _
  · exact readAll_wellformed _ ps (by rw [default_snaplen]; exact wf) hlen

/-- the excluded case is real: a packet of 65 536 bytes (legal under a snaplen of 262 144) is
written but cannot be read back — the read reports an error object -/
theorem write_read_excluded :
    let p : Packet := { hdr := { tsSec := 0, tsUsec := 0, caplen := 65536, wirelen := 65536 }, data := List.replicate 65536 0 }
    ∃ rd, fromFile (writeFile [p]) = .ok rd ∧ (readAll rd none).1 = .err .invalidData := by
  intro p
  refine ⟨{ hdr := GlobalHeader.new MAGIC_US, cur := encodePackets [p] }, ?_, ?_⟩
  · rw [writeFile_eq]; exact fromFile_header _ default_header_wf _
  · have hj := nextPacket_corrupt 65535 p.hdr (by decide) (by decide) (by decide) (by decide) (by decide)
      (p.data ++ [])
    have hcur : encodePackets [p] = p.hdr.toBytes ++ (p.data ++ []) := by simp [encodePackets, Packet.toBytes]
    have hloop : readLoop 65535 USIZE_MAX (p.hdr.toBytes ++ (p.data ++ [])) = (.error (.invalidData, []), p.data ++ []) := by
      simp only [USIZE_MAX, readLoop, hj]
    simp only [List.append_nil] at hloop hcur
    simp [readAll, default_snaplen, hcur, hloop, stickyOf]

/-! ### no panic -/

def outIsPanic : Out → Bool
  | .res .panic => true
  | _ => false

theorem readNext_no_panic (r : Reader) : (readNext r).1 ≠ .panic := by
  unfold readNext
  split
  · simp
  · split <;> simp

theorem readAll_no_panic (r : Reader) (n : Option Int) : (readAll r n).1 ≠ .panic := by
  simp only [readAll]
  repeat' split
  all_goals simp

theorem stepRun_no_panic (s : RunState) (st : Step) : outIsPanic (stepRun s st).1 = false := by
  cases st with
  | next =>
    have := readNext_no_panic s.rd
    simp only [stepRun]
    split <;> simp_all [outIsPanic]
  | all n =>
    have := readAll_no_panic s.rd n
    simp only [stepRun]
    split <;> simp_all [outIsPanic]
  | write => simp [stepRun, outIsPanic]
  | readBack =>
    simp only [stepRun]
    split
    · simp [outIsPanic]
    · split
      · simp [outIsPanic]
      · rename_i r _
        have := readAll_no_panic r none
        cases h : (readAll r none).1 <;> simp_all [outIsPanic]

theorem runSteps_no_panic (script : List Step) : ∀ (s : RunState), ∀ o ∈ runSteps s script, outIsPanic o = false := by
  induction script with
  | nil => intro s o ho; simp [runSteps] at ho
  | cons st rest ih =>
    intro s o ho
    simp only [runSteps, List.mem_cons] at ho
    rcases ho with rfl | ho
    · exact stepRun_no_panic s st
    · exact ih _ o ho

/-- **no panic**: whatever the file content and the script, no step of the run panics -/
theorem no_panic (content : Bytes) (script : List Step) :
    match run content script with
    | .inl r => r ≠ .panic
    | .inr outs => ∀ o ∈ outs, outIsPanic o = false := by
  cases h : fromFile content with
  | error e => simp [run, h]
  | ok rd => simp only [run, h]; exact runSteps_no_panic script _

/-! ### the statement in terms of the specification's files -/

open Spec.PcapFile in
def toPacket (r : Record) : Packet :=
  { hdr := { tsSec := r.tsSec, tsUsec := r.tsUsec, caplen := r.caplen, wirelen := r.wirelen }, data := r.data }

open Spec.PcapFile in
def toHeader (h : Header) : GlobalHeader :=
  { magic := h.magic, versionMajor := h.versionMajor, versionMinor := h.versionMinor, thiszone := h.thiszone,
    sigfigs := h.sigfigs, snaplen := h.snaplen, linktype := h.linktype }

theorem leBytes4 (n : Nat) : Spec.PcapFile.leBytes 4 n = le32 n := by
  have e1 : n / 256 / 256 = n / 65536 := by omega
  have e2 : n / 256 / 256 / 256 = n / 16777216 := by omega
  simp only [Spec.PcapFile.leBytes, le32]
  rw [e2, e1]

theorem leBytes2 (n : Nat) : Spec.PcapFile.leBytes 2 n = le16 n := by
  simp only [Spec.PcapFile.leBytes, le16]

theorem encodeRecord_eq (r : Spec.PcapFile.Record) : Spec.PcapFile.encodeRecord r = (toPacket r).toBytes := by
  simp [Spec.PcapFile.encodeRecord, leBytes4, Packet.toBytes, PacketHeader.toBytes, toPacket, List.append_assoc]

theorem encodeRecords_eq (rs : List Spec.PcapFile.Record) :
    Spec.PcapFile.encodeRecords rs = encodePackets (rs.map toPacket) := by
  have : Spec.PcapFile.encodeRecord = fun r => (toPacket r).toBytes := funext encodeRecord_eq
  simp [Spec.PcapFile.encodeRecords, encodePackets, List.map_map, Function.comp_def, this]

theorem encodeHeader_eq (h : Spec.PcapFile.Header) : Spec.PcapFile.encodeHeader h = (toHeader h).toBytes := by
  simp [Spec.PcapFile.encodeHeader, leBytes4, leBytes2, GlobalHeader.toBytes, toHeader, List.append_assoc]

theorem wfPacket_of_spec (snap : Nat) (r : Spec.PcapFile.Record) (w : Spec.PcapFile.WfRecord snap r) :
    WfPacket snap (toPacket r) :=
  ⟨w.tsSec, w.tsUsec, w.wirelen, w.caplen, w.fits, w.cap32⟩

theorem wfHeader_of_spec (h : Spec.PcapFile.Header) (w : Spec.PcapFile.WfHeader h) : WfHeader (toHeader h) :=
  ⟨w.magic, w.vmaj, w.vmin, w.zone, w.sig, w.snap, w.link⟩

/-- **read_all_decodes**: opening the encoding of a well-formed file succeeds and `pcap_read_all`
returns its records, in order, with their stored timestamps, lengths and bytes -/
theorem read_all_decodes (f : Spec.PcapFile.File) (wf : Spec.PcapFile.WfFile f) (hlen : f.records.length ≤ USIZE_MAX) :
    ∃ rd, fromFile (Spec.PcapFile.encode f) = .ok rd ∧ (readAll rd none).1 = .arr (f.records.map toPacket) := by
  refine ⟨{ hdr := toHeader f.hdr, cur := encodePackets (f.records.map toPacket) }, ?_, ?_⟩
  · rw [Spec.PcapFile.encode, encodeHeader_eq, encodeRecords_eq]
    exact fromFile_header _ (wfHeader_of_spec _ wf.hdr) _
  · apply readAll_wellformed
    · intro p hp
      obtain ⟨r, hr, rfl⟩ := List.mem_map.mp hp
      exact wfPacket_of_spec _ r (wf.recs r hr)
    · simpa using hlen

end P2sh.Props.C19
