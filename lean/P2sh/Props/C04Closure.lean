import P2sh.Core.Fn.Encode
/-!
# C04 — a closure captures, at the moment it is created, the current values of the visible locals and parameters of the functions enclosing it (run-time half)

The compile-time half — WHICH bindings a function literal captures — is `C04Resolve.closure_captures_visible`.
Here: what the captured variables ARE at run time, in the layer with closures of `P2sh.Core.Fn`
(reference evaluation `evalE` and the machine `fstep`, tied to each other by `Core.Fn.sound_all` /
`compile_sound_functions` and to the real compiler and VM byte for byte by the `core` op).

A closure value is `.clos fd [] id`; `id` names its closure object: cell `id` of the heap `h`
holds the captured values (`Closure::free`).

* `closure_snapshot` — **creation copies, reads see the copy**: evaluating a function literal
  yields a new closure object holding the values the captured variables have AT THAT MOMENT
  (`capVals`), and nothing else changes; a read of captured variable `i` in ANY later activation of
  that object — whatever the store's local slots and globals are by then, whichever function is
  running underneath, the creating function long returned — yields entry `i` of the object.
  `snapshot_stable` (machine): the object stays what it was at creation along every run in which
  no activation OF THAT OBJECT executes `SetFree` — whatever else happens: the enclosing function
  assigns the variable (`SetLocal`), returns, other closures are created, called, assign their own
  copies.  `closure_snapshot_machine`: the two together on the machine (`Closure c n` … `GetFree i`).
* `closure_objects_immutable` — in a program that never assigns a captured variable, NOTHING changes
  a closure object after its creation (reference evaluation, every statement list / expression).
* `captured_assignment_is_private` — **an assignment to a captured variable changes the running
  closure's own copy and nothing else**: not a stack slot (so: no local variable or parameter of
  any function, the enclosing one included), not a global, no other closure object, no other entry
  of its own object (`captured_assignment_is_private` on the machine, `…_ref` on the reference
  evaluation); and what a called closure does never changes the CALLER's local slots
  (`call_keeps_caller_slots`).
* `closure_created_in_loop` — closures created one after the other (the iterations of a loop) are
  different objects; creating the later one does not change the earlier one: each keeps the values
  of its own iteration.

What the reference evaluation says about a LATER activation of a closure object whose captured
copy was assigned — it sees the assigned value (the counter idiom) — is what the VM does; the
executable specification used as oracle elsewhere (`Spec/Ref.lean`) deliberately leaves that
unconstrained.  The theorems here are about the VM's behaviour as modelled by `Core.Fn`.
-/
namespace P2sh.Props.C04Closure
open P2sh P2sh.Core P2sh.Core.Fn

/-! ## the reference evaluation -/

/-- **`closure_snapshot`**.  (1) A function literal evaluates — in the activation `cx`, the
store `σ` — to a closure whose NEW object `σ.h.length` holds exactly the current values `vs` of
the captured variables (the slots of the running function, its own captured values, itself),
in the order of the free indices; locals, globals and every existing closure object are
untouched.  (2) In every activation of that object (`cx' = (fd', σ.h.length)`: the closure was
called, from anywhere, at any later time), in every store `σ2` in which the object still is `vs`
(see `snapshot_stable`: it is, unless the closure itself assigned the variable) — whatever `σ2`'s
local slots and globals are, i.e. whatever the enclosing function did to its variable afterwards —
a read of captured variable `i` yields `vs[i]`, the value at creation. -/
theorem closure_snapshot {Φ : FnDef → Option FDecl} (fuel : Nat) (cx : Option (FnDef × Nat)) (σ σ1 : Sto)
    (l : Nat) (code lines : List Nat) (np nl : Nat) (body : List FStmt) (caps : List Cap) (c : Val)
    (h : evalE Φ fuel cx σ (.mkclos l code lines np nl body caps) = some (c, σ1)) :
    ∃ vs, capVals cx σ caps = some vs ∧
      c = .clos (mkFd code lines ⟨np, nl, body, l⟩) [] σ.h.length ∧
      σ1 = ⟨σ.l, σ.g, σ.h ++ [vs], σ.a⟩ ∧ σ1.h[σ.h.length]? = some vs ∧
      ∀ (fuel' : Nat) (fd' : FnDef) (σ2 : Sto) (ll i : Nat), σ2.h[σ.h.length]? = some vs →
        evalE Φ (fuel' + 1) (some (fd', σ.h.length)) σ2 (.fget ll i) = (vs[i]?).map (fun v => (v, σ2)) := by
  cases fuel with
  | zero => simp [evalE] at h
  | succ fuel =>
    simp only [evalE] at h
    cases hc : capVals cx σ caps with
    | none => simp [hc] at h
    | some vs =>
      simp only [hc, Option.some.injEq, Prod.mk.injEq] at h
      obtain ⟨rfl, rfl⟩ := h
      refine ⟨vs, rfl, rfl, rfl, by simp, ?_⟩
      intro fuel' fd' σ2 ll i h2
      simp only [evalE, freeGet, h2]
      cases vs[i]? <;> rfl

/-- the captured values are the CURRENT values: a captured local slot is read from the slots as
they are now, a captured captured-value from the running closure's object as it is now -/
theorem capVals_get {cx : Option (FnDef × Nat)} {σ : Sto} : ∀ {caps : List Cap} {vs : List Val}, capVals cx σ caps = some vs →
    vs.length = caps.length ∧ ∀ j (hj : j < caps.length), capVal cx σ caps[j] = vs[j]?
  | [], vs, h => by
    simp only [capVals, Option.some.injEq] at h
    subst h
    exact ⟨rfl, fun j hj => by simp at hj⟩
  | c :: rest, vs, h => by
    simp only [capVals] at h
    cases hv : capVal cx σ c with
    | none => simp [hv] at h
    | some v =>
      simp only [hv] at h
      cases hr : capVals cx σ rest with
      | none => simp [hr] at h
      | some vr =>
        simp only [hr, Option.some.injEq] at h
        subst h
        obtain ⟨hl, hg⟩ := capVals_get hr
        refine ⟨by simp [hl], fun j hj => ?_⟩
        cases j with
        | zero => simpa using hv
        | succ j => simpa using hg j (by simpa using hj)

/-- **`captured_assignment_is_private`, reference evaluation**: `x = e` for a captured `x`
(free index `i`) in an activation of closure object `id`: after `e` (value `v`, store `σ1`),
the local slots and the globals are `σ1`'s — the variable of the enclosing function, wherever it
lives, is not touched —, every OTHER closure object is as in `σ1`, and the own object differs
from `σ1`'s exactly at entry `i`, which is `v` — what the next read, in this or in a later
activation of this object, sees. -/
theorem captured_assignment_is_private_ref {Φ : FnDef → Option FDecl} (fuel : Nat) (fd : FnDef) (id : Nat) (σ σ' : Sto)
    (l i : Nat) (e : FExpr) (v : Val)
    (h : evalE Φ (fuel + 1) (some (fd, id)) σ (.fset l i e) = some (v, σ')) :
    ∃ σ1 fr, evalE Φ fuel (some (fd, id)) σ e = some (v, σ1) ∧ σ1.h[id]? = some fr ∧ i < fr.length ∧
      σ'.l = σ1.l ∧ σ'.g = σ1.g ∧ σ'.h = σ1.h.set id (fr.set i v) ∧
      (∀ id', id' ≠ id → σ'.h[id']? = σ1.h[id']?) ∧
      freeGet σ'.h id i = some v ∧ (∀ j, j ≠ i → freeGet σ'.h id j = freeGet σ1.h id j) := by
  simp only [evalE] at h
  cases he : evalE Φ fuel (some (fd, id)) σ e with
  | none => simp [he] at h
  | some r =>
    obtain ⟨v1, σ1⟩ := r
    simp only [he] at h
    cases hs : freeSet σ1.h id i v1 with
    | none => simp [hs] at h
    | some h' =>
      simp only [hs, Option.some.injEq, Prod.mk.injEq] at h
      obtain ⟨rfl, rfl⟩ := h
      unfold freeSet at hs
      cases hfr : σ1.h[id]? with
      | none => simp [hfr] at hs
      | some fr =>
        simp only [hfr] at hs
        by_cases hi : i < fr.length
        · simp only [hi, if_true, Option.some.injEq] at hs
          subst hs
          have hid : id < σ1.h.length := by
            cases hlt : decide (id < σ1.h.length) with
            | true => simpa using hlt
            | false =>
              have : σ1.h.length ≤ id := by simpa using hlt
              rw [List.getElem?_eq_none this] at hfr
              cases hfr
          refine ⟨σ1, fr, rfl, hfr, hi, rfl, rfl, rfl, ?_, ?_, ?_⟩
          all_goals simp only [Sto.setH_eq]
          · intro id' hne
            exact List.getElem?_set_ne (by omega)
          · simp [freeGet, List.getElem?_set_self hid, hi]
          · intro j hj
            simp only [freeGet, List.getElem?_set_self hid, hfr]
            exact List.getElem?_set_ne (by omega)
        · simp [hi] at hs

/-- **what a called closure does never changes the caller's local slots**: after a call —
whatever the callee is (a closure that captured the caller's variables and assigns its copies
included) — the caller's slots are what they were when the last argument had been evaluated -/
theorem call_keeps_caller_slots {Φ : FnDef → Option FDecl} (fuel : Nat) (cx : Option (FnDef × Nat)) (σ σ' : Sto)
    (l : Nat) (f : FExpr) (args : FArgs) (v : Val)
    (h : evalE Φ (fuel + 1) cx σ (.call l f args) = some (v, σ')) :
    ∃ vf σ1 vs σ2, evalE Φ fuel cx σ f = some (vf, σ1) ∧ evalArgs Φ fuel cx σ1 args = some (vs, σ2) ∧ σ'.l = σ2.l := by
  simp only [evalE] at h
  cases hf : evalE Φ fuel cx σ f with
  | none => simp [hf] at h
  | some rf =>
    obtain ⟨vf, σ1⟩ := rf
    simp only [hf] at h
    cases ha : evalArgs Φ fuel cx σ1 args with
    | none => simp [ha] at h
    | some ra =>
      obtain ⟨vs, σ2⟩ := ra
      simp only [ha] at h
      refine ⟨vf, σ1, vs, σ2, rfl, ha, ?_⟩
      repeat' split at h
      all_goals first | (simp at h; done) | (simp only [Option.some.injEq, Prod.mk.injEq] at h; rw [← h.2]; done) | (simp only [Option.some.injEq, Prod.mk.injEq] at h; rw [← h.2]; rfl)

/-! ## programs that never assign a captured variable: closure objects are immutable (reference evaluation)

Capture is BY VALUE: when no function assigns a captured variable (`noFset…`: no `SetFree`
anywhere — reads only), nothing whatsoever changes a closure object after its creation: not the
enclosing function assigning or re-defining the captured variable, not its return, not loops,
not calls of this or other closures.  (With capture by reference the enclosing function's
assignment would show through.)  For programs that do assign captured variables the general
statement is `snapshot_stable` on the machine. -/

mutual
/-- no assignment to a captured variable at this function's own level (the bodies of nested
function literals are other functions) -/
def noFsetE : FExpr → Bool
  | .lit .. | .tru _ | .fls _ | .null _ | .gget .. | .lget .. | .curr _ | .fget .. | .mkclos .. | .bfn .. => true
  | .arrLit _ es | .mapLit _ es => noFsetArgs es
  | .index _ c i => noFsetE c && noFsetE i
  | .setIndex _ c i e => noFsetE e && noFsetE c && noFsetE i
  | .fset .. => false
  | .un _ _ e | .gset _ _ e | .lset _ _ e => noFsetE e
  | .bin _ _ a b | .lt _ a b | .le _ a b | .and _ a b | .or _ a b => noFsetE a && noFsetE b
  | .ite _ c t e => noFsetE c && noFsetE t && noFsetE e
  | .matchE _ s arms => noFsetE s && noFsetArms arms
  | .call _ f args => noFsetE f && noFsetArgs args
def noFsetArms : FArms → Bool
  | .last _ _ d => noFsetE d
  | .cons _ _ body rest => noFsetE body && noFsetArms rest
def noFsetArgs : FArgs → Bool
  | .nil => true
  | .cons a rest => noFsetE a && noFsetArgs rest
def noFsetS : FStmt → Bool
  | .letG _ _ e | .letL _ _ e | .expr _ e | .ret _ e => noFsetE e
  | .block _ body | .loopS _ _ body => noFsetP body
  | .whileS _ _ c body => noFsetE c && noFsetP body
  | .breakS .. | .continueS .. | .retN _ => true
  | .ifS _ _ c thn els => noFsetE c && noFsetP thn && noFsetP els
def noFsetP : List FStmt → Bool
  | [] => true
  | s :: rest => noFsetS s && noFsetP rest
end

structure HFrame (Φ : FnDef → Option FDecl) (fuel : Nat) : Prop where
  E : ∀ cx σ e v σ', noFsetE e = true → Fn.evalE Φ fuel cx σ e = some (v, σ') → σ.h <+: σ'.h
  Arms : ∀ cx σ w a v σ', noFsetArms a = true → Fn.evalArms Φ fuel cx σ w a = some (v, σ') → σ.h <+: σ'.h
  Args : ∀ cx σ a vs σ', noFsetArgs a = true → Fn.evalArgs Φ fuel cx σ a = some (vs, σ') → σ.h <+: σ'.h
  S : ∀ cx σ s σ' f bv, noFsetS s = true → Fn.evalS Φ fuel cx σ s = some (σ', f, bv) → σ.h <+: σ'.h
  P : ∀ cx σ ss σ' f bv, noFsetP ss = true → Fn.evalP Φ fuel cx σ ss = some (σ', f, bv) → σ.h <+: σ'.h

theorem hframe_succ {Φ : FnDef → Option FDecl} (hRO : ∀ fd d, Φ fd = some d → noFsetP d.body = true) (fuel : Nat) (ih : HFrame Φ fuel) : HFrame Φ (fuel + 1) := by
  have hE := ih.E
  have hA := ih.Arms
  have hG := ih.Args
  have hS := ih.S
  have hP := ih.P
  have htr := @List.IsPrefix.trans (List Val)
  have hrf := @List.prefix_refl (List Val)
  have hap := @List.prefix_append (List Val)
  refine ⟨?_, ?_, ?_, ?_, ?_⟩
  · intro cx σ e v σ' hn he
    cases e with
    | call l f args =>
      simp only [noFsetE, Bool.and_eq_true] at hn
      simp only [Fn.evalE] at he
      cases hef : Fn.evalE Φ fuel cx σ f with
      | none => simp [hef] at he
      | some rf =>
        obtain ⟨vf, σ1⟩ := rf
        simp only [hef] at he
        cases hea : Fn.evalArgs Φ fuel cx σ1 args with
        | none => simp [hea] at he
        | some ra =>
          obtain ⟨vs, σ2⟩ := ra
          simp only [hea] at he
          have h1 := hE _ _ _ _ _ hn.1 hef
          have h2 := hG _ _ _ _ _ hn.2 hea
          cases vf with
          | clos fd fr id =>
            simp only at he
            cases hd : Φ fd with
            | none => simp [hd] at he
            | some d =>
              simp only [hd] at he
              have hro := hRO fd d hd
              by_cases har : vs.length = d.np
              · simp only [har, if_true] at he
                simp only [Sto.enter_eq, Sto.back_eq] at he
                cases hb : Fn.evalP Φ fuel (some (fd, id)) ⟨vs ++ List.replicate (d.nl - d.np) .null, σ2.g, σ2.h, σ2.a⟩ d.body with
                | none => simp [hb] at he
                | some rb =>
                  obtain ⟨σ3, fb, bv⟩ := rb
                  have h3 := hP _ _ _ _ _ _ hro hb
                  simp only [hb] at he
                  have : σ'.h = σ3.h := by
                    cases fb <;> simp at he <;> rw [← he.2]
                  rw [this]
                  exact (h1.trans h2).trans h3
              · simp [har] at he
          | builtin name =>
            simp only at he
            cases hr : callBuiltinH σ2.a name vs with
            | none => simp [hr] at he
            | some ra =>
              simp only [hr, Option.some.injEq, Prod.mk.injEq] at he
              rw [← he.2]
              exact h1.trans h2
          | _ => simp at he
    | fset l i e => simp [noFsetE] at hn
    | mkclos l code lines np nl body caps =>
      simp only [Fn.evalE] at he
      cases hc : capVals cx σ caps with
      | none => simp [hc] at he
      | some vs =>
        simp only [hc, Option.some.injEq, Prod.mk.injEq] at he
        rw [← he.2]
        exact List.prefix_append _ _
    | _ => simp only [Fn.evalE, Sto.setA_eq, Sto.gset_eq, Sto.lset_eq, Sto.setH_eq, Sto.pushH_eq] at he <;> simp only [noFsetE, Bool.and_eq_true] at hn <;> grind
  · intro cx σ w a v σ' hn he
    cases a <;> simp only [Fn.evalArms] at he <;> simp only [noFsetArms, Bool.and_eq_true] at hn <;> grind
  · intro cx σ a vs σ' hn he
    cases a <;> simp only [Fn.evalArgs] at he <;> simp only [noFsetArgs, Bool.and_eq_true] at hn <;> grind
  · intro cx σ s σ' f bv hn he
    have hn0 := hn
    cases s <;> simp only [Fn.evalS, Sto.gset_eq, Sto.lset_eq] at he <;> simp only [noFsetS, Bool.and_eq_true] at hn <;> grind
  · intro cx σ ss σ' f bv hn he
    cases ss <;> simp only [Fn.evalP] at he <;> simp only [noFsetP, Bool.and_eq_true] at hn <;> grind

theorem hframe_all {Φ : FnDef → Option FDecl} (hRO : ∀ fd d, Φ fd = some d → noFsetP d.body = true) : ∀ fuel, HFrame Φ fuel
  | 0 => ⟨by intro _ _ _ _ _ _ he; simp [Fn.evalE] at he, by intro _ _ _ _ _ _ _ he; simp [Fn.evalArms] at he,
          by intro _ _ _ _ _ _ he; simp [Fn.evalArgs] at he, by intro _ _ _ _ _ _ _ he; simp [Fn.evalS] at he,
          by intro _ _ _ _ _ _ _ he; simp [Fn.evalP] at he⟩
  | fuel+1 => hframe_succ hRO fuel (hframe_all hRO fuel)

theorem prefix_get {α : Type} {h h' : List α} (hp : h <+: h') {id : Nat} {fr : α} (hg : h[id]? = some fr) : h'[id]? = some fr := by
  obtain ⟨t, rfl⟩ := hp
  have hid : id < h.length := by
    cases hlt : decide (id < h.length) with
    | true => simpa using hlt
    | false =>
      have : h.length ≤ id := by simpa using hlt
      rw [List.getElem?_eq_none this] at hg
      cases hg
  rw [List.getElem?_append_left hid]
  exact hg

/-- **closure objects are immutable when no function assigns a captured variable** (the
reference evaluation of statements; `…_expr` for expressions): every closure object that exists
before — created by whichever function, at whatever time — holds the same values afterwards,
whatever the statements do: assign and re-define the captured variables in the enclosing
function, loop, return, create and call closures.  The values a closure reads are therefore the
values captured at its creation (`closure_snapshot`), for ever. -/
theorem closure_objects_immutable {Φ : FnDef → Option FDecl} (hRO : ∀ fd d, Φ fd = some d → noFsetP d.body = true)
    (fuel : Nat) (cx : Option (FnDef × Nat)) (σ σ' : Sto) (ss : List FStmt) (f : FFlow) (bv : Val)
    (hn : noFsetP ss = true) (he : Fn.evalP Φ fuel cx σ ss = some (σ', f, bv)) :
    ∀ (id : Nat) (fr : List Val), σ.h[id]? = some fr → σ'.h[id]? = some fr :=
  fun _ _ hg => prefix_get ((hframe_all hRO fuel).P cx σ ss σ' f bv hn he) hg

theorem closure_objects_immutable_expr {Φ : FnDef → Option FDecl} (hRO : ∀ fd d, Φ fd = some d → noFsetP d.body = true)
    (fuel : Nat) (cx : Option (FnDef × Nat)) (σ σ' : Sto) (e : FExpr) (v : Val)
    (hn : noFsetE e = true) (he : Fn.evalE Φ fuel cx σ e = some (v, σ')) :
    ∀ (id : Nat) (fr : List Val), σ.h[id]? = some fr → σ'.h[id]? = some fr :=
  fun _ _ hg => prefix_get ((hframe_all hRO fuel).E cx σ e v σ' hn he) hg

/-- the hypothesis of `closure_objects_immutable` for a compiled program: a check over its function literals -/
theorem readOnly_program (T : List FTop) (h : (fnsT 0 T).all (fun x => noFsetP x.2.1.body) = true) :
    ∀ fd d, phiT T fd = some d → noFsetP d.body = true := by
  intro fd d hd
  obtain ⟨kd, hm, _⟩ := lookup_entry (fnsT 0 T) fd d hd
  have := List.all_eq_true.mp h _ hm
  simpa using this

/-! ## the machine -/

section machine
variable {K : List Val} {F : FnDef → Option (List Instr)}

/-- what one step does to the closure objects: nothing; or `Closure` appends one new object; or
`SetFree i` of the running closure `cid` replaces entry `i` of ITS object by the value on top of
the stack — and changes neither the stack nor the globals -/
theorem fstep_heap {s s' : FSt} (hs : fstep K F s = some s') :
    s'.h = s.h ∨ (∃ vs, s'.h = s.h ++ [vs]) ∨
    (∃ i v fr, fetch s.act.code s.act.pc = some (.setFree i) ∧ s.stk.head? = some v ∧ s.h[s.act.cid]? = some fr ∧ i < fr.length ∧
      s'.h = s.h.set s.act.cid (fr.set i v) ∧ s'.stk = s.stk ∧ s'.g = s.g ∧ s'.callers = s.callers) := by
  unfold fstep at hs
  cases hf : fetch s.act.code s.act.pc with
  | none => simp [hf] at hs
  | some ins =>
    simp only [hf] at hs
    cases ins with
    | setFree i =>
      simp only at hs
      cases hstk : s.stk with
      | nil => simp [hstk] at hs
      | cons v rest =>
        simp only [hstk] at hs
        cases hfs : freeSet s.h s.act.cid i v with
        | none => simp [hfs] at hs
        | some h' =>
          simp only [hfs, Option.some.injEq] at hs
          subst hs
          unfold freeSet at hfs
          cases hfr : s.h[s.act.cid]? with
          | none => simp [hfr] at hfs
          | some fr =>
            simp only [hfr] at hfs
            by_cases hi : i < fr.length
            · simp only [hi, if_true, Option.some.injEq] at hfs
              exact Or.inr (Or.inr ⟨i, v, fr, rfl, by simp, rfl, hi, hfs.symm, rfl, rfl, rfl⟩)
            · simp [hi] at hfs
    | closure c n =>
      simp only at hs
      repeat' split at hs
      all_goals first | (simp at hs; done) | (simp only [Option.some.injEq] at hs; subst hs; exact Or.inr (Or.inl ⟨_, rfl⟩))
    | _ =>
      simp only at hs
      repeat' split at hs
      all_goals first | (simp at hs; done) | (simp only [Option.some.injEq] at hs; subst hs; exact Or.inl rfl)

/-- the state is about to assign a captured variable of closure object `id`: the running
activation is an activation of `id` and its next instruction is a `SetFree` -/
def AssignsOwn (id : Nat) (s : FSt) : Prop := s.act.cid = id ∧ ∃ i, fetch s.act.code s.act.pc = some (.setFree i)

/-- a run in which no activation of closure object `id` assigns one of its captured variables -/
inductive QuietSteps (K : List Val) (F : FnDef → Option (List Instr)) (id : Nat) : FSt → FSt → Prop
  | refl (s) : QuietSteps K F id s s
  | cons {s s' s''} : ¬ AssignsOwn id s → fstep K F s = some s' → QuietSteps K F id s' s'' → QuietSteps K F id s s''

theorem QuietSteps.steps {id : Nat} {s s' : FSt} (h : QuietSteps K F id s s') : FSteps K F s s' := by
  induction h with
  | refl => exact .refl _
  | cons _ hs _ ih => exact .cons hs ih

/-- closure objects are never removed -/
theorem fstep_heap_mono {s s' : FSt} (hs : fstep K F s = some s') : s.h.length ≤ s'.h.length := by
  rcases fstep_heap hs with h | ⟨vs, h⟩ | ⟨i, v, fr, _, _, _, _, h, _⟩ <;> simp [h]

theorem steps_heap_mono {s s' : FSt} (h : FSteps K F s s') : s.h.length ≤ s'.h.length := by
  induction h with
  | refl => exact Nat.le_refl _
  | cons hs _ ih => exact Nat.le_trans (fstep_heap_mono hs) ih

/-- one step leaves closure object `id` as it is, unless it is an assignment of object `id`'s own
running activation to one of its captured variables -/
theorem fstep_object_frame {s s' : FSt} {id : Nat} (hs : fstep K F s = some s') (hid : id < s.h.length)
    (hq : ¬ AssignsOwn id s) : s'.h[id]? = s.h[id]? := by
  rcases fstep_heap hs with h | ⟨vs, h⟩ | ⟨i, v, fr, hf, _, _, _, h, _⟩
  · rw [h]
  · rw [h, List.getElem?_append_left hid]
  · rw [h]
    have hne : s.act.cid ≠ id := fun e => hq ⟨e, i, hf⟩
    exact List.getElem?_set_ne hne

/-- **`snapshot_stable`**: along every run in which closure object `id`'s own activations do not
assign its captured variables, the object stays what it was — whatever else runs: the function
that created it assigns the captured variable (`SetLocal` / `DefineLocal`), returns (its slots
are gone), other closures are created, called, and assign THEIR copies -/
theorem snapshot_stable {s s' : FSt} {id : Nat} (h : QuietSteps K F id s s') (hid : id < s.h.length) :
    s'.h[id]? = s.h[id]? := by
  induction h with
  | refl => rfl
  | cons hq hs _ ih =>
    rw [ih (Nat.lt_of_lt_of_le hid (fstep_heap_mono hs)), fstep_object_frame hs hid hq]

/-- **`closure_snapshot`, on the machine**: `Closure c n` with the values `vs` of the captured
variables loaded (the last one on top) creates object `id = h.length` holding `vs`; after ANY
run in which that object's own activations do not assign (`QuietSteps`), in any activation of
the object (`cid = id`), `GetFree i` pushes `vs[i]` — the value the variable had when the closure
was created -/
theorem closure_snapshot_machine {X Y : Ctxt} {pc c : Nat} {vs ops : List Val} {σ : Sto} {fd : FnDef}
    {s2 : FSt} {pc' i : Nat} {ops' : List Val} {σ' : Sto} {v : Val}
    (hc : codeAt X.code pc [Instr.closure c vs.length]) (hk : K[c]? = some (.func fd))
    (hrun : QuietSteps K F σ.h.length (X.st (pc + 4) (.clos fd [] σ.h.length :: ops) ⟨σ.l, σ.g, σ.h ++ [vs], σ.a⟩) s2)
    (hs2 : s2 = Y.st pc' ops' σ') (hY : Y.cid = σ.h.length)
    (hg : codeAt Y.code pc' [Instr.getFree i]) (hv : vs[i]? = some v) :
    fstep K F (X.st pc (vs.reverse ++ ops) σ) = some (X.st (pc + 4) (.clos fd [] σ.h.length :: ops) ⟨σ.l, σ.g, σ.h ++ [vs], σ.a⟩) ∧
    fstep K F s2 = some (Y.st (pc' + 2) (v :: ops') σ') := by
  refine ⟨fstep_closure hc hk, ?_⟩
  have hst := snapshot_stable hrun (by simp [Ctxt.st, Ctxt.at])
  subst hs2
  have hcell : σ'.h[σ.h.length]? = some vs := by
    have : (Y.st pc' ops' σ').h = σ'.h := rfl
    rw [this] at hst
    rw [hst]
    simp [Ctxt.st, Ctxt.at]
  exact fstep_getFree hg (by rw [hY]; simp [freeGet, hcell, hv])

/-- what a `SetFree i` step is -/
theorem fstep_setFree_inv {s s' : FSt} {i : Nat}
    (hf : fetch s.act.code s.act.pc = some (.setFree i)) (hs : fstep K F s = some s') :
    ∃ v rest fr, s.stk = v :: rest ∧ s.h[s.act.cid]? = some fr ∧ i < fr.length ∧ s.act.cid < s.h.length ∧
      s' = ⟨{ s.act with pc := s.act.pc + 2 }, s.stk, s.g, s.h.set s.act.cid (fr.set i v), s.a, s.callers⟩ := by
  unfold fstep at hs
  simp only [hf] at hs
  cases hstk : s.stk with
  | nil => simp [hstk] at hs
  | cons v rest =>
    simp only [hstk] at hs
    cases hfs : freeSet s.h s.act.cid i v with
    | none => simp [hfs] at hs
    | some h' =>
      simp only [hfs, Option.some.injEq] at hs
      subst hs
      unfold freeSet at hfs
      cases hfr : s.h[s.act.cid]? with
      | none => simp [hfr] at hfs
      | some fr =>
        simp only [hfr] at hfs
        by_cases hi : i < fr.length
        · simp only [hi, if_true, Option.some.injEq] at hfs
          subst hfs
          have hlen : s.act.cid < s.h.length := by
            cases hlt : decide (s.act.cid < s.h.length) with
            | true => simpa using hlt
            | false =>
              have : s.h.length ≤ s.act.cid := by simpa using hlt
              rw [List.getElem?_eq_none this] at hfr
              cases hfr
          exact ⟨v, rest, fr, rfl, rfl, hi, hlen, rfl⟩
        · simp [hi] at hfs

/-- **`captured_assignment_is_private`**: a `SetFree i` step — the assignment `x = e` inside a
closure, `x` captured, the value `v` of `e` on top of the stack — changes NO stack slot (the local
variables and parameters of every function on the frame stack live there: the variable of the
enclosing function keeps its value), no global, no frame, no OTHER closure object (another
closure that captured the same variable keeps its copy), and of its own object only entry `i`,
which becomes `v` (what later reads of this object see, in this and in later activations) -/
theorem captured_assignment_is_private {s s' : FSt} {i : Nat}
    (hf : fetch s.act.code s.act.pc = some (.setFree i)) (hs : fstep K F s = some s') :
    s'.stk = s.stk ∧ s'.g = s.g ∧ s'.callers = s.callers ∧
    (∀ id, id ≠ s.act.cid → s'.h[id]? = s.h[id]?) ∧
    ∃ v fr, s.stk.head? = some v ∧ s.h[s.act.cid]? = some fr ∧ s'.h[s.act.cid]? = some (fr.set i v) ∧
      (fr.set i v)[i]? = some v ∧ ∀ j, j ≠ i → (fr.set i v)[j]? = fr[j]? := by
  obtain ⟨v, rest, fr, hstk, hfr, hi, hlen, rfl⟩ := fstep_setFree_inv hf hs
  refine ⟨rfl, rfl, rfl, ?_, v, fr, by simp [hstk], hfr, ?_, ?_, ?_⟩
  · intro id hne
    exact List.getElem?_set_ne (Ne.symm hne)
  · simp [List.getElem?_set_self hlen]
  · simp [hi]
  · intro j hj
    exact List.getElem?_set_ne (Ne.symm hj)

/-- **`closure_created_in_loop`**: two closures created one after the other (two iterations of a
loop; in between anything may run that is not an assignment by the FIRST closure's own
activations): the second `Closure` creates a DIFFERENT object, holding the values `vs2` loaded in
ITS iteration, and leaves the first object holding the values `vs1` of the first iteration -/
theorem closure_created_in_loop {X Y : Ctxt} {pc1 c1 pc2 c2 : Nat} {vs1 ops1 vs2 ops2 : List Val} {σ1 σ2 : Sto} {fd1 fd2 : FnDef}
    (h1 : codeAt X.code pc1 [Instr.closure c1 vs1.length]) (hk1 : K[c1]? = some (.func fd1))
    (hrun : QuietSteps K F σ1.h.length (X.st (pc1 + 4) (.clos fd1 [] σ1.h.length :: ops1) ⟨σ1.l, σ1.g, σ1.h ++ [vs1], σ1.a⟩)
      (Y.st pc2 (vs2.reverse ++ ops2) σ2))
    (h2 : codeAt Y.code pc2 [Instr.closure c2 vs2.length]) (hk2 : K[c2]? = some (.func fd2)) :
    fstep K F (X.st pc1 (vs1.reverse ++ ops1) σ1) = some (X.st (pc1 + 4) (.clos fd1 [] σ1.h.length :: ops1) ⟨σ1.l, σ1.g, σ1.h ++ [vs1], σ1.a⟩) ∧
    fstep K F (Y.st pc2 (vs2.reverse ++ ops2) σ2) = some (Y.st (pc2 + 4) (.clos fd2 [] σ2.h.length :: ops2) ⟨σ2.l, σ2.g, σ2.h ++ [vs2], σ2.a⟩) ∧
    σ1.h.length < σ2.h.length ∧
    (σ2.h ++ [vs2])[σ1.h.length]? = some vs1 ∧ (σ2.h ++ [vs2])[σ2.h.length]? = some vs2 := by
  have hm := steps_heap_mono hrun.steps
  have hlt : σ1.h.length < σ2.h.length := by
    have : (σ1.h ++ [vs1]).length ≤ σ2.h.length := hm
    simp at this
    omega
  have hst := snapshot_stable hrun (by simp [Ctxt.st, Ctxt.at])
  have hcell : σ2.h[σ1.h.length]? = some vs1 := by
    have e1 : (Y.st pc2 (vs2.reverse ++ ops2) σ2).h = σ2.h := rfl
    rw [e1] at hst
    rw [hst]
    simp [Ctxt.st, Ctxt.at]
  refine ⟨fstep_closure h1 hk1, fstep_closure h2 hk2, hlt, ?_, by simp⟩
  rw [List.getElem?_append_left hlt]
  exact hcell

end machine

/-! ## non-vacuity: the classic programs, reference evaluation and machine (by `rfl`) -/

namespace Examples

def argsOf : List FExpr → FArgs
  | [] => .nil
  | a :: r => .cons a (argsOf r)

def main0 (T : List FTop) (n : Nat) : FSt := ⟨⟨compileT 0 0 T, ⟨[], [], 0, 0, 0⟩, 0, 0, 0⟩, [], List.replicate n .null, [[]], {}, []⟩

def runGH (T : List FTop) (n fuel : Nat) : Option (List Val × List (List Val)) :=
  match frun (constsT T) (codeT T) fuel (main0 T n) with
  | .done s => if s.stk.isEmpty && s.callers.isEmpty then some (s.g, s.h) else none
  | _ => none

/-- `fn mk(n) { fn(x) { x - n } }` — the inner function reads its parameter (`GetLocal 0`) and the
captured `n` (`GetFree 0`); `mk` loads `n` (`GetLocal 0`) and creates the closure (`Closure c 1`) -/
def mkD : FDecl := ⟨1, 1, [.expr 1 (.mkclos 1 [] [] 1 1 [.expr 1 (.bin 1 .sub (.lget 1 0) (.fget 1 0))] [.loc 0])], 1⟩

/-- `fn mk(n) {…}  let a = mk(1);  let b = mk(10);  let r = a(5);  let q = b(5);` -/
def addersProg : List FTop :=
  [.fnDef 1 0 [9] [] mkD,
   .stmt (.letG 2 1 (.call 2 (.gget 2 0) (argsOf [.lit 2 (.int 1)]))),
   .stmt (.letG 3 2 (.call 3 (.gget 3 0) (argsOf [.lit 3 (.int 10)]))),
   .stmt (.letG 4 3 (.call 4 (.gget 4 1) (argsOf [.lit 4 (.int 5)]))),
   .stmt (.letG 5 4 (.call 5 (.gget 5 2) (argsOf [.lit 5 (.int 5)])))]

example : (codesT 0 addersProg).map (·.2) =
    [[.getLocal 0, .getFree 0, .op .sub, .retv], [.getLocal 0, .closure 0 1, .retv]] := by rfl

/-- the two closures made by `mk(1)` and `mk(10)` are two objects (2 and 3) holding `1` and `10`;
called after `mk` returned, each subtracts ITS `n`: `5 - 1`, `5 - 10` -/
example : evalT (phiT addersProg) 40 (List.replicate 5 .null) [[]] {} addersProg =
    some ([.clos (mkFd [9] [] mkD) [] 1, .clos ⟨[], [], 1, 1, 1⟩ [] 2, .clos ⟨[], [], 1, 1, 1⟩ [] 3, .int 4, .int (-5)],
          [[], [], [.int 1], [.int 10]], {}) := by rfl

example : runGH addersProg 5 200 =
    some ([.clos (mkFd [9] [] mkD) [] 1, .clos ⟨[], [], 1, 1, 1⟩ [] 2, .clos ⟨[], [], 1, 1, 1⟩ [] 3, .int 4, .int (-5)],
          [[], [], [.int 1], [.int 10]]) := by rfl

/-- `fn counter() { let n = 0; fn() { n = n + 1; n } }` -/
def counterD : FDecl := ⟨0, 1, [.letL 1 0 (.lit 1 (.int 0)),
  .expr 1 (.mkclos 1 [] [] 0 0 [.expr 1 (.fset 1 0 (.bin 1 .add (.fget 1 0) (.lit 1 (.int 1)))), .expr 1 (.fget 1 0)] [.loc 0])], 1⟩

/-- `let c = counter(); let d = counter(); let r1 = c(); let r2 = c(); let r3 = d(); let e = c; let r4 = e();` -/
def counterProg : List FTop :=
  [.fnDef 1 0 [9] [] counterD,
   .stmt (.letG 2 1 (.call 2 (.gget 2 0) .nil)),
   .stmt (.letG 3 2 (.call 3 (.gget 3 0) .nil)),
   .stmt (.letG 4 3 (.call 4 (.gget 4 1) .nil)),
   .stmt (.letG 5 4 (.call 5 (.gget 5 1) .nil)),
   .stmt (.letG 6 5 (.call 6 (.gget 6 2) .nil)),
   .stmt (.letG 7 6 (.gget 7 1)),
   .stmt (.letG 8 7 (.call 8 (.gget 8 6) .nil))]

/-- the assignment is private to the closure object and persists across its activations: `c`
counts 1, 2; `d`, created by another call of `counter`, starts at 1 again; `e` is the SAME
object as `c` and counts on: 3.  In the end object 2 (`c`, `e`) holds 3, object 3 (`d`) holds 1 -/
example : evalT (phiT counterProg) 40 (List.replicate 8 .null) [[]] {} counterProg =
    some ([.clos (mkFd [9] [] counterD) [] 1, .clos ⟨[], [], 0, 0, 1⟩ [] 2, .clos ⟨[], [], 0, 0, 1⟩ [] 3,
           .int 1, .int 2, .int 1, .clos ⟨[], [], 0, 0, 1⟩ [] 2, .int 3],
          [[], [], [.int 3], [.int 1]], {}) := by rfl

example : runGH counterProg 8 400 =
    some ([.clos (mkFd [9] [] counterD) [] 1, .clos ⟨[], [], 0, 0, 1⟩ [] 2, .clos ⟨[], [], 0, 0, 1⟩ [] 3,
           .int 1, .int 2, .int 1, .clos ⟨[], [], 0, 0, 1⟩ [] 2, .int 3],
          [[], [], [.int 3], [.int 1]]) := by rfl

/-- `fn f(a) { let h = fn() { a }; a = a + 100; h() - a }` — the enclosing function changes its
variable AFTER the closure was created: the closure still reads 1, `f(1)` is `1 - 101` -/
def laterD : FDecl := ⟨1, 2, [.letL 1 1 (.mkclos 1 [] [] 0 0 [.expr 1 (.fget 1 0)] [.loc 0]),
   .expr 1 (.lset 1 0 (.bin 1 .add (.lget 1 0) (.lit 1 (.int 100)))),
   .expr 1 (.bin 1 .sub (.call 1 (.lget 1 1) .nil) (.lget 1 0))], 1⟩
def laterProg : List FTop := [.fnDef 1 0 [9] [] laterD, .stmt (.letG 2 1 (.call 2 (.gget 2 0) (argsOf [.lit 2 (.int 1)])))]

example : evalT (phiT laterProg) 40 (List.replicate 2 .null) [[]] {} laterProg =
    some ([.clos (mkFd [9] [] laterD) [] 1, .int (-100)], [[], [], [.int 1]], {}) := by rfl
example : runGH laterProg 2 200 = some ([.clos (mkFd [9] [] laterD) [] 1, .int (-100)], [[], [], [.int 1]]) := by rfl

/-- `let c0 = null; let c1 = null;
fn make(n) { let i = 0; while i < n { i = i + 1; let j = i * 10; if i == 1 { c0 = fn() { j }; } else { c1 = fn() { j }; }; } }
make(2); let r0 = c0(); let r1 = c1();` — closures created in a loop, capturing the loop-local `j` (ONE slot of `make`) -/
def loopD : FDecl := ⟨1, 3,
  [.letL 1 1 (.lit 1 (.int 0)),
   .whileS 2 none (.lt 2 (.lget 2 1) (.lget 2 0))
     [.expr 3 (.lset 3 1 (.bin 3 .add (.lget 3 1) (.lit 3 (.int 1)))),
      .letL 4 2 (.bin 4 .mul (.lget 4 1) (.lit 4 (.int 10))),
      .ifS 5 5 (.bin 5 .equal (.lget 5 1) (.lit 5 (.int 1)))
        [.expr 5 (.gset 5 0 (.mkclos 5 [] [] 0 0 [.expr 5 (.fget 5 0)] [.loc 2]))]
        [.expr 6 (.gset 6 1 (.mkclos 6 [] [] 0 0 [.expr 6 (.fget 6 0)] [.loc 2]))]]], 1⟩
def loopProg : List FTop :=
  [.stmt (.letG 1 0 (.null 1)), .stmt (.letG 1 1 (.null 1)), .fnDef 1 2 [9] [] loopD,
   .stmt (.expr 7 (.call 7 (.gget 7 2) (argsOf [.lit 7 (.int 2)]))),
   .stmt (.letG 8 3 (.call 8 (.gget 8 0) .nil)),
   .stmt (.letG 9 4 (.call 9 (.gget 9 1) .nil))]

/-- each iteration's closure keeps that iteration's `j` (10, then 20) although both captured the
same slot of `make`, which was overwritten by the second iteration and is gone after `make` returned -/
example : evalT (phiT loopProg) 60 (List.replicate 5 .null) [[]] {} loopProg =
    some ([.clos ⟨[], [], 0, 0, 5⟩ [] 2, .clos ⟨[], [], 0, 0, 6⟩ [] 3, .clos (mkFd [9] [] loopD) [] 1, .int 10, .int 20],
          [[], [], [.int 10], [.int 20]], {}) := by rfl
example : runGH loopProg 5 600 =
    some ([.clos ⟨[], [], 0, 0, 5⟩ [] 2, .clos ⟨[], [], 0, 0, 6⟩ [] 3, .clos (mkFd [9] [] loopD) [] 1, .int 10, .int 20],
          [[], [], [.int 10], [.int 20]]) := by rfl

/-- `laterProg`, `addersProg`, `loopProg` never assign a captured variable: `closure_objects_immutable` applies to them -/
example : ((fnsT 0 laterProg).all (fun x => noFsetP x.2.1.body) && (fnsT 0 addersProg).all (fun x => noFsetP x.2.1.body)
    && (fnsT 0 loopProg).all (fun x => noFsetP x.2.1.body)) = true := by rfl
/-- … `counterProg` does -/
example : (fnsT 0 counterProg).all (fun x => noFsetP x.2.1.body) = false := by rfl

/-! ### the recogniser: which instruction loads which captured variable (the free indices) -/

def codesOf (p : List Stmt) : Option (List (List Instr)) := (ofTops 60 ⟨0, [], []⟩ 0 p).map (fun r => (codesT 0 r.1).map (·.2))

/-- `fn o(a, b) { fn(x) { fn(y) { b - y - a } } }` — a capture chain: the innermost function
references `b` first (free 0), then `a` (free 1); the intermediate function, which uses neither
itself, captures both in that order from `o`'s slots (`GetLocal 1`, `GetLocal 0`) and hands its
copies on (`GetFree 0`, `GetFree 1`) -/
example : codesOf [.fnS 1 0 "o" ["a", "b"] (.mk 1 [.exprS 1 (.fn 1 "" ["x"] (.mk 1 [.exprS 1 (.fn 1 "" ["y"] (.mk 1
      [.exprS 1 (.binary 1 "-" (.binary 1 "-" (.ident 1 "b" .get) (.ident 1 "y" .get)) (.ident 1 "a" .get))]))]))])] =
    some [[.getFree 0, .getLocal 0, .op .sub, .getFree 1, .op .sub, .retv],
          [.getFree 0, .getFree 1, .closure 0 2, .retv],
          [.getLocal 1, .getLocal 0, .closure 1 2, .retv]] := by rfl

/-- `fn o(a, b) { fn() { a = b; a - b } }` — the right-hand side of an assignment is compiled
before its target: `b` is free 0, `a` free 1 -/
example : codesOf [.fnS 1 0 "o" ["a", "b"] (.mk 1 [.exprS 1 (.fn 1 "" [] (.mk 1
      [.exprS 1 (.assign 1 (.ident 1 "a" .set) (.ident 1 "b" .get)), .exprS 1 (.binary 1 "-" (.ident 1 "a" .get) (.ident 1 "b" .get))]))])] =
    some [[.getFree 0, .setFree 1, .pop, .getFree 1, .getFree 0, .op .sub, .retv],
          [.getLocal 1, .getLocal 0, .closure 0 2, .retv]] := by rfl

/-- `fn f(n) { fn(k) { f(k) } }` — the enclosing function's own name is captured (`CurrClosure`) -/
example : codesOf [.fnS 1 0 "f" ["n"] (.mk 1 [.exprS 1 (.fn 1 "" ["k"] (.mk 1 [.exprS 1 (.call 1 (.ident 1 "f" .get) [.ident 1 "k" .get])]))])] =
    some [[.getFree 0, .getLocal 0, .call 1, .retv], [.currClosure, .closure 0 1, .retv]] := by rfl

end Examples

end P2sh.Props.C04Closure
